import Generated.PureHttp
import Req.Client.Validate
import Req.H1.LineSplit
/-!
Bridge: `isTokenBoundary`, `stringContainsCTLByte` (http.go), `isASCIILetter`, `trim`
(textproto_reader.go), translated from the Go source by `tools/gofacts` on every run, against the
model functions used by the request-validation (C01), header-parsing (C04) and hostile-input (C07)
theorems.  `trim` has two index-moving `for cond {…}` loops: the theorem also says they terminate
within `len(s)+1` iterations each and never index or slice out of range.
-/
namespace Bridge.PureHttp
open Req.GoSem
open Generated.PureHttp (stringContainsCTLByte_loop1 trim_loop1 trim_loop2)

theorem isTokenBoundary_bridge (b : UInt8) :
    Generated.PureHttp.isTokenBoundary b = Req.Validate.isTokenBoundary b := by
  have h : ∀ n, n < 256 → Generated.PureHttp.isTokenBoundary (UInt8.ofNat n) =
      Req.Validate.isTokenBoundary (UInt8.ofNat n) := by decide +kernel
  simpa using h b.toNat (UInt8.toNat_lt b)

theorem isASCIILetter_bridge (b : UInt8) :
    Generated.PureHttp.isASCIILetter b = Req.Ascii.isAlpha b := by
  have h : ∀ n, n < 256 → Generated.PureHttp.isASCIILetter (UInt8.ofNat n) =
      Req.Ascii.isAlpha (UInt8.ofNat n) := by decide +kernel
  simpa using h b.toNat (UInt8.toNat_lt b)

/-- the loop body's test, on all 256 bytes -/
private theorem ctl_byte (b : UInt8) :
    ((decide (b < (32 : UInt8))) || (b == (127 : UInt8))) = Req.Validate.isCTL b := by
  have h : ∀ n, n < 256 → ((decide (UInt8.ofNat n < (32 : UInt8))) || (UInt8.ofNat n == (127 : UInt8))) =
      Req.Validate.isCTL (UInt8.ofNat n) := by decide +kernel
  simpa using h b.toNat (UInt8.toNat_lt b)

private theorem idx_app {α : Type} (pre : List α) (c : α) (post : List α) :
    idx? (pre ++ c :: post) (pre.length : Int) = some c := by
  rw [idx?_eq_getElem?]; simp

private theorem ctl_loop : ∀ (fuel : Nat) (pre rest : Bytes), rest.length = fuel →
    stringContainsCTLByte_loop1 (pre ++ rest) fuel (pre.length : Int) = Res.ok (rest.any Req.Validate.isCTL) := by
  intro fuel
  induction fuel with
  | zero => intro pre rest h; have : rest = [] := List.length_eq_zero_iff.mp h
            subst this; simp [stringContainsCTLByte_loop1]
  | succ f ih =>
    intro pre rest h
    cases rest with
    | nil => simp at h
    | cons c r =>
      rw [stringContainsCTLByte_loop1, idx_app]
      simp only [ctl_byte]
      by_cases hc : Req.Validate.isCTL c = true
      · simp [hc]
      · simp only [hc, Bool.false_eq_true, if_false]
        have := ih (pre ++ [c]) r (by simpa using h)
        simp only [List.append_assoc, List.singleton_append, List.length_append, List.length_singleton] at this
        rw [show ((pre.length : Int) + 1) = ((pre.length + 1 : Nat) : Int) by simp, this]
        simp [hc]

/-- `stringContainsCTLByte` never panics and holds exactly when some byte is an ASCII control byte. -/
theorem stringContainsCTLByte_bridge (s : Bytes) :
    Generated.PureHttp.stringContainsCTLByte s = Res.ok (s.any Req.Validate.isCTL) := by
  unfold Generated.PureHttp.stringContainsCTLByte
  have := ctl_loop s.length [] s rfl
  simpa [len] using this

/-! ### trim -/

private theorem ows_eq (c : UInt8) : Req.H1.isOWS c = ((c == 32) || (c == 9)) := by
  have h : ∀ n, n < 256 → Req.H1.isOWS (UInt8.ofNat n) =
      ((UInt8.ofNat n == 32) || (UInt8.ofNat n == 9)) := by decide +kernel
  simpa using h c.toNat (UInt8.toNat_lt c)

private theorem slice_mid (pre mid post : Bytes) :
    slice? (pre ++ mid ++ post) (pre.length : Int) ((pre.length + mid.length : Nat) : Int) = some mid := by
  unfold slice? len
  have : (0 : Int) ≤ (pre.length : Int) ∧ (pre.length : Int) ≤ ((pre.length + mid.length : Nat) : Int) ∧
      ((pre.length + mid.length : Nat) : Int) ≤ ((pre ++ mid ++ post).length : Int) := by
    simp; omega
  simp only [this, and_self, if_true, Int.toNat_natCast]
  have h1 : (pre ++ mid ++ post).take (pre.length + mid.length) = pre ++ mid := by
    have : pre.length + mid.length = (pre ++ mid).length := by simp
    rw [this, List.take_left']
    rfl
  rw [h1]
  simp

private theorem loop2 : ∀ (fuel : Nat) (pre mid post : Bytes), mid.length < fuel →
    trim_loop2 (pre ++ mid ++ post) (pre.length : Int) fuel ((pre.length + mid.length : Nat) : Int) =
      Res.ok ((mid.reverse.dropWhile Req.H1.isOWS).reverse) := by
  intro fuel
  induction fuel with
  | zero => intro _ mid _ h; omega
  | succ f ih =>
    intro pre mid post h
    rcases List.eq_nil_or_concat mid with rfl | ⟨m, c, rfl⟩
    · rw [trim_loop2]
      have : ¬ (((pre.length + ([] : Bytes).length : Nat) : Int) > (pre.length : Int)) := by simp
      simp only [this, decide_false, Bool.false_eq_true, if_false]
      have := slice_mid pre [] post
      simp only [List.append_nil, List.length_nil, Nat.add_zero] at this ⊢
      rw [this]; simp
    · simp only [List.concat_eq_append] at h ⊢
      rw [trim_loop2]
      have hgt : (((pre.length + (m ++ [c]).length : Nat) : Int) > (pre.length : Int)) := by simp; omega
      have hidx : idx? (pre ++ (m ++ [c]) ++ post) (((pre.length + (m ++ [c]).length : Nat) : Int) - 1) = some c := by
        have e : (((pre.length + (m ++ [c]).length : Nat) : Int) - 1) = (((pre ++ m).length : Nat) : Int) := by
          simp; omega
        rw [e]
        have : pre ++ (m ++ [c]) ++ post = (pre ++ m) ++ c :: post := by simp
        rw [this, idx_app]
      have hrec := ih pre m (c :: post) (by simp at h; omega)
      have hs : pre ++ m ++ c :: post = pre ++ (m ++ [c]) ++ post := by simp
      rw [hs] at hrec
      have hn1 : (((pre.length + (m ++ [c]).length : Nat) : Int) - 1) = ((pre.length + m.length : Nat) : Int) := by
        simp; omega
      simp only [hgt, decide_true, if_true, hidx]
      have hows := ows_eq c
      by_cases h32 : c = 32
      · subst h32
        simp only [beq_self_eq_true, if_true, hn1, hrec]
        simp [Req.H1.isOWS, Req.H1.SP]
      · have e32 : (c == (32 : UInt8)) = false := by simp [h32]
        simp only [e32, Bool.false_eq_true, if_false]
        by_cases h9 : c = 9
        · subst h9
          simp only [beq_self_eq_true, if_true, hn1, hrec]
          simp [Req.H1.isOWS, Req.H1.HT]
        · have e9 : (c == (9 : UInt8)) = false := by simp [h9]
          simp only [e9, Bool.false_eq_true, if_false]
          rw [slice_mid pre (m ++ [c]) post]
          have : Req.H1.isOWS c = false := by rw [hows, e32, e9]; rfl
          simp [this]

private theorem loop1 : ∀ (fuel : Nat) (pre rest : Bytes), rest.length < fuel →
    trim_loop1 (pre ++ rest) fuel (pre.length : Int) =
      trim_loop2 (pre ++ rest) (((pre ++ rest.takeWhile Req.H1.isOWS).length : Nat) : Int)
        ((pre ++ rest).length + 1) (len (pre ++ rest)) := by
  intro fuel
  induction fuel with
  | zero => intro _ rest h; omega
  | succ f ih =>
    intro pre rest h
    cases rest with
    | nil =>
      rw [trim_loop1]
      have : ¬ ((pre.length : Int) < len (pre ++ ([] : Bytes))) := by simp [len]
      simp only [this, decide_false, Bool.false_eq_true, if_false]
      simp
    | cons c r =>
      rw [trim_loop1]
      have hlt : ((pre.length : Int) < len (pre ++ c :: r)) := by simp [len]; omega
      simp only [hlt, decide_true, if_true, idx_app]
      have hrec := ih (pre ++ [c]) r (by simp at h; omega)
      have hs : pre ++ [c] ++ r = pre ++ c :: r := by simp
      rw [hs] at hrec
      have hi1 : ((pre.length : Int) + 1) = (((pre ++ [c]).length : Nat) : Int) := by simp
      have hows := ows_eq c
      by_cases h32 : c = 32
      · subst h32
        simp only [beq_self_eq_true, if_true, hi1, hrec]
        simp [Req.H1.isOWS, Req.H1.SP]
      · have e32 : (c == (32 : UInt8)) = false := by simp [h32]
        simp only [e32, Bool.false_eq_true, if_false]
        by_cases h9 : c = 9
        · subst h9
          simp only [beq_self_eq_true, if_true, hi1, hrec]
          simp [Req.H1.isOWS, Req.H1.HT]
        · have e9 : (c == (9 : UInt8)) = false := by simp [h9]
          simp only [e9, Bool.false_eq_true, if_false]
          have : Req.H1.isOWS c = false := by rw [hows, e32, e9]; rfl
          simp [this]

/-- `trim` (textproto_reader.go) terminates, never indexes or slices out of range, and is the
model's `trimOWS` (spaces and tabs off both ends), for every byte string. -/
theorem trim_bridge (s : Bytes) : Generated.PureHttp.trim s = Res.ok (Req.H1.trimOWS s) := by
  unfold Generated.PureHttp.trim
  have h1 := loop1 (s.length + 1) [] s (by omega)
  simp only [List.nil_append, List.length_nil] at h1
  rw [show ((0 : Int)) = ((0 : Nat) : Int) by rfl, h1]
  have hsplit : s = s.takeWhile Req.H1.isOWS ++ s.dropWhile Req.H1.isOWS ++ [] := by simp
  have h2 := loop2 (s.length + 1) (s.takeWhile Req.H1.isOWS) (s.dropWhile Req.H1.isOWS) []
    (by have := congrArg List.length (List.takeWhile_append_dropWhile (p := Req.H1.isOWS) (l := s))
        rw [List.length_append] at this; omega)
  rw [← hsplit] at h2
  have hl : len s = (((s.takeWhile Req.H1.isOWS).length + (s.dropWhile Req.H1.isOWS).length : Nat) : Int) := by
    have := congrArg List.length (List.takeWhile_append_dropWhile (p := Req.H1.isOWS) (l := s))
    rw [List.length_append] at this; unfold len; omega
  rw [hl, h2]
  rfl

end Bridge.PureHttp
