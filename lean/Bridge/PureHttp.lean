import Generated.PureHttp
import Bridge.PureAscii
import Req.Client.Validate
import Req.H1.LineSplit
/-!
Bridge: `isTokenBoundary`, `stringContainsCTLByte` (http.go), `isASCIILetter`, `trim`
(textproto_reader.go), translated from the Go source by `tools/gofacts` on every run, against the
model functions used by the request-validation (C01), header-parsing (C04) and hostile-input (C07)
theorems.  `trim` has two index-moving `for cond {…}` loops: the theorem also says they terminate
within `len(s)+1` iterations each and never index or slice out of range.
-/
namespace Bridge.PureHttp
open Req.GoSem
open Generated.PureHttp (stringContainsCTLByte_loop1 trim_loop1 trim_loop2 hasToken_loop1)

theorem isTokenBoundary_bridge (b : UInt8) :
    Generated.PureHttp.isTokenBoundary b = Req.Validate.isTokenBoundary b := by
  have h : ∀ n, n < 256 → Generated.PureHttp.isTokenBoundary (UInt8.ofNat n) =
      Req.Validate.isTokenBoundary (UInt8.ofNat n) := by decide +kernel
  simpa using h b.toNat (UInt8.toNat_lt b)

theorem isASCIILetter_bridge (b : UInt8) :
    Generated.PureHttp.isASCIILetter b = Req.Ascii.isAlpha b := by
  have h : ∀ n, n < 256 → Generated.PureHttp.isASCIILetter (UInt8.ofNat n) =
      Req.Ascii.isAlpha (UInt8.ofNat n) := by decide +kernel
  simpa using h b.toNat (UInt8.toNat_lt b)

/-- the loop body's test, on all 256 bytes -/
theorem ctl_byte (b : UInt8) :
    ((decide (b < (32 : UInt8))) || (b == (127 : UInt8))) = Req.Validate.isCTL b := by
  have h : ∀ n, n < 256 → ((decide (UInt8.ofNat n < (32 : UInt8))) || (UInt8.ofNat n == (127 : UInt8))) =
      Req.Validate.isCTL (UInt8.ofNat n) := by decide +kernel
  simpa using h b.toNat (UInt8.toNat_lt b)

theorem idx_app {α : Type} (pre : List α) (c : α) (post : List α) :
    idx? (pre ++ c :: post) (pre.length : Int) = some c := by
  rw [idx?_eq_getElem?]; simp

theorem ctl_loop : ∀ (fuel : Nat) (pre rest : Bytes), rest.length = fuel →
    stringContainsCTLByte_loop1 (pre ++ rest) fuel (pre.length : Int) = Res.ok (rest.any Req.Validate.isCTL) := by
  intro fuel
  induction fuel with
  | zero => intro pre rest h; have : rest = [] := List.length_eq_zero_iff.mp h
            subst this; simp [stringContainsCTLByte_loop1]
  | succ f ih =>
    intro pre rest h
    cases rest with
    | nil => simp at h
    | cons c r =>
      rw [stringContainsCTLByte_loop1, idx_app]
      simp only [ctl_byte]
      by_cases hc : Req.Validate.isCTL c = true
      · simp [hc]
      · simp only [hc, Bool.false_eq_true, if_false]
        have := ih (pre ++ [c]) r (by simpa using h)
        simp only [List.append_assoc, List.singleton_append, List.length_append, List.length_singleton] at this
        rw [show ((pre.length : Int) + 1) = ((pre.length + 1 : Nat) : Int) by simp, this]
        simp [hc]

/-- `stringContainsCTLByte` never panics and holds exactly when some byte is an ASCII control byte. -/
theorem stringContainsCTLByte_bridge (s : Bytes) :
    Generated.PureHttp.stringContainsCTLByte s = Res.ok (s.any Req.Validate.isCTL) := by
  unfold Generated.PureHttp.stringContainsCTLByte
  have := ctl_loop s.length [] s rfl
  simpa [len] using this

/-! ### trim -/

theorem ows_eq (c : UInt8) : Req.H1.isOWS c = ((c == 32) || (c == 9)) := by
  have h : ∀ n, n < 256 → Req.H1.isOWS (UInt8.ofNat n) =
      ((UInt8.ofNat n == 32) || (UInt8.ofNat n == 9)) := by decide +kernel
  simpa using h c.toNat (UInt8.toNat_lt c)

theorem slice_mid (pre mid post : Bytes) :
    slice? (pre ++ mid ++ post) (pre.length : Int) ((pre.length + mid.length : Nat) : Int) = some mid := by
  unfold slice? len
  have : (0 : Int) ≤ (pre.length : Int) ∧ (pre.length : Int) ≤ ((pre.length + mid.length : Nat) : Int) ∧
      ((pre.length + mid.length : Nat) : Int) ≤ ((pre ++ mid ++ post).length : Int) := by
    simp; omega
  simp only [this, and_self, if_true, Int.toNat_natCast]
  have h1 : (pre ++ mid ++ post).take (pre.length + mid.length) = pre ++ mid := by
    have : pre.length + mid.length = (pre ++ mid).length := by simp
    rw [this, List.take_left']
    rfl
  rw [h1]
  simp

theorem loop2 : ∀ (fuel : Nat) (pre mid post : Bytes), mid.length < fuel →
    trim_loop2 (pre ++ mid ++ post) (pre.length : Int) fuel ((pre.length + mid.length : Nat) : Int) =
      Res.ok ((mid.reverse.dropWhile Req.H1.isOWS).reverse) := by
  intro fuel
  induction fuel with
  | zero => intro _ mid _ h; omega
  | succ f ih =>
    intro pre mid post h
    rcases List.eq_nil_or_concat mid with rfl | ⟨m, c, rfl⟩
    · rw [trim_loop2]
      have : ¬ (((pre.length + ([] : Bytes).length : Nat) : Int) > (pre.length : Int)) := by simp
      simp only [this, decide_false, Bool.false_eq_true, if_false]
      have := slice_mid pre [] post
      simp only [List.append_nil, List.length_nil, Nat.add_zero] at this ⊢
      rw [this]; simp
    · simp only [List.concat_eq_append] at h ⊢
      rw [trim_loop2]
      have hgt : (((pre.length + (m ++ [c]).length : Nat) : Int) > (pre.length : Int)) := by simp; omega
      have hidx : idx? (pre ++ (m ++ [c]) ++ post) (((pre.length + (m ++ [c]).length : Nat) : Int) - 1) = some c := by
        have e : (((pre.length + (m ++ [c]).length : Nat) : Int) - 1) = (((pre ++ m).length : Nat) : Int) := by
          simp; omega
        rw [e]
        have : pre ++ (m ++ [c]) ++ post = (pre ++ m) ++ c :: post := by simp
        rw [this, idx_app]
      have hrec := ih pre m (c :: post) (by simp at h; omega)
      have hs : pre ++ m ++ c :: post = pre ++ (m ++ [c]) ++ post := by simp
      rw [hs] at hrec
      have hn1 : (((pre.length + (m ++ [c]).length : Nat) : Int) - 1) = ((pre.length + m.length : Nat) : Int) := by
        simp; omega
      simp only [hgt, decide_true, if_true, hidx]
      have hows := ows_eq c
      by_cases h32 : c = 32
      · subst h32
        simp only [beq_self_eq_true, if_true, hn1, hrec]
        simp [Req.H1.isOWS, Req.H1.SP]
      · have e32 : (c == (32 : UInt8)) = false := by simp [h32]
        simp only [e32, Bool.false_eq_true, if_false]
        by_cases h9 : c = 9
        · subst h9
          simp only [beq_self_eq_true, if_true, hn1, hrec]
          simp [Req.H1.isOWS, Req.H1.HT]
        · have e9 : (c == (9 : UInt8)) = false := by simp [h9]
          simp only [e9, Bool.false_eq_true, if_false]
          rw [slice_mid pre (m ++ [c]) post]
          have : Req.H1.isOWS c = false := by rw [hows, e32, e9]; rfl
          simp [this]

theorem loop1 : ∀ (fuel : Nat) (pre rest : Bytes), rest.length < fuel →
    trim_loop1 (pre ++ rest) fuel (pre.length : Int) =
      trim_loop2 (pre ++ rest) (((pre ++ rest.takeWhile Req.H1.isOWS).length : Nat) : Int)
        ((pre ++ rest).length + 1) (len (pre ++ rest)) := by
  intro fuel
  induction fuel with
  | zero => intro _ rest h; omega
  | succ f ih =>
    intro pre rest h
    cases rest with
    | nil =>
      rw [trim_loop1]
      have : ¬ ((pre.length : Int) < len (pre ++ ([] : Bytes))) := by simp [len]
      simp only [this, decide_false, Bool.false_eq_true, if_false]
      simp
    | cons c r =>
      rw [trim_loop1]
      have hlt : ((pre.length : Int) < len (pre ++ c :: r)) := by simp [len]; omega
      simp only [hlt, decide_true, if_true, idx_app]
      have hrec := ih (pre ++ [c]) r (by simp at h; omega)
      have hs : pre ++ [c] ++ r = pre ++ c :: r := by simp
      rw [hs] at hrec
      have hi1 : ((pre.length : Int) + 1) = (((pre ++ [c]).length : Nat) : Int) := by simp
      have hows := ows_eq c
      by_cases h32 : c = 32
      · subst h32
        simp only [beq_self_eq_true, if_true, hi1, hrec]
        simp [Req.H1.isOWS, Req.H1.SP]
      · have e32 : (c == (32 : UInt8)) = false := by simp [h32]
        simp only [e32, Bool.false_eq_true, if_false]
        by_cases h9 : c = 9
        · subst h9
          simp only [beq_self_eq_true, if_true, hi1, hrec]
          simp [Req.H1.isOWS, Req.H1.HT]
        · have e9 : (c == (9 : UInt8)) = false := by simp [h9]
          simp only [e9, Bool.false_eq_true, if_false]
          have : Req.H1.isOWS c = false := by rw [hows, e32, e9]; rfl
          simp [this]

/-- `trim` (textproto_reader.go) terminates, never indexes or slices out of range, and is the
model's `trimOWS` (spaces and tabs off both ends), for every byte string. -/
theorem trim_bridge (s : Bytes) : Generated.PureHttp.trim s = Res.ok (Req.H1.trimOWS s) := by
  unfold Generated.PureHttp.trim
  have h1 := loop1 (s.length + 1) [] s (by omega)
  simp only [List.nil_append, List.length_nil] at h1
  rw [show ((0 : Int)) = ((0 : Nat) : Int) by rfl, h1]
  have hsplit : s = s.takeWhile Req.H1.isOWS ++ s.dropWhile Req.H1.isOWS ++ [] := by simp
  have h2 := loop2 (s.length + 1) (s.takeWhile Req.H1.isOWS) (s.dropWhile Req.H1.isOWS) []
    (by have := congrArg List.length (List.takeWhile_append_dropWhile (p := Req.H1.isOWS) (l := s))
        rw [List.length_append] at this; omega)
  rw [← hsplit] at h2
  have hl : len s = (((s.takeWhile Req.H1.isOWS).length + (s.dropWhile Req.H1.isOWS).length : Nat) : Int) := by
    have := congrArg List.length (List.takeWhile_append_dropWhile (p := Req.H1.isOWS) (l := s))
    rw [List.length_append] at this; unfold len; omega
  rw [hl, h2]
  rfl

/-! ### hasToken -/
section HasToken
open Req.Validate Req.Ascii

/-- every byte equals its lower-case form, or does so after setting bit 5 (the first-character filter of `hasToken`) -/
theorem filter_byte (b : UInt8) : (b == toLower b || (b ||| 32) == toLower b) = true := by
  have h : ∀ n, n < 256 → ((UInt8.ofNat n) == toLower (UInt8.ofNat n) || ((UInt8.ofNat n) ||| 32) == toLower (UInt8.ofNat n)) = true := by
    decide +kernel
  simpa using h b.toNat (UInt8.toNat_lt b)

def LowerTok (tok : Bytes) : Prop := ∀ c ∈ tok, toLower c = c

theorem tb (b : UInt8) : Generated.PureHttp.isTokenBoundary b = isTokenBoundary b := isTokenBoundary_bridge b

/-- One iteration of the Go loop at position `pre.length` of `pre ++ rest`. -/
theorem step (pre rest tok : Bytes) (f : Nat) (hne : tok ≠ []) (hlen : tok.length ≤ rest.length)
    (hlow : LowerTok tok) :
    hasToken_loop1 (pre ++ rest) tok (f + 1) (pre.length : Int) =
      if hasTokenAt tok pre.getLast? rest then Res.ok true
      else hasToken_loop1 (pre ++ rest) tok f ((pre.length : Int) + 1) := by
  obtain ⟨t0, ts, rfl⟩ : ∃ t0 ts, tok = t0 :: ts := by
    cases tok with
    | nil => exact absurd rfl hne
    | cons a l => exact ⟨a, l, rfl⟩
  obtain ⟨b, r, rfl⟩ : ∃ b r, rest = b :: r := by
    cases rest with
    | nil => simp at hlen
    | cons a l => exact ⟨a, l, rfl⟩
  -- facts about the four partial operations of the iteration
  have hb : idx? (pre ++ b :: r) (pre.length : Int) = some b := idx_app pre b r
  have ht0 : idx? (t0 :: ts) (0 : Int) = some t0 := by
    rw [show (0 : Int) = ((0 : Nat) : Int) by rfl, idx?_eq_getElem?]; rfl
  have hsl : slice? (pre ++ b :: r) (pre.length : Int) ((pre.length : Int) + len (t0 :: ts)) =
      some ((b :: r).take (ts.length + 1)) := by
    have hsplit : b :: r = (b :: r).take (ts.length + 1) ++ (b :: r).drop (ts.length + 1) := by simp
    have hl : ((b :: r).take (ts.length + 1)).length = ts.length + 1 := by
      rw [List.length_take]; simp at hlen ⊢; omega
    have := slice_mid pre ((b :: r).take (ts.length + 1)) ((b :: r).drop (ts.length + 1))
    rw [List.append_assoc, ← hsplit, hl] at this
    rw [← this]; simp [len]
  have hE := Bridge.PureAscii.equalFold_bridge ((b :: r).take (ts.length + 1)) (t0 :: ts)
  -- the first-character filter never rejects a position where the token matches
  have hfilter : equalFold ((b :: r).take (ts.length + 1)) (t0 :: ts) = true →
      ((b != t0) = false ∨ ((b ||| 32) != t0) = false) := by
    intro h
    have h1 : toLower b = toLower t0 := by
      have := eq_of_beq h
      simp [lower] at this
      exact this.1
    have h2 : toLower t0 = t0 := hlow t0 (by simp)
    have h3 := filter_byte b
    rw [h1, h2] at h3
    simp at h3 ⊢
    rcases h3 with h3 | h3
    · left; exact h3
    · right; exact h3
  -- the byte after the candidate, if any
  have hend : ∀ D, (b :: r).drop (ts.length + 1) = D →
      (match D with
       | [] => (((pre.length : Int) + len (t0 :: ts)) != len (pre ++ b :: r)) = false
       | q :: _ => (((pre.length : Int) + len (t0 :: ts)) != len (pre ++ b :: r)) = true ∧
                   idx? (pre ++ b :: r) ((pre.length : Int) + len (t0 :: ts)) = some q) := by
    intro D hD
    have hsplit : b :: r = (b :: r).take (ts.length + 1) ++ D := by rw [← hD]; simp
    have hl : ((b :: r).take (ts.length + 1)).length = ts.length + 1 := by
      rw [List.length_take]; simp at hlen ⊢; omega
    have hlen2 := congrArg List.length hsplit
    rw [List.length_append, hl] at hlen2
    cases D with
    | nil => simp [len] at hlen2 ⊢; omega
    | cons q d2 =>
      refine ⟨by simp [len] at hlen2 ⊢; omega, ?_⟩
      have hv : pre ++ b :: r = (pre ++ (b :: r).take (ts.length + 1)) ++ q :: d2 := by
        rw [List.append_assoc, ← hsplit]
      have hi : ((pre.length : Int) + len (t0 :: ts)) = (((pre ++ (b :: r).take (ts.length + 1)).length : Nat) : Int) := by
        rw [List.length_append, hl]; simp [len]
      rw [hi, hv, idx_app]
  -- the byte before the candidate, if any
  have hprev : (match pre.getLast? with
       | none => (decide ((pre.length : Int) > 0)) = false
       | some p => (decide ((pre.length : Int) > 0)) = true ∧ idx? (pre ++ b :: r) ((pre.length : Int) - 1) = some p) := by
    rcases List.eq_nil_or_concat pre with rfl | ⟨p', p, rfl⟩
    · simp
    · simp only [List.concat_eq_append, List.getLast?_append, List.getLast?_singleton, Option.some_or]
      refine ⟨by simp <;> omega, ?_⟩
      have hv : p' ++ [p] ++ b :: r = p' ++ p :: (b :: r) := by simp
      have hi : (((p' ++ [p]).length : Int) - 1) = ((p'.length : Nat) : Int) := by simp
      rw [hi, hv, idx_app]
  rw [hasToken_loop1]
  simp only [hb, ht0, hsl, hE, tb]
  unfold hasTokenAt
  have hlen' : decide ((t0 :: ts).length ≤ (b :: r).length) = true := by simpa using hlen
  rw [show (t0 :: ts).length = ts.length + 1 by simp] at hlen' ⊢
  simp only [hlen', Bool.and_true]
  generalize hD : (b :: r).drop (ts.length + 1) = D at *
  have hend' := hend D rfl
  cases hE2 : equalFold ((b :: r).take (ts.length + 1)) (t0 :: ts) with
  | false =>
    cases hP : pre.getLast? <;> cases D <;> simp_all

  | true =>
    have hf := hfilter hE2
    by_cases h1 : b = t0 <;> by_cases h2 : (b ||| 32) = t0 <;>
      cases hP : pre.getLast? <;> cases D <;> simp_all <;>
      (rename_i p q _; by_cases hp : isTokenBoundary p = true <;> by_cases hq : isTokenBoundary q = true <;> simp [hp, hq])

theorem aux_short (tok : Bytes) : ∀ (rest : Bytes) (prev : Option UInt8), rest.length < tok.length →
    hasTokenAux tok prev rest = false := by
  intro rest
  induction rest with
  | nil => intro prev _; rfl
  | cons c t ih =>
    intro prev h
    unfold hasTokenAux hasTokenAt
    have : ¬ tok.length ≤ (c :: t).length := by omega
    simp only [this, decide_false, Bool.and_false, Bool.false_and, Bool.false_or]
    exact ih (some c) (by simp at h; omega)

theorem loop (tok : Bytes) (hne : tok ≠ []) (hlow : LowerTok tok) : ∀ (f : Nat) (pre rest : Bytes),
    rest.length + 1 = f + tok.length →
    hasToken_loop1 (pre ++ rest) tok f (pre.length : Int) = Res.ok (hasTokenAux tok pre.getLast? rest) := by
  intro f
  induction f with
  | zero =>
    intro pre rest h
    rw [aux_short tok rest _ (by omega)]
    rw [hasToken_loop1]
  | succ f ih =>
    intro pre rest h
    have hlen : tok.length ≤ rest.length := by omega
    rw [step pre rest tok f hne hlen hlow]
    cases rest with
    | nil => cases tok with
             | nil => exact absurd rfl hne
             | cons _ _ => simp at hlen
    | cons b r =>
      have hrec := ih (pre ++ [b]) r (by simp at h; omega)
      simp only [List.append_assoc, List.singleton_append, List.length_append, List.length_singleton,
        List.getLast?_append, List.getLast?_singleton, Option.some_or] at hrec
      rw [show ((pre.length : Int) + 1) = ((pre.length + 1 : Nat) : Int) by simp, hrec]
      rw [hasTokenAux]
      cases hasTokenAt tok pre.getLast? (b :: r) <;> simp

theorem at_self (tok : Bytes) : hasTokenAt tok none tok = true := by
  unfold hasTokenAt
  simp [equalFold]

/-- `hasToken(v, token)` (http.go; decides `Connection: close` / `keep-alive` / `Upgrade` tokens) never
panics and computes the model's `hasToken`, for every `v` and every LOWER-CASE token (the Go
function documents "token must be all lowercase": its first-character filter is only sound then). -/
theorem hasToken_bridge (v tok : Bytes) (hlow : LowerTok tok) :
    Generated.PureHttp.hasToken v tok = Res.ok (Req.Validate.hasToken v tok) := by
  unfold Generated.PureHttp.hasToken Req.Validate.hasToken
  by_cases he : tok = []
  · subst he; simp
  · have hne : (tok == ([] : List UInt8)) = false := by simpa using he
    have hemp : tok.isEmpty = false := by simpa using he
    simp only [hne, Bool.or_false, hemp, Bool.not_false, Bool.true_and]
    by_cases hl : tok.length > v.length
    · have : decide (len tok > len v) = true := by simp [len]; omega
      simp only [this, if_true]
      rw [aux_short tok v none hl]
    · have : decide (len tok > len v) = false := by simp [len]; omega
      simp only [this, Bool.false_eq_true, if_false]
      by_cases hv : v = tok
      · subst hv
        simp only [beq_self_eq_true, if_true]
        cases v with
        | nil => exact absurd rfl he
        | cons c t => unfold hasTokenAux; rw [at_self]; rfl
      · have : (v == tok) = false := by simpa using hv
        simp only [this, Bool.false_eq_true, if_false]
        have := loop tok he hlow (v.length - tok.length + 1) [] v (by omega)
        simp only [List.nil_append, List.length_nil, List.getLast?_nil] at this
        have hf : (len v - len tok - (0 : Int) + 1).toNat = v.length - tok.length + 1 := by
          simp [len]; omega
        rw [hf, show (0 : Int) = ((0 : Nat) : Int) by rfl, this]

/-- the excluded point: with an upper-case token the first-character filter rejects a match the
model accepts (replayed on the real `hasToken` by the search script) -/
theorem hasToken_uppercase_token_differs :
    Generated.PureHttp.hasToken [97] [65] = Res.ok false ∧ Req.Validate.hasToken [97] [65] = true := by
  decide


end HasToken

end Bridge.PureHttp
