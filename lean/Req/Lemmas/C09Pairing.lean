import Req.Pool.Pairing
/-! Invariant of the per-connection pairing model (C09). -/
namespace Req.Lemmas.C09Pairing
open Req.Pool.Pairing

/-- The four shapes a connection can be in. -/
def Shape (s : St) : Prop :=
  (s.avail = true ∧ s.phase = .peeking ∧ s.reqch = [] ∧ s.reads = s.started.length ∧
      s.consumed = s.started.length ∧ s.numExpected = 0)
  ∨ (s.avail = false ∧ s.phase = .peeking ∧ s.numExpected = 1 ∧ s.consumed = s.reads ∧
      ∃ r pre, s.reqch = [r] ∧ s.started = pre ++ [r] ∧ s.reads = pre.length)
  ∨ (s.avail = false ∧ s.reqch = [] ∧ s.reads = s.started.length ∧ s.consumed + 1 = s.started.length ∧
      s.numExpected = 0 ∧ ∃ r k, s.phase = .body r k)
  ∨ (s.avail = false ∧ s.phase = .closed)

def PairsOK (s : St) : Prop := ∀ p ∈ s.pairs, s.started[p.2]? = some p.1

structure PInv (s : St) : Prop where
  shape : Shape s
  pairs : PairsOK s
  neLe : s.numExpected ≤ 1

theorem PInv_init : PInv {} :=
  ⟨Or.inl ⟨rfl, rfl, rfl, rfl, rfl, rfl⟩, by intro p hp; simp at hp, by simp⟩

theorem PairsOK_append (s : St) (x : Nat) (h : PairsOK s) :
    ∀ p ∈ s.pairs, (s.started ++ [x])[p.2]? = some p.1 := by
  intro p hp
  have := h p hp
  have hlt : p.2 < s.started.length := by
    rcases Nat.lt_or_ge p.2 s.started.length with h1 | h1
    · exact h1
    · rw [List.getElem?_eq_none h1] at this; cases this
  rw [List.getElem?_append_left hlt]; exact this

theorem step_neLe (s : St) (op : Op) (hs : Shape s) (h : s.numExpected ≤ 1) : (step s op).numExpected ≤ 1 := by
  cases op with
  | start r =>
    simp only [step]
    split
    · next hc =>
      simp only [Bool.and_eq_true, beq_iff_eq] at hc
      rcases hs with ⟨_, _, _, _, _, h6⟩ | ⟨h1, _⟩ | ⟨h1, _⟩ | ⟨h1, _⟩
      · simp [h6]
      · rw [h1] at hc; simp at hc
      · rw [h1] at hc; simp at hc
      · rw [h1] at hc; simp at hc
    · exact h
  | readHead hasBody keep wrote accept =>
    simp only [step]
    (repeat' split) <;> first | exact h | (simp only []; omega)
  | bodyDone eof wrote accept =>
    simp only [step]
    (repeat' split) <;> first | exact h | (simp only []; omega)
  | peekFail =>
    simp only [step]
    split <;> first | exact h | (simp only []; omega)

theorem step_core (s : St) (op : Op) (hs : Shape s) (hp : PairsOK s) :
    Shape (step s op) ∧ PairsOK (step s op) := by
  cases op with
  | start r =>
    simp only [step]
    split
    · next hc =>
      simp only [Bool.and_eq_true, beq_iff_eq] at hc
      rcases hs with ⟨_, _, h3, h4, h5, h6⟩ | ⟨h1, _⟩ | ⟨h1, _⟩ | ⟨h1, _⟩
      · refine ⟨Or.inr (Or.inl ⟨rfl, hc.2, by simp [h6], by simp [h5, h4], r, s.started, by simp [h3], rfl, h4⟩), ?_⟩
        exact PairsOK_append s r hp
      · rw [h1] at hc; simp at hc
      · rw [h1] at hc; simp at hc
      · rw [h1] at hc; simp at hc
    · exact ⟨hs, hp⟩
  | readHead hasBody keep wrote accept =>
    simp only [step]
    split
    · next r rest hph hrq =>
      split
      · exact ⟨hs, hp⟩
      · -- only the second shape has a pending request while peeking
        rcases hs with ⟨_, _, h3, _⟩ | ⟨h1, _, h3, h4, r', pre, h5, h6, h7⟩ | ⟨_, h2, _⟩ | ⟨_, h2⟩
        · rw [h3] at hrq; cases hrq
        · rw [h5] at hrq
          simp only [List.cons.injEq] at hrq
          obtain ⟨rfl, rfl⟩ := hrq
          have hpairs : ∀ p ∈ (r', s.reads) :: s.pairs, s.started[p.2]? = some p.1 := by
            intro p hp'
            rcases List.mem_cons.mp hp' with rfl | hp'
            · simp [h6, h7]
            · exact hp p hp'
          have hlen : s.started.length = s.reads + 1 := by rw [h6, h7]; simp
          split
          · exact ⟨Or.inr (Or.inr (Or.inl ⟨h1, rfl, by simp [hlen], by simp [hlen, h4], by simp [h3],
              r', keep, rfl⟩)), hpairs⟩
          · split
            · split
              · exact ⟨Or.inl ⟨rfl, hph, rfl, by simp [hlen], by simp [hlen, h4], by simp [h3]⟩, hpairs⟩
              · exact ⟨Or.inr (Or.inr (Or.inr ⟨h1, rfl⟩)), hpairs⟩
            · exact ⟨Or.inr (Or.inr (Or.inr ⟨h1, rfl⟩)), hpairs⟩
        · rw [h2] at hrq; cases hrq
        · rw [h2] at hph; cases hph
    · exact ⟨hs, hp⟩
  | bodyDone eof wrote accept =>
    simp only [step]
    split
    · next r keep hph =>
      rcases hs with ⟨_, h2, _⟩ | ⟨_, h2, _⟩ | ⟨h1, h2, h3, h4, h5, _⟩ | ⟨_, h2⟩
      · rw [h2] at hph; cases hph
      · rw [h2] at hph; cases hph
      · split
        · split
          · split
            · exact ⟨Or.inl ⟨rfl, rfl, h2, h3, by simp [h4], h5⟩, hp⟩
            · exact ⟨Or.inr (Or.inr (Or.inr ⟨h1, rfl⟩)), hp⟩
          · exact ⟨Or.inr (Or.inr (Or.inr ⟨h1, rfl⟩)), hp⟩
        · exact ⟨Or.inr (Or.inr (Or.inr ⟨h1, rfl⟩)), hp⟩
      · rw [h2] at hph; cases hph
    · exact ⟨hs, hp⟩
  | peekFail =>
    simp only [step]
    split
    · exact ⟨Or.inr (Or.inr (Or.inr ⟨rfl, rfl⟩)), hp⟩
    · exact ⟨hs, hp⟩

theorem PInv_step (s : St) (op : Op) (h : PInv s) : PInv (step s op) :=
  ⟨(step_core s op h.shape h.pairs).1, (step_core s op h.shape h.pairs).2, step_neLe s op h.shape h.neLe⟩

theorem PInv_run (s : St) (ops : List Op) (h : PInv s) : PInv (run s ops) := by
  induction ops generalizing s with
  | nil => exact h
  | cons op ops ih => exact ih _ (PInv_step s op h)

end Req.Lemmas.C09Pairing
