import Req.Pool.Pairing
/-! Invariant of the per-connection pairing model (C09). -/
namespace Req.Lemmas.C09Pairing
open Req.Pool.Pairing

/-- The four shapes a connection can be in. -/
def Shape (s : St) : Prop :=
  (s.avail = true ∧ s.phase = .peeking ∧ s.reqch = [] ∧ s.reads = s.started.length ∧
      s.consumed = s.started.length ∧ s.numExpected = 0)
  ∨ (s.avail = false ∧ s.phase = .peeking ∧ s.numExpected = 1 ∧ s.consumed = s.reads ∧
      ∃ r pre, s.reqch = [r] ∧ s.started = pre ++ [r] ∧ s.reads = pre.length)
  ∨ (s.avail = false ∧ s.reqch = [] ∧ s.reads = s.started.length ∧ s.consumed + 1 = s.started.length ∧
      s.numExpected = 0 ∧ ∃ r k, s.phase = .body r k)
  ∨ (s.avail = false ∧ s.phase = .closed)

def PairsOK (s : St) : Prop := ∀ p ∈ s.pairs, s.started[p.2]? = some p.1

structure PInv (s : St) : Prop where
  shape : Shape s
  pairs : PairsOK s
  neLe : s.numExpected ≤ 1

theorem PInv_init : PInv {} :=
  ⟨Or.inl ⟨rfl, rfl, rfl, rfl, rfl, rfl⟩, by intro p hp; simp at hp, by simp⟩

theorem PairsOK_append (s : St) (x : Nat) (h : PairsOK s) :
    ∀ p ∈ s.pairs, (s.started ++ [x])[p.2]? = some p.1 := by
  intro p hp
  have := h p hp
  have hlt : p.2 < s.started.length := by
    rcases Nat.lt_or_ge p.2 s.started.length with h1 | h1
    · exact h1
    · rw [List.getElem?_eq_none h1] at this; cases this
  rw [List.getElem?_append_left hlt]; exact this

theorem step_neLe (s : St) (op : Op) (hs : Shape s) (h : s.numExpected ≤ 1) : (step s op).numExpected ≤ 1 := by
  cases op with
  | start r =>
    simp only [step]
    split
    · next hc =>
      simp only [Bool.and_eq_true, beq_iff_eq] at hc
      rcases hs with ⟨_, _, _, _, _, h6⟩ | ⟨h1, _⟩ | ⟨h1, _⟩ | ⟨h1, _⟩
      · simp [h6]
      · rw [h1] at hc; simp at hc
      · rw [h1] at hc; simp at hc
      · rw [h1] at hc; simp at hc
    · exact h
  | readHead hasBody keep wrote accept =>
    simp only [step]
    (repeat' split) <;> first | exact h | (simp only []; omega)
  | bodyDone eof wrote accept =>
    simp only [step]
    (repeat' split) <;> first | exact h | (simp only []; omega)
  | peekFail =>
    simp only [step]
    split <;> first | exact h | (simp only []; omega)
  | peerAnswer =>
    simp only [step]
    split <;> exact h
  | peerExtra =>
    simp only [step]
    split <;> exact h
  | peekIdle =>
    simp only [step]
    split <;> first | exact h | (simp only []; omega)

theorem step_core (s : St) (op : Op) (hs : Shape s) (hp : PairsOK s) :
    Shape (step s op) ∧ PairsOK (step s op) := by
  cases op with
  | start r =>
    simp only [step]
    split
    · next hc =>
      simp only [Bool.and_eq_true, beq_iff_eq] at hc
      rcases hs with ⟨_, _, h3, h4, h5, h6⟩ | ⟨h1, _⟩ | ⟨h1, _⟩ | ⟨h1, _⟩
      · refine ⟨Or.inr (Or.inl ⟨rfl, hc.2, by simp [h6], by simp [h5, h4], r, s.started, by simp [h3], rfl, h4⟩), ?_⟩
        exact PairsOK_append s r hp
      · rw [h1] at hc; simp at hc
      · rw [h1] at hc; simp at hc
      · rw [h1] at hc; simp at hc
    · exact ⟨hs, hp⟩
  | readHead hasBody keep wrote accept =>
    simp only [step]
    split
    · next r rest l wrest hph hrq hwire =>
      split
      · exact ⟨hs, hp⟩
      · -- only the second shape has a pending request while peeking
        rcases hs with ⟨_, _, h3, _⟩ | ⟨h1, _, h3, h4, r', pre, h5, h6, h7⟩ | ⟨_, h2, _⟩ | ⟨_, h2⟩
        · rw [h3] at hrq; cases hrq
        · rw [h5] at hrq
          simp only [List.cons.injEq] at hrq
          obtain ⟨rfl, rfl⟩ := hrq
          have hpairs : ∀ p ∈ (r', s.reads) :: s.pairs, s.started[p.2]? = some p.1 := by
            intro p hp'
            rcases List.mem_cons.mp hp' with rfl | hp'
            · simp [h6, h7]
            · exact hp p hp'
          have hlen : s.started.length = s.reads + 1 := by rw [h6, h7]; simp
          split
          · exact ⟨Or.inr (Or.inr (Or.inl ⟨h1, rfl, by simp [hlen], by simp [hlen, h4], by simp [h3],
              r', keep, rfl⟩)), hpairs⟩
          · split
            · split
              · exact ⟨Or.inl ⟨rfl, hph, rfl, by simp [hlen], by simp [hlen, h4], by simp [h3]⟩, hpairs⟩
              · exact ⟨Or.inr (Or.inr (Or.inr ⟨h1, rfl⟩)), hpairs⟩
            · exact ⟨Or.inr (Or.inr (Or.inr ⟨h1, rfl⟩)), hpairs⟩
        · rw [h2] at hrq; cases hrq
        · rw [h2] at hph; cases hph
    · exact ⟨hs, hp⟩
  | bodyDone eof wrote accept =>
    simp only [step]
    split
    · next r keep hph =>
      rcases hs with ⟨_, h2, _⟩ | ⟨_, h2, _⟩ | ⟨h1, h2, h3, h4, h5, _⟩ | ⟨_, h2⟩
      · rw [h2] at hph; cases hph
      · rw [h2] at hph; cases hph
      · split
        · split
          · split
            · exact ⟨Or.inl ⟨rfl, rfl, h2, h3, by simp [h4], h5⟩, hp⟩
            · exact ⟨Or.inr (Or.inr (Or.inr ⟨h1, rfl⟩)), hp⟩
          · exact ⟨Or.inr (Or.inr (Or.inr ⟨h1, rfl⟩)), hp⟩
        · exact ⟨Or.inr (Or.inr (Or.inr ⟨h1, rfl⟩)), hp⟩
      · rw [h2] at hph; cases hph
    · exact ⟨hs, hp⟩
  | peekFail =>
    simp only [step]
    split
    · exact ⟨Or.inr (Or.inr (Or.inr ⟨rfl, rfl⟩)), hp⟩
    · exact ⟨hs, hp⟩
  | peerAnswer =>
    simp only [step]
    split
    · exact ⟨hs, hp⟩
    · exact ⟨hs, hp⟩
  | peerExtra =>
    simp only [step]
    split
    · exact ⟨hs, hp⟩
    · exact ⟨hs, hp⟩
  | peekIdle =>
    simp only [step]
    split
    · exact ⟨Or.inr (Or.inr (Or.inr ⟨rfl, rfl⟩)), hp⟩
    · exact ⟨hs, hp⟩

/-! ### whose response: the labelled wire -/

/-- As long as the connection is not `tainted`, the unread part of the byte stream is either
unsolicited bytes only (nothing expected) or exactly the answer to the one request in flight. -/
def Own (s : St) : Prop :=
  s.tainted = false →
    (∀ p ∈ s.got, p.2 = some p.1) ∧
    (s.phase = .closed ∨
     (s.numExpected = 0 ∧ s.answered = s.started.length ∧ ∀ l ∈ s.wire, l = none) ∨
     (s.numExpected = 1 ∧ s.phase = .peeking ∧ ∃ r pre, s.started = pre ++ [r] ∧
        ((s.wire = [] ∧ s.answered = pre.length) ∨ (s.wire = [some r] ∧ s.answered = pre.length + 1))))

theorem Own_init : Own {} := by
  intro _
  exact ⟨by intro p hp; simp at hp, Or.inr (Or.inl ⟨rfl, rfl, by intro l hl; simp at hl⟩)⟩

theorem step_own (s : St) (op : Op) (hs : Shape s) (ho : Own s) : Own (step s op) := by
  cases op with
  | start r =>
    simp only [step]
    split
    · next hc =>
      simp only [Bool.and_eq_true, beq_iff_eq] at hc
      intro ht
      simp only [Bool.or_eq_false_iff, Bool.not_eq_false', List.isEmpty_iff] at ht
      obtain ⟨hgot, hw⟩ := ho ht.1
      refine ⟨hgot, ?_⟩
      rcases hs with ⟨_, _, _, _, _, h6⟩ | ⟨h1, _⟩ | ⟨h1, _⟩ | ⟨h1, _⟩
      · rcases hw with hw | ⟨_, ha, _⟩ | ⟨hn, _⟩
        · rw [hc.2] at hw; cases hw
        · exact Or.inr (Or.inr ⟨by simp [h6], hc.2, r, s.started, rfl, Or.inl ⟨ht.2, ha⟩⟩)
        · omega
      · rw [h1] at hc; simp at hc
      · rw [h1] at hc; simp at hc
      · rw [h1] at hc; simp at hc
    · exact ho
  | readHead hasBody keep wrote accept =>
    simp only [step]
    split
    · next r rest l wrest hph hrq hwire =>
      split
      · exact ho
      · next hne =>
        -- the state after the common update, before the phase / avail / log changes
        have key : s.tainted = false →
            (∀ p ∈ (r, l) :: s.got, p.2 = some p.1) ∧
            (s.numExpected - 1 = 0 ∧ s.answered = s.started.length ∧ ∀ x ∈ wrest, x = none) := by
          intro ht
          obtain ⟨hgot, hw⟩ := ho ht
          rcases hw with hw | ⟨hn, _⟩ | ⟨hn, _, r', pre, hst, hwr⟩
          · rw [hph] at hw; cases hw
          · exact absurd hn hne
          · rcases hwr with ⟨hw0, _⟩ | ⟨hw1, ha⟩
            · rw [hw0] at hwire; cases hwire
            · rw [hw1] at hwire
              simp only [List.cons.injEq] at hwire
              obtain ⟨rfl, rfl⟩ := hwire
              -- the request at the head of reqch is r'
              have hr : r = r' := by
                rcases hs with ⟨_, _, h3, _⟩ | ⟨_, _, _, _, r2, pre2, h5, h6, _⟩ | ⟨_, h2, _⟩ | ⟨_, h2⟩
                · rw [h3] at hrq; cases hrq
                · rw [h5] at hrq
                  simp only [List.cons.injEq] at hrq
                  rw [h6] at hst
                  have := List.append_inj_right' hst (by simp)
                  simp only [List.cons.injEq, and_true] at this
                  rw [← hrq.1, this]
                · rw [h2] at hrq; cases hrq
                · rw [h2] at hph; cases hph
              subst hr
              refine ⟨?_, by omega, by rw [ha, hst]; simp, by intro x hx; simp at hx⟩
              intro p hp
              rcases List.mem_cons.mp hp with rfl | hp
              · rfl
              · exact hgot p hp
        (repeat' split) <;>
          (intro ht; obtain ⟨h1, h2, h3, h4⟩ := key ht; exact ⟨h1, Or.inr (Or.inl ⟨h2, h3, h4⟩)⟩)
    · exact ho
  | bodyDone eof wrote accept =>
    simp only [step]
    split
    · next r keep hph =>
      have key : s.tainted = false → (∀ p ∈ s.got, p.2 = some p.1) ∧
          (s.numExpected = 0 ∧ s.answered = s.started.length ∧ ∀ l ∈ s.wire, l = none) := by
        intro ht
        obtain ⟨hgot, hw⟩ := ho ht
        rcases hw with hw | hw | ⟨_, hw, _⟩
        · rw [hph] at hw; cases hw
        · exact ⟨hgot, hw⟩
        · rw [hph] at hw; cases hw
      (repeat' split) <;>
        (intro ht; obtain ⟨h1, h2⟩ := key ht; exact ⟨h1, Or.inr (Or.inl h2)⟩)
    · exact ho
  | peekFail =>
    simp only [step]
    split
    · intro ht; exact ⟨(ho ht).1, Or.inl rfl⟩
    · exact ho
  | peekIdle =>
    simp only [step]
    split
    · intro ht; exact ⟨(ho ht).1, Or.inl rfl⟩
    · exact ho
  | peerAnswer =>
    simp only [step]
    split
    · next r hr =>
      intro ht
      obtain ⟨hgot, hw⟩ := ho ht
      refine ⟨hgot, ?_⟩
      rcases hw with hw | ⟨_, ha, _⟩ | ⟨hn, hp, r', pre, hst, hwr⟩
      · exact Or.inl hw
      · rw [ha, List.getElem?_eq_none (Nat.le_refl _)] at hr; cases hr
      · rcases hwr with ⟨hw0, ha⟩ | ⟨_, ha⟩
        · rw [ha, hst] at hr
          simp at hr
          subst hr
          exact Or.inr (Or.inr ⟨hn, hp, r', pre, hst, Or.inr ⟨by simp [hw0], by simp [ha]⟩⟩)
        · rw [ha, hst, List.getElem?_eq_none (by simp)] at hr; cases hr
    · exact ho
  | peerExtra =>
    simp only [step]
    split
    · exact ho
    · next hcl =>
      intro ht
      simp only [Bool.or_eq_false_iff, Bool.and_eq_false_iff] at ht
      obtain ⟨hgot, hw⟩ := ho ht.1
      refine ⟨hgot, ?_⟩
      rcases hw with hw | ⟨hn, ha, hall⟩ | ⟨hn, hp, _⟩
      · rw [hw] at hcl; simp at hcl
      · refine Or.inr (Or.inl ⟨hn, ha, ?_⟩)
        intro l hl
        rcases List.mem_append.mp hl with hl | hl
        · exact hall l hl
        · simpa using hl
      · rcases ht.2 with h | h
        · rw [hp] at h; simp at h
        · rw [hn] at h; simp at h

theorem PInv_step (s : St) (op : Op) (h : PInv s) : PInv (step s op) :=
  ⟨(step_core s op h.shape h.pairs).1, (step_core s op h.shape h.pairs).2, step_neLe s op h.shape h.neLe⟩

theorem PInv_run (s : St) (ops : List Op) (h : PInv s) : PInv (run s ops) := by
  induction ops generalizing s with
  | nil => exact h
  | cons op ops ih => exact ih _ (PInv_step s op h)

theorem Own_run (s : St) (ops : List Op) (h : PInv s) (ho : Own s) : Own (run s ops) := by
  induction ops generalizing s with
  | nil => exact ho
  | cons op ops ih => exact ih _ (PInv_step s op h) (step_own s op h.shape ho)

/-- A closed connection stays closed and delivers nothing more. -/
theorem closed_step (s : St) (op : Op) (h : s.phase = .closed) :
    (step s op).phase = .closed ∧ (step s op).got = s.got ∧ (step s op).started = s.started := by
  cases op <;> simp only [step, h] <;> (repeat' split) <;> simp_all

theorem closed_run (s : St) (ops : List Op) (h : s.phase = .closed) :
    (run s ops).phase = .closed ∧ (run s ops).got = s.got ∧ (run s ops).started = s.started := by
  induction ops generalizing s with
  | nil => exact ⟨h, rfl, rfl⟩
  | cons op ops ih =>
    obtain ⟨h1, h2, h3⟩ := closed_step s op h
    obtain ⟨i1, i2, i3⟩ := ih _ h1
    exact ⟨i1, by rw [← h2]; exact i2, by rw [← h3]; exact i3⟩

end Req.Lemmas.C09Pairing
