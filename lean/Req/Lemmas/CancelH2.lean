import Req.Pool.CancelH2
/-! Lemmas for the HTTP/2 lifecycle model (C08): a measure that every internal step decreases, the
structural invariant preserved by events and steps, and the analysis of stuck states. -/
namespace Req.Lemmas.CancelH2
open Req.Cancel (CtxErr)
open Req.CancelH2

/-! ### measure -/

def wRank : WPc → Nat
  | .hdrMu => 13 | .slot => 12 | .headers => 11 | .cont => 10 | .data => 9 | .bodyRead => 8
  | .flow => 7 | .endStream => 6 | .peer => 5 | .cleanup _ => 4 | .cuClose _ => 3 | .cuWait _ => 2
  | .done => 0

def rRank : RPc → Nat
  | .select => 3 | .waitBody _ => 1 | .waitDone => 1 | .hdrWaitDone => 1 | .returned _ => 0

def mu (s : St) : Nat := 2 * wRank s.wpc + 2 * rRank s.rpc + (if s.closer then 1 else 0)

/-- bound of `mu` -/
def K : Nat := 33

theorem mu_le (s : St) : mu s ≤ K := by
  unfold mu K
  have h1 : wRank s.wpc ≤ 13 := by cases s.wpc <;> simp [wRank]
  have h2 : rRank s.rpc ≤ 3 := by cases s.rpc <;> simp [rRank]
  split <;> omega

@[simp] theorem abortStream_wpc (s : St) (e : WErr) : (abortStream s e).wpc = s.wpc := by
  unfold abortStream; simp only; split <;> rfl
@[simp] theorem abortStream_rpc (s : St) (e : WErr) : (abortStream s e).rpc = s.rpc := by
  unfold abortStream; simp only; split <;> rfl

theorem abortStream_closer_le (s : St) (e : WErr) :
    (if (abortStream s e).closer then 1 else 0) ≤ (if s.closer then 1 else 0) + 1 := by
  unfold abortStream; simp only; split <;> (split <;> simp)

theorem mu_abortStream (s : St) (e : WErr) : mu (abortStream s e) ≤ mu s + 1 := by
  unfold mu
  have := abortStream_closer_le s e
  simp only [abortStream_wpc, abortStream_rpc]
  omega

theorem mu_toCleanup (s : St) (e : WErr) (h : 4 < wRank s.wpc) : mu (toCleanup s e) < mu s := by
  have h4 : wRank (WPc.cleanup e) = 4 := rfl
  unfold mu toCleanup; simp only [h4]; omega

theorem mu_wpc (s : St) (p : WPc) (h : wRank p < wRank s.wpc) : mu { s with wpc := p } < mu s := by
  unfold mu; simp only; omega

theorem mu_rpc (s : St) (p : RPc) (h : rRank p < rRank s.rpc) : mu { s with rpc := p } < mu s := by
  unfold mu; simp only; omega

theorem mu_dec (s : St) (a : Act) (h : guard s a = true) : mu (apply s a) < mu s := by
  cases a <;> simp only [CancelH2.guard, Bool.and_eq_true, beq_iff_eq, Bool.or_eq_true] at h
  case wHdrMuCancel => simp only [apply]; exact mu_toCleanup s _ (by rw [h.1]; simp [wRank])
  case wSlotAbort => simp only [apply]; exact mu_toCleanup s _ (by rw [h.1]; simp [wRank])
  case wHeaders =>
    simp only [apply]
    split
    · exact mu_toCleanup s _ (by rw [h]; simp [wRank])
    · split
      · unfold mu; simp only [h, wRank]; omega
      · split <;> (unfold mu; simp only [h, wRank]; omega)
  case wContCancel => simp only [apply]; exact mu_toCleanup s _ (by rw [h.1]; simp [wRank])
  case wReadChunk => simp only [apply]; exact mu_wpc s _ (by rw [h.1]; simp [wRank])
  case wReadEOF => simp only [apply]; exact mu_wpc s _ (by rw [h.1]; simp [wRank])
  case wBodyStop => simp only [apply]; exact mu_wpc s _ (by rw [h.1.1]; simp [wRank])
  case wFlowExit =>
    simp only [apply]
    split
    · exact mu_wpc s _ (by rw [h.1]; simp [wRank])
    · exact mu_toCleanup s _ (by rw [h.1]; simp [wRank])
  case wData => simp only [apply]; unfold mu; simp only [h, wRank]; omega
  case wEndStream =>
    simp only [apply]
    split
    · exact mu_toCleanup s _ (by rw [h]; simp [wRank])
    · unfold mu; simp only [h, wRank]; omega
  case wPeerDone => simp only [apply]; exact mu_toCleanup s _ (by rw [h.1]; simp [wRank])
  case wPeerAbort => simp only [apply]; exact mu_toCleanup s _ (by rw [h.1]; simp [wRank])
  case wCleanupClaim =>
    simp only [apply]
    split
    · next e hw =>
      split <;> (unfold mu; simp only [hw, wRank]; omega)
    · next hw => simp_all
  case wCleanupClose =>
    simp only [apply]
    split
    · next e hw => unfold mu; simp only [hw, wRank]; omega
    · next hw => simp_all
  case wCleanupFinish =>
    simp only [apply]
    split
    · next e hw =>
      split
      · have := mu_abortStream s (CleanupIn.effErr ⟨e, s.sentHeaders, s.sentEnd, s.peerClosed⟩)
        unfold mu at this ⊢
        simp only [abortStream_wpc, abortStream_rpc, hw, wRank] at this ⊢
        omega
      · unfold mu; simp only [hw, wRank]; omega
    · next hw => simp_all
  case rHeaders =>
    simp only [apply]
    split <;> exact mu_rpc s _ (by rw [h.1]; simp [rRank])
  case rAbort => simp only [apply]; exact mu_rpc s _ (by rw [h.1.1]; simp [rRank])
  case rCtx =>
    simp only [apply]
    split
    · next e he =>
      have := mu_abortStream s (.ctx e)
      unfold mu at this ⊢
      simp only [abortStream_wpc, abortStream_rpc, h.1, rRank] at this ⊢
      omega
    · next he => rw [he] at h; simp at h
  case rWaitBody =>
    simp only [apply]
    split
    · next e hr => exact mu_rpc s _ (by rw [hr]; simp [rRank])
    · next hr => simp_all
  case rWaitDone => simp only [apply]; exact mu_rpc s _ (by rw [h.1]; simp [rRank])
  case rHdrWaitDone =>
    simp only [apply]
    split <;> exact mu_rpc s _ (by rw [h.1]; simp [rRank])
  case closerRun =>
    simp only [apply]; unfold mu; simp only [h]; simp

theorem run_length_le (s s' : St) (as : List Act) (h : Run s as s') : as.length + mu s' ≤ mu s := by
  induction h with
  | nil s => simp
  | cons hg _ ih =>
    have := mu_dec _ _ hg
    simp only [List.length_cons]
    omega

/-! ### invariant -/

def cuTerm : WPc → Nat
  | .cuClose _ => 1
  | _ => 0

def isCuWaitOrDone : WPc → Bool
  | .cuWait _ => true
  | .done => true
  | _ => false

structure Inv (s : St) : Prop where
  /-- the request body is closed by exactly one party: `reqBodyClosed != nil` ⇔ exactly one of
  {already closed, closer goroutine in flight, cleanupWriteRequest about to close it} -/
  bodyAcct : s.closes + (if s.closer then 1 else 0) + cuTerm s.wpc = (if s.claimed then 1 else 0)
  claimedBody : s.claimed = true → s.hasBody = true
  closedIff : s.closedCh = true ↔ 0 < s.closes
  cuClaimed : isCuWaitOrDone s.wpc = true → s.hasBody = true → s.claimed = true
  donecIff : s.donec = true ↔ s.wpc = .done
  doneNoID : s.wpc = .done → s.hasID = false
  hdrMuInv : s.hdrMuHeld = true → s.wpc = .slot ∨ s.wpc = .headers
  rLeft : s.rpc ≠ .select → s.respHdr = true ∨ s.abort.isSome = true
  respSent : s.respHdr = true → s.sentHeaders = true
  preHdr : s.wpc = .hdrMu ∨ s.wpc = .slot ∨ s.wpc = .headers → s.sentHeaders = false
  peerResp : s.peerClosed = true → s.respHdr = true
  rstsCu : s.rsts = (match s.cu with | some i => (cleanupRule i).toList | none => [])
  cuIff : s.cu.isSome = true ↔ s.wpc = .done
  cuFields : ∀ i, s.cu = some i → i.sentHeaders = s.sentHeaders ∧ i.sentEndStream = s.sentEnd
  donePipe : s.wpc = .done → s.pipeErr = true

theorem inv_init (b e n : Bool) : Inv (init b e n) := by
  constructor <;> simp [init, cuTerm, isCuWaitOrDone]

theorem inv_abortStream (s : St) (e : WErr) (h : Inv s) (hcu : isCuWaitOrDone s.wpc = false ∨ s.hasBody = false ∨ s.claimed = true) :
    Inv (abortStream s e) := by
  obtain ⟨h1, h2, h3, h4, h5, h6, h7, h8, h9, h10, h11, h12, h13, h14, h15⟩ := h
  unfold abortStream
  simp only
  split
  · next hc =>
    obtain ⟨hb, hnc⟩ := hc
    have hnc' : s.claimed = false := by simpa using hnc
    rw [hnc'] at h1
    simp only [Bool.false_eq_true, if_false] at h1
    have hcl : s.closer = false := by
      cases hcc : s.closer with
      | false => rfl
      | true => rw [hcc] at h1; simp at h1
    have hcs : s.closes = 0 := by omega
    have hct : cuTerm s.wpc = 0 := by omega
    constructor <;> simp_all
  · constructor <;> simp_all

theorem inv_abortStream' (s : St) (e : WErr) (h : Inv s) : Inv (abortStream s e) := by
  apply inv_abortStream s e h
  cases hw : isCuWaitOrDone s.wpc with
  | false => exact Or.inl rfl
  | true =>
    cases hb : s.hasBody with
    | false => exact Or.inr (Or.inl rfl)
    | true => exact Or.inr (Or.inr (h.cuClaimed hw hb))

theorem cuTerm_zero_of_ne (p : WPc) (h : ∀ e, p ≠ .cuClose e) : cuTerm p = 0 := by
  cases p <;> simp_all [cuTerm]

/-- a state change that touches none of the fields the invariant mentions except `wpc`, moving
between program counters that are neither `cuClose`, `cuWait`, `done`, nor before the headers -/
theorem inv_toCleanup (s : St) (e : WErr) (h : Inv s)
    (hw : cuTerm s.wpc = 0 ∧ s.wpc ≠ .done) : Inv (toCleanup s e) := by
  obtain ⟨h1, h2, h3, h4, h5, h6, h7, h8, h9, h10, h11, h12, h13, h14, h15⟩ := h
  unfold toCleanup
  constructor <;> simp_all [cuTerm, isCuWaitOrDone]

theorem inv_act (s : St) (a : Act) (h : Inv s) (hg : CancelH2.guard s a = true) : Inv (apply s a) := by
  cases a <;> simp only [CancelH2.guard, Bool.and_eq_true, beq_iff_eq, Bool.or_eq_true] at hg
  case wHdrMuCancel => simp only [apply]; exact inv_toCleanup s _ h (by simp [hg.1, cuTerm])
  case wSlotAbort => simp only [apply]; exact inv_toCleanup s _ h (by simp [hg.1, cuTerm])
  case wHeaders =>
    simp only [apply]
    split
    · exact inv_toCleanup s _ h (by simp [hg, cuTerm])
    · obtain ⟨h1, h2, h3, h4, h5, h6, h7, h8, h9, h10, h11, h12, h13, h14, h15⟩ := h
      split
      · constructor <;> simp_all [cuTerm, isCuWaitOrDone]
      · split <;> (constructor <;> simp_all [cuTerm, isCuWaitOrDone])
  case wContCancel => simp only [apply]; exact inv_toCleanup s _ h (by simp [hg.1, cuTerm])
  case wReadChunk =>
    obtain ⟨h1, h2, h3, h4, h5, h6, h7, h8, h9, h10, h11, h12, h13, h14, h15⟩ := h
    simp only [apply]; constructor <;> simp_all [cuTerm, isCuWaitOrDone]
  case wReadEOF =>
    obtain ⟨h1, h2, h3, h4, h5, h6, h7, h8, h9, h10, h11, h12, h13, h14, h15⟩ := h
    simp only [apply]; constructor <;> simp_all [cuTerm, isCuWaitOrDone]
  case wBodyStop =>
    obtain ⟨h1, h2, h3, h4, h5, h6, h7, h8, h9, h10, h11, h12, h13, h14, h15⟩ := h
    simp only [apply]; constructor <;> simp_all [cuTerm, isCuWaitOrDone]
  case wFlowExit =>
    simp only [apply]
    split
    · obtain ⟨h1, h2, h3, h4, h5, h6, h7, h8, h9, h10, h11, h12, h13, h14, h15⟩ := h
      constructor <;> simp_all [cuTerm, isCuWaitOrDone]
    · exact inv_toCleanup s _ h (by simp [hg.1, cuTerm])
  case wData =>
    obtain ⟨h1, h2, h3, h4, h5, h6, h7, h8, h9, h10, h11, h12, h13, h14, h15⟩ := h
    simp only [apply]; constructor <;> simp_all [cuTerm, isCuWaitOrDone]
  case wEndStream =>
    simp only [apply]
    split
    · exact inv_toCleanup s _ h (by simp [hg, cuTerm])
    · obtain ⟨h1, h2, h3, h4, h5, h6, h7, h8, h9, h10, h11, h12, h13, h14, h15⟩ := h
      constructor <;> simp_all [cuTerm, isCuWaitOrDone]
  case wPeerDone => simp only [apply]; exact inv_toCleanup s _ h (by simp [hg.1, cuTerm])
  case wPeerAbort => simp only [apply]; exact inv_toCleanup s _ h (by simp [hg.1, cuTerm])
  case wCleanupClaim =>
    obtain ⟨h1, h2, h3, h4, h5, h6, h7, h8, h9, h10, h11, h12, h13, h14, h15⟩ := h
    simp only [apply]
    split
    · next e hw =>
      split
      · next hc =>
        have hnc : s.claimed = false := by simpa using hc.2
        rw [hnc, hw] at h1
        simp only [cuTerm, Bool.false_eq_true, if_false] at h1
        have hcl : s.closer = false := by
          cases hcc : s.closer with
          | false => rfl
          | true => rw [hcc] at h1; simp at h1
        constructor <;> simp_all [cuTerm, isCuWaitOrDone]
      · next hc =>
        constructor <;> simp_all [cuTerm, isCuWaitOrDone]
    · next hw => simp_all
  case wCleanupClose =>
    obtain ⟨h1, h2, h3, h4, h5, h6, h7, h8, h9, h10, h11, h12, h13, h14, h15⟩ := h
    simp only [apply]
    split
    · next e hw =>
      rw [hw] at h1
      simp only [cuTerm] at h1
      have hcl : s.claimed = true := by
        cases hcc : s.claimed with
        | true => rfl
        | false => rw [hcc] at h1; simp at h1
      rw [hcl] at h1
      simp only [if_true] at h1
      have hcs : s.closes = 0 := by omega
      have hcr : s.closer = false := by
        cases hcc : s.closer with
        | false => rfl
        | true => rw [hcc] at h1; simp at h1
      constructor <;> simp_all [cuTerm, isCuWaitOrDone]
    · next hw => simp_all
  case wCleanupFinish =>
    simp only [apply]
    split
    · next e hw =>
      have hcw : isCuWaitOrDone s.wpc = true := by rw [hw]; rfl
      have hclaim : s.hasBody = true → s.claimed = true := h.cuClaimed hcw
      have hA : ∀ x, Inv (abortStream s x) := fun x => inv_abortStream s x h (by
        cases hb : s.hasBody with
        | false => exact Or.inr (Or.inl rfl)
        | true => exact Or.inr (Or.inr (hclaim hb)))
      have hkey : ∀ t : St, Inv t → t.wpc = s.wpc → t.sentHeaders = s.sentHeaders → t.sentEnd = s.sentEnd →
          Inv { t with cu := some ⟨e, s.sentHeaders, s.sentEnd, s.peerClosed⟩,
                       rsts := t.rsts ++ (cleanupRule ⟨e, s.sentHeaders, s.sentEnd, s.peerClosed⟩).toList,
                       pipeErr := true, hasID := false, donec := true, wpc := .done } := by
        intro t ht htw hsh hse
        obtain ⟨h1, h2, h3, h4, h5, h6, h7, h8, h9, h10, h11, h12, h13, h14, h15⟩ := ht
        have hcuNone : t.cu = none := by
          cases hc : t.cu with
          | none => rfl
          | some i => have := h13.mp (by rw [hc]; rfl); rw [htw, hw] at this; cases this
        rw [htw, hw] at h1 h4 h5 h6 h7 h10 h13
        constructor <;> simp_all [cuTerm, isCuWaitOrDone]
      split
      · exact hkey _ (hA _) (by simp) (by unfold abortStream; simp only; split <;> rfl)
          (by unfold abortStream; simp only; split <;> rfl)
      · exact hkey s h rfl rfl rfl
    · next hw => simp_all
  case rHeaders =>
    obtain ⟨h1, h2, h3, h4, h5, h6, h7, h8, h9, h10, h11, h12, h13, h14, h15⟩ := h
    simp only [apply]
    split <;> (constructor <;> simp_all [cuTerm, isCuWaitOrDone])
  case rAbort =>
    obtain ⟨h1, h2, h3, h4, h5, h6, h7, h8, h9, h10, h11, h12, h13, h14, h15⟩ := h
    simp only [apply]; constructor <;> simp_all [cuTerm, isCuWaitOrDone]
  case rCtx =>
    simp only [apply]
    split
    · next e he =>
      have hA := inv_abortStream' s (.ctx e) h
      have hab : (abortStream s (.ctx e)).abort.isSome = true := by
        unfold abortStream; simp only; split <;> (cases s.abort <;> simp [Option.or])
      obtain ⟨h1, h2, h3, h4, h5, h6, h7, h8, h9, h10, h11, h12, h13, h14, h15⟩ := hA
      constructor <;> simp_all [cuTerm, isCuWaitOrDone]
    · next he => rw [he] at hg; simp at hg
  case rWaitBody =>
    obtain ⟨h1, h2, h3, h4, h5, h6, h7, h8, h9, h10, h11, h12, h13, h14, h15⟩ := h
    simp only [apply]
    split
    · constructor <;> simp_all [cuTerm, isCuWaitOrDone]
    · simp_all
  case rWaitDone =>
    obtain ⟨h1, h2, h3, h4, h5, h6, h7, h8, h9, h10, h11, h12, h13, h14, h15⟩ := h
    simp only [apply]; constructor <;> simp_all [cuTerm, isCuWaitOrDone]
  case rHdrWaitDone =>
    obtain ⟨h1, h2, h3, h4, h5, h6, h7, h8, h9, h10, h11, h12, h13, h14, h15⟩ := h
    simp only [apply]
    split <;> (constructor <;> simp_all [cuTerm, isCuWaitOrDone])
  case closerRun =>
    obtain ⟨h1, h2, h3, h4, h5, h6, h7, h8, h9, h10, h11, h12, h13, h14, h15⟩ := h
    simp only [apply]
    rw [hg] at h1
    simp only [if_true] at h1
    have hcl : s.claimed = true := by
      cases hcc : s.claimed with
      | true => rfl
      | false => rw [hcc] at h1; simp at h1
    rw [hcl] at h1
    simp only [if_true] at h1
    have hcs : s.closes = 0 := by omega
    have hct : cuTerm s.wpc = 0 := by omega
    refine ⟨?_, h2, ?_, h4, h5, h6, h7, h8, h9, h10, h11, h12, h13, h14, h15⟩
    · simp [hcs, hct, hcl]
    · simp

theorem inv_ev (s : St) (e : Ev) (h : Inv s) (hg : evGuard s e = true) : Inv (evApply s e) := by
  cases e <;> simp only [evGuard, Bool.and_eq_true, beq_iff_eq, Bool.not_eq_true'] at hg
  case peerRst => simp only [evApply]; exact inv_abortStream' s _ h
  case callerClose => simp only [evApply]; exact inv_abortStream' s _ h
  case peerHeaders =>
    obtain ⟨h1, h2, h3, h4, h5, h6, h7, h8, h9, h10, h11, h12, h13, h14, h15⟩ := h
    simp only [evApply]
    split <;> (constructor <;> simp_all [cuTerm, isCuWaitOrDone])
  all_goals
    obtain ⟨h1, h2, h3, h4, h5, h6, h7, h8, h9, h10, h11, h12, h13, h14, h15⟩ := h
    simp only [evApply]
    constructor <;> simp_all [cuTerm, isCuWaitOrDone]

theorem reach_inv (s : St) (h : Reach s) : Inv s := by
  induction h with
  | init b e n => exact inv_init b e n
  | ev e _ hg ih => exact inv_ev _ e ih hg
  | act a _ hg ih => exact inv_act _ a ih hg

theorem run_inv (s s' : St) (as : List Act) (h : Run s as s') (hi : Inv s) : Inv s' := by
  induction h with
  | nil s => exact hi
  | cons hg _ ih => exact ih (inv_act _ _ hi hg)

/-! ### stuck states of a cancelled request -/

theorem stuck_not_guard (s : St) (h : stuck s = true) (a : Act) : CancelH2.guard s a = false := by
  unfold stuck at h
  have := List.all_eq_true.mp h a (by cases a <;> simp [allActs])
  simpa using this

theorem stuck_released (s : St) (hi : Inv s) (hc : s.ctx.isSome = true) (hs : stuck s = true) :
    released s = true := by
  have hng := stuck_not_guard s hs
  obtain ⟨h1, h2, h3, h4, h5, h6, h7, h8, h9, h10, h11, h12, h13, h14, h15⟩ := hi
  -- the closer goroutine has run
  have hcloser : s.closer = false := by simpa [CancelH2.guard] using hng .closerRun
  -- the caller has returned
  have hret : ∃ r, s.rpc = .returned r := by
    cases hr : s.rpc with
    | returned r => exact ⟨r, rfl⟩
    | select => have := hng .rCtx; simp [CancelH2.guard, hr, hc] at this
    | waitDone => have := hng .rWaitDone; simp [CancelH2.guard, hr, hc] at this
    | hdrWaitDone => have := hng .rHdrWaitDone; simp [CancelH2.guard, hr, hc] at this
    | waitBody e =>
      have hw := hng .rWaitBody
      simp only [CancelH2.guard, hr, Bool.true_and, Bool.or_eq_false_iff, Bool.not_eq_false'] at hw
      obtain ⟨hcl, hch⟩ := hw
      -- claimed and not yet closed: the closer is in flight or cleanup is about to close it
      have hz : s.closes = 0 := by
        cases hn : s.closes with
        | zero => rfl
        | succ n => have := h3.mpr (by omega); rw [hch] at this; cases this
      rw [hcl, hcloser, hz] at h1
      simp only [Bool.false_eq_true, if_false, if_true] at h1
      have : ∃ e, s.wpc = .cuClose e := by
        cases hw : s.wpc <;> simp_all [cuTerm]
      obtain ⟨e', he'⟩ := this
      have := hng .wCleanupClose
      simp [CancelH2.guard, he'] at this
  -- the writer is done
  have hdone : s.wpc = .done := by
    cases hw : s.wpc with
    | done => rfl
    | hdrMu => have := hng .wHdrMuCancel; simp [CancelH2.guard, hw, hc] at this
    | slot =>
      exfalso
      have hab := hng .wSlotAbort
      simp only [CancelH2.guard, hw, beq_self_eq_true, Bool.true_and] at hab
      obtain ⟨r, hr⟩ := hret
      have hsel : s.rpc ≠ .select := by rw [hr]; simp
      rcases h8 hsel with hx | hx
      · have := h9 hx; rw [h10 (Or.inr (Or.inl hw))] at this; cases this
      · rw [hab] at hx; cases hx
    | headers => have := hng .wHeaders; simp [CancelH2.guard, hw] at this
    | cont => have := hng .wContCancel; simp [CancelH2.guard, hw, cancelled, hc] at this
    | bodyRead =>
      exfalso
      have ha := hng .wReadChunk
      have hb := hng .wBodyStop
      simp only [CancelH2.guard, hw, beq_self_eq_true, Bool.true_and, beq_eq_false_iff_ne, ne_eq] at ha
      have hpos : 0 < s.closes := by omega
      have hch := h3.mpr hpos
      have hcl : s.claimed = true := by
        cases hcc : s.claimed with
        | true => rfl
        | false => rw [hcc] at h1; simp at h1; omega
      simp [CancelH2.guard, hw, hch, hcl] at hb
    | flow => have := hng .wFlowExit; simp [CancelH2.guard, hw, cancelled, hc] at this
    | data => have := hng .wData; simp [CancelH2.guard, hw] at this
    | endStream => have := hng .wEndStream; simp [CancelH2.guard, hw] at this
    | peer => have := hng .wPeerAbort; simp [CancelH2.guard, hw, cancelled, hc] at this
    | cleanup e => have := hng .wCleanupClaim; simp [CancelH2.guard, hw] at this
    | cuClose e => have := hng .wCleanupClose; simp [CancelH2.guard, hw] at this
    | cuWait e =>
      exfalso
      have hf := hng .wCleanupFinish
      simp only [CancelH2.guard, hw, Bool.true_and, Bool.or_eq_false_iff, Bool.not_eq_false'] at hf
      obtain ⟨hcl, hch⟩ := hf
      have hz : s.closes = 0 := by
        cases hn : s.closes with
        | zero => rfl
        | succ n => have := h3.mpr (by omega); rw [hch] at this; cases this
      rw [hcl, hcloser, hz, hw] at h1
      simp [cuTerm] at h1
  obtain ⟨r, hr⟩ := hret
  have hdc : s.donec = true := h5.mpr hdone
  have hid : s.hasID = false := h6 hdone
  have hmu : s.hdrMuHeld = false := by
    cases hm : s.hdrMuHeld with
    | false => rfl
    | true => rcases h7 hm with h | h <;> (rw [hdone] at h; cases h)
  have hbody : s.hasBody = true → s.closes = 1 ∧ s.closedCh = true := by
    intro hb
    have hcl := h4 (by rw [hdone]; rfl) hb
    rw [hcl, hcloser, hdone] at h1
    simp only [cuTerm, Bool.false_eq_true, if_false, if_true] at h1
    exact ⟨by omega, h3.mpr (by omega)⟩
  unfold released
  cases hb : s.hasBody with
  | false => simp [hdone, hdc, hcloser, hid, hmu, hr]
  | true =>
    obtain ⟨hc1, hc2⟩ := hbody hb
    simp [hdone, hdc, hcloser, hid, hmu, hr, hc1, hc2]

/-! ### existence of maximal runs -/

theorem exists_enabled (s : St) (h : stuck s = false) : ∃ a, CancelH2.guard s a = true := by
  unfold stuck at h
  have : ¬ (allActs.all fun a => !CancelH2.guard s a) = true := by rw [h]; simp
  rw [List.all_eq_true] at this
  have ⟨a, _, ha⟩ : ∃ a, a ∈ allActs ∧ ¬ (!CancelH2.guard s a) = true := by
    apply Classical.byContradiction
    intro hne
    apply this
    intro a ha
    apply Classical.byContradiction
    intro hna
    exact hne ⟨a, ha, hna⟩
  exact ⟨a, by simpa using ha⟩

theorem exists_maximal_run : ∀ (n : Nat) (s : St), mu s ≤ n → ∃ as s', Run s as s' ∧ stuck s' = true := by
  intro n
  induction n with
  | zero =>
    intro s hs
    cases hst : stuck s with
    | true => exact ⟨[], s, Run.nil s, hst⟩
    | false =>
      obtain ⟨a, ha⟩ := exists_enabled s hst
      have := mu_dec s a ha
      omega
  | succ n ih =>
    intro s hs
    cases hst : stuck s with
    | true => exact ⟨[], s, Run.nil s, hst⟩
    | false =>
      obtain ⟨a, ha⟩ := exists_enabled s hst
      have hd := mu_dec s a ha
      obtain ⟨as, s', hr, hs'⟩ := ih (apply s a) (by omega)
      exact ⟨a :: as, s', Run.cons ha hr, hs'⟩

/-! ### the error the caller gets -/

/-- along the internal steps after a cancellation that found the caller in its select, with no
response headers and no earlier abort: everything that gets recorded is the cancellation -/
structure CJ (e : CtxErr) (s : St) : Prop where
  ctx : s.ctx = some e
  noHdr : s.respHdr = false
  noPeer : s.peerClosed = false
  ab : s.abort = none ∨ s.abort = some (.ctx e)
  cu : ∀ x, (s.wpc = .cleanup x ∨ s.wpc = .cuClose x ∨ s.wpc = .cuWait x) → x = .ctx e
  rp : s.rpc = .select ∨ s.rpc = .waitBody e ∨ s.rpc = .returned (.err (.ctx e)) ∨
       (s.rpc = .waitDone ∧ s.abort = some (.ctx e))

theorem errOfCtx_CJ (e : CtxErr) (s : St) (h : CJ e s) : errOfCtx s = .ctx e := by
  unfold errOfCtx
  rcases h.ab with ha | ha <;> simp [ha, h.ctx]

theorem abortStream_CJ_fields (s : St) (x : WErr) :
    (abortStream s x).ctx = s.ctx ∧ (abortStream s x).respHdr = s.respHdr ∧
    (abortStream s x).peerClosed = s.peerClosed ∧ (abortStream s x).abort = s.abort.or (some x) := by
  unfold abortStream; simp only; split <;> simp

theorem abortStream_abort_CJ (e : CtxErr) (s : St) (h : s.abort = none ∨ s.abort = some (.ctx e)) :
    (abortStream s (.ctx e)).abort = some (.ctx e) := by
  rw [(abortStream_CJ_fields s (.ctx e)).2.2.2]
  rcases h with h | h <;> simp [h, Option.or]

theorem CJ_abortStream (e : CtxErr) (s : St) (h : CJ e s) :
    CJ e (abortStream s (.ctx e)) ∧ (abortStream s (.ctx e)).abort = some (.ctx e) := by
  have hab := abortStream_abort_CJ e s h.ab
  obtain ⟨f1, f2, f3, _⟩ := abortStream_CJ_fields s (.ctx e)
  obtain ⟨h1, h2, h3, h4, h5, h6⟩ := h
  refine ⟨⟨by rw [f1]; exact h1, by rw [f2]; exact h2, by rw [f3]; exact h3, Or.inr hab, ?_, ?_⟩, hab⟩
  · intro x hx; rw [abortStream_wpc] at hx; exact h5 x hx
  · rw [abortStream_rpc]
    rcases h6 with h6 | h6 | h6 | h6
    · exact Or.inl h6
    · exact Or.inr (Or.inl h6)
    · exact Or.inr (Or.inr (Or.inl h6))
    · exact Or.inr (Or.inr (Or.inr ⟨h6.1, hab⟩))

/-- transfer of `CJ` to a state that differs only in fields `CJ` does not mention, the writer's
program counter (not entering cleanup with a foreign error) and a caller that moved on -/
theorem CJ_of_fields (e : CtxErr) (t u : St) (h : CJ e t) (h1 : u.ctx = t.ctx) (h2 : u.respHdr = t.respHdr)
    (h3 : u.peerClosed = t.peerClosed) (h4 : u.abort = t.abort)
    (h5 : ∀ x, (u.wpc = .cleanup x ∨ u.wpc = .cuClose x ∨ u.wpc = .cuWait x) → x = .ctx e)
    (h6 : u.rpc = t.rpc ∨ u.rpc = .waitBody e ∨ u.rpc = .returned (.err (.ctx e))) : CJ e u := by
  obtain ⟨g1, g2, g3, g4, g5, g6⟩ := h
  refine ⟨by rw [h1]; exact g1, by rw [h2]; exact g2, by rw [h3]; exact g3, by rw [h4]; exact g4, h5, ?_⟩
  rcases h6 with h6 | h6 | h6
  · rw [h6, h4]; exact g6
  · exact Or.inr (Or.inl h6)
  · exact Or.inr (Or.inr (Or.inl h6))

theorem CJ_toCleanup (e : CtxErr) (s : St) (h : CJ e s) (hw : ∀ x, s.wpc ≠ .cleanup x ∧ s.wpc ≠ .cuClose x ∧ s.wpc ≠ .cuWait x) :
    CJ e (toCleanup s (.ctx e)) := by
  obtain ⟨h1, h2, h3, h4, h5, h6⟩ := h
  unfold toCleanup
  constructor <;> simp_all

theorem CJ_act (e : CtxErr) (s : St) (a : Act) (h : CJ e s) (hg : CancelH2.guard s a = true) : CJ e (apply s a) := by
  have herr := errOfCtx_CJ e s h
  cases a <;> simp only [CancelH2.guard, Bool.and_eq_true, beq_iff_eq, Bool.or_eq_true] at hg
  case wHdrMuCancel => simp only [apply, herr]; exact CJ_toCleanup e s h (by simp [hg.1])
  case wSlotAbort => simp only [apply, herr]; exact CJ_toCleanup e s h (by simp [hg.1])
  case wHeaders =>
    simp only [apply, herr]
    split
    · exact CJ_toCleanup e s h (by simp [hg])
    · obtain ⟨h1, h2, h3, h4, h5, h6⟩ := h
      split
      · constructor <;> simp_all
      · split <;> (constructor <;> simp_all)
  case wContCancel => simp only [apply, herr]; exact CJ_toCleanup e s h (by simp [hg.1])
  case wReadChunk => obtain ⟨h1, h2, h3, h4, h5, h6⟩ := h; simp only [apply]; constructor <;> simp_all
  case wReadEOF => obtain ⟨h1, h2, h3, h4, h5, h6⟩ := h; simp only [apply]; constructor <;> simp_all
  case wBodyStop => obtain ⟨h1, h2, h3, h4, h5, h6⟩ := h; simp only [apply]; constructor <;> simp_all
  case wFlowExit =>
    simp only [apply, herr]
    split
    · obtain ⟨h1, h2, h3, h4, h5, h6⟩ := h; constructor <;> simp_all
    · exact CJ_toCleanup e s h (by simp [hg.1])
  case wData => obtain ⟨h1, h2, h3, h4, h5, h6⟩ := h; simp only [apply]; constructor <;> simp_all
  case wEndStream =>
    simp only [apply]
    split
    · next a ha =>
      have : a = .ctx e := by
        rcases h.ab with hx | hx <;> simp_all
      rw [this]
      exact CJ_toCleanup e s h (by simp [hg])
    · obtain ⟨h1, h2, h3, h4, h5, h6⟩ := h; constructor <;> simp_all
  case wPeerDone => rw [h.noPeer] at hg; simp at hg
  case wPeerAbort => simp only [apply, herr]; exact CJ_toCleanup e s h (by simp [hg.1])
  case wCleanupClaim =>
    obtain ⟨h1, h2, h3, h4, h5, h6⟩ := h
    simp only [apply]
    split
    · split <;> (constructor <;> simp_all)
    · simp_all
  case wCleanupClose =>
    obtain ⟨h1, h2, h3, h4, h5, h6⟩ := h
    simp only [apply]
    split
    · constructor <;> simp_all
    · simp_all
  case wCleanupFinish =>
    simp only [apply]
    split
    · next x hw =>
      have hx : x = .ctx e := h.cu x (Or.inr (Or.inr hw))
      subst hx
      have heff : CleanupIn.effErr ⟨.ctx e, s.sentHeaders, s.sentEnd, s.peerClosed⟩ = .ctx e := by
        simp [CleanupIn.effErr, h.noPeer]
      have hA := (CJ_abortStream e s h).1
      rw [heff]
      simp only [ne_eq, reduceCtorEq, not_false_eq_true, if_true]
      exact CJ_of_fields e (abortStream s (.ctx e)) _ hA rfl rfl rfl rfl (by intro y hy; simp at hy) (Or.inl rfl)
    · simp_all
  case rHeaders => rw [h.noHdr] at hg; simp at hg
  case rAbort =>
    obtain ⟨h1, h2, h3, h4, h5, h6⟩ := h
    simp only [apply]
    have : s.abort = some (.ctx e) := by
      rcases h4 with h4 | h4
      · rw [h4] at hg; simp at hg
      · exact h4
    constructor <;> simp_all
    all_goals assumption
  case rCtx =>
    simp only [apply]
    split
    · next e' he' =>
      have : e' = e := by rw [h.ctx] at he'; cases he'; rfl
      subst this
      have hA := (CJ_abortStream e' s h).1
      exact CJ_of_fields e' (abortStream s (.ctx e')) _ hA rfl rfl rfl rfl
        (by intro y hy; simp only [abortStream_wpc] at hy; exact hA.cu y (by simpa using hy)) (Or.inr (Or.inl rfl))
    · next he' => rw [h.ctx] at he'; cases he'
  case rWaitBody =>
    obtain ⟨h1, h2, h3, h4, h5, h6⟩ := h
    simp only [apply]
    split
    · next e' hr => constructor <;> simp_all <;> assumption
    · simp_all
  case rWaitDone =>
    obtain ⟨h1, h2, h3, h4, h5, h6⟩ := h
    simp only [apply]
    constructor <;> simp_all <;> assumption
  case rHdrWaitDone =>
    obtain ⟨h1, h2, h3, h4, h5, h6⟩ := h
    simp_all
  case closerRun => obtain ⟨h1, h2, h3, h4, h5, h6⟩ := h; simp only [apply]; constructor <;> simp_all <;> assumption

theorem CJ_run (e : CtxErr) (s s' : St) (as : List Act) (h : Run s as s') (hj : CJ e s) : CJ e s' := by
  induction h with
  | nil s => exact hj
  | cons hg _ ih => exact ih (CJ_act e _ _ hj hg)

end Req.Lemmas.CancelH2
