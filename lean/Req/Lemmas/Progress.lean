import Req.Client.Progress
/-! Helper lemmas for the progress automata (C17). -/
namespace Req.Progress

theorem runW_cons (st : WState) (e : WEvent) (es : List WEvent) :
    runW st (e :: es) = (stepW st e).2.toList ++ runW (stepW st e).1 es := rfl
theorem runR_cons (st : RState) (e : REvent) (es : List REvent) :
    runR st (e :: es) = (stepR st e).2.toList ++ runR (stepR st e).1 es := rfl
theorem bytesW_cons (e : WEvent) (es : List WEvent) :
    bytesW (e :: es) = (if e.n ≤ 0 then 0 else e.n) + bytesW es := rfl
theorem bytesR_cons (e : REvent) (es : List REvent) :
    bytesR (e :: es) = (if e.n ≤ 0 then 0 else e.n) + bytesR es := rfl
theorem countsW_cons (w : Int) (e : WEvent) (es : List WEvent) :
    countsW w (e :: es) = if e.n ≤ 0 then countsW w es else (w + e.n) :: countsW (w + e.n) es := rfl
theorem countsR_cons (r : Int) (e : REvent) (es : List REvent) :
    countsR r (e :: es) = if e.n ≤ 0 then r :: countsR r es else (r + e.n) :: countsR (r + e.n) es := rfl

/-! ### upload -/

theorem bytesW_nonneg (evs : List WEvent) : 0 ≤ bytesW evs := by
  induction evs with
  | nil => simp [bytesW]
  | cons e es ih => rw [bytesW_cons]; split <;> omega

/-- Everything `stepW` can do. -/
theorem stepW_cases (st : WState) (e : WEvent) :
    (e.n ≤ 0 ∧ stepW st e = (st, none)) ∨
    (0 < e.n ∧ stepW st e = (⟨st.written + e.n, st.total⟩, some (st.written + e.n))) ∨
    (0 < e.n ∧ st.written + e.n ≠ st.total ∧ stepW st e = (⟨st.written + e.n, st.total⟩, none)) := by
  unfold stepW
  by_cases hn : e.n ≤ 0
  · left; simp [hn]
  · right
    have hp : 0 < e.n := by omega
    by_cases ht : st.written + e.n = st.total
    · left; simp [hn, ht, hp]
    · cases hc : e.elapsed
      · right; simp [hn, ht, hp]
      · left; simp [hn, ht, hp]

theorem runW_sublist (st : WState) (evs : List WEvent) :
    (runW st evs).Sublist (countsW st.written evs) := by
  induction evs generalizing st with
  | nil => simp [runW, countsW]
  | cons e es ih =>
    rw [runW_cons, countsW_cons]
    rcases stepW_cases st e with ⟨hn, h⟩ | ⟨hp, h⟩ | ⟨hp, -, h⟩
    · rw [h]; simpa [hn] using ih st
    · have hn : ¬ e.n ≤ 0 := by omega
      rw [h]
      simp only [hn, ↓reduceIte, Option.toList_some, List.cons_append, List.nil_append]
      exact List.Sublist.cons_cons _ (ih _)
    · have hn : ¬ e.n ≤ 0 := by omega
      rw [h]
      simp only [hn, ↓reduceIte, Option.toList_none, List.nil_append]
      exact List.Sublist.cons _ (ih _)

theorem countsW_bounds (w : Int) (evs : List WEvent) :
    ∀ x ∈ countsW w evs, w < x ∧ x ≤ w + bytesW evs := by
  induction evs generalizing w with
  | nil => simp [countsW]
  | cons e es ih =>
    intro x hx
    rw [countsW_cons] at hx
    rw [bytesW_cons]
    have hnn := bytesW_nonneg es
    by_cases hn : e.n ≤ 0
    · simp only [hn, ↓reduceIte] at hx ⊢
      have := ih w x hx; omega
    · simp only [hn, ↓reduceIte] at hx ⊢
      rcases List.mem_cons.mp hx with rfl | hx
      · omega
      · have := ih _ x hx; omega

theorem countsW_increasing (w : Int) (evs : List WEvent) :
    (countsW w evs).Pairwise (· < ·) := by
  induction evs generalizing w with
  | nil => simp [countsW]
  | cons e es ih =>
    rw [countsW_cons]
    split
    · exact ih w
    · refine List.Pairwise.cons ?_ (ih _)
      intro x hx
      exact (countsW_bounds _ es x hx).1

theorem runW_nothing (st : WState) (evs : List WEvent) (h : bytesW evs = 0) : runW st evs = [] := by
  induction evs generalizing st with
  | nil => simp [runW]
  | cons e es ih =>
    have hnn := bytesW_nonneg es
    rw [bytesW_cons] at h
    have hn : e.n ≤ 0 := by
      by_cases hn : e.n ≤ 0
      · exact hn
      · simp only [hn, ↓reduceIte] at h; omega
    have hes : bytesW es = 0 := by simp only [hn, ↓reduceIte] at h; omega
    have : stepW st e = (st, none) := by simp [stepW, hn]
    rw [runW_cons, this]
    simpa using ih st hes

theorem runW_final (st : WState) (evs : List WEvent)
    (htot : st.total = st.written + bytesW evs) (hpos : 0 < bytesW evs) :
    (runW st evs).getLast? = some st.total := by
  induction evs generalizing st with
  | nil => simp [bytesW] at hpos
  | cons e es ih =>
    have hnn := bytesW_nonneg es
    rw [runW_cons]
    rw [bytesW_cons] at htot hpos
    rcases stepW_cases st e with ⟨hn, h⟩ | ⟨hp, h⟩ | ⟨hp, hne, h⟩
    · rw [h]
      simp only [hn, ↓reduceIte] at htot hpos
      simp only [Option.toList_none, List.nil_append]
      exact ih st (by omega) (by omega)
    · have hn : ¬ e.n ≤ 0 := by omega
      simp only [hn, ↓reduceIte] at htot hpos
      rw [h]
      by_cases hes : bytesW es = 0
      · rw [runW_nothing _ es hes]
        simp; omega
      · have := ih ⟨st.written + e.n, st.total⟩ (by simp only; omega) (by omega)
        simp only at this ⊢
        rw [List.getLast?_append, this]; simp
    · have hn : ¬ e.n ≤ 0 := by omega
      simp only [hn, ↓reduceIte] at htot hpos
      rw [h]
      have hes : 0 < bytesW es := by omega
      have := ih ⟨st.written + e.n, st.total⟩ (by simp only; omega) hes
      simpa using this

/-! ### download -/

theorem bytesR_nonneg (evs : List REvent) : 0 ≤ bytesR evs := by
  induction evs with
  | nil => simp [bytesR]
  | cons e es ih => rw [bytesR_cons]; split <;> omega

theorem bytesR_append (a b : List REvent) : bytesR (a ++ b) = bytesR a + bytesR b := by
  induction a with
  | nil => simp [bytesR]
  | cons x xs ih => simp only [List.cons_append, bytesR_cons, ih]; omega

/-- Everything `stepR` can do. -/
theorem stepR_cases (st : RState) (e : REvent) :
    (e.n ≤ 0 ∧ st.lastRead < st.read ∧ stepR st e = (⟨st.read, st.read⟩, some st.read)) ∨
    (e.n ≤ 0 ∧ (e.eof = true → st.read ≤ st.lastRead) ∧ stepR st e = (st, none)) ∨
    (0 < e.n ∧ stepR st e = (⟨st.read + e.n, st.read + e.n⟩, some (st.read + e.n))) ∨
    (0 < e.n ∧ e.eof = false ∧ stepR st e = (⟨st.read + e.n, st.lastRead⟩, none)) := by
  unfold stepR
  by_cases hn : e.n ≤ 0
  · by_cases hlt : st.lastRead < st.read
    · cases he : e.eof
      · right; left; simp [hn, he]
      · left; simp [hn, he, hlt]
    · right; left
      have : ¬ st.read > st.lastRead := by omega
      refine ⟨hn, fun _ => by omega, ?_⟩
      simp [hn, this]
  · have hp : 0 < e.n := by omega
    right; right
    cases he : e.eof
    · cases hc : e.elapsed
      · right; simp [hn, hp]
      · left; simp [hn, hp]
    · left; simp [hn, hp]

theorem runR_sublist (st : RState) (evs : List REvent) :
    (runR st evs).Sublist (countsR st.read evs) := by
  induction evs generalizing st with
  | nil => simp [runR, countsR]
  | cons e es ih =>
    rw [runR_cons, countsR_cons]
    rcases stepR_cases st e with ⟨hn, -, h⟩ | ⟨hn, -, h⟩ | ⟨hp, h⟩ | ⟨hp, -, h⟩
    · rw [h]
      simp only [hn, ↓reduceIte, Option.toList_some, List.cons_append, List.nil_append]
      exact List.Sublist.cons_cons _ (ih _)
    · rw [h]
      simp only [hn, ↓reduceIte, Option.toList_none, List.nil_append]
      exact List.Sublist.cons _ (ih _)
    · have hn : ¬ e.n ≤ 0 := by omega
      rw [h]
      simp only [hn, ↓reduceIte, Option.toList_some, List.cons_append, List.nil_append]
      exact List.Sublist.cons_cons _ (ih _)
    · have hn : ¬ e.n ≤ 0 := by omega
      rw [h]
      simp only [hn, ↓reduceIte, Option.toList_none, List.nil_append]
      exact List.Sublist.cons _ (ih _)

theorem runR_bounds (st : RState) (evs : List REvent) (hinv : st.lastRead ≤ st.read) :
    ∀ x ∈ runR st evs, st.lastRead < x ∧ x ≤ st.read + bytesR evs := by
  induction evs generalizing st with
  | nil => simp [runR]
  | cons e es ih =>
    intro x hx
    have hnn := bytesR_nonneg es
    rw [runR_cons] at hx
    rw [bytesR_cons]
    rcases stepR_cases st e with ⟨hn, hlt, h⟩ | ⟨hn, -, h⟩ | ⟨hp, h⟩ | ⟨hp, -, h⟩
    · rw [h] at hx
      simp only [hn, ↓reduceIte]
      simp only [Option.toList_some, List.cons_append, List.nil_append, List.mem_cons] at hx
      rcases hx with rfl | hx
      · omega
      · have := ih ⟨st.read, st.read⟩ (by simp) x hx
        simp only at this; omega
    · rw [h] at hx
      simp only [hn, ↓reduceIte]
      simp only [Option.toList_none, List.nil_append] at hx
      have := ih st hinv x hx; omega
    · have hn : ¬ e.n ≤ 0 := by omega
      rw [h] at hx
      simp only [hn, ↓reduceIte]
      simp only [Option.toList_some, List.cons_append, List.nil_append, List.mem_cons] at hx
      rcases hx with rfl | hx
      · omega
      · have := ih ⟨st.read + e.n, st.read + e.n⟩ (by simp) x hx
        simp only at this; omega
    · have hn : ¬ e.n ≤ 0 := by omega
      rw [h] at hx
      simp only [hn, ↓reduceIte]
      simp only [Option.toList_none, List.nil_append] at hx
      have := ih ⟨st.read + e.n, st.lastRead⟩ (by simp only; omega) x hx
      simp only at this; omega

theorem runR_increasing (st : RState) (evs : List REvent) (hinv : st.lastRead ≤ st.read) :
    (runR st evs).Pairwise (· < ·) := by
  induction evs generalizing st with
  | nil => simp [runR]
  | cons e es ih =>
    rw [runR_cons]
    rcases stepR_cases st e with ⟨hn, hlt, h⟩ | ⟨hn, -, h⟩ | ⟨hp, h⟩ | ⟨hp, -, h⟩
    · rw [h]
      simp only [Option.toList_some, List.cons_append, List.nil_append]
      refine List.Pairwise.cons ?_ (ih _ (by simp))
      intro x hx
      exact (runR_bounds ⟨st.read, st.read⟩ es (by simp) x hx).1
    · rw [h]; simpa using ih st hinv
    · rw [h]
      simp only [Option.toList_some, List.cons_append, List.nil_append]
      refine List.Pairwise.cons ?_ (ih _ (by simp))
      intro x hx
      exact (runR_bounds ⟨st.read + e.n, st.read + e.n⟩ es (by simp) x hx).1
    · rw [h]
      simp only [Option.toList_none, List.nil_append]
      exact ih _ (by simp only; omega)

theorem getLast?_getD_cons (y : Int) (ys : List Int) (a b : Int) :
    ((y :: ys).getLast?).getD a = ((y :: ys).getLast?).getD b := by
  cases h : (y :: ys).getLast? with
  | none => simp at h
  | some z => simp

/-- After a run the state holds: read = all bytes; lastRead = the last emitted count (or the
initial one if nothing was emitted). -/
theorem runR_state (st : RState) (evs : List REvent) :
    ∃ st' : RState, st'.read = st.read + bytesR evs ∧
      st'.lastRead = ((runR st evs).getLast?).getD st.lastRead ∧
      ∀ tail, runR st (evs ++ tail) = runR st evs ++ runR st' tail := by
  induction evs generalizing st with
  | nil => exact ⟨st, by simp [bytesR], by simp [runR], by simp [runR]⟩
  | cons e es ih =>
    obtain ⟨st', h1, h2, h3⟩ := ih (stepR st e).1
    refine ⟨st', ?_, ?_, ?_⟩
    · rw [h1, bytesR_cons]
      rcases stepR_cases st e with ⟨hn, -, h⟩ | ⟨hn, -, h⟩ | ⟨hp, h⟩ | ⟨hp, -, h⟩ <;> rw [h] <;> simp only <;>
        split <;> omega
    · rw [h2, runR_cons]
      rcases stepR_cases st e with ⟨hn, -, h⟩ | ⟨hn, -, h⟩ | ⟨hp, h⟩ | ⟨hp, -, h⟩
      · rw [h]
        simp only [Option.toList_some, List.cons_append, List.nil_append]
        generalize runR _ es = l
        cases l with
        | nil => simp
        | cons y ys => simpa [List.getLast?_cons_cons] using getLast?_getD_cons y ys _ _
      · rw [h]; simp
      · rw [h]
        simp only [Option.toList_some, List.cons_append, List.nil_append]
        generalize runR _ es = l
        cases l with
        | nil => simp
        | cons y ys => simpa [List.getLast?_cons_cons] using getLast?_getD_cons y ys _ _
      · rw [h]; simp
    · intro tail
      rw [List.cons_append, runR_cons, runR_cons, h3 tail, List.append_assoc]

theorem runR_nothing (st : RState) (evs : List REvent) (h : ∀ e ∈ evs, e.n ≤ 0)
    (heq : st.read ≤ st.lastRead) : runR st evs = [] := by
  induction evs generalizing st with
  | nil => simp [runR]
  | cons e es ih =>
    have hn : e.n ≤ 0 := h e (by simp)
    have hs : stepR st e = (st, none) := by
      unfold stepR
      have : ¬ st.read > st.lastRead := by omega
      simp [hn, this]
    rw [runR_cons, hs]
    simpa using ih st (fun e he => h e (List.mem_cons_of_mem _ he)) heq

theorem bytesR_nothing (post : List REvent) (hpost : ∀ x ∈ post, x.n ≤ 0) : bytesR post = 0 := by
  induction post with
  | nil => simp [bytesR]
  | cons p ps ih =>
    have := hpost p (by simp)
    rw [bytesR_cons, ih (fun x hx => hpost x (List.mem_cons_of_mem _ hx))]
    simp [this]

theorem runR_final (st : RState) (pre post : List REvent) (e : REvent)
    (hinv : st.lastRead ≤ st.read) (heof : e.eof = true) (hpost : ∀ x ∈ post, x.n ≤ 0)
    (hpos : st.lastRead < st.read + bytesR (pre ++ e :: post)) :
    (runR st (pre ++ e :: post)).getLast? = some (st.read + bytesR (pre ++ e :: post)) := by
  obtain ⟨s1, hr1, hl1, happ⟩ := runR_state st pre
  rw [happ]
  have hb : bytesR (pre ++ e :: post) = bytesR pre + (if e.n ≤ 0 then 0 else e.n) := by
    rw [bytesR_append, bytesR_cons, bytesR_nothing post hpost]; omega
  rw [hb] at hpos ⊢
  have hinv1 : s1.lastRead ≤ s1.read := by
    rw [hl1, hr1]
    cases hg : (runR st pre).getLast? with
    | none => have := bytesR_nonneg pre; simp; omega
    | some y =>
      have hy : y ∈ runR st pre := List.mem_of_getLast? hg
      have := (runR_bounds st pre hinv y hy).2
      simp; omega
  rw [runR_cons]
  rcases stepR_cases s1 e with ⟨hn, hlt, h⟩ | ⟨hn, hle, h⟩ | ⟨hp, h⟩ | ⟨hp, hf, h⟩
  · rw [h, runR_nothing _ post hpost (by simp)]
    simp [hn, hr1]
  · -- nothing emitted at EOF: everything was already reported
    rw [h, runR_nothing _ post hpost (hle heof)]
    have heq : s1.lastRead = s1.read := by have := hle heof; omega
    simp only [hn, ↓reduceIte, Int.add_zero] at hpos ⊢
    rw [hl1, hr1] at heq
    cases hg : (runR st pre).getLast? with
    | none => rw [hg] at heq; simp at heq; omega
    | some y => rw [hg] at heq; simp at heq; simp [hg, heq]
  · have hn : ¬ e.n ≤ 0 := by omega
    rw [h, runR_nothing _ post hpost (by simp)]
    simp [hn, hr1]; omega
  · rw [heof] at hf; exact absurd hf (by decide)

end Req.Progress
