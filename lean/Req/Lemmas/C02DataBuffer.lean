import Req.C02.DataBuffer
/-! Lemmas for `dataBuffer`: the chunk list with its cursors refines a flat byte FIFO. -/
namespace Req.C02
open Req.Proto

/-- The representation invariant of `dataBuffer`. -/
structure DataBuffer.WF (b : DataBuffer) : Prop where
  pos : ∀ c ∈ b.chunks, 0 < c.length
  wle : ∀ L, lastLen b.chunks = some L → b.w ≤ L
  rlt : ∀ c rest, b.chunks = c :: rest → b.r < c.length
  rle : b.r ≤ (contentsAux b.w b.chunks).length
  size_eq : b.size = b.contents.length

theorem DataBuffer.WF_new (e : Int) : (DataBuffer.new e).WF :=
  ⟨by simp [DataBuffer.new], by simp [DataBuffer.new, lastLen], by simp [DataBuffer.new],
   by simp [DataBuffer.new, contentsAux], by simp [DataBuffer.new, DataBuffer.contents, contentsAux]⟩

theorem lastLen_cons_cons (c d : Bytes) (rest : List Bytes) :
    lastLen (c :: d :: rest) = lastLen (d :: rest) := rfl

theorem lastLen_ne_nil : ∀ (cs : List Bytes), cs ≠ [] → ∃ L, lastLen cs = some L
  | [], h => absurd rfl h
  | [c], _ => ⟨c.length, rfl⟩
  | _ :: d :: rest, _ => by
    rw [lastLen_cons_cons]; exact lastLen_ne_nil (d :: rest) (by simp)

theorem contentsAux_snoc (a : Bytes) : ∀ (cs : List Bytes) (L : Nat), lastLen cs = some L →
    contentsAux 0 (cs ++ [a]) = contentsAux L cs
  | [], _, h => by simp [lastLen] at h
  | [c], L, h => by
    simp only [lastLen, Option.some.injEq] at h
    subst h
    simp [contentsAux]
  | c :: d :: rest, L, h => by
    rw [lastLen_cons_cons] at h
    have ih := contentsAux_snoc a (d :: rest) L h
    simp only [List.cons_append] at ih ⊢
    simp only [contentsAux]
    rw [← ih]

theorem lastLen_snoc (a : Bytes) : ∀ (cs : List Bytes), lastLen (cs ++ [a]) = some a.length
  | [] => rfl
  | [c] => rfl
  | c :: d :: rest => by
    have ih := lastLen_snoc a (d :: rest)
    simp only [List.cons_append] at ih ⊢
    rw [lastLen_cons_cons]; exact ih

theorem copyAt_length (w : Nat) (p c : Bytes) (h : w ≤ c.length) : (copyAt w p c).length = c.length := by
  simp only [copyAt, List.length_append, List.length_take, List.length_drop]
  omega

theorem lastLen_modifyLast (f : Bytes → Bytes) (hf : ∀ c, (f c).length = c.length) :
    ∀ cs : List Bytes, lastLen (modifyLast f cs) = lastLen cs
  | [] => rfl
  | [c] => by simp [modifyLast, lastLen, hf]
  | c :: d :: rest => by
    have ih := lastLen_modifyLast f hf (d :: rest)
    simp only [modifyLast]
    cases hm : modifyLast f (d :: rest) with
    | nil => cases rest <;> simp [modifyLast] at hm
    | cons x xs => rw [lastLen_cons_cons, ← hm, ih, lastLen_cons_cons]

/-- Like `lastLen_modifyLast`, for an `f` that keeps the length of the LAST chunk. -/
theorem lastLen_modifyLast' (f : Bytes → Bytes) :
    ∀ (cs : List Bytes) (L : Nat), lastLen cs = some L → (∀ c, c.length = L → (f c).length = L) →
      lastLen (modifyLast f cs) = some L
  | [], _, h, _ => by simp [lastLen] at h
  | [c], L, h, hf => by
    simp only [lastLen, Option.some.injEq] at h
    simp [modifyLast, lastLen, hf c h]
  | c :: d :: rest, L, h, hf => by
    rw [lastLen_cons_cons] at h
    have ih := lastLen_modifyLast' f (d :: rest) L h hf
    simp only [modifyLast]
    cases hm : modifyLast f (d :: rest) with
    | nil => cases rest <;> simp [modifyLast] at hm
    | cons x xs => rw [lastLen_cons_cons, ← hm, ih]

theorem mem_modifyLast (f : Bytes → Bytes) : ∀ (cs : List Bytes) (x : Bytes), x ∈ modifyLast f cs →
    x ∈ cs ∨ ∃ c, c ∈ cs ∧ lastLen cs = some c.length ∧ x = f c
  | [], x, h => by simp [modifyLast] at h
  | [c], x, h => by
    simp only [modifyLast, List.mem_singleton] at h
    exact Or.inr ⟨c, by simp, rfl, h⟩
  | c :: d :: rest, x, h => by
    simp only [modifyLast, List.mem_cons] at h
    rcases h with h | h
    · exact Or.inl (by simp [h])
    · have h' : x ∈ modifyLast f (d :: rest) := by
        cases rest <;> simpa [modifyLast] using h
      rcases mem_modifyLast f (d :: rest) x h' with h1 | ⟨c', hc', hl, hx⟩
      · exact Or.inl (List.mem_cons_of_mem _ h1)
      · exact Or.inr ⟨c', List.mem_cons_of_mem _ hc', by rw [lastLen_cons_cons]; exact hl, hx⟩

theorem head_modifyLast (f : Bytes → Bytes) (c c' : Bytes) (rest rest' : List Bytes)
    (h : modifyLast f (c :: rest) = c' :: rest') : c' = c ∨ (rest = [] ∧ c' = f c) := by
  cases rest with
  | nil => simp only [modifyLast, List.cons.injEq] at h; exact Or.inr ⟨rfl, h.1.symm⟩
  | cons d rest => simp only [modifyLast, List.cons.injEq] at h; exact Or.inl h.1.symm

/-- Writing `n` bytes at `w` into the last chunk appends them to what the chunks hold. -/
theorem contentsAux_copy (w : Nat) (p : Bytes) : ∀ (cs : List Bytes) (L : Nat), lastLen cs = some L → w < L →
    contentsAux (w + min p.length (L - w)) (modifyLast (copyAt w p) cs) =
      contentsAux w cs ++ p.take (min p.length (L - w))
  | [], _, h, _ => by simp [lastLen] at h
  | [c], L, h, hw => by
    simp only [lastLen, Option.some.injEq] at h
    subst h
    simp only [modifyLast, contentsAux, copyAt]
    have hB : List.take (c.length - w) p = List.take (min p.length (c.length - w)) p := by
      rcases Nat.le_total p.length (c.length - w) with h | h
      · rw [Nat.min_eq_left h, List.take_of_length_le h, List.take_of_length_le (Nat.le_refl _)]
      · rw [Nat.min_eq_right h]
    rw [hB]
    apply List.take_left'
    simp only [List.length_append, List.length_take]
    omega
  | c :: d :: rest, L, h, hw => by
    rw [lastLen_cons_cons] at h
    have ih := contentsAux_copy w p (d :: rest) L h hw
    simp only [modifyLast]
    cases hm : modifyLast (copyAt w p) (d :: rest) with
    | nil => cases rest <;> simp [modifyLast] at hm
    | cons x xs =>
      simp only [contentsAux]
      rw [← hm, ih, List.append_assoc]

theorem contentsAux_length_ge_head (w : Nat) (c d : Bytes) (rest : List Bytes) :
    c.length ≤ (contentsAux w (c :: d :: rest)).length := by
  simp [contentsAux]

theorem take_split (l : Bytes) (n k : Nat) (h : n ≤ k) :
    l.take k = l.take n ++ (l.drop n).take (k - n) := by
  have : k = n + (k - n) := by omega
  conv => lhs; rw [this]
  rw [List.take_add]

/-- `lastChunkOrAlloc`: same contents, and room in the last chunk. -/
theorem DataBuffer.lastChunkOrAlloc_spec (alloc : Int → Bytes) (halloc : ∀ x, 0 < (alloc x).length)
    (b : DataBuffer) (want : Int) (hw : b.WF) :
    let b1 := b.lastChunkOrAlloc alloc want
    b1.WF ∧ b1.contents = b.contents ∧ b1.size = b.size ∧ b1.expected = b.expected ∧ b1.r = b.r ∧
      ∃ L, lastLen b1.chunks = some L ∧ b1.w < L := by
  intro b1
  cases hl : lastLen b.chunks with
  | none =>
    have hnil : b.chunks = [] := by
      cases hc : b.chunks with
      | nil => rfl
      | cons c rest =>
        obtain ⟨L, hL⟩ := lastLen_ne_nil (c :: rest) (by simp)
        rw [hc] at hl; rw [hL] at hl; cases hl
    have hr : b.r = 0 := by
      have := hw.rle; rw [hnil] at this; simpa [contentsAux] using this
    have hb1 : b1 = { b with chunks := [alloc want], w := 0 } := by
      show b.lastChunkOrAlloc alloc want = _
      simp [DataBuffer.lastChunkOrAlloc, hl]
    have hc0 : b.contents = [] := by simp [DataBuffer.contents, hnil, contentsAux]
    have hc1 : b1.contents = [] := by simp [hb1, DataBuffer.contents, contentsAux]
    refine ⟨⟨?_, ?_, ?_, ?_, ?_⟩, by rw [hc0, hc1], by simp [hb1], by simp [hb1], by simp [hb1], ?_⟩
    · intro c hc; simp only [hb1, List.mem_singleton] at hc; subst hc; exact halloc _
    · intro L _; simp [hb1]
    · intro c rest hcr
      simp only [hb1, List.cons.injEq] at hcr
      rw [← hcr.1]; simp only [hb1, hr]; exact halloc _
    · simp [hb1, hr]
    · have hs : b1.size = b.size := by simp [hb1]
      rw [hc1, hs, hw.size_eq, hc0]
    · exact ⟨(alloc want).length, by simp [hb1, lastLen], by simp [hb1]; exact halloc _⟩
  | some L =>
    by_cases hlt : b.w < L
    · have hb1 : b1 = b := by
        show b.lastChunkOrAlloc alloc want = _
        simp [DataBuffer.lastChunkOrAlloc, hl, hlt]
      rw [hb1]
      exact ⟨hw, rfl, rfl, rfl, rfl, L, hl, hlt⟩
    · have hwL : b.w = L := by have := hw.wle L hl; omega
      have hb1 : b1 = { b with chunks := b.chunks ++ [alloc want], w := 0 } := by
        show b.lastChunkOrAlloc alloc want = _
        simp [DataBuffer.lastChunkOrAlloc, hl, hlt]
      have haux : contentsAux 0 (b.chunks ++ [alloc want]) = contentsAux b.w b.chunks := by
        rw [hwL]; exact contentsAux_snoc _ _ _ hl
      have hc1 : b1.contents = b.contents := by
        simp only [hb1, DataBuffer.contents, haux]
      refine ⟨⟨?_, ?_, ?_, ?_, ?_⟩, hc1, by simp [hb1], by simp [hb1], by simp [hb1], ?_⟩
      · intro c hc
        simp only [hb1, List.mem_append, List.mem_singleton] at hc
        rcases hc with hc | hc
        · exact hw.pos c hc
        · subst hc; exact halloc _
      · intro L' _; simp [hb1]
      · intro c rest hcr
        simp only [hb1] at hcr ⊢
        cases hbc : b.chunks with
        | nil => rw [hbc] at hl; simp [lastLen] at hl
        | cons c0 rest0 =>
          rw [hbc] at hcr
          simp only [List.cons_append, List.cons.injEq] at hcr
          rw [← hcr.1]; exact hw.rlt c0 rest0 hbc
      · simp only [hb1, haux]; exact hw.rle
      · rw [hc1]; simp only [hb1]; exact hw.size_eq
      · exact ⟨(alloc want).length, by simp only [hb1]; exact lastLen_snoc _ _, by simp [hb1]; exact halloc _⟩

/-- The loop of `Write`: ends, keeps the invariant, appends exactly `p`. -/
theorem DataBuffer.writeLoop_spec (alloc : Int → Bytes) (halloc : ∀ x, 0 < (alloc x).length) :
    ∀ (fuel : Nat) (p : Bytes) (b : DataBuffer), b.WF → p.length < fuel →
      ∃ b', DataBuffer.writeLoop alloc fuel p b = some b' ∧ b'.WF ∧ b'.contents = b.contents ++ p := by
  intro fuel
  induction fuel with
  | zero => intro p b _ h; omega
  | succ fuel ih =>
    intro p b hw hf
    unfold DataBuffer.writeLoop
    cases hp : p with
    | nil => exact ⟨b, by simp, hw, by simp⟩
    | cons x xs =>
      simp only [List.isEmpty_cons, Bool.false_eq_true, if_false]
      rw [← hp]
      generalize hwant : (if b.expected > (p.length : Int) then b.expected else (p.length : Int)) = want
      obtain ⟨hw1, hc1, hs1, _, hr1, L, hL, hwL⟩ := DataBuffer.lastChunkOrAlloc_spec alloc halloc b want hw
      generalize hb1 : b.lastChunkOrAlloc alloc want = b1 at hw1 hc1 hs1 hr1 hL hwL
      simp only [hL]
      have hplen : 0 < p.length := by rw [hp]; simp
      let n := min p.length (L - b1.w)
      have hn : 0 < n := by show 0 < min p.length (L - b1.w); omega
      have hlen : ∀ c : Bytes, c.length = L → (copyAt b1.w p c).length = L := by
        intro c hc; rw [copyAt_length _ _ _ (by omega), hc]
      have hL2 : lastLen (modifyLast (copyAt b1.w p) b1.chunks) = some L :=
        lastLen_modifyLast' _ _ _ hL hlen
      have haux := contentsAux_copy b1.w p b1.chunks L hL hwL
      let b2 : DataBuffer := { b1 with chunks := modifyLast (copyAt b1.w p) b1.chunks, w := b1.w + n,
                                       size := b1.size + n, expected := b1.expected - (n : Int) }
      have hc2 : b2.contents = b1.contents ++ p.take n := by
        show (contentsAux (b1.w + n) (modifyLast (copyAt b1.w p) b1.chunks)).drop b1.r = _
        rw [haux]
        show List.drop b1.r (contentsAux b1.w b1.chunks ++ List.take n p) = _
        rw [List.drop_append_of_le_length hw1.rle]
        rfl
      have hw2 : b2.WF := by
        refine ⟨?_, ?_, ?_, ?_, ?_⟩
        · intro c hc
          rcases mem_modifyLast _ _ _ hc with h1 | ⟨c', hc', hl', hx⟩
          · exact hw1.pos c h1
          · rw [hx, copyAt_length]
            · exact hw1.pos c' hc'
            · rw [hL] at hl'; cases hl'; omega
        · intro L' hL'
          have : L' = L := by
            have h3 : lastLen b2.chunks = some L := hL2
            rw [h3] at hL'; cases hL'; rfl
          subst this
          show b1.w + n ≤ L'
          show b1.w + min p.length (L' - b1.w) ≤ L'
          omega
        · intro c rest hcr
          show b1.r < c.length
          cases hbc : b1.chunks with
          | nil => rw [hbc] at hL; simp [lastLen] at hL
          | cons c0 rest0 =>
            have hcr' : modifyLast (copyAt b1.w p) (c0 :: rest0) = c :: rest := by rw [← hbc]; exact hcr
            have h0 := hw1.rlt c0 rest0 hbc
            rcases head_modifyLast _ _ _ _ _ hcr' with h | ⟨hnil, h⟩
            · rw [h]; exact h0
            · rw [h, copyAt_length]
              · exact h0
              · subst hnil; rw [hbc] at hL; simp only [lastLen, Option.some.injEq] at hL; omega
        · show b1.r ≤ (contentsAux (b1.w + n) (modifyLast (copyAt b1.w p) b1.chunks)).length
          rw [haux, List.length_append]
          have := hw1.rle; omega
        · rw [hc2, List.length_append]
          show b1.size + n = _
          rw [hw1.size_eq]
          have : (List.take n p).length = n := by
            rw [List.length_take]; show min (min p.length (L - b1.w)) p.length = min p.length (L - b1.w); omega
          omega
      have hfuel : (p.drop n).length < fuel := by
        rw [List.length_drop]; omega
      obtain ⟨b', hrun, hw', hc'⟩ := ih (p.drop n) b2 hw2 hfuel
      refine ⟨b', hrun, hw', ?_⟩
      rw [hc', hc2, hc1, List.append_assoc, List.take_append_drop]

theorem take_length_take (l : Bytes) (k : Nat) : l.take k = l.take (l.take k).length := by
  rw [List.length_take]
  rcases Nat.le_total k l.length with h | h
  · rw [Nat.min_eq_left h]
  · rw [Nat.min_eq_right h, List.take_of_length_le h, List.take_of_length_le (Nat.le_refl _)]

theorem lastLen_tail (c d : Bytes) (rest : List Bytes) : lastLen (c :: d :: rest) = lastLen (d :: rest) := rfl

/-- The loop of `Read`: ends within `len(chunks)+1` iterations, hands out a prefix of what is
buffered and keeps the rest, in order. -/
theorem DataBuffer.readLoop_spec :
    ∀ (fuel k : Nat) (acc : Bytes) (b : DataBuffer), b.WF →
      (k = 0 ∨ b.size = 0 ∨ b.chunks.length < fuel) →
      ∃ b', DataBuffer.readLoop fuel k acc b = some (acc ++ b.contents.take k, b') ∧ b'.WF ∧
        b'.contents = b.contents.drop k ∧ b'.expected = b.expected := by
  intro fuel
  induction fuel with
  | zero =>
    intro k acc b hw hf
    have hstop : k = 0 ∨ b.size = 0 := by
      rcases hf with h | h | h
      · exact Or.inl h
      · exact Or.inr h
      · omega
    unfold DataBuffer.readLoop
    simp only [hstop, if_true]
    have : b.contents.take k = [] ∧ b.contents.drop k = b.contents := by
      rcases hstop with h | h
      · subst h; simp
      · have : b.contents = [] := by
          have := hw.size_eq; rw [h] at this; exact List.eq_nil_of_length_eq_zero this.symm
        simp [this]
    exact ⟨b, by simp [this.1], hw, this.2.symm, rfl⟩
  | succ fuel ih =>
    intro k acc b hw hf
    unfold DataBuffer.readLoop
    by_cases hstop : k = 0 ∨ b.size = 0
    · simp only [hstop, if_true]
      have : b.contents.take k = [] ∧ b.contents.drop k = b.contents := by
        rcases hstop with h | h
        · subst h; simp
        · have : b.contents = [] := by
            have := hw.size_eq; rw [h] at this; exact List.eq_nil_of_length_eq_zero this.symm
          simp [this]
      exact ⟨b, by simp [this.1], hw, this.2.symm, rfl⟩
    · simp only [hstop, if_false]
      have hk : 0 < k := by omega
      have hsz : 0 < b.size := by omega
      have hlen : b.chunks.length < fuel + 1 := by
        rcases hf with h | h | h
        · omega
        · omega
        · exact h
      cases hch : b.chunks with
      | nil =>
        have : b.contents = [] := by simp [DataBuffer.contents, hch, contentsAux]
        have := hw.size_eq; simp_all
      | cons c rest =>
        simp only []
        have hrc : b.r < c.length := hw.rlt c rest hch
        cases rest with
        | nil =>
          -- one chunk: the readable part is chunk[r:w]
          have hcont : b.contents = (c.take b.w).drop b.r := by
            simp [DataBuffer.contents, hch, contentsAux]
          have hwl : b.w ≤ c.length := hw.wle c.length (by rw [hch]; rfl)
          have hsize : b.size = b.w - b.r := by
            rw [hw.size_eq, hcont, List.length_drop, List.length_take]; omega
          have hfrom : b.bytesFromFirstChunk c [] = b.contents := by
            simp [DataBuffer.bytesFromFirstChunk, hcont]
          rw [hfrom]
          generalize hd : b.contents.take k = d
          have hdl : d.length = min k b.size := by
            rw [← hd, List.length_take, hw.size_eq]
          by_cases hpop : b.r + d.length = c.length
          · -- the chunk is used up: it goes back to the pool
            simp only [hpop, if_true]
            have hall : b.size ≤ k ∧ d.length = b.size := by omega
            let b2 : DataBuffer := { b with chunks := [], r := 0, size := b.size - d.length }
            have hw2 : b2.WF := by
              refine ⟨by simp [b2], by simp [b2, lastLen], by simp [b2], by simp [b2, contentsAux], ?_⟩
              show b.size - d.length = _
              simp [b2, DataBuffer.contents, contentsAux]; omega
            have hc2 : b2.contents = [] := by simp [b2, DataBuffer.contents, contentsAux]
            obtain ⟨b', hrun, hw', hc', he'⟩ := ih (k - d.length) (acc ++ d) b2 hw2
              (Or.inr (Or.inl (by show b.size - d.length = 0; omega)))
            refine ⟨b', ?_, hw', ?_, he'⟩
            · rw [hrun, hc2]; simp
            · rw [hc', hc2]
              have : b.contents.length ≤ k := by rw [← hw.size_eq]; exact hall.1
              simp [List.drop_of_length_le this]
          · simp only [hpop, if_false]
            let b2 : DataBuffer := { b with chunks := [c], r := b.r + d.length, size := b.size - d.length }
            have hc2 : b2.contents = b.contents.drop d.length := by
              show (contentsAux b.w [c]).drop (b.r + d.length) = _
              rw [DataBuffer.contents, hch, List.drop_drop]
            have hw2 : b2.WF := by
              refine ⟨?_, ?_, ?_, ?_, ?_⟩
              · intro x hx; exact hw.pos x (by rw [hch]; exact hx)
              · intro L hL; exact hw.wle L (by rw [hch]; exact hL)
              · intro c' rest' hcr
                have : [c] = c' :: rest' := hcr
                simp only [List.cons.injEq] at this
                rw [← this.1]
                show b.r + d.length < c.length
                omega
              · show b.r + d.length ≤ (contentsAux b.w [c]).length
                simp only [contentsAux, List.length_take]; omega
              · rw [hc2, List.length_drop, ← hw.size_eq]
            have hdone : k - d.length = 0 ∨ b2.size = 0 := by
              show k - d.length = 0 ∨ b.size - d.length = 0
              omega
            obtain ⟨b', hrun, hw', hc', he'⟩ := ih (k - d.length) (acc ++ d) b2 hw2
              (by rcases hdone with h | h
                  · exact Or.inl h
                  · exact Or.inr (Or.inl h))
            refine ⟨b', ?_, hw', ?_, he'⟩
            · have hnil : List.take (k - d.length) b2.contents = [] := by
                rw [hc2]
                rcases Nat.le_total k b.size with h | h
                · have : k - d.length = 0 := by omega
                  rw [this]; rfl
                · have : b.contents.length ≤ d.length := by rw [← hw.size_eq]; omega
                  rw [List.drop_of_length_le this]; simp
              rw [hrun, hnil, List.append_nil]
            · rw [hc', hc2, List.drop_drop]
              congr 1
              omega
        | cons c2 rest2 =>
          -- several chunks: the readable part is the rest of the first chunk
          have hcont : b.contents = c.drop b.r ++ contentsAux b.w (c2 :: rest2) := by
            simp only [DataBuffer.contents, hch, contentsAux]
            rw [List.drop_append_of_le_length (by omega)]
          have hfrom : b.bytesFromFirstChunk c (c2 :: rest2) = c.drop b.r := by
            simp [DataBuffer.bytesFromFirstChunk]
          rw [hfrom]
          generalize hd : (c.drop b.r).take k = d
          have hdl : d.length = min k (c.length - b.r) := by
            rw [← hd, List.length_take, List.length_drop]
          have hdtake : d = b.contents.take d.length := by
            rw [hcont, ← hd]
            rw [List.take_append_of_le_length (by rw [List.length_take]; omega)]
            exact take_length_take _ _
          have hsz2 : d.length ≤ b.size := by
            rw [hw.size_eq, hcont, List.length_append, List.length_drop]; omega
          by_cases hpop : b.r + d.length = c.length
          · simp only [hpop, if_true]
            let b2 : DataBuffer := { b with chunks := c2 :: rest2, r := 0, size := b.size - d.length }
            have hdfull : d = c.drop b.r := by
              rw [← hd]; apply List.take_of_length_le; rw [List.length_drop]; omega
            have hc2 : b2.contents = b.contents.drop d.length := by
              show (contentsAux b.w (c2 :: rest2)).drop 0 = _
              rw [hcont, ← hdfull, List.drop_left']
              · simp
              · rfl
            have hw2 : b2.WF := by
              refine ⟨?_, ?_, ?_, by show 0 ≤ _; omega, ?_⟩
              · intro x hx; exact hw.pos x (by rw [hch]; exact List.mem_cons_of_mem _ hx)
              · intro L hL; exact hw.wle L (by rw [hch, lastLen_tail]; exact hL)
              · intro c' rest' hcr
                show 0 < c'.length
                apply hw.pos c'
                rw [hch]
                have : c2 :: rest2 = c' :: rest' := hcr
                simp only [List.cons.injEq] at this
                rw [← this.1]; simp
              · rw [hc2, List.length_drop, ← hw.size_eq]
            obtain ⟨b', hrun, hw', hc', he'⟩ := ih (k - d.length) (acc ++ d) b2 hw2
              (Or.inr (Or.inr (by
                show (c2 :: rest2).length < fuel
                rw [hch] at hlen; simp only [List.length_cons] at hlen ⊢; omega)))
            refine ⟨b', ?_, hw', ?_, he'⟩
            · rw [hrun, hc2, List.append_assoc]
              congr 2
              have hle : d.length ≤ k := by omega
              rw [take_split b.contents d.length k hle, ← hdtake]
            · rw [hc', hc2, List.drop_drop]
              congr 1
              omega
          · simp only [hpop, if_false]
            let b2 : DataBuffer := { b with chunks := c :: c2 :: rest2, r := b.r + d.length, size := b.size - d.length }
            have hdk : d.length = k := by omega
            have hc2 : b2.contents = b.contents.drop d.length := by
              show (contentsAux b.w (c :: c2 :: rest2)).drop (b.r + d.length) = _
              rw [DataBuffer.contents, hch, List.drop_drop]
            have hw2 : b2.WF := by
              refine ⟨?_, ?_, ?_, ?_, ?_⟩
              · intro x hx; exact hw.pos x (by rw [hch]; exact hx)
              · intro L hL; exact hw.wle L (by rw [hch]; exact hL)
              · intro c' rest' hcr
                have : c :: c2 :: rest2 = c' :: rest' := hcr
                simp only [List.cons.injEq] at this
                rw [← this.1]
                show b.r + d.length < c.length
                omega
              · show b.r + d.length ≤ (contentsAux b.w (c :: c2 :: rest2)).length
                have := contentsAux_length_ge_head b.w c c2 rest2
                omega
              · rw [hc2, List.length_drop, ← hw.size_eq]
            obtain ⟨b', hrun, hw', hc', he'⟩ := ih (k - d.length) (acc ++ d) b2 hw2 (Or.inl (by omega))
            refine ⟨b', ?_, hw', ?_, he'⟩
            · rw [hrun, hc2, List.append_assoc]
              congr 2
              have hle : d.length ≤ k := by omega
              rw [take_split b.contents d.length k hle, ← hdtake]
            · rw [hc', hc2, List.drop_drop]
              congr 1
              omega

end Req.C02
