import Req.Client.Redirect
/-! C11: `AlwaysCopyHeaderRedirectPolicy` on the header-map model. -/
namespace Req.Lemmas.C11
open Req.Proto Req.Ascii Req.Redirect

theorem values_add (r : Headers) (h v k : Bytes) :
    (r.add h v).values k =
      r.values k ++ (if canonicalMIMEHeaderKey h = canonicalMIMEHeaderKey k then [v] else []) := by
  simp only [Headers.add, Headers.values, List.filter_append, List.flatMap_append]
  by_cases hk : canonicalMIMEHeaderKey h = canonicalMIMEHeaderKey k
  · simp [hk, List.filter]
  · have : (canonicalMIMEHeaderKey h == canonicalMIMEHeaderKey k) = false := by simpa using hk
    simp [hk, List.filter, this]

theorem values_foldl_add (vals : List Bytes) (r : Headers) (h k : Bytes) :
    (vals.foldl (fun r v => r.add h v) r).values k =
      r.values k ++ (if canonicalMIMEHeaderKey h = canonicalMIMEHeaderKey k then vals else []) := by
  induction vals generalizing r with
  | nil => simp
  | cons v vs ih =>
    simp only [List.foldl_cons, ih, values_add]
    by_cases hk : canonicalMIMEHeaderKey h = canonicalMIMEHeaderKey k <;> simp [hk]

theorem values_congr (r : Headers) {h k : Bytes}
    (hk : canonicalMIMEHeaderKey h = canonicalMIMEHeaderKey k) : r.values h = r.values k := by
  simp [Headers.values, hk]

theorem copyOne_values (via0 req : Headers) (h k : Bytes) :
    (copyOne via0 req h).values k =
      if canonicalMIMEHeaderKey h = canonicalMIMEHeaderKey k ∧ req.values k = []
      then via0.values k else req.values k := by
  unfold copyOne
  by_cases hk : canonicalMIMEHeaderKey h = canonicalMIMEHeaderKey k
  · rw [values_congr req hk, values_congr via0 hk]
    by_cases he : req.values k = []
    · simp [he, hk, values_foldl_add]
    · have : (req.values k).length > 0 := List.length_pos_iff.mpr he
      simp [this, he]
  · by_cases hl : (req.values h).length > 0
    · simp [hl, hk]
    · simp [hl, hk, values_foldl_add]

/-- After `AlwaysCopyHeaderRedirectPolicy(hs…)`: a header the new request lacks and that is
listed (by canonical name) gets exactly the original request's values; nothing else changes. -/
theorem alwaysCopy_values (hs : List Bytes) (req via0 : Headers) (k : Bytes) :
    (alwaysCopyHeaders hs req via0).values k =
      if (∃ h ∈ hs, canonicalMIMEHeaderKey h = canonicalMIMEHeaderKey k) ∧ req.values k = []
      then via0.values k else req.values k := by
  unfold alwaysCopyHeaders
  induction hs generalizing req with
  | nil => simp
  | cons h t ih =>
    simp only [List.foldl_cons, ih, copyOne_values, List.mem_cons, exists_eq_or_imp]
    by_cases hk : canonicalMIMEHeaderKey h = canonicalMIMEHeaderKey k
    · by_cases he : req.values k = []
      · by_cases hv : via0.values k = []
        · simp [hk, he, hv]
        · simp [hk, he, hv]
      · simp [hk, he]
    · simp [hk]

/-! ### CanonicalMIMEHeaderKey is idempotent -/

theorem forall_uint8' (P : UInt8 → Prop) (h : ∀ i : Fin 256, P (UInt8.ofFin i)) : ∀ x, P x := by
  intro x
  have := h x.toFin
  simpa using this

set_option maxRecDepth 100000 in
theorem token_toUpper : ∀ c : UInt8, isTokenByte c = true → isTokenByte (toUpper c) = true := by
  apply forall_uint8'; decide
set_option maxRecDepth 100000 in
theorem token_toLower : ∀ c : UInt8, isTokenByte c = true → isTokenByte (toLower c) = true := by
  apply forall_uint8'; decide
set_option maxRecDepth 100000 in
theorem toUpper_idem : ∀ c : UInt8, toUpper (toUpper c) = toUpper c := by
  apply forall_uint8'; decide
set_option maxRecDepth 100000 in
theorem toLower_idem' : ∀ c : UInt8, toLower (toLower c) = toLower c := by
  apply forall_uint8'; decide
set_option maxRecDepth 100000 in
theorem toUpper_dash : ∀ c : UInt8, (toUpper c == 45) = (c == 45) := by
  apply forall_uint8'; decide
set_option maxRecDepth 100000 in
theorem toLower_dash : ∀ c : UInt8, (toLower c == 45) = (c == 45) := by
  apply forall_uint8'; decide

theorem canonGo_token (up : Bool) (s : Bytes) (h : s.all isTokenByte = true) :
    (canonGo up s).all isTokenByte = true := by
  induction s generalizing up with
  | nil => rfl
  | cons c cs ih =>
    simp only [List.all_cons, Bool.and_eq_true] at h
    simp only [canonGo, List.all_cons, Bool.and_eq_true]
    refine ⟨?_, ih _ h.2⟩
    cases up
    · simpa using token_toLower c h.1
    · simpa using token_toUpper c h.1

theorem canonGo_idem (up : Bool) (s : Bytes) : canonGo up (canonGo up s) = canonGo up s := by
  induction s generalizing up with
  | nil => rfl
  | cons c cs ih =>
    cases up
    · simp only [canonGo, Bool.false_eq_true, if_false, toLower_idem', toLower_dash, ih]
    · simp only [canonGo, if_true, toUpper_idem, toUpper_dash, ih]

theorem canonical_idem (k : Bytes) :
    canonicalMIMEHeaderKey (canonicalMIMEHeaderKey k) = canonicalMIMEHeaderKey k := by
  unfold canonicalMIMEHeaderKey
  by_cases h : k.all isTokenByte = true
  · simp only [h, if_true, canonGo_token true k h, canonGo_idem]
  · simp [h]

theorem isSensitive_canon (k : Bytes) : isSensitive (canonicalMIMEHeaderKey k) = isSensitive k := by
  simp [isSensitive, canonical_idem]

/-- What net/http hands to CheckRedirect: the initial headers, minus the sensitive ones once a
cross-origin hop was seen. -/
theorem goCopy_values (init : Headers) (strip : Bool) (k : Bytes) :
    (goCopyHeaders init strip).values k =
      if strip = true ∧ isSensitive k = true then [] else init.values k := by
  simp only [goCopyHeaders, Headers.values, List.filter_filter]
  by_cases hs : strip = true ∧ isSensitive k = true
  · rw [if_pos hs]
    have : init.filter (fun e => (e.1 == canonicalMIMEHeaderKey k) && !(strip && isSensitive e.1)) = [] := by
      apply List.filter_eq_nil_iff.mpr
      intro e _
      by_cases he : e.1 = canonicalMIMEHeaderKey k
      · simp [he, isSensitive_canon, hs.1, hs.2]
      · simp [he]
    rw [this]; rfl
  · rw [if_neg hs]
    congr 1
    apply List.filter_congr
    intro e _
    by_cases he : e.1 = canonicalMIMEHeaderKey k
    · have : (strip && isSensitive k) = false := by
        cases strip <;> cases hk : isSensitive k <;> simp_all
      simp [he, isSensitive_canon, this]
    · simp [he]

theorem compose_cons_allow (p : Policy) (ps : List (Option Policy)) (req : Bytes) (h : Headers)
    (via : Via) (hal : (compose (some p :: ps) req h via).1 = .allow) :
    compose (some p :: ps) req h via = compose ps req (p.xform h via) via := by
  simp only [compose] at hal ⊢
  cases hc : p.check req via with
  | allow => rfl
  | deny => rw [hc] at hal; exact absurd hal (by simp)
  | useLast => rw [hc] at hal; exact absurd hal (by simp)

theorem any_canon_iff (l : List Bytes) (k : Bytes) :
    (l.any fun h => canonicalMIMEHeaderKey h == canonicalMIMEHeaderKey k) = true ↔
      ∃ h ∈ l, canonicalMIMEHeaderKey h = canonicalMIMEHeaderKey k := by
  simp [List.any_eq_true]

/-- Header effect of an allowed composition made of redirect.go's constructors: a header the
rebuilt request lacks and some AlwaysCopy policy lists gets the original request's values;
everything else is what net/http put there. -/
theorem compose_values (ds : List PolicyDesc) (req : Bytes) (h : Headers) (via : Via) (k : Bytes)
    (hal : (compose (ds.map PolicyDesc.denote) req h via).1 = .allow) :
    (compose (ds.map PolicyDesc.denote) req h via).2.values k =
      if copyListed ds k = true ∧ h.values k = [] then via.first.hdr.values k else h.values k := by
  induction ds generalizing h with
  | nil => simp [compose, copyListed]
  | cons d ds ih =>
    -- policies that leave the headers alone
    have plain : ∀ p : Policy, d.denote = some p → (∀ h via, p.xform h via = h) →
        copyListed (d :: ds) k = copyListed ds k →
        (compose ((d :: ds).map PolicyDesc.denote) req h via).2.values k =
          if copyListed (d :: ds) k = true ∧ h.values k = [] then via.first.hdr.values k
          else h.values k := by
      intro p hp hx hcl
      simp only [List.map_cons, hp] at hal ⊢
      have he := compose_cons_allow p _ req h via hal
      rw [he, hx] at hal ⊢
      rw [ih h hal, hcl]
    cases d with
    | nil =>
      simp only [List.map_cons, PolicyDesc.denote, compose] at hal ⊢
      rw [ih h hal]
      simp [copyListed]
    | no => exact plain _ rfl (fun _ _ => rfl) (by simp [copyListed])
    | max n => exact plain _ rfl (fun _ _ => rfl) (by simp [copyListed])
    | sameHost => exact plain _ rfl (fun _ _ => rfl) (by simp [copyListed])
    | sameDomain => exact plain _ rfl (fun _ _ => rfl) (by simp [copyListed])
    | allowedHost l => exact plain _ rfl (fun _ _ => rfl) (by simp [copyListed])
    | allowedDomain l => exact plain _ rfl (fun _ _ => rfl) (by simp [copyListed])
    | alwaysCopy l =>
      simp only [List.map_cons, PolicyDesc.denote] at hal ⊢
      have he := compose_cons_allow _ _ req h via hal
      rw [he] at hal ⊢
      rw [ih _ hal]
      have hx : (alwaysCopyHeaderRedirectPolicy l).xform h via =
          alwaysCopyHeaders l h via.first.hdr := rfl
      rw [hx, alwaysCopy_values]
      have hcl : copyListed (.alwaysCopy l :: ds) k =
          ((l.any fun x => canonicalMIMEHeaderKey x == canonicalMIMEHeaderKey k) || copyListed ds k) := by
        simp [copyListed]
      rw [hcl]
      by_cases hA : ∃ x ∈ l, canonicalMIMEHeaderKey x = canonicalMIMEHeaderKey k
      · have hA' := (any_canon_iff l k).mpr hA
        rw [hA']
        by_cases hE : h.values k = [] <;> by_cases hV : via.first.hdr.values k = [] <;>
          cases hB : copyListed ds k <;> simp [hA, hE, hV]
      · have hA' : (l.any fun x => canonicalMIMEHeaderKey x == canonicalMIMEHeaderKey k) = false := by
          cases hh : (l.any fun x => canonicalMIMEHeaderKey x == canonicalMIMEHeaderKey k)
          · rfl
          · exact absurd ((any_canon_iff l k).mp hh) hA
        rw [hA']
        by_cases hE : h.values k = [] <;> by_cases hV : via.first.hdr.values k = [] <;>
          cases hB : copyListed ds k <;> simp [hA, hE, hV]

end Req.Lemmas.C11
