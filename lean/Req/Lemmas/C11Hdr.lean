import Req.Client.Redirect
/-! C11: `AlwaysCopyHeaderRedirectPolicy` on the header-map model. -/
namespace Req.Lemmas.C11
open Req.Proto Req.Ascii Req.Redirect

theorem values_add (r : Headers) (h v k : Bytes) :
    (r.add h v).values k =
      r.values k ++ (if canonicalMIMEHeaderKey h = canonicalMIMEHeaderKey k then [v] else []) := by
  simp only [Headers.add, Headers.values, List.filter_append, List.flatMap_append]
  by_cases hk : canonicalMIMEHeaderKey h = canonicalMIMEHeaderKey k
  · simp [hk, List.filter]
  · have : (canonicalMIMEHeaderKey h == canonicalMIMEHeaderKey k) = false := by simpa using hk
    simp [hk, List.filter, this]

theorem values_foldl_add (vals : List Bytes) (r : Headers) (h k : Bytes) :
    (vals.foldl (fun r v => r.add h v) r).values k =
      r.values k ++ (if canonicalMIMEHeaderKey h = canonicalMIMEHeaderKey k then vals else []) := by
  induction vals generalizing r with
  | nil => simp
  | cons v vs ih =>
    simp only [List.foldl_cons, ih, values_add]
    by_cases hk : canonicalMIMEHeaderKey h = canonicalMIMEHeaderKey k <;> simp [hk]

theorem values_congr (r : Headers) {h k : Bytes}
    (hk : canonicalMIMEHeaderKey h = canonicalMIMEHeaderKey k) : r.values h = r.values k := by
  simp [Headers.values, hk]

theorem copyOne_values (via0 req : Headers) (h k : Bytes) :
    (copyOne via0 req h).values k =
      if canonicalMIMEHeaderKey h = canonicalMIMEHeaderKey k ∧ req.values k = []
      then via0.values k else req.values k := by
  unfold copyOne
  by_cases hk : canonicalMIMEHeaderKey h = canonicalMIMEHeaderKey k
  · rw [values_congr req hk, values_congr via0 hk]
    by_cases he : req.values k = []
    · simp [he, hk, values_foldl_add]
    · have : (req.values k).length > 0 := List.length_pos_iff.mpr he
      simp [this, he]
  · by_cases hl : (req.values h).length > 0
    · simp [hl, hk]
    · simp [hl, hk, values_foldl_add]

/-- After `AlwaysCopyHeaderRedirectPolicy(hs…)`: a header the new request lacks and that is
listed (by canonical name) gets exactly the original request's values; nothing else changes. -/
theorem alwaysCopy_values (hs : List Bytes) (req via0 : Headers) (k : Bytes) :
    (alwaysCopyHeaders hs req via0).values k =
      if (∃ h ∈ hs, canonicalMIMEHeaderKey h = canonicalMIMEHeaderKey k) ∧ req.values k = []
      then via0.values k else req.values k := by
  unfold alwaysCopyHeaders
  induction hs generalizing req with
  | nil => simp
  | cons h t ih =>
    simp only [List.foldl_cons, ih, copyOne_values, List.mem_cons, exists_eq_or_imp]
    by_cases hk : canonicalMIMEHeaderKey h = canonicalMIMEHeaderKey k
    · by_cases he : req.values k = []
      · by_cases hv : via0.values k = []
        · simp [hk, he, hv]
        · simp [hk, he, hv]
      · simp [hk, he]
    · simp [hk]

end Req.Lemmas.C11
