import Req.Lemmas.C02Head
import Req.Lemmas.C02Chunked
/-!
`body.readTrailer` on a non-empty trailer section: `Peek(2)`, the `seeUpcomingDoubleCRLF`
scan, the field block parse — for every segmentation — yields exactly the fields written.
-/
namespace Req.C02
open Req.Proto Req.Ascii

theorem split_first {α} [DecidableEq α] (x : α) (l1 r1 l2 r2 : List α) (h1 : x ∉ l1) (h2 : x ∉ l2)
    (h : l1 ++ x :: r1 = l2 ++ x :: r2) : l1 = l2 ∧ r1 = r2 := by
  induction l1 generalizing l2 with
  | nil =>
    cases l2 with
    | nil => simpa using h
    | cons y ys =>
      simp only [List.nil_append, List.cons_append, List.cons.injEq] at h
      exact absurd h.1 (by intro hxy; apply h2; simp [hxy])
  | cons a as ih =>
    cases l2 with
    | nil =>
      simp only [List.nil_append, List.cons_append, List.cons.injEq] at h
      exact absurd h.1.symm (by intro hxy; apply h1; simp [hxy])
    | cons y ys =>
      simp only [List.cons_append, List.cons.injEq] at h
      obtain ⟨rfl, h⟩ := h
      simp only [List.mem_cons, not_or] at h1 h2
      obtain ⟨e1, e2⟩ := ih ys h1.2 h2.2 h
      exact ⟨by rw [e1], e2⟩

theorem blockWire_cons (f : WField) (fs : List WField) :
    blockWire (f :: fs) = f.line ++ 13 :: 10 :: blockWire fs := by
  simp [blockWire, List.append_assoc]

theorem line_head_ne_cr (f : WField) (h : f.OK) : ∃ a r, f.line = a :: r ∧ a ≠ 13 := by
  obtain ⟨hne, htok, _⟩ := h
  cases hn : f.name with
  | nil => exact absurd hn hne
  | cons a r =>
    refine ⟨a, r ++ 58 :: (f.pad1 ++ f.value ++ f.pad2), by simp [WField.line, hn], ?_⟩
    intro ha
    subst ha
    rw [hn] at htok
    simp [isTokenByte, isAlpha, isLower, isUpper, isDigit] at htok

/-- Inside a field block the sequence CRLF CRLF occurs only at the very end. -/
theorem block_no_early_double (fs : List WField) (hfs : ∀ f ∈ fs, f.OK) (w y : Bytes) (hy : y ≠ []) :
    blockWire fs ≠ w ++ 13 :: 10 :: 13 :: 10 :: y := by
  induction fs generalizing w with
  | nil =>
    intro h
    have := congrArg List.length h
    simp [blockWire] at this
    omega
  | cons f fs ih =>
    intro h
    have hf := hfs f (by simp)
    rw [blockWire_cons] at h
    by_cases hw : (13 : UInt8) ∈ w
    · -- the first CR of w is the CR that ends the first line
      obtain ⟨a, w', hwa, ha⟩ : ∃ a w', w = a ++ 13 :: w' ∧ (13 : UInt8) ∉ a := by
        clear h
        induction w with
        | nil => simp at hw
        | cons c cs ihw =>
          by_cases hc : c = 13
          · exact ⟨[], cs, by simp [hc], by simp⟩
          · simp only [List.mem_cons] at hw
            rcases hw with hw | hw
            · exact absurd hw.symm hc
            · obtain ⟨a, w', h1, h2⟩ := ihw hw
              refine ⟨c :: a, w', by simp [h1], ?_⟩
              simp only [List.mem_cons, not_or]
              exact ⟨fun h' => hc h'.symm, h2⟩
      rw [hwa, List.append_assoc] at h
      simp only [List.cons_append] at h
      obtain ⟨_, h2⟩ := split_first 13 _ _ _ _ (line_no_cr f hf) ha h
      -- 10 :: blockWire fs = w' ++ CRLFCRLF ++ y
      cases w' with
      | nil =>
        simp only [List.nil_append, List.cons.injEq] at h2
        exact absurd h2.1 (by decide)
      | cons c w'' =>
        simp only [List.cons_append, List.cons.injEq] at h2
        exact ih (fun g hg => hfs g (by simp [hg])) w'' h2.2
    · obtain ⟨_, h2⟩ := split_first 13 _ _ _ _ (line_no_cr f hf) hw h
      simp only [List.cons.injEq, true_and] at h2
      -- blockWire fs = CR LF y with y ≠ []
      cases fs with
      | nil =>
        simp only [blockWire, List.map_nil, List.flatten_nil, List.nil_append, List.cons.injEq, true_and] at h2
        exact hy h2.symm
      | cons g gs =>
        obtain ⟨a, r, hl, ha⟩ := line_head_ne_cr g (hfs g (by simp))
        rw [blockWire_cons, hl] at h2
        simp only [List.cons_append, List.cons.injEq] at h2
        exact ha h2.1

theorem blockWire_ends (fs : List WField) (hne : fs ≠ []) :
    ∃ w, blockWire fs = w ++ [13, 10, 13, 10] := by
  induction fs with
  | nil => exact absurd rfl hne
  | cons f fs ih =>
    cases fs with
    | nil => exact ⟨f.line, by simp [blockWire]⟩
    | cons g gs =>
      obtain ⟨w, hw⟩ := ih (by simp)
      exact ⟨f.line ++ 13 :: 10 :: w, by rw [blockWire_cons, hw]; simp⟩

/-- `seeUpcomingDoubleCRLF` finds the end of the trailer section, and then the whole section
is buffered. -/
theorem see_spec (fs : List WField) (hfs : ∀ f ∈ fs, f.OK) (hne : fs ≠ []) (rest : Bytes) (fuel : Nat) :
    ∀ (size : Nat) (b : Bufio), b.WF → b.Fits → b.rem = blockWire fs ++ rest →
      (blockWire fs).length ≤ b.cap → 4 ≤ size → size ≤ (blockWire fs).length →
      (blockWire fs).length - size < fuel →
      ∃ b', seeUpcomingDoubleCRLF fuel size b = (true, b') ∧ b'.rem = b.rem ∧ b'.WF ∧ b'.Fits ∧
        b'.cap = b.cap ∧ b'.net.fin = b.net.fin ∧ (blockWire fs).length ≤ b'.buf.length := by
  induction fuel with
  | zero => intro size b _ _ _ _ _ _ hfuel; omega
  | succ fuel ih =>
    intro size b hw hf hrem hcap hsize hle hfuel
    have hremlen : size ≤ b.rem.length := by rw [hrem, List.length_append]; omega
    obtain ⟨b1, hp, hrem1, hw1, hf1, hcap1, hfin1, hbuf1⟩ := Bufio.peek_spec b size hw hf hremlen (by omega)
    unfold seeUpcomingDoubleCRLF
    rw [hp]
    have htake : b.rem.take size = (blockWire fs).take size := by
      rw [hrem, List.take_append_of_le_length hle]
    rw [htake]
    have hplen : ((blockWire fs).take size).length = size := by
      rw [List.length_take]; omega
    by_cases hend : size = (blockWire fs).length
    · -- the scan reached the end of the section
      obtain ⟨w, hwq⟩ := blockWire_ends fs hne
      have hfull : (blockWire fs).take size = blockWire fs := by rw [hend, List.take_length]
      have hmatch : (blockWire fs).drop ((blockWire fs).length - 4) = [13, 10, 13, 10] := by
        rw [hwq]
        simp
      simp only [hfull, hmatch, beq_self_eq_true, and_true]
      have : (blockWire fs).length ≥ 4 := by omega
      simp only [this, if_true]
      exact ⟨b1, rfl, hrem1, hw1, hf1, hcap1, hfin1, by omega⟩
    · have hlt : size < (blockWire fs).length := by omega
      -- no CRLF CRLF before the end
      have hnomatch : ¬ (((blockWire fs).take size).length ≥ 4 ∧
          (((blockWire fs).take size).drop (((blockWire fs).take size).length - 4) == [13, 10, 13, 10]) = true) := by
        intro ⟨_, hm⟩
        rw [hplen] at hm
        have hm' := beq_iff_eq.mp hm
        apply block_no_early_double fs hfs ((blockWire fs).take (size - 4)) ((blockWire fs).drop size)
        · intro h0
          have := congrArg List.length h0
          simp at this
          omega
        · have h1 : (blockWire fs).take size = ((blockWire fs).take size).take (size - 4) ++ ((blockWire fs).take size).drop (size - 4) :=
            (List.take_append_drop _ _).symm
          rw [hm', List.take_take] at h1
          have hmin : min (size - 4) size = size - 4 := by omega
          rw [hmin] at h1
          calc blockWire fs = (blockWire fs).take size ++ (blockWire fs).drop size := (List.take_append_drop _ _).symm
            _ = _ := by rw [h1]; simp [List.append_assoc]
      simp only [hnomatch, if_false, Option.isSome_none, Bool.false_eq_true]
      obtain ⟨b', h1, h2, h3, h4, h5, h6, h7⟩ := ih (size + 1) b1 hw1 hf1 (by rw [hrem1, hrem]) (by rw [hcap1]; exact hcap)
        (by omega) (by omega) (by omega)
      exact ⟨b', h1, by rw [h2, hrem1], h3, h4, by rw [h5, hcap1], by rw [h6, hfin1], h7⟩

theorem blockWire_len (fs : List WField) (hfs : ∀ f ∈ fs, f.OK) (hne : fs ≠ []) :
    6 ≤ (blockWire fs).length ∧ fs.length < (blockWire fs).length := by
  induction fs with
  | nil => exact absurd rfl hne
  | cons f fs ih =>
    obtain ⟨a, r, hl, _⟩ := line_head_ne_cr f (hfs f (by simp))
    have hcolon : 2 ≤ f.line.length := by
      obtain ⟨hn, _⟩ := hfs f (by simp)
      have := List.length_pos_iff.mpr hn
      unfold WField.line
      simp only [List.length_append, List.length_cons]
      omega
    rw [blockWire_cons]
    simp only [List.length_append, List.length_cons]
    cases fs with
    | nil => simp [blockWire]; omega
    | cons g gs =>
      have := ih (fun g' hg' => hfs g' (by simp [hg'])) (by simp)
      simp only [List.length_cons] at this ⊢
      omega

/-- **The trailer section with fields.** `readTrailer` on `<field lines> CRLF <rest>` yields
exactly the fields written (canonical names, values without optional whitespace, in order)
and leaves `rest`, for every segmentation — provided the section fits the read buffer (the
documented limit of `seeUpcomingDoubleCRLF`). -/
theorem trailerOK_fields (cap : Nat) (fs : List WField) (hfs : ∀ f ∈ fs, f.OK) (hne : fs ≠ [])
    (hcap : (blockWire fs).length ≤ cap) (rest : Bytes) :
    TrailerOK cap (blockWire fs ++ rest) rest (some (fieldsOf fs)) := by
  intro b hrem hw hf hc
  obtain ⟨hlen6, hlenfs⟩ := blockWire_len fs hfs hne
  have hremlen : 2 ≤ b.rem.length := by rw [hrem, List.length_append]; omega
  obtain ⟨b1, hp, hrem1, hw1, hf1, hcap1, hfin1, _⟩ := Bufio.peek_spec b 2 hw hf hremlen (by omega)
  -- the first two bytes are not CRLF: the section starts with a field name
  obtain ⟨f, fs', rfl⟩ : ∃ f fs', fs = f :: fs' := by
    cases fs with
    | nil => exact absurd rfl hne
    | cons f fs' => exact ⟨f, fs', rfl⟩
  obtain ⟨a, r, hl, ha⟩ := line_head_ne_cr f (hfs f (by simp))
  have hcolon : 2 ≤ f.line.length := by
    obtain ⟨hn, _⟩ := hfs f (by simp)
    have := List.length_pos_iff.mpr hn
    unfold WField.line
    simp only [List.length_append, List.length_cons]
    omega
  obtain ⟨a2, r2, hr2⟩ : ∃ a2 r2, r = a2 :: r2 := by
    cases r with
    | nil => rw [hl] at hcolon; simp at hcolon
    | cons a2 r2 => exact ⟨a2, r2, rfl⟩
  have htake2 : b.rem.take 2 = [a, a2] := by
    rw [hrem, blockWire_cons, hl, hr2]
    simp
  obtain ⟨b2, hsee, hrem2, hw2, hf2, hcap2, hfin2, hbuf2⟩ :=
    see_spec (f :: fs') hfs hne rest (b1.cap + 2) 4 b1 hw1 hf1 (by rw [hrem1, hrem])
      (by rw [hcap1, hc]; exact hcap) (by omega) (by omega) (by rw [hcap1, hc]; omega)
  -- the buffer holds the whole section
  have hbufeq : ∃ X, b2.buf = blockWire (f :: fs') ++ X ∧ X ++ b2.net.segs.flatten = rest := by
    have hall : b2.buf ++ b2.net.segs.flatten = blockWire (f :: fs') ++ rest := by
      have : b2.rem = blockWire (f :: fs') ++ rest := by rw [hrem2, hrem1, hrem]
      exact this
    rcases List.append_eq_append_iff.mp hall with ⟨a', h1, h2⟩ | ⟨c', h1, h2⟩
    · -- buffer shorter than the section: impossible
      have : a'.length = 0 := by
        have := congrArg List.length h1
        simp only [List.length_append] at this
        omega
      have ha' : a' = [] := List.length_eq_zero_iff.mp this
      subst ha'
      exact ⟨[], by simpa using h1.symm, by simpa using h2⟩
    · exact ⟨c', h1, h2.symm⟩
  obtain ⟨X, hbX, hXrest⟩ := hbufeq
  refine ⟨b2.discardBuffered (blockWire (f :: fs')).length, ?_, ?_⟩
  · unfold readTrailer
    rw [hp, htake2]
    have hnot : (([a, a2] : Bytes) == [13, 10]) = false := by
      simp only [beq_eq_false_iff_ne, ne_eq, List.cons.injEq, not_and]
      intro h13; exact absurd h13 ha
    simp only [hnot, Bool.false_eq_true, if_false, List.length_cons, List.length_nil, Nat.lt_irrefl]
    rw [hsee]
    simp only
    rw [hbX, parseFieldBlock_block (f :: fs') hfs X _ (by simp only [List.length_append]; omega)]
  · simp only [Bufio.discardBuffered, Bufio.rem, hbX]
    rw [List.drop_append_of_le_length (by omega), List.drop_length]
    simpa using hXrest

end Req.C02
