import Req.H2.Hpack
/-!
Lemmas for `Req.Props.C05Hpack`: HPACK integer / string / literal-field round trips.
-/
namespace Req.Lemmas.C05.Hpack
open Req.Proto Req.H2.Hpack

theorem u8_toNat (x : Nat) : (u8 x).toNat = x % 256 := by simp [u8]

theorem pow7 (m : Nat) : 2 ^ (m + 7) = 128 * 2 ^ m := by
  rw [Nat.pow_add]; simp [Nat.mul_comm]

theorem split128 (j P : Nat) : (j % 128) * P + (j / 128) * (128 * P) = j * P := by
  have h := Nat.div_add_mod j 128
  calc (j % 128) * P + (j / 128) * (128 * P)
      = (j % 128) * P + (128 * (j / 128)) * P := by
        rw [Nat.mul_comm (j / 128) (128 * P), Nat.mul_assoc, Nat.mul_comm P (j / 128), ← Nat.mul_assoc]
    _ = (j % 128 + 128 * (j / 128)) * P := by rw [Nat.add_mul]
    _ = j * P := by rw [Nat.add_comm, h]

/-- the continuation octets are read back: value `j` at shift `m`, as long as `j·2^m < 2^63`. -/
theorem groups_decode : ∀ (fuel j acc m : Nat) (rest : Bytes), j ≤ fuel → j * 2 ^ m < 2 ^ 63 →
    decodeCont acc m (groups fuel j ++ rest) = .ok (acc + j * 2 ^ m, rest) := by
  intro fuel
  induction fuel with
  | zero =>
    intro j acc m rest hj _
    have : j = 0 := by omega
    subst this
    simp [groups, decodeCont, u8_toNat]
  | succ n ih =>
    intro j acc m rest hj hb
    unfold groups
    by_cases h : j ≥ 128
    · simp only [h, ↓reduceIte, List.cons_append, decodeCont]
      have e1 : (u8 (128 + j % 128)).toNat = 128 + j % 128 := by rw [u8_toNat]; omega
      have e2 : (128 + j % 128) % 128 = j % 128 := by omega
      have e3 : (128 + j % 128) / 128 = 1 := by omega
      rw [e1, e2, e3]
      have hpos : 0 < 2 ^ m := Nat.two_pow_pos _
      have hm : m + 7 < 63 := by
        have h1 : 128 * 2 ^ m ≤ j * 2 ^ m := Nat.mul_le_mul_right _ h
        have h2 : 2 ^ (m + 7) < 2 ^ 63 := by rw [pow7]; omega
        exact (Nat.pow_lt_pow_iff_right (by decide)).mp h2
      have hlt : ¬ m + 7 ≥ 63 := by omega
      simp only [hlt, ↓reduceIte, show (1 : Nat) ≠ 0 by decide]
      have hdiv : j / 128 ≤ n := by omega
      have hb' : (j / 128) * 2 ^ (m + 7) < 2 ^ 63 := by
        rw [pow7, ← Nat.mul_assoc]
        have : j / 128 * 128 ≤ j := Nat.div_mul_le_self j 128
        have : j / 128 * 128 * 2 ^ m ≤ j * 2 ^ m := Nat.mul_le_mul_right _ this
        omega
      rw [ih (j / 128) _ (m + 7) rest hdiv hb', pow7, Nat.add_assoc, split128]
    · have hj' : j < 128 := by omega
      simp only [h, ↓reduceIte, List.cons_append, List.nil_append, decodeCont]
      have e1 : (u8 j).toNat = j := by rw [u8_toNat]; omega
      have e2 : j % 128 = j := by omega
      have e3 : j / 128 = 0 := by omega
      rw [e1, e2, e3]
      simp

/-- **integer round trip**. -/
theorem int_roundtrip (n hi i : Nat) (rest : Bytes) (hn1 : 1 ≤ n) (hn8 : n ≤ 8)
    (hhi : hi % 2 ^ n = 0) (hhi2 : hi + 2 ^ n ≤ 256) (hi' : i < 2 ^ n - 1 + 2 ^ 63) :
    readInt n (encodeInt n hi i ++ rest) = .ok (i, rest) := by
  have hpos : 0 < 2 ^ n := Nat.two_pow_pos _
  unfold encodeInt
  by_cases hlt : i < 2 ^ n - 1
  · simp only [hlt, ↓reduceIte, List.cons_append, List.nil_append, readInt]
    have e1 : (u8 (hi + i)).toNat = hi + i := by rw [u8_toNat]; omega
    have e2 : (hi + i) % 2 ^ n = i := by
      rw [Nat.add_mod, hhi, Nat.zero_add, Nat.mod_mod, Nat.mod_eq_of_lt (by omega)]
    rw [e1, e2]
    simp [hlt]
  · simp only [hlt, ↓reduceIte, List.cons_append, readInt]
    have e1 : (u8 (hi + (2 ^ n - 1))).toNat = hi + (2 ^ n - 1) := by rw [u8_toNat]; omega
    have e2 : (hi + (2 ^ n - 1)) % 2 ^ n = 2 ^ n - 1 := by
      rw [Nat.add_mod, hhi, Nat.zero_add, Nat.mod_mod, Nat.mod_eq_of_lt (by omega)]
    rw [e1, e2]
    simp only [Nat.lt_irrefl, ↓reduceIte]
    rw [groups_decode (i - (2 ^ n - 1)) (i - (2 ^ n - 1)) _ 0 rest (Nat.le_refl _) (by simp; omega)]
    simp
    omega

/-- the first rejected value: one more than the range of `int_roundtrip` needs a tenth
continuation octet. -/
theorem groups_length_le : ∀ (fuel j : Nat), j ≤ fuel → 1 ≤ (groups fuel j).length := by
  intro fuel j _
  cases fuel <;> simp [groups]
  split <;> simp

theorem encodeInt_one_byte (n hi i : Nat) : (encodeInt n hi i).length = 1 ↔ i < 2 ^ n - 1 := by
  unfold encodeInt
  by_cases h : i < 2 ^ n - 1
  · simp [h]
  · simp only [h, ↓reduceIte, List.length_cons, iff_false]
    have := groups_length_le (i - (2 ^ n - 1)) (i - (2 ^ n - 1)) (Nat.le_refl _)
    omega

/-! ### truncation: every proper prefix needs more -/

theorem groups_prefix_needMore : ∀ (fuel j acc m : Nat) (pre : Bytes), j ≤ fuel → j * 2 ^ m < 2 ^ 63 →
    pre <+: groups fuel j → pre ≠ groups fuel j → decodeCont acc m pre = .error .needMore := by
  intro fuel
  induction fuel with
  | zero =>
    intro j acc m pre hj _ hp hne
    have : j = 0 := by omega
    subst this
    simp only [groups] at hp hne
    cases pre with
    | nil => rfl
    | cons x xs =>
      obtain ⟨t, ht⟩ := hp
      simp only [List.cons_append, List.cons.injEq] at ht
      obtain ⟨rfl, h2⟩ := ht
      have : xs = [] := by cases xs <;> simp_all
      subst this
      exact absurd rfl hne
  | succ n ih =>
    intro j acc m pre hj hb hp hne
    unfold groups at hp hne
    by_cases h : j ≥ 128
    · simp only [h, ↓reduceIte] at hp hne
      cases pre with
      | nil => rfl
      | cons x xs =>
        obtain ⟨t, ht⟩ := hp
        simp only [List.cons_append, List.cons.injEq] at ht
        obtain ⟨rfl, h2⟩ := ht
        simp only [decodeCont]
        have e1 : (u8 (128 + j % 128)).toNat = 128 + j % 128 := by rw [u8_toNat]; omega
        have e3 : (128 + j % 128) / 128 = 1 := by omega
        rw [e1, e3]
        have hm : m + 7 < 63 := by
          have h1 : 128 * 2 ^ m ≤ j * 2 ^ m := Nat.mul_le_mul_right _ h
          have h2 : 2 ^ (m + 7) < 2 ^ 63 := by rw [pow7]; omega
          exact (Nat.pow_lt_pow_iff_right (by decide)).mp h2
        have hlt : ¬ m + 7 ≥ 63 := by omega
        simp only [hlt, ↓reduceIte, show (1 : Nat) ≠ 0 by decide]
        have hb' : (j / 128) * 2 ^ (m + 7) < 2 ^ 63 := by
          rw [pow7, ← Nat.mul_assoc]
          have : j / 128 * 128 ≤ j := Nat.div_mul_le_self j 128
          have : j / 128 * 128 * 2 ^ m ≤ j * 2 ^ m := Nat.mul_le_mul_right _ this
          omega
        apply ih (j / 128) _ (m + 7) xs (by omega) hb' ⟨t, h2⟩
        intro hx
        apply hne
        rw [hx]
    · simp only [h, ↓reduceIte] at hp hne
      cases pre with
      | nil => rfl
      | cons x xs =>
        obtain ⟨t, ht⟩ := hp
        simp only [List.cons_append, List.cons.injEq] at ht
        obtain ⟨rfl, h2⟩ := ht
        have : xs = [] := by cases xs <;> simp_all
        subst this
        exact absurd rfl hne

theorem int_prefix_needMore (n hi i : Nat) (pre : Bytes) (hn1 : 1 ≤ n) (hn8 : n ≤ 8)
    (hhi : hi % 2 ^ n = 0) (hhi2 : hi + 2 ^ n ≤ 256) (hi' : i < 2 ^ n - 1 + 2 ^ 63)
    (hp : pre <+: encodeInt n hi i) (hne : pre ≠ encodeInt n hi i) :
    readInt n pre = .error .needMore := by
  have hpos : 0 < 2 ^ n := Nat.two_pow_pos _
  unfold encodeInt at hp hne
  cases pre with
  | nil => rfl
  | cons x xs =>
    by_cases hlt : i < 2 ^ n - 1
    · simp only [hlt, ↓reduceIte] at hp hne
      obtain ⟨t, ht⟩ := hp
      simp only [List.cons_append, List.cons.injEq] at ht
      obtain ⟨rfl, h2⟩ := ht
      have : xs = [] := by cases xs <;> simp_all
      subst this
      exact absurd rfl hne
    · simp only [hlt, ↓reduceIte] at hp hne
      obtain ⟨t, ht⟩ := hp
      simp only [List.cons_append, List.cons.injEq] at ht
      obtain ⟨rfl, h2⟩ := ht
      simp only [readInt]
      have e1 : (u8 (hi + (2 ^ n - 1))).toNat = hi + (2 ^ n - 1) := by rw [u8_toNat]; omega
      have e2 : (hi + (2 ^ n - 1)) % 2 ^ n = 2 ^ n - 1 := by
        rw [Nat.add_mod, hhi, Nat.zero_add, Nat.mod_mod, Nat.mod_eq_of_lt (by omega)]
      rw [e1, e2]
      simp only [Nat.lt_irrefl, ↓reduceIte]
      apply groups_prefix_needMore (i - (2 ^ n - 1)) (i - (2 ^ n - 1)) _ 0 xs (Nat.le_refl _)
        (by simp; omega) ⟨t, h2⟩
      intro hx
      apply hne
      rw [hx]

/-! ### strings and literal fields -/

theorem encodeInt7_first (len : Nat) : ∃ b t, encodeInt 7 0 len = b :: t ∧ b.toNat / 128 = 0 := by
  unfold encodeInt
  by_cases h : len < 2 ^ 7 - 1
  · refine ⟨u8 (0 + len), [], by simp [h], ?_⟩
    rw [u8_toNat]
    simp at h
    omega
  · refine ⟨u8 (0 + (2 ^ 7 - 1)), groups (len - (2 ^ 7 - 1)) (len - (2 ^ 7 - 1)), by simp [h], ?_⟩
    rw [u8_toNat]

theorem string_roundtrip (s rest : Bytes) (hs : s.length < 2 ^ 63) :
    decodeString (encodeString s ++ rest) = .ok (s, rest) := by
  unfold encodeString
  obtain ⟨b, t, hbt, hb⟩ := encodeInt7_first s.length
  have hrt := int_roundtrip 7 0 s.length (s ++ rest) (by decide) (by decide) (by decide) (by decide)
    (by simp; omega)
  unfold decodeString
  rw [List.append_assoc]
  rw [hbt] at hrt ⊢
  simp only [List.cons_append] at hrt ⊢
  have : ¬ b.toNat / 128 = 1 := by omega
  simp only [this, ↓reduceIte, hrt, liftInt]
  rw [if_neg (by simp)]
  simp

theorem field_roundtrip (f : Field) (rest : Bytes) (h1 : f.name.length < 2 ^ 63)
    (h2 : f.value.length < 2 ^ 63) : decodeField (encodeField f ++ rest) = .ok (f, rest) := by
  unfold encodeField decodeField
  simp only [List.cons_append, List.append_assoc]
  have hb : ∀ b : Bool, ((if b then (16 : UInt8) else 0).toNat ≥ 128) = False ∧
      ((if b then (16 : UInt8) else 0).toNat ≥ 64) = False ∧
      ((if b then (16 : UInt8) else 0).toNat ≥ 32) = False ∧
      ((if b then (16 : UInt8) else 0).toNat % 16 ≠ 0) = False ∧
      decide ((if b then (16 : UInt8) else 0).toNat / 16 = 1) = b := by
    intro b; cases b <;> decide
  obtain ⟨a1, a2, a3, a4, a5⟩ := hb f.never
  simp only [a1, a2, a3, a4, a5, ↓reduceIte]
  rw [string_roundtrip f.name _ h1]
  simp only
  rw [string_roundtrip f.value _ h2]

theorem encodeField_length (f : Field) : 3 ≤ (encodeField f).length := by
  unfold encodeField encodeString
  obtain ⟨b, t, hbt, _⟩ := encodeInt7_first f.name.length
  obtain ⟨b', t', hbt', _⟩ := encodeInt7_first f.value.length
  rw [hbt, hbt']
  simp only [List.length_cons, List.length_append]
  omega

theorem loop_roundtrip : ∀ (fs : List Field) (fuel : Nat),
    (∀ f ∈ fs, f.name.length < 2 ^ 63 ∧ f.value.length < 2 ^ 63) → fs.length < fuel →
    decodeLoop fuel (encodeBlock fs) = .ok fs := by
  intro fs
  induction fs with
  | nil =>
    intro fuel _ hf
    cases fuel with
    | zero => omega
    | succ n => simp [decodeLoop, encodeBlock]
  | cons f fs ih =>
    intro fuel hw hf
    cases fuel with
    | zero => omega
    | succ n =>
      have hne : (encodeBlock (f :: fs)).isEmpty = false := by
        have := encodeField_length f
        simp only [encodeBlock, List.map_cons, List.flatten_cons]
        cases h : encodeField f with
        | nil => rw [h] at this; simp at this
        | cons _ _ => simp
      rw [decodeLoop, hne]
      simp only [Bool.false_eq_true, ↓reduceIte]
      have hb : encodeBlock (f :: fs) = encodeField f ++ encodeBlock fs := by
        simp [encodeBlock]
      obtain ⟨w1, w2⟩ := hw f (by simp)
      rw [hb, field_roundtrip f _ w1 w2]
      simp only
      rw [ih n (fun x hx => hw x (by simp [hx])) (by simp at hf; omega)]

theorem encodeBlock_length (fs : List Field) : fs.length ≤ (encodeBlock fs).length := by
  induction fs with
  | nil => simp [encodeBlock]
  | cons f fs ih =>
    have := encodeField_length f
    have hb : encodeBlock (f :: fs) = encodeField f ++ encodeBlock fs := by simp [encodeBlock]
    rw [hb]; simp only [List.length_append, List.length_cons]; omega

end Req.Lemmas.C05.Hpack
