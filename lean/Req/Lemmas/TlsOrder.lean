import Req.Pool.TlsOrder
/-! Helper lemmas for `Req.Props.C12Order`: the pointer-level client refines the value-level
setter semantics `Req.Pool.TLS.step`, and hook setters do not touch the configuration. -/
namespace Req.Pool.TLS

theorem PClient.init_wf : PClient.init.WF := by
  constructor
  · intro a h; simp [PClient.init] at h; subst h; simp [PClient.init]
  · intro a h; simp [PClient.init] at h

theorem view_some_of_wf {s : PClient} (h : s.WF) {a : Nat} (hc : s.cur = some a) :
    view s = some (s.heap[a]'(h.1 a hc)) := by
  simp [view, hc, h.1 a hc]

/-- `GetTLSClientConfig()` returns the object the pointer designates afterwards; it holds the
value `getCfg` of the value-level model; nothing else changes. -/
theorem ensure_spec (s : PClient) (h : s.WF) :
    (ensure s).1.cur = some (ensure s).2
    ∧ (ensure s).1.heap[(ensure s).2]? = some (getCfg (view s))
    ∧ (ensure s).1.hs = s.hs ∧ (ensure s).1.dialTLS = s.dialTLS
    ∧ (ensure s).1.WF ∧ s.heap.length ≤ (ensure s).1.heap.length := by
  cases hc : s.cur with
  | some a =>
    have ha := h.1 a hc
    simp [ensure, hc, view, getCfg, ha]
    exact h
  | none =>
    simp [ensure, hc, view, getCfg]
    constructor
    · intro a ha; simp at ha; subst ha; simp
    · intro a ha; have := h.2 a ha; simp; omega

theorem wf_alloc (s : PClient) (c : TlsCfg) (k : HsSlot) (d : Bool)
    (hk : ∀ a, k = .fingerprint (some a) → a < s.heap.length) :
    ({ heap := s.heap ++ [c], cur := some s.heap.length, hs := k, dialTLS := d } : PClient).WF := by
  constructor
  · intro a ha; simp at ha; subst ha; simp
  · intro a ha; have := hk a ha; simp; omega

/-- Every in-place setter is `mutate` of the object `GetTLSClientConfig()` returns. -/
theorem step_inplace (c : Option TlsCfg) (o : Op)
    (h1 : ∀ n, o ≠ .setConfig n) (h2 : o ≠ .clone) (h3 : o ≠ .use) :
    step c o = some (mutate o (getCfg c)) := by
  cases o with
  | setConfig n => exact absurd rfl (h1 n)
  | clone => exact absurd rfl h2
  | use => exact absurd rfl h3
  | insecure b => simp [step, mutate, getCfg]
  | addRoot ca => simp [step, mutate, getCfg]
  | addCert id => simp [step, mutate, getCfg]
  | setServerName n => simp [step, mutate, getCfg]
  | setRoots r => simp [step, mutate, getCfg]

theorem inplace_step (m : FpRead) (s : PClient) (o : Op)
    (h1 : ∀ n, o ≠ .setConfig n) (h2 : o ≠ .clone) (h3 : o ≠ .use) :
    pstep m s (.tls o) =
      (match (ensure s).1.heap[(ensure s).2]? with
       | some c => { (ensure s).1 with heap := (ensure s).1.heap.set (ensure s).2 (mutate o c) }
       | none => (ensure s).1) := by
  cases o with
  | setConfig n => exact absurd rfl (h1 n)
  | clone => exact absurd rfl h2
  | use => exact absurd rfl h3
  | insecure b => rfl
  | addRoot ca => rfl
  | addCert id => rfl
  | setServerName n => rfl
  | setRoots r => rfl

theorem installFp_handshake (s : PClient) : installFp .atHandshake s = { s with hs := .fingerprint none } := rfl

/-- One TLS setter: well-formedness is kept and the designated value follows `step`. -/
theorem pstep_tls (s : PClient) (h : s.WF) (o : Op) :
    (pstep .atHandshake s (.tls o)).WF
    ∧ view (pstep .atHandshake s (.tls o)) = step (view s) o
    ∧ hooksOf (pstep .atHandshake s (.tls o)) = hooksOf s := by
  by_cases hset : ∃ n, o = .setConfig n
  · obtain ⟨n, rfl⟩ := hset
    cases n with
    | none =>
      refine ⟨⟨?_, ?_⟩, ?_, ?_⟩
      · intro a ha; simp [pstep] at ha
      · intro a ha; exact h.2 a (by simpa [pstep] using ha)
      · simp [pstep, view, step]
      · simp [pstep, hooksOf]
    | some c =>
      refine ⟨⟨?_, ?_⟩, ?_, ?_⟩
      · intro a ha; simp [pstep] at ha; subst ha; simp [pstep]
      · intro a ha; have := h.2 a (by simpa [pstep] using ha); simp [pstep]; omega
      · simp [pstep, view, step]
      · simp [pstep, hooksOf]
  by_cases hcl : o = .clone
  · subst hcl
    cases hv : view s with
    | none =>
      have : pstep .atHandshake s (.tls .clone) = if isFp s.hs then installFp .atHandshake s else s := by
        simp [pstep, hv]
      rw [this]
      cases hh : s.hs <;> simp [isFp, installFp_handshake, step, hv] <;>
        first
          | exact ⟨h, by simp [hooksOf, hh]⟩
          | (refine ⟨⟨h.1, ?_⟩, ?_, ?_⟩
             · intro a ha; simp at ha
             · simpa [view] using hv
             · simp [hooksOf, hh])
          | exact h
    | some c =>
      have hp : pstep .atHandshake s (.tls .clone) =
          (if isFp s.hs then installFp .atHandshake { s with heap := s.heap ++ [c], cur := some s.heap.length }
           else { s with heap := s.heap ++ [c], cur := some s.heap.length }) := by
        simp [pstep, hv]
      rw [hp]
      cases hh : s.hs with
      | builtin =>
        simp [isFp]
        exact ⟨wf_alloc s c _ _ (by intro a ha; cases ha), by simp [view, step], by simp [hooksOf, hh]⟩
      | user =>
        simp [isFp]
        exact ⟨wf_alloc s c _ _ (by intro a ha; cases ha), by simp [view, step], by simp [hooksOf, hh]⟩
      | fingerprint cap =>
        simp [isFp, installFp_handshake]
        exact ⟨wf_alloc s c _ _ (by intro a ha; cases ha), by simp [view, step], by simp [hooksOf, hh]⟩
  by_cases hus : o = .use
  · subst hus
    exact ⟨h, by simp [pstep, step], rfl⟩
  · have h1 : ∀ n, o ≠ .setConfig n := fun n hn => hset ⟨n, hn⟩
    obtain ⟨ecur, eget, ehs, edial, ewf, _⟩ := ensure_spec s h
    rw [inplace_step _ s o h1 hcl hus, eget, step_inplace _ o h1 hcl hus]
    have halt : (ensure s).2 < (ensure s).1.heap.length := ewf.1 _ ecur
    refine ⟨⟨?_, ?_⟩, ?_, ?_⟩
    · intro a ha; have := ewf.1 a (by simpa using ha); simpa using this
    · intro a ha; have := ewf.2 a (by simpa using ha); simpa using this
    · simp [view, ecur, halt]
    · simp [hooksOf, ehs, edial]

/-- One hook setter: the configuration is not touched (reading at handshake time). -/
theorem pstep_hook (s : PClient) (h : s.WF) (k : HookOp) :
    (pstep .atHandshake s (.hook k)).WF
    ∧ view (pstep .atHandshake s (.hook k)) = view s
    ∧ hooksOf (pstep .atHandshake s (.hook k)) = hookStep (hooksOf s) k := by
  cases k with
  | fingerprint =>
    refine ⟨⟨h.1, ?_⟩, rfl, by simp [pstep, installFp, hooksOf, hookStep]⟩
    intro a ha; simp [pstep, installFp] at ha
  | userHandshake =>
    refine ⟨⟨h.1, ?_⟩, rfl, by simp [pstep, hooksOf, hookStep]⟩
    intro a ha; simp [pstep] at ha
  | noHandshake =>
    refine ⟨⟨h.1, ?_⟩, rfl, by simp [pstep, hooksOf, hookStep]⟩
    intro a ha; simp [pstep] at ha
  | dialTLS b =>
    exact ⟨⟨h.1, h.2⟩, rfl, by simp [pstep, hooksOf, hookStep]⟩

/-- Whole sequences: the value is the TLS setters folded with `step`, the hooks are the hook
setters folded with `hookStep` — each family by itself, wherever the others stand. -/
theorem prun_split (ops : List POp) (s : PClient) (h : s.WF) :
    (prun .atHandshake s ops).WF
    ∧ view (prun .atHandshake s ops) = run (view s) (tlsOps ops)
    ∧ hooksOf (prun .atHandshake s ops) = hookRun (hooksOf s) (hookOps ops) := by
  induction ops generalizing s with
  | nil => exact ⟨h, rfl, rfl⟩
  | cons op rest ih =>
    cases op with
    | tls o =>
      obtain ⟨w, v, k⟩ := pstep_tls s h o
      obtain ⟨w', v', k'⟩ := ih (pstep .atHandshake s (.tls o)) w
      refine ⟨w', ?_, ?_⟩
      · simpa [prun, tlsOps, run, v] using v'
      · simpa [prun, hookOps, k] using k'
    | hook k =>
      obtain ⟨w, v, kk⟩ := pstep_hook s h k
      obtain ⟨w', v', k'⟩ := ih (pstep .atHandshake s (.hook k)) w
      refine ⟨w', ?_, ?_⟩
      · simpa [prun, tlsOps, v] using v'
      · simpa [prun, hookOps, hookRun, kk] using k'

end Req.Pool.TLS
