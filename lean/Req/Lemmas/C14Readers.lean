import Req.Client.CompressReader
/-!
Helper lemmas for C14 part 2: the wrappers of `internal/compress` and `transport.go` are
themselves `Reader`s (they preserve the streaming law of the codec they wrap), and what the
law gives for an arbitrary sequence of `Read` calls.
-/
namespace Req.Compress
open Req.Proto

/-! ### the lazy readers satisfy the law when the codec does -/

def lazyReader (C : Codec) (keep : Bool) : Reader where
  σ := LazyState C
  read := lazyRead C keep
  rest := lazyRest C
  read_len := by
    intro st n
    unfold lazyRead
    split
    · simp
    · split
      · exact C.read_len _ _
      · split
        · simp
        · exact C.read_len _ _
  read_none := by
    intro st n
    unfold lazyRead
    split
    · simp
    · rename_i hz
      split
      · rename_i s hi
        intro h
        simp only at h
        simp only [lazyRest, hz, hi, h, ite_self]
        exact C.read_none s n h
      · rename_i hi
        split
        · simp
        · rename_i s ho
          intro h
          simp only at h
          simp only [lazyRest, hz, hi, Codec.total, ho, h, ite_self]
          exact C.read_none s n h
  read_some := by
    intro st n t
    unfold lazyRead
    split
    · rename_i e hz
      intro h; simp at h; subst h
      simp [lazyRest, hz]
    · rename_i hz
      split
      · rename_i s hi
        intro h
        simp only at h
        have := C.read_some s n t h
        cases keep
        · simp only [lazyRest, hz, hi, Bool.false_eq_true, if_false]; exact this
        · simp only [lazyRest, hz, hi, h, if_true]; exact ⟨this.1, trivial⟩
      · rename_i hi
        split
        · rename_i e ho
          intro h; simp at h; subst h
          simp [lazyRest, hz, hi, Codec.total, ho]
        · rename_i s ho
          intro h
          simp only at h
          have := C.read_some s n t h
          cases keep
          · simp only [lazyRest, hz, hi, Codec.total, ho, Bool.false_eq_true, if_false]; exact this
          · simp only [lazyRest, hz, hi, Codec.total, ho, h, if_true]; exact ⟨this.1, trivial⟩
  read_progress := by
    intro st n hn
    unfold lazyRead
    split
    · simp
    · split
      · exact C.read_progress _ _ hn
      · split
        · simp
        · exact C.read_progress _ _ hn

def h1GzipReader (C : Codec) : Reader where
  σ := H1GzState C
  read := h1gzRead C
  rest := h1gzRest C
  read_len := by
    intro st n
    unfold h1gzRead
    split
    · split
      · simp
      · exact C.read_len _ _
    · split
      · simp
      · split
        · simp
        · split
          · simp
          · exact C.read_len _ _
  read_none := by
    intro st n
    unfold h1gzRead
    split
    · rename_i s hi
      split
      · simp
      · rename_i hc
        intro h
        simp only [h1gzRest, hi, hc]
        exact C.read_none s n h
    · rename_i hi
      split
      · simp
      · rename_i hz
        split
        · simp
        · rename_i hc
          split
          · simp
          · rename_i s ho
            intro h
            simp only [h1gzRest, hi, hz, hc, Codec.total, ho]
            exact C.read_none s n h
  read_some := by
    intro st n t
    unfold h1gzRead
    split
    · rename_i s hi
      split
      · rename_i hc
        intro h; simp at h; subst h
        simp [h1gzRest, hi, hc]
      · rename_i hc
        intro h
        simp only [h1gzRest, hi, hc]
        exact C.read_some s n t h
    · rename_i hi
      split
      · rename_i e hz
        intro h; simp at h; subst h
        simp [h1gzRest, hi, hz]
      · rename_i hz
        split
        · rename_i hc
          intro h; simp at h; subst h
          simp [h1gzRest, hi, hz, hc]
        · rename_i hc
          split
          · rename_i e ho
            intro h; simp at h; subst h
            simp [h1gzRest, hi, hz, hc, Codec.total, ho]
          · rename_i s ho
            intro h
            simp only [h1gzRest, hi, hz, hc, Codec.total, ho]
            exact C.read_some s n t h
  read_progress := by
    intro st n hn
    unfold h1gzRead
    split
    · split
      · simp
      · exact C.read_progress _ _ hn
    · split
      · simp
      · split
        · simp
        · split
          · simp
          · exact C.read_progress _ _ hn

/-! ### consequences of the law for any sequence of reads -/

/-- What `drain` returns is a prefix of `rest`; if a call returned an error, all of it. -/
theorem drain_spec (R : Reader) (s : R.σ) (ns : List Nat) :
    match (drain R s ns).2.2 with
    | none => R.rest s = ((drain R s ns).2.1 ++ (R.rest (drain R s ns).1).1, (R.rest (drain R s ns).1).2)
    | some t => R.rest s = ((drain R s ns).2.1, t) ∧ R.rest (drain R s ns).1 = ([], t) := by
  induction ns generalizing s with
  | nil => simp [drain]
  | cons n ns ih =>
    unfold drain
    cases hr : R.read s n with
    | mk s' dt =>
      cases dt with
      | mk d t =>
        cases t with
        | some t =>
          simp only
          have := R.read_some s n t (by rw [hr])
          simpa [hr] using this
        | none =>
          simp only
          have h1 := R.read_none s n (by rw [hr])
          simp only [hr] at h1
          have h2 := ih s'
          cases ht : (drain R s' ns).2.2 with
          | none =>
            simp only [ht] at h2 ⊢
            rw [h1, h2]; simp [List.append_assoc]
          | some t =>
            simp only [ht] at h2 ⊢
            rw [h1, h2.1]; exact ⟨rfl, h2.2⟩

/-- Once nothing is left, a `Read` with a non-empty buffer returns no data and the same
error, and nothing is left afterwards. -/
theorem read_after_end (R : Reader) (s : R.σ) (t : Term) (h : R.rest s = ([], t))
    (m : Nat) (hm : 0 < m) :
    (R.read s m).2 = ([], some t) ∧ R.rest (R.read s m).1 = ([], t) := by
  cases ht : (R.read s m).2.2 with
  | none =>
    have h1 := R.read_none s m ht
    have h2 := R.read_progress s m hm ht
    rw [h] at h1
    have : (R.read s m).2.1 = [] := by
      have := congrArg Prod.fst h1
      simp at this
      exact this.1
    exact absurd this h2
  | some t' =>
    have h1 := R.read_some s m t' ht
    rw [h] at h1
    have hd : (R.read s m).2.1 = [] := (congrArg Prod.fst h1.1).symm
    have ht' : t' = t := (congrArg Prod.snd h1.1).symm
    subst ht'
    refine ⟨?_, h1.2⟩
    rw [Prod.ext_iff]; exact ⟨hd, ht⟩

/-- enough non-empty reads always reach the end -/
theorem drain_finishes (R : Reader) (s : R.σ) (ns : List Nat) (hpos : ∀ n ∈ ns, 0 < n)
    (hlen : (R.rest s).1.length < ns.length) : (drain R s ns).2.2 ≠ none := by
  induction ns generalizing s with
  | nil => simp at hlen
  | cons n ns ih =>
    unfold drain
    cases hr : R.read s n with
    | mk s' dt =>
      cases dt with
      | mk d t =>
        cases t with
        | some t => simp
        | none =>
          simp only
          have h1 := R.read_none s n (by rw [hr])
          have h2 := R.read_progress s n (hpos n (by simp)) (by rw [hr])
          simp only [hr] at h1 h2
          apply ih s' (fun m hm => hpos m (by simp [hm]))
          rw [h1] at hlen
          simp only [List.length_append, List.length_cons] at hlen
          have : 0 < d.length := List.length_pos_iff.mpr h2
          omega

end Req.Compress
