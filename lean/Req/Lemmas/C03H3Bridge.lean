import Req.Lemmas.C03H3Head
/-!
C03 — HTTP/3: the repaired body reader (`parseNextR`, `readR`, `bodyReadR`) against the original
of C02 (`parseNext`, `H3Stream.read`, `H3Body.read`), which C02's lane `c02h3recv` ties to the
code byte by byte: same reads, same bytes, only the error of the last read may differ, and only
`io.EOF` → `io.ErrUnexpectedEOF` (or between two non-EOF errors).
-/
namespace Req.C03
open Req.Proto Req.C02

/-- How the repaired parser's result relates to the original's. -/
inductive PRel : Except H3Err H3Frame × Net → Except H3Err H3Frame × Net → Prop
  | data (l : Nat) (n : Net) : PRel (.ok (.data l), n) (.ok (.data l), n)
  | headers (l : Nat) (n : Net) : PRel (.ok (.headers l), n) (.ok (.headers l), n)
  | settings (n n' : Net) : PRel (.ok .settings, n) (.ok .settings, n')
  | settingsErr (n n' : Net) (e : H3Err) : e ≠ .eof → PRel (.ok .settings, n) (.error e, n')
  | err (e : H3Err) (n : Net) : PRel (.error e, n) (.error e, n)
  | eofTrunc (n : Net) : PRel (.error .eof, n) (.error .unexpectedEOF, n)

theorem truncatedFrame_cases (e : H3Err) (c : Bool) :
    truncatedFrame e c = e ∨ (e = .eof ∧ truncatedFrame e c = .unexpectedEOF) := by
  unfold truncatedFrame
  split
  · rename_i h; right; exact ⟨(h3err_beq _ _).mp h.1, rfl⟩
  · left; rfl

theorem parseNext_rel (fuel : Nat) (n : Net) : PRel (parseNext fuel n) (parseNextR fuel n) := by
  induction fuel generalizing n with
  | zero => exact .err _ _
  | succ fuel ih =>
    unfold parseNext parseNextR
    rcases hv1 : n.readVarint with ⟨r1, n1⟩
    cases r1 with
    | error e =>
      simp only []
      rcases truncatedFrame_cases e (decide (n1.size < n.size)) with h | ⟨rfl, h⟩
      · rw [h]; exact .err _ _
      · rw [h]; exact .eofTrunc _
    | ok t =>
      simp only []
      rcases hv2 : n1.readVarint with ⟨r2, n2⟩
      cases r2 with
      | error e =>
        simp only []
        rcases truncatedFrame_cases e true with h | ⟨rfl, h⟩
        · rw [h]; exact .err _ _
        · rw [h]; exact .eofTrunc _
      | ok l =>
        simp only []
        by_cases h0 : t = 0
        · simp only [h0, if_true]; exact .data _ _
        by_cases h1 : t = 1
        · simp only [h1, if_true]; simp; exact .headers _ _
        by_cases h4 : t = 4
        · simp only [h4]
          simp only [show (4 : Nat) ≠ 0 by decide, show (4 : Nat) ≠ 1 by decide, if_false, if_true]
          rcases hr : Net.readN (l + 1) l [] n2 with ⟨⟨p, oe⟩, n3⟩
          cases oe with
          | none => exact .settings _ _
          | some e => cases e <;> exact .settingsErr _ _ _ (by simp)
        simp only [h0, h1, h4, if_false]
        split
        · exact .err _ _
        · rcases hr : Net.readN (l + 1) l [] n2 with ⟨⟨p, oe⟩, n3⟩
          cases oe with
          | none => exact ih n3
          | some e =>
            cases e
            case reset => exact .err _ _
            all_goals exact .eofTrunc _

/-- Two read results: identical, or both an error with the same data, where the repaired reader
may say `io.ErrUnexpectedEOF` for the original's `io.EOF` (or another non-EOF error for a non-EOF
error: a SETTINGS frame whose payload the repaired parser reads first). -/
def ERel (e e' : H3Err) : Prop := e' = e ∨ (e = .eof ∧ e' = .unexpectedEOF) ∨ (e ≠ .eof ∧ e' ≠ .eof)

def RRel (a b : (Bytes × Option H3Err) × H3Stream) : Prop :=
  a = b ∨ (a.1.1 = b.1.1 ∧ a.2.remInFrame = b.2.remInFrame ∧ ∃ e e', a.1.2 = some e ∧ b.1.2 = some e' ∧ ERel e e')

theorem read_go_eq (s : H3Stream) (k : Nat) (h : s.remInFrame ≠ 0) : s.read k = readInFrame s k := by
  unfold H3Stream.read readInFrame
  simp only [h, if_true, ne_eq, not_false_eq_true]
  rfl

theorem parseTrailer_rel (s : H3Stream) (l : Nat) :
    s.parseTrailer l = parseTrailerR s l ∨
    ((s.parseTrailer l).1 = some .eof ∧ (parseTrailerR s l).1 = some .unexpectedEOF) := by
  unfold H3Stream.parseTrailer parseTrailerR
  split
  · left; rfl
  · rcases hr : Net.readN (l + 1) l [] s.net with ⟨⟨got, oe⟩, n'⟩
    cases oe with
    | none => left; rfl
    | some e =>
      simp only []
      unfold readFullErr readFullErrR
      by_cases he : (e == H3Err.eof) = true
      · by_cases hg : got.length > 0
        · left; simp [he, hg]
        · right; have := (h3err_beq _ _).mp he; subst this; simp [hg, he]
      · left; simp [he]

theorem parseTrailer_rem (s : H3Stream) (l : Nat) : (s.parseTrailer l).2.remInFrame = s.remInFrame := by
  unfold H3Stream.parseTrailer
  split
  · rfl
  · rcases hr : Net.readN (l + 1) l [] s.net with ⟨⟨got, oe⟩, n'⟩
    cases oe with
    | some e => rfl
    | none =>
      simp only []
      split
      · rfl
      · split <;> rfl

theorem parseTrailerR_rem (s : H3Stream) (l : Nat) : (parseTrailerR s l).2.remInFrame = s.remInFrame := by
  unfold parseTrailerR
  split
  · rfl
  · rcases hr : Net.readN (l + 1) l [] s.net with ⟨⟨got, oe⟩, n'⟩
    cases oe with
    | some e => rfl
    | none =>
      simp only []
      split
      · rfl
      · split <;> rfl

theorem readR_rel (s : H3Stream) (k : Nat) : RRel (s.read k) (readR s k) := by
  by_cases hrem : s.remInFrame ≠ 0
  · left
    rw [read_go_eq s k hrem]
    unfold readR; rw [if_pos hrem]
  · have hrel := parseNext_rel (s.net.size + 1) s.net
    unfold H3Stream.read readR
    simp only [hrem, if_false]
    generalize parseNext (s.net.size + 1) s.net = pa at hrel
    generalize parseNextR (s.net.size + 1) s.net = pb at hrel
    cases hrel with
    | data l n =>
      simp only []
      split
      · left; rfl
      · left; unfold readInFrame; rfl
    | headers l n =>
      simp only []
      split
      · left; rfl
      · rcases parseTrailer_rel ({ s with net := n, parsedTrailer := true } : H3Stream) l with h | ⟨h1, h2⟩
        · left; rw [h]
        · right
          refine ⟨rfl, ?_, .eof, .unexpectedEOF, ?_, ?_, Or.inr (Or.inl ⟨rfl, rfl⟩)⟩
          · simp only []; rw [parseTrailer_rem, parseTrailerR_rem]
          · rcases hp : ({ s with net := n, parsedTrailer := true } : H3Stream).parseTrailer l with ⟨e, s'⟩
            rw [hp] at h1; simpa using h1
          · rcases hp : parseTrailerR ({ s with net := n, parsedTrailer := true } : H3Stream) l with ⟨e, s'⟩
            rw [hp] at h2; simpa using h2
    | settings n n' =>
      right
      exact ⟨rfl, rfl, .frameUnexpected, .frameUnexpected, rfl, rfl, Or.inl rfl⟩
    | settingsErr n n' e he =>
      right
      exact ⟨rfl, rfl, .frameUnexpected, e, rfl, rfl, Or.inr (Or.inr ⟨by simp, he⟩)⟩
    | err e n => left; rfl
    | eofTrunc n =>
      right
      exact ⟨rfl, rfl, .eof, .unexpectedEOF, rfl, rfl, Or.inr (Or.inl ⟨rfl, rfl⟩)⟩


/-! ### `body.Read` and whole runs -/

def BRel (a b : (Bytes × Option H3Err) × H3Body) : Prop :=
  a = b ∨ (a.1.1 = b.1.1 ∧ ∃ e e', a.1.2 = some e ∧ b.1.2 = some e' ∧ ERel e e')

theorem bodyRead_rel (b : H3Body) (k : Nat) : BRel (b.read k) (bodyReadR b k) := by
  unfold H3Body.read bodyReadR
  by_cases hv : b.violation = true
  · left; simp [hv]
  · simp only [hv, if_false]
    generalize hk : (if b.hasCL = true then min k b.remaining else k) = k'
    rcases readR_rel b.str k' with h | ⟨hd, hrem, e, e', he, he', hrel⟩
    · left; rw [h]
    · generalize b.str.read k' = ra at hd hrem he ⊢
      generalize readR b.str k' = rb at hd hrem he' ⊢
      obtain ⟨⟨da, ea⟩, sa⟩ := ra
      obtain ⟨⟨db, eb⟩, sb⟩ := rb
      simp only [] at hd hrem he he' ⊢
      subst hd he he'
      have hviol : ({ b with str := sa, remaining := b.remaining - da.length } : H3Body).violation =
          ({ b with str := sb, remaining := b.remaining - da.length } : H3Body).violation := by
        simp [H3Body.violation, hrem]
      rw [hviol]
      right
      by_cases hv2 : ({ b with str := sb, remaining := b.remaining - da.length } : H3Body).violation = true
      · simp only [hv2, if_true]
        exact ⟨(by first | rfl | trivial), .tooMuchData, .tooMuchData, (by first | rfl | trivial), (by first | rfl | trivial), Or.inl rfl⟩
      · simp only [hv2, if_false]
        by_cases hc : b.hasCL = true ∧ b.remaining - da.length > 0
        · -- an `io.EOF` with bytes still owed becomes `io.ErrUnexpectedEOF` in both
          by_cases h1 : e = .eof
          · subst h1
            have e1 : ((some H3Err.eof : Option H3Err) == some H3Err.eof) = true := by decide
            simp only [e1, hc.1, hc.2, and_self, if_true]
            rcases hrel with h | ⟨_, h⟩ | ⟨h, _⟩
            · subst h; simp only [e1, and_self, if_true]; exact ⟨(by first | rfl | trivial), .unexpectedEOF, .unexpectedEOF, (by first | rfl | trivial), (by first | rfl | trivial), Or.inl rfl⟩
            · subst h
              have e2 : ((some H3Err.unexpectedEOF : Option H3Err) == some H3Err.eof) = false := by decide
              simp only [e2, Bool.false_eq_true, false_and, if_false]
              exact ⟨(by first | rfl | trivial), .unexpectedEOF, .unexpectedEOF, (by first | rfl | trivial), (by first | rfl | trivial), Or.inl rfl⟩
            · exact absurd rfl h
          · have e1 : ((some e : Option H3Err) == some H3Err.eof) = false := by
              cases e <;> first | rfl | exact absurd rfl h1
            simp only [e1, Bool.false_eq_true, false_and, if_false]
            rcases hrel with h | ⟨h, _⟩ | ⟨_, h⟩
            · subst h; simp only [e1, Bool.false_eq_true, false_and, if_false]; exact ⟨(by first | rfl | trivial), e', e', (by first | rfl | trivial), (by first | rfl | trivial), Or.inl rfl⟩
            · exact absurd h h1
            · have e2 : ((some e' : Option H3Err) == some H3Err.eof) = false := by
                cases e' <;> first | rfl | exact absurd rfl h
              simp only [e2, Bool.false_eq_true, false_and, if_false]
              exact ⟨(by first | rfl | trivial), e, e', (by first | rfl | trivial), (by first | rfl | trivial), Or.inr (Or.inr ⟨h1, h⟩)⟩
        · have hn : ∀ x : Option H3Err, ¬((x == some H3Err.eof) = true ∧ b.hasCL = true ∧ b.remaining - da.length > 0) :=
            fun x ⟨_, h2⟩ => hc h2
          simp only [hn, if_false]
          exact ⟨(by first | rfl | trivial), e, e', (by first | rfl | trivial), (by first | rfl | trivial), hrel⟩

/-- **The repaired reader against the original (C02's, unit-tied by `c02h3recv`).** For every
stream, segmentation and read sizes the two runs make the same number of reads and hand out the
same bytes in the same pieces; they can differ only in the error of the LAST read: where the
original reports `io.EOF` the repaired one may report `io.ErrUnexpectedEOF` (a truncated frame),
and a non-EOF error may be another non-EOF error (a SETTINGS frame is read before it is refused). -/
theorem run_bridge (b : H3Body) (ks : List Nat) :
    (b.runReads ks).1.map (·.1) = (bodyRunR b ks).1.map (·.1) ∧
    (lastErr (b.runReads ks).1 = lastErr (bodyRunR b ks).1 ∨
      ∃ e e', lastErr (b.runReads ks).1 = some e ∧ lastErr (bodyRunR b ks).1 = some e' ∧ ERel e e') := by
  induction ks generalizing b with
  | nil => exact ⟨rfl, Or.inl rfl⟩
  | cons k ks ih =>
    have hrel := bodyRead_rel b k
    unfold H3Body.runReads bodyRunR
    rw [runReads, runReads]
    rcases hrel with h | ⟨hd, e, e', he, he', hr⟩
    · rw [h]
      rcases hb : bodyReadR b k with ⟨⟨d, oe⟩, b'⟩
      cases oe with
      | some e => exact ⟨rfl, Or.inl rfl⟩
      | none =>
        simp only []
        obtain ⟨i1, i2⟩ := ih b'
        unfold H3Body.runReads bodyRunR at i1 i2
        refine ⟨by simp [i1], ?_⟩
        by_cases hne : (runReads H3Body.read b' ks).1 = []
        · have hne' : (runReads bodyReadR b' ks).1 = [] := by
            have := congrArg List.length i1
            simp only [List.length_map, hne, List.length_nil] at this
            exact List.eq_nil_of_length_eq_zero this.symm
          left; simp [hne, hne']
        · have hne' : (runReads bodyReadR b' ks).1 ≠ [] := by
            intro h0
            have := congrArg List.length i1
            simp only [List.length_map, h0, List.length_nil] at this
            exact hne (List.eq_nil_of_length_eq_zero this)
          rw [lastErr_cons_ne _ _ hne, lastErr_cons_ne _ _ hne']
          exact i2
    · generalize b.read k = ra at hd he ⊢
      generalize bodyReadR b k = rb at hd he' ⊢
      obtain ⟨⟨da, ea⟩, sa⟩ := ra
      obtain ⟨⟨db, eb⟩, sb⟩ := rb
      simp only [] at hd he he' ⊢
      subst hd he he'
      exact ⟨rfl, Or.inr ⟨e, e', rfl, rfl, hr⟩⟩

end Req.C03
