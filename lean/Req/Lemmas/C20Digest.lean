import Req.Client.Digest
import Req.Client.Rfc7616
import Req.Lemmas.C20Verify
/-!
Helper lemmas for C20 about the client model: what `parseChallenge` can return (no field
contains a comma), consequences for `validateQop`, the algorithm table, hex output.
-/
namespace Req.Digest
open Req.Proto Req.Ascii

/-! ### membership is preserved by the trimming / cutting functions -/

theorem mem_trimLeft {p : UInt8 → Bool} {s : Bytes} {x : UInt8} (h : x ∈ trimLeft p s) : x ∈ s :=
  (List.dropWhile_sublist p).subset h

theorem mem_trimRight {p : UInt8 → Bool} {s : Bytes} {x : UInt8} (h : x ∈ trimRight p s) : x ∈ s := by
  unfold trimRight at h
  have h1 := List.mem_reverse.mp h
  have h2 := (List.dropWhile_sublist p).subset h1
  exact List.mem_reverse.mp h2

theorem mem_trim {p : UInt8 → Bool} {s : Bytes} {x : UInt8} (h : x ∈ trim p s) : x ∈ s :=
  mem_trimLeft (mem_trimRight h)

theorem mem_trimLeftSpace {x : UInt8} : ∀ {s : Bytes}, x ∈ trimLeftSpace s → x ∈ s := by
  intro s
  fun_induction trimLeftSpace s with
  | case1 => intro h; exact h
  | case2 a rest _ ih => intro h; exact List.mem_cons_of_mem _ (ih h)
  | case3 a b rest2 _ _ ih =>
    intro h; exact List.mem_cons_of_mem _ (List.mem_cons_of_mem _ (ih h))
  | case4 a b c rest3 _ _ _ ih =>
    intro h
    exact List.mem_cons_of_mem _ (List.mem_cons_of_mem _ (List.mem_cons_of_mem _ (ih h)))
  | case5 => intro h; exact h
  | case6 => intro h; exact h
  | case7 => intro h; exact h

theorem mem_trimLeftSpaceRev {x : UInt8} : ∀ {s : Bytes}, x ∈ trimLeftSpaceRev s → x ∈ s := by
  intro s
  fun_induction trimLeftSpaceRev s with
  | case1 => intro h; exact h
  | case2 a rest _ ih => intro h; exact List.mem_cons_of_mem _ (ih h)
  | case3 a b rest2 _ _ ih =>
    intro h; exact List.mem_cons_of_mem _ (List.mem_cons_of_mem _ (ih h))
  | case4 a b c rest3 _ _ _ ih =>
    intro h
    exact List.mem_cons_of_mem _ (List.mem_cons_of_mem _ (List.mem_cons_of_mem _ (ih h)))
  | case5 => intro h; exact h
  | case6 => intro h; exact h
  | case7 => intro h; exact h

theorem mem_trimSpace {x : UInt8} {s : Bytes} (h : x ∈ trimSpace s) : x ∈ s := by
  unfold trimSpace at h
  have h1 := List.mem_reverse.mp h
  have h2 := mem_trimLeftSpaceRev h1
  exact mem_trimLeftSpace (List.mem_reverse.mp h2)

theorem mem_cutEq {x : UInt8} : ∀ {s k v : Bytes}, cutEq s = some (k, v) → x ∈ v → x ∈ s := by
  intro s
  induction s with
  | nil => intro k v h; simp [cutEq] at h
  | cons c cs ih =>
    intro k v h hx
    unfold cutEq at h
    split at h
    · simp only [Option.some.injEq, Prod.mk.injEq] at h
      exact List.mem_cons_of_mem _ (h.2 ▸ hx)
    · split at h
      · rename_i k' v' hk
        simp only [Option.some.injEq, Prod.mk.injEq] at h
        exact List.mem_cons_of_mem _ (ih hk (h.2 ▸ hx))
      · cases h

/-! ### `strings.Split(s, ",")`: no piece contains a comma -/

theorem splitByte_no_sep (sep : UInt8) : ∀ s : Bytes,
    sep ∉ (splitByte sep s).1 ∧ ∀ p ∈ (splitByte sep s).2, sep ∉ p := by
  intro s
  induction s with
  | nil => simp [splitByte]
  | cons c cs ih =>
    unfold splitByte
    by_cases hc : (c == sep) = true
    · simp only [hc, if_true]
      refine ⟨by simp, ?_⟩
      intro p hp
      cases hp with
      | head => exact ih.1
      | tail _ hp => exact ih.2 p hp
    · simp only [hc, Bool.false_eq_true, if_false]
      refine ⟨?_, ih.2⟩
      intro hm
      cases hm with
      | head => exact hc (by simp)
      | tail _ hm => exact ih.1 hm

theorem split_no_sep (sep : UInt8) (s : Bytes) : ∀ p ∈ split sep s, sep ∉ p := by
  intro p hp
  unfold split at hp
  cases hp with
  | head => exact (splitByte_no_sep sep s).1
  | tail _ hp => exact (splitByte_no_sep sep s).2 p hp

/-! ### what `parseChallenge` returns -/

/-- no field of the challenge contains a comma -/
def NoComma (c : Challenge) : Prop :=
  44 ∉ c.realm ∧ 44 ∉ c.domain ∧ 44 ∉ c.nonce ∧ 44 ∉ c.opaq ∧ 44 ∉ c.stale ∧
  44 ∉ c.algorithm ∧ 44 ∉ c.qop ∧ 44 ∉ c.userhash

theorem setField_noComma {c c' : Challenge} {k v : Bytes} (hc : NoComma c) (hv : 44 ∉ v)
    (h : setField c k v = .ok c') : NoComma c' := by
  have hv' : 44 ∉ trim isQuote v := fun m => hv (mem_trim m)
  obtain ⟨h1, h2, h3, h4, h5, h6, h7, h8⟩ := hc
  unfold setField at h
  simp only at h
  repeat' split at h
  all_goals first
    | (cases h; exact ⟨by assumption, by assumption, by assumption, by assumption, by assumption,
        by assumption, by assumption, by assumption⟩)
    | cases h

theorem parseFields_noComma : ∀ (ps : List Bytes) (c c' : Challenge), (∀ p ∈ ps, 44 ∉ p) → NoComma c →
    parseFields ps c = .ok c' → NoComma c' := by
  intro ps
  induction ps with
  | nil => intro c c' _ hc h; simp only [parseFields] at h; cases h; exact hc
  | cons p ps ih =>
    intro c c' hps hc h
    unfold parseFields at h
    split at h
    · cases h
    · rename_i k v hkv
      split at h
      · rename_i c1 hc1
        have hv : 44 ∉ v := fun m => hps p (by simp) (mem_trimSpace (mem_cutEq hkv m))
        exact ih c1 c' (fun q hq => hps q (List.mem_cons_of_mem _ hq)) (setField_noComma hc hv hc1) h
      · cases h

theorem parseChallenge_noComma {raw : Bytes} {c : Challenge} (h : parseChallenge raw = .ok c) :
    NoComma c := by
  unfold parseChallenge at h
  simp only at h
  split at h
  · exact parseFields_noComma _ {} c (split_no_sep 44 _)
      (by simp [NoComma]) h
  · cases h

/-! ### `validateQop` on a comma-free value -/

theorem splitCommaSpaceAux_noComma : ∀ s : Bytes, 44 ∉ s → splitCommaSpaceAux s = (s, []) := by
  intro s
  induction s with
  | nil => intro _; rfl
  | cons c cs ih =>
    intro h
    have hc : (c == 44) = false := by
      cases hc : c == 44 with
      | false => rfl
      | true => exact absurd (by rw [eq_of_beq hc]; exact List.mem_cons_self) h
    have := ih (fun m => h (List.mem_cons_of_mem _ m))
    simp [splitCommaSpaceAux, hc, this]

theorem validateQop_noComma {qop : Bytes} (hc : 44 ∉ qop) (h : validateQop qop = true) :
    qop = [] ∨ qop = b!"auth" := by
  unfold validateQop splitCommaSpace at h
  rw [splitCommaSpaceAux_noComma qop hc] at h
  simp only [Bool.or_eq_true, List.isEmpty_iff] at h
  rcases h with h | h
  · exact Or.inl h
  · right
    have : b!"auth" = qop := by simpa using h
    exact this.symm

/-! ### the algorithm table -/

theorem lookup_mem {β} (k : Bytes) : ∀ (l : List (Bytes × β)) (v : β), lookup k l = some v → (k, v) ∈ l := by
  intro l
  induction l with
  | nil => intro v h; simp [lookup] at h
  | cons e es ih =>
    intro v h
    obtain ⟨k', v'⟩ := e
    unfold lookup at h
    split at h
    · rename_i hk
      have := eq_of_beq hk
      simp only [Option.some.injEq] at h
      subst this; subst h
      exact List.mem_cons_self
    · exact List.mem_cons_of_mem _ (ih v h)

/-- Every entry of the (repaired) table is RFC 7616's: same hash, `-sess` iff the suffix, and
the names are tokens. -/
theorem hashTable_spec : ∀ e ∈ hashTable,
    (e.1 = [] ∧ e.2 = Alg.md5 ∧ isSess e.1 = false) ∨
    (e.1 ≠ [] ∧ e.1.all isTokenByte = true ∧ Req.Rfc7616.specAlg e.1 = some (e.2, isSess e.1)) := by
  decide

theorem algOf_spec {name : Bytes} {a : Alg} (h : algOf name = some a) :
    (name = [] ∧ a = Alg.md5 ∧ isSess name = false) ∨
    (name ≠ [] ∧ name.all isTokenByte = true ∧ Req.Rfc7616.specAlg name = some (a, isSess name)) :=
  hashTable_spec (name, a) (lookup_mem name hashTable a h)

/-! ### hex output is qdtext -/

theorem hexDigit_qd : ∀ n, n < 16 → Req.Rfc7616.isQd (hexDigitByte n) = true := by decide

theorem hex_all_qd : ∀ bs : Bytes, (hex bs).all Req.Rfc7616.isQd = true := by
  intro bs
  induction bs with
  | nil => rfl
  | cons b bs ih =>
    have hb : b.toNat < 256 := UInt8.toNat_lt b
    have h1 := hexDigit_qd (b.toNat / 16) (by omega)
    have h2 := hexDigit_qd (b.toNat % 16) (by omega)
    simp only [hex, List.flatMap_cons, List.cons_append, List.nil_append, List.all_cons, h1, h2,
      Bool.true_and] at ih ⊢
    exact ih

theorem all_take {p : UInt8 → Bool} {l : Bytes} (n : Nat) (h : l.all p = true) : (l.take n).all p = true := by
  rw [List.all_eq_true] at h ⊢
  intro x hx
  exact h x (List.mem_of_mem_take hx)

theorem hex8_one : hex8 1 = b!"00000001" := by decide

end Req.Digest
