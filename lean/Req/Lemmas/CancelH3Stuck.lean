import Req.Lemmas.CancelH3Inv
set_option linter.unusedSimpArgs false
/-! Stuck states of the HTTP/3 lifecycle model after a cancellation, and the error the caller gets. -/
namespace Req.Lemmas.CancelH3
open Req.Cancel (CtxErr)
open Req.CancelH3

/-- From the cancel point on: either nobody has closed `reqDone` yet (then the watcher is still there to
fire), or both directions of the stream are shut / about to be shut by the watcher's second step. -/
def Good (s : St) : Prop := s.reqDone = false ∨ (s.send ≠ .open ∧ (s.recv ≠ .open ∨ s.wat = .mid))

/-- every error the caller has got is the context's error `e` -/
def J (e : CtxErr) (s : St) : Prop := ∀ x, s.cpc = .returned (.err x) → x = .ctx e

theorem good_act {s : St} {a : Act} (h : Inv s) (hG : Good s) (g : guard s a = true) : Good (apply s a) := by
  obtain ⟨pre, noStr, str, mid, done, hdr, fail, join, dead, eof, q, cnt, cc, ub, rs, re, rd, b1, b2⟩ := h
  rcases s with ⟨hasBody, ctx, cpc, wat, upl, send, recv, respHdr, reqDone, closes, callerClosed, readRes, writes⟩
  simp only [Good] at hG ⊢
  simp only at pre noStr str mid done hdr fail join dead eof q cnt cc ub rs re rd b1 b2 hG
  cases a <;> simp only [CancelH3.guard, recvDead, Bool.and_eq_true, beq_iff_eq, Bool.or_eq_true, bne_iff_ne,
    Bool.not_eq_true', ne_eq] at g <;>
    simp only [CancelH3.apply, closeBody, finalErr, recvErr]
  case cHsCancel => cases hasBody <;> simp only [if_true, if_false, Bool.false_eq_true] <;> grind
  case cOpenCancel => cases hasBody <;> simp only [if_true, if_false, Bool.false_eq_true] <;> grind
  case cSendHdr =>
    subst g
    cases hasBody <;> cases send <;>
      simp only [if_true, if_false, beq_self_eq_true, reduceCtorEq, beq_iff_eq, Bool.false_eq_true] <;>
      simp only [failing, joining, retErr, retd] at * <;> grind
  case cRespFail => cases send <;> simp only [Side.cancelIfOpen] <;> grind
  case cFailSig => cases cpc <;> simp at g; simp only [failing] at fail; grind
  case cFailJoin => cases cpc <;> simp at g; grind
  case wFireW => cases send <;> simp only [Side.cancelIfOpen] <;> grind
  case wFireR => cases recv <;> simp only [Side.cancelIfOpen] <;> grind
  case uFin => cases send <;> simp only [Side.finIfOpen] <;> grind
  all_goals grind

theorem j_act {e : CtxErr} {s : St} {a : Act} (hc : s.ctx = some e) (hJ : J e s) (g : guard s a = true) :
    J e (apply s a) := by
  rcases s with ⟨hasBody, ctx, cpc, wat, upl, send, recv, respHdr, reqDone, closes, callerClosed, readRes, writes⟩
  simp only at hc
  subst hc
  simp only [J] at hJ ⊢
  cases a <;> simp only [CancelH3.guard, recvDead, Bool.and_eq_true, beq_iff_eq, Bool.or_eq_true, bne_iff_ne,
    Bool.not_eq_true', ne_eq] at g <;>
    simp only [CancelH3.apply, closeBody, finalErr, recvErr]
  case cHsCancel => cases hasBody <;> simp
  case cOpenCancel => cases hasBody <;> simp
  case cSendHdr => subst g; cases hasBody <;> cases send <;> simp
  case cRespOk => simp
  case cRespFail => simp
  case cFailSig => cases cpc <;> simp at g; simp
  case cFailJoin => cases cpc <;> simp at g; simp
  all_goals exact hJ

theorem ctx_act {s : St} {a : Act} : (apply s a).ctx = s.ctx := by
  cases a <;> simp only [CancelH3.apply, closeBody]
  case cHsCancel => split <;> rfl
  case cOpenCancel => split <;> rfl
  case cSendHdr => split <;> (try split) <;> rfl
  case cFailSig => split <;> rfl
  case cFailJoin => split <;> rfl

/-- a stuck cancelled state is released -/
theorem stuck_released {s : St} (h : Inv s) (hG : Good s) (hc : s.ctx.isSome = true) (hs : stuck s = true) :
    released s = true := by
  obtain ⟨pre, noStr, str, mid, done, hdr, fail, join, dead, eof, q, cnt, cc, ub, rs, re, rd, b1, b2⟩ := h
  rcases s with ⟨hasBody, ctx, cpc, wat, upl, send, recv, respHdr, reqDone, closes, callerClosed, readRes, writes⟩
  simp only [Good] at hG
  simp only at pre noStr str mid done hdr fail join dead eof q cnt cc ub rs re rd b1 b2 hG hc
  simp only [stuck, allActs, List.all_cons, List.all_nil, CancelH3.guard, recvDead, hc, Bool.and_true,
    Bool.and_eq_true, Bool.not_eq_true', beq_eq_false_iff_ne, ne_eq, Bool.and_eq_false_imp, beq_iff_eq,
    Bool.or_eq_false_iff, bne_eq_false_iff_eq, Bool.or_eq_true, Bool.not_eq_false'] at hs
  rcases cpc with _ | _ | _ | _ | _ | _ | (_ | _) <;>
    simp only [failing, joining, retErr, retd, reduceCtorEq, not_true_eq_false, not_false_eq_true] at * <;>
    cases wat <;> simp only [reduceCtorEq, not_true_eq_false, not_false_eq_true] at * <;>
    cases upl <;> simp only [reduceCtorEq, not_true_eq_false, not_false_eq_true] at * <;>
    simp only [released, isReturned] <;> first | grind | (cases recv <;> grind)

end Req.Lemmas.CancelH3
