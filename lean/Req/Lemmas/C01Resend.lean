import Req.Client.Merge
/-!
`parseRequestHeader` is idempotent: running it again on the map it produced (a retry attempt, a
second send of the same `*Request`) changes nothing — provided the client-level map has distinct
keys (it is a Go map).
-/
namespace Req.Lemmas.C01Resend
open Req.Proto Req.H1 Req.HeaderSort Req.Merge

/-- the per-entry step of `mergeHeaders`. -/
def fill (ch : Hdr) (kv : KV) : KV :=
  if kv.values.isEmpty then
    match hdrGet? ch kv.key with
    | some vs => ⟨kv.key, vs⟩
    | none => kv
  else kv

theorem mergeHeaders_some (ch rh : Hdr) :
    mergeHeaders (some ch) rh = rh.map (fill ch) ++ ch.filter fun kv => !(rh.any (·.key == kv.key)) := rfl

theorem fill_key (ch : Hdr) (kv : KV) : (fill ch kv).key = kv.key := by
  unfold fill
  split
  · split <;> rfl
  · rfl

theorem fill_idem (ch : Hdr) (kv : KV) : fill ch (fill ch kv) = fill ch kv := by
  by_cases he : kv.values.isEmpty = true
  · cases hg : hdrGet? ch kv.key with
    | none =>
      have : fill ch kv = kv := by simp [fill, he, hg]
      rw [this, this]
    | some vs =>
      have h1 : fill ch kv = ⟨kv.key, vs⟩ := by simp [fill, he, hg]
      rw [h1]
      by_cases hv : vs.isEmpty = true
      · simp [fill, hv, hg]
      · simp [fill, hv]
  · have : fill ch kv = kv := by simp [fill, he]
    rw [this, this]

/-- distinct keys: the first entry found under an entry's own key is that entry. -/
theorem hdrGet_self {ch : Hdr} (hd : ch.Pairwise fun a b => a.key ≠ b.key) {kv : KV} (hkv : kv ∈ ch) :
    hdrGet? ch kv.key = some kv.values := by
  induction ch with
  | nil => cases hkv
  | cons a t ih =>
    rw [List.pairwise_cons] at hd
    unfold hdrGet?
    rcases List.mem_cons.mp hkv with rfl | hin
    · simp [List.find?]
    · have hne : a.key ≠ kv.key := hd.1 kv hin
      have : (a.key == kv.key) = false := by simpa using hne
      simp only [List.find?, this]
      exact ih hd.2 hin

theorem fill_of_mem {ch : Hdr} (hd : ch.Pairwise fun a b => a.key ≠ b.key) {kv : KV} (hkv : kv ∈ ch) :
    fill ch kv = kv := by
  unfold fill
  split
  · rename_i he
    rw [hdrGet_self hd hkv]
  · rfl

theorem any_key_map_fill (ch rh : Hdr) (k : Bytes) :
    (rh.map (fill ch)).any (·.key == k) = rh.any (·.key == k) := by
  induction rh with
  | nil => rfl
  | cons a t ih => simp [List.any_cons, fill_key, ih]

/-- **mergeHeaders_idem**. -/
theorem mergeHeaders_idem (ch : Option Hdr) (rh : Hdr)
    (hd : ∀ c, ch = some c → c.Pairwise fun a b => a.key ≠ b.key) :
    mergeHeaders ch (mergeHeaders ch rh) = mergeHeaders ch rh := by
  cases ch with
  | none => rfl
  | some ch =>
    have hd := hd ch rfl
    rw [mergeHeaders_some ch rh, mergeHeaders_some]
    have hA : (rh.map (fill ch)).map (fill ch) = rh.map (fill ch) := by
      rw [List.map_map]
      apply List.map_congr_left
      intro kv _
      exact fill_idem ch kv
    have hB : (ch.filter fun kv => !(rh.any (·.key == kv.key))).map (fill ch)
        = ch.filter fun kv => !(rh.any (·.key == kv.key)) := by
      conv => rhs; rw [← List.map_id (ch.filter fun kv => !(rh.any (·.key == kv.key)))]
      apply List.map_congr_left
      intro kv hkv
      exact fill_of_mem hd (List.mem_filter.mp hkv).1
    have hC : (ch.filter fun kv => !((rh.map (fill ch) ++ ch.filter fun kv => !(rh.any (·.key == kv.key))).any
        (·.key == kv.key))) = [] := by
      apply List.filter_eq_nil_iff.mpr
      intro kv hkv
      simp only [List.any_append, any_key_map_fill, Bool.not_eq_true', Bool.not_eq_false]
      by_cases hr : rh.any (·.key == kv.key) = true
      · simp [hr]
      · simp only [hr, Bool.false_or]
        apply List.any_eq_true.mpr
        refine ⟨kv, List.mem_filter.mpr ⟨hkv, by simpa using hr⟩, by simp⟩
    rw [List.map_append, hA, hB, hC, List.append_nil]

end Req.Lemmas.C01Resend
