import Req.H2.Conn
/-!
C06 — helper lemmas for the wake-up discipline: a `RoundTrip` parked in
`awaitOpenSlotForStreamLocked` (`State.pendingOpen`) sleeps on `cc.cond`; every operation that
can make its condition true ends in a `cc.cond.Broadcast()` (`Conn.wakes`, or a stream left
`cc.streams`, or the connection was torn down). Stated as an invariant: in no reachable state is
there a parked request that could go ahead if it only looked (`enabled`).

The proof is a walk over all handlers showing that those which do not broadcast leave the
"control part" of the state alone (`Same`): the stream limit, GOAWAY, doNotReuse, the next
stream id, the parked request itself.
-/
set_option linter.unusedSimpArgs false
namespace Req.Lemmas.C06
open Req.H2 Req.H2.Flow Req.H2.Conn

/-- a RoundTrip is parked and would open its stream if it were woken now: the connection is
usable, a slot is free -/
def enabled (st : State) : Bool :=
  st.pendingOpen.isSome && !st.closed && canTake { st with pendingOpen := none } &&
  decide (liveCount st.streams < st.maxConcurrent)

/-- whoever is woken either goes ahead, gives up, or finds its condition still false -/
theorem resume_not_enabled (st : State) : enabled (resumePending st).1 = false := by
  unfold resumePending
  split
  · rename_i h; simp [enabled, h]
  · rename_i r hp
    simp only
    split
    · simp [enabled]
    · rename_i hc
      split
      · simp [enabled]
      · rename_i hct
        split
        · simp [enabled, doOpen]
        · rename_i hl
          have hc' : st.closed = false := by cases hx : st.closed <;> simp [hx] at hc ⊢
          simp [enabled, hp, hc', hl]

/-- the part of the state the parked request's condition depends on, streams aside -/
structure Same (st st1 : State) : Prop where
  pendingOpen : st1.pendingOpen = st.pendingOpen
  goAway : st1.goAway = st.goAway
  maxConcurrent : st1.maxConcurrent = st.maxConcurrent
  nextStreamID : st1.nextStreamID = st.nextStreamID
  cfg : st1.cfg = st.cfg
  doNotReuse : st1.doNotReuse = st.doNotReuse ∨ st1.doNotReuse = true

theorem same_refl (st : State) : Same st st := ⟨rfl, rfl, rfl, rfl, rfl, Or.inl rfl⟩

theorem same_trans {a b c : State} (h1 : Same a b) (h2 : Same b c) : Same a c :=
  ⟨h2.pendingOpen.trans h1.pendingOpen, h2.goAway.trans h1.goAway, h2.maxConcurrent.trans h1.maxConcurrent,
   h2.nextStreamID.trans h1.nextStreamID, h2.cfg.trans h1.cfg,
   by rcases h2.doNotReuse with h | h
      · rcases h1.doNotReuse with h' | h'
        · exact Or.inl (h.trans h')
        · exact Or.inr (h.trans h')
      · exact Or.inr h⟩

/-- nothing that matters changed and no slot was taken: a request that is enabled afterwards
was enabled before -/
theorem same_enabled {st st1 : State} (hs : Same st st1) (hc : st.closed = false)
    (hl : liveCount st.streams ≤ liveCount st1.streams) (he : enabled st1 = true) : enabled st = true := by
  unfold enabled canTake at *
  simp only [Bool.and_eq_true, Bool.not_eq_true', decide_eq_true_eq, Bool.or_eq_true, Option.isSome_none,
    Bool.false_eq_true, if_false] at he ⊢
  obtain ⟨⟨⟨h1, h2⟩, ⟨⟨⟨⟨h3, h4⟩, h5⟩, h6⟩, h7⟩⟩, h8⟩ := he
  rw [hs.pendingOpen] at h1
  rw [hs.goAway] at h3
  rw [hs.maxConcurrent] at h6 h8
  rw [hs.nextStreamID] at h7
  rw [hs.cfg] at h6
  have hd : st.doNotReuse = false := by
    rcases hs.doNotReuse with h | h
    · rw [← h]; exact h5
    · rw [h] at h5; cases h5
  refine ⟨⟨⟨h1, hc⟩, ⟨⟨⟨⟨h3, hc⟩, hd⟩, ?_⟩, h7⟩⟩, by omega⟩
  rcases h6 with h6 | h6
  · exact Or.inl h6
  · exact Or.inr (by omega)

/-! ### handlers that leave the control part alone -/

theorem same_forget (st : State) (s : Stream) : Same st (forget st s) := by
  unfold forget; simp only; split <;> exact ⟨rfl, rfl, rfl, rfl, rfl, Or.inl rfl⟩

theorem same_terminate (st : State) (s : Stream) (b : Bool) : Same st (terminate st s b).1 := by
  unfold terminate; exact same_forget st s

theorem same_settle (st : State) (s : Stream) : Same st (settle st s) := by
  unfold settle; split
  · exact same_forget st s
  · exact ⟨rfl, rfl, rfl, rfl, rfl, Or.inl rfl⟩

theorem same_settle' (st st0 : State) (s : Stream) (h : Same st st0) : Same st (settle st0 s) :=
  same_trans h (same_settle st0 s)

theorem same_closeStream (st : State) (s s' : Stream) : Same st (closeStream st s s').1 := by
  unfold closeStream; split
  · exact same_terminate _ _ _
  · exact ⟨rfl, rfl, rfl, rfl, rfl, Or.inl rfl⟩

theorem same_creditConn {st : State} (r : State × List Frame) (n : Nat) (h : Same st r.1) :
    Same st (creditConn r n).1 := by
  unfold creditConn
  split
  · split
    · exact same_trans h ⟨rfl, rfl, rfl, rfl, rfl, Or.inl rfl⟩
    · exact same_trans h ⟨rfl, rfl, rfl, rfl, rfl, Or.inl rfl⟩
  · exact h

theorem same_readCore (st : State) (s : Stream) (k : Nat) : Same st (readCore st s k).1 := by
  unfold readCore
  split
  · exact ⟨rfl, rfl, rfl, rfl, rfl, Or.inl rfl⟩
  · split <;> exact ⟨rfl, rfl, rfl, rfl, rfl, Or.inl rfl⟩

theorem same_readK (st : State) (s : Stream) (k : Nat) : Same st (readK st s k).1 := by
  unfold readK
  split
  · exact same_readCore _ _ _
  · split
    · unfold readOverlong
      simp only
      split
      · exact same_creditConn _ _ (same_closeStream _ _ _)
      · exact same_closeStream _ _ _
    · exact same_readCore _ _ _

theorem same_write (st : State) (id : Nat) : Same st (write st id).1 := by
  unfold write
  split
  · exact same_refl st
  · split
    · exact same_settle _ _
    · split
      · exact same_refl st
      · exact same_settle' _ _ _ ⟨rfl, rfl, rfl, rfl, rfl, Or.inl rfl⟩

theorem same_discardData (st : State) (s : Stream) (flen : Int) : Same st (discardData st s flen).1 := by
  unfold discardData
  simp only
  split
  · split
    · exact ⟨rfl, rfl, rfl, rfl, rfl, Or.inl rfl⟩
    · split
      · exact ⟨rfl, rfl, rfl, rfl, rfl, Or.inl rfl⟩
      · exact same_trans (same_terminate st s false) ⟨rfl, rfl, rfl, rfl, rfl, Or.inl rfl⟩
  · exact same_terminate _ _ _

theorem same_peerData (st : State) (id len pad : Nat) (es : Bool) : Same st (peerData st id len pad es).1 := by
  unfold peerData
  simp only
  split
  · split
    · exact ⟨rfl, rfl, rfl, rfl, rfl, Or.inl rfl⟩
    · split
      · split
        · exact ⟨rfl, rfl, rfl, rfl, rfl, Or.inl rfl⟩
        · split <;> exact ⟨rfl, rfl, rfl, rfl, rfl, Or.inl rfl⟩
      · exact same_refl st
  · split
    · exact same_discardData _ _ _
    · split
      · split
        · exact ⟨rfl, rfl, rfl, rfl, rfl, Or.inl rfl⟩
        · split
          · exact ⟨rfl, rfl, rfl, rfl, rfl, Or.inl rfl⟩
          · split
            · exact ⟨rfl, rfl, rfl, rfl, rfl, Or.inl rfl⟩
            · exact same_settle' _ _ _ ⟨rfl, rfl, rfl, rfl, rfl, Or.inl rfl⟩
      · exact same_settle _ _

theorem same_peerResp (st : State) (id : Nat) (es : Bool) (status : Nat) (cl : Option Nat) :
    Same st (peerResp st id es status cl).1 := by
  unfold peerResp
  split
  · exact same_refl st
  · split
    · exact same_refl st
    · split
      · exact same_terminate _ _ _
      · split
        · split
          · exact same_terminate _ _ _
          · split
            · split
              · exact same_terminate _ _ _
              · exact ⟨rfl, rfl, rfl, rfl, rfl, Or.inl rfl⟩
            · exact same_settle _ _
        · split
          · exact ⟨rfl, rfl, rfl, rfl, rfl, Or.inl rfl⟩
          · exact same_settle _ _

theorem same_peerWindowUpdate (st : State) (id inc : Nat) : Same st (peerWindowUpdate st id inc).1 := by
  unfold peerWindowUpdate
  split
  · split
    · exact ⟨rfl, rfl, rfl, rfl, rfl, Or.inl rfl⟩
    · split <;> exact ⟨rfl, rfl, rfl, rfl, rfl, Or.inl rfl⟩
  · split
    · exact same_refl st
    · split
      · exact same_refl st
      · split
        · exact same_terminate _ _ _
        · split
          · exact ⟨rfl, rfl, rfl, rfl, rfl, Or.inl rfl⟩
          · exact same_terminate _ _ _

theorem same_peerRst (st : State) (id code : Nat) : Same st (peerRst st id code).1 := by
  unfold peerRst
  split
  · exact same_refl st
  · split
    · exact same_refl st
    · refine same_trans (b := { st with doNotReuse := st.doNotReuse || decide (code = 1) }) ?_ (same_terminate _ _ _)
      refine ⟨rfl, rfl, rfl, rfl, rfl, ?_⟩
      cases st.doNotReuse <;> cases decide (code = 1) <;> simp

/-! ### handlers that do change it -/

theorem liveCount_map_delta (d : Int) (l : List Stream) : liveCount (l.map (deltaStream d)) = liveCount l := by
  induction l with
  | nil => rfl
  | cons a l ih =>
    unfold liveCount at *
    simp only [List.map_cons, List.filter]
    have : (deltaStream d a).live = a.live := by
      unfold deltaStream; split
      · split <;> rfl
      · rfl
    rw [this]
    split <;> simp [ih]

/-- what `processSettings` leaves alone -/
structure SameS (st st1 : State) : Prop where
  pendingOpen : st1.pendingOpen = st.pendingOpen
  goAway : st1.goAway = st.goAway
  nextStreamID : st1.nextStreamID = st.nextStreamID
  cfg : st1.cfg = st.cfg
  doNotReuse : st1.doNotReuse = st.doNotReuse
  closed : st1.closed = st.closed
  live : liveCount st1.streams = liveCount st.streams

theorem sames_applySetting {st st' : State} {sm sm' : Bool} {p : Nat × Nat}
    (h : applySetting st sm p = some (st', sm')) : SameS st st' := by
  unfold applySetting at h
  split at h
  · split at h
    · cases h
    · cases h; exact ⟨rfl, rfl, rfl, rfl, rfl, rfl, rfl⟩
  · split at h
    · cases h; exact ⟨rfl, rfl, rfl, rfl, rfl, rfl, rfl⟩
    · split at h
      · split at h
        · cases h
        · cases h; exact ⟨rfl, rfl, rfl, rfl, rfl, rfl, liveCount_map_delta _ _⟩
      · cases h; exact ⟨rfl, rfl, rfl, rfl, rfl, rfl, rfl⟩

theorem sames_applySettings {vals : List (Nat × Nat)} :
    ∀ {st st' : State} {sm sm' : Bool}, applySettings st sm vals = some (st', sm') → SameS st st' := by
  induction vals with
  | nil =>
    intro st st' sm sm' h
    simp only [applySettings, Option.some.injEq, Prod.mk.injEq] at h
    rw [← h.1]; exact ⟨rfl, rfl, rfl, rfl, rfl, rfl, rfl⟩
  | cons p ps ih =>
    intro st st' sm sm' h
    unfold applySettings at h
    split at h
    · cases h
    · rename_i st1 sm1 h1
      have a := sames_applySetting h1
      have b := ih h
      exact ⟨b.pendingOpen.trans a.pendingOpen, b.goAway.trans a.goAway, b.nextStreamID.trans a.nextStreamID,
             b.cfg.trans a.cfg, b.doNotReuse.trans a.doNotReuse, b.closed.trans a.closed, b.live.trans a.live⟩

theorem sames_peerSettings (st : State) (vals : List (Nat × Nat)) :
    (peerSettings st vals).1.closed = true ∨ SameS st (peerSettings st vals).1 := by
  unfold peerSettings
  split
  · left; rfl
  · rename_i st1 seenMax h
    have a := sames_applySettings h
    right
    simp only
    split
    · exact a
    · exact ⟨a.pendingOpen, a.goAway, a.nextStreamID, a.cfg, a.doNotReuse, a.closed, a.live⟩

theorem goAway_forget (st : State) (s : Stream) : (forget st s).goAway = st.goAway := (same_forget st s).goAway

theorem goAway_abortAbove (last : Nat) (ids : List Nat) :
    ∀ st : State, (abortAbove last ids st).1.goAway = st.goAway := by
  induction ids with
  | nil => intro st; rfl
  | cons id rest ih =>
    intro st
    unfold abortAbove
    split
    · exact ih st
    · split
      · rename_i s _ _
        have := ih (terminate st s false).1
        simp only
        rw [this]
        exact (same_terminate st s false).goAway
      · exact ih st

/-- every operation that is not one of the three below leaves the control part alone -/
theorem same_apply (st : State) (op : Op)
    (h1 : ∀ r, op ≠ .openReq r) (h2 : ∀ vals, op ≠ .peer (.settings vals)) (h3 : ∀ last, op ≠ .peer (.goaway last)) :
    Same st (apply st op).1 := by
  cases op with
  | openReq r => exact absurd rfl (h1 r)
  | feed id n =>
    simp only [apply, feed]
    split
    · exact same_refl st
    · split
      · exact ⟨rfl, rfl, rfl, rfl, rfl, Or.inl rfl⟩
      · exact same_refl st
  | write id => exact same_write st id
  | cancel id =>
    simp only [apply, cancel]
    split
    · exact same_refl st
    · split
      · exact same_terminate _ _ _
      · exact same_refl st
  | read id n =>
    simp only [apply, Conn.read]
    split
    · exact same_refl st
    · split
      · exact same_readK _ _ _
      · exact same_refl st
  | close id =>
    simp only [apply, close]
    split
    · exact same_refl st
    · split
      · exact same_creditConn _ _ (same_closeStream _ _ _)
      · exact same_refl st
  | wake => exact same_refl st
  | peer f =>
    cases f with
    | settings vals => exact absurd rfl (h2 vals)
    | settingsAck =>
      simp only [apply, Conn.peer, peerSettingsAck]
      split <;> exact ⟨rfl, rfl, rfl, rfl, rfl, Or.inl rfl⟩
    | windowUpdate id inc => exact same_peerWindowUpdate st id inc
    | rst id code => exact same_peerRst st id code
    | goaway last => exact absurd rfl (h3 last)
    | resp id es status cl => exact same_peerResp st id es status cl
    | data id len pad es => exact same_peerData st id len pad es
    | ping ack d =>
      simp only [apply, Conn.peer, peerPing]
      split <;> exact same_refl st
    | pushPromise id p => exact ⟨rfl, rfl, rfl, rfl, rfl, Or.inl rfl⟩

/-- **the wake-up discipline, one step**: nobody who could go ahead is asleep before ⇒ nobody is
afterwards. Needs fixes/C06-9 (a raised stream limit broadcasts). -/
theorem wake_step (st : State) (hfix : st.cfg.fixes.mcsWake = true) (h : enabled st = false) (op : Op) :
    enabled (step st op).1 = false := by
  unfold step
  cases hc : st.closed with
  | true => simp only [if_true]; exact h
  | false =>
    simp only [Bool.false_eq_true, if_false]
    split
    · exact resume_not_enabled _
    · rename_i hw
      -- no broadcast, no stream gone, connection still up
      simp only [Bool.or_eq_true, decide_eq_true_eq, not_or, Bool.not_eq_true] at hw
      obtain ⟨⟨hw1, hw2⟩, hw3⟩ := hw
      have hl : liveCount st.streams ≤ liveCount (apply st op).1.streams := by omega
      cases he : enabled (apply st op).1 with
      | false => rfl
      | true =>
        exfalso
        by_cases h1 : ∃ r, op = .openReq r
        · obtain ⟨r, rfl⟩ := h1
          simp only [apply, openStream] at he
          split at he
          · rw [h] at he; cases he
          · rename_i hnp
            split at he
            · rw [h] at he; cases he
            · split at he
              · have hp : (doOpen st r).1.pendingOpen.isSome = false := by
                  simp only [doOpen]
                  cases hx : st.pendingOpen.isSome <;> simp [hx] at hnp ⊢
                simp [enabled, hp] at he
              · rename_i hnl
                simp [enabled, hnl] at he
        · by_cases h2 : ∃ vals, op = .peer (.settings vals)
          · obtain ⟨vals, rfl⟩ := h2
            simp only [wakes, hfix, Bool.true_and, Bool.or_eq_false_iff, decide_eq_false_iff_not] at hw1
            rcases sames_peerSettings st vals with hcl | hs
            · simp only [apply, Conn.peer] at hw3; rw [hcl] at hw3; cases hw3
            · simp only [apply, Conn.peer] at he hw1
              have hmax := hw1.2
              -- the limit did not go up, nothing else changed: it was enabled before
              have : enabled st = true := by
                unfold enabled canTake at *
                simp only [Bool.and_eq_true, Bool.not_eq_true', decide_eq_true_eq, Bool.or_eq_true,
                  Option.isSome_none, Bool.false_eq_true, if_false] at he ⊢
                obtain ⟨⟨⟨e1, e2⟩, ⟨⟨⟨⟨e3, e4⟩, e5⟩, e6⟩, e7⟩⟩, e8⟩ := he
                rw [hs.pendingOpen] at e1
                rw [hs.goAway] at e3
                rw [hs.doNotReuse] at e5
                rw [hs.nextStreamID] at e7
                rw [hs.cfg, hs.live] at e6
                rw [hs.live] at e8
                refine ⟨⟨⟨e1, hc⟩, ⟨⟨⟨⟨e3, hc⟩, e5⟩, ?_⟩, e7⟩⟩, by omega⟩
                rcases e6 with e6 | e6
                · exact Or.inl e6
                · exact Or.inr (by omega)
              rw [h] at this; cases this
          · by_cases h3 : ∃ last, op = .peer (.goaway last)
            · obtain ⟨last, rfl⟩ := h3
              have hg : (apply st (.peer (.goaway last))).1.goAway = true := by
                simp only [apply, Conn.peer, peerGoAway]
                rw [goAway_abortAbove]
              simp [enabled, canTake, hg] at he
            · have hs := same_apply st op (fun r hr => h1 ⟨r, hr⟩) (fun v hv => h2 ⟨v, hv⟩) (fun l hl' => h3 ⟨l, hl'⟩)
              have := same_enabled hs hc hl he
              rw [h] at this; cases this

theorem step_cfg (st : State) (op : Op) : (step st op).1.cfg = st.cfg := by
  have hres : ∀ s : State, (resumePending s).1.cfg = s.cfg := by
    intro s
    unfold resumePending
    split
    · rfl
    · simp only
      split
      · rfl
      · split
        · rfl
        · split
          · simp [doOpen]
          · rfl
  have happ : (apply st op).1.cfg = st.cfg := by
    by_cases h1 : ∃ r, op = .openReq r
    · obtain ⟨r, rfl⟩ := h1
      simp only [apply, openStream]
      split
      · rfl
      · split
        · rfl
        · split
          · simp [doOpen]
          · rfl
    · by_cases h2 : ∃ vals, op = .peer (.settings vals)
      · obtain ⟨vals, rfl⟩ := h2
        simp only [apply, Conn.peer, peerSettings]
        split
        · rfl
        · rename_i st1 sm hsome
          have := (sames_applySettings hsome).cfg
          simp only
          split
          · exact this
          · exact this
      · by_cases h3 : ∃ last, op = .peer (.goaway last)
        · obtain ⟨last, rfl⟩ := h3
          simp only [apply, Conn.peer, peerGoAway]
          have : ∀ (ids : List Nat) (s : State), (abortAbove last ids s).1.cfg = s.cfg := by
            intro ids
            induction ids with
            | nil => intro s; rfl
            | cons id rest ih =>
              intro s
              unfold abortAbove
              split
              · exact ih s
              · split
                · rename_i x _ _
                  simp only
                  rw [ih]
                  exact (same_terminate s x false).cfg
                · exact ih s
          rw [this]
        · exact (same_apply st op (fun r hr => h1 ⟨r, hr⟩) (fun v hv => h2 ⟨v, hv⟩) (fun l hl' => h3 ⟨l, hl'⟩)).cfg
  unfold step
  split
  · rfl
  · simp only
    split
    · rw [hres]; exact happ
    · exact happ

theorem wake_runFrom (ops : List Op) :
    ∀ (st : State) (hist : List Event), st.cfg.fixes.mcsWake = true → enabled st = false →
      enabled (runFrom st hist ops).1 = false := by
  induction ops with
  | nil => intro st hist _ h; exact h
  | cons op rest ih =>
    intro st hist hfix h
    have : runFrom st hist (op :: rest) =
        runFrom (step st op).1 (hist ++ (if st.closed then [] else opEvents op (step st op).2)) rest := rfl
    rw [this]
    exact ih _ _ (by rw [step_cfg]; exact hfix) (wake_step st hfix h op)

end Req.Lemmas.C06
