import Req.Client.RedirectLifetime
/-! C11: the forward client-family state machine agrees with the look-back specification. -/
namespace Req.Lemmas.C11
open Req.Redirect.Lifetime

theorem run_spec {α : Type} (dflt : α) (h : List (Op α)) :
    (run dflt h).length = nClients h ∧ ∀ j, (run dflt h)[j]? = resolve dflt h j := by
  induction h with
  | nil =>
    refine ⟨rfl, ?_⟩
    intro j
    cases j <;> simp [run, resolve]
  | cons op h ih =>
    obtain ⟨hl, hr⟩ := ih
    cases op with
    | set i ps empty =>
      cases empty with
      | true =>
        refine ⟨by simpa [run, step, nClients] using hl, ?_⟩
        intro j
        simp [run, step, resolve, hr]
      | false =>
        refine ⟨by simpa [run, step, nClients] using hl, ?_⟩
        intro j
        simp only [run, step, Bool.false_eq_true, if_false, resolve, true_and]
        rw [List.getElem?_set]
        by_cases hij : i = j
        · subst hij
          by_cases hlt : i < nClients h
          · simp [hlt, hl]
          · simp [hlt, hl, ← hr]
        · simp [hij, hr]
    | clone i =>
      simp only [run, step, nClients, resolve]
      by_cases hlt : i < nClients h
      · have hi : i < (run dflt h).length := by omega
        have hget : (run dflt h)[i]? = some (run dflt h)[i] := List.getElem?_eq_getElem hi
        rw [hget]
        refine ⟨by simp [hlt, hl], ?_⟩
        intro j
        simp only [hlt, true_and]
        by_cases hj : j = nClients h
        · subst hj
          simp [← hl, ← hr, hget]
        · simp only [hj, if_false, ← hr]
          rw [List.getElem?_append]
          by_cases hjl : j < (run dflt h).length
          · simp [hjl]
          · have : j - (run dflt h).length ≠ 0 := by omega
            simp [hjl, this]
      · have hnone : (run dflt h)[i]? = none := by
          apply List.getElem?_eq_none; omega
        rw [hnone]
        refine ⟨by simp [hlt, hl], ?_⟩
        intro j
        simp [hlt, hr]

end Req.Lemmas.C11
