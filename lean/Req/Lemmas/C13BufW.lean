import Req.H1.DumpWrite
/-! Lemmas about the buffered-writer model and the write program (`Req/H1/DumpWrite.lean`). -/
namespace Req.H1.DumpWrite
open Req.Proto Req.H1

/-! ### bufio.Writer -/

theorem under_spec (s : BufW) (p : Bytes) :
    (s.under p).1.wire = s.wire ++ p.take (s.under p).2 ∧ (s.under p).1.buf = s.buf ∧
    (s.under p).2 ≤ p.length := by
  rcases s with ⟨w, b, l, e⟩
  cases l with
  | none => simp [BufW.under]
  | some l =>
    by_cases h : p.length ≤ l
    · simp [BufW.under, h]
    · simp [BufW.under, h]; omega

theorem under_err (s : BufW) (p : Bytes) (he : s.err = false) :
    ((s.under p).2 < p.length → (s.under p).1.err = true) ∧
    ((s.under p).2 = p.length → (s.under p).1.err = false) := by
  rcases s with ⟨w, b, l, e⟩
  simp only at he
  subst he
  cases l with
  | none => simp [BufW.under]
  | some l =>
    by_cases h : p.length ≤ l
    · simp [BufW.under, h]
    · simp [BufW.under, h]; omega

theorem under_nofail (s : BufW) (p : Bytes) (hl : s.limit = none) :
    (s.under p).1.limit = none ∧ (s.under p).1.err = s.err ∧ (s.under p).2 = p.length ∧
    (s.under p).1.wire = s.wire ++ p ∧ (s.under p).1.buf = s.buf := by
  rcases s with ⟨w, b, l, e⟩
  simp only at hl
  subst hl
  simp [BufW.under]

theorem flush_conserve (s : BufW) : s.flush.wire ++ s.flush.buf = s.wire ++ s.buf := by
  rcases s with ⟨w, b, l, e⟩
  cases e with
  | true => simp [BufW.flush]
  | false =>
    cases b with
    | nil => simp [BufW.flush]
    | cons x xs =>
      have h := under_spec (⟨w, [], l, false⟩ : BufW) (x :: xs)
      simp only [BufW.flush, Bool.false_eq_true, ↓reduceIte, List.isEmpty_cons]
      rw [h.1]
      simp [List.append_assoc]

theorem flush_err_id (s : BufW) (he : s.err = true) : s.flush = s := by
  simp [BufW.flush, he]

theorem flush_nofail (s : BufW) (hl : s.limit = none) (he : s.err = false) :
    s.flush.limit = none ∧ s.flush.err = false ∧ s.flush.buf = [] ∧ s.flush.wire = s.wire ++ s.buf := by
  rcases s with ⟨w, b, l, e⟩
  simp only at hl he
  subst hl he
  cases b with
  | nil => simp [BufW.flush]
  | cons x xs => simp [BufW.flush, BufW.under]

theorem take_append_take_drop (p : Bytes) (k a : Nat) :
    p.take k ++ (p.drop k).take a = p.take (k + a) := by
  rw [List.take_add]

theorem flush_ok_buf (s : BufW) (he : s.err = false) (hf : s.flush.err = false) : s.flush.buf = [] := by
  rcases s with ⟨w, b, l, e⟩
  simp only at he
  subst he
  cases b with
  | nil => simp [BufW.flush]
  | cons x xs =>
    have h := under_err (⟨w, [], l, false⟩ : BufW) (x :: xs) rfl
    have h2 := under_spec (⟨w, [], l, false⟩ : BufW) (x :: xs)
    simp only [BufW.flush, Bool.false_eq_true, ↓reduceIte, List.isEmpty_cons] at hf ⊢
    by_cases hlt : ((⟨w, [], l, false⟩ : BufW).under (x :: xs)).2 < (x :: xs).length
    · rw [h.1 hlt] at hf; exact absurd hf (by simp)
    · have : ((⟨w, [], l, false⟩ : BufW).under (x :: xs)).2 = (x :: xs).length := by
        have := h2.2.2; omega
      rw [this]; simp

/-- `Write` hands over or buffers exactly the accepted prefix, in order. -/
theorem write_conserve (B : Nat) (s : BufW) (p : Bytes) :
    (s.write B p).1.wire ++ (s.write B p).1.buf = s.wire ++ s.buf ++ p.take (s.write B p).2 ∧
    (s.write B p).2 ≤ p.length := by
  unfold BufW.write
  by_cases he : s.err
  · simp [he]
  · have he' : s.err = false := by simpa using he
    rw [if_neg he]
    by_cases h1 : p.length ≤ B - s.buf.length
    · rw [if_pos h1]; simp [List.append_assoc]
    · rw [if_neg h1]
      by_cases h2 : s.buf.isEmpty
      · have hb : s.buf = [] := by simpa using h2
        have h := under_spec s p
        rw [if_pos h2, h.1, h.2.1, hb]; simp [h.2.2]
      · rw [if_neg h2]
        simp only
        generalize hs0 : ({ s with buf := s.buf ++ p.take (B - s.buf.length) } : BufW) = s0
        have hf := flush_conserve s0
        have hs0w : s0.wire = s.wire := by rw [← hs0]
        have hs0b : s0.buf = s.buf ++ p.take (B - s.buf.length) := by rw [← hs0]
        have hs0e : s0.err = false := by rw [← hs0]; exact he'
        rw [hs0w, hs0b] at hf
        have hk : B - s.buf.length ≤ p.length := by omega
        by_cases h3 : s0.flush.err
        · rw [if_pos h3]
          simp only
          rw [hf]; simp [List.append_assoc]; omega
        · rw [if_neg h3]
          have hbe : s0.flush.buf = [] := flush_ok_buf s0 hs0e (by simpa using h3)
          by_cases h4 : (p.drop (B - s.buf.length)).length ≤ B - s0.flush.buf.length
          · rw [if_pos h4]
            simp only
            rw [← List.append_assoc, hf]
            simp [List.append_assoc]
          · rw [if_neg h4]
            have h := under_spec s0.flush (p.drop (B - s.buf.length))
            simp only
            rw [h.1, h.2.1, hbe]
            rw [hbe, List.append_nil] at hf
            rw [hf]
            constructor
            · simp only [List.append_nil, List.append_assoc]
              rw [take_append_take_drop]
            · have := h.2.2; simp at this; omega

theorem write_err_id (B : Nat) (s : BufW) (p : Bytes) (he : s.err = true) : s.write B p = (s, 0) := by
  simp [BufW.write, he]

/-- A short count means the writer is now in its sticky error state. -/
theorem write_short_err (B : Nat) (s : BufW) (p : Bytes) (he : s.err = false)
    (h : (s.write B p).2 < p.length) : (s.write B p).1.err = true := by
  unfold BufW.write at h ⊢
  rw [if_neg (by simp [he])] at h ⊢
  by_cases h1 : p.length ≤ B - s.buf.length
  · rw [if_pos h1] at h; simp at h
  · rw [if_neg h1] at h ⊢
    by_cases h2 : s.buf.isEmpty
    · rw [if_pos h2] at h ⊢
      exact (under_err s p he).1 h
    · rw [if_neg h2] at h ⊢
      simp only at h ⊢
      generalize hs0 : ({ s with buf := s.buf ++ p.take (B - s.buf.length) } : BufW) = s0 at h ⊢
      by_cases h3 : s0.flush.err
      · rw [if_pos h3]; exact h3
      · rw [if_neg h3] at h ⊢
        by_cases h4 : (p.drop (B - s.buf.length)).length ≤ B - s0.flush.buf.length
        · rw [if_pos h4] at h; simp at h
        · rw [if_neg h4] at h ⊢
          simp only at h ⊢
          apply (under_err s0.flush (p.drop (B - s.buf.length)) (by simpa using h3)).1
          simp only [List.length_drop]
          omega

theorem write_nofail (B : Nat) (s : BufW) (p : Bytes) (hl : s.limit = none) (he : s.err = false) :
    (s.write B p).1.limit = none ∧ (s.write B p).1.err = false ∧ (s.write B p).2 = p.length := by
  unfold BufW.write
  rw [if_neg (by simp [he])]
  by_cases h1 : p.length ≤ B - s.buf.length
  · rw [if_pos h1]; exact ⟨hl, he, rfl⟩
  · rw [if_neg h1]
    by_cases h2 : s.buf.isEmpty
    · rw [if_pos h2]
      have h := under_nofail s p hl
      exact ⟨h.1, by rw [h.2.1]; exact he, h.2.2.1⟩
    · rw [if_neg h2]
      simp only
      generalize hs0 : ({ s with buf := s.buf ++ p.take (B - s.buf.length) } : BufW) = s0
      have hf := flush_nofail s0 (by rw [← hs0]; exact hl) (by rw [← hs0]; exact he)
      rw [if_neg (by simp [hf.2.1])]
      by_cases h4 : (p.drop (B - s.buf.length)).length ≤ B - s0.flush.buf.length
      · rw [if_pos h4]; exact ⟨hf.1, hf.2.1, rfl⟩
      · rw [if_neg h4]
        have h := under_nofail s0.flush (p.drop (B - s.buf.length)) hf.1
        refine ⟨h.1, by rw [h.2.1]; exact hf.2.1, ?_⟩
        simp only [h.2.2.1, List.length_drop]
        omega

/-! ### running a program -/

/-- What is being accounted: the header dump, the body dump, or everything the buffered writer
accepted. -/
inductive Acc | hdr | body | all
  deriving DecidableEq

def St.acc (s : St) : Acc → Bytes
  | .hdr => s.dumpH
  | .body => s.dumpB
  | .all => s.accepted

def Acc.sel : Acc → Tag → Bool
  | .hdr, t => t == .hdr
  | .body, t => t == .body
  | .all, _ => true

/-- the bytes of the writes selected by `a`, in program order. -/
def dataOf (a : Acc) : List Op → Bytes
  | [] => []
  | .write d t :: ops => (if a.sel t then d else []) ++ dataOf a ops
  | _ :: ops => dataOf a ops

theorem dataOf_append (a : Acc) (x y : List Op) : dataOf a (x ++ y) = dataOf a x ++ dataOf a y := by
  induction x with
  | nil => rfl
  | cons op ops ih => cases op <;> simp [dataOf, ih, List.append_assoc]

theorem step_write_acc (B : Nat) (s : St) (d : Bytes) (t : Tag) (a : Acc) :
    (step B s (.write d t)).acc a = s.acc a ++ (if a.sel t then d.take (s.w.write B d).2 else []) := by
  cases a <;> cases t <;> simp [step, St.acc, Acc.sel]

theorem step_other_acc (B : Nat) (s : St) (op : Op) (a : Acc) (h : ∀ d t, op ≠ .write d t) :
    (step B s op).acc a = s.acc a := by
  cases op with
  | write d t => exact absurd rfl (h d t)
  | flush => cases a <;> rfl
  | flushIfFull => cases a <;> simp only [step] <;> split <;> rfl
  | read => cases a <;> rfl

theorem step_err_sticky (B : Nat) (s : St) (op : Op) (he : s.w.err = true) :
    (step B s op).w = s.w := by
  cases op with
  | write d t => simp [step, write_err_id B s.w d he]
  | flush => simp [step, flush_err_id s.w he]
  | flushIfFull => simp only [step]; split <;> simp [flush_err_id s.w he]
  | read => rfl

theorem run_err_sticky (B : Nat) (ops : List Op) : ∀ s : St, s.w.err = true → (run B s ops).w = s.w := by
  induction ops with
  | nil => intro s _; rfl
  | cons op ops ih =>
    intro s he
    have h1 := step_err_sticky B s op he
    show (run B (step B s op) ops).w = s.w
    rw [ih (step B s op) (by rw [h1]; exact he), h1]

theorem run_cons (B : Nat) (s : St) (op : Op) (ops : List Op) :
    run B s (op :: ops) = run B (step B s op) ops := rfl

theorem run_append (B : Nat) (s : St) (x y : List Op) : run B s (x ++ y) = run B (run B s x) y := by
  simp [run, List.foldl_append]

/-- Conservation: whatever the buffered writer accepted is on the wire or in the buffer, in
order — for every program, buffer size and failure point. -/
theorem run_conserve (B : Nat) (ops : List Op) :
    ∀ s : St, s.w.wire ++ s.w.buf = s.accepted →
      (run B s ops).w.wire ++ (run B s ops).w.buf = (run B s ops).accepted := by
  induction ops with
  | nil => intro s h; exact h
  | cons op ops ih =>
    intro s h
    rw [run_cons]
    apply ih
    cases op with
    | write d t =>
      have hc := (write_conserve B s.w d).1
      simp only [step]
      rw [hc, h]
    | flush => simp only [step]; rw [flush_conserve, h]
    | flushIfFull => simp only [step]; split
                     · simp only; rw [flush_conserve, h]
                     · exact h
    | read => exact h

/-- Exactness of the accounting under failure: each account (header dump, body dump, accepted
bytes) grows by a PREFIX of the bytes the program writes for it — nothing is claimed twice or
out of order, nothing after the writer failed — and by all of them if the writer has not failed
at the end. -/
theorem run_acc_prefix (B : Nat) (a : Acc) (ops : List Op) :
    ∀ s : St, ∃ x, (run B s ops).acc a = s.acc a ++ x ∧ x <+: dataOf a ops ∧
      (s.w.err = true → x = []) ∧ ((run B s ops).w.err = false → x = dataOf a ops) := by
  induction ops with
  | nil => intro s; exact ⟨[], by simp [run], by simp [dataOf], fun _ => rfl, fun _ => rfl⟩
  | cons op ops ih =>
    intro s
    obtain ⟨x', h1, h2, h3, h4⟩ := ih (step B s op)
    rw [run_cons]
    by_cases hw : ∃ d t, op = .write d t
    · obtain ⟨d, t, rfl⟩ := hw
      by_cases he : s.w.err = true
      · -- nothing more is accepted
        have hst : (step B s (.write d t)).w = s.w := step_err_sticky B s _ he
        have hx' : x' = [] := h3 (by rw [hst]; exact he)
        refine ⟨[], ?_, List.nil_prefix, fun _ => rfl, ?_⟩
        · rw [h1, hx', step_write_acc, write_err_id B s.w d he]; simp
        · intro hfin
          have := run_err_sticky B ops (step B s (.write d t)) (by rw [hst]; exact he)
          rw [this, hst, he] at hfin; exact absurd hfin (by simp)
      · have he' : s.w.err = false := by simpa using he
        by_cases hs : a.sel t
        · refine ⟨d.take (s.w.write B d).2 ++ x', ?_, ?_, fun h => absurd h he, ?_⟩
          · rw [h1, step_write_acc]; simp [hs, List.append_assoc]
          · simp only [dataOf, hs, ↓reduceIte]
            by_cases hfull : (s.w.write B d).2 = d.length
            · rw [hfull, List.take_length]
              exact (List.prefix_append_right_inj d).mpr h2
            · have hlt : (s.w.write B d).2 < d.length := by
                have := (write_conserve B s.w d).2; omega
              have herr := write_short_err B s.w d he' hlt
              have hx' : x' = [] := h3 (by simpa [step] using herr)
              rw [hx', List.append_nil]
              exact List.IsPrefix.trans (List.take_prefix _ _) (List.prefix_append _ _)
          · intro hfin
            have hx := h4 hfin
            have hfull : (s.w.write B d).2 = d.length := by
              by_cases hlt : (s.w.write B d).2 < d.length
              · have herr := write_short_err B s.w d he' hlt
                have := run_err_sticky B ops (step B s (.write d t)) (by simpa [step] using herr)
                rw [this] at hfin
                simp only [step] at hfin
                rw [herr] at hfin; exact absurd hfin (by simp)
              · have := (write_conserve B s.w d).2; omega
            simp only [dataOf, hs, ↓reduceIte]
            rw [hfull, List.take_length, hx]
        · refine ⟨x', ?_, ?_, ?_, ?_⟩
          · rw [h1, step_write_acc]; simp [hs]
          · simpa [dataOf, hs] using h2
          · intro h; exact absurd h he
          · intro hfin; simpa [dataOf, hs] using h4 hfin
    · have hnw : ∀ d t, op ≠ .write d t := fun d t h => hw ⟨d, t, h⟩
      have hd : dataOf a (op :: ops) = dataOf a ops := by
        cases op with
        | write d t => exact absurd rfl (hnw d t)
        | _ => rfl
      refine ⟨x', ?_, ?_, ?_, ?_⟩
      · rw [h1, step_other_acc B s op a hnw]
      · rw [hd]; exact h2
      · intro he; exact h3 (by rw [step_err_sticky B s op he]; exact he)
      · intro hfin; rw [hd]; exact h4 hfin

theorem step_nofail (B : Nat) (s : St) (op : Op) (hl : s.w.limit = none) (he : s.w.err = false) :
    (step B s op).w.limit = none ∧ (step B s op).w.err = false := by
  cases op with
  | write d t => have h := write_nofail B s.w d hl he; exact ⟨h.1, h.2.1⟩
  | flush => have h := flush_nofail s.w hl he; exact ⟨h.1, h.2.1⟩
  | flushIfFull =>
    simp only [step]; split
    · have h := flush_nofail s.w hl he; exact ⟨h.1, h.2.1⟩
    · exact ⟨hl, he⟩
  | read => exact ⟨hl, he⟩

/-- A wire that never fails never puts the buffered writer into its error state. -/
theorem run_nofail (B : Nat) (ops : List Op) : ∀ s : St, s.w.limit = none → s.w.err = false →
    (run B s ops).w.limit = none ∧ (run B s ops).w.err = false := by
  induction ops with
  | nil => intro s hl he; exact ⟨hl, he⟩
  | cons op ops ih =>
    intro s hl he
    have h := step_nofail B s op hl he
    exact ih (step B s op) h.1 h.2

end Req.H1.DumpWrite
