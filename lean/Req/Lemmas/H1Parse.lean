import Req.H1.Origin
import Req.Lemmas.Query
/-! Lemmas relating the independent origin `Req.H1.Origin` to the writer's output
(helpers for Props/C01 `h1_fidelity`). -/
namespace Req.H1.Origin
open Req.Proto Req.Ascii Req.BStr Req.H1

/-! ### lines -/

theorem readLine_append (l rest cur : Bytes) (h : ∀ b ∈ l, b ≠ 13) :
    readLine (l ++ 13 :: 10 :: rest) cur = some (cur.reverse ++ l, rest) := by
  induction l generalizing cur with
  | nil => simp [readLine]
  | cons c l ih =>
    have hc : (c == 13) = false := by simpa using h c (by simp)
    simp only [List.cons_append, readLine, hc, Bool.false_eq_true, if_false]
    rw [ih _ (fun b hb => h b (by simp [hb]))]
    simp

theorem trimOWS_sp (v : Bytes) : trimOWS (32 :: v) = trimOWS v := by
  simp [trimOWS, trimOWSLeft, isOWS]

theorem parseFieldLine_render (k v : Bytes) (hk : k ≠ []) (hc : ∀ b ∈ k, b ≠ 58) :
    parseFieldLine (k ++ [58, 32] ++ v) = some (k, trimOWS v) := by
  unfold parseFieldLine
  have : k ++ [58, 32] ++ v = k ++ 58 :: (32 :: v) := by simp
  rw [this, Req.Query.cut_append 58 k (32 :: v) hc]
  simp only
  have : k.isEmpty = false := by cases k <;> simp_all
  simp [this, trimOWS_sp]

theorem parseHeaders_line (l more cur : Bytes) (acc : List (Bytes × Bytes))
    (h : ∀ b ∈ l, b ≠ 13) :
    parseHeaders (l ++ 13 :: 10 :: more) cur acc =
      if (cur.reverse ++ l).isEmpty then some (acc.reverse, more)
      else
        match parseFieldLine (cur.reverse ++ l) with
        | some f => parseHeaders more [] (f :: acc)
        | none => none := by
  induction l generalizing cur with
  | nil =>
    simp only [List.nil_append, List.append_nil]
    rw [parseHeaders.eq_def]
    simp only [beq_self_eq_true, if_true, List.isEmpty_reverse]
    rfl
  | cons c l ih =>
    have hc : (c == 13) = false := by simpa using h c (by simp)
    simp only [List.cons_append]
    rw [parseHeaders.eq_def]
    simp only [hc, Bool.false_eq_true, if_false]
    rw [ih _ (fun b hb => h b (by simp [hb]))]
    simp

/-- a header line the writer may emit: non-empty name without `:` / CR, value without CR. -/
def LineOK (l : Bytes × Bytes) : Prop :=
  l.1 ≠ [] ∧ (∀ b ∈ l.1, b ≠ 58 ∧ b ≠ 13) ∧ (∀ b ∈ l.2, b ≠ 13)

def trimmed (l : Bytes × Bytes) : Bytes × Bytes := (l.1, trimOWS l.2)

theorem parseHeaders_render (ls : List (Bytes × Bytes)) (rest : Bytes)
    (acc : List (Bytes × Bytes)) (h : ∀ l ∈ ls, LineOK l) :
    parseHeaders (renderLines ls ++ crlf ++ rest) [] acc =
      some (acc.reverse ++ ls.map trimmed, rest) := by
  induction ls generalizing acc with
  | nil =>
    simp only [renderLines, List.flatMap_nil, List.nil_append, crlf, List.cons_append, List.map_nil,
      List.append_nil]
    have := parseHeaders_line [] rest [] acc (by simp)
    simpa using this
  | cons l ls ih =>
    obtain ⟨hk, hkc, hv⟩ := h l (by simp)
    have e : renderLines (l :: ls) ++ crlf ++ rest =
        (l.1 ++ [58, 32] ++ l.2) ++ 13 :: 10 :: (renderLines ls ++ crlf ++ rest) := by
      simp [renderLines, renderLine, crlf, List.append_assoc]
    rw [e, parseHeaders_line _ _ _ _ (by
      intro b hb
      simp only [List.mem_append, List.mem_cons, List.not_mem_nil, or_false] at hb
      rcases hb with (hb | hb | hb) | hb
      · exact (hkc b hb).2
      · rw [hb]; decide
      · rw [hb]; decide
      · exact hv b hb)]
    have hne : ([].reverse ++ (l.1 ++ [58, 32] ++ l.2)).isEmpty = false := by
      cases hl : l.1 with
      | nil => exact absurd hl hk
      | cons a as => simp
    simp only [List.reverse_nil, List.nil_append] at hne ⊢
    simp only [hne, Bool.false_eq_true, if_false]
    rw [parseFieldLine_render l.1 l.2 hk (fun b hb => (hkc b hb).1)]
    simp only
    rw [ih _ (fun l' hl' => h l' (by simp [hl']))]
    simp [trimmed]

/-! ### request line -/

theorem parseRequestLine_render (m t : Bytes) (hm : m ≠ []) (ht : t ≠ [])
    (hms : ∀ b ∈ m, b ≠ 32) (hts : ∀ b ∈ t, b ≠ 32) :
    parseRequestLine (m ++ [32] ++ t ++ [32] ++ sHTTP11) = some (m, t) := by
  unfold parseRequestLine
  have e : m ++ [32] ++ t ++ [32] ++ sHTTP11 = m ++ 32 :: (t ++ 32 :: sHTTP11) := by simp
  rw [e, Req.Query.cut_append 32 m _ hms]
  simp only
  rw [Req.Query.cut_append 32 t _ hts]
  have h1 : m.isEmpty = false := by cases m <;> simp_all
  have h2 : t.isEmpty = false := by cases t <;> simp_all
  simp [h1, h2]

/-! ### numbers -/

/-- value of a digit list, least significant first -/
def valRev (base : Nat) (ds : List Nat) : Nat := ds.foldr (fun d a => a * base + d) 0

theorem digitsRev_spec (base : Nat) (hb : 2 ≤ base) :
    ∀ (fuel n : Nat), n < fuel →
      valRev base (digitsRev base fuel n) = n ∧ (∀ d ∈ digitsRev base fuel n, d < base) ∧
        digitsRev base fuel n ≠ [] := by
  intro fuel
  induction fuel with
  | zero => intro n h; omega
  | succ f ih =>
    intro n hn
    unfold digitsRev
    split
    next hlt => simp [valRev, hlt]
    next hge =>
      have hge' : base ≤ n := Nat.le_of_not_lt hge
      have hdiv : n / base < f := by
        have h1 : n / base < n := Nat.div_lt_self (by omega) (by omega)
        omega
      obtain ⟨hv, hd, _⟩ := ih (n / base) hdiv
      refine ⟨?_, ?_, by simp⟩
      · simp only [valRev, List.foldr_cons] at hv ⊢
        rw [hv]
        exact Nat.div_add_mod' n base
      · intro d hd'
        simp only [List.mem_cons] at hd'
        rcases hd' with rfl | hd'
        · exact Nat.mod_lt _ (by omega)
        · exact hd d hd'

theorem parseBaseAux_digits (val : UInt8 → Option Nat) (base : Nat)
    (hval : ∀ d, d < base → val (digitChar d) = some d) :
    ∀ (ms : List Nat) (acc : Nat), (∀ d ∈ ms, d < base) →
      parseBaseAux val base acc (ms.map digitChar) = some (ms.foldl (fun a d => a * base + d) acc) := by
  intro ms
  induction ms with
  | nil => intro acc _; rfl
  | cons d ms ih =>
    intro acc h
    simp only [List.map_cons, parseBaseAux, hval d (h d (by simp)), List.foldl_cons]
    exact ih _ (fun d' hd' => h d' (by simp [hd']))

theorem parseBase_render (val : UInt8 → Option Nat) (base : Nat) (hb : 2 ≤ base)
    (hval : ∀ d, d < base → val (digitChar d) = some d) (n : Nat) :
    parseBaseAux val base 0 (((digitsRev base (n + 1) n).map digitChar).reverse) = some n ∧
      ((digitsRev base (n + 1) n).map digitChar).reverse ≠ [] := by
  obtain ⟨hv, hd, hne⟩ := digitsRev_spec base hb (n + 1) n (by omega)
  constructor
  · rw [← List.map_reverse, parseBaseAux_digits val base hval _ 0 (by
      intro d hd'; exact hd d (List.mem_reverse.mp hd'))]
    rw [List.foldl_reverse]
    exact congrArg some hv
  · simpa using hne

set_option maxRecDepth 10000 in
theorem decVal_digitChar : ∀ d, d < 10 → decVal (digitChar d) = some d := by decide

set_option maxRecDepth 10000 in
theorem hexVal_digitChar : ∀ d, d < 16 → hexVal (digitChar d) = some d := by decide

theorem parseDec_natToDec (n : Nat) : parseDec (natToDec n) = some n := by
  obtain ⟨h1, h2⟩ := parseBase_render decVal 10 (by omega) decVal_digitChar n
  unfold parseDec natToDec
  have : (((digitsRev 10 (n + 1) n).map digitChar).reverse).isEmpty = false := by
    cases h : ((digitsRev 10 (n + 1) n).map digitChar).reverse with
    | nil => exact absurd h h2
    | cons _ _ => rfl
  rw [this]
  exact h1

theorem parseHex_natToHex (n : Nat) : parseHex (natToHex n) = some n := by
  obtain ⟨h1, h2⟩ := parseBase_render hexVal 16 (by omega) hexVal_digitChar n
  unfold parseHex natToHex
  have : (((digitsRev 16 (n + 1) n).map digitChar).reverse).isEmpty = false := by
    cases h : ((digitsRev 16 (n + 1) n).map digitChar).reverse with
    | nil => exact absurd h h2
    | cons _ _ => rfl
  rw [this]
  exact h1

set_option maxRecDepth 10000 in
theorem digitChar_ne_cr : ∀ d, d < 16 → digitChar d ≠ 13 := by decide

theorem natToHex_no_cr (n : Nat) : ∀ b ∈ natToHex n, b ≠ 13 := by
  intro b hb
  unfold natToHex at hb
  simp only [List.mem_reverse, List.mem_map] at hb
  obtain ⟨d, hd, rfl⟩ := hb
  exact digitChar_ne_cr d ((digitsRev_spec 16 (by omega) (n + 1) n (by omega)).2.1 d hd)

theorem natToDec_no_cr (n : Nat) : ∀ b ∈ natToDec n, b ≠ 13 := by
  intro b hb
  unfold natToDec at hb
  simp only [List.mem_reverse, List.mem_map] at hb
  obtain ⟨d, hd, rfl⟩ := hb
  exact digitChar_ne_cr d (Nat.lt_trans ((digitsRev_spec 10 (by omega) (n + 1) n (by omega)).2.1 d hd) (by omega))

/-! ### chunked bodies -/

theorem splitReads_spec (reads : List Nat) :
    ∀ b : Bytes, (splitReads b reads).flatten = b ∧ ∀ p ∈ splitReads b reads, p ≠ [] := by
  induction reads with
  | nil =>
    intro b
    unfold splitReads
    split
    next h => have : b = [] := by simpa using h
              subst this; simp
    next h => have : b ≠ [] := by simpa using h
              simp [this]
  | cons n ns ih =>
    intro b
    unfold splitReads
    split
    next h => have : b = [] := by simpa using h
              subst this; simp
    next h =>
      have hb : b ≠ [] := by simpa using h
      split
      next => exact ih b
      next hn =>
        have hn' : n ≠ 0 := by simpa using hn
        obtain ⟨h1, h2⟩ := ih (b.drop n)
        refine ⟨by simp [h1], ?_⟩
        intro p hp
        simp only [List.mem_cons] at hp
        rcases hp with rfl | hp
        · cases b with
          | nil => exact absurd rfl hb
          | cons x xs =>
            cases n with
            | zero => exact absurd rfl hn'
            | succ k => simp
        · exact h2 p hp

theorem chunk_length_pos (p : Bytes) : 1 ≤ (chunk p).length := by
  simp [chunk, crlf]; omega

theorem flatMap_chunk_length (ps : List Bytes) : ps.length ≤ (ps.flatMap chunk).length := by
  induction ps with
  | nil => simp
  | cons p ps ih =>
    simp only [List.flatMap_cons, List.length_append, List.length_cons]
    have := chunk_length_pos p
    omega

theorem parseHex_zero : parseHex [48] = some 0 := by decide

/-- the origin's chunk reader undoes the writer's chunked encoding, whatever follows. -/
theorem readChunks_render (ps : List Bytes) (rest : Bytes) (hne : ∀ p ∈ ps, p ≠ []) :
    ∀ fuel, ps.length + 1 ≤ fuel →
      readChunks fuel (ps.flatMap chunk ++ [48, 13, 10] ++ crlf ++ rest) = some (ps.flatten, rest) := by
  induction ps with
  | nil =>
    intro fuel hf
    cases fuel with
    | zero => omega
    | succ f =>
      have e : ([] : List Bytes).flatMap chunk ++ [48, 13, 10] ++ crlf ++ rest =
          [48] ++ 13 :: 10 :: (13 :: 10 :: rest) := by simp [crlf]
      rw [e, readChunks, readLine_append [48] _ [] (by decide)]
      simp [parseHex_zero]
  | cons p ps ih =>
    intro fuel hf
    cases fuel with
    | zero => omega
    | succ f =>
      have hp : p ≠ [] := hne p (by simp)
      have e : (p :: ps).flatMap chunk ++ [48, 13, 10] ++ crlf ++ rest =
          natToHex p.length ++ 13 :: 10 ::
            (p ++ 13 :: 10 :: (ps.flatMap chunk ++ [48, 13, 10] ++ crlf ++ rest)) := by
        simp [chunk, crlf, List.append_assoc]
      rw [e, readChunks, readLine_append _ _ [] (natToHex_no_cr _)]
      simp only [List.reverse_nil, List.nil_append, parseHex_natToHex]
      have hlen : (p.length == 0) = false := by
        cases p with
        | nil => exact absurd rfl hp
        | cons _ _ => simp
      simp only [hlen, Bool.false_eq_true, if_false]
      have hlt : ¬ (p ++ 13 :: 10 :: (ps.flatMap chunk ++ [48, 13, 10] ++ crlf ++ rest)).length < p.length := by
        simp only [List.length_append]; omega
      simp only [hlt, if_false, List.drop_left, List.take_left]
      simp only [beq_self_eq_true, Bool.and_self, if_true]
      rw [ih (fun q hq => hne q (by simp [hq])) f (by simp at hf ⊢; omega)]
      simp

theorem decodeBody_chunked (body : Bytes) (reads : List Nat) (rest : Bytes) :
    decodeBody .chunked (chunkedBody body reads ++ rest) = some (body, rest) := by
  unfold decodeBody chunkedBody
  obtain ⟨h1, h2⟩ := splitReads_spec reads body
  have e : (splitReads body reads).flatMap chunk ++ [48, 13, 10] ++ crlf ++ rest =
      (splitReads body reads).flatMap chunk ++ [48, 13, 10] ++ crlf ++ rest := rfl
  rw [List.append_assoc ((splitReads body reads).flatMap chunk ++ [48, 13, 10]) crlf rest]
  rw [← List.append_assoc, readChunks_render _ rest h2, h1]
  have := flatMap_chunk_length (splitReads body reads)
  simp only [List.length_append]
  omega

theorem decodeBody_length (body rest : Bytes) :
    decodeBody (.length body.length) (body ++ rest) = some (body, rest) := by
  simp [decodeBody]

end Req.H1.Origin
