import Req.C02.ReadLine
import Req.Lemmas.C02BufioLine
/-! `ReadSlice` on a line that does not fit the buffer, and the accumulation loop of
`textprotoReader.readLineSlice` over it (put-back of a CR on the last byte of a full buffer). -/
namespace Req.C02
open Req.Proto

/-- A trailing CR removed. -/
def stripCR (x : Bytes) : Bytes := if x.getLast? = some 13 then x.dropLast else x

theorem dropLast_append_last (l : Bytes) (a : UInt8) (h : l.getLast? = some a) : l.dropLast ++ [a] = l := by
  obtain ⟨ys, rfl⟩ := List.getLast?_eq_some_iff.mp h
  simp

theorem getLast?_append_ne (acc l : Bytes) (h : l ≠ []) : (acc ++ l).getLast? = l.getLast? := by
  rw [List.getLast?_append]
  cases hl : l.getLast? with
  | none => exact absurd (List.getLast?_eq_none_iff.mp hl) h
  | some a => rfl

theorem stripEOL_line (l : Bytes) : stripEOL (l ++ [10]) = stripCR l := by
  simp [stripEOL, stripCR]

theorem stripCR_append (acc l : Bytes) (h : l = [] → acc.getLast? ≠ some 13) :
    acc ++ stripCR l = stripCR (acc ++ l) := by
  cases hl : l with
  | nil =>
    have := h hl
    simp [stripCR, this]
  | cons x xs =>
    have hne : x :: xs ≠ [] := by simp
    simp only [stripCR, getLast?_append_ne _ _ hne]
    split
    · rw [List.dropLast_append_of_ne_nil hne]
    · rfl

/-- `ReadSlice('\n')` when the next `cap` bytes hold no newline: the whole buffer is handed out
with `ErrBufferFull`, however the connection segments it. -/
theorem Bufio.readSlice_full (fuel : Nat) (b : Bufio) (P Q : Bytes) (hw : b.WF) (hf : b.Fits)
    (hrem : b.rem = P ++ Q) (hno : (10 : UInt8) ∉ P) (hP : P.length = b.cap) (hQ : Q ≠ [])
    (hfuel : b.cap + 1 ≤ fuel + b.buf.length) (hfuel0 : 0 < fuel) :
    ∃ b', b.readSlice fuel 10 = ((P, some .bufferFull), b') ∧ b'.buf = [] ∧ b'.rem = Q ∧ b'.WF ∧
      b'.cap = b.cap ∧ b'.net.fin = b.net.fin := by
  induction fuel generalizing b with
  | zero => omega
  | succ fuel ih =>
    unfold Bufio.readSlice
    have hsplit : b.buf ++ b.net.segs.flatten = P ++ Q := hrem
    have hbl : b.buf.length ≤ P.length := by rw [hP]; exact hf
    obtain ⟨t, hPt, hseg⟩ : ∃ t, P = b.buf ++ t ∧ b.net.segs.flatten = t ++ Q := by
      rcases List.append_eq_append_iff.mp hsplit with ⟨a', hl, hfl⟩ | ⟨c', hb, hR⟩
      · exact ⟨a', hl, hfl⟩
      · have : c' = [] := by
          have h1 : b.buf.length = P.length + c'.length := by rw [hb]; simp
          exact List.eq_nil_of_length_eq_zero (by omega)
        subst this
        exact ⟨[], by simpa using hb.symm, by simpa using hR.symm⟩
    have hnobuf : (10 : UInt8) ∉ b.buf := by
      intro h; apply hno; rw [hPt]; exact List.mem_append_left _ h
    rw [indexOf_not_mem _ _ hnobuf]
    have hmore : b.net.segs.flatten ≠ [] := by rw [hseg]; simp [hQ]
    have herr : b.err = none := by
      cases he : b.err with
      | none => rfl
      | some e => exact absurd (hw e he).1 hmore
    simp only [herr]
    by_cases hfull : b.buf.length ≥ b.cap
    · simp only [hfull, if_true]
      have ht : t = [] := by
        have h1 : P.length = b.buf.length + t.length := by rw [hPt]; simp
        exact List.eq_nil_of_length_eq_zero (by omega)
      subst ht
      simp only [List.append_nil] at hPt
      simp only [List.nil_append] at hseg
      refine ⟨{ b with buf := [] }, by rw [hPt, herr], rfl, by simp [Bufio.rem, hseg], ?_, rfl, rfl⟩
      intro e he; exact hw e he
    · simp only [hfull, if_false]
      obtain ⟨d, hd, hbuf', hrem', hw', hf', hcap', _, hfin'⟩ := Bufio.fill_spec b hw hf (by omega) hmore herr
      have hdl : 0 < d.length := List.length_pos_iff.mpr hd
      obtain ⟨b', h1, h2, h3, h4, h5, h6⟩ := ih b.fill hw' hf' (by rw [hrem', hrem]) (by rw [hcap']; exact hP)
        (by rw [hbuf', List.length_append, hcap']; omega) (by omega)
      exact ⟨b', h1, h2, h3, h4, by rw [h5, hcap'], by rw [h6, hfin']⟩

/-- The accumulation loop of `readLineSlice` on a line of ANY length: the pieces `readLine`
hands out (full buffers, a CR on the last byte of a full buffer put back) add up to exactly the
line, the line end removed; the reader stands exactly behind the line feed. -/
theorem Bufio.readLineSlice_spec : ∀ (fuel : Nat) (acc l R : Bytes) (b : Bufio), b.WF → b.Fits →
    2 ≤ b.cap → b.rem = l ++ 10 :: R → (10 : UInt8) ∉ l → (l = [] → acc.getLast? ≠ some 13) →
    l.length < fuel →
    ∃ b', b.readLineSlice fuel acc = ((some (stripCR (acc ++ l)), none), b') ∧ b'.rem = R ∧ b'.WF ∧
      b'.Fits ∧ b'.cap = b.cap ∧ b'.net.fin = b.net.fin := by
  intro fuel
  induction fuel with
  | zero => intro acc l R b _ _ _ _ _ _ h; omega
  | succ fuel ih =>
    intro acc l R b hw hf hcap hrem hno hinv hfuel
    unfold Bufio.readLineSlice
    by_cases hfit : l.length + 1 ≤ b.cap
    · -- the rest of the line fits the buffer: the last piece
      obtain ⟨b', h1, h2, h3, h4, h5, h6⟩ := Bufio.readSlice_line (b.cap + 2) b l R hw hf hrem hno hfit
        (by omega) (by omega)
      have hrl : b.readLine (b.cap + 2) = ((stripCR l, false, none), b') := by
        unfold Bufio.readLine
        rw [h1]
        simp [stripEOL_line]
      rw [hrl]
      simp only [Bool.false_eq_true, if_false]
      exact ⟨b', by rw [stripCR_append acc l hinv], h2, h3, h4, h5, h6⟩
    · -- a full buffer without a line feed: a prefix piece
      have hlen : b.cap ≤ l.length := by omega
      have hPlen : (l.take b.cap).length = b.cap := by rw [List.length_take]; omega
      have hsplit : l ++ 10 :: R = l.take b.cap ++ (l.drop b.cap ++ 10 :: R) := by
        rw [← List.append_assoc, List.take_append_drop]
      have hnoP : (10 : UInt8) ∉ l.take b.cap := fun h => hno (List.mem_of_mem_take h)
      have hnoD : (10 : UInt8) ∉ l.drop b.cap := fun h => hno (List.mem_of_mem_drop h)
      obtain ⟨b', h1, h2, h3, h4, h5, h6⟩ := Bufio.readSlice_full (b.cap + 2) b (l.take b.cap)
        (l.drop b.cap ++ 10 :: R) hw hf (by rw [hrem, hsplit]) hnoP hPlen (by simp) (by omega) (by omega)
      have hPne : l.take b.cap ≠ [] := by
        intro h; rw [h] at hPlen; simp at hPlen; omega
      by_cases hcr : (l.take b.cap).getLast? = some 13
      · -- the CR is put back
        have hrl : b.readLine (b.cap + 2) = (((l.take b.cap).dropLast, true, none), { b' with buf := [13] }) := by
          unfold Bufio.readLine
          rw [h1]
          simp [hcr]
        rw [hrl]
        simp only [if_true]
        have hPd : (l.take b.cap).dropLast ++ [13] = l.take b.cap :=
          dropLast_append_last _ 13 hcr
        have hrem2 : ({ b' with buf := [13] } : Bufio).rem = (13 :: l.drop b.cap) ++ 10 :: R := by
          have : b'.net.segs.flatten = l.drop b.cap ++ 10 :: R := by
            have := h3; simp only [Bufio.rem, h2, List.nil_append] at this; exact this
          simp [Bufio.rem, this]
        have hno2 : (10 : UInt8) ∉ 13 :: l.drop b.cap := by
          intro h
          rcases List.mem_cons.mp h with h | h
          · cases h
          · exact hnoD h
        obtain ⟨b'', g1, g2, g3, g4, g5, g6⟩ := ih (acc ++ (l.take b.cap).dropLast) (13 :: l.drop b.cap) R
          { b' with buf := [13] } (by intro e he; exact h4 e he) (by show 1 ≤ b'.cap; omega)
          (by show 2 ≤ b'.cap; omega) hrem2 hno2 (by intro h; cases h)
          (by simp only [List.length_cons, List.length_drop]; omega)
        refine ⟨b'', ?_, g2, g3, g4, by rw [g5]; exact h5, by rw [g6]; exact h6⟩
        rw [g1]
        have : acc ++ (l.take b.cap).dropLast ++ 13 :: l.drop b.cap = acc ++ l := by
          rw [List.append_assoc]
          congr 1
          have : (l.take b.cap).dropLast ++ 13 :: l.drop b.cap = ((l.take b.cap).dropLast ++ [13]) ++ l.drop b.cap := by simp
          rw [this, hPd, List.take_append_drop]
        rw [this]
      · have hrl : b.readLine (b.cap + 2) = ((l.take b.cap, true, none), b') := by
          unfold Bufio.readLine
          rw [h1]
          simp [hcr]
        rw [hrl]
        simp only [if_true]
        have hFits : b'.Fits := by unfold Bufio.Fits; rw [h2]; simp
        obtain ⟨b'', g1, g2, g3, g4, g5, g6⟩ := ih (acc ++ l.take b.cap) (l.drop b.cap) R b' h4 hFits
          (by omega) h3 hnoD
          (by intro _; rw [getLast?_append_ne _ _ hPne]; exact hcr)
          (by rw [List.length_drop]; omega)
        refine ⟨b'', ?_, g2, g3, g4, by rw [g5]; exact h5, by rw [g6]; exact h6⟩
        rw [g1, List.append_assoc, List.take_append_drop]

end Req.C02
