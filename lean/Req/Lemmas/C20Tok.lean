import Req.Client.DigestAuth
import Req.Lemmas.C20Parse
/-!
Helper lemmas for C20 `parse_faithful` (repaired code): the tokenizer of `parseChallenge` reads
every `WWW-Authenticate` value written according to RFC 7235 section 4.1 (`1#challenge`,
`challenge = auth-scheme [ 1*SP ( token68 / #auth-param ) ]`,
`auth-param = token BWS "=" BWS ( token / quoted-string )`, quoted-string with quoted-pairs,
OWS around the commas, empty list elements) as the list of elements it was written from.

Part 1 (this file): the written form (`ElemW`, `Elem`), `splitList` on a rendered list,
`stepElem` on a rendered element.
-/
namespace Req.DigestAuth
open Req.Proto Req.Ascii Req.Digest

/-! ### scanning: the state of `splitList` after a piece without top-level comma -/

def scan : Bool → Bool → Bytes → Option (Bool × Bool)
  | q, e, [] => some (q, e)
  | q, e, c :: cs =>
    if e then scan q false cs
    else if q && c == 92 then scan q true cs
    else if c == 34 then scan (!q) false cs
    else if c == 44 && !q then none
    else scan q false cs

theorem scan_cons (q e : Bool) (c : UInt8) (cs : Bytes) :
    scan q e (c :: cs) =
      if e then scan q false cs
      else if q && c == 92 then scan q true cs
      else if c == 34 then scan (!q) false cs
      else if c == 44 && !q then none
      else scan q false cs := rfl

theorem splitListAux_cons (q e : Bool) (c : UInt8) (cs : Bytes) :
    splitListAux q e (c :: cs) =
      if e then (c :: (splitListAux q false cs).1, (splitListAux q false cs).2)
      else if q && c == 92 then (c :: (splitListAux q true cs).1, (splitListAux q true cs).2)
      else if c == 34 then (c :: (splitListAux (!q) false cs).1, (splitListAux (!q) false cs).2)
      else if c == 44 && !q then ([], (splitListAux q false cs).1 :: (splitListAux q false cs).2)
      else (c :: (splitListAux q false cs).1, (splitListAux q false cs).2) := rfl

theorem splitListAux_append : ∀ (x y : Bytes) (q e q' e' : Bool), scan q e x = some (q', e') →
    splitListAux q e (x ++ y) = (x ++ (splitListAux q' e' y).1, (splitListAux q' e' y).2) := by
  intro x
  induction x with
  | nil =>
    intro y q e q' e' h
    simp only [scan, Option.some.injEq, Prod.mk.injEq] at h
    obtain ⟨rfl, rfl⟩ := h
    rfl
  | cons c cs ih =>
    intro y q e q' e' h
    rw [scan_cons] at h
    simp only [List.cons_append]
    rw [splitListAux_cons]
    by_cases h1 : e = true
    · simp only [h1, if_true] at h ⊢
      rw [ih y q false q' e' h]
    · simp only [h1, Bool.false_eq_true, if_false] at h ⊢
      by_cases h2 : (q && c == 92) = true
      · simp only [h2, if_true] at h ⊢
        rw [ih y q true q' e' h]
      · simp only [h2, Bool.false_eq_true, if_false] at h ⊢
        by_cases h3 : (c == 34) = true
        · simp only [h3, if_true] at h ⊢
          rw [ih y (!q) false q' e' h]
        · simp only [h3, Bool.false_eq_true, if_false] at h ⊢
          by_cases h4 : (c == 44 && !q) = true
          · simp only [h4, if_true] at h
            cases h
          · simp only [h4, Bool.false_eq_true, if_false] at h ⊢
            rw [ih y q false q' e' h]

theorem scan_append : ∀ (x y : Bytes) (q e : Bool),
    scan q e (x ++ y) = (scan q e x).bind fun s => scan s.1 s.2 y := by
  intro x
  induction x with
  | nil => intro y q e; rfl
  | cons c cs ih =>
    intro y q e
    simp only [List.cons_append]
    rw [scan_cons, scan_cons]
    by_cases h1 : e = true
    · simp only [h1, if_true]; exact ih y q false
    · simp only [h1, Bool.false_eq_true, if_false]
      by_cases h2 : (q && c == 92) = true
      · simp only [h2, if_true]; exact ih y q true
      · simp only [h2, Bool.false_eq_true, if_false]
        by_cases h3 : (c == 34) = true
        · simp only [h3, if_true]; exact ih y (!q) false
        · simp only [h3, Bool.false_eq_true, if_false]
          by_cases h4 : (c == 44 && !q) = true
          · simp only [h4, if_true]; rfl
          · simp only [h4, Bool.false_eq_true, if_false]; exact ih y q false

/-- outside a quoted-string, bytes other than `"` and `,` leave the state alone -/
theorem scan_plain : ∀ x : Bytes, (∀ c ∈ x, c ≠ 34 ∧ c ≠ 44) → scan false false x = some (false, false) := by
  intro x
  induction x with
  | nil => intro _; rfl
  | cons c cs ih =>
    intro h
    have hc := h c (by simp)
    have h34 : (c == 34) = false := by simpa using hc.1
    have h44 : (c == 44) = false := by simpa using hc.2
    rw [scan_cons]
    simp only [Bool.false_eq_true, if_false, Bool.false_and, h34, h44]
    exact ih (fun d hd => h d (List.mem_cons_of_mem _ hd))

theorem scan_two (x y : Bytes) (hx : scan false false x = some (false, false))
    (hy : scan false false y = some (false, false)) : scan false false (x ++ y) = some (false, false) := by
  rw [scan_append, hx]; exact hy

/-! ### quoted-strings as written -/

/-- the content of a quoted-string as written: each byte with the flag "written as quoted-pair" -/
abbrev QBody := List (UInt8 × Bool)

def qbRender : QBody → Bytes
  | [] => []
  | (c, true) :: r => 92 :: c :: qbRender r
  | (c, false) :: r => c :: qbRender r

def qbValue (l : QBody) : Bytes := l.map (·.1)

/-- `"` and `\` must be written as quoted-pairs; everything else may be -/
def QbOK (l : QBody) : Prop := ∀ p ∈ l, p.2 = true ∨ (p.1 ≠ 34 ∧ p.1 ≠ 92)

theorem scan_qb : ∀ l : QBody, QbOK l → scan true false (qbRender l) = some (true, false) := by
  intro l
  induction l with
  | nil => intro _; rfl
  | cons p r ih =>
    intro h
    have ihr := ih (fun x hx => h x (List.mem_cons_of_mem _ hx))
    obtain ⟨c, f⟩ := p
    cases f with
    | true =>
      simp only [qbRender]
      rw [scan_cons]
      simp only [Bool.false_eq_true, if_false, Bool.true_and, beq_self_eq_true, if_true]
      rw [scan_cons]
      simp only [if_true]
      exact ihr
    | false =>
      have hc := h (c, false) (by simp)
      simp only [Bool.false_eq_true, false_or] at hc
      have h34 : (c == 34) = false := by simpa using hc.1
      have h92 : (c == 92) = false := by simpa using hc.2
      simp only [qbRender]
      rw [scan_cons]
      simp only [Bool.false_eq_true, if_false, h92, h34, Bool.not_true, Bool.and_false]
      exact ihr

theorem unquote_close : unquote [34] = some [] := rfl

theorem unquote_esc (c : UInt8) (rest : Bytes) : unquote (92 :: c :: rest) = (unquote rest).map (c :: ·) := by
  simp [unquote]

theorem unquote_plain (c : UInt8) (rest : Bytes) (h34 : (c == 34) = false) (h92 : (c == 92) = false)
    (hr : rest ≠ []) : unquote (c :: rest) = (unquote rest).map (c :: ·) := by
  cases rest with
  | nil => exact absurd rfl hr
  | cons d r => simp [unquote, h34, h92]

theorem unquote_qb : ∀ l : QBody, QbOK l → unquote (qbRender l ++ [34]) = some (qbValue l) := by
  intro l
  induction l with
  | nil => intro _; rfl
  | cons p r ih =>
    intro h
    have ihr := ih (fun x hx => h x (List.mem_cons_of_mem _ hx))
    obtain ⟨c, f⟩ := p
    cases f with
    | true =>
      simp only [qbRender, List.cons_append, unquote_esc, ihr, qbValue, List.map_cons, Option.map_some]
    | false =>
      have hc := h (c, false) (by simp)
      simp only [Bool.false_eq_true, false_or] at hc
      have h34 : (c == 34) = false := by simpa using hc.1
      have h92 : (c == 92) = false := by simpa using hc.2
      simp only [qbRender, List.cons_append]
      rw [unquote_plain c _ h34 h92 (by simp), ihr]
      simp [qbValue]

/-! ### values, parameters -/

inductive ValW
  | tok (v : Bytes)
  | quo (l : QBody)

def ValW.render : ValW → Bytes
  | .tok v => v
  | .quo l => 34 :: (qbRender l ++ [34])

def ValW.value : ValW → Bytes
  | .tok v => v
  | .quo l => qbValue l

def TokenOK (t : Bytes) : Prop := t ≠ [] ∧ t.all isTokenByte = true

def ValW.OK : ValW → Prop
  | .tok v => TokenOK v
  | .quo l => QbOK l

/-- `name BWS "=" BWS value` -/
structure ParamW where
  name : Bytes
  bws1 : Bytes
  bws2 : Bytes
  val : ValW

def ParamW.tail (p : ParamW) : Bytes := p.bws1 ++ 61 :: (p.bws2 ++ p.val.render)
def ParamW.render (p : ParamW) : Bytes := p.name ++ p.tail

def ParamW.OK (p : ParamW) : Prop :=
  TokenOK p.name ∧ p.bws1.all isOws = true ∧ p.bws2.all isOws = true ∧ p.val.OK

set_option maxRecDepth 100000 in
theorem tok_not_ows' : ∀ c, isTokenByte c = true → isOws c = false := forall_uint8 _ (by decide)

set_option maxRecDepth 100000 in
theorem tok_plain' : ∀ c, isTokenByte c = true → c ≠ 34 ∧ c ≠ 44 ∧ c ≠ 61 := forall_uint8 _ (by decide)

set_option maxRecDepth 100000 in
theorem ows_plain' : ∀ c, isOws c = true → c ≠ 34 ∧ c ≠ 44 ∧ c ≠ 61 ∧ isTokenByte c = false :=
  forall_uint8 _ (by decide)

theorem scan_tok (t : Bytes) (h : t.all isTokenByte = true) : scan false false t = some (false, false) :=
  scan_plain t (fun c hc => ⟨(tok_plain' c (List.all_eq_true.mp h c hc)).1, (tok_plain' c (List.all_eq_true.mp h c hc)).2.1⟩)

theorem scan_ows (t : Bytes) (h : t.all isOws = true) : scan false false t = some (false, false) :=
  scan_plain t (fun c hc => ⟨(ows_plain' c (List.all_eq_true.mp h c hc)).1, (ows_plain' c (List.all_eq_true.mp h c hc)).2.1⟩)

theorem scan_val (v : ValW) (h : v.OK) : scan false false v.render = some (false, false) := by
  cases v with
  | tok t => exact scan_tok t h.2
  | quo l =>
    simp only [ValW.render]
    rw [scan_cons]
    simp only [Bool.false_eq_true, if_false, Bool.false_and, beq_self_eq_true, if_true, Bool.not_false]
    rw [scan_append, scan_qb l h]
    rfl

theorem scan_param (p : ParamW) (h : p.OK) : scan false false p.render = some (false, false) := by
  obtain ⟨hn, h1, h2, hv⟩ := h
  unfold ParamW.render ParamW.tail
  apply scan_two _ _ (scan_tok _ hn.2)
  apply scan_two _ _ (scan_ows _ h1)
  have : (61 : UInt8) :: (p.bws2 ++ p.val.render) = [61] ++ (p.bws2 ++ p.val.render) := rfl
  rw [this]
  apply scan_two _ _ (by decide)
  exact scan_two _ _ (scan_ows _ h2) (scan_val _ hv)

/-! ### cutToken, trimLeft -/

theorem takeWhile_append_stop {p : UInt8 → Bool} : ∀ (l X : Bytes),
    l.all p = true → (∀ a ∈ X.head?, p a = false) → (l ++ X).takeWhile p = l := by
  intro l
  induction l with
  | nil =>
    intro X _ hX
    cases X with
    | nil => rfl
    | cons a r => simp [hX a (by simp)]
  | cons c cs ih =>
    intro X hl hX
    simp only [List.all_cons, Bool.and_eq_true] at hl
    simp [hl.1, ih X hl.2 hX]

theorem cutToken_append (t rest : Bytes) (ht : t.all isTokenByte = true)
    (hr : ∀ a ∈ rest.head?, isTokenByte a = false) : cutToken (t ++ rest) = (t, rest) := by
  unfold cutToken
  rw [takeWhile_append_stop t rest ht hr, dropWhile_append_stop t rest ht hr]

theorem trimLeft_ows_append (w rest : Bytes) (hw : w.all isOws = true)
    (hr : ∀ a ∈ rest.head?, isOws a = false) : trimLeft isOws (w ++ rest) = rest :=
  dropWhile_append_stop w rest hw hr

/-- the first byte of a rendered value is `"` or a token byte -/
theorem val_head (v : ValW) (h : v.OK) : ∃ a r, v.render = a :: r ∧ isOws a = false := by
  cases v with
  | tok t =>
    obtain ⟨hne, ht⟩ := h
    cases t with
    | nil => exact absurd rfl hne
    | cons a r =>
      simp only [List.all_cons, Bool.and_eq_true] at ht
      exact ⟨a, r, rfl, tok_not_ows' a ht.1⟩
  | quo l => exact ⟨34, _, rfl, by decide⟩

theorem paramValue_tail (p : ParamW) (h : p.OK) : paramValue p.tail = some p.val.value := by
  obtain ⟨_, h1, h2, hv⟩ := h
  unfold paramValue ParamW.tail
  rw [trimLeft_ows_append p.bws1 _ h1 (by intro a ha; simp at ha; subst ha; decide)]
  simp only [bne_self_eq_false, Bool.false_eq_true, if_false]
  obtain ⟨a, r, hr, ha⟩ := val_head p.val hv
  rw [trimLeft_ows_append p.bws2 _ h2 (by intro b hb; rw [hr] at hb; simp at hb; subst hb; exact ha)]
  cases hpv : p.val with
  | tok t =>
    rw [hpv] at hv
    obtain ⟨hne, ht⟩ := hv
    simp only [ValW.render, ValW.value]
    cases t with
    | nil => exact absurd rfl hne
    | cons c cs =>
      simp only
      have hc : (c == 34) = false := by
        simp only [List.all_cons, Bool.and_eq_true] at ht
        simpa using (tok_plain' c ht.1).1
      simp only [hc, Bool.false_eq_true, if_false]
      have := cutToken_append (c :: cs) [] ht (by intro a ha; cases ha)
      simp only [List.append_nil] at this
      simp [this]
  | quo l =>
    rw [hpv] at hv
    simp only [ValW.render, ValW.value, beq_self_eq_true, if_true]
    exact unquote_qb l hv

/-! ### list elements -/

inductive ElemW
  | empty
  | param (p : ParamW)
  | scheme (s : Bytes)
  | schemeParam (s sp : Bytes) (p : ParamW)
  | scheme68 (s sp t : Bytes)

def ElemW.core : ElemW → Bytes
  | .empty => []
  | .param p => p.render
  | .scheme s => s
  | .schemeParam s sp p => s ++ (sp ++ p.render)
  | .scheme68 s sp t => s ++ (sp ++ t)

/-- `1*SP` (HTAB is tolerated by the parser; the grammar asks for SP) -/
def SpOK (sp : Bytes) : Prop := sp ≠ [] ∧ sp.all isOws = true

def ElemW.OK : ElemW → Prop
  | .empty => True
  | .param p => p.OK
  | .scheme s => TokenOK s
  | .schemeParam s sp p => TokenOK s ∧ SpOK sp ∧ p.OK
  | .scheme68 s sp t => TokenOK s ∧ SpOK sp ∧ isToken68 t = true

/-- a list element with the optional white space around it -/
structure Elem where
  pre : Bytes
  e : ElemW
  post : Bytes

def Elem.render (x : Elem) : Bytes := x.pre ++ (x.e.core ++ x.post)

def Elem.OK (x : Elem) : Prop := x.pre.all isOws = true ∧ x.post.all isOws = true ∧ x.e.OK

instance (t : Bytes) : Decidable (TokenOK t) := inferInstanceAs (Decidable (t ≠ [] ∧ t.all isTokenByte = true))
instance (sp : Bytes) : Decidable (SpOK sp) := inferInstanceAs (Decidable (sp ≠ [] ∧ sp.all isOws = true))
instance (l : QBody) : Decidable (QbOK l) :=
  inferInstanceAs (Decidable (∀ p ∈ l, p.2 = true ∨ (p.1 ≠ 34 ∧ p.1 ≠ 92)))
instance : (v : ValW) → Decidable v.OK
  | .tok t => inferInstanceAs (Decidable (TokenOK t))
  | .quo l => inferInstanceAs (Decidable (QbOK l))
instance (p : ParamW) : Decidable p.OK :=
  inferInstanceAs (Decidable (TokenOK p.name ∧ p.bws1.all isOws = true ∧ p.bws2.all isOws = true ∧ p.val.OK))
instance : (w : ElemW) → Decidable w.OK
  | .empty => inferInstanceAs (Decidable True)
  | .param p => inferInstanceAs (Decidable p.OK)
  | .scheme s => inferInstanceAs (Decidable (TokenOK s))
  | .schemeParam s sp p => inferInstanceAs (Decidable (TokenOK s ∧ SpOK sp ∧ p.OK))
  | .scheme68 s sp t => inferInstanceAs (Decidable (TokenOK s ∧ SpOK sp ∧ isToken68 t = true))
instance (x : Elem) : Decidable x.OK :=
  inferInstanceAs (Decidable (x.pre.all isOws = true ∧ x.post.all isOws = true ∧ x.e.OK))

/-- a value written without gratuitous quoted-pairs -/
def plainQ (v : Bytes) : ValW := .quo (v.map fun c => (c, c == 34 || c == 92))

/-! ### the loop body on a rendered element -/

def newChal (st : PState) (s : Bytes) : PState :=
  { rev := if equalFold s b!"Digest" then ({} : Challenge) :: st.rev else st.rev,
    cur := equalFold s b!"Digest", seen := some [] }

/-- `addParam` once the value has been read (`name` already in lower case) -/
def putParam (st : PState) (name value : Bytes) : Except Err PState :=
  match st.seen with
  | none => .error .badChallenge
  | some seen =>
    if seen.contains name then .error .badChallenge
    else
      let st := { st with seen := some (name :: seen) }
      if !st.cur then .ok st
      else
        match st.rev with
        | c :: cs =>
          (match setParam c name value with
           | .ok c' => .ok { st with rev := c' :: cs }
           | .error e => .error e)
        | [] => .ok st

theorem addParam_eq (st : PState) (name rest value : Bytes) (h : paramValue rest = some value) :
    addParam st name rest = putParam st (lower name) value := by
  unfold addParam putParam
  rw [h]
  cases st.seen <;> rfl

/-- what one list element does to the loop variables -/
def absStep (st : PState) : ElemW → Except Err PState
  | .empty => .ok st
  | .param p => putParam st (lower p.name) p.val.value
  | .scheme s => .ok (newChal st s)
  | .schemeParam s _ p => putParam (newChal st s) (lower p.name) p.val.value
  | .scheme68 s _ _ => if equalFold s b!"Digest" then .error .badChallenge else .ok (newChal st s)

theorem dropWhile_all {p : UInt8 → Bool} : ∀ s : Bytes, s.all p = true → s.dropWhile p = [] := by
  intro s
  induction s with
  | nil => intro _; rfl
  | cons c cs ih =>
    intro h
    simp only [List.all_cons, Bool.and_eq_true] at h
    simp [h.1, ih h.2]

theorem takeWhile_all {p : UInt8 → Bool} : ∀ s : Bytes, (s.takeWhile p).all p = true := by
  intro s
  induction s with
  | nil => rfl
  | cons c cs ih =>
    by_cases hc : p c = true
    · simp [hc, ih]
    · simp [hc]

theorem trim_all {p : UInt8 → Bool} (s : Bytes) (h : s.all p = true) : trim p s = [] := by
  unfold trim trimLeft trimRight
  rw [dropWhile_all s h]; rfl

theorem getLast?_append_ne (a b : Bytes) (hb : b ≠ []) : (a ++ b).getLast? = b.getLast? := by
  rw [List.getLast?_append]
  cases hl : b.getLast? with
  | none =>
    cases b with
    | nil => exact absurd rfl hb
    | cons x xs => simp [List.getLast?_cons] at hl
  | some z => rfl

theorem val_ne_nil (v : ValW) (h : v.OK) : v.render ≠ [] := by
  obtain ⟨a, r, hr, _⟩ := val_head v h
  rw [hr]; simp

theorem val_last (v : ValW) (h : v.OK) : ∀ z ∈ v.render.getLast?, isOws z = false ∧ z ≠ 61 := by
  intro z hz
  cases v with
  | tok t =>
    have hm : z ∈ t := List.mem_of_getLast? hz
    have ht := List.all_eq_true.mp h.2 z hm
    exact ⟨tok_not_ows' z ht, (tok_plain' z ht).2.2⟩
  | quo l =>
    simp only [ValW.render] at hz
    have e : (34 : UInt8) :: (qbRender l ++ [34]) = (34 :: qbRender l) ++ [34] := by simp
    rw [e, List.getLast?_concat] at hz
    simp only [Option.mem_def, Option.some.injEq] at hz
    subst hz
    decide

theorem param_ne_nil (p : ParamW) : p.tail ≠ [] := by
  unfold ParamW.tail; simp

theorem param_last (p : ParamW) (h : p.OK) : ∀ z ∈ p.render.getLast?, isOws z = false ∧ z ≠ 61 := by
  intro z hz
  unfold ParamW.render ParamW.tail at hz
  have hv := val_ne_nil p.val h.2.2.2
  rw [getLast?_append_ne _ _ (by simp), getLast?_append_ne _ _ (by simp)] at hz
  have e : (61 : UInt8) :: (p.bws2 ++ p.val.render) = (61 :: p.bws2) ++ p.val.render := by simp
  rw [e, getLast?_append_ne _ _ hv] at hz
  exact val_last p.val h.2.2.2 z hz

/-- the first byte after a parameter name is OWS or `=`: not a token byte -/
theorem tail_head (p : ParamW) (h : p.OK) : ∀ a ∈ p.tail.head?, isTokenByte a = false := by
  intro a ha
  unfold ParamW.tail at ha
  cases hb : p.bws1 with
  | nil =>
    rw [hb] at ha
    simp at ha
    subst ha; decide
  | cons b bs =>
    rw [hb] at ha
    simp at ha
    subst ha
    have := h.2.1
    rw [hb] at this
    simp only [List.all_cons, Bool.and_eq_true] at this
    exact (ows_plain' _ this.1).2.2.2

theorem token_head (t : Bytes) (h : TokenOK t) : ∃ a r, t = a :: r ∧ isTokenByte a = true := by
  obtain ⟨hne, ht⟩ := h
  cases t with
  | nil => exact absurd rfl hne
  | cons a r =>
    simp only [List.all_cons, Bool.and_eq_true] at ht
    exact ⟨a, r, rfl, ht.1⟩

theorem cutToken_param (p : ParamW) (h : p.OK) : cutToken p.render = (p.name, p.tail) :=
  cutToken_append p.name p.tail h.1.2 (tail_head p h)

theorem trimLeft_tail (p : ParamW) (h : p.OK) :
    trimLeft isOws p.tail = 61 :: (p.bws2 ++ p.val.render) := by
  unfold ParamW.tail
  exact trimLeft_ows_append p.bws1 _ h.2.1 (by intro a ha; simp at ha; subst ha; decide)

theorem sp_head (sp rest : Bytes) (h : SpOK sp) : ∀ a ∈ (sp ++ rest).head?, isTokenByte a = false := by
  intro a ha
  obtain ⟨hne, hs⟩ := h
  cases sp with
  | nil => exact absurd rfl hne
  | cons b bs =>
    simp at ha
    subst ha
    simp only [List.all_cons, Bool.and_eq_true] at hs
    exact (ows_plain' _ hs.1).2.2.2

theorem ne_append_self (sp t : Bytes) (h : sp ≠ []) : (t == sp ++ t) = false := by
  cases hb : t == sp ++ t with
  | false => rfl
  | true =>
    have e := eq_of_beq hb
    have hl := congrArg List.length e
    simp only [List.length_append] at hl
    cases sp with
    | nil => exact absurd rfl h
    | cons _ _ => simp at hl

/-! token68 -/

theorem trimRight_split (p : UInt8 → Bool) (t : Bytes) :
    ∃ suf, t = trimRight p t ++ suf ∧ suf.all p = true := by
  refine ⟨(t.reverse.takeWhile p).reverse, ?_, ?_⟩
  · unfold trimRight
    rw [← List.reverse_append, List.takeWhile_append_dropWhile, List.reverse_reverse]
  · rw [List.all_reverse]
    exact takeWhile_all _

set_option maxRecDepth 100000 in
theorem t68_plain : ∀ c, isT68Byte c = true ∨ c = 61 → isOws c = false ∧ c ≠ 34 ∧ c ≠ 44 :=
  forall_uint8 _ (by decide)

set_option maxRecDepth 100000 in
theorem t68_ne_eq : ∀ c, isT68Byte c = true → c ≠ 61 := forall_uint8 _ (by decide)

theorem token68_bytes (t : Bytes) (h : isToken68 t = true) :
    (∀ c ∈ t, isT68Byte c = true ∨ c = 61) ∧ ∃ a r, t = a :: r ∧ isT68Byte a = true := by
  unfold isToken68 at h
  simp only [Bool.and_eq_true, Bool.not_eq_true'] at h
  obtain ⟨suf, hsplit, hsuf⟩ := trimRight_split (fun c => c == 61) t
  constructor
  · intro c hc
    rw [hsplit] at hc
    rcases List.mem_append.mp hc with hc | hc
    · exact Or.inl (List.all_eq_true.mp h.1 c hc)
    · right
      have := List.all_eq_true.mp hsuf c hc
      exact eq_of_beq this
  · cases hu : trimRight (fun c => c == 61) t with
    | nil => rw [hu] at h; simp at h
    | cons a r =>
      rw [hu] at hsplit h
      simp only [List.all_cons, Bool.and_eq_true] at h
      exact ⟨a, r ++ suf, by rw [hsplit]; rfl, h.1.1⟩

theorem trimRight_noop (p : UInt8 → Bool) (t : Bytes) (h : ∀ z ∈ t.getLast?, p z = false) : trimRight p t = t := by
  unfold trimRight
  cases hr : t.reverse with
  | nil => simp at hr; subst hr; rfl
  | cons z zs =>
    have hz : t.getLast? = some z := by
      rw [← List.head?_reverse, hr]; rfl
    have := h z hz
    simp only [List.dropWhile_cons, this, Bool.false_eq_true, if_false]
    rw [← hr, List.reverse_reverse]

theorem param_not_token68 (p : ParamW) (h : p.OK) : isToken68 p.render = false := by
  unfold isToken68
  rw [trimRight_noop _ p.render (fun z hz => by simpa using (param_last p h z hz).2)]
  have : p.render.all isT68Byte = false := by
    rw [List.all_eq_false]
    refine ⟨61, ?_, by decide⟩
    unfold ParamW.render ParamW.tail
    simp
  simp [this]

/-! the element -/

theorem core_head (w : ElemW) (h : w.OK) (hne : w ≠ .empty) :
    ∃ a r, w.core = a :: r ∧ isTokenByte a = true := by
  cases w with
  | empty => exact absurd rfl hne
  | param p =>
    obtain ⟨a, r, hr, ha⟩ := token_head p.name h.1
    exact ⟨a, r ++ p.tail, by simp [ElemW.core, ParamW.render, hr], ha⟩
  | scheme s =>
    obtain ⟨a, r, hr, ha⟩ := token_head s h
    exact ⟨a, r, by simp [ElemW.core, hr], ha⟩
  | schemeParam s sp p =>
    obtain ⟨a, r, hr, ha⟩ := token_head s h.1
    exact ⟨a, r ++ (sp ++ p.render), by simp [ElemW.core, hr], ha⟩
  | scheme68 s sp t =>
    obtain ⟨a, r, hr, ha⟩ := token_head s h.1
    exact ⟨a, r ++ (sp ++ t), by simp [ElemW.core, hr], ha⟩

theorem core_last (w : ElemW) (h : w.OK) : ∀ z ∈ w.core.getLast?, isOws z = false := by
  intro z hz
  cases w with
  | empty => simp [ElemW.core] at hz
  | param p => exact (param_last p h z hz).1
  | scheme s =>
    have hm : z ∈ s := List.mem_of_getLast? hz
    exact tok_not_ows' z (List.all_eq_true.mp h.2 z hm)
  | schemeParam s sp p =>
    simp only [ElemW.core] at hz
    have hp : p.render ≠ [] := by unfold ParamW.render; simp [param_ne_nil p]
    rw [getLast?_append_ne _ _ (by simp [hp]), getLast?_append_ne _ _ hp] at hz
    exact (param_last p h.2.2 z hz).1
  | scheme68 s sp t =>
    simp only [ElemW.core] at hz
    obtain ⟨hb, a, r, hr, _⟩ := token68_bytes t h.2.2
    have ht : t ≠ [] := by rw [hr]; simp
    rw [getLast?_append_ne _ _ (by simp [ht]), getLast?_append_ne _ _ ht] at hz
    exact (t68_plain z (hb z (List.mem_of_getLast? hz))).1

theorem trim_render (x : Elem) (h : x.OK) (hne : x.e ≠ .empty) : trim isOws x.render = x.e.core := by
  obtain ⟨a, r, hr, ha⟩ := core_head x.e h.2.2 hne
  unfold Elem.render
  rw [← List.append_assoc]
  apply trim_pad x.pre x.post x.e.core (by rw [hr]; simp) h.1 h.2.1
  · intro b hb
    rw [hr] at hb
    simp at hb
    subst hb
    exact tok_not_ows' _ ha
  · exact core_last x.e h.2.2

theorem stepElem_render (st : PState) (x : Elem) (h : x.OK) : stepElem st x.render = absStep st x.e := by
  cases hw : x.e with
  | empty =>
    have : trim isOws x.render = [] := by
      apply trim_all
      unfold Elem.render
      rw [hw]
      simp only [ElemW.core, List.nil_append, List.all_append, Bool.and_eq_true]
      exact ⟨h.1, h.2.1⟩
    unfold stepElem
    simp only [this, List.isEmpty_nil, if_true, absStep]
  | param p =>
    have hp : p.OK := by have := h.2.2; rw [hw] at this; exact this
    have ht := trim_render x h (by rw [hw]; intro e; cases e)
    rw [hw] at ht
    simp only [ElemW.core] at ht
    have hne : p.render.isEmpty = false := by
      unfold ParamW.render
      cases hh : p.name ++ p.tail with
      | nil => simp [param_ne_nil p] at hh
      | cons _ _ => rfl
    obtain ⟨a, r, hr, _⟩ := token_head p.name hp.1
    have hn : p.name.isEmpty = false := by rw [hr]; rfl
    unfold stepElem
    simp only [ht, hne, Bool.false_eq_true, if_false, cutToken_param p hp, hn, trimLeft_tail p hp,
      List.head?_cons, bne_self_eq_false, absStep]
    exact addParam_eq st p.name p.tail p.val.value (paramValue_tail p hp)
  | scheme s =>
    have hs : TokenOK s := by have := h.2.2; rw [hw] at this; exact this
    have ht := trim_render x h (by rw [hw]; intro e; cases e)
    rw [hw] at ht
    simp only [ElemW.core] at ht
    obtain ⟨a, r, hr, _⟩ := token_head s hs
    have hn : s.isEmpty = false := by rw [hr]; rfl
    have hc : cutToken s = (s, []) := by
      have := cutToken_append s [] hs.2 (by intro a ha; cases ha)
      simpa using this
    unfold stepElem
    simp only [ht, hn, Bool.false_eq_true, if_false, hc, trimLeft, List.dropWhile_nil, List.head?_nil,
      List.isEmpty_nil, Bool.not_true, Bool.false_and, if_true, absStep, newChal]
    simp
  | schemeParam s sp p =>
    have hall : TokenOK s ∧ SpOK sp ∧ p.OK := by have := h.2.2; rw [hw] at this; exact this
    obtain ⟨hs, hsp, hp⟩ := hall
    have ht := trim_render x h (by rw [hw]; intro e; cases e)
    rw [hw] at ht
    simp only [ElemW.core] at ht
    obtain ⟨a, r, hr, _⟩ := token_head s hs
    have hn : s.isEmpty = false := by rw [hr]; rfl
    have hcore : (s ++ (sp ++ p.render)).isEmpty = false := by rw [hr]; rfl
    have hc : cutToken (s ++ (sp ++ p.render)) = (s, sp ++ p.render) :=
      cutToken_append s _ hs.2 (sp_head sp _ hsp)
    obtain ⟨a', r', hr', ha'⟩ := token_head p.name hp.1
    have hphead : ∀ b ∈ p.render.head?, isOws b = false := by
      intro b hb
      unfold ParamW.render at hb
      rw [hr'] at hb
      simp at hb
      subst hb
      exact tok_not_ows' _ ha'
    have hafter : trimLeft isOws (sp ++ p.render) = p.render := trimLeft_ows_append sp _ hsp.2 hphead
    have hph : p.render.head? = some a' := by unfold ParamW.render; rw [hr']; rfl
    have h61 : (some a' != some (61 : UInt8)) = true := by
      have := (tok_plain' a' ha').2.2
      simp [this]
    have hpne : p.render.isEmpty = false := by
      cases hh : p.render with
      | nil => rw [hh] at hph; cases hph
      | cons _ _ => rfl
    unfold stepElem
    simp only [ht, hcore, Bool.false_eq_true, if_false, hc, hn, hafter, hph, h61, if_true, hpne, Bool.not_false,
      Bool.true_and, ne_append_self sp p.render hsp.1, param_not_token68 p hp, cutToken_param p hp, absStep]
    exact addParam_eq _ p.name p.tail p.val.value (paramValue_tail p hp)
  | scheme68 s sp t =>
    have hall : TokenOK s ∧ SpOK sp ∧ isToken68 t = true := by have := h.2.2; rw [hw] at this; exact this
    obtain ⟨hs, hsp, h68⟩ := hall
    have ht := trim_render x h (by rw [hw]; intro e; cases e)
    rw [hw] at ht
    simp only [ElemW.core] at ht
    obtain ⟨a, r, hr, _⟩ := token_head s hs
    have hn : s.isEmpty = false := by rw [hr]; rfl
    have hcore : (s ++ (sp ++ t)).isEmpty = false := by rw [hr]; rfl
    have hc : cutToken (s ++ (sp ++ t)) = (s, sp ++ t) :=
      cutToken_append s _ hs.2 (sp_head sp _ hsp)
    obtain ⟨hb, a', r', hr', ha'⟩ := token68_bytes t h68
    have hthead : ∀ b ∈ t.head?, isOws b = false := by
      intro b hb'
      rw [hr'] at hb'
      simp at hb'
      subst hb'
      exact (t68_plain _ (Or.inl ha')).1
    have hafter : trimLeft isOws (sp ++ t) = t := trimLeft_ows_append sp _ hsp.2 hthead
    have hth : t.head? = some a' := by rw [hr']; rfl
    have h61 : (some a' != some (61 : UInt8)) = true := by
      have := t68_ne_eq a' ha'
      simp [this]
    have htne : t.isEmpty = false := by rw [hr']; rfl
    unfold stepElem
    simp only [ht, hcore, Bool.false_eq_true, if_false, hc, hn, hafter, hth, h61, if_true, htne, Bool.not_false,
      Bool.true_and, ne_append_self sp t hsp.1, h68, absStep, newChal]

/-! ### the whole list -/

theorem scan_t68 (t : Bytes) (h : isToken68 t = true) : scan false false t = some (false, false) := by
  obtain ⟨hb, _⟩ := token68_bytes t h
  exact scan_plain t (fun c hc => (t68_plain c (hb c hc)).2)

theorem scan_core (w : ElemW) (h : w.OK) : scan false false w.core = some (false, false) := by
  cases w with
  | empty => rfl
  | param p => exact scan_param p h
  | scheme s => exact scan_tok s h.2
  | schemeParam s sp p =>
    exact scan_two _ _ (scan_tok s h.1.2) (scan_two _ _ (scan_ows sp h.2.1.2) (scan_param p h.2.2))
  | scheme68 s sp t =>
    exact scan_two _ _ (scan_tok s h.1.2) (scan_two _ _ (scan_ows sp h.2.1.2) (scan_t68 t h.2.2))

theorem scan_elem (x : Elem) (h : x.OK) : scan false false x.render = some (false, false) :=
  scan_two _ _ (scan_ows _ h.1) (scan_two _ _ (scan_core _ h.2.2) (scan_ows _ h.2.1))

theorem splitListAux_closed (x : Bytes) (hx : scan false false x = some (false, false)) :
    splitListAux false false x = (x, []) := by
  have := splitListAux_append x [] false false false false hx
  simpa [splitListAux] using this

/-- `splitList` takes a rendered list apart into the rendered elements -/
theorem splitList_commaCat : ∀ pieces : List Bytes, pieces ≠ [] →
    (∀ p ∈ pieces, scan false false p = some (false, false)) →
    splitList (commaCat pieces) = pieces
  | [], h, _ => absurd rfl h
  | [x], _, hp => by
    simp [splitList, commaCat, splitListAux_closed x (hp x (by simp))]
  | x :: y :: r, _, hp => by
    have ih := splitList_commaCat (y :: r) (by simp) (fun p hp' => hp p (List.mem_cons_of_mem _ hp'))
    unfold splitList at ih ⊢
    simp only [commaCat]
    rw [splitListAux_append x _ false false false false (hp x (by simp)), splitListAux_cons]
    simp only [Bool.false_eq_true, if_false, Bool.false_and, Bool.not_false, Bool.and_true]
    have h44 : ((44 : UInt8) == 34) = false := by decide
    simp only [h44, Bool.false_eq_true, if_false, beq_self_eq_true, if_true, List.append_nil]
    simp only at ih
    rw [ih]

def absElems : List ElemW → PState → Except Err PState
  | [], st => .ok st
  | w :: ws, st =>
    match absStep st w with
    | .ok st' => absElems ws st'
    | .error e => .error e

theorem parseElems_render : ∀ (xs : List Elem) (st : PState), (∀ x ∈ xs, x.OK) →
    parseElems (xs.map Elem.render) st = absElems (xs.map (·.e)) st := by
  intro xs
  induction xs with
  | nil => intro st _; rfl
  | cons x xs ih =>
    intro st h
    simp only [List.map_cons, parseElems, absElems, stepElem_render st x (h x (by simp))]
    cases absStep st x.e with
    | error e => rfl
    | ok st' => exact ih st' (fun y hy => h y (List.mem_cons_of_mem _ hy))

/-- **the tokenizer on a written list**: what `parseChallenge` does with the field value is what
the abstract loop does with the elements it was written from -/
theorem parseChallenge_render (algOf' : Bytes → Option Alg) (xs : List Elem) (hne : xs ≠ [])
    (h : ∀ x ∈ xs, x.OK) :
    parseChallenge algOf' (commaCat (xs.map Elem.render)) =
      match absElems (xs.map (·.e)) {} with
      | .error e => .error e
      | .ok st => pick algOf' st.rev.reverse := by
  unfold parseChallenge
  rw [splitList_commaCat _ (by simpa using hne) (by
    intro p hp
    simp only [List.mem_map] at hp
    obtain ⟨x, hx, rfl⟩ := hp
    exact scan_elem x (h x hx)), parseElems_render xs {} h]
  cases absElems (xs.map (·.e)) {} <;> rfl

end Req.DigestAuth
