import Req.Client.PrefixCode
import Req.Lemmas.Decode
/-! Helper lemmas: prefix codes (C15 multi-byte decoders). -/
set_option linter.unusedSimpArgs false
namespace Req.Decode
open Req.Proto
namespace Code

theorem drop_max_lt (w : Bytes) (n : Nat) (h : w ≠ []) : (w.drop (max n 1)).length < w.length := by
  have : 0 < w.length := List.length_pos_iff.mpr h
  simp only [List.length_drop]
  omega

/-- Enough fuel is enough. -/
theorem greedyF_fuel (c : Code) (f1 f2 : Nat) (w : Bytes) (h1 : w.length ≤ f1) (h2 : w.length ≤ f2) :
    greedyF c f1 w = greedyF c f2 w := by
  induction f1 generalizing f2 w with
  | zero =>
    have hw : w = [] := List.eq_nil_of_length_eq_zero (by omega)
    subst hw
    cases f2 <;> simp [greedyF]
  | succ k ih =>
    cases f2 with
    | zero =>
      have hw : w = [] := List.eq_nil_of_length_eq_zero (by omega)
      subst hw
      simp [greedyF]
    | succ j =>
      unfold greedyF
      by_cases hw : w = []
      · simp [hw]
      · simp only [hw, if_false]
        cases hd : c.dec w with
        | none => rfl
        | some p =>
          obtain ⟨out, n⟩ := p
          have hl := drop_max_lt w n hw
          simp only
          rw [ih j (w.drop (max n 1)) (by omega) (by omega)]

theorem greedy_unfold (c : Code) (w : Bytes) :
    greedy c w =
      if w = [] then ([], [])
      else
        match c.dec w with
        | none => ([], w)
        | some (out, n) => (out ++ (greedy c (w.drop (max n 1))).1, (greedy c (w.drop (max n 1))).2) := by
  by_cases hne : w = []
  · subst hne; simp [greedy, greedyF]
  · obtain ⟨k, hk⟩ : ∃ k, w.length = k + 1 :=
      ⟨w.length - 1, by have := List.length_pos_iff.mpr hne; omega⟩
    have lhs : greedy c w = greedyF c (k + 1) w := by simp [greedy, hk]
    rw [lhs, greedyF]
    simp only [hne, if_false]
    cases hd : c.dec w with
    | none => rfl
    | some p =>
      obtain ⟨out, n⟩ := p
      have hl := drop_max_lt w n hne
      simp only [greedy]
      rw [greedyF_fuel c k (w.drop (max n 1)).length _ (by omega) (Nat.le_refl _)]

theorem decAllF_fuel (c : Code) (f1 f2 : Nat) (w : Bytes) (h1 : w.length ≤ f1) (h2 : w.length ≤ f2) :
    decAllF c f1 w = decAllF c f2 w := by
  induction f1 generalizing f2 w with
  | zero =>
    have hw : w = [] := List.eq_nil_of_length_eq_zero (by omega)
    subst hw
    cases f2 <;> simp [decAllF]
  | succ k ih =>
    cases f2 with
    | zero =>
      have hw : w = [] := List.eq_nil_of_length_eq_zero (by omega)
      subst hw
      simp [decAllF]
    | succ j =>
      unfold decAllF
      by_cases hw : w = []
      · simp [hw]
      · simp only [hw, if_false]
        cases hd : c.dec w with
        | none =>
          have hl := drop_max_lt w (c.eof w).2 hw
          simp only
          rw [ih j _ (by omega) (by omega)]
        | some p =>
          obtain ⟨out, n⟩ := p
          have hl := drop_max_lt w n hw
          simp only
          rw [ih j _ (by omega) (by omega)]

theorem decAll_unfold (c : Code) (w : Bytes) :
    decAll c w =
      if w = [] then []
      else
        match c.dec w with
        | some (out, n) => out ++ decAll c (w.drop (max n 1))
        | none => (c.eof w).1 ++ decAll c (w.drop (max (c.eof w).2 1)) := by
  by_cases hne : w = []
  · subst hne; simp [decAll, decAllF]
  · obtain ⟨k, hk⟩ : ∃ k, w.length = k + 1 :=
      ⟨w.length - 1, by have := List.length_pos_iff.mpr hne; omega⟩
    have lhs : decAll c w = decAllF c (k + 1) w := by simp [decAll, hk]
    rw [lhs, decAllF]
    simp only [hne, if_false]
    cases hd : c.dec w with
    | none =>
      have hl := drop_max_lt w (c.eof w).2 hne
      simp only [decAll]
      rw [decAllF_fuel c k (w.drop (max (c.eof w).2 1)).length _ (by omega) (Nat.le_refl _)]
    | some p =>
      obtain ⟨out, n⟩ := p
      have hl := drop_max_lt w n hne
      simp only [decAll]
      rw [decAllF_fuel c k (w.drop (max n 1)).length _ (by omega) (Nat.le_refl _)]

/-- Greedy decoding of `w ++ q` = greedy decoding of `w`, then of (what `w` left undecided) `++ q`. -/
theorem greedy_append (c : Code) (hc : c.WellFormed) (q : Bytes) :
    ∀ (k : Nat) (w : Bytes), w.length ≤ k →
      greedy c (w ++ q) =
        ((greedy c w).1 ++ (greedy c ((greedy c w).2 ++ q)).1, (greedy c ((greedy c w).2 ++ q)).2) := by
  intro k
  induction k with
  | zero =>
    intro w hw
    have : w = [] := List.eq_nil_of_length_eq_zero (by omega)
    subst this
    simp [greedy_unfold c []]
  | succ k ih =>
    intro w hw
    by_cases hne : w = []
    · subst hne; simp [greedy_unfold c []]
    · rw [greedy_unfold c w]
      simp only [hne, if_false]
      cases hd : c.dec w with
      | none => simp
      | some p =>
        obtain ⟨out, n⟩ := p
        obtain ⟨h1, h2, h3⟩ := hc w out n hd
        have hmax : max n 1 = n := by omega
        simp only [hmax]
        have hwq : w ++ q ≠ [] := by simp [hne]
        rw [greedy_unfold c (w ++ q)]
        simp only [hwq, if_false, h3 q, hmax]
        have hdrop : (w ++ q).drop n = w.drop n ++ q := List.drop_append_of_le_length h2
        rw [hdrop]
        have hl : (w.drop n).length ≤ k := by simp only [List.length_drop]; omega
        rw [ih (w.drop n) hl]
        simp [List.append_assoc]

/-- The whole-input loop = what greedy decoding emits, then the loop on what it left. -/
theorem decAll_greedy (c : Code) (hc : c.WellFormed) :
    ∀ (k : Nat) (w : Bytes), w.length ≤ k → decAll c w = (greedy c w).1 ++ decAll c (greedy c w).2 := by
  intro k
  induction k with
  | zero =>
    intro w hw
    have : w = [] := List.eq_nil_of_length_eq_zero (by omega)
    subst this
    simp [greedy_unfold c [], decAll_unfold c []]
  | succ k ih =>
    intro w hw
    by_cases hne : w = []
    · subst hne; simp [greedy_unfold c [], decAll_unfold c []]
    · rw [greedy_unfold c w]
      simp only [hne, if_false]
      cases hd : c.dec w with
      | none => simp
      | some p =>
        obtain ⟨out, n⟩ := p
        obtain ⟨h1, h2, _⟩ := hc w out n hd
        have hmax : max n 1 = n := by omega
        simp only [hmax]
        have hl : (w.drop n).length ≤ k := by simp only [List.length_drop]; omega
        conv => lhs; rw [decAll_unfold c w]
        simp only [hne, if_false, hd, hmax]
        rw [ih (w.drop n) hl]
        simp [List.append_assoc]

end Code

theorem ofCode_feedAll (c : Code) (hc : c.WellFormed) (chunks : List Bytes) (s : Bytes) :
    ((ofCode c).feedAll s chunks).2 ++ c.decAll ((ofCode c).feedAll s chunks).1 = c.decAll (s ++ chunks.flatten) := by
  induction chunks generalizing s with
  | nil => simp [Decoder.feedAll]
  | cons ch cs ih =>
    have hf : (ofCode c).feed s ch = ((c.greedy (s ++ ch)).2, (c.greedy (s ++ ch)).1) := rfl
    simp only [Decoder.feedAll, hf, List.flatten_cons, List.append_assoc]
    rw [ih]
    have h1 := Code.decAll_greedy c hc _ (s ++ (ch ++ cs.flatten)) (Nat.le_refl _)
    have h2 := Code.greedy_append c hc cs.flatten _ (s ++ ch) (Nat.le_refl _)
    rw [List.append_assoc] at h2
    rw [h1, h2]
    have h3 := Code.decAll_greedy c hc _ ((c.greedy (s ++ ch)).2 ++ cs.flatten) (Nat.le_refl _)
    rw [h3]
    simp [List.append_assoc]

end Req.Decode
