import Req.Lemmas.Pct
import Req.Client.Url
/-!
An independent origin-side query parser (`parseQuery`: split at `&`, drop empty pieces, cut at the
first `=`, percent-decode both sides — what `url.ParseQuery` and every server framework do) and
the lemmas relating it to `Values.Encode` (helpers for Props/C01 `query_merge_spec`).
-/
namespace Req.Query
open Req.Proto Req.Pct Req.BStr Req.Url

/-- split at every `sep`; `cur` is the reversed current piece. -/
def splitOnAux (sep : UInt8) : Bytes → Bytes → List Bytes
  | [], cur => [cur.reverse]
  | c :: t, cur => if c == sep then cur.reverse :: splitOnAux sep t [] else splitOnAux sep t (c :: cur)

def splitOn (sep : UInt8) (s : Bytes) : List Bytes := splitOnAux sep s []

def parsePair (p : Bytes) : Option (Bytes × Bytes) :=
  match cut 61 p with
  | (k, v, _) =>
    match unescape .queryComponent k, unescape .queryComponent v with
    | some k', some v' => some (k', v')
    | _, _ => none

/-- the ordered multimap an origin reads from a raw query (`none` = malformed escape). -/
def parseQuery (q : Bytes) : Option (List (Bytes × Bytes)) :=
  ((splitOn 38 q).filter fun p => !p.isEmpty).mapM parsePair

theorem splitOnAux_append (sep : UInt8) (a b cur : Bytes) :
    splitOnAux sep (a ++ sep :: b) cur = splitOnAux sep a cur ++ splitOnAux sep b [] := by
  induction a generalizing cur with
  | nil => simp [splitOnAux]
  | cons c a ih =>
    simp only [List.cons_append, splitOnAux]
    split
    · rw [ih]; simp
    · exact ih _

/-- splitting distributes over a separator. -/
theorem splitOn_append (sep : UInt8) (a b : Bytes) :
    splitOn sep (a ++ sep :: b) = splitOn sep a ++ splitOn sep b := by
  unfold splitOn
  exact splitOnAux_append sep a b []

theorem splitOnAux_no_sep (sep : UInt8) (a cur : Bytes) (h : ∀ b ∈ a, b ≠ sep) :
    splitOnAux sep a cur = [cur.reverse ++ a] := by
  induction a generalizing cur with
  | nil => simp [splitOnAux]
  | cons c a ih =>
    have hc : (c == sep) = false := by simpa using h c (by simp)
    simp only [splitOnAux, hc, Bool.false_eq_true, if_false]
    rw [ih _ (fun b hb => h b (by simp [hb]))]
    simp

theorem splitOn_no_sep (sep : UInt8) (a : Bytes) (h : ∀ b ∈ a, b ≠ sep) : splitOn sep a = [a] := by
  unfold splitOn
  rw [splitOnAux_no_sep sep a [] h]
  simp

theorem cut_append (sep : UInt8) (a b : Bytes) (h : ∀ x ∈ a, x ≠ sep) :
    cut sep (a ++ sep :: b) = (a, b, true) := by
  induction a with
  | nil => simp [cut]
  | cons c a ih =>
    have hc : (c == sep) = false := by simpa using h c (by simp)
    simp only [List.cons_append, cut, hc, Bool.false_eq_true, if_false]
    rw [ih (fun x hx => h x (by simp [hx]))]

/-! ### bytes of a query escape -/

def querySafe (b : UInt8) : Bool :=
  b == 37 || isUpperHexDigit b || b == 43 || !shouldEscape b .queryComponent

/-- bytes that would change the structure of a query (or of the request line / header block):
`& = # ? /`, space, control bytes (CR, LF, NUL …), DEL and everything non-ASCII. -/
def queryStructural (b : UInt8) : Bool :=
  b == 38 || b == 61 || b == 35 || b == 63 || b == 47 || b ≤ 32 || b ≥ 127

set_option maxRecDepth 100000 in
theorem querySafe_not_structural (b : UInt8) : (!querySafe b || !queryStructural b) = true :=
  Req.U8.all (fun b => !querySafe b || !queryStructural b) (by decide) b

theorem queryEscape_safe (s : Bytes) : ∀ b ∈ queryEscape s, querySafe b = true := by
  intro b hb
  unfold queryEscape at hb
  unfold querySafe
  rcases mem_escape hb with h | h | h | h
  · simp [h]
  · simp [h]
  · simp [h.1]
  · simp [h.2]

theorem queryEscape_not_structural (s : Bytes) : ∀ b ∈ queryEscape s, queryStructural b = false := by
  intro b hb
  have h1 := queryEscape_safe s b hb
  have h2 := querySafe_not_structural b
  rw [h1] at h2
  simpa using h2

theorem queryEscape_ne (s : Bytes) (c : UInt8) (hc : queryStructural c = true) :
    ∀ b ∈ queryEscape s, b ≠ c := by
  intro b hb heq
  have := queryEscape_not_structural s b hb
  rw [heq, hc] at this
  exact Bool.noConfusion this

/-! ### parse ∘ encode -/

theorem encodePair_no_amp (k v : Bytes) : ∀ b ∈ encodePair k v, b ≠ 38 := by
  intro b hb
  unfold encodePair at hb
  simp only [List.append_assoc, List.mem_append, List.mem_singleton] at hb
  rcases hb with h | h | h
  · exact queryEscape_ne k 38 (by decide) b h
  · rw [h]; decide
  · exact queryEscape_ne v 38 (by decide) b h

theorem encodePair_ne_nil (k v : Bytes) : (encodePair k v).isEmpty = false := by
  unfold encodePair
  cases queryEscape k <;> simp

theorem parsePair_encodePair (k v : Bytes) : parsePair (encodePair k v) = some (k, v) := by
  unfold parsePair encodePair
  rw [List.append_assoc, List.singleton_append,
    cut_append 61 _ _ (queryEscape_ne k 61 (by decide))]
  simp only
  have hk := unescape_escape .queryComponent (by decide) (by decide) k
  have hv := unescape_escape .queryComponent (by decide) (by decide) v
  unfold queryEscape
  rw [hk, hv]

theorem parseQuery_nil : parseQuery [] = some [] := by
  simp [parseQuery, splitOn, splitOnAux]

/-- what an origin parses from `a & b` is what it parses from `a` followed by what it parses
from `b`. -/
theorem parseQuery_append (a b : Bytes) :
    parseQuery (a ++ 38 :: b) =
      (do let x ← parseQuery a; let y ← parseQuery b; pure (x ++ y)) := by
  unfold parseQuery
  rw [splitOn_append, List.filter_append, List.mapM_append]

theorem parseQuery_single (k v : Bytes) : parseQuery (encodePair k v) = some [(k, v)] := by
  unfold parseQuery
  rw [splitOn_no_sep 38 _ (encodePair_no_amp k v)]
  simp [encodePair_ne_nil, parsePair_encodePair]

/-- **parse ∘ join-of-encoded-pairs = id** -/
theorem parseQuery_join (ps : List (Bytes × Bytes)) :
    parseQuery (join [38] (ps.map fun p => encodePair p.1 p.2)) = some ps := by
  induction ps with
  | nil => simp [join, parseQuery_nil]
  | cons p ps ih =>
    cases ps with
    | nil => simp [join, parseQuery_single]
    | cons q qs =>
      have e : join [38] (List.map (fun p => encodePair p.1 p.2) (p :: q :: qs)) =
          encodePair p.1 p.2 ++ 38 :: join [38] (List.map (fun p => encodePair p.1 p.2) (q :: qs)) := by
        simp [join]
      rw [e, parseQuery_append, parseQuery_single, ih]
      rfl

end Req.Query
