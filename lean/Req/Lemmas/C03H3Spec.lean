import Req.Lemmas.C03H3Run
/-!
C03 — HTTP/3: a byte-level specification of what the body reader may hand out and where it may
end cleanly — with NO assumption on the bytes of the stream:

* `dataFrom bs` / `dataIn rem bs` — the DATA bytes a byte string holds from a frame boundary (from
  inside a DATA frame) on: payloads of complete DATA frames, the received part of a cut one;
* `Whole tr bs` — the bytes are a whole number of frames in an order the reader accepts;
* `readR_spec`, `bodyReadR_spec`, `run_prefix`, `run_eof_whole` — the repaired reader refines
  them for every segmentation of the stream and every sequence of read sizes;
* `not_whole_cut` — a well-formed frame sequence cut strictly inside a frame is not `Whole`.
-/
namespace Req.C03
open Req.Proto Req.C02

/-! ### frame headers on raw bytes -/

theorem decVarintTail_length (k acc : Nat) (bs : Bytes) (v : Nat) (r : Bytes)
    (h : decVarintTail k acc bs = some (v, r)) : r.length + k = bs.length := by
  induction k generalizing acc bs with
  | zero => simp [decVarintTail] at h; obtain ⟨_, rfl⟩ := h; simp
  | succ k ih =>
    cases bs with
    | nil => simp [decVarintTail] at h
    | cons b bs => simp only [decVarintTail] at h; have := ih _ _ h; simp; omega

theorem decVarint_length (bs : Bytes) (v : Nat) (r : Bytes) (h : decVarint bs = some (v, r)) :
    r.length < bs.length := by
  cases bs with
  | nil => simp [decVarint] at h
  | cons b bs =>
    simp only [decVarint] at h
    have := decVarintTail_length _ _ _ _ _ h
    simp; omega

theorem decHdr_length (bs : Bytes) (t l : Nat) (r : Bytes) (h : decHdr bs = some (t, l, r)) :
    r.length + 2 ≤ bs.length := by
  unfold decHdr at h
  cases h1 : decVarint bs with
  | none => simp [h1] at h
  | some p =>
    obtain ⟨t', r1⟩ := p
    rw [h1] at h
    simp only [] at h
    cases h2 : decVarint r1 with
    | none => simp [h2] at h
    | some q =>
      obtain ⟨l', r2⟩ := q
      rw [h2] at h
      simp only [Option.some.injEq, Prod.mk.injEq] at h
      obtain ⟨_, _, rfl⟩ := h
      have a := decVarint_length _ _ _ h1
      have b := decVarint_length _ _ _ h2
      omega

/-- Frame types the parser skips on a request stream. -/
def skipT (t : Nat) : Bool := !(t = 0 ∨ t = 1 ∨ t = 4 ∨ t = 2 ∨ t = 6 ∨ t = 8 ∨ t = 9)

/-- **The bytes are a whole number of frames in an order the body reader accepts**: DATA and
skipped frames, then optionally one (trailers) HEADERS frame, then only skipped frames; every
frame complete. `tr` = the trailers were already seen. -/
inductive Whole : Bool → Bytes → Prop
  | nil (tr : Bool) : Whole tr []
  | data (bs rest : Bytes) (l : Nat) : decHdr bs = some (0, l, rest) → l ≤ rest.length →
      Whole false (rest.drop l) → Whole false bs
  | trailer (bs rest : Bytes) (l : Nat) : decHdr bs = some (1, l, rest) → l ≤ rest.length →
      Whole true (rest.drop l) → Whole false bs
  | skip (tr : Bool) (bs rest : Bytes) (t l : Nat) : decHdr bs = some (t, l, rest) → skipT t = true →
      l ≤ rest.length → Whole tr (rest.drop l) → Whole tr bs

/-- The DATA bytes a byte string holds from a frame boundary on: payloads of complete DATA frames,
the received part of a cut one; reading stops at the first frame that is neither DATA nor skipped. -/
def dataFrom (bs : Bytes) : Bytes :=
  match _h : decHdr bs with
  | none => []
  | some (t, l, rest) =>
    if t = 0 then rest.take l ++ (if l ≤ rest.length then dataFrom (rest.drop l) else [])
    else if skipT t ∧ l ≤ rest.length then dataFrom (rest.drop l)
    else []
termination_by bs.length
decreasing_by
  all_goals
    have := decHdr_length bs t l rest _h
    simp only [List.length_drop]
    omega

/-- From inside a DATA frame with `rem` payload bytes still to come. -/
def dataIn (rem : Nat) (bs : Bytes) : Bytes :=
  bs.take rem ++ (if rem ≤ bs.length then dataFrom (bs.drop rem) else [])

theorem dataIn_zero (bs : Bytes) : dataIn 0 bs = dataFrom bs := by simp [dataIn]

example : dataFrom [0, 2, 97, 98, 33, 1, 7, 0, 3, 99] = [97, 98, 99] := by
  rw [dataFrom]; simp [decHdr, decVarint, decVarintTail]
  rw [dataFrom]; simp [decHdr, decVarint, decVarintTail, skipT]
  rw [dataFrom]; simp [decHdr, decVarint, decVarintTail]

/-! ### the stream reader on the raw stream, failure side -/

theorem readByte_size (n : Net) : n.readByte.2.size ≤ n.size := by
  unfold Net.readByte
  rcases hr : n.read 1 with ⟨od, n'⟩
  cases od with
  | none =>
    have := (Net.read_none _ _ _ hr).2.1
    simp only [Net.size_eq, this]; simp
  | some d =>
    have := (Net.read_some _ _ _ _ hr).1
    cases d <;> (simp only [Net.size_eq, this]; simp only [List.length_append, List.length_cons, List.length_nil]; omega)

theorem readVarintTail_size (k acc : Nat) (n : Net) : (n.readVarintTail k acc).2.size ≤ n.size := by
  induction k generalizing acc n with
  | zero => exact Nat.le_refl _
  | succ k ih =>
    unfold Net.readVarintTail
    have hs := readByte_size n
    rcases hb : n.readByte with ⟨r, n'⟩
    rw [hb] at hs
    cases r with
    | ok b => exact Nat.le_trans (ih _ _) hs
    | error e => exact hs

/-- The bytes end inside (or before) a varint. -/
theorem readVarint_short (n : Net) (h : decVarint n.segs.flatten = none) :
    ∃ e n', n.readVarint = (.error e, n') ∧ (e = n.fin.toH3 ∨ e = .stuck) ∧
      (n.segs.flatten ≠ [] → n'.size < n.size) ∧
      (n.segs.flatten = [] → e = n.fin.toH3 ∧ n'.size = n.size) := by
  cases hfl : n.segs.flatten with
  | nil =>
    obtain ⟨n', hb, hfl', _⟩ := Net.readByte_nil n hfl
    refine ⟨_, n', by simp [Net.readVarint, hb], Or.inl rfl, by simp, fun _ => ⟨rfl, ?_⟩⟩
    simp [Net.size_eq, hfl, hfl']
  | cons x xs =>
    obtain ⟨n1, hb, hfl1, hfin1⟩ := Net.readByte_cons n x xs hfl
    rw [hfl] at h
    simp only [decVarint] at h
    have hsz : n1.size < n.size := by simp [Net.size_eq, hfl, hfl1]
    have herr := readVarintTail_err ((1 <<< (x.toNat / 64)) - 1) (x.toNat % 64) n1
    have hsize := readVarintTail_size ((1 <<< (x.toNat / 64)) - 1) (x.toNat % 64) n1
    rcases hr : n1.readVarintTail ((1 <<< (x.toNat / 64)) - 1) (x.toNat % 64) with ⟨r, n'⟩
    rw [hr] at herr hsize
    cases r with
    | ok v =>
      -- impossible: the tail decodes on the model iff it decodes on the bytes
      exfalso
      have : ∀ (k acc : Nat) (m : Net) (v : Nat) (m' : Net), m.readVarintTail k acc = (.ok v, m') →
          ∃ R, decVarintTail k acc m.segs.flatten = some (v, R) := by
        intro k
        induction k with
        | zero => intro acc m v m' hm; simp [Net.readVarintTail] at hm; exact ⟨m.segs.flatten, by simp [decVarintTail, hm.1]⟩
        | succ k ih =>
          intro acc m v m' hm
          unfold Net.readVarintTail at hm
          cases hfm : m.segs.flatten with
          | nil =>
            obtain ⟨m1, hb1, _, _⟩ := Net.readByte_nil m hfm
            rw [hb1] at hm; simp at hm
          | cons y ys =>
            obtain ⟨m1, hb1, hf1, _⟩ := Net.readByte_cons m y ys hfm
            rw [hb1] at hm; simp only [] at hm
            obtain ⟨R, hR⟩ := ih _ _ _ _ hm
            rw [hf1] at hR
            exact ⟨R, by simp [decVarintTail, hR]⟩
      obtain ⟨R, hR⟩ := this _ _ _ _ _ hr
      rw [hfl1] at hR
      rw [hR] at h; simp at h
    | error e =>
      refine ⟨e, n', by simp [Net.readVarint, hb, hr], ?_, fun _ => Nat.lt_of_le_of_lt hsize hsz, by simp⟩
      have := herr e rfl
      rw [hfin1] at this; exact this

/-- `io.CopyN` / `io.ReadFull` of `k` bytes of which fewer are there. -/
theorem readN_short (fuel k : Nat) (acc : List Bytes) (n : Net) (hlt : n.segs.flatten.length < k)
    (hfuel : k < fuel) :
    ∃ p n', Net.readN fuel k acc n = ((p, some n.fin.toH3), n') := by
  induction fuel generalizing k acc n with
  | zero => omega
  | succ fuel ih =>
    unfold Net.readN
    have hk0 : k ≠ 0 := by omega
    simp only [hk0, if_false]
    rcases hr : n.read k with ⟨od, n1⟩
    cases od with
    | none => exact ⟨_, _, rfl⟩
    | some d =>
      obtain ⟨hfl, hle, hne, hfin⟩ := Net.read_some _ _ _ _ hr
      have hd : 0 < d.length := List.length_pos_iff.mpr (hne (by omega))
      have hl : n1.segs.flatten.length < k - d.length := by
        rw [hfl, List.length_append] at hlt; omega
      obtain ⟨p, n', hp⟩ := ih (k - d.length) (d :: acc) n1 hl (by omega)
      exact ⟨p, n', by simp only []; rw [hp, hfin]⟩

theorem truncated_true_ne_eof (e : H3Err) : truncatedFrame e true ≠ .eof := by
  unfold truncatedFrame
  split
  · simp
  · rename_i h; intro hx; subst hx; exact h ⟨(h3err_beq _ _).mpr rfl, rfl⟩

/-- A clean stream end at a frame boundary. -/
theorem parseNextR_empty (fuel : Nat) (n : Net) (h : n.segs.flatten = []) :
    ∃ n', parseNextR (fuel + 1) n = (.error n.fin.toH3, n') := by
  obtain ⟨e, n', hr, _, _, h2⟩ := readVarint_short n (by simp [h, decVarint])
  obtain ⟨rfl, hsz⟩ := h2 h
  refine ⟨n', ?_⟩
  unfold parseNextR
  rw [hr]
  simp [truncatedFrame, hsz]

/-- The stream ends inside a frame header. -/
theorem parseNextR_cutHdr (fuel : Nat) (n : Net) (hne : n.segs.flatten ≠ []) (h : decHdr n.segs.flatten = none) :
    ∃ e n', parseNextR (fuel + 1) n = (.error e, n') ∧ e ≠ .eof := by
  unfold parseNextR
  cases h1 : decVarint n.segs.flatten with
  | none =>
    obtain ⟨e, n', hr, _, hsz, _⟩ := readVarint_short n h1
    rw [hr]
    refine ⟨_, n', rfl, ?_⟩
    simp only [hsz hne, decide_true]
    exact truncated_true_ne_eof e
  | some p =>
    obtain ⟨t, r1⟩ := p
    obtain ⟨n1, hr1, hfl1, hfin1⟩ := Net.readVarint_spec n t r1 h1
    rw [hr1]
    simp only []
    have h2 : decVarint n1.segs.flatten = none := by
      rw [hfl1]
      unfold decHdr at h
      rw [h1] at h
      simp only [] at h
      cases hd : decVarint r1 with
      | none => rfl
      | some q => rw [hd] at h; simp at h
    obtain ⟨e, n2, hr2, _, _, _⟩ := readVarint_short n1 h2
    rw [hr2]
    exact ⟨_, n2, rfl, truncated_true_ne_eof e⟩

/-- A complete frame header. -/
theorem parseNextR_hdr (n : Net) (t l : Nat) (rest : Bytes) (h : decHdr n.segs.flatten = some (t, l, rest)) :
    ∃ n1 n2, n.readVarint = (.ok t, n1) ∧ n1.readVarint = (.ok l, n2) ∧ n2.segs.flatten = rest ∧ n2.fin = n.fin := by
  unfold decHdr at h
  cases h1 : decVarint n.segs.flatten with
  | none => rw [h1] at h; simp at h
  | some p =>
    obtain ⟨t', r1⟩ := p
    rw [h1] at h
    simp only [] at h
    cases h2 : decVarint r1 with
    | none => rw [h2] at h; simp at h
    | some q =>
      obtain ⟨l', r2⟩ := q
      rw [h2] at h
      simp only [Option.some.injEq, Prod.mk.injEq] at h
      obtain ⟨rfl, rfl, rfl⟩ := h
      obtain ⟨n1, hr1, hfl1, hfin1⟩ := Net.readVarint_spec n t' r1 h1
      obtain ⟨n2, hr2, hfl2, hfin2⟩ := Net.readVarint_spec n1 l' r2 (by rw [hfl1]; exact h2)
      exact ⟨n1, n2, hr1, hr2, hfl2, hfin2.trans hfin1⟩

theorem parseNextR_data (fuel : Nat) (n : Net) (l : Nat) (rest : Bytes)
    (h : decHdr n.segs.flatten = some (0, l, rest)) :
    ∃ n2, parseNextR (fuel + 1) n = (.ok (.data l), n2) ∧ n2.segs.flatten = rest ∧ n2.fin = n.fin := by
  obtain ⟨n1, n2, h1, h2, hfl, hfin⟩ := parseNextR_hdr n 0 l rest h
  exact ⟨n2, by unfold parseNextR; rw [h1]; simp only []; rw [h2]; simp, hfl, hfin⟩

theorem parseNextR_headers (fuel : Nat) (n : Net) (l : Nat) (rest : Bytes)
    (h : decHdr n.segs.flatten = some (1, l, rest)) :
    ∃ n2, parseNextR (fuel + 1) n = (.ok (.headers l), n2) ∧ n2.segs.flatten = rest ∧ n2.fin = n.fin := by
  obtain ⟨n1, n2, h1, h2, hfl, hfin⟩ := parseNextR_hdr n 1 l rest h
  exact ⟨n2, by unfold parseNextR; rw [h1]; simp only []; rw [h2]; simp, hfl, hfin⟩

theorem skipT_spec (t : Nat) (h : skipT t = true) :
    t ≠ 0 ∧ t ≠ 1 ∧ t ≠ 4 ∧ ¬(t = 2 ∨ t = 6 ∨ t = 8 ∨ t = 9) := by
  simp only [skipT, Bool.not_eq_true', decide_eq_false_iff_not, not_or] at h
  obtain ⟨a, b, c, d, e, f, g⟩ := h
  exact ⟨a, b, c, by omega⟩

/-- A complete frame of a skipped type: the parser goes on behind it. -/
theorem parseNextR_skip (fuel : Nat) (n : Net) (t l : Nat) (rest : Bytes)
    (h : decHdr n.segs.flatten = some (t, l, rest)) (hs : skipT t = true) (hl : l ≤ rest.length) :
    ∃ n3, parseNextR (fuel + 1) n = parseNextR fuel n3 ∧ n3.segs.flatten = rest.drop l ∧ n3.fin = n.fin := by
  obtain ⟨n1, n2, h1, h2, hfl, hfin⟩ := parseNextR_hdr n t l rest h
  obtain ⟨a, b, c, d⟩ := skipT_spec t hs
  obtain ⟨n3, hr, hfl3, hfin3⟩ := Net.readN_spec (l + 1) l [] n2 (rest.take l) (rest.drop l)
    (by rw [hfl]; simp) (by simp; omega) (by omega)
  refine ⟨n3, ?_, hfl3, hfin3.trans hfin⟩
  conv => lhs; unfold parseNextR
  rw [h1]; simp only []; rw [h2]; simp only [a, b, c, d, if_false]
  rw [hr]

/-- A cut frame of a skipped type. -/
theorem parseNextR_cutSkip (fuel : Nat) (n : Net) (t l : Nat) (rest : Bytes)
    (h : decHdr n.segs.flatten = some (t, l, rest)) (hs : skipT t = true) (hl : rest.length < l) :
    ∃ e n', parseNextR (fuel + 1) n = (.error e, n') ∧ e ≠ .eof := by
  obtain ⟨n1, n2, h1, h2, hfl, hfin⟩ := parseNextR_hdr n t l rest h
  obtain ⟨a, b, c, d⟩ := skipT_spec t hs
  obtain ⟨p, n3, hr⟩ := readN_short (l + 1) l [] n2 (by rw [hfl]; exact hl) (by omega)
  unfold parseNextR
  rw [h1]; simp only []; rw [h2]; simp only [a, b, c, d, if_false]
  rw [hr]
  cases n2.fin <;> simp [NetEnd.toH3]

/-- Neither DATA, HEADERS nor skipped (SETTINGS, reserved types): never DATA, never `io.EOF`. -/
theorem parseNextR_other (fuel : Nat) (n : Net) (t l : Nat) (rest : Bytes)
    (h : decHdr n.segs.flatten = some (t, l, rest)) (h0 : t ≠ 0) (h1' : t ≠ 1) (hs : skipT t = false) :
    (∃ n', parseNextR (fuel + 1) n = (.ok .settings, n')) ∨
    (∃ e n', parseNextR (fuel + 1) n = (.error e, n') ∧ e ≠ .eof) := by
  obtain ⟨n1, n2, h1, h2, hfl, hfin⟩ := parseNextR_hdr n t l rest h
  unfold parseNextR
  rw [h1]; simp only []; rw [h2]; simp only [h0, h1', if_false]
  by_cases h4 : t = 4
  · simp only [h4, if_true]
    rcases hr : Net.readN (l + 1) l [] n2 with ⟨⟨p, oe⟩, n3⟩
    cases oe with
    | none => left; exact ⟨n3, rfl⟩
    | some e => right; cases e <;> exact ⟨_, n3, rfl, by simp⟩
  · simp only [h4, if_false]
    have : t = 2 ∨ t = 6 ∨ t = 8 ∨ t = 9 := by
      simp only [skipT, Bool.not_eq_false', decide_eq_true_eq] at hs
      omega
    simp only [this, if_true]
    right; exact ⟨_, n2, rfl, by simp⟩

/-! ### the frame parser against the byte-level specification -/

theorem dataFrom_none (bs : Bytes) (h : decHdr bs = none) : dataFrom bs = [] := by
  rw [dataFrom]; split <;> simp_all

theorem dataFrom_data (bs rest : Bytes) (l : Nat) (h : decHdr bs = some (0, l, rest)) :
    dataFrom bs = dataIn l rest := by
  rw [dataFrom]; split
  · simp_all
  · rename_i t' l' rest' h'
    rw [h] at h'; simp only [Option.some.injEq, Prod.mk.injEq] at h'
    obtain ⟨rfl, rfl, rfl⟩ := h'
    simp [dataIn]

theorem dataFrom_skip (bs rest : Bytes) (t l : Nat) (h : decHdr bs = some (t, l, rest)) (hs : skipT t = true)
    (hl : l ≤ rest.length) : dataFrom bs = dataFrom (rest.drop l) := by
  obtain ⟨a, _, _, _⟩ := skipT_spec t hs
  rw [dataFrom]; split
  · simp_all
  · rename_i t' l' rest' h'
    rw [h] at h'; simp only [Option.some.injEq, Prod.mk.injEq] at h'
    obtain ⟨rfl, rfl, rfl⟩ := h'
    simp [a, hs, hl]

theorem dataFrom_stop (bs rest : Bytes) (t l : Nat) (h : decHdr bs = some (t, l, rest)) (h0 : t ≠ 0)
    (hs : ¬(skipT t = true ∧ l ≤ rest.length)) : dataFrom bs = [] := by
  rw [dataFrom]; split
  · rfl
  · rename_i t' l' rest' h'
    rw [h] at h'; simp only [Option.some.injEq, Prod.mk.injEq] at h'
    obtain ⟨rfl, rfl, rfl⟩ := h'
    simp [h0, hs]

/-- What the result of `ParseNext` at a frame boundary says about the bytes that were there. -/
structure ScanSpec (tr : Bool) (bs : Bytes) (fin : NetEnd) (r : Except H3Err H3Frame) (n' : Net) : Prop where
  fin : n'.fin = fin
  eof : r = .error .eof → Whole tr bs
  data : ∀ l, r = .ok (.data l) → dataFrom bs = dataIn l n'.segs.flatten ∧
    (l ≤ n'.segs.flatten.length → Whole false (n'.segs.flatten.drop l) → tr = false → Whole false bs)
  headers : ∀ l, r = .ok (.headers l) →
    (l ≤ n'.segs.flatten.length → Whole true (n'.segs.flatten.drop l) → tr = false → Whole false bs)
  nodata : (∀ l, r ≠ .ok (.data l)) → dataFrom bs = []

theorem parseNextR_scan (tr : Bool) (fuel : Nat) (n : Net) (hf : n.size < fuel) :
    ScanSpec tr n.segs.flatten n.fin (parseNextR fuel n).1 (parseNextR fuel n).2 := by
  induction fuel generalizing n with
  | zero => omega
  | succ fuel ih =>
    cases hd : decHdr n.segs.flatten with
    | none =>
      by_cases hemp : n.segs.flatten = []
      · obtain ⟨n', hr⟩ := parseNextR_empty fuel n hemp
        have hfin := parseNextR_fin (fuel + 1) n
        rw [hr] at hfin ⊢
        exact ⟨hfin, fun _ => by rw [hemp]; exact Whole.nil tr, by intro l h; simp at h,
          by intro l h; simp at h, fun _ => dataFrom_none _ hd⟩
      · obtain ⟨e, n', hr, hne⟩ := parseNextR_cutHdr fuel n hemp hd
        have hfin := parseNextR_fin (fuel + 1) n
        rw [hr] at hfin ⊢
        exact ⟨hfin, by intro h; simp at h; exact absurd h hne, by intro l h; simp at h,
          by intro l h; simp at h, fun _ => dataFrom_none _ hd⟩
    | some p =>
      obtain ⟨t, l, rest⟩ := p
      have hlen := decHdr_length _ _ _ _ hd
      by_cases h0 : t = 0
      · subst h0
        obtain ⟨n2, hr, hfl, hfin⟩ := parseNextR_data fuel n l rest hd
        rw [hr]
        refine ⟨hfin, by intro h; simp at h, ?_, by intro l' h; simp at h, by intro h; exact absurd rfl (h l)⟩
        intro l' h
        simp only [Except.ok.injEq, H3Frame.data.injEq] at h
        subst h
        rw [hfl]
        exact ⟨dataFrom_data _ _ _ hd, fun hl hw _ => Whole.data _ rest l hd hl hw⟩
      by_cases h1 : t = 1
      · subst h1
        obtain ⟨n2, hr, hfl, hfin⟩ := parseNextR_headers fuel n l rest hd
        rw [hr]
        refine ⟨hfin, by intro h; simp at h, by intro l' h; simp at h, ?_,
          fun _ => dataFrom_stop _ _ _ _ hd (by simp) (by simp [skipT])⟩
        intro l' h
        simp only [Except.ok.injEq, H3Frame.headers.injEq] at h
        subst h
        rw [hfl]
        exact fun hl hw _ => Whole.trailer _ rest l hd hl hw
      cases hs : skipT t with
      | false =>
        have hfin := parseNextR_fin (fuel + 1) n
        have hstop := dataFrom_stop _ _ _ _ hd h0 (by simp [hs])
        rcases parseNextR_other fuel n t l rest hd h0 h1 hs with ⟨n', hr⟩ | ⟨e, n', hr, hne⟩
        · rw [hr] at hfin ⊢
          exact ⟨hfin, by intro h; simp at h, by intro l' h; simp at h, by intro l' h; simp at h, fun _ => hstop⟩
        · rw [hr] at hfin ⊢
          exact ⟨hfin, by intro h; simp at h; exact absurd h hne, by intro l' h; simp at h,
            by intro l' h; simp at h, fun _ => hstop⟩
      | true =>
        by_cases hl : l ≤ rest.length
        · obtain ⟨n3, hr, hfl3, hfin3⟩ := parseNextR_skip fuel n t l rest hd hs hl
          rw [hr]
          have hsz : n3.size < fuel := by
            rw [Net.size_eq] at hf ⊢
            rw [hfl3, List.length_drop]; omega
          have := ih n3 hsz
          rw [hfl3, hfin3] at this
          refine ⟨this.fin, fun h => Whole.skip tr _ rest t l hd hs hl (this.eof h), ?_, ?_, ?_⟩
          · intro l' h
            obtain ⟨a, b⟩ := this.data l' h
            exact ⟨(dataFrom_skip _ _ _ _ hd hs hl).trans a, fun h1 h2 h3 => by
              subst h3; exact Whole.skip false _ rest t l hd hs hl (b h1 h2 rfl)⟩
          · intro l' h
            exact fun h1 h2 h3 => by
              subst h3; exact Whole.skip false _ rest t l hd hs hl (this.headers l' h h1 h2 rfl)
          · intro h; exact (dataFrom_skip _ _ _ _ hd hs hl).trans (this.nodata h)
        · obtain ⟨e, n', hr, hne⟩ := parseNextR_cutSkip fuel n t l rest hd hs (by omega)
          have hfin := parseNextR_fin (fuel + 1) n
          rw [hr] at hfin ⊢
          exact ⟨hfin, by intro h; simp at h; exact absurd h hne, by intro l' h; simp at h,
            by intro l' h; simp at h, fun _ => dataFrom_stop _ _ _ _ hd h0 (by simp [hl])⟩

/-! ### `stream.Read` against the byte-level specification -/

/-- The DATA bytes the reader can still hand out. -/
def expS (s : H3Stream) : Bytes :=
  if s.parsedTrailer then [] else dataIn s.remInFrame s.net.segs.flatten

/-- From the reader's position on, the stream is a whole number of frames. -/
def WholeS (s : H3Stream) : Prop :=
  s.remInFrame ≤ s.net.segs.flatten.length ∧ Whole s.parsedTrailer (s.net.segs.flatten.drop s.remInFrame)

def InvS (s : H3Stream) : Prop := s.parsedTrailer = true → s.remInFrame = 0

theorem dataIn_split (r : Nat) (d bs' : Bytes) (h : d.length ≤ r) :
    dataIn r (d ++ bs') = d ++ dataIn (r - d.length) bs' := by
  unfold dataIn
  have h1 : (d ++ bs').take r = d ++ bs'.take (r - d.length) := by
    rw [List.take_append]; simp [List.take_of_length_le h]
  have h2 : (d ++ bs').drop r = bs'.drop (r - d.length) := by
    rw [List.drop_append]; simp [List.drop_of_length_le h]
  have h3 : (r ≤ (d ++ bs').length) ↔ (r - d.length ≤ bs'.length) := by
    simp only [List.length_append]; omega
  rw [h1, h2, List.append_assoc]
  congr 2
  by_cases hc : r ≤ (d ++ bs').length
  · rw [if_pos hc, if_pos (h3.mp hc)]
  · rw [if_neg hc, if_neg (fun x => hc (h3.mpr x))]

/-- Reading inside a DATA frame. -/
theorem readInFrame_spec (s : H3Stream) (k : Nat) (hpt : s.parsedTrailer = false) :
    let r := readInFrame s k
    r.2.parsedTrailer = false ∧
    (r.1.2 = none → expS s = r.1.1 ++ expS r.2 ∧ (WholeS r.2 → WholeS s)) ∧
    (r.1.2 ≠ none → r.1.1 = []) ∧
    (r.1.2 = some .eof → WholeS s ∧ expS s = []) := by
  unfold readInFrame
  rcases hr : s.net.read (min k s.remInFrame) with ⟨od, n'⟩
  cases od with
  | some d =>
    obtain ⟨hfl, hle, _, _⟩ := Net.read_some _ _ _ _ hr
    have hd : d.length ≤ s.remInFrame := by omega
    simp only []
    refine ⟨hpt, fun _ => ⟨?_, ?_⟩, by simp, by simp⟩
    · simp only [expS, hpt, Bool.false_eq_true, if_false]
      rw [hfl]; exact dataIn_split _ _ _ hd
    · intro ⟨h1, h2⟩
      simp only [] at h1 h2
      refine ⟨by rw [hfl, List.length_append]; omega, ?_⟩
      rw [hpt] at h2 ⊢
      rw [hfl, List.drop_append]
      simpa [List.drop_of_length_le hd] using h2
  | none =>
    obtain ⟨hemp, _, _⟩ := Net.read_none _ _ _ hr
    simp only []
    refine ⟨hpt, by simp, by simp, ?_⟩
    intro h
    simp only [Option.some.injEq] at h
    have hr0 : s.remInFrame = 0 := by
      by_cases hc : s.net.fin == .eof ∧ s.remInFrame > 0
      · simp [hc] at h
      · cases hf : s.net.fin with
        | reset => simp [hf, NetEnd.toH3, netend_beq] at h
        | eof => simp only [hf, netend_beq, true_and] at hc; omega
    refine ⟨⟨by rw [hr0]; omega, ?_⟩, ?_⟩
    · rw [hemp, hr0]; simp; exact Whole.nil _
    · simp only [expS, hpt, Bool.false_eq_true, if_false, hr0, hemp, dataIn_zero]
      exact dataFrom_none _ (by simp [decHdr, decVarint])

/-- **One `stream.Read` against the specification**: data handed out is the next part of the DATA
bytes the stream holds; an error comes without data; a clean `io.EOF` only where the rest of the
stream is a whole number of frames. -/
theorem readR_spec (s : H3Stream) (k : Nat) (hi : InvS s) :
    InvS (readR s k).2 ∧
    ((readR s k).1.2 = none → expS s = (readR s k).1.1 ++ expS (readR s k).2 ∧ (WholeS (readR s k).2 → WholeS s)) ∧
    ((readR s k).1.2 ≠ none → (readR s k).1.1 = []) ∧
    ((readR s k).1.2 = some .eof → WholeS s ∧ expS s = []) := by
  by_cases hrem : s.remInFrame ≠ 0
  · rw [show readR s k = readInFrame s k from by unfold readR; rw [if_pos hrem]]
    have hpt : s.parsedTrailer = false := by
      cases h : s.parsedTrailer with
      | false => rfl
      | true => exact absurd (hi h) hrem
    obtain ⟨a, b, c, d⟩ := readInFrame_spec s k hpt
    exact ⟨fun h => by rw [a] at h; simp at h, b, c, d⟩
  · have hr0 : s.remInFrame = 0 := by omega
    unfold readR
    rw [if_neg hrem]
    have hscan := parseNextR_scan s.parsedTrailer (s.net.size + 1) s.net (by omega)
    rcases hp : parseNextR (s.net.size + 1) s.net with ⟨r, n'⟩
    rw [hp] at hscan
    simp only [] at hscan
    have hexp0 : expS s = if s.parsedTrailer then [] else dataFrom s.net.segs.flatten := by
      simp [expS, hr0, dataIn_zero]
    have hwhole0 : Whole s.parsedTrailer s.net.segs.flatten → WholeS s := by
      intro h; exact ⟨by rw [hr0]; omega, by rw [hr0]; simpa using h⟩
    cases r with
    | error e =>
      simp only []
      refine ⟨hi, by simp, by simp, ?_⟩
      intro h; simp at h; subst h
      refine ⟨hwhole0 (hscan.eof rfl), ?_⟩
      rw [hexp0, hscan.nodata (by intro l h; simp at h)]; simp
    | ok f =>
      cases f with
      | settings =>
        simp only []
        exact ⟨hi, by simp, by simp, by simp⟩
      | data l =>
        simp only []
        by_cases hpt' : s.parsedTrailer = true
        · rw [if_pos hpt']
          exact ⟨by intro _; exact hr0, by simp, by simp, by simp⟩
        · rw [if_neg hpt']
          have hpt : s.parsedTrailer = false := by simpa using hpt'
          obtain ⟨hd, hw⟩ := hscan.data l rfl
          obtain ⟨a, b, c, d⟩ := readInFrame_spec ({ s with net := n', remInFrame := l } : H3Stream) k hpt
          have hexp1 : expS ({ s with net := n', remInFrame := l } : H3Stream) = expS s := by
            rw [hexp0]; simp [expS, hpt, hd]
          have hw1 : WholeS ({ s with net := n', remInFrame := l } : H3Stream) → WholeS s := by
            intro ⟨h1, h2⟩
            have h2' : Whole false (n'.segs.flatten.drop l) := by
              have : ({ s with net := n', remInFrame := l } : H3Stream).parsedTrailer = false := hpt
              rw [this] at h2; exact h2
            exact hwhole0 (by rw [hpt]; exact hw h1 h2' hpt)
          refine ⟨fun h => by rw [a] at h; simp at h, ?_, c, fun h => ⟨hw1 (d h).1, hexp1.symm.trans (d h).2⟩⟩
          intro h
          obtain ⟨e1, e2⟩ := b h
          exact ⟨hexp1.symm.trans e1, fun x => hw1 (e2 x)⟩
      | headers l =>
        simp only []
        by_cases hpt' : s.parsedTrailer = true
        · rw [if_pos hpt']
          exact ⟨by intro _; exact hr0, by simp, by simp, by simp⟩
        · rw [if_neg hpt']
          have hpt : s.parsedTrailer = false := by simpa using hpt'
          have hnd : dataFrom s.net.segs.flatten = [] := hscan.nodata (by intro l' h; simp at h)
          have hw := hscan.headers l rfl
          -- the trailer block
          have key : ∀ (e : Option H3Err) (s' : H3Stream),
              parseTrailerR ({ s with net := n', parsedTrailer := true } : H3Stream) l = (e, s') →
              s'.remInFrame = 0 ∧ s'.parsedTrailer = true ∧ e ≠ some .eof ∧
              (e = none → l ≤ n'.segs.flatten.length ∧ s'.net.segs.flatten = n'.segs.flatten.drop l) := by
            intro e s' hpt'
            have hne := parseTrailerR_ne_eof ({ s with net := n', parsedTrailer := true } : H3Stream) l
            rw [hpt'] at hne
            unfold parseTrailerR at hpt'
            split at hpt'
            · simp at hpt'; obtain ⟨rfl, rfl⟩ := hpt'; exact ⟨hr0, rfl, hne, by simp⟩
            · by_cases hl : l ≤ n'.segs.flatten.length
              · obtain ⟨n3, hr3, hfl3, _⟩ := Net.readN_spec (l + 1) l [] n' (n'.segs.flatten.take l)
                  (n'.segs.flatten.drop l) (by simp) (by rw [List.length_take]; omega) (by omega)
                simp only [] at hpt'
                rw [hr3] at hpt'
                simp only [] at hpt'
                split at hpt'
                · simp at hpt'; obtain ⟨rfl, rfl⟩ := hpt'; exact ⟨hr0, rfl, hne, by simp⟩
                · split at hpt'
                  · simp at hpt'; obtain ⟨rfl, rfl⟩ := hpt'; exact ⟨hr0, rfl, hne, by simp⟩
                  · simp at hpt'; obtain ⟨rfl, rfl⟩ := hpt'; exact ⟨hr0, rfl, hne, fun _ => ⟨hl, hfl3⟩⟩
              · obtain ⟨p, n3, hr3⟩ := readN_short (l + 1) l [] n' (by omega) (by omega)
                simp only [] at hpt'
                rw [hr3] at hpt'
                simp at hpt'; obtain ⟨rfl, rfl⟩ := hpt'; exact ⟨hr0, rfl, hne, by simp⟩
          rcases hpt' : parseTrailerR ({ s with net := n', parsedTrailer := true } : H3Stream) l with ⟨e, s'⟩
          obtain ⟨k1, k2, k3, k4⟩ := key e s' hpt'
          simp only []
          refine ⟨fun _ => k1, ?_, by simp, fun h => absurd h k3⟩
          intro he
          obtain ⟨hl, hfl'⟩ := k4 he
          refine ⟨by rw [hexp0]; simp [hpt, hnd, expS, k2], ?_⟩
          intro ⟨h1, h2⟩
          rw [k1, k2, hfl'] at h2
          simp only [List.drop_zero] at h2
          exact hwhole0 (by rw [hpt]; exact hw hl h2 hpt)

/-! ### `body.Read` and whole runs against the specification -/

theorem bodyReadR_spec (b : H3Body) (k : Nat) (hi : InvS b.str) :
    InvS (bodyReadR b k).2.str ∧
    ((bodyReadR b k).1.2 = none →
      expS b.str = (bodyReadR b k).1.1 ++ expS (bodyReadR b k).2.str ∧
      (WholeS (bodyReadR b k).2.str → WholeS b.str)) ∧
    (∃ t, expS b.str = (bodyReadR b k).1.1 ++ t) ∧
    ((bodyReadR b k).1.2 = some .eof → WholeS b.str ∧ expS b.str = [] ∧ (bodyReadR b k).1.1 = []) := by
  rcases bodyReadR_cases b k with ⟨_, h⟩ | ⟨_, k', _, _, h⟩
  · rw [h]; exact ⟨hi, by simp, ⟨expS b.str, by simp⟩, by simp⟩
  · obtain ⟨a, bb, c, d⟩ := readR_spec b.str k' hi
    have hex : ∃ t, expS b.str = (readR b.str k').1.1 ++ t := by
      cases he : (readR b.str k').1.2 with
      | none => exact ⟨_, (bb he).1⟩
      | some e => rw [c (by simp [he])]; exact ⟨expS b.str, by simp⟩
    rw [h]
    split
    · exact ⟨a, by simp, hex, by simp⟩
    · split
      · exact ⟨a, by simp, hex, by simp⟩
      · exact ⟨a, bb, hex, fun h => ⟨(d h).1, (d h).2, c (by simp only [] at h; simp [h])⟩⟩

/-- **Every run hands out a prefix of the DATA bytes the stream holds.** -/
theorem run_prefix (b : H3Body) (ks : List Nat) (hi : InvS b.str) :
    outBytes (bodyRunR b ks).1 <+: expS b.str := by
  induction ks generalizing b with
  | nil => simp [bodyRunR_nil, outBytes]
  | cons k ks ih =>
    rw [bodyRunR_cons]
    obtain ⟨a, bb, ⟨t, ht⟩, _⟩ := bodyReadR_spec b k hi
    cases he : (bodyReadR b k).1.2 with
    | some e => simp only [outBytes_cons, outBytes_nil, List.append_nil]; exact ⟨t, ht.symm⟩
    | none =>
      simp only [outBytes_cons]
      obtain ⟨h1, _⟩ := bb he
      obtain ⟨t', ht'⟩ := ih _ a
      exact ⟨t', by rw [h1, ← ht', List.append_assoc]⟩

/-- **A run that ends with a clean `io.EOF` started where the stream is a whole number of frames.** -/
theorem run_eof_whole (b : H3Body) (ks : List Nat) (hi : InvS b.str)
    (h : lastErr (bodyRunR b ks).1 = some .eof) : WholeS b.str ∧ outBytes (bodyRunR b ks).1 = expS b.str := by
  induction ks generalizing b with
  | nil => simp [bodyRunR_nil, lastErr] at h
  | cons k ks ih =>
    rw [bodyRunR_cons] at h ⊢
    obtain ⟨a, bb, _, d⟩ := bodyReadR_spec b k hi
    cases he : (bodyReadR b k).1.2 with
    | some e =>
      rw [he] at h
      simp only [lastErr_single] at h
      injection h with h; subst h
      obtain ⟨d1, d2, d3⟩ := d he
      exact ⟨d1, by simp [outBytes, d2, d3]⟩
    | none =>
      rw [he] at h
      simp only [] at h ⊢
      by_cases hne : (bodyRunR (bodyReadR b k).2 ks).1 = []
      · rw [hne] at h; simp [lastErr] at h
      · rw [lastErr_cons_ne _ _ hne] at h
        obtain ⟨w, o⟩ := ih _ a h
        exact ⟨(bb he).2 w, by simp only [outBytes_cons]; rw [o, (bb he).1]⟩

/-! ### well-formed frame sequences and cuts inside a frame -/

theorem decVarintTail_append (k acc : Nat) (a x : Bytes) (v : Nat) (r : Bytes)
    (h : decVarintTail k acc a = some (v, r)) : decVarintTail k acc (a ++ x) = some (v, r ++ x) := by
  induction k generalizing acc a with
  | zero => simp [decVarintTail] at h ⊢; obtain ⟨rfl, rfl⟩ := h; simp
  | succ k ih =>
    cases a with
    | nil => simp [decVarintTail] at h
    | cons b a => simp only [decVarintTail, List.cons_append] at h ⊢; exact ih _ _ h

theorem decVarint_append (a x : Bytes) (v : Nat) (r : Bytes) (h : decVarint a = some (v, r)) :
    decVarint (a ++ x) = some (v, r ++ x) := by
  cases a with
  | nil => simp [decVarint] at h
  | cons b a => simp only [decVarint, List.cons_append] at h ⊢; exact decVarintTail_append _ _ _ _ _ _ h

theorem decHdr_append (a x : Bytes) (t l : Nat) (r : Bytes) (h : decHdr a = some (t, l, r)) :
    decHdr (a ++ x) = some (t, l, r ++ x) := by
  unfold decHdr at h ⊢
  cases h1 : decVarint a with
  | none => simp [h1] at h
  | some p =>
    obtain ⟨t', r1⟩ := p
    rw [h1] at h
    simp only [] at h
    cases h2 : decVarint r1 with
    | none => simp [h2] at h
    | some q =>
      obtain ⟨l', r2⟩ := q
      rw [h2] at h
      simp only [Option.some.injEq, Prod.mk.injEq] at h
      obtain ⟨rfl, rfl, rfl⟩ := h
      rw [decVarint_append _ x _ _ h1]
      simp only []
      rw [decVarint_append _ x _ _ h2]

/-- Inverting `Whole` on bytes whose frame header is known. -/
theorem Whole.next {tr : Bool} {bs rest : Bytes} {t l : Nat} (h : Whole tr bs) (hd : decHdr bs = some (t, l, rest)) :
    l ≤ rest.length ∧ ∃ tr', Whole tr' (rest.drop l) := by
  cases h with
  | nil => simp [decHdr, decVarint] at hd
  | data _ rest' l' hd' hl hw =>
    rw [hd] at hd'; simp only [Option.some.injEq, Prod.mk.injEq] at hd'
    obtain ⟨_, rfl, rfl⟩ := hd'
    exact ⟨hl, _, hw⟩
  | trailer _ rest' l' hd' hl hw =>
    rw [hd] at hd'; simp only [Option.some.injEq, Prod.mk.injEq] at hd'
    obtain ⟨_, rfl, rfl⟩ := hd'
    exact ⟨hl, _, hw⟩
  | skip _ _ rest' t' l' hd' _ hl hw =>
    rw [hd] at hd'; simp only [Option.some.injEq, Prod.mk.injEq] at hd'
    obtain ⟨_, rfl, rfl⟩ := hd'
    exact ⟨hl, _, hw⟩

/-- **A stream cut strictly inside a frame is not a whole number of frames**: whatever complete
frames came before, wherever inside the frame (its header or its payload) the cut falls. -/
theorem not_whole_cut (frs : List WFrame) (hfrs : ∀ f ∈ frs, f.OK) (g : WFrame) (hg : g.OK) (j : Nat)
    (hj0 : 0 < j) (hj : j < g.wire.length) (tr : Bool) :
    ¬Whole tr (framesWire frs ++ g.wire.take j) := by
  induction frs generalizing tr with
  | cons f frs ih =>
    intro hw
    have hd : decHdr (framesWire (f :: frs) ++ g.wire.take j) =
        some (f.typ, f.payload.length, f.payload ++ (framesWire frs ++ g.wire.take j)) := by
      have := hfrs f (by simp) (f.payload ++ (framesWire frs ++ g.wire.take j))
      rw [← this]
      simp [framesWire, WFrame.wire, List.append_assoc]
    obtain ⟨_, tr', hw'⟩ := hw.next hd
    simp only [List.drop_left] at hw'
    exact ih (fun f' hf' => hfrs f' (by simp [hf'])) tr' hw'
  | nil =>
    intro hw
    simp only [framesWire, List.map_nil, List.flatten_nil, List.nil_append] at hw
    have hne : g.wire.take j ≠ [] := by
      intro h0
      have := congrArg List.length h0
      simp only [List.length_take, List.length_nil] at this
      omega
    by_cases hjh : j < g.hdr.length
    · -- inside the header: no header decodes from a strict prefix of it
      have htk : g.wire.take j = g.hdr.take j := by
        simp only [WFrame.wire]; rw [List.take_append_of_le_length (by omega)]
      rw [htk] at hw hne
      cases hdh : decHdr (g.hdr.take j) with
      | none =>
        generalize hbs : g.hdr.take j = bs at hw hne hdh
        cases hw with
        | nil => exact hne rfl
        | data _ _ _ hd' _ _ => rw [hdh] at hd'; simp at hd'
        | trailer _ _ _ hd' _ _ => rw [hdh] at hd'; simp at hd'
        | skip _ _ _ _ _ hd' _ _ _ => rw [hdh] at hd'; simp at hd'
      | some p =>
        obtain ⟨t, l, r⟩ := p
        have := decHdr_append _ (g.hdr.drop j) _ _ _ hdh
        rw [List.take_append_drop] at this
        have hok := hg []
        rw [List.append_nil] at hok
        rw [hok] at this
        simp only [Option.some.injEq, Prod.mk.injEq] at this
        obtain ⟨_, _, h3⟩ := this
        have : (g.hdr.drop j).length = 0 := by
          have := congrArg List.length h3
          simp only [List.length_nil, List.length_append] at this
          omega
        simp only [List.length_drop] at this
        omega
    · -- inside the payload: the announced length is not there
      have htk : g.wire.take j = g.hdr ++ g.payload.take (j - g.hdr.length) := by
        simp only [WFrame.wire]; rw [List.take_append]; simp [List.take_of_length_le (by omega : g.hdr.length ≤ j)]
      rw [htk] at hw
      have hd := hg (g.payload.take (j - g.hdr.length))
      obtain ⟨hl, _⟩ := hw.next hd
      simp only [WFrame.wire, List.length_append] at hj
      simp only [List.length_take] at hl
      omega

/-- Complete body frames in front are read through: their DATA payloads, then whatever follows. -/
theorem dataFrom_frames (frs : List WFrame) (hfrs : ∀ f ∈ frs, BodyFrameOK f) (tail : Bytes) :
    dataFrom (framesWire frs ++ tail) = h3DataOf frs ++ dataFrom tail := by
  induction frs with
  | nil => simp [framesWire, h3DataOf]
  | cons f frs ih =>
    obtain ⟨hok, hty⟩ := hfrs f (by simp)
    have hd : decHdr (framesWire (f :: frs) ++ tail) =
        some (f.typ, f.payload.length, f.payload ++ (framesWire frs ++ tail)) := by
      rw [← hok (f.payload ++ (framesWire frs ++ tail))]
      simp [framesWire, WFrame.wire, List.append_assoc]
    have ih' := ih (fun g hg => hfrs g (by simp [hg]))
    rcases hty with h0 | hsk
    · have hd0 : decHdr (framesWire (f :: frs) ++ tail) =
          some (0, f.payload.length, f.payload ++ (framesWire frs ++ tail)) := by rw [hd, h0]
      rw [dataFrom_data _ _ _ hd0, h3DataOf_cons_data f frs h0]
      simp [dataIn, ih', List.append_assoc]
    · have hs : skipT f.typ = true := by
        obtain ⟨a, b, c, d, e, g, h⟩ := hsk
        simp [skipT, a, b, c, d, e, g, h]
      rw [dataFrom_skip _ _ _ _ hd hs (by simp)]
      have : h3DataOf (f :: frs) = h3DataOf frs := by simp [h3DataOf, hsk.1]
      rw [this]
      simpa using ih'

/-- A complete sequence of body frames is a whole number of frames. -/
theorem whole_frames (frs : List WFrame) (hfrs : ∀ f ∈ frs, BodyFrameOK f) : Whole false (framesWire frs) := by
  induction frs with
  | nil => exact Whole.nil false
  | cons f frs ih =>
    obtain ⟨hok, hty⟩ := hfrs f (by simp)
    have hd : decHdr (framesWire (f :: frs)) = some (f.typ, f.payload.length, f.payload ++ framesWire frs) := by
      rw [← hok (f.payload ++ framesWire frs)]
      simp [framesWire, WFrame.wire, List.append_assoc]
    have ih' := ih (fun g hg => hfrs g (by simp [hg]))
    rcases hty with h0 | hsk
    · rw [h0] at hd
      exact Whole.data _ _ _ hd (by simp) (by simpa using ih')
    · have hs : skipT f.typ = true := by
        obtain ⟨a, b, c, d, e, g, h⟩ := hsk
        simp [skipT, a, b, c, d, e, g, h]
      exact Whole.skip false _ _ _ _ hd hs (by simp) (by simpa using ih')

end Req.C03
