import Req.C07.DataBuf
/-! Invariant of the HTTP/2 receive buffer model (`Req.C07.DataBuf`) — helper lemmas for
`Req.Props.C07R6`. -/
namespace Req.C07.DataBuf

def firstCap : List Nat → Nat
  | [] => 0
  | c :: _ => c

theorem total_append (l : List Nat) (c : Nat) : total (l ++ [c]) = total l + c := by
  induction l with
  | nil => simp [total]
  | cons a r ih => simp [total, ih]; omega

theorem lastCap_append (l : List Nat) (c : Nat) : lastCap (l ++ [c]) = c := by
  induction l with
  | nil => simp [lastCap]
  | cons a r ih =>
    cases r with
    | nil => simp [lastCap]
    | cons a2 r2 => simpa [lastCap] using ih

theorem firstCap_append (l : List Nat) (c : Nat) (h : l ≠ []) : firstCap (l ++ [c]) = firstCap l := by
  cases l with
  | nil => exact absurd rfl h
  | cons a r => simp [firstCap]

theorem lastCap_le_total (l : List Nat) : lastCap l ≤ total l := by
  induction l with
  | nil => simp [lastCap, total]
  | cons a r ih =>
    cases r with
    | nil => simp [lastCap, total]
    | cons a2 r2 => simp only [lastCap, total] at ih ⊢; omega

theorem lastCap_bound (l : List Nat) (M : Nat) (h : ∀ c ∈ l, 0 < c ∧ c ≤ M) : lastCap l ≤ M := by
  induction l with
  | nil => simp [lastCap]
  | cons a r ih =>
    cases r with
    | nil => simpa [lastCap] using (h a (by simp)).2
    | cons a2 r2 =>
      simp only [lastCap]
      exact ih (fun c hc => h c (List.mem_cons_of_mem _ hc))

theorem chunkClass_pos (want : Int) : 0 < chunkClass want := by
  unfold chunkClass; repeat' split <;> try omega

theorem chunkClass_le (want : Int) : chunkClass want ≤ maxChunk := by
  unfold chunkClass maxChunk; repeat' split <;> try omega

/-- what holds in every reachable state -/
structure Inv (b : Buf) : Prop where
  caps : ∀ c ∈ b.chunks, 0 < c ∧ c ≤ maxChunk
  recv : b.r + b.size ≤ b.recv
  empty : b.chunks = [] → b.size = 0 ∧ b.r = 0
  full : b.chunks ≠ [] →
    total b.chunks + b.w = b.r + b.size + lastCap b.chunks ∧ b.w ≤ lastCap b.chunks ∧ b.r < firstCap b.chunks

theorem inv_init (e : Int) : Inv { expected := e } :=
  ⟨by simp, by simp, by simp, by simp⟩

theorem ensure_spec (b : Buf) (want : Int) (h : Inv b) :
    Inv (b.ensure want) ∧ (b.ensure want).chunks ≠ [] ∧
    (b.ensure want).w < lastCap (b.ensure want).chunks ∧
    (b.ensure want).size = b.size ∧ (b.ensure want).r = b.r ∧ (b.ensure want).recv = b.recv ∧
    (b.ensure want).expected = b.expected := by
  unfold Buf.ensure
  split
  · rename_i hc; exact ⟨h, hc.1, hc.2, rfl, rfl, rfl, rfl⟩
  · rename_i hc
    have hp := chunkClass_pos want
    have hl := chunkClass_le want
    refine ⟨⟨?_, h.recv, ?_, ?_⟩, by simp, by simpa [lastCap_append] using hp, rfl, rfl, rfl, rfl⟩
    · intro c hc'
      simp only [List.mem_append, List.mem_singleton] at hc'
      rcases hc' with hc' | hc'
      · exact h.caps c hc'
      · subst hc'; exact ⟨hp, hl⟩
    · intro he; simp at he
    · intro _
      simp only [total_append, lastCap_append]
      by_cases hne : b.chunks = []
      · have := h.empty hne
        simp [hne, total, firstCap]; omega
      · have hf := h.full hne
        have hw : ¬ b.w < lastCap b.chunks := fun hw => hc ⟨hne, hw⟩
        rw [firstCap_append _ _ hne]
        omega

theorem writeStep_inv (b : Buf) (n : Nat) (hn : 0 < n) (h : Inv b) :
    Inv (b.writeStep n).1 ∧ 0 < (b.writeStep n).2 ∧ (b.writeStep n).2 ≤ n ∧
    (b.writeStep n).1.size = b.size + (b.writeStep n).2 ∧
    (b.writeStep n).1.recv = b.recv + (b.writeStep n).2 := by
  simp only [Buf.writeStep]
  generalize hw : (if b.expected > (n : Int) then b.expected else (n : Int)) = want
  obtain ⟨hi, hne, hroom, hs, hr, hrc, _⟩ := ensure_spec b want h
  have hf := hi.full hne
  refine ⟨⟨hi.caps, ?_, ?_, ?_⟩, ?_, ?_, ?_, ?_⟩
  · have := hi.recv; simp only; omega
  · intro he; exact absurd he hne
  · intro _; simp only; omega
  · omega
  · omega
  · simp only [hs]
  · simp only [hrc]

theorem readStep_inv (b : Buf) (n : Nat) (hn : 0 < n) (hsz : 0 < b.size) (h : Inv b) :
    Inv (b.readStep n).1 ∧ 0 < (b.readStep n).2 ∧ (b.readStep n).2 ≤ n ∧
    (b.readStep n).1.size + (b.readStep n).2 = b.size ∧ (b.readStep n).1.recv = b.recv := by
  unfold Buf.readStep
  cases hc : b.chunks with
  | nil => have := (h.empty hc).1; omega
  | cons c rest =>
    have hne : b.chunks ≠ [] := by simp [hc]
    have hf := h.full hne
    have hcaps := h.caps
    have hrecv := h.recv
    rw [hc] at hf hcaps
    simp only [firstCap] at hf
    cases rest with
    | nil =>
      simp only [total, lastCap, ↓reduceIte] at hf ⊢
      split
      · rename_i hpop
        refine ⟨⟨by simp, by simp only; omega, ?_, by simp⟩, by omega, by omega, by simp only; omega, rfl⟩
        intro _; simp only [and_true]; omega
      · rename_i hpop
        refine ⟨⟨by simpa using hcaps, by simp only; omega, by simp, ?_⟩, by omega, by omega, by simp only; omega, rfl⟩
        intro _; simp only [total, lastCap, firstCap]; omega
    | cons c2 r2 =>
      have hlt := lastCap_le_total (c2 :: r2)
      have hc2 := (hcaps c2 (by simp)).1
      simp only [total, lastCap] at hf hlt
      simp only [reduceCtorEq, if_false]
      split
      · rename_i hpop
        refine ⟨⟨?_, by simp only; omega, by simp, ?_⟩, by omega, by omega, by simp only; omega, rfl⟩
        · intro x hx; exact hcaps x (List.mem_cons_of_mem _ hx)
        · intro _; simp only [total, firstCap]; omega
      · rename_i hpop
        refine ⟨⟨by simpa using hcaps, by simp only; omega, by simp, ?_⟩, by omega, by omega, by simp only; omega, rfl⟩
        intro _; simp only [total, lastCap, firstCap]; omega

theorem step_inv (b : Buf) (e : Ev) (h : Inv b) : Inv (step b e) := by
  cases e with
  | wstep n =>
    simp only [step]
    split
    · exact h
    · exact (writeStep_inv b n (by omega) h).1
  | rstep n =>
    simp only [step]
    split
    · exact h
    · rename_i hh
      exact (readStep_inv b n (by omega) (by omega) h).1

theorem run_inv (b : Buf) (es : List Ev) (h : Inv b) : Inv (run b es) := by
  induction es generalizing b with
  | nil => exact h
  | cons e es ih => exact ih _ (step_inv b e h)

/-- the two budget statements, from the invariant -/
theorem inv_budget (b : Buf) (h : Inv b) :
    b.held ≤ b.recv + maxChunk ∧ b.held ≤ b.size + 2 * maxChunk := by
  unfold Buf.held
  by_cases hne : b.chunks = []
  · simp [hne, total]
  · have hf := h.full hne
    have hl := lastCap_bound b.chunks maxChunk h.caps
    have hr := h.recv
    have hfc : firstCap b.chunks ≤ maxChunk := by
      cases hc : b.chunks with
      | nil => exact absurd hc hne
      | cons c r => simpa [firstCap] using (h.caps c (by simp [hc])).2
    omega

/-- `Write` terminates with everything copied: fuel `n` suffices (every iteration copies ≥ 1 byte) -/
theorem write_spec (fuel n : Nat) (b : Buf) (h : Inv b) (hf : n ≤ fuel) :
    Inv (Buf.write fuel b n) ∧ (Buf.write fuel b n).size = b.size + n ∧
    (Buf.write fuel b n).recv = b.recv + n := by
  induction fuel generalizing b n with
  | zero =>
    have : n = 0 := by omega
    subst this; simp [Buf.write, h]
  | succ fuel ih =>
    cases n with
    | zero => simp [Buf.write, h]
    | succ n =>
      simp only [Buf.write]
      obtain ⟨hi, hpos, hle, hs, hr⟩ := writeStep_inv b (n + 1) (by omega) h
      obtain ⟨hi2, hs2, hr2⟩ := ih (n + 1 - (b.writeStep (n + 1)).2) (b.writeStep (n + 1)).1 hi (by omega)
      exact ⟨hi2, by omega, by omega⟩

end Req.C07.DataBuf
