import Req.Client.Backoff64
/-! Helper lemmas about `float64(int64)` rounding (`Req.Backoff64.roundF`): a case analysis over
the eleven binades between 2^53 and 2^63, each closed by `omega`. -/
namespace Req.Lemmas.C10Backoff64
open Req.Backoff64

theorem shiftOf_spec (n : Nat) :
    (shiftOf n = 0 ∧ n < 9007199254740992) ∨
    (shiftOf n = 1 ∧ 9007199254740992 ≤ n ∧ n < 18014398509481984) ∨
    (shiftOf n = 2 ∧ 18014398509481984 ≤ n ∧ n < 36028797018963968) ∨
    (shiftOf n = 3 ∧ 36028797018963968 ≤ n ∧ n < 72057594037927936) ∨
    (shiftOf n = 4 ∧ 72057594037927936 ≤ n ∧ n < 144115188075855872) ∨
    (shiftOf n = 5 ∧ 144115188075855872 ≤ n ∧ n < 288230376151711744) ∨
    (shiftOf n = 6 ∧ 288230376151711744 ≤ n ∧ n < 576460752303423488) ∨
    (shiftOf n = 7 ∧ 576460752303423488 ≤ n ∧ n < 1152921504606846976) ∨
    (shiftOf n = 8 ∧ 1152921504606846976 ≤ n ∧ n < 2305843009213693952) ∨
    (shiftOf n = 9 ∧ 2305843009213693952 ≤ n ∧ n < 4611686018427387904) ∨
    (shiftOf n = 10 ∧ 4611686018427387904 ≤ n ∧ n < 9223372036854775808) ∨
    (shiftOf n = 11 ∧ 9223372036854775808 ≤ n) := by
  unfold shiftOf
  by_cases h0 : n < 9007199254740992
  · exact Or.inl ⟨by simp only [h0, ↓reduceIte], h0⟩
  ·
    by_cases h1 : n < 18014398509481984
    · exact Or.inr (Or.inl ⟨by simp only [h0, h1, ↓reduceIte], by omega, h1⟩)
    ·
      by_cases h2 : n < 36028797018963968
      · exact Or.inr (Or.inr (Or.inl ⟨by simp only [h0, h1, h2, ↓reduceIte], by omega, h2⟩))
      ·
        by_cases h3 : n < 72057594037927936
        · exact Or.inr (Or.inr (Or.inr (Or.inl ⟨by simp only [h0, h1, h2, h3, ↓reduceIte], by omega, h3⟩)))
        ·
          by_cases h4 : n < 144115188075855872
          · exact Or.inr (Or.inr (Or.inr (Or.inr (Or.inl ⟨by simp only [h0, h1, h2, h3, h4, ↓reduceIte], by omega, h4⟩))))
          ·
            by_cases h5 : n < 288230376151711744
            · exact Or.inr (Or.inr (Or.inr (Or.inr (Or.inr (Or.inl ⟨by simp only [h0, h1, h2, h3, h4, h5, ↓reduceIte], by omega, h5⟩)))))
            ·
              by_cases h6 : n < 576460752303423488
              · exact Or.inr (Or.inr (Or.inr (Or.inr (Or.inr (Or.inr (Or.inl ⟨by simp only [h0, h1, h2, h3, h4, h5, h6, ↓reduceIte], by omega, h6⟩))))))
              ·
                by_cases h7 : n < 1152921504606846976
                · exact Or.inr (Or.inr (Or.inr (Or.inr (Or.inr (Or.inr (Or.inr (Or.inl ⟨by simp only [h0, h1, h2, h3, h4, h5, h6, h7, ↓reduceIte], by omega, h7⟩)))))))
                ·
                  by_cases h8 : n < 2305843009213693952
                  · exact Or.inr (Or.inr (Or.inr (Or.inr (Or.inr (Or.inr (Or.inr (Or.inr (Or.inl ⟨by simp only [h0, h1, h2, h3, h4, h5, h6, h7, h8, ↓reduceIte], by omega, h8⟩))))))))
                  ·
                    by_cases h9 : n < 4611686018427387904
                    · exact Or.inr (Or.inr (Or.inr (Or.inr (Or.inr (Or.inr (Or.inr (Or.inr (Or.inr (Or.inl ⟨by simp only [h0, h1, h2, h3, h4, h5, h6, h7, h8, h9, ↓reduceIte], by omega, h9⟩)))))))))
                    ·
                      by_cases h10 : n < 9223372036854775808
                      · exact Or.inr (Or.inr (Or.inr (Or.inr (Or.inr (Or.inr (Or.inr (Or.inr (Or.inr (Or.inr (Or.inl ⟨by simp only [h0, h1, h2, h3, h4, h5, h6, h7, h8, h9, h10, ↓reduceIte], by omega, h10⟩))))))))))
                      ·
                        exact Or.inr (Or.inr (Or.inr (Or.inr (Or.inr (Or.inr (Or.inr (Or.inr (Or.inr (Or.inr (Or.inr (⟨by simp only [h0, h1, h2, h3, h4, h5, h6, h7, h8, h9, h10, ↓reduceIte], by omega⟩)))))))))))

/-- Below 2^53 the conversion is exact. -/
theorem roundF_small (n : Nat) (h : n < 9007199254740992) : roundF n = n := by
  unfold roundF shiftOf
  simp [h]

macro "binade_cases" n:term : tactic => `(tactic|
  (rcases shiftOf_spec $n with ⟨hs, h1⟩ | ⟨hs, h1, h2⟩ | ⟨hs, h1, h2⟩ | ⟨hs, h1, h2⟩ | ⟨hs, h1, h2⟩ | ⟨hs, h1, h2⟩ |
      ⟨hs, h1, h2⟩ | ⟨hs, h1, h2⟩ | ⟨hs, h1, h2⟩ | ⟨hs, h1, h2⟩ | ⟨hs, h1, h2⟩ | ⟨hs, h1⟩ <;>
    simp only [roundF, hs, roundAt, Nat.reducePow, Nat.reduceDiv, ↓reduceIte, Nat.reduceEqDiff, Nat.succ_ne_zero]))

/-- `float64(n)` is within half an ulp of `n`: the error is at most `n / 2^53`. -/
theorem roundF_close (n : Nat) (hn : n ≤ 9223372036854775808) :
    roundF n ≤ n + n / 9007199254740992 ∧ n ≤ roundF n + n / 9007199254740992 := by
  binade_cases n
  all_goals (first | omega | (split <;> omega))

/-- `float64(MaxInt64) = 2^63`: the conversion never leaves `[0, 2^63]`. -/
theorem roundF_le_pow63 (n : Nat) (hn : n ≤ 9223372036854775808) : roundF n ≤ 9223372036854775808 := by
  binade_cases n
  all_goals (first | omega | (split <;> omega))

theorem roundF_pos (n : Nat) (hn : n ≤ 9223372036854775808) (h : 1 ≤ n) : 1 ≤ roundF n := by
  have := roundF_close n hn
  omega

theorem roundF_two (n : Nat) (hn : n ≤ 9223372036854775808) (h : 2 ≤ n) : 2 ≤ roundF n := by
  have := roundF_close n hn
  omega

theorem roundF_zero : roundF 0 = 0 := by decide

/-- Below 2^54 the conversion is off by at most 1. -/
theorem roundF_near (n : Nat) (h : n < 18014398509481984) : roundF n ≤ n + 1 ∧ n ≤ roundF n + 1 := by
  have := roundF_close n (by omega)
  omega

/-! ### `toF` on `int64` values -/

theorem toF_of_nonneg (x : Int) (h : 0 ≤ x) : toF x = (roundF x.toNat : Int) := by
  unfold toF
  simp [Int.not_lt.mpr h]

theorem toF_of_neg (x : Int) (h : x < 0) : toF x = -(roundF x.natAbs : Int) := by
  unfold toF
  simp [h]

theorem toF_exact (x : Int) (h1 : -9007199254740992 < x) (h2 : x < 9007199254740992) : toF x = x := by
  by_cases hx : x < 0
  · rw [toF_of_neg x hx, roundF_small _ (by omega)]; omega
  · rw [toF_of_nonneg x (by omega), roundF_small _ (by omega)]; omega

theorem toF_pos (x : Int) (h : 0 < x) (hx : x ≤ 9223372036854775808) : 1 ≤ toF x := by
  rw [toF_of_nonneg x (by omega)]
  have := roundF_pos x.toNat (by omega) (by omega)
  omega

theorem toF_two (x : Int) (h : 2 ≤ x) (hx : x ≤ 9223372036854775808) : 2 ≤ toF x := by
  rw [toF_of_nonneg x (by omega)]
  have := roundF_two x.toNat (by omega) (by omega)
  omega

theorem toF_le_pow63 (x : Int) (hx : x ≤ 9223372036854775808) : toF x ≤ 9223372036854775808 := by
  by_cases h : x < 0
  · rw [toF_of_neg x h]; omega
  · rw [toF_of_nonneg x (by omega)]
    have := roundF_le_pow63 x.toNat (by omega)
    omega

theorem toF_nonpos (x : Int) (h : x ≤ 0) : toF x ≤ 0 := by
  by_cases hx : x < 0
  · rw [toF_of_neg x hx]; omega
  · have : x = 0 := by omega
    subst this
    rw [toF_of_nonneg 0 (by omega)]
    simp [roundF_zero]

theorem toF_near (x : Int) (h0 : 0 ≤ x) (h : x < 18014398509481984) : toF x ≤ x + 1 ∧ x ≤ toF x + 1 := by
  rw [toF_of_nonneg x h0]
  have := roundF_near x.toNat (by omega)
  omega

end Req.Lemmas.C10Backoff64
