import Req.Client.RedirectLoop
import Req.Lemmas.C11Chain
import Req.Lemmas.C11Hdr
/-! C11: invariants of the whole hop loop (`Req.Redirect.Loop.run`). -/
namespace Req.Lemmas.C11Loop
open Req.Proto Req.Ascii Req.Redirect Req.Redirect.Loop Req.Lemmas.C11

/-- `via` of a non-empty list of requests (oldest first). -/
def viaL : List Loop.Req → Via
  | [] => { first := ⟨[], []⟩ }
  | f :: rest => { first := f.toHop, rest := rest.map Req.toHop }

theorem viaOf_eq (prev : List Loop.Req) (last : Loop.Req) : viaOf prev last = viaL (prev ++ [last]) := by
  cases prev <;> simp [viaOf, viaL]

theorem viaL_length (l : List Loop.Req) (h : l ≠ []) : (viaL l).length = l.length := by
  cases l with
  | nil => exact absurd rfl h
  | cons f rest => simp [viaL, Via.length]

/-! ### `send` only touches the header map -/

@[simp] theorem sendMutate_url (cfg : Config) (j : Jar) (r : Loop.Req) : (sendMutate cfg j r).url = r.url := by
  unfold sendMutate; split <;> rfl

@[simp] theorem sendMutate_method (cfg : Config) (j : Jar) (r : Loop.Req) :
    (sendMutate cfg j r).method = r.method := by
  unfold sendMutate; split <;> rfl

@[simp] theorem sendMutate_hostField (cfg : Config) (j : Jar) (r : Loop.Req) :
    (sendMutate cfg j r).hostField = r.hostField := by
  unfold sendMutate; split <;> rfl

@[simp] theorem sendMutate_body (cfg : Config) (j : Jar) (r : Loop.Req) :
    (sendMutate cfg j r).body = r.body := by
  unfold sendMutate; split <;> rfl

/-! ### one iteration, as a relation -/

/-- One followed redirect: from state `st` with `cur` about to be sent and reply `r`, the loop
continues in state `st'` with `next` about to be sent. -/
structure Step (cfg : Config) (st : State) (cur : Loop.Req) (r : Reply) (rm : Bytes) (inclBody : Bool)
    (u : Url) (st' : State) (next : Loop.Req) : Prop where
  hbeh : redirectBehavior cur.method r.status (cfg.getBody || cfg.noBody) = some (rm, inclBody)
  hres : resolve cur.url r.loc = some u
  hprev : st'.prev = st.prev ++ [sendMutate cfg st.jar cur]
  hcopier : st'.copier = if cfg.jar then st.copier.onResponse r.setCookie else st.copier
  hjar : st'.jar = if cfg.jar then st.jar.setCookies cur.url.host r.setCookie else st.jar
  hstrip : st'.strip = (nextRequest cfg st (sendMutate cfg st.jar cur) r u rm inclBody st'.copier).2
  hallow : (checkRedirect cfg.ps (nextRequest cfg st (sendMutate cfg st.jar cur) r u rm inclBody st'.copier).1
      st.prev (sendMutate cfg st.jar cur)).1 = .allow
  hnext : next = { (nextRequest cfg st (sendMutate cfg st.jar cur) r u rm inclBody st'.copier).1 with
      hdr := (checkRedirect cfg.ps (nextRequest cfg st (sendMutate cfg st.jar cur) r u rm inclBody st'.copier).1
        st.prev (sendMutate cfg st.jar cur)).2 }

/-- The requests sent after `cur`, each with the reply that led to it. -/
inductive Chain (cfg : Config) : State → Loop.Req → List Reply → List Loop.Req → Prop where
  | stop (st : State) (cur : Loop.Req) (rs : List Reply) : Chain cfg st cur rs []
  | step {st : State} {cur : Loop.Req} {r : Reply} {rs : List Reply} {rm : Bytes} {inclBody : Bool} {u : Url}
      {st' : State} {next : Loop.Req} {later : List Loop.Req} :
      Step cfg st cur r rm inclBody u st' next → Chain cfg st' next rs later →
      Chain cfg st cur (r :: rs) (sendMutate cfg st'.jar next :: later)

/-- Whatever the script, the requests `run` reports are: what was sent before, the current
request, and a chain of followed redirects. -/
theorem run_chain (cfg : Config) (script : List Reply) (st : State) (cur : Loop.Req) :
    ∃ later, (run cfg st cur script).1 = st.prev ++ sendMutate cfg st.jar cur :: later ∧
      Chain cfg st cur script later := by
  induction script generalizing st cur with
  | nil => exact ⟨[], by simp [run], .stop _ _ _⟩
  | cons r rs ih =>
    unfold run
    simp only
    cases hb : redirectBehavior cur.method r.status (cfg.getBody || cfg.noBody) with
    | none => exact ⟨[], by simp, .stop _ _ _⟩
    | some mb =>
      obtain ⟨rm, inclBody⟩ := mb
      simp only
      by_cases hm : r.loc = .missing
      · exact ⟨[], by simp [hm], .stop _ _ _⟩
      · simp only [hm, if_false]
        cases hres : resolve (sendMutate cfg st.jar cur).url r.loc with
        | none => exact ⟨[], by simp, .stop _ _ _⟩
        | some u =>
          simp only
          generalize hc : checkRedirect cfg.ps
            (nextRequest cfg st (sendMutate cfg st.jar cur) r u rm inclBody
              (if cfg.jar = true then st.copier.onResponse r.setCookie else st.copier)).1
            st.prev (sendMutate cfg st.jar cur) = res
          obtain ⟨d, hdr⟩ := res
          cases d with
          | deny => exact ⟨[], by simp, .stop _ _ _⟩
          | useLast => exact ⟨[], by simp, .stop _ _ _⟩
          | allow =>
            simp only
            obtain ⟨later, hs, hch⟩ := ih
              { prev := st.prev ++ [sendMutate cfg st.jar cur]
                strip := (nextRequest cfg st (sendMutate cfg st.jar cur) r u rm inclBody
                  (if cfg.jar = true then st.copier.onResponse r.setCookie else st.copier)).2
                jar := if cfg.jar = true then st.jar.setCookies cur.url.host r.setCookie else st.jar
                copier := if cfg.jar = true then st.copier.onResponse r.setCookie else st.copier }
              { (nextRequest cfg st (sendMutate cfg st.jar cur) r u rm inclBody
                  (if cfg.jar = true then st.copier.onResponse r.setCookie else st.copier)).1 with hdr := hdr }
            refine ⟨_ :: later, ?_, .step (rm := rm) (inclBody := inclBody) (u := u) ?_ hch⟩
            · rw [hs]; simp
            · exact {
                hbeh := hb
                hres := by simpa using hres
                hprev := rfl, hcopier := rfl, hjar := rfl, hstrip := rfl
                hallow := by rw [hc]
                hnext := by rw [hc] }

/-! ### every followed redirect was permitted -/

/-- Every request of `later` was allowed by every configured policy, judged on its `URL.Host` and
on exactly the requests sent before it. -/
def Permitted (ps : List (Option Policy)) : List Loop.Req → List Loop.Req → Prop
  | _, [] => True
  | before, x :: xs =>
    (∀ p, some p ∈ ps → p.check x.url.host (viaL before) = .allow) ∧ Permitted ps (before ++ [x]) xs

theorem nextRequest_url (cfg : Config) (st : State) (last : Loop.Req) (r : Reply) (u : Url) (rm : Bytes)
    (ib : Bool) (c : Copier) : (nextRequest cfg st last r u rm ib c).1.url = u := rfl

theorem chain_permitted {cfg : Config} {st : State} {cur : Loop.Req} {rs : List Reply} {later : List Loop.Req}
    (h : Chain cfg st cur rs later) :
    Permitted cfg.ps (st.prev ++ [sendMutate cfg st.jar cur]) later := by
  induction h with
  | stop => trivial
  | step hs _ ih =>
    refine ⟨?_, ?_⟩
    · intro p hp
      have := (compose_allow_iff cfg.ps _ _ _).mp hs.hallow p hp
      rw [viaOf_eq] at this
      simpa [hs.hnext, nextRequest_url] using this
    · rw [hs.hprev] at ih
      exact ih

theorem permitted_get (ps : List (Option Policy)) (before later : List Loop.Req)
    (h : Permitted ps before later) (k : Nat) (hk : k < later.length) :
    ∀ p, some p ∈ ps → p.check later[k].url.host (viaL (before ++ later.take k)) = .allow := by
  induction later generalizing before k with
  | nil => simp at hk
  | cons x xs ih =>
    cases k with
    | zero => simpa using h.1
    | succ k =>
      have := ih (before ++ [x]) h.2 k (by simpa using hk)
      simpa using this

/-! ### what a followed redirect looks like -/

/-- Facts about consecutive requests of the chain, stated on what was SENT. -/
def Linked (cfg : Config) : Loop.Req → List Reply → List Loop.Req → Prop
  | _, _, [] => True
  | _, [], _ :: _ => False
  | cur, r :: rs, x :: xs =>
    (∃ rm ib u, redirectBehavior cur.method r.status (cfg.getBody || cfg.noBody) = some (rm, ib) ∧
      resolve cur.url r.loc = some u ∧ x.url = u ∧ x.method = rm ∧ x.body = (ib && cfg.getBody) ∧
      x.hostField = (if !cur.hostField.isEmpty && cur.hostField != cur.url.host && !r.loc.isAbs
                     then cur.hostField else [])) ∧
    Linked cfg x rs xs

theorem linked_congr (cfg : Config) (a b : Loop.Req) (rs : List Reply) (xs : List Loop.Req)
    (e1 : a.url = b.url) (e2 : a.method = b.method) (e3 : a.hostField = b.hostField)
    (h : Linked cfg a rs xs) : Linked cfg b rs xs := by
  cases xs with
  | nil => cases rs <;> simp [Linked]
  | cons y ys =>
    cases rs with
    | nil => exact h
    | cons r rs' =>
      simp only [Linked] at h ⊢
      rw [← e1, ← e2, ← e3]
      exact h

theorem chain_linked {cfg : Config} {st : State} {cur : Loop.Req} {rs : List Reply} {later : List Loop.Req}
    (h : Chain cfg st cur rs later) : Linked cfg cur rs later := by
  induction h with
  | stop st cur rs => cases rs <;> simp [Linked]
  | step hs _ ih =>
    refine ⟨⟨_, _, _, hs.hbeh, hs.hres, ?_, ?_, ?_, ?_⟩, ?_⟩
    · simp [hs.hnext, nextRequest_url]
    · simp [hs.hnext, nextRequest]
    · simp [hs.hnext, nextRequest]
    · simp [hs.hnext, nextRequest]
    · exact linked_congr cfg _ _ _ _ (sendMutate_url _ _ _).symm (sendMutate_method _ _ _).symm
        (sendMutate_hostField _ _ _).symm ih

/-! ### header map entries by canonical name -/

/-- The map entries a receiver attributes to header `k` (any spelling of the key). `values` and
`wireValues` are both functions of this list. -/
def entriesFor (h : Headers) (k : Bytes) : Headers :=
  h.filter fun e => canonicalMIMEHeaderKey e.1 == canonicalMIMEHeaderKey k

theorem wireValues_entriesFor (h : Headers) (k : Bytes) :
    wireValues h k = (sortEntries (entriesFor h k)).flatMap (·.2) := rfl

theorem values_entriesFor (h : Headers) (k : Bytes) : h.values k = (entriesFor h k).values k := by
  simp only [Headers.values, entriesFor, List.filter_filter]
  congr 1
  apply List.filter_congr
  intro e _
  by_cases he : e.1 = canonicalMIMEHeaderKey k
  · simp [he, canonical_idem]
  · simp [he]

theorem entriesFor_nil_values {h : Headers} {k : Bytes} (he : entriesFor h k = []) : h.values k = [] := by
  rw [values_entriesFor, he]; rfl

theorem entriesFor_append (a b : Headers) (k : Bytes) :
    entriesFor (a ++ b) k = entriesFor a k ++ entriesFor b k := by
  simp [entriesFor]

theorem entriesFor_hdel_ne (h : Headers) (key k : Bytes)
    (hne : canonicalMIMEHeaderKey key ≠ canonicalMIMEHeaderKey k) :
    entriesFor (hdel h key) k = entriesFor h k := by
  simp only [entriesFor, hdel, List.filter_filter]
  apply List.filter_congr
  intro e _
  by_cases he : e.1 = canonicalMIMEHeaderKey key
  · have : canonicalMIMEHeaderKey e.1 ≠ canonicalMIMEHeaderKey k := by
      rw [he, canonical_idem]; exact hne
    simp [this]
  · simp [he]

theorem entriesFor_hset_ne (h : Headers) (key v k : Bytes)
    (hne : canonicalMIMEHeaderKey key ≠ canonicalMIMEHeaderKey k) :
    entriesFor (hset h key v) k = entriesFor h k := by
  simp only [hset, entriesFor_append, entriesFor_hdel_ne h key k hne]
  have : (canonicalMIMEHeaderKey (canonicalMIMEHeaderKey key) == canonicalMIMEHeaderKey k) = false := by
    rw [canonical_idem]; simpa using hne
  simp [entriesFor, List.filter, this]

theorem entriesFor_add_ne (h : Headers) (key v k : Bytes)
    (hne : canonicalMIMEHeaderKey key ≠ canonicalMIMEHeaderKey k) :
    entriesFor (h.add key v) k = entriesFor h k := by
  simp only [Headers.add, entriesFor_append]
  have : (canonicalMIMEHeaderKey (canonicalMIMEHeaderKey key) == canonicalMIMEHeaderKey k) = false := by
    rw [canonical_idem]; simpa using hne
  simp [entriesFor, List.filter, this]

theorem isSensitive_of_canon_eq {a b : Bytes}
    (h : canonicalMIMEHeaderKey a = canonicalMIMEHeaderKey b) : isSensitive a = isSensitive b := by
  simp [isSensitive, h]

theorem entriesFor_goCopy (init : Headers) (strip : Bool) (k : Bytes) :
    entriesFor (goCopyHeaders init strip) k =
      if strip = true ∧ isSensitive k = true then [] else entriesFor init k := by
  simp only [goCopyHeaders, entriesFor, List.filter_filter]
  by_cases hs : strip = true ∧ isSensitive k = true
  · rw [if_pos hs]
    apply List.filter_eq_nil_iff.mpr
    intro e _
    by_cases he : canonicalMIMEHeaderKey e.1 = canonicalMIMEHeaderKey k
    · simp [isSensitive_of_canon_eq he, hs.1, hs.2]
    · simp [he]
  · rw [if_neg hs]
    apply List.filter_congr
    intro e _
    by_cases he : canonicalMIMEHeaderKey e.1 = canonicalMIMEHeaderKey k
    · have : (strip && isSensitive k) = false := by
        cases strip <;> cases hk : isSensitive k <;> simp_all
      simp [he, isSensitive_of_canon_eq he, this]
    · simp [he]

theorem entriesFor_foldl_add_ne (vals : List Bytes) (r : Headers) (h k : Bytes)
    (hne : canonicalMIMEHeaderKey h ≠ canonicalMIMEHeaderKey k) :
    entriesFor (vals.foldl (fun r v => r.add h v) r) k = entriesFor r k := by
  induction vals generalizing r with
  | nil => rfl
  | cons v vs ih => simp only [List.foldl_cons, ih, entriesFor_add_ne _ _ _ _ hne]

theorem entriesFor_copyOne_ne (via0 req : Headers) (h k : Bytes)
    (hne : canonicalMIMEHeaderKey h ≠ canonicalMIMEHeaderKey k) :
    entriesFor (copyOne via0 req h) k = entriesFor req k := by
  unfold copyOne
  split
  · rfl
  · exact entriesFor_foldl_add_ne _ _ _ _ hne

theorem entriesFor_alwaysCopy_ne (l : List Bytes) (req via0 : Headers) (k : Bytes)
    (hne : ∀ x ∈ l, canonicalMIMEHeaderKey x ≠ canonicalMIMEHeaderKey k) :
    entriesFor (alwaysCopyHeaders l req via0) k = entriesFor req k := by
  unfold alwaysCopyHeaders
  induction l generalizing req with
  | nil => rfl
  | cons h t ih =>
    simp only [List.foldl_cons]
    rw [ih _ (fun x hx => hne x (List.mem_cons_of_mem _ hx)),
      entriesFor_copyOne_ne _ _ _ _ (hne h (by simp))]

/-- A composition of redirect.go's policies leaves the entries of a header no AlwaysCopy policy
lists exactly as net/http built them. -/
theorem entriesFor_compose_unlisted (ds : List PolicyDesc) (req : Bytes) (h : Headers) (via : Via)
    (k : Bytes) (hcl : copyListed ds k = false)
    (hal : (compose (ds.map PolicyDesc.denote) req h via).1 = .allow) :
    entriesFor (compose (ds.map PolicyDesc.denote) req h via).2 k = entriesFor h k := by
  induction ds generalizing h with
  | nil => simp [compose]
  | cons d ds ih =>
    have hcl' : copyListed ds k = false := by
      simp only [copyListed, List.any_cons, Bool.or_eq_false_iff] at hcl
      exact hcl.2
    have plain : ∀ p : Policy, d.denote = some p → (∀ h via, p.xform h via = h) →
        entriesFor (compose ((d :: ds).map PolicyDesc.denote) req h via).2 k = entriesFor h k := by
      intro p hp hx
      simp only [List.map_cons, hp] at hal ⊢
      have he := compose_cons_allow p _ req h via hal
      rw [he, hx] at hal ⊢
      exact ih h hcl' hal
    cases d with
    | nil =>
      simp only [List.map_cons, PolicyDesc.denote, compose] at hal ⊢
      exact ih h hcl' hal
    | no => exact plain _ rfl (fun _ _ => rfl)
    | max n => exact plain _ rfl (fun _ _ => rfl)
    | sameHost => exact plain _ rfl (fun _ _ => rfl)
    | sameDomain => exact plain _ rfl (fun _ _ => rfl)
    | allowedHost l => exact plain _ rfl (fun _ _ => rfl)
    | allowedDomain l => exact plain _ rfl (fun _ _ => rfl)
    | alwaysCopy l =>
      simp only [List.map_cons, PolicyDesc.denote] at hal ⊢
      have he := compose_cons_allow _ _ req h via hal
      rw [he] at hal ⊢
      rw [ih _ hcl' hal]
      have hx : (alwaysCopyHeaderRedirectPolicy l).xform h via =
          alwaysCopyHeaders l h via.first.hdr := rfl
      rw [hx]
      apply entriesFor_alwaysCopy_ne
      intro x hx hc
      simp only [copyListed, List.any_cons, Bool.or_eq_false_iff] at hcl
      have := hcl.1
      simp only [List.any_eq_false, beq_iff_eq] at this
      exact this x hx hc

/-! ### headers along the chain -/

theorem canon_hCookie : canonicalMIMEHeaderKey hCookie = hCookie := by decide
theorem canon_hReferer : canonicalMIMEHeaderKey hReferer = hReferer := by decide
theorem hReferer_not_sensitive : isSensitive hReferer = false := by decide

theorem entriesFor_addCookie_ne (h : Headers) (p : Bytes × Bytes) (k : Bytes)
    (hk : canonicalMIMEHeaderKey k ≠ hCookie) : entriesFor (addCookie h p) k = entriesFor h k := by
  have hne : canonicalMIMEHeaderKey hCookie ≠ canonicalMIMEHeaderKey k := by
    rw [canon_hCookie]; exact fun e => hk e.symm
  simp only [addCookie]
  split <;> exact entriesFor_hset_ne _ _ _ _ hne

theorem entriesFor_sendMutate_ne (cfg : Config) (j : Jar) (r : Loop.Req) (k : Bytes)
    (hk : canonicalMIMEHeaderKey k ≠ hCookie) :
    entriesFor (sendMutate cfg j r).hdr k = entriesFor r.hdr k := by
  unfold sendMutate
  split
  · simp only
    generalize (j.cookiesFor r.url.host) = cs
    generalize r.hdr = h
    induction cs generalizing h with
    | nil => rfl
    | cons c cs ih => simp only [List.foldl_cons, ih, entriesFor_addCookie_ne _ _ _ hk]
  · rfl

theorem entriesFor_onResponse_ne (c : Copier) (sc : List (Bytes × Bytes)) (k : Bytes)
    (hk : canonicalMIMEHeaderKey k ≠ hCookie) :
    entriesFor (c.onResponse sc).ihdr k = entriesFor c.ihdr k := by
  have hne : canonicalMIMEHeaderKey hCookie ≠ canonicalMIMEHeaderKey k := by
    rw [canon_hCookie]; exact fun e => hk e.symm
  unfold Copier.onResponse
  split
  · rfl
  · split
    · exact entriesFor_hset_ne _ _ _ _ hne
    · rfl

theorem firstHost_snoc (prev : List Loop.Req) (last next : Loop.Req) :
    firstHost (prev ++ [last]) next = firstHost prev last := by
  cases prev <;> rfl

theorem firstHost_sendMutate (cfg : Config) (j : Jar) (prev : List Loop.Req) (cur : Loop.Req) :
    firstHost prev (sendMutate cfg j cur) = firstHost prev cur := by
  cases prev <;> simp [firstHost]

theorem viaL_first_snoc (l : List Loop.Req) (x y : Loop.Req) :
    (viaL (l ++ [x] ++ [y])).first = (viaL (l ++ [x])).first := by
  cases l <;> rfl

theorem crossed_cons (h0 t : Bytes) (ts : List Bytes) :
    crossed h0 (t :: ts) = (goStrips false h0 t || crossed h0 ts) := by
  simp [crossed]

/-- The header map of the request built for the next hop, restricted to a header other than
Referer: the copier's entries, minus the sensitive ones when the sticky flag is set. -/
theorem entriesFor_nextRequest (cfg : Config) (st : State) (last : Loop.Req) (r : Reply) (u : Url)
    (rm : Bytes) (ib : Bool) (c : Copier) (k : Bytes) (hk : canonicalMIMEHeaderKey k ≠ hReferer) :
    entriesFor (nextRequest cfg st last r u rm ib c).1.hdr k =
      if (nextRequest cfg st last r u rm ib c).2 = true ∧ isSensitive k = true then []
      else entriesFor c.ihdr k := by
  have hne : canonicalMIMEHeaderKey hReferer ≠ canonicalMIMEHeaderKey k := by
    rw [canon_hReferer]; exact fun e => hk e.symm
  simp only [nextRequest]
  split
  · exact entriesFor_goCopy _ _ _
  · rw [entriesFor_hset_ne _ _ _ _ hne]; exact entriesFor_goCopy _ _ _

theorem sensitive_ne_referer {k : Bytes} (h : isSensitive k = true) : canonicalMIMEHeaderKey k ≠ hReferer := by
  intro e
  have : isSensitive k = isSensitive hReferer :=
    isSensitive_of_canon_eq (by rw [e, canon_hReferer])
  rw [hReferer_not_sensitive] at this
  rw [this] at h
  exact absurd h (by simp)

/-- **Sticky stripping, entry level.** Along a chain whose policies come from redirect.go's
constructors: once the sticky flag is set (some hop so far left the first host's domain), a
redirected request has NO map entry — under any spelling of the key — for a sensitive header other
than Cookie that no AlwaysCopy policy lists. -/
theorem chain_sensitive (ds : List PolicyDesc) (cfg : Config) (hps : cfg.ps = ds.map PolicyDesc.denote)
    (k : Bytes) (hsens : isSensitive k = true) (hcl : copyListed ds k = false)
    (hck : canonicalMIMEHeaderKey k ≠ hCookie)
    {st : State} {cur : Loop.Req} {rs : List Reply} {later : List Loop.Req}
    (h : Chain cfg st cur rs later) :
    ∀ j (hj : j < later.length),
      (st.strip || crossed (firstHost st.prev cur) ((later.take (j + 1)).map (·.url.host))) = true →
      entriesFor later[j].hdr k = [] := by
  induction h with
  | stop => intro j hj; simp at hj
  | @step st cur r rs rm ib u st' next later' hs _ ih =>
    have hstrip : st'.strip = (st.strip || goStrips false (firstHost st.prev cur) u.host) := by
      rw [hs.hstrip]
      simp only [nextRequest, firstHost_sendMutate]
      exact goStrips_split _ _ _
    have hnu : next.url = u := by simp [hs.hnext, nextRequest_url]
    intro j hj hx
    cases j with
    | zero =>
      simp only [List.getElem_cons_zero]
      rw [entriesFor_sendMutate_ne _ _ _ _ hck, hs.hnext]
      simp only
      have hal := hs.hallow
      simp only [checkRedirect, hps] at hal ⊢
      rw [entriesFor_compose_unlisted ds _ _ _ k hcl hal,
        entriesFor_nextRequest _ _ _ _ _ _ _ _ _ (sensitive_ne_referer hsens)]
      have : (nextRequest cfg st (sendMutate cfg st.jar cur) r u rm ib st'.copier).2 = true := by
        rw [← hs.hstrip, hstrip]
        simpa [crossed, hnu] using hx
      simp [this, hsens]
    | succ j =>
      simp only [List.getElem_cons_succ]
      apply ih j (by simpa using hj)
      rw [hs.hprev, firstHost_snoc, firstHost_sendMutate, hstrip]
      simp only [List.take_succ_cons, List.map_cons, sendMutate_url, hnu, crossed_cons] at hx
      simpa [Bool.or_assoc] using hx

theorem values_of_entriesFor_eq {a b : Headers} {k : Bytes} (h : entriesFor a k = entriesFor b k) :
    a.values k = b.values k := by
  rw [values_entriesFor a, values_entriesFor b, h]

/-- **Header flow, exactly.** For a header other than Cookie and Referer, the values on the j-th
redirected request are: nothing if it is sensitive, the sticky flag is set and no AlwaysCopy policy
lists it; the initial request's values in every other case. `init` is the initial header map; the
two hypotheses say the chain is looked at from a state the loop can be in (the copier's copy and the
first request sent agree with `init` on `k`). -/
theorem chain_flow (ds : List PolicyDesc) (cfg : Config) (hps : cfg.ps = ds.map PolicyDesc.denote)
    (init : Headers) (k : Bytes) (hck : canonicalMIMEHeaderKey k ≠ hCookie)
    (hrf : canonicalMIMEHeaderKey k ≠ hReferer)
    {st : State} {cur : Loop.Req} {rs : List Reply} {later : List Loop.Req}
    (h : Chain cfg st cur rs later)
    (ha : entriesFor st.copier.ihdr k = entriesFor init k)
    (hb : (viaL (st.prev ++ [sendMutate cfg st.jar cur])).first.hdr.values k = init.values k) :
    ∀ j (hj : j < later.length),
      later[j].hdr.values k =
        if (st.strip || crossed (firstHost st.prev cur) ((later.take (j + 1)).map (·.url.host))) = true ∧
            isSensitive k = true ∧ copyListed ds k = false
        then [] else init.values k := by
  induction h with
  | stop => intro j hj; simp at hj
  | @step st cur r rs rm ib u st' next later' hs _ ih =>
    have hstrip : st'.strip = (st.strip || goStrips false (firstHost st.prev cur) u.host) := by
      rw [hs.hstrip]
      simp only [nextRequest, firstHost_sendMutate]
      exact goStrips_split _ _ _
    have hnu : next.url = u := by simp [hs.hnext, nextRequest_url]
    have ha' : entriesFor st'.copier.ihdr k = entriesFor init k := by
      rw [hs.hcopier]
      split
      · rw [entriesFor_onResponse_ne _ _ _ hck]; exact ha
      · exact ha
    intro j hj
    cases j with
    | zero =>
      simp only [List.getElem_cons_zero]
      have hnh : next.hdr = (checkRedirect cfg.ps
          (nextRequest cfg st (sendMutate cfg st.jar cur) r u rm ib st'.copier).1 st.prev
          (sendMutate cfg st.jar cur)).2 := by rw [hs.hnext]
      rw [values_of_entriesFor_eq (entriesFor_sendMutate_ne _ _ _ _ hck), hnh]
      have hal := hs.hallow
      simp only [checkRedirect, hps] at hal ⊢
      rw [compose_values ds _ _ _ k hal, viaOf_eq, hb]
      have hv : (nextRequest cfg st (sendMutate cfg st.jar cur) r u rm ib st'.copier).1.hdr.values k =
          if st'.strip = true ∧ isSensitive k = true then [] else init.values k := by
        rw [values_entriesFor, entriesFor_nextRequest _ _ _ _ _ _ _ _ _ hrf, ← hs.hstrip]
        split
        · rfl
        · rw [ha', ← values_entriesFor]
      rw [hv, hstrip]
      simp only [List.take_succ_cons, List.take_zero, List.map_cons, List.map_nil, sendMutate_url, hnu,
        crossed, List.any_cons, List.any_nil, Bool.or_false]
      generalize (st.strip || goStrips false (firstHost st.prev cur) u.host) = S
      cases S <;> cases hsens : isSensitive k <;> cases hcl : copyListed ds k <;>
        by_cases hE : init.values k = [] <;> simp [hE]
    | succ j =>
      simp only [List.getElem_cons_succ]
      have := ih ha' (by rw [hs.hprev, viaL_first_snoc]; exact hb) j (by simpa using hj)
      rw [this, hs.hprev, firstHost_snoc, firstHost_sendMutate, hstrip]
      simp only [List.take_succ_cons, List.map_cons, sendMutate_url, hnu, crossed_cons, Bool.or_assoc]

/-! ### the order of the policies does not matter for what is sent -/

/-- What redirect.go's policies read of `via`: the first host and the length. -/
theorem denote_check_indep (d : PolicyDesc) (p : Policy) (hd : d.denote = some p) (req : Bytes)
    (via via' : Via) (hf : via.first.host = via'.first.host) (hl : via.length = via'.length) :
    p.check req via = p.check req via' := by
  cases d <;> simp only [PolicyDesc.denote, Option.some.injEq, reduceCtorEq] at hd <;> subst hd <;>
    simp [noRedirectPolicy, maxRedirectPolicy, sameHostRedirectPolicy, sameDomainRedirectPolicy,
      allowedHostRedirectPolicy, allowedDomainRedirectPolicy, alwaysCopyHeaderRedirectPolicy, hf, hl]

theorem compose_allow_perm (ds ds' : List PolicyDesc) (hp : ds.Perm ds') (req : Bytes) (h h' : Headers)
    (via via' : Via) (hf : via.first.host = via'.first.host) (hl : via.length = via'.length) :
    (compose (ds.map PolicyDesc.denote) req h via).1 = .allow ↔
      (compose (ds'.map PolicyDesc.denote) req h' via').1 = .allow := by
  rw [compose_allow_iff, compose_allow_iff]
  constructor
  · intro hall p hp'
    obtain ⟨d, hd, hde⟩ := List.mem_map.mp hp'
    have hd' : d ∈ ds := hp.symm.subset hd
    rw [← denote_check_indep d p hde req via via' hf hl]
    exact hall p (List.mem_map.mpr ⟨d, hd', hde⟩)
  · intro hall p hp'
    obtain ⟨d, hd, hde⟩ := List.mem_map.mp hp'
    have hd' : d ∈ ds' := hp.subset hd
    rw [denote_check_indep d p hde req via via' hf hl]
    exact hall p (List.mem_map.mpr ⟨d, hd', hde⟩)

theorem any_perm {α : Type} (f : α → Bool) {l l' : List α} (hp : l.Perm l') : l.any f = l'.any f := by
  induction hp with
  | nil => rfl
  | cons x _ ih => simp [ih]
  | swap x y l => simp only [List.any_cons]; cases f x <;> cases f y <;> rfl
  | trans _ _ ih1 ih2 => rw [ih1, ih2]

theorem copyListed_perm (ds ds' : List PolicyDesc) (hp : ds.Perm ds') (k : Bytes) :
    copyListed ds k = copyListed ds' k := any_perm _ hp

/-- Pointwise relation of two lists of the same length (core Lean has no `Forall₂`). -/
inductive ListRel {α β : Type} (R : α → β → Prop) : List α → List β → Prop where
  | nil : ListRel R [] []
  | cons {a b l l'} : R a b → ListRel R l l' → ListRel R (a :: l) (b :: l')

theorem ListRel.append {α β : Type} {R : α → β → Prop} {a a' : List α} {b b' : List β}
    (h : ListRel R a b) (h' : ListRel R a' b') : ListRel R (a ++ a') (b ++ b') := by
  induction h with
  | nil => exact h'
  | cons hr _ ih => exact .cons hr ih

theorem ListRel.length_eq {α β : Type} {R : α → β → Prop} {a : List α} {b : List β}
    (h : ListRel R a b) : a.length = b.length := by
  induction h with
  | nil => rfl
  | cons _ _ ih => simp [ih]

theorem ListRel.get {α β : Type} {R : α → β → Prop} {a : List α} {b : List β}
    (h : ListRel R a b) (k : Nat) (hk : k < a.length) (hk' : k < b.length) : R a[k] b[k] := by
  induction h generalizing k with
  | nil => simp at hk
  | cons hr _ ih =>
    cases k with
    | zero => exact hr
    | succ k => exact ih k (by simpa using hk) (by simpa using hk')

/-- Same header values under every key. -/
def HdrEq (a b : Headers) : Prop := ∀ k, a.values k = b.values k

theorem values_hdel (h : Headers) (key k : Bytes) :
    (hdel h key).values k =
      if canonicalMIMEHeaderKey key = canonicalMIMEHeaderKey k then [] else h.values k := by
  simp only [hdel, Headers.values, List.filter_filter]
  by_cases hk : canonicalMIMEHeaderKey key = canonicalMIMEHeaderKey k
  · rw [if_pos hk]
    have : h.filter (fun e => (e.1 == canonicalMIMEHeaderKey k) && !(e.1 == canonicalMIMEHeaderKey key)) = [] := by
      apply List.filter_eq_nil_iff.mpr
      intro e _
      by_cases he : e.1 = canonicalMIMEHeaderKey k <;> simp [he, hk]
    rw [this]; rfl
  · rw [if_neg hk]
    congr 1
    apply List.filter_congr
    intro e _
    by_cases he : e.1 = canonicalMIMEHeaderKey k
    · have : ¬ canonicalMIMEHeaderKey k = canonicalMIMEHeaderKey key := fun e => hk e.symm
      simp [he, this]
    · simp [he]

theorem values_hset (h : Headers) (key v k : Bytes) :
    (hset h key v).values k =
      if canonicalMIMEHeaderKey key = canonicalMIMEHeaderKey k then [v] else h.values k := by
  have happ : ∀ a b : Headers, (a ++ b).values k = a.values k ++ b.values k := by
    intro a b; simp [Headers.values]
  rw [hset, happ, values_hdel]
  by_cases hk : canonicalMIMEHeaderKey key = canonicalMIMEHeaderKey k
  · simp [hk, Headers.values, List.filter]
  · have : (canonicalMIMEHeaderKey key == canonicalMIMEHeaderKey k) = false := by simpa using hk
    simp [hk, Headers.values, List.filter, this]

theorem hget_hdrEq {a b : Headers} (h : HdrEq a b) (k : Bytes) : hget a k = hget b k := by
  simp [hget, h k]

theorem hset_hdrEq {a b : Headers} (h : HdrEq a b) (key v : Bytes) : HdrEq (hset a key v) (hset b key v) := by
  intro k; rw [values_hset, values_hset, h k]

theorem addCookie_hdrEq {a b : Headers} (h : HdrEq a b) (p : Bytes × Bytes) :
    HdrEq (addCookie a p) (addCookie b p) := by
  simp only [addCookie, hget_hdrEq h]
  split <;> exact hset_hdrEq h _ _

theorem foldl_addCookie_hdrEq (cs : List (Bytes × Bytes)) {a b : Headers} (h : HdrEq a b) :
    HdrEq (cs.foldl addCookie a) (cs.foldl addCookie b) := by
  induction cs generalizing a b with
  | nil => exact h
  | cons c cs ih => exact ih (addCookie_hdrEq h c)

/-- Same request as far as a receiver can tell: everything but the header map literally, the header
map up to values. -/
structure ReqEq (a b : Loop.Req) : Prop where
  url : a.url = b.url
  method : a.method = b.method
  hostField : a.hostField = b.hostField
  body : a.body = b.body
  hdr : HdrEq a.hdr b.hdr

theorem ReqEq.refl (a : Loop.Req) : ReqEq a a := ⟨rfl, rfl, rfl, rfl, fun _ => rfl⟩

theorem sendMutate_reqEq (cfg cfg' : Config) (hj : cfg.jar = cfg'.jar) (j : Jar) {a b : Loop.Req}
    (h : ReqEq a b) : ReqEq (sendMutate cfg j a) (sendMutate cfg' j b) := by
  unfold sendMutate
  rw [← hj]
  split
  · exact ⟨h.url, h.method, h.hostField, h.body, by
      simp only [h.url]; exact foldl_addCookie_hdrEq _ h.hdr⟩
  · exact h

theorem viaOf_first_host (prev : List Loop.Req) (last : Loop.Req) :
    (viaOf prev last).first.host = firstHost prev last := by
  cases prev <;> rfl

theorem viaOf_length (prev : List Loop.Req) (last : Loop.Req) : (viaOf prev last).length = prev.length + 1 := by
  cases prev <;> simp [viaOf, Via.length]

theorem firstHost_reqEq {p p' : List Loop.Req} {l l' : Loop.Req} (hp : ListRel ReqEq p p')
    (hl : ReqEq l l') : firstHost p l = firstHost p' l' := by
  cases hp with
  | nil => simp [firstHost, hl.url]
  | cons h _ => simp [firstHost, h.url]

theorem viaOf_first_values {p p' : List Loop.Req} {l l' : Loop.Req} (hp : ListRel ReqEq p p')
    (hl : ReqEq l l') (k : Bytes) : (viaOf p l).first.hdr.values k = (viaOf p' l').first.hdr.values k := by
  cases hp with
  | nil => simpa [viaOf, Req.toHop] using hl.hdr k
  | cons h _ => simpa [viaOf, Req.toHop] using h.hdr k

/-- **Order independence.** Two clients whose `SetRedirectPolicy` arguments are permutations of each
other (redirect.go's constructors), same jar/body facts, same initial request, same script: the
requests sent are pairwise the same (URL, method, Host field, body, and the values of every header). -/
theorem run_perm (ds ds' : List PolicyDesc) (hperm : ds.Perm ds') (cfg cfg' : Config)
    (hps : cfg.ps = ds.map PolicyDesc.denote) (hps' : cfg'.ps = ds'.map PolicyDesc.denote)
    (hjar : cfg.jar = cfg'.jar) (hgb : cfg.getBody = cfg'.getBody) (hnb : cfg.noBody = cfg'.noBody)
    (script : List Reply) (st st' : State) (cur cur' : Loop.Req)
    (hprev : ListRel ReqEq st.prev st'.prev) (hstrip : st.strip = st'.strip)
    (hj : st.jar = st'.jar) (hcop : st.copier = st'.copier) (hcur : ReqEq cur cur') :
    ListRel ReqEq (run cfg st cur script).1 (run cfg' st' cur' script).1 := by
  induction script generalizing st st' cur cur' with
  | nil =>
    simp only [run]
    exact ListRel.append hprev (.cons (by rw [hj]; exact sendMutate_reqEq _ _ hjar _ hcur) .nil)
  | cons r rs ih =>
    have hlast : ReqEq (sendMutate cfg st.jar cur) (sendMutate cfg' st'.jar cur') := by
      rw [hj]; exact sendMutate_reqEq _ _ hjar _ hcur
    have hsent : ListRel ReqEq (st.prev ++ [sendMutate cfg st.jar cur])
        (st'.prev ++ [sendMutate cfg' st'.jar cur']) := ListRel.append hprev (.cons hlast .nil)
    unfold run
    simp only
    rw [← hcur.method, ← hgb, ← hnb]
    cases hb : redirectBehavior cur.method r.status (cfg.getBody || cfg.noBody) with
    | none => exact hsent
    | some mb =>
      obtain ⟨rm, inclBody⟩ := mb
      simp only
      by_cases hm : r.loc = .missing
      · simp only [hm, if_true]; exact hsent
      · simp only [hm, if_false]
        rw [← hlast.url]
        cases hres : resolve (sendMutate cfg st.jar cur).url r.loc with
        | none => exact hsent
        | some u =>
          simp only
          rw [← hjar, ← hcop]
          -- the request built for the next hop is literally the same on both sides
          have hnx : nextRequest cfg' st' (sendMutate cfg' st'.jar cur') r u rm inclBody
                (if cfg.jar = true then st.copier.onResponse r.setCookie else st.copier) =
              nextRequest cfg st (sendMutate cfg st.jar cur) r u rm inclBody
                (if cfg.jar = true then st.copier.onResponse r.setCookie else st.copier) := by
            simp only [nextRequest, ← hlast.hostField, ← hlast.url, ← hstrip, ← hgb,
              firstHost_reqEq hprev hlast]
          rw [hnx]
          generalize hN : nextRequest cfg st (sendMutate cfg st.jar cur) r u rm inclBody
            (if cfg.jar = true then st.copier.onResponse r.setCookie else st.copier) = nx
          have hvf : (viaOf st.prev (sendMutate cfg st.jar cur)).first.host =
              (viaOf st'.prev (sendMutate cfg' st'.jar cur')).first.host := by
            rw [viaOf_first_host, viaOf_first_host]; exact firstHost_reqEq hprev hlast
          have hvl : (viaOf st.prev (sendMutate cfg st.jar cur)).length =
              (viaOf st'.prev (sendMutate cfg' st'.jar cur')).length := by
            rw [viaOf_length, viaOf_length, hprev.length_eq]
          have hiff := compose_allow_perm ds ds' hperm nx.1.url.host nx.1.hdr nx.1.hdr _ _ hvf hvl
          simp only [checkRedirect, hps, hps']
          generalize hc : compose (ds.map PolicyDesc.denote) nx.1.url.host nx.1.hdr
            (viaOf st.prev (sendMutate cfg st.jar cur)) = res
          generalize hc' : compose (ds'.map PolicyDesc.denote) nx.1.url.host nx.1.hdr
            (viaOf st'.prev (sendMutate cfg' st'.jar cur')) = res'
          obtain ⟨d, hdr⟩ := res
          obtain ⟨d', hdr'⟩ := res'
          rw [hc, hc'] at hiff
          simp only at hiff
          have hstop : ∀ (x y : List Loop.Req × End), x.1 = st.prev ++ [sendMutate cfg st.jar cur] →
              y.1 = st'.prev ++ [sendMutate cfg' st'.jar cur'] → ListRel ReqEq x.1 y.1 := by
            intro x y hx hy; rw [hx, hy]; exact hsent
          cases d with
          | allow =>
            have hd' : d' = .allow := hiff.mp rfl
            subst hd'
            simp only
            apply ih
            · exact hsent
            · rfl
            · simp only [hj, hcur.url]
            · rfl
            · refine ⟨rfl, rfl, rfl, rfl, ?_⟩
              intro k
              have h1 := compose_values ds nx.1.url.host nx.1.hdr _ k (by rw [hc])
              have h2 := compose_values ds' nx.1.url.host nx.1.hdr _ k (by rw [hc'])
              rw [hc] at h1; rw [hc'] at h2
              simp only at h1 h2 ⊢
              rw [h1, h2, copyListed_perm ds ds' hperm k, viaOf_first_values hprev hlast k]
          | deny =>
            cases d' with
            | allow => exact absurd (hiff.mpr rfl) (by simp)
            | deny => exact hsent
            | useLast => exact hsent
          | useLast =>
            cases d' with
            | allow => exact absurd (hiff.mpr rfl) (by simp)
            | deny => exact hsent
            | useLast => exact hsent

/-! ### the Cookie header after a cross-domain hop: only what the jar holds for that host -/

theorem entriesFor_hset_same (h : Headers) (key v : Bytes) :
    entriesFor (hset h key v) key =
      (entriesFor h key).filter (fun e => !(e.1 == canonicalMIMEHeaderKey key)) ++
        [(canonicalMIMEHeaderKey key, [v])] := by
  simp only [hset, entriesFor_append]
  congr 1
  · simp only [entriesFor, hdel, List.filter_filter]
    apply List.filter_congr
    intro e _
    exact Bool.and_comm _ _
  · simp [entriesFor, List.filter, canonical_idem]

theorem hget_of_entriesFor_eq {a b : Headers} {k : Bytes} (h : entriesFor a k = entriesFor b k) :
    hget a k = hget b k := by
  simp [hget, values_of_entriesFor_eq h]

theorem addCookie_entries_congr {a b : Headers} (h : entriesFor a hCookie = entriesFor b hCookie)
    (p : Bytes × Bytes) : entriesFor (addCookie a p) hCookie = entriesFor (addCookie b p) hCookie := by
  simp only [addCookie, hget_of_entriesFor_eq h]
  split <;> simp only [entriesFor_hset_same, h]

theorem foldl_addCookie_entries_congr (cs : List (Bytes × Bytes)) {a b : Headers}
    (h : entriesFor a hCookie = entriesFor b hCookie) :
    entriesFor (cs.foldl addCookie a) hCookie = entriesFor (cs.foldl addCookie b) hCookie := by
  induction cs generalizing a b with
  | nil => exact h
  | cons c cs ih => exact ih (addCookie_entries_congr h c)

/-- The jar after the given (request host, Set-Cookie pairs) exchanges, starting empty. -/
def jarAfter (pairs : List (Bytes × List (Bytes × Bytes))) : Jar :=
  pairs.foldl (fun j p => j.setCookies p.1 p.2) []

theorem jarAfter_snoc (pairs : List (Bytes × List (Bytes × Bytes))) (p : Bytes × List (Bytes × Bytes)) :
    jarAfter (pairs ++ [p]) = (jarAfter pairs).setCookies p.1 p.2 := by
  simp [jarAfter, List.foldl_append]

/-- (request host, Set-Cookie pairs) of consecutive exchanges. -/
def exchanges (reqs : List Loop.Req) (replies : List Reply) : List (Bytes × List (Bytes × Bytes)) :=
  List.zipWith (fun q r => (q.url.host, r.setCookie)) reqs replies

theorem hCookie_sensitive : isSensitive hCookie = true := by decide

theorem cookie_ne_referer : canonicalMIMEHeaderKey hCookie ≠ hReferer := by decide

/-- **Client cookies do not survive a cross-domain hop.** With a jar, once the sticky flag is set
and no AlwaysCopy policy lists Cookie, the Cookie entries of a redirected request are exactly what
`send` builds from the jar's cookies for that URL host on an EMPTY header map — the jar being fed
only by the Set-Cookie lines of the replies received so far in this call. -/
theorem chain_cookie (ds : List PolicyDesc) (cfg : Config) (hps : cfg.ps = ds.map PolicyDesc.denote)
    (hjar : cfg.jar = true) (hcl : copyListed ds hCookie = false)
    {st : State} {cur : Loop.Req} {rs : List Reply} {later : List Loop.Req}
    (h : Chain cfg st cur rs later) (done : List (Bytes × List (Bytes × Bytes)))
    (hdone : st.jar = jarAfter done) :
    ∀ j (hj : j < later.length),
      (st.strip || crossed (firstHost st.prev cur) ((later.take (j + 1)).map (·.url.host))) = true →
      entriesFor later[j].hdr hCookie =
        entriesFor (((jarAfter (done ++ exchanges (cur :: later.take j) (rs.take (j + 1)))).cookiesFor
          later[j].url.host).foldl addCookie []) hCookie := by
  induction h generalizing done with
  | stop => intro j hj; simp at hj
  | @step st cur r rs rm ib u st' next later' hs _ ih =>
    have hstrip : st'.strip = (st.strip || goStrips false (firstHost st.prev cur) u.host) := by
      rw [hs.hstrip]
      simp only [nextRequest, firstHost_sendMutate]
      exact goStrips_split _ _ _
    have hnu : next.url = u := by simp [hs.hnext, nextRequest_url]
    have hjar' : st'.jar = jarAfter (done ++ [(cur.url.host, r.setCookie)]) := by
      rw [hs.hjar, jarAfter_snoc, hdone]; simp [hjar]
    intro j hj hx
    cases j with
    | zero =>
      simp only [List.getElem_cons_zero, List.take_zero, sendMutate_url]
      have hnh : next.hdr = (checkRedirect cfg.ps
          (nextRequest cfg st (sendMutate cfg st.jar cur) r u rm ib st'.copier).1 st.prev
          (sendMutate cfg st.jar cur)).2 := by rw [hs.hnext]
      have hpre : entriesFor next.hdr hCookie = entriesFor ([] : Headers) hCookie := by
        rw [hnh]
        have hal := hs.hallow
        simp only [checkRedirect, hps] at hal ⊢
        rw [entriesFor_compose_unlisted ds _ _ _ hCookie hcl hal,
          entriesFor_nextRequest _ _ _ _ _ _ _ _ _ cookie_ne_referer]
        have : (nextRequest cfg st (sendMutate cfg st.jar cur) r u rm ib st'.copier).2 = true := by
          rw [← hs.hstrip, hstrip]
          simpa [crossed, hnu] using hx
        simp [this, hCookie_sensitive, entriesFor]
      have : (sendMutate cfg st'.jar next).hdr = (st'.jar.cookiesFor next.url.host).foldl addCookie next.hdr := by
        simp [sendMutate, hjar]
      rw [this, foldl_addCookie_entries_congr _ hpre, hjar']
      simp [exchanges]
    | succ j =>
      simp only [List.getElem_cons_succ]
      have := ih _ hjar' j (by simpa using hj) (by
        rw [hs.hprev, firstHost_snoc, firstHost_sendMutate, hstrip]
        simp only [List.take_succ_cons, List.map_cons, sendMutate_url, hnu, crossed_cons] at hx
        simpa [Bool.or_assoc] using hx)
      rw [this]
      have hex : exchanges (cur :: sendMutate cfg st'.jar next :: List.take j later') (r :: List.take (j + 1) rs) =
          (cur.url.host, r.setCookie) :: exchanges (next :: List.take j later') (List.take (j + 1) rs) := by
        simp only [exchanges, List.zipWith_cons_cons]
        congr 1
        cases List.take (j + 1) rs <;> simp
      simp only [List.take_succ_cons, hex, List.append_assoc, List.singleton_append]

/-- Host-only: what the jar returns for a host was set by replies to requests for the same
(canonical) host. -/
theorem upsert_mem (j : Jar) (d n v : Bytes) (e : JarEntry) (he : e ∈ j.upsert d n v) :
    e ∈ j ∨ (e.domain = d ∧ e.name = n ∧ e.value = v) ∨
      (∃ e0 ∈ j, e0.domain = d ∧ e0.name = n ∧ e = { e0 with value := v }) := by
  unfold Jar.upsert at he
  split at he
  · obtain ⟨e0, he0, heq⟩ := List.mem_map.mp he
    split at heq
    · rename_i hc
      simp only [Bool.and_eq_true, beq_iff_eq] at hc
      exact Or.inr (Or.inr ⟨e0, he0, hc.1, hc.2, heq.symm⟩)
    · exact Or.inl (heq ▸ he0)
  · rcases List.mem_append.mp he with h | h
    · exact Or.inl h
    · simp only [List.mem_singleton] at h
      exact Or.inr (Or.inl (by simp [h]))

theorem setCookies_prov (j : Jar) (host : Bytes) (cs : List (Bytes × Bytes)) (e : JarEntry)
    (he : e ∈ j.setCookies host cs) :
    (∃ e0 ∈ j, e0.domain = e.domain ∧ e0.name = e.name ∧ (e0.value = e.value ∨ (e.name, e.value) ∈ cs ∧
        jarCanonicalHost host = some e.domain)) ∨
      (jarCanonicalHost host = some e.domain ∧ (e.name, e.value) ∈ cs) := by
  unfold Jar.setCookies at he
  cases hh : jarCanonicalHost host with
  | none => rw [hh] at he; exact Or.inl ⟨e, he, rfl, rfl, Or.inl rfl⟩
  | some hd =>
    rw [hh] at he
    simp only at he
    induction cs generalizing j with
    | nil => exact Or.inl ⟨e, he, rfl, rfl, Or.inl rfl⟩
    | cons c cs ih =>
      simp only [List.foldl_cons] at he
      rcases ih _ he with ⟨e1, he1, hd1, hn1, hv1⟩ | ⟨hc, hm⟩
      · rcases upsert_mem j _ _ _ e1 he1 with h0 | ⟨h1, h2, h3⟩ | ⟨e0, he0, h1, h2, h3⟩
        · refine Or.inl ⟨e1, h0, hd1, hn1, ?_⟩
          rcases hv1 with hv | ⟨hm, hc⟩
          · exact Or.inl hv
          · exact Or.inr ⟨List.mem_cons_of_mem _ hm, hc⟩
        · rcases hv1 with hv | ⟨hm, hc⟩
          · refine Or.inr ⟨by rw [← hd1, h1], ?_⟩
            rw [← hn1, ← hv, h2, h3]; simp
          · exact Or.inr ⟨hc, List.mem_cons_of_mem _ hm⟩
        · subst h3
          simp only at hd1 hn1 hv1
          refine Or.inl ⟨e0, he0, hd1, hn1, ?_⟩
          rcases hv1 with hv | ⟨hm, hc⟩
          · refine Or.inr ⟨?_, by rw [← hd1, h1]⟩
            rw [← hn1, ← hv, h2]; simp
          · exact Or.inr ⟨List.mem_cons_of_mem _ hm, hc⟩
      · exact Or.inr ⟨hc, List.mem_cons_of_mem _ hm⟩

/-- **Jar cookies are host-only.** Every entry of the jar was set by a reply to a request whose
canonical host is the entry's domain. -/
theorem foldl_setCookies_prov (pairs pre : List (Bytes × List (Bytes × Bytes))) (j0 : Jar)
    (h0 : ∀ e ∈ j0, ∃ p ∈ pre, jarCanonicalHost p.1 = some e.domain ∧ (e.name, e.value) ∈ p.2) :
    ∀ e ∈ pairs.foldl (fun j p => j.setCookies p.1 p.2) j0,
      ∃ p ∈ pre ++ pairs, jarCanonicalHost p.1 = some e.domain ∧ (e.name, e.value) ∈ p.2 := by
  induction pairs generalizing j0 pre with
  | nil => simpa using h0
  | cons p ps ih =>
    intro e he
    simp only [List.foldl_cons] at he
    have := ih (pre ++ [p]) (j0.setCookies p.1 p.2) (by
      intro e' he'
      rcases setCookies_prov _ _ _ e' he' with ⟨e0, he0, hd, hn, hv⟩ | ⟨hc, hm⟩
      · rcases hv with hv | ⟨hm, hc⟩
        · obtain ⟨q, hq, h1, h2⟩ := h0 e0 he0
          exact ⟨q, by simp [hq], by rw [h1, hd], by rw [← hn, ← hv]; exact h2⟩
        · exact ⟨p, by simp, hc, hm⟩
      · exact ⟨p, by simp, hc, hm⟩) e he
    simpa using this

theorem jarAfter_prov (pairs : List (Bytes × List (Bytes × Bytes))) (e : JarEntry) (he : e ∈ jarAfter pairs) :
    ∃ p ∈ pairs, jarCanonicalHost p.1 = some e.domain ∧ (e.name, e.value) ∈ p.2 := by
  have := foldl_setCookies_prov pairs [] [] (by simp) e he
  simpa using this

theorem cookiesFor_prov (pairs : List (Bytes × List (Bytes × Bytes))) (host : Bytes) (c : Bytes × Bytes)
    (hc : c ∈ (jarAfter pairs).cookiesFor host) :
    ∃ p ∈ pairs, jarCanonicalHost p.1 = jarCanonicalHost host ∧ c ∈ p.2 := by
  unfold Jar.cookiesFor at hc
  split at hc
  · simp at hc
  · rename_i h hh
    obtain ⟨e, he, hce⟩ := List.mem_map.mp hc
    simp only [List.mem_filter, beq_iff_eq] at he
    obtain ⟨p, hp, h1, h2⟩ := jarAfter_prov pairs e he.1
    exact ⟨p, hp, by rw [h1, hh, he.2], by rw [← hce]; exact h2⟩

theorem exchanges_head_congr (a b : Loop.Req) (l : List Loop.Req) (rs : List Reply)
    (h : a.url.host = b.url.host) : exchanges (a :: l) rs = exchanges (b :: l) rs := by
  cases rs <;> simp [exchanges, h]

end Req.Lemmas.C11Loop
