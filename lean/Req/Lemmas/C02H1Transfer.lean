import Req.Lemmas.C02H1Head
import Req.Lemmas.C02H1Msg
/-!
C02 — `readTransfer` (C04's model, `Req.H1.readTransfer`) on the header map of an
origin-written HTTP/1.1 head, the status line, `parseHead`, and the 1xx loop `parseFinalHead`.
-/
namespace Req.C02
open Req.Proto Req.Ascii Req.H1

/-! ### status line -/

/-- `HTTP/1.1 SP d1 d2 d3 SP reason`. -/
def statusWire (d1 d2 d3 : UInt8) (reason : Bytes) : Bytes :=
  [72, 84, 84, 80, 47, 49, 46, 49, 32, d1, d2, d3, 32] ++ reason

def codeOf (d1 d2 d3 : UInt8) : Nat :=
  ((d1.toNat - 48) * 10 + (d2.toNat - 48)) * 10 + (d3.toNat - 48)

theorem digit_ne (d : UInt8) (h : isDigit d = true) : d ≠ 32 ∧ d ≠ 45 ∧ d ≠ 43 ∧ d ≠ 10 := by
  simp only [isDigit, Bool.and_eq_true, decide_eq_true_eq] at h
  have h1 := UInt8.le_iff_toNat_le.mp h.1
  have h2 := UInt8.le_iff_toNat_le.mp h.2
  simp at h1 h2
  refine ⟨?_, ?_, ?_, ?_⟩ <;> (intro hd; subst hd; simp at h1 h2)

theorem parseStatusLine_origin (d1 d2 d3 : UInt8) (reason : Bytes)
    (h1 : isDigit d1 = true) (h2 : isDigit d2 = true) (h3 : isDigit d3 = true) :
    ∃ sl, Req.H1.parseStatusLine (statusWire d1 d2 d3 reason) = some sl ∧ sl.code = codeOf d1 d2 d3 ∧
      sl.major = 1 ∧ sl.minor = 1 := by
  obtain ⟨a1, a2, a3, _⟩ := digit_ne d1 h1
  obtain ⟨b1, _, _, _⟩ := digit_ne d2 h2
  obtain ⟨c1, _, _, _⟩ := digit_ne d3 h3
  have hcut1 : cutByte SP (statusWire d1 d2 d3 reason) =
      some ([72, 84, 84, 80, 47, 49, 46, 49], d1 :: d2 :: d3 :: 32 :: reason) := by
    simp [statusWire, cutByte, SP]
  have hcut2 : cutByte SP (d1 :: d2 :: d3 :: 32 :: reason) = some ([d1, d2, d3], reason) := by
    simp [cutByte, SP, a1, b1, c1]
  have hdrop : (d1 :: d2 :: d3 :: 32 :: reason).dropWhile (fun c => c == SP) = d1 :: d2 :: d3 :: 32 :: reason := by
    simp [List.dropWhile_cons, SP, a1]
  have hatoi : atoi [d1, d2, d3] = some ((codeOf d1 d2 d3 : Nat) : Int) := by
    simp [atoi, a2, a3, parseDigits, h1, h2, h3, codeOf]
  have hver : parseHTTPVersion [72, 84, 84, 80, 47, 49, 46, 49] = some (1, 1) := by decide
  refine ⟨⟨[72, 84, 84, 80, 47, 49, 46, 49], d1 :: d2 :: d3 :: 32 :: reason, codeOf d1 d2 d3, 1, 1⟩, ?_, rfl, rfl, rfl⟩
  unfold Req.H1.parseStatusLine
  simp only [hcut1, hdrop, hcut2, hatoi, hver]
  simp

/-! ### the stages of `readTransfer` on a map with known framing entries -/

theorem keys_distinct :
    kConnection ≠ kTransferEncoding ∧ kConnection ≠ kContentLength ∧ kConnection ≠ Req.H1.kTrailer ∧
    kTransferEncoding ≠ kContentLength ∧ kTransferEncoding ≠ Req.H1.kTrailer ∧ kContentLength ≠ Req.H1.kTrailer ∧
    kPragma ≠ kConnection ∧ kPragma ≠ kTransferEncoding ∧ kPragma ≠ kContentLength ∧ kPragma ≠ Req.H1.kTrailer := by
  decide

theorem fixPragma_absent (h : HeaderMap) (hp : h.get kPragma = none) : fixPragmaCacheControl h = h := by
  simp [fixPragmaCacheControl, hp]

theorem shouldClose_11 (h : HeaderMap) (cc : Bool)
    (hconn : h.get kConnection = if cc then some [vClose] else none) :
    shouldClose 1 1 h = (cc, if cc then h.del kConnection else h) := by
  unfold shouldClose
  cases cc with
  | true =>
    simp only [if_true] at hconn
    have : valuesContainToken [vClose] vClose = true := by decide
    simp [hconn, this]
  | false =>
    simp only [Bool.false_eq_true, if_false] at hconn
    simp [hconn, valuesContainToken]

theorem parseTE_11 (h : HeaderMap) (chunked : Bool) (te : Bytes) (hlow : lower te = vChunked)
    (hte : h.get kTransferEncoding = if chunked then some [te] else none) :
    parseTransferEncoding 1 1 h = some (chunked, if chunked then h.del kTransferEncoding else h) := by
  unfold parseTransferEncoding
  cases chunked with
  | true =>
    simp only [if_true] at hte
    simp [hte, hlow]
  | false =>
    simp only [Bool.false_eq_true, if_false] at hte
    simp [hte]

/-- The framing entries of an origin-written head, as lookups in the map `ReadMIMEHeader`
built. `cl`: the Content-Length value (any spelling the reader parses to `n`). -/
structure FrameEntries (h : HeaderMap) (cc chunked : Bool) (te : Bytes) (cl : Option (Bytes × Nat))
    (tr : Option Bytes) : Prop where
  pragma : h.get kPragma = none
  conn : h.get kConnection = if cc then some [vClose] else none
  teGet : h.get kTransferEncoding = if chunked then some [te] else none
  teLow : lower te = vChunked
  clGet : h.get kContentLength = cl.map fun p => [p.1]
  clParse : ∀ p, cl = some p → parseContentLength1 p.1 = some p.2
  trGet : h.get Req.H1.kTrailer = tr.map fun v => [v]

/-- `FrameEntries` without the "no Pragma field" clause (round 5). -/
structure FrameEntries0 (h : HeaderMap) (cc chunked : Bool) (te : Bytes) (cl : Option (Bytes × Nat))
    (tr : Option Bytes) : Prop where
  conn : h.get kConnection = if cc then some [vClose] else none
  teGet : h.get kTransferEncoding = if chunked then some [te] else none
  teLow : lower te = vChunked
  clGet : h.get kContentLength = cl.map fun p => [p.1]
  clParse : ∀ p, cl = some p → parseContentLength1 p.1 = some p.2
  trGet : h.get Req.H1.kTrailer = tr.map fun v => [v]

theorem FrameEntries.to0 {h : HeaderMap} {cc chunked : Bool} {te : Bytes} {cl : Option (Bytes × Nat)}
    {tr : Option Bytes} (hE : FrameEntries h cc chunked te cl tr) : FrameEntries0 h cc chunked te cl tr :=
  ⟨hE.conn, hE.teGet, hE.teLow, hE.clGet, hE.clParse, hE.trGet⟩

/-- The header the caller sees: the map minus what `readTransfer` deletes. -/
def afterTransfer (h : HeaderMap) (cc chunked delCL delTr : Bool) : HeaderMap :=
  let h1 := if cc then h.del kConnection else h
  let h2 := if chunked then h1.del kTransferEncoding else h1
  let h3 := if delCL then h2.del kContentLength else h2
  if delTr then h3.del Req.H1.kTrailer else h3

theorem get_afterTransfer (h : HeaderMap) (cc chunked delCL delTr : Bool) (k : Bytes)
    (h1 : k ≠ kConnection) (h2 : k ≠ kTransferEncoding) (h3 : k ≠ kContentLength) (h4 : k ≠ Req.H1.kTrailer) :
    (afterTransfer h cc chunked delCL delTr).get k = h.get k := by
  unfold afterTransfer
  cases cc <;> cases chunked <;> cases delCL <;> cases delTr <;> simp [get_del, h1, h2, h3, h4]

/-- Keys the origin announced with `Trailer:` as `fixTrailer` reads them. -/
def declKeys (tv : Bytes) : List Bytes := (headerElements tv).map canonicalMIMEHeaderKey

def badTrailerKey (k : Bytes) : Bool := k == kTransferEncoding || k == Req.H1.kTrailer || k == kContentLength

/-- `resp.Trailer`'s keys before the body is read. -/
def trailerDeclOf : Option Bytes → List Bytes
  | some tv => (declKeys tv).eraseDups
  | none => []

/-- The body reader `readTransfer` installs for a response that may have a body and is not
chunked. -/
def framingOfCL : Option (Bytes × Nat) → RespFraming
  | some (_, 0) => RespFraming.none
  | some (_, n + 1) => RespFraming.length (n + 1)
  | none => RespFraming.untilClose

theorem noBody_iff (code : Nat) (isHead : Bool) :
    (isHead || !Req.H1.bodyAllowedForStatus code) = true ↔
      (isHead = true ∨ code / 100 = 1 ∨ code = 204 ∨ code = 304) := by
  cases isHead <;> simp [Req.H1.bodyAllowedForStatus] <;> omega

theorem fixLength_origin (code : Nat) (isHead : Bool) (h : HeaderMap) (chunked : Bool) (cl : Option (Bytes × Nat))
    (hcl : h.get kContentLength = cl.map fun p => [p.1])
    (hp : ∀ p, cl = some p → parseContentLength1 p.1 = some p.2) :
    fixLength code isHead h chunked = some (
      if (isHead || !Req.H1.bodyAllowedForStatus code) = true then ((0 : Int), h)
      else if chunked = true then (-1, h.del kContentLength)
      else match cl with
        | some (_, n) => ((n : Int), h)
        | none => (-1, h.del kContentLength)) := by
  have hnb := noBody_iff code isHead
  -- the tail of `fixLength` once the Content-Length values are parsed
  have htail : ∀ (n? : Option Nat) (X : Int × HeaderMap),
      (if chunked = true then ((-1 : Int), h.del kContentLength)
        else match n? with
          | some n => ((n : Int), h)
          | none => (-1, h.del kContentLength)) = X →
      (if isHead = true then some ((0 : Int), h)
        else if code / 100 = 1 then some (0, h)
        else if code = 204 ∨ code = 304 then some (0, h)
        else if chunked = true then some (-1, h.del kContentLength)
        else match n? with
          | some n => some ((n : Int), h)
          | none => some (-1, h.del kContentLength)) =
      some (if (isHead || !Req.H1.bodyAllowedForStatus code) = true then ((0 : Int), h) else X) := by
    intro n? X hX
    cases hb : (isHead || !Req.H1.bodyAllowedForStatus code) with
    | true =>
      simp only [if_true]
      rcases hnb.mp hb with h1 | h1 | h1 | h1
      · simp [h1]
      · by_cases h0 : isHead = true <;> simp [h0, h1]
      · by_cases h0 : isHead = true <;> by_cases h2 : code / 100 = 1 <;> simp [h0, h1, h2]
      · by_cases h0 : isHead = true <;> by_cases h2 : code / 100 = 1 <;> simp [h0, h1, h2]
    | false =>
      have hn : ¬ (isHead = true ∨ code / 100 = 1 ∨ code = 204 ∨ code = 304) := by
        intro hh
        have := hnb.mpr hh
        rw [hb] at this
        cases this
      have h1 : ¬ isHead = true := fun hh => hn (Or.inl hh)
      have h2 : ¬ code / 100 = 1 := fun hh => hn (Or.inr (Or.inl hh))
      have h3 : ¬ (code = 204 ∨ code = 304) := fun hh => hn (Or.inr (Or.inr hh))
      simp only [h1, h2, h3, if_false, Bool.false_eq_true]
      rw [← hX]
      cases chunked <;> cases n? <;> simp
  unfold fixLength
  cases cl with
  | none =>
    simp only [Option.map_none] at hcl
    simp only [hcl]
    exact htail none _ rfl
  | some p =>
    rcases p with ⟨v, n⟩
    simp only [Option.map_some] at hcl
    have hpv := hp (v, n) rfl
    simp only at hpv
    simp only [hcl, hpv, Option.map_some]
    exact htail (some n) _ rfl

theorem fixTrailer_origin (h : HeaderMap) (chunked : Bool) (tr : Option Bytes)
    (htr : h.get Req.H1.kTrailer = tr.map fun v => [v]) (htrc : tr.isSome = true → chunked = true)
    (hkeys : ∀ tv, tr = some tv → (declKeys tv).any badTrailerKey = false) :
    fixTrailer h chunked =
      some (trailerDeclOf tr, if tr.isSome then h.del Req.H1.kTrailer else h) := by
  unfold fixTrailer
  cases tr with
  | none =>
    simp only [Option.map_none] at htr
    simp [htr, trailerDeclOf]
  | some tv =>
    simp only [Option.map_some] at htr
    have hc : chunked = true := htrc rfl
    have hk := hkeys tv rfl
    simp only [htr, hc, Bool.not_true, Bool.false_eq_true, if_false, List.flatMap_cons, List.flatMap_nil,
      List.append_nil, Option.isSome_some, if_true]
    have : (List.map canonicalMIMEHeaderKey (headerElements tv)).any
        (fun k => k == kTransferEncoding || k == Req.H1.kTrailer || k == kContentLength) = false := hk
    simp only [this, Bool.false_eq_true, if_false]
    rfl

/-- **`readTransfer` on an origin-written head** (HTTP/1.1). The origin sends `Content-Length`
or `Transfer-Encoding: chunked` (not both) or neither, optionally `Connection: close`, and with
chunked coding optionally a `Trailer` announcement. -/
theorem readTransfer_core (isHead : Bool) (sl : StatusLine) (hmaj : sl.major = 1) (hmin : sl.minor = 1)
    (h : HeaderMap) (cc chunked : Bool) (te : Bytes) (cl : Option (Bytes × Nat)) (tr : Option Bytes)
    (hE : FrameEntries0 h cc chunked te cl tr)
    (hexcl : chunked = true → cl = none) (htrc : tr.isSome = true → chunked = true)
    (hkeys : ∀ tv, tr = some tv → (declKeys tv).any badTrailerKey = false) :
    ∃ msg, readTransfer isHead sl h = some msg ∧ msg.sl = sl ∧
      msg.teChunked = chunked ∧
      msg.trailerDecl = trailerDeclOf tr ∧
      (let noBody := isHead || !Req.H1.bodyAllowedForStatus sl.code
       msg.framing =
         (if noBody then RespFraming.none
          else if chunked then RespFraming.chunked
          else framingOfCL cl) ∧
       msg.header = afterTransfer h cc chunked
         (!noBody && (chunked || cl.isNone)) tr.isSome) := by
  obtain ⟨hconn, hte, hlow, hcl, hclp, htr⟩ := hE
  obtain ⟨d1, d2, d3, d4, d5, d6, _, _, _, _⟩ := keys_distinct
  -- lookups survive the deletions of other keys
  have hte1 : (if cc then h.del kConnection else h).get kTransferEncoding =
      if chunked then some [te] else none := by
    cases cc <;> simp [get_del, hte, Ne.symm d1]
  have hcl2 : (if chunked then (if cc then h.del kConnection else h).del kTransferEncoding
        else (if cc then h.del kConnection else h)).get kContentLength = cl.map fun p => [p.1] := by
    cases cc <;> cases chunked <;> simp [get_del, hcl, Ne.symm d2, Ne.symm d4]
  unfold readTransfer
  rw [hmaj, hmin, shouldClose_11 h cc hconn]
  simp only [show ¬ ((1 : Nat) = 0 ∧ (1 : Nat) = 0) by decide, if_false]
  rw [parseTE_11 _ chunked te hlow hte1]
  simp only
  rw [fixLength_origin sl.code isHead _ chunked cl hcl2 hclp]
  simp only
  -- the three shapes of the origin's framing
  cases hb : (isHead || !Req.H1.bodyAllowedForStatus sl.code) with
  | true =>
    simp only [if_true]
    -- header after fixLength = h2; Trailer lookup
    have htr3 : (if chunked then (if cc then h.del kConnection else h).del kTransferEncoding
          else (if cc then h.del kConnection else h)).get Req.H1.kTrailer = tr.map fun v => [v] := by
      cases cc <;> cases chunked <;> simp [get_del, htr, Ne.symm d3, Ne.symm d5]
    rw [fixTrailer_origin _ chunked tr htr3 htrc hkeys]
    -- `cl?`, then the result
    have hfin : ∀ c : Int, ∃ msg : Msg,
        some ({ sl := sl,
                header := (if tr.isSome = true then
                    (if chunked = true then (if cc = true then h.del kConnection else h).del kTransferEncoding
                      else if cc = true then h.del kConnection else h).del Req.H1.kTrailer
                  else
                    if chunked = true then (if cc = true then h.del kConnection else h).del kTransferEncoding
                    else if cc = true then h.del kConnection else h),
                contentLength := c, teChunked := chunked,
                close := cc || decide ((0 : Int) = -1) && !chunked && Req.H1.bodyAllowedForStatus sl.code,
                trailerDecl := trailerDeclOf tr,
                framing := if chunked = true then RespFraming.none else RespFraming.none } : Msg) = some msg ∧
          msg.sl = sl ∧ msg.teChunked = chunked ∧ msg.trailerDecl = trailerDeclOf tr ∧
          msg.framing = RespFraming.none ∧
          msg.header = afterTransfer h cc chunked (!true && (chunked || cl.isNone)) tr.isSome := by
      intro c
      refine ⟨_, rfl, rfl, rfl, rfl, ?_, ?_⟩
      · cases chunked <;> rfl
      · simp only [afterTransfer, Bool.not_true, Bool.false_and, Bool.false_eq_true, if_false]
    by_cases hh : isHead = true
    · simp only [hh, if_true, hcl2]
      cases cl with
      | none => exact hfin (-1)
      | some p =>
        simp only [Option.map_some, hclp p rfl]
        exact hfin p.2
    · simp only [hh, if_false]
      exact hfin 0
  | false =>
    simp only [Bool.false_eq_true, if_false]
    have hih : isHead = false := by
      cases isHead
      · rfl
      · simp at hb
    cases chunked with
    | true =>
      have hcln : cl = none := hexcl rfl
      subst hcln
      simp only [if_true]
      have htr3 : (((if cc then h.del kConnection else h).del kTransferEncoding).del kContentLength).get
          Req.H1.kTrailer = tr.map fun v => [v] := by
        cases cc <;> simp [get_del, htr, Ne.symm d3, Ne.symm d5, Ne.symm d6]
      rw [fixTrailer_origin _ true tr htr3 htrc hkeys]
      simp only [hih, Bool.false_eq_true, if_false]
      refine ⟨_, rfl, rfl, rfl, rfl, ?_, ?_⟩
      · simp
      · simp [afterTransfer]
    | false =>
      have htrn : tr = none := by
        cases tr with
        | none => rfl
        | some tv => exact absurd (htrc rfl) (by simp)
      subst htrn
      simp only [Bool.false_eq_true, if_false]
      cases cl with
      | none =>
        simp only
        have htr3 : ((if cc then h.del kConnection else h).del kContentLength).get Req.H1.kTrailer =
            (none : Option Bytes).map fun v => [v] := by
          cases cc <;> simp [get_del, htr, Ne.symm d3, Ne.symm d6]
        rw [fixTrailer_origin _ false none htr3 (by simp) (by simp)]
        simp only [hih, Bool.false_eq_true, if_false]
        refine ⟨_, rfl, rfl, rfl, rfl, ?_, ?_⟩
        · have hba : Req.H1.bodyAllowedForStatus sl.code = true := by simpa [hih] using hb
          simp [hba, framingOfCL]
        · simp [afterTransfer]
      | some p =>
        rcases p with ⟨v, n⟩
        simp only
        have htr3 : (if cc then h.del kConnection else h).get Req.H1.kTrailer =
            (none : Option Bytes).map fun v => [v] := by
          cases cc <;> simp [get_del, htr, Ne.symm d3]
        rw [fixTrailer_origin _ false none htr3 (by simp) (by simp)]
        simp only [hih, Bool.false_eq_true, if_false]
        refine ⟨_, rfl, rfl, rfl, rfl, ?_, ?_⟩
        · cases n with
          | zero => simp [framingOfCL]
          | succ n =>
            have : ¬ ((n + 1 : Nat) : Int) = 0 := by omega
            have h2 : ((n + 1 : Nat) : Int) > 0 := by omega
            simp only [this, h2, if_false, if_true, framingOfCL]
            congr 1
        · simp [afterTransfer]

end Req.C02

namespace Req.C02
open Req.Proto Req.Ascii Req.H1

/-- `readTransfer_core` behind `fixPragmaCacheControl` for a head without a `Pragma` field (the
round-4 statement). -/
theorem readTransfer_origin (isHead : Bool) (sl : StatusLine) (hmaj : sl.major = 1) (hmin : sl.minor = 1)
    (h : HeaderMap) (cc chunked : Bool) (te : Bytes) (cl : Option (Bytes × Nat)) (tr : Option Bytes)
    (hE : FrameEntries h cc chunked te cl tr)
    (hexcl : chunked = true → cl = none) (htrc : tr.isSome = true → chunked = true)
    (hkeys : ∀ tv, tr = some tv → (declKeys tv).any badTrailerKey = false) :
    ∃ msg, readTransfer isHead sl (fixPragmaCacheControl h) = some msg ∧ msg.sl = sl ∧
      msg.teChunked = chunked ∧
      msg.trailerDecl = trailerDeclOf tr ∧
      (let noBody := isHead || !Req.H1.bodyAllowedForStatus sl.code
       msg.framing =
         (if noBody then RespFraming.none
          else if chunked then RespFraming.chunked
          else framingOfCL cl) ∧
       msg.header = afterTransfer h cc chunked
         (!noBody && (chunked || cl.isNone)) tr.isSome) := by
  rw [fixPragma_absent h hE.pragma]
  exact readTransfer_core isHead sl hmaj hmin h cc chunked te cl tr hE.to0 hexcl htrc hkeys

/-! ### round 5: heads WITH a `Pragma` field -/

theorem get_set' (m : HeaderMap) (k k' : Bytes) (vs : List Bytes) (h : k' ≠ k) :
    (m.set k vs).get k' = m.get k' := by
  induction m with
  | nil =>
    have : (k' == k) = false := by simpa using h
    simp [HeaderMap.set, HeaderMap.get, List.lookup, this]
  | cons p ps ih =>
    rcases p with ⟨pk, pvs⟩
    simp only [HeaderMap.set, HeaderMap.get] at ih ⊢
    by_cases hpk : pk = k
    · subst hpk
      have : (k' == pk) = false := by simpa using h
      simp [List.lookup, this]
    · have hb : (pk == k) = false := by simpa using hpk
      simp only [hb, Bool.false_eq_true, if_false, List.lookup]
      cases (k' == pk)
      · exact ih
      · rfl

/-- `fixPragmaCacheControl` touches the `Cache-Control` entry only. -/
theorem get_fixPragma_other (h : HeaderMap) (k : Bytes) (hk : k ≠ kCacheControl) :
    (fixPragmaCacheControl h).get k = h.get k := by
  unfold fixPragmaCacheControl
  split
  · split
    · exact get_set' h kCacheControl k _ hk
    · rfl
  · rfl

theorem cacheControl_distinct :
    kConnection ≠ kCacheControl ∧ kTransferEncoding ≠ kCacheControl ∧ kContentLength ≠ kCacheControl ∧
    Req.H1.kTrailer ≠ kCacheControl := by decide

theorem FrameEntries0.fixPragma {h : HeaderMap} {cc chunked : Bool} {te : Bytes} {cl : Option (Bytes × Nat)}
    {tr : Option Bytes} (hE : FrameEntries0 h cc chunked te cl tr) :
    FrameEntries0 (fixPragmaCacheControl h) cc chunked te cl tr := by
  obtain ⟨c1, c2, c3, c4⟩ := cacheControl_distinct
  exact ⟨by rw [get_fixPragma_other h _ c1]; exact hE.conn,
         by rw [get_fixPragma_other h _ c2]; exact hE.teGet, hE.teLow,
         by rw [get_fixPragma_other h _ c3]; exact hE.clGet, hE.clParse,
         by rw [get_fixPragma_other h _ c4]; exact hE.trGet⟩

/-- **`readTransfer` on an origin-written head, `Pragma` allowed**: the framing verdict is the
same; the header the caller sees is what `fixPragmaCacheControl` made of the map, minus what
`readTransfer` deletes. -/
theorem readTransfer_origin_pragma (isHead : Bool) (sl : StatusLine) (hmaj : sl.major = 1) (hmin : sl.minor = 1)
    (h : HeaderMap) (cc chunked : Bool) (te : Bytes) (cl : Option (Bytes × Nat)) (tr : Option Bytes)
    (hE : FrameEntries0 h cc chunked te cl tr)
    (hexcl : chunked = true → cl = none) (htrc : tr.isSome = true → chunked = true)
    (hkeys : ∀ tv, tr = some tv → (declKeys tv).any badTrailerKey = false) :
    ∃ msg, readTransfer isHead sl (fixPragmaCacheControl h) = some msg ∧ msg.sl = sl ∧
      msg.teChunked = chunked ∧
      msg.trailerDecl = trailerDeclOf tr ∧
      (let noBody := isHead || !Req.H1.bodyAllowedForStatus sl.code
       msg.framing =
         (if noBody then RespFraming.none
          else if chunked then RespFraming.chunked
          else framingOfCL cl) ∧
       msg.header = afterTransfer (fixPragmaCacheControl h) cc chunked
         (!noBody && (chunked || cl.isNone)) tr.isSome) :=
  readTransfer_core isHead sl hmaj hmin (fixPragmaCacheControl h) cc chunked te cl tr hE.fixPragma hexcl htrc hkeys

/-! ### a whole head, and the 1xx loop -/

/-- A response head as the origin writes it. -/
structure OHead where
  d1 : UInt8
  d2 : UInt8
  d3 : UInt8
  reason : Bytes
  fs : List WField
deriving Repr

def OHead.code (o : OHead) : Nat := codeOf o.d1 o.d2 o.d3

def OHead.OK (o : OHead) : Prop :=
  isDigit o.d1 = true ∧ isDigit o.d2 = true ∧ isDigit o.d3 = true ∧ (10 : UInt8) ∉ o.reason ∧
  ∀ f ∈ o.fs, f.OK

/-- status line CRLF field lines CRLF -/
def OHead.wire (o : OHead) : Bytes := statusWire o.d1 o.d2 o.d3 o.reason ++ 13 :: 10 :: blockWire o.fs

/-- The header map `ReadMIMEHeader` builds for the head. -/
def OHead.hmap (o : OHead) : HeaderMap := hmapOf (fieldsOf o.fs)

theorem statusWire_no_lf (o : OHead) (h : o.OK) : (10 : UInt8) ∉ statusWire o.d1 o.d2 o.d3 o.reason := by
  obtain ⟨h1, h2, h3, hr, _⟩ := h
  obtain ⟨_, _, _, a⟩ := digit_ne o.d1 h1
  obtain ⟨_, _, _, b⟩ := digit_ne o.d2 h2
  obtain ⟨_, _, _, c⟩ := digit_ne o.d3 h3
  simp only [statusWire, List.cons_append, List.nil_append, List.mem_cons, not_or]
  refine ⟨by decide, by decide, by decide, by decide, by decide, by decide, by decide, by decide, by decide,
    Ne.symm a, Ne.symm b, Ne.symm c, by decide, hr⟩

/-- **One head**: the byte-exact reader returns the origin's status code, and `readTransfer`'s
verdict on the origin's framing fields; it consumes exactly the head. -/
theorem parseHead_origin (isHead : Bool) (o : OHead) (ho : o.OK)
    (cc chunked : Bool) (te : Bytes) (cl : Option (Bytes × Nat)) (tr : Option Bytes)
    (hE : FrameEntries o.hmap cc chunked te cl tr)
    (hexcl : chunked = true → cl = none) (htrc : tr.isSome = true → chunked = true)
    (hkeys : ∀ tv, tr = some tv → (declKeys tv).any badTrailerKey = false) (R : Bytes) :
    ∃ msg, Req.H1.parseHead isHead (o.wire ++ R) = some (msg, R) ∧ msg.sl.code = o.code ∧
      msg.teChunked = chunked ∧ msg.trailerDecl = trailerDeclOf tr ∧
      (let noBody := isHead || !Req.H1.bodyAllowedForStatus o.code
       msg.framing =
         (if noBody then RespFraming.none
          else if chunked then RespFraming.chunked
          else framingOfCL cl) ∧
       msg.header = afterTransfer o.hmap cc chunked (!noBody && (chunked || cl.isNone)) tr.isSome) := by
  obtain ⟨sl, hsl, hcode, hmaj, hmin⟩ := parseStatusLine_origin o.d1 o.d2 o.d3 o.reason ho.1 ho.2.1 ho.2.2.1
  obtain ⟨msg, hrt, hmsl, h2, h3, h4⟩ :=
    readTransfer_origin isHead sl hmaj hmin o.hmap cc chunked te cl tr hE hexcl htrc hkeys
  have hline : Req.H1.readLine (o.wire ++ R) =
      some (statusWire o.d1 o.d2 o.d3 o.reason, blockWire o.fs ++ R) := by
    have := h1_readLine_crlf (statusWire o.d1 o.d2 o.d3 o.reason) (blockWire o.fs ++ R) (statusWire_no_lf o ho)
    simpa [OHead.wire, List.append_assoc] using this
  refine ⟨msg, ?_, by rw [hmsl, hcode]; rfl, h2, h3, ?_⟩
  · unfold Req.H1.parseHead
    simp only [hline, hsl, readMIMEHeader_block o.fs ho.2.2.2.2 R]
    have : hmapOf (fieldsOf o.fs) = o.hmap := rfl
    rw [this, hrt]
  · have hc : sl.code = o.code := by rw [hcode]; rfl
    rw [hc] at h4
    exact h4

/-- `parseHead_origin` for a head that may carry a `Pragma` field (round 5): the header the
caller sees is `fixPragmaCacheControl` of the map, minus what `readTransfer` deletes. -/
theorem parseHead_origin_pragma (isHead : Bool) (o : OHead) (ho : o.OK)
    (cc chunked : Bool) (te : Bytes) (cl : Option (Bytes × Nat)) (tr : Option Bytes)
    (hE : FrameEntries0 o.hmap cc chunked te cl tr)
    (hexcl : chunked = true → cl = none) (htrc : tr.isSome = true → chunked = true)
    (hkeys : ∀ tv, tr = some tv → (declKeys tv).any badTrailerKey = false) (R : Bytes) :
    ∃ msg, Req.H1.parseHead isHead (o.wire ++ R) = some (msg, R) ∧ msg.sl.code = o.code ∧
      msg.teChunked = chunked ∧ msg.trailerDecl = trailerDeclOf tr ∧
      (let noBody := isHead || !Req.H1.bodyAllowedForStatus o.code
       msg.framing =
         (if noBody then RespFraming.none
          else if chunked then RespFraming.chunked
          else framingOfCL cl) ∧
       msg.header = afterTransfer (fixPragmaCacheControl o.hmap) cc chunked
         (!noBody && (chunked || cl.isNone)) tr.isSome) := by
  obtain ⟨sl, hsl, hcode, hmaj, hmin⟩ := parseStatusLine_origin o.d1 o.d2 o.d3 o.reason ho.1 ho.2.1 ho.2.2.1
  obtain ⟨msg, hrt, hmsl, h2, h3, h4⟩ :=
    readTransfer_origin_pragma isHead sl hmaj hmin o.hmap cc chunked te cl tr hE hexcl htrc hkeys
  have hline : Req.H1.readLine (o.wire ++ R) =
      some (statusWire o.d1 o.d2 o.d3 o.reason, blockWire o.fs ++ R) := by
    have := h1_readLine_crlf (statusWire o.d1 o.d2 o.d3 o.reason) (blockWire o.fs ++ R) (statusWire_no_lf o ho)
    simpa [OHead.wire, List.append_assoc] using this
  refine ⟨msg, ?_, by rw [hmsl, hcode]; rfl, h2, h3, ?_⟩
  · unfold Req.H1.parseHead
    simp only [hline, hsl, readMIMEHeader_block o.fs ho.2.2.2.2 R]
    have : hmapOf (fieldsOf o.fs) = o.hmap := rfl
    rw [this, hrt]
  · have hc : sl.code = o.code := by rw [hcode]; rfl
    rw [hc] at h4
    exact h4

/-- An interim response: 1xx other than 101, no framing fields. -/
def OHead.Interim (o : OHead) : Prop :=
  o.OK ∧ o.d1 = 49 ∧ ¬ (o.d2 = 48 ∧ o.d3 = 49) ∧
  FrameEntries o.hmap false false vChunked none none

theorem digit_val (d : UInt8) (h : isDigit d = true) : d.toNat - 48 ≤ 9 ∧ 48 ≤ d.toNat := by
  simp only [isDigit, Bool.and_eq_true, decide_eq_true_eq] at h
  have h1 := UInt8.le_iff_toNat_le.mp h.1
  have h2 := UInt8.le_iff_toNat_le.mp h.2
  simp at h1 h2
  omega

theorem interim_code (o : OHead) (h : o.Interim) : 100 ≤ o.code ∧ o.code ≤ 199 ∧ o.code ≠ 101 := by
  obtain ⟨ho, h1, hne, _⟩ := h
  obtain ⟨a2, b2⟩ := digit_val o.d2 ho.2.1
  obtain ⟨a3, b3⟩ := digit_val o.d3 ho.2.2.1
  have hd1 : o.d1.toNat = 49 := by rw [h1]; rfl
  simp only [OHead.code, codeOf, hd1]
  refine ⟨by omega, by omega, ?_⟩
  intro h101
  apply hne
  have e2 : o.d2.toNat = 48 := by omega
  have e3 : o.d3.toNat = 49 := by omega
  exact ⟨UInt8.toNat_inj.mp e2, UInt8.toNat_inj.mp e3⟩

def interimsWire (is : List OHead) : Bytes := (is.map OHead.wire).flatten

/-- **The 1xx loop** (`persistConn.readResponse`): up to five interim responses are skipped,
the final head is returned as `parseHead` reads it. -/
theorem parseFinalHead_origin (isHead : Bool) (is : List OHead) (his : ∀ i ∈ is, i.Interim)
    (fuel : Nat) (hfuel : is.length < fuel) (W : Bytes) (res : Option (Msg × Bytes))
    (hfinal : Req.H1.parseHead isHead W = res)
    (hcode : ∀ m r, res = some (m, r) → ¬ (100 ≤ m.sl.code ∧ m.sl.code ≤ 199 ∧ m.sl.code ≠ 101)) :
    Req.H1.parseFinalHead fuel isHead (interimsWire is ++ W) = res := by
  induction is generalizing fuel with
  | nil =>
    cases fuel with
    | zero => simp at hfuel
    | succ fuel =>
      simp only [interimsWire, List.map_nil, List.flatten_nil, List.nil_append]
      unfold Req.H1.parseFinalHead
      rw [hfinal]
      cases res with
      | none => rfl
      | some p =>
        rcases p with ⟨m, r⟩
        have := hcode m r rfl
        simp only [this, if_false]
  | cons i is ih =>
    cases fuel with
    | zero => simp at hfuel
    | succ fuel =>
      have hi := his i (by simp)
      obtain ⟨msg, hph, hc, _⟩ := parseHead_origin isHead i hi.1 false false vChunked none none hi.2.2.2
        (by simp) (by simp) (by simp) (interimsWire is ++ W)
      have hw : interimsWire (i :: is) ++ W = i.wire ++ (interimsWire is ++ W) := by
        simp [interimsWire, List.append_assoc]
      rw [hw]
      unfold Req.H1.parseFinalHead
      rw [hph]
      have hcode' := interim_code i hi
      rw [← hc] at hcode'
      simp only [hcode', ne_eq, not_false_eq_true, and_self, if_true]
      exact ih (fun j hj => his j (by simp [hj])) fuel (by simp at hfuel; omega)

end Req.C02

namespace Req.C02
open Req.Proto Req.Ascii Req.H1

/-! ### decidable forms of the origin-side well-formedness predicates (for examples) -/

def valueOKb (v : Bytes) : Bool :=
  (v.all fun c => (c ≥ 32 ∧ c != 127) ∨ c == 9) &&
  (match v.head? with | some a => !Req.C02.isOWS a | none => true) &&
  (match v.getLast? with | some a => !Req.C02.isOWS a | none => true)

theorem valueOK_of_bool (v : Bytes) (h : valueOKb v = true) : ValueOK v := by
  simp only [valueOKb, Bool.and_eq_true] at h
  obtain ⟨⟨h1, h2⟩, h3⟩ := h
  refine ⟨h1, ?_, ?_⟩
  · intro a rest hv
    subst hv
    simpa using h2
  · intro a pre hv
    subst hv
    simpa using h3

def wfieldOKb (f : WField) : Bool :=
  !f.name.isEmpty && f.name.all isTokenByte && valueOKb f.value &&
  f.pad1.all Req.C02.isOWS && f.pad2.all Req.C02.isOWS

theorem wfield_ok_of_bool (f : WField) (h : wfieldOKb f = true) : f.OK := by
  simp only [wfieldOKb, Bool.and_eq_true] at h
  obtain ⟨⟨⟨⟨h1, h2⟩, h3⟩, h4⟩, h5⟩ := h
  refine ⟨?_, h2, valueOK_of_bool _ h3, ?_, ?_⟩
  · intro hn; rw [hn] at h1; simp at h1
  · exact fun x hx => List.all_eq_true.mp h4 x hx
  · exact fun x hx => List.all_eq_true.mp h5 x hx

def oheadOKb (o : OHead) : Bool :=
  isDigit o.d1 && isDigit o.d2 && isDigit o.d3 && !o.reason.contains 10 && o.fs.all wfieldOKb

theorem ohead_ok_of_bool (o : OHead) (h : oheadOKb o = true) : o.OK := by
  simp only [oheadOKb, Bool.and_eq_true] at h
  obtain ⟨⟨⟨⟨h1, h2⟩, h3⟩, h4⟩, h5⟩ := h
  refine ⟨h1, h2, h3, ?_, ?_⟩
  · intro hm
    have : o.reason.contains 10 = true := by simpa using hm
    rw [this] at h4
    simp at h4
  · exact fun f hf => wfield_ok_of_bool f (List.all_eq_true.mp h5 f hf)

end Req.C02

namespace Req.C02
open Req.Proto Req.Ascii Req.H1

/-- The lines of a head as `ReadSlice('\n')` sees them (without the final LF). -/
def OHead.lines (o : OHead) : List Bytes :=
  (statusWire o.d1 o.d2 o.d3 o.reason ++ [13]) :: ((o.fs.map fun f => f.line ++ [13]) ++ [[13]])

theorem OHead.wire_lines (o : OHead) : o.wire = linesWire o.lines := by
  have hb : ∀ fs : List WField, blockWire fs = linesWire ((fs.map fun f => f.line ++ [13]) ++ [[13]]) := by
    intro fs
    induction fs with
    | nil => simp [blockWire, linesWire]
    | cons f fs ih =>
      rw [blockWire_cons, ih]
      simp [linesWire, List.append_assoc]
  unfold OHead.wire OHead.lines
  rw [hb]
  simp [linesWire, List.append_assoc]

theorem OHead.lines_no_lf (o : OHead) (ho : o.OK) : ∀ l ∈ o.lines, (10 : UInt8) ∉ l := by
  intro l hl
  simp only [OHead.lines, List.mem_cons, List.mem_append, List.mem_map, List.mem_nil_iff, or_false] at hl
  rcases hl with rfl | ⟨f, hf, rfl⟩ | rfl
  · intro hm
    simp only [List.mem_append, List.mem_singleton] at hm
    rcases hm with hm | hm
    · exact statusWire_no_lf o ho hm
    · cases hm
  · intro hm
    simp only [List.mem_append, List.mem_singleton] at hm
    rcases hm with hm | hm
    · exact line_no_lf f (ho.2.2.2.2 f hf) hm
    · cases hm
  · decide

theorem linesWire_append (a b : List Bytes) : linesWire (a ++ b) = linesWire a ++ linesWire b := by
  simp [linesWire]

end Req.C02
