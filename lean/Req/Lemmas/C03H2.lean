import Req.C03.H2Cut
/-!
C03 — HTTP/2 lemmas: normal forms of the read-loop transitions of `Req.C02.H2Stream`, and the
inductive invariant that relates, for EVERY sequence of frames / connection events and every
interleaving with caller reads, the bytes handed to the caller (`O`), the pipe contents and the
concatenated DATA payloads (`D`).
-/
namespace Req.C03
open Req.Proto Req.C02

/-- `s1` differs from `s` only in fields the body reader never looks at. -/
structure CtlEq (s s1 : H2Stream) : Prop where
  pipe : s1.pipe = s.pipe
  readErr : s1.readErr = s.readErr
  bytesRemain : s1.bytesRemain = s.bytesRemain
  readClosed : s1.readClosed = s.readClosed
  readAborted : s1.readAborted = s.readAborted
  connDead : s1.connDead = s.connDead
  isHead : s1.isHead = s.isHead
  res : s1.res = s.res
  headErr : s1.headErr = s.headErr

theorem CtlEq.rfl' (s : H2Stream) : CtlEq s s := ⟨rfl, rfl, rfl, rfl, rfl, rfl, rfl, rfl, rfl⟩

theorem CtlEq.trans {a b c : H2Stream} (h1 : CtlEq a b) (h2 : CtlEq b c) : CtlEq a c :=
  ⟨h2.pipe.trans h1.pipe, h2.readErr.trans h1.readErr, h2.bytesRemain.trans h1.bytesRemain,
   h2.readClosed.trans h1.readClosed, h2.readAborted.trans h1.readAborted, h2.connDead.trans h1.connDead,
   h2.isHead.trans h1.isHead, h2.res.trans h1.res, h2.headErr.trans h1.headErr⟩

/-- `pushData s p`: DATA payload accepted into the pipe. -/
def pushData (s : H2Stream) (p : Bytes) : H2Stream := { s with pipe := { s.pipe with buf := s.pipe.buf ++ p } }

/-- The pipe takes writes. -/
def Writable (s : H2Stream) : Prop :=
  s.pipe.err = none ∧ s.pipe.breakErr = none ∧ s.pipe.hasBuf = true

theorem write_cases (p : Pipe) (d : Bytes) :
    (p.write d = .error .pipeWrite ∧ ¬(p.err = none ∧ p.breakErr = none ∧ p.hasBuf = true)) ∨
    (p.write d = .ok { p with buf := p.buf ++ d } ∧ p.err = none ∧ p.breakErr = none ∧ p.hasBuf = true) := by
  unfold Pipe.write
  split
  · left; rename_i h; refine ⟨rfl, ?_⟩; rcases h with h | h <;> (intro ⟨a, b, _⟩; simp_all)
  · split
    · left; refine ⟨rfl, ?_⟩; intro ⟨_, _, c⟩; simp_all
    · right; rename_i h1 h2; simp_all

inductive DataNF (s : H2Stream) (p : Bytes) (es : Bool) : H2Stream → Prop
  | ignored : (s.readAborted = true ∨ s.connDead = true) → DataNF s p es s
  | rejected (e : H2Err) : e ≠ .eof → ¬(s.readAborted = true ∨ s.connDead = true) → DataNF s p es (s.endStreamError e)
  | empty : p = [] → ¬(s.readAborted = true ∨ s.connDead = true) → s.readClosed = false → s.pastHeaders = true →
      DataNF s p es (if es then s.endStream else s)
  | accepted : p ≠ [] → ¬(s.readAborted = true ∨ s.connDead = true) → s.readClosed = false → s.pastHeaders = true →
      Writable s → DataNF s p es (if es then (pushData s p).endStream else pushData s p)

theorem processData_nf (s : H2Stream) (p : Bytes) (pad es : Bool) : DataNF s p es (s.processData p pad es) := by
  unfold H2Stream.processData
  split
  · rename_i h; exact .ignored h
  rename_i h0
  split
  · exact .rejected _ (by simp) h0
  rename_i h1
  split
  · exact .rejected _ (by simp) h0
  rename_i h2
  simp only []
  split
  · exact .rejected _ (by simp) h0
  by_cases hp : p.length > 0
  · simp only [hp, if_true]
    have hpne : p ≠ [] := by intro h; simp [h] at hp
    rcases write_cases s.pipe p with ⟨hw, _⟩ | ⟨hw, hwr⟩
    · simp only [hw]; exact .rejected _ (by simp) h0
    · simp only [hw]
      have := DataNF.accepted (es := es) hpne h0 (by simpa using h1) (by simpa using h2) hwr
      simpa [pushData] using this
  · have hpe : p = [] := List.length_eq_zero_iff.mp (by omega)
    simp only [hp, if_false]
    have := DataNF.empty (s := s) (es := es) hpe h0 (by simpa using h1) (by simpa using h2)
    simpa using this

theorem handleResponse_nf (s : H2Stream) (fs : Fields) (es : Bool) :
    (∃ e, (s.handleResponse fs es).1 = .error e ∧ e ≠ .eof ∧ CtlEq s (s.handleResponse fs es).2 ∧
        (s.handleResponse fs es).2.pastHeaders = s.pastHeaders) ∨
    ((s.handleResponse fs es).1 = .ok none ∧ CtlEq s (s.handleResponse fs es).2 ∧
        (s.handleResponse fs es).2.pastHeaders = false ∧ es = false) ∨
    (∃ res, (s.handleResponse fs es).1 = .ok (some res) ∧ res.body ≠ .piped ∧ (s.handleResponse fs es).2 = s ∧
        (s.isHead = false → es = true) ∧ (s.isHead = true → res.body = .noBody)) ∨
    (∃ res, (s.handleResponse fs es).1 = .ok (some res) ∧ res.body = .piped ∧
        (s.handleResponse fs es).2 = { s with pipe := s.pipe.setBuffer, bytesRemain := res.contentLength } ∧
        s.isHead = false ∧ es = false) := by
  unfold H2Stream.handleResponse
  split
  · left; exact ⟨_, rfl, by simp, CtlEq.rfl' s, rfl⟩
  split
  · left; exact ⟨_, rfl, by simp, CtlEq.rfl' s, rfl⟩
  split
  · left; exact ⟨_, rfl, by simp, CtlEq.rfl' s, rfl⟩
  simp only []
  split
  · split
    · left; exact ⟨_, rfl, by simp, CtlEq.rfl' s, rfl⟩
    · split
      · left; exact ⟨_, rfl, by simp, ⟨rfl, rfl, rfl, rfl, rfl, rfl, rfl, rfl, rfl⟩, rfl⟩
      · rename_i hes _
        right; left; exact ⟨rfl, ⟨rfl, rfl, rfl, rfl, rfl, rfl, rfl, rfl, rfl⟩, rfl, by simpa using hes⟩
  · split
    · rename_i hh
      right; right; left; exact ⟨_, rfl, by simp, rfl, by simp [hh], fun _ => rfl⟩
    · rename_i hh
      split
      · rename_i hes
        right; right; left
        refine ⟨_, rfl, ?_, rfl, fun _ => hes, fun h => absurd h hh⟩
        simp only []
        split <;> (try split) <;> simp
      · rename_i hes
        right; right; right
        exact ⟨_, rfl, rfl, rfl, by simpa using hh, by simpa using hes⟩

def Ignored (s : H2Stream) : Prop := s.readAborted = true ∨ s.connDead = true

inductive HeadersNF (s : H2Stream) (es : Bool) : H2Stream → Prop
  | ignored : Ignored s → HeadersNF s es s
  | rejected (s1 : H2Stream) (e : H2Err) : CtlEq s s1 → e ≠ .eof → ¬Ignored s →
      (s.pastHeaders = true → s1.pastHeaders = true) → HeadersNF s es (s1.endStreamError e)
  | connErr (s1 : H2Stream) : CtlEq s s1 → ¬Ignored s → s.readClosed = false → s.pastHeaders = true →
      s1.pastHeaders = true → HeadersNF s es s1.connError
  | trailers (s1 : H2Stream) : CtlEq s s1 → ¬Ignored s → s.readClosed = false → s.pastHeaders = true →
      s1.pastHeaders = true → es = true → HeadersNF s es s1.endStream
  | interim (s1 : H2Stream) : CtlEq s s1 → ¬Ignored s → s.readClosed = false → s.pastHeaders = false →
      s1.pastHeaders = false → es = false → HeadersNF s es s1
  | bodiless (s1 : H2Stream) (r : H2Res) : CtlEq s s1 → ¬Ignored s → s.readClosed = false → s.pastHeaders = false →
      s1.pastHeaders = true → r.body ≠ .piped → (s.isHead = false → es = true) →
      (s.isHead = true → r.body = .noBody) →
      HeadersNF s es (if es then ({ s1 with res := some r } : H2Stream).endStream else { s1 with res := some r })
  | piped (s1 : H2Stream) (r : H2Res) : CtlEq s s1 → ¬Ignored s → s.readClosed = false → s.pastHeaders = false →
      s1.pastHeaders = true → r.body = .piped → s.isHead = false → es = false →
      HeadersNF s es { s1 with res := some r, pipe := s1.pipe.setBuffer, bytesRemain := r.contentLength }

theorem processHeaders_nf (s : H2Stream) (fs : Fields) (es : Bool) : HeadersNF s es (s.processHeaders fs es) := by
  unfold H2Stream.processHeaders
  split
  · rename_i h; exact .ignored h
  rename_i h0
  split
  · exact .rejected s _ (CtlEq.rfl' s) (by simp) h0 id
  rename_i h1
  have h1' : s.readClosed = false := by simpa using h1
  split
  · rename_i h2
    unfold H2Stream.processTrailers
    split
    · exact .connErr s (CtlEq.rfl' s) h0 h1' h2 h2
    · simp only []
      split
      · exact .connErr _ ⟨rfl, rfl, rfl, rfl, rfl, rfl, rfl, rfl, rfl⟩ h0 h1' h2 h2
      · split
        · exact .connErr _ ⟨rfl, rfl, rfl, rfl, rfl, rfl, rfl, rfl, rfl⟩ h0 h1' h2 h2
        · rename_i hes _
          exact .trailers _ ⟨rfl, rfl, rfl, rfl, rfl, rfl, rfl, rfl, rfl⟩ h0 h1' h2 h2 (by simpa using hes)
  · rename_i h2
    have h2' : s.pastHeaders = false := by simpa using h2
    simp only []
    have hc0 : CtlEq s { s with pastHeaders := true } := ⟨rfl, rfl, rfl, rfl, rfl, rfl, rfl, rfl, rfl⟩
    have hnf := handleResponse_nf { s with pastHeaders := true } fs es
    generalize hr : ({ s with pastHeaders := true } : H2Stream).handleResponse fs es = r at hnf
    obtain ⟨a, s'⟩ := r
    simp only at hnf ⊢
    rcases hnf with ⟨e, rfl, he, hc, hpp⟩ | ⟨rfl, hc, hp, hes⟩ | ⟨res, rfl, hb, rfl, hh, hnb⟩ | ⟨res, rfl, hb, rfl, hh, hes⟩
    · exact .rejected s' e (hc0.trans hc) he h0 (fun _ => by simpa using hpp)
    · exact .interim s' (hc0.trans hc) h0 h1' h2' hp hes
    · exact .bodiless _ res hc0 h0 h1' h2' rfl hb hh hnb
    · subst hes
      exact .piped _ res hc0 h0 h1' h2' rfl hb hh rfl
