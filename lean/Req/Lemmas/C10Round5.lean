import Req.Lemmas.C10Dyn
import Req.Lemmas.C10Attempt
/-! Helper lemmas of round 5: the wire events of one pass of the dynamic loop; what an upload that
keeps the `GetFileContent` contract yields. -/
namespace Req.Lemmas.C10Round5
open Req.Retry Req.RetryDyn Req.Lemmas.C10Loop Req.Lemmas.C10Dyn

variable {σ W : Type}

theorem wires_hookEvs (p : Policy σ) (ra : Nat) (view : RespView) (err : Option Err) :
    wires (hookEvs (W := W) p ra view err) = [] := by
  unfold hookEvs
  induction p.hooks.reverse with
  | nil => rfl
  | cons h t ih => simpa [wires] using ih

theorem wires_waitStage (v : Variant) (ed : Edits) (o : Outcome) (ra : Nat) (view : RespView) (resp : Option Resp)
    (ev : List (Event W)) (d3 : Dyn) (st2 : σ) :
    wires (waitStage v ed o ra view resp ev d3 st2).events = wires ev := by
  rw [(waitStage_tail v ed o ra view resp ev d3 st2).1, wires_append]
  simp [wires]

theorem wires_retryStage (v : Variant) (p : Policy σ) (ed : Edits) (o : Outcome) (ra : Nat) (view : RespView)
    (resp : Option Resp) (err : Option Err) (ev0 : List (Event W)) (d1 : Dyn) (st1 : σ) :
    wires (retryStage v p ed o ra view resp err ev0 d1 st1).events = wires ev0 := by
  unfold retryStage
  simp only
  have hq := (quiet_askConds (W := W) p ra view err).wires
  split
  · rw [wires_append, hq]; simp
  · rw [wires_waitStage, wires_append, wires_append, hq, wires_hookEvs]; simp

/-- One pass puts exactly one request on the wire — the one its middleware built — unless a
request middleware failed. -/
theorem wires_diteration (v : Variant) (p : Policy σ) (ed : Edits) (mw : Nat → σ → σ × W)
    (su : σ → Bool) (o : Outcome) (ra : Nat) (st : σ) (d : Dyn) (prev : Option Resp) :
    wires (diteration v p ed mw su o ra st d prev).events =
      if o = .beforeErr then [] else [(ra, (mw ra st).2)] := by
  unfold diteration
  by_cases ho : o = .beforeErr
  · simp [ho, wires]
  · simp only [ho, ↓reduceIte]
    have h0 : ∀ ob err, wires ([Event.before ra, .wire ra (mw ra st).2] ++ (runAfter (W := W) v ob ra p.after 0 err).1) =
        [(ra, (mw ra st).2)] := by
      intro ob err
      rw [wires_append, (quiet_runAfter v ob ra p.after 0 err).wires]
      simp [wires]
    split
    · exact h0 _ _
    · split
      · exact h0 _ _
      · split
        · exact h0 _ _
        · rw [wires_retryStage]; exact h0 _ _

open Req.Attempt Req.Lemmas.C10Attempt in
/-- An upload that keeps the contract and is not refused yields its complete content whenever it
is read (repaired code): a fresh reader, a reopened file, or a reader rewound first. -/
theorem fileContent_complete (f : FileUp) (h : NoStream f) : fileContent R f.src = f.src.content := by
  obtain ⟨p, n, ct, src⟩ := f
  cases src with
  | stream cc b => exact absurd rfl (h.1 cc b)
  | closer cc b => exact absurd rfl (h.2.1 cc b)
  | bytes cc => rfl
  | path cc => rfl
  | seeker cc b => simp [fileContent, FileSrc.content, R, Variant.repaired]
  | shared cc sk b =>
    cases sk with
    | false => exact absurd rfl (h.2.2 cc b)
    | true => simp [fileContent, FileSrc.content]

end Req.Lemmas.C10Round5
