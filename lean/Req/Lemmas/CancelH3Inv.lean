import Req.Lemmas.CancelH3
set_option linter.unusedSimpArgs false
/-! The invariant of the HTTP/3 lifecycle model is preserved by every internal step and every
environment event. -/
namespace Req.Lemmas.CancelH3
open Req.Cancel (CtxErr)
open Req.CancelH3

theorem reset_facts (x : Side) :
    x.resetIfOpen ≠ .open ∧ (x.resetIfOpen = .idle ↔ x = .idle) ∧ (x.resetIfOpen = .fin ↔ x = .fin) ∧
    (x.resetIfOpen = .cancelled ↔ x = .cancelled) ∧ (x.resetIfOpen = .reset ↔ (x = .reset ∨ x = .open)) := by
  cases x <;> simp [Side.resetIfOpen]

macro "inv_g" : tactic => `(tactic|
  (constructor <;> simp only [failing, joining, retErr, retd, reduceCtorEq, false_or, or_false, true_or, or_true] at * <;> grind))

theorem inv_cHsCancel {s : St} (h : Inv s) (g : guard s .cHsCancel = true) : Inv (apply s .cHsCancel) := by
  obtain ⟨pre, noStr, str, mid, done, hdr, fail, join, dead, eof, q, cnt, cc, ub, rs, re, rd, b1, b2⟩ := h
  rcases s with ⟨hasBody, ctx, cpc, wat, upl, send, recv, respHdr, reqDone, closes, callerClosed, readRes, writes⟩
  simp only at pre noStr str mid done hdr fail join dead eof q cnt cc ub rs re rd b1 b2
  simp only [CancelH3.guard, CancelH3.evGuard, recvDead, Bool.and_eq_true, beq_iff_eq, Bool.or_eq_true, bne_iff_ne,
    Bool.not_eq_true', ne_eq] at g
  obtain ⟨rfl, _⟩ := g
  simp only [CancelH3.apply, CancelH3.evApply, closeBody, finalErr, recvErr]
  cases hasBody <;> (try simp only [if_true, if_false]) <;> inv_g

theorem inv_cOpenCancel {s : St} (h : Inv s) (g : guard s .cOpenCancel = true) : Inv (apply s .cOpenCancel) := by
  obtain ⟨pre, noStr, str, mid, done, hdr, fail, join, dead, eof, q, cnt, cc, ub, rs, re, rd, b1, b2⟩ := h
  rcases s with ⟨hasBody, ctx, cpc, wat, upl, send, recv, respHdr, reqDone, closes, callerClosed, readRes, writes⟩
  simp only at pre noStr str mid done hdr fail join dead eof q cnt cc ub rs re rd b1 b2
  simp only [CancelH3.guard, CancelH3.evGuard, recvDead, Bool.and_eq_true, beq_iff_eq, Bool.or_eq_true, bne_iff_ne,
    Bool.not_eq_true', ne_eq] at g
  obtain ⟨rfl, _⟩ := g
  simp only [CancelH3.apply, CancelH3.evApply, closeBody, finalErr, recvErr]
  cases hasBody <;> (try simp only [if_true, if_false]) <;> inv_g

theorem inv_cSendHdr {s : St} (h : Inv s) (g : guard s .cSendHdr = true) : Inv (apply s .cSendHdr) := by
  obtain ⟨pre, noStr, str, mid, done, hdr, fail, join, dead, eof, q, cnt, cc, ub, rs, re, rd, b1, b2⟩ := h
  rcases s with ⟨hasBody, ctx, cpc, wat, upl, send, recv, respHdr, reqDone, closes, callerClosed, readRes, writes⟩
  simp only at pre noStr str mid done hdr fail join dead eof q cnt cc ub rs re rd b1 b2
  simp only [CancelH3.guard, CancelH3.evGuard, recvDead, Bool.and_eq_true, beq_iff_eq, Bool.or_eq_true, bne_iff_ne,
    Bool.not_eq_true', ne_eq] at g
  subst g
  simp only [CancelH3.apply, CancelH3.evApply, closeBody, finalErr, recvErr]
  cases hasBody <;> cases send <;> (try simp only [if_true, if_false, beq_self_eq_true, reduceCtorEq, beq_iff_eq, Bool.false_eq_true]) <;> inv_g

theorem inv_cRespOk {s : St} (h : Inv s) (g : guard s .cRespOk = true) : Inv (apply s .cRespOk) := by
  obtain ⟨pre, noStr, str, mid, done, hdr, fail, join, dead, eof, q, cnt, cc, ub, rs, re, rd, b1, b2⟩ := h
  rcases s with ⟨hasBody, ctx, cpc, wat, upl, send, recv, respHdr, reqDone, closes, callerClosed, readRes, writes⟩
  simp only at pre noStr str mid done hdr fail join dead eof q cnt cc ub rs re rd b1 b2
  simp only [CancelH3.guard, CancelH3.evGuard, recvDead, Bool.and_eq_true, beq_iff_eq, Bool.or_eq_true, bne_iff_ne,
    Bool.not_eq_true', ne_eq] at g
  obtain ⟨⟨rfl, _⟩, _⟩ := g
  simp only [CancelH3.apply, CancelH3.evApply, closeBody, finalErr, recvErr]
  inv_g

theorem inv_cRespFail {s : St} (h : Inv s) (g : guard s .cRespFail = true) : Inv (apply s .cRespFail) := by
  obtain ⟨pre, noStr, str, mid, done, hdr, fail, join, dead, eof, q, cnt, cc, ub, rs, re, rd, b1, b2⟩ := h
  rcases s with ⟨hasBody, ctx, cpc, wat, upl, send, recv, respHdr, reqDone, closes, callerClosed, readRes, writes⟩
  simp only at pre noStr str mid done hdr fail join dead eof q cnt cc ub rs re rd b1 b2
  simp only [CancelH3.guard, CancelH3.evGuard, recvDead, Bool.and_eq_true, beq_iff_eq, Bool.or_eq_true, bne_iff_ne,
    Bool.not_eq_true', ne_eq] at g
  obtain ⟨rfl, g⟩ := g
  simp only [CancelH3.apply, CancelH3.evApply, closeBody, finalErr, recvErr]
  cases send <;> (try simp only [Side.cancelIfOpen]) <;> inv_g

theorem inv_cFailSig {s : St} (h : Inv s) (g : guard s .cFailSig = true) : Inv (apply s .cFailSig) := by
  obtain ⟨pre, noStr, str, mid, done, hdr, fail, join, dead, eof, q, cnt, cc, ub, rs, re, rd, b1, b2⟩ := h
  rcases s with ⟨hasBody, ctx, cpc, wat, upl, send, recv, respHdr, reqDone, closes, callerClosed, readRes, writes⟩
  simp only at pre noStr str mid done hdr fail join dead eof q cnt cc ub rs re rd b1 b2
  simp only [CancelH3.guard, CancelH3.evGuard, recvDead, Bool.and_eq_true, beq_iff_eq, Bool.or_eq_true, bne_iff_ne,
    Bool.not_eq_true', ne_eq] at g
  cases cpc <;> simp at g
  simp only [CancelH3.apply, CancelH3.evApply, closeBody, finalErr, recvErr]
  inv_g

theorem inv_cFailJoin {s : St} (h : Inv s) (g : guard s .cFailJoin = true) : Inv (apply s .cFailJoin) := by
  obtain ⟨pre, noStr, str, mid, done, hdr, fail, join, dead, eof, q, cnt, cc, ub, rs, re, rd, b1, b2⟩ := h
  rcases s with ⟨hasBody, ctx, cpc, wat, upl, send, recv, respHdr, reqDone, closes, callerClosed, readRes, writes⟩
  simp only at pre noStr str mid done hdr fail join dead eof q cnt cc ub rs re rd b1 b2
  simp only [CancelH3.guard, CancelH3.evGuard, recvDead, Bool.and_eq_true, beq_iff_eq, Bool.or_eq_true, bne_iff_ne,
    Bool.not_eq_true', ne_eq] at g
  cases cpc <;> simp at g
  simp only [CancelH3.apply, CancelH3.evApply, closeBody, finalErr, recvErr]
  inv_g

theorem inv_cBodyReadFail {s : St} (h : Inv s) (g : guard s .cBodyReadFail = true) : Inv (apply s .cBodyReadFail) := by
  obtain ⟨pre, noStr, str, mid, done, hdr, fail, join, dead, eof, q, cnt, cc, ub, rs, re, rd, b1, b2⟩ := h
  rcases s with ⟨hasBody, ctx, cpc, wat, upl, send, recv, respHdr, reqDone, closes, callerClosed, readRes, writes⟩
  simp only at pre noStr str mid done hdr fail join dead eof q cnt cc ub rs re rd b1 b2
  simp only [CancelH3.guard, CancelH3.evGuard, recvDead, Bool.and_eq_true, beq_iff_eq, Bool.or_eq_true, bne_iff_ne,
    Bool.not_eq_true', ne_eq] at g
  obtain ⟨⟨rfl, rfl⟩, _⟩ := g
  simp only [CancelH3.apply, CancelH3.evApply, closeBody, finalErr, recvErr]
  inv_g

theorem inv_wFireW {s : St} (h : Inv s) (g : guard s .wFireW = true) : Inv (apply s .wFireW) := by
  obtain ⟨pre, noStr, str, mid, done, hdr, fail, join, dead, eof, q, cnt, cc, ub, rs, re, rd, b1, b2⟩ := h
  rcases s with ⟨hasBody, ctx, cpc, wat, upl, send, recv, respHdr, reqDone, closes, callerClosed, readRes, writes⟩
  simp only at pre noStr str mid done hdr fail join dead eof q cnt cc ub rs re rd b1 b2
  simp only [CancelH3.guard, CancelH3.evGuard, recvDead, Bool.and_eq_true, beq_iff_eq, Bool.or_eq_true, bne_iff_ne,
    Bool.not_eq_true', ne_eq] at g
  obtain ⟨rfl, _⟩ := g
  simp only [CancelH3.apply, CancelH3.evApply, closeBody, finalErr, recvErr]
  cases send <;> (try simp only [Side.cancelIfOpen]) <;> inv_g

theorem inv_wFireR {s : St} (h : Inv s) (g : guard s .wFireR = true) : Inv (apply s .wFireR) := by
  obtain ⟨pre, noStr, str, mid, done, hdr, fail, join, dead, eof, q, cnt, cc, ub, rs, re, rd, b1, b2⟩ := h
  rcases s with ⟨hasBody, ctx, cpc, wat, upl, send, recv, respHdr, reqDone, closes, callerClosed, readRes, writes⟩
  simp only at pre noStr str mid done hdr fail join dead eof q cnt cc ub rs re rd b1 b2
  simp only [CancelH3.guard, CancelH3.evGuard, recvDead, Bool.and_eq_true, beq_iff_eq, Bool.or_eq_true, bne_iff_ne,
    Bool.not_eq_true', ne_eq] at g
  subst g
  simp only [CancelH3.apply, CancelH3.evApply, closeBody, finalErr, recvErr]
  cases recv <;> (try simp only [Side.cancelIfOpen]) <;> inv_g

theorem inv_wExit {s : St} (h : Inv s) (g : guard s .wExit = true) : Inv (apply s .wExit) := by
  obtain ⟨pre, noStr, str, mid, done, hdr, fail, join, dead, eof, q, cnt, cc, ub, rs, re, rd, b1, b2⟩ := h
  rcases s with ⟨hasBody, ctx, cpc, wat, upl, send, recv, respHdr, reqDone, closes, callerClosed, readRes, writes⟩
  simp only at pre noStr str mid done hdr fail join dead eof q cnt cc ub rs re rd b1 b2
  simp only [CancelH3.guard, CancelH3.evGuard, recvDead, Bool.and_eq_true, beq_iff_eq, Bool.or_eq_true, bne_iff_ne,
    Bool.not_eq_true', ne_eq] at g
  obtain ⟨rfl, _⟩ := g
  simp only [CancelH3.apply, CancelH3.evApply, closeBody, finalErr, recvErr]
  inv_g

theorem inv_uRead {s : St} (h : Inv s) (g : guard s .uRead = true) : Inv (apply s .uRead) := by
  obtain ⟨pre, noStr, str, mid, done, hdr, fail, join, dead, eof, q, cnt, cc, ub, rs, re, rd, b1, b2⟩ := h
  rcases s with ⟨hasBody, ctx, cpc, wat, upl, send, recv, respHdr, reqDone, closes, callerClosed, readRes, writes⟩
  simp only at pre noStr str mid done hdr fail join dead eof q cnt cc ub rs re rd b1 b2
  simp only [CancelH3.guard, CancelH3.evGuard, recvDead, Bool.and_eq_true, beq_iff_eq, Bool.or_eq_true, bne_iff_ne,
    Bool.not_eq_true', ne_eq] at g
  subst g
  simp only [CancelH3.apply, CancelH3.evApply, closeBody, finalErr, recvErr]
  inv_g

theorem inv_uEOF {s : St} (h : Inv s) (g : guard s .uEOF = true) : Inv (apply s .uEOF) := by
  obtain ⟨pre, noStr, str, mid, done, hdr, fail, join, dead, eof, q, cnt, cc, ub, rs, re, rd, b1, b2⟩ := h
  rcases s with ⟨hasBody, ctx, cpc, wat, upl, send, recv, respHdr, reqDone, closes, callerClosed, readRes, writes⟩
  simp only at pre noStr str mid done hdr fail join dead eof q cnt cc ub rs re rd b1 b2
  simp only [CancelH3.guard, CancelH3.evGuard, recvDead, Bool.and_eq_true, beq_iff_eq, Bool.or_eq_true, bne_iff_ne,
    Bool.not_eq_true', ne_eq] at g
  subst g
  simp only [CancelH3.apply, CancelH3.evApply, closeBody, finalErr, recvErr]
  inv_g

theorem inv_uWriteFail {s : St} (h : Inv s) (g : guard s .uWriteFail = true) : Inv (apply s .uWriteFail) := by
  obtain ⟨pre, noStr, str, mid, done, hdr, fail, join, dead, eof, q, cnt, cc, ub, rs, re, rd, b1, b2⟩ := h
  rcases s with ⟨hasBody, ctx, cpc, wat, upl, send, recv, respHdr, reqDone, closes, callerClosed, readRes, writes⟩
  simp only at pre noStr str mid done hdr fail join dead eof q cnt cc ub rs re rd b1 b2
  simp only [CancelH3.guard, CancelH3.evGuard, recvDead, Bool.and_eq_true, beq_iff_eq, Bool.or_eq_true, bne_iff_ne,
    Bool.not_eq_true', ne_eq] at g
  obtain ⟨rfl, _⟩ := g
  simp only [CancelH3.apply, CancelH3.evApply, closeBody, finalErr, recvErr]
  inv_g

theorem inv_uClose {s : St} (h : Inv s) (g : guard s .uClose = true) : Inv (apply s .uClose) := by
  obtain ⟨pre, noStr, str, mid, done, hdr, fail, join, dead, eof, q, cnt, cc, ub, rs, re, rd, b1, b2⟩ := h
  rcases s with ⟨hasBody, ctx, cpc, wat, upl, send, recv, respHdr, reqDone, closes, callerClosed, readRes, writes⟩
  simp only at pre noStr str mid done hdr fail join dead eof q cnt cc ub rs re rd b1 b2
  simp only [CancelH3.guard, CancelH3.evGuard, recvDead, Bool.and_eq_true, beq_iff_eq, Bool.or_eq_true, bne_iff_ne,
    Bool.not_eq_true', ne_eq] at g
  subst g
  simp only [CancelH3.apply, CancelH3.evApply, closeBody, finalErr, recvErr]
  inv_g

theorem inv_uFin {s : St} (h : Inv s) (g : guard s .uFin = true) : Inv (apply s .uFin) := by
  obtain ⟨pre, noStr, str, mid, done, hdr, fail, join, dead, eof, q, cnt, cc, ub, rs, re, rd, b1, b2⟩ := h
  rcases s with ⟨hasBody, ctx, cpc, wat, upl, send, recv, respHdr, reqDone, closes, callerClosed, readRes, writes⟩
  simp only at pre noStr str mid done hdr fail join dead eof q cnt cc ub rs re rd b1 b2
  simp only [CancelH3.guard, CancelH3.evGuard, recvDead, Bool.and_eq_true, beq_iff_eq, Bool.or_eq_true, bne_iff_ne,
    Bool.not_eq_true', ne_eq] at g
  subst g
  simp only [CancelH3.apply, CancelH3.evApply, closeBody, finalErr, recvErr]
  cases send <;> (try simp only [Side.finIfOpen]) <;> inv_g

theorem inv_act {s : St} {a : Act} (h : Inv s) (g : guard s a = true) : Inv (apply s a) := by
  cases a
  · exact inv_cHsCancel h g
  · exact inv_cOpenCancel h g
  · exact inv_cSendHdr h g
  · exact inv_cRespOk h g
  · exact inv_cRespFail h g
  · exact inv_cFailSig h g
  · exact inv_cFailJoin h g
  · exact inv_cBodyReadFail h g
  · exact inv_wFireW h g
  · exact inv_wFireR h g
  · exact inv_wExit h g
  · exact inv_uRead h g
  · exact inv_uEOF h g
  · exact inv_uWriteFail h g
  · exact inv_uClose h g
  · exact inv_uFin h g

theorem inv_ev_cancel {s : St} (e : CtxErr) (h : Inv s) (g : evGuard s (.cancel e) = true) : Inv (evApply s (.cancel e)) := by
  obtain ⟨pre, noStr, str, mid, done, hdr, fail, join, dead, eof, q, cnt, cc, ub, rs, re, rd, b1, b2⟩ := h
  rcases s with ⟨hasBody, ctx, cpc, wat, upl, send, recv, respHdr, reqDone, closes, callerClosed, readRes, writes⟩
  simp only at pre noStr str mid done hdr fail join dead eof q cnt cc ub rs re rd b1 b2
  simp only [CancelH3.guard, CancelH3.evGuard, recvDead, Bool.and_eq_true, beq_iff_eq, Bool.or_eq_true, bne_iff_ne,
    Bool.not_eq_true', ne_eq] at g
  simp only [CancelH3.apply, CancelH3.evApply, closeBody, finalErr, recvErr]
  inv_g

theorem inv_ev_hsDone {s : St}  (h : Inv s) (g : evGuard s (.hsDone) = true) : Inv (evApply s (.hsDone)) := by
  obtain ⟨pre, noStr, str, mid, done, hdr, fail, join, dead, eof, q, cnt, cc, ub, rs, re, rd, b1, b2⟩ := h
  rcases s with ⟨hasBody, ctx, cpc, wat, upl, send, recv, respHdr, reqDone, closes, callerClosed, readRes, writes⟩
  simp only at pre noStr str mid done hdr fail join dead eof q cnt cc ub rs re rd b1 b2
  simp only [CancelH3.guard, CancelH3.evGuard, recvDead, Bool.and_eq_true, beq_iff_eq, Bool.or_eq_true, bne_iff_ne,
    Bool.not_eq_true', ne_eq] at g
  subst g
  simp only [CancelH3.apply, CancelH3.evApply, closeBody, finalErr, recvErr]
  inv_g

theorem inv_ev_streamOpen {s : St}  (h : Inv s) (g : evGuard s (.streamOpen) = true) : Inv (evApply s (.streamOpen)) := by
  obtain ⟨pre, noStr, str, mid, done, hdr, fail, join, dead, eof, q, cnt, cc, ub, rs, re, rd, b1, b2⟩ := h
  rcases s with ⟨hasBody, ctx, cpc, wat, upl, send, recv, respHdr, reqDone, closes, callerClosed, readRes, writes⟩
  simp only at pre noStr str mid done hdr fail join dead eof q cnt cc ub rs re rd b1 b2
  simp only [CancelH3.guard, CancelH3.evGuard, recvDead, Bool.and_eq_true, beq_iff_eq, Bool.or_eq_true, bne_iff_ne,
    Bool.not_eq_true', ne_eq] at g
  subst g
  simp only [CancelH3.apply, CancelH3.evApply, closeBody, finalErr, recvErr]
  inv_g

theorem inv_ev_credit {s : St}  (h : Inv s) (g : evGuard s (.credit) = true) : Inv (evApply s (.credit)) := by
  obtain ⟨pre, noStr, str, mid, done, hdr, fail, join, dead, eof, q, cnt, cc, ub, rs, re, rd, b1, b2⟩ := h
  rcases s with ⟨hasBody, ctx, cpc, wat, upl, send, recv, respHdr, reqDone, closes, callerClosed, readRes, writes⟩
  simp only at pre noStr str mid done hdr fail join dead eof q cnt cc ub rs re rd b1 b2
  simp only [CancelH3.guard, CancelH3.evGuard, recvDead, Bool.and_eq_true, beq_iff_eq, Bool.or_eq_true, bne_iff_ne,
    Bool.not_eq_true', ne_eq] at g
  obtain ⟨rfl, rfl⟩ := g
  simp only [CancelH3.apply, CancelH3.evApply, closeBody, finalErr, recvErr]
  inv_g

theorem inv_ev_peerHeaders {s : St}  (h : Inv s) (g : evGuard s (.peerHeaders) = true) : Inv (evApply s (.peerHeaders)) := by
  obtain ⟨pre, noStr, str, mid, done, hdr, fail, join, dead, eof, q, cnt, cc, ub, rs, re, rd, b1, b2⟩ := h
  rcases s with ⟨hasBody, ctx, cpc, wat, upl, send, recv, respHdr, reqDone, closes, callerClosed, readRes, writes⟩
  simp only at pre noStr str mid done hdr fail join dead eof q cnt cc ub rs re rd b1 b2
  simp only [CancelH3.guard, CancelH3.evGuard, recvDead, Bool.and_eq_true, beq_iff_eq, Bool.or_eq_true, bne_iff_ne,
    Bool.not_eq_true', ne_eq] at g
  obtain ⟨rfl, _⟩ := g
  simp only [CancelH3.apply, CancelH3.evApply, closeBody, finalErr, recvErr]
  inv_g

theorem inv_ev_peerEnd {s : St}  (h : Inv s) (g : evGuard s (.peerEnd) = true) : Inv (evApply s (.peerEnd)) := by
  obtain ⟨pre, noStr, str, mid, done, hdr, fail, join, dead, eof, q, cnt, cc, ub, rs, re, rd, b1, b2⟩ := h
  rcases s with ⟨hasBody, ctx, cpc, wat, upl, send, recv, respHdr, reqDone, closes, callerClosed, readRes, writes⟩
  simp only at pre noStr str mid done hdr fail join dead eof q cnt cc ub rs re rd b1 b2
  simp only [CancelH3.guard, CancelH3.evGuard, recvDead, Bool.and_eq_true, beq_iff_eq, Bool.or_eq_true, bne_iff_ne,
    Bool.not_eq_true', ne_eq] at g
  obtain ⟨rfl, _⟩ := g
  simp only [CancelH3.apply, CancelH3.evApply, closeBody, finalErr, recvErr]
  inv_g

theorem inv_ev_peerReset {s : St}  (h : Inv s) (g : evGuard s (.peerReset) = true) : Inv (evApply s (.peerReset)) := by
  obtain ⟨pre, noStr, str, mid, done, hdr, fail, join, dead, eof, q, cnt, cc, ub, rs, re, rd, b1, b2⟩ := h
  rcases s with ⟨hasBody, ctx, cpc, wat, upl, send, recv, respHdr, reqDone, closes, callerClosed, readRes, writes⟩
  simp only at pre noStr str mid done hdr fail join dead eof q cnt cc ub rs re rd b1 b2
  simp only [CancelH3.guard, CancelH3.evGuard, recvDead, Bool.and_eq_true, beq_iff_eq, Bool.or_eq_true, bne_iff_ne,
    Bool.not_eq_true', ne_eq] at g
  simp only [CancelH3.apply, CancelH3.evApply, closeBody, finalErr, recvErr]
  have hs := reset_facts send
  have hr := reset_facts recv
  generalize send.resetIfOpen = s2 at *
  generalize recv.resetIfOpen = r2 at *
  inv_g

theorem inv_ev_callerClose {s : St}  (h : Inv s) (g : evGuard s (.callerClose) = true) : Inv (evApply s (.callerClose)) := by
  obtain ⟨pre, noStr, str, mid, done, hdr, fail, join, dead, eof, q, cnt, cc, ub, rs, re, rd, b1, b2⟩ := h
  rcases s with ⟨hasBody, ctx, cpc, wat, upl, send, recv, respHdr, reqDone, closes, callerClosed, readRes, writes⟩
  simp only at pre noStr str mid done hdr fail join dead eof q cnt cc ub rs re rd b1 b2
  simp only [CancelH3.guard, CancelH3.evGuard, recvDead, Bool.and_eq_true, beq_iff_eq, Bool.or_eq_true, bne_iff_ne,
    Bool.not_eq_true', ne_eq] at g
  subst g
  simp only [CancelH3.apply, CancelH3.evApply, closeBody, finalErr, recvErr]
  cases recv <;> (try simp only [Side.cancelIfOpen]) <;> inv_g

theorem inv_ev_callerEOF {s : St}  (h : Inv s) (g : evGuard s (.callerEOF) = true) : Inv (evApply s (.callerEOF)) := by
  obtain ⟨pre, noStr, str, mid, done, hdr, fail, join, dead, eof, q, cnt, cc, ub, rs, re, rd, b1, b2⟩ := h
  rcases s with ⟨hasBody, ctx, cpc, wat, upl, send, recv, respHdr, reqDone, closes, callerClosed, readRes, writes⟩
  simp only at pre noStr str mid done hdr fail join dead eof q cnt cc ub rs re rd b1 b2
  simp only [CancelH3.guard, CancelH3.evGuard, recvDead, Bool.and_eq_true, beq_iff_eq, Bool.or_eq_true, bne_iff_ne,
    Bool.not_eq_true', ne_eq] at g
  obtain ⟨rfl, rfl⟩ := g
  simp only [CancelH3.apply, CancelH3.evApply, closeBody, finalErr, recvErr]
  inv_g

theorem inv_ev_peerInterim {s : St} (h : Inv s) : Inv (evApply s (.peerInterim)) := by
  simpa only [CancelH3.evApply] using h

theorem inv_ev {s : St} {e : Ev} (h : Inv s) (g : evGuard s e = true) : Inv (evApply s e) := by
  cases e
  · exact inv_ev_cancel _ h g
  · exact inv_ev_hsDone h g
  · exact inv_ev_streamOpen h g
  · exact inv_ev_credit h g
  · exact inv_ev_peerHeaders h g
  · exact inv_ev_peerEnd h g
  · exact inv_ev_peerReset h g
  · exact inv_ev_callerClose h g
  · exact inv_ev_callerEOF h g
  · exact inv_ev_peerInterim h

theorem reach_inv {s : St} (h : Reach s) : Inv s := by
  induction h with
  | init b => exact inv_init b
  | ev e _ g ih => exact inv_ev ih g
  | act a _ g ih => exact inv_act ih g

end Req.Lemmas.CancelH3
