import Req.Lemmas.C03H3
/-!
C03 — HTTP/3: whole runs of the repaired body reader: a reset stream never ends cleanly
(`run_reset`), Content-Length accounting along a run (`run_acct`).
-/
namespace Req.C03
open Req.Proto Req.C02

/-! ### runs -/

theorem bodyRunR_nil (b : H3Body) : bodyRunR b [] = ([], b) := rfl

theorem bodyRunR_cons (b : H3Body) (k : Nat) (ks : List Nat) :
    bodyRunR b (k :: ks) =
      match (bodyReadR b k).1.2 with
      | none => (((bodyReadR b k).1.1, none) :: (bodyRunR (bodyReadR b k).2 ks).1, (bodyRunR (bodyReadR b k).2 ks).2)
      | some e => ([((bodyReadR b k).1.1, some e)], (bodyReadR b k).2) := by
  unfold bodyRunR
  rw [runReads]
  rcases hr : bodyReadR b k with ⟨⟨d, e⟩, b'⟩
  cases e <;> rfl

/-- On a stream that ends by a reset no read of any run reports a clean end. -/
theorem run_reset (b : H3Body) (ks : List Nat) (hf : b.str.net.fin = .reset) :
    ∀ r ∈ (bodyRunR b ks).1, r.2 ≠ some .eof := by
  induction ks generalizing b with
  | nil => simp [bodyRunR_nil]
  | cons k ks ih =>
    rw [bodyRunR_cons]
    have hne := bodyReadR_reset b k hf
    have hfin := bodyReadR_fin b k
    cases he : (bodyReadR b k).1.2 with
    | some e =>
      simp only [List.mem_singleton, forall_eq]
      rw [he] at hne; exact hne
    | none =>
      simp only [List.mem_cons, forall_eq_or_imp]
      exact ⟨by simp, ih _ (hfin.trans hf)⟩

/-- Content-Length accounting along a run: `remaining + delivered = declared`. -/
theorem run_acct (b : H3Body) (ks : List Nat) (hcl : b.hasCL = true) :
    (outBytes (bodyRunR b ks).1).length ≤ b.remaining ∧
    (lastErr (bodyRunR b ks).1 = some .eof → (outBytes (bodyRunR b ks).1).length = b.remaining) := by
  induction ks generalizing b with
  | nil => simp [bodyRunR_nil, outBytes, lastErr]
  | cons k ks ih =>
    rw [bodyRunR_cons]
    obtain ⟨hle, hrem, heof⟩ := bodyReadR_acct b k hcl
    cases he : (bodyReadR b k).1.2 with
    | some e =>
      simp only [outBytes_cons, outBytes_nil, List.append_nil, lastErr_single]
      refine ⟨hle, ?_⟩
      intro hx; injection hx with hx; subst hx
      have := heof he; omega
    | none =>
      simp only [outBytes_cons, List.length_append]
      obtain ⟨h1, h2⟩ := ih (bodyReadR b k).2 (by rw [bodyReadR_hasCL]; exact hcl)
      rw [hrem] at h1 h2
      refine ⟨by omega, ?_⟩
      intro hx
      by_cases hne : (bodyRunR (bodyReadR b k).2 ks).1 = []
      · rw [hne] at hx; simp [lastErr] at hx
      · rw [lastErr_cons_ne _ _ hne] at hx
        have := h2 hx; omega

end Req.C03
