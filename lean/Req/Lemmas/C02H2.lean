import Req.C02.H2Recv
/-!
HTTP/2: a conformant response (interim 1xx HEADERS, final HEADERS, DATA…, END_STREAM on the
last DATA or on a trailer HEADERS), delivered by the read loop while the caller reads with
arbitrary sizes at arbitrary moments: the stream state is always one of three canonical
shapes, and every byte handed out is the next byte of the concatenated DATA payloads.
-/
namespace Req.C02
open Req.Proto

/-- A response as the sequence of frames of one stream. -/
structure H2Msg where
  interims : List Fields           -- field lists of the 1xx HEADERS
  head : Fields                    -- field list of the final HEADERS (pseudo fields included)
  datas : List (Bytes × Bool)      -- DATA frames without END_STREAM: payload, padded?
  last : H2Ev                      -- the frame carrying END_STREAM
deriving Repr

def H2Msg.tailEvents (m : H2Msg) (ds : List (Bytes × Bool)) : List H2Ev :=
  (ds.map fun d => H2Ev.data d.1 d.2 false) ++ [m.last]

def H2Msg.events (m : H2Msg) : List H2Ev :=
  (m.interims.map fun fs => H2Ev.headers fs false) ++ (H2Ev.headers m.head false :: m.tailEvents m.datas)

def lastPayload : H2Ev → Bytes
  | .data p _ _ => p
  | _ => []

def lastTrailers : H2Ev → Fields
  | .headers t _ => t.map fun kv => (Req.Ascii.canonicalMIMEHeaderKey kv.1, kv.2)
  | _ => []

/-- The body the origin sent: the concatenation of the DATA payloads. -/
def H2Msg.body (m : H2Msg) : Bytes := (m.datas.map (·.1)).flatten ++ lastPayload m.last

def InterimOK (fs : Fields) : Prop :=
  ∃ sv c, h2StatusValue fs = some sv ∧ sv ≠ [] ∧ natOfDigits sv = some c ∧ 100 ≤ c ∧ c ≤ 199

/-- Conformance of the frame sequence (what a correct origin produces). -/
structure H2Msg.Conformant (m : H2Msg) (code : Nat) (cl : Option Nat) : Prop where
  interims_ok : ∀ fs ∈ m.interims, InterimOK fs
  interims_le : m.interims.length ≤ 5
  status : ∃ sv, h2StatusValue m.head = some sv ∧ sv ≠ [] ∧ natOfDigits sv = some code ∧
    ¬ (100 ≤ code ∧ code ≤ 199)
  length : (h2ContentLengths m.head = [] ∧ cl = none) ∨
    (∃ cb, h2ContentLengths m.head = [cb] ∧ natOfDigits cb = some m.body.length ∧ cl = some m.body.length)
  last_ok : (∃ p pad, m.last = .data p pad true) ∨
    (∃ t, m.last = .headers t true ∧ ∀ kv ∈ t, isPseudo kv.1 = false)

/-! ### the three canonical shapes of the stream state -/

/-- Before the final HEADERS: `j` interim responses skipped. -/
def st0 (j : Nat) : H2Stream := { H2Stream.init false with num1xx := j }

def h2res (m : H2Msg) (code : Nat) (cl : Option Nat) : H2Res :=
  { status := code, fields := h2Fields m.head, declaredTrailers := h2Declared m.head,
    contentLength := cl, body := .piped }

/-- Body in flight: `arrived` = payload bytes received so far, `consumed` = bytes the caller
has read. -/
def st1 (m : H2Msg) (code : Nat) (cl : Option Nat) (j : Nat) (arrived consumed : Bytes) : H2Stream :=
  { isHead := false, pastHeaders := true, pastTrailers := false, readClosed := false,
    readAborted := false, num1xx := j, res := some (h2res m code cl), headErr := none,
    pipe := { hasBuf := true, buf := arrived.drop consumed.length, err := none, breakErr := none, readFn := false },
    bytesRemain := cl.map (· - consumed.length), readErr := none, trailer := [], resTrailer := [],
    connDead := false }

/-- After END_STREAM. `eofSeen`: the caller has read the EOF (trailers copied). -/
def st2 (m : H2Msg) (code : Nat) (cl : Option Nat) (j : Nat) (consumed : Bytes) (eofSeen : Bool) : H2Stream :=
  { isHead := false, pastHeaders := true,
    pastTrailers := (match m.last with | .headers _ _ => true | _ => false),
    readClosed := true, readAborted := false, num1xx := j, res := some (h2res m code cl), headErr := none,
    pipe := { hasBuf := !eofSeen, buf := m.body.drop consumed.length, err := some .eof, breakErr := none,
              readFn := !eofSeen },
    bytesRemain := cl.map (· - consumed.length), readErr := none, trailer := lastTrailers m.last,
    resTrailer := if eofSeen then lastTrailers m.last else [], connDead := false }

/-! ### frames -/

theorem st0_interim (j : Nat) (fs : Fields) (hj : j + 1 ≤ 5) (h : InterimOK fs) :
    (st0 j).event (.headers fs false) = st0 (j + 1) := by
  obtain ⟨sv, c, hsv, hne, hc, h1, h2⟩ := h
  have hemp : sv.isEmpty = false := by cases sv <;> simp_all
  have hnot : ¬ (j + 1 > 5) := by omega
  simp [st0, H2Stream.event, H2Stream.processHeaders, H2Stream.init, H2Stream.handleResponse, hsv,
    hemp, hc, h1, h2, hnot]

theorem st0_head (m : H2Msg) (code : Nat) (cl : Option Nat) (hc : m.Conformant code cl) (j : Nat) :
    (st0 j).event (.headers m.head false) = st1 m code cl j [] [] := by
  obtain ⟨sv, hsv, hne, hcode, hnot⟩ := hc.status
  have hemp : sv.isEmpty = false := by cases sv <;> simp_all
  rcases hc.length with ⟨hl, rfl⟩ | ⟨cb, hl, hcb, rfl⟩
  · simp [st0, st1, h2res, H2Stream.event, H2Stream.processHeaders, H2Stream.init,
      H2Stream.handleResponse, hsv, hemp, hcode, hnot, hl, Pipe.setBuffer, Pipe.empty]
  · simp [st0, st1, h2res, H2Stream.event, H2Stream.processHeaders, H2Stream.init,
      H2Stream.handleResponse, hsv, hemp, hcode, hnot, hl, hcb, Pipe.setBuffer, Pipe.empty]

theorem drop_append_of_le {α} (a b : List α) (n : Nat) (h : n ≤ a.length) :
    (a ++ b).drop n = a.drop n ++ b := by
  rw [List.drop_append]
  have : n - a.length = 0 := by omega
  simp [this]

theorem st1_data (m : H2Msg) (code : Nat) (cl : Option Nat) (j : Nat) (arrived consumed p : Bytes)
    (pad : Bool) (hle : consumed.length ≤ arrived.length) :
    (st1 m code cl j arrived consumed).event (.data p pad false) = st1 m code cl j (arrived ++ p) consumed := by
  by_cases hp : p.length > 0
  · simp [st1, H2Stream.event, H2Stream.processData, Pipe.write, hp, drop_append_of_le _ _ _ hle]
  · have : p = [] := List.length_eq_zero_iff.mp (by omega)
    subst this
    simp [st1, H2Stream.event, H2Stream.processData]

theorem st1_last (m : H2Msg) (code : Nat) (cl : Option Nat) (hc : m.Conformant code cl) (j : Nat)
    (arrived consumed : Bytes) (hle : consumed.length ≤ arrived.length)
    (harr : arrived ++ lastPayload m.last = m.body) :
    (st1 m code cl j arrived consumed).event m.last = st2 m code cl j consumed false := by
  rcases hc.last_ok with ⟨p, pad, hl⟩ | ⟨t, hl, hps⟩
  · rw [hl] at harr ⊢
    simp only [lastPayload] at harr
    by_cases hp : p.length > 0
    · simp [st1, st2, hl, H2Stream.event, H2Stream.processData, Pipe.write, hp, H2Stream.endStream,
        Pipe.closeWithError, lastTrailers, ← harr, drop_append_of_le _ _ _ hle]
    · have : p = [] := List.length_eq_zero_iff.mp (by omega)
      subst this
      simp [st1, st2, hl, H2Stream.event, H2Stream.processData, H2Stream.endStream,
        Pipe.closeWithError, lastTrailers, ← harr]
  · rw [hl] at harr ⊢
    simp only [lastPayload, List.append_nil] at harr
    have hany : (t.any fun kv => isPseudo kv.1) = false := by
      simp only [List.any_eq_false]
      intro kv hkv
      simp [hps kv hkv]
    simp [st1, st2, hl, H2Stream.event, H2Stream.processHeaders, H2Stream.processTrailers, hany,
      H2Stream.endStream, Pipe.closeWithError, lastTrailers, ← harr]

/-! ### caller reads -/

theorem st0_read (j k : Nat) : (st0 j).read k = none := by
  simp [st0, H2Stream.read, H2Stream.init, Pipe.read, Pipe.empty]

theorem take_drop_length {α} (l : List α) (k : Nat) : l.drop k = l.drop (l.take k).length := by
  by_cases h : k ≤ l.length
  · simp [List.length_take, Nat.min_eq_left h]
  · have : l.length ≤ k := by omega
    simp [List.length_take, Nat.min_eq_right this, List.drop_of_length_le this]

/-- A read while the body is in flight: blocks on an empty buffer, otherwise hands out the
next bytes and never trips the declared-length check. -/
theorem st1_read (m : H2Msg) (code : Nat) (cl : Option Nat) (hcl : cl = none ∨ cl = some m.body.length)
    (j : Nat) (arrived consumed : Bytes) (k : Nat)
    (hle : consumed.length ≤ arrived.length) (hab : arrived.length ≤ m.body.length) :
    (arrived.drop consumed.length = [] → (st1 m code cl j arrived consumed).read k = none) ∧
    (arrived.drop consumed.length ≠ [] →
      (st1 m code cl j arrived consumed).read k =
        some (((arrived.drop consumed.length).take k, none),
              st1 m code cl j arrived (consumed ++ (arrived.drop consumed.length).take k))) := by
  constructor
  · intro hemp
    simp [st1, H2Stream.read, Pipe.read, hemp]
  · intro hne
    have hpos : (arrived.drop consumed.length).length > 0 := List.length_pos_iff.mpr hne
    have hdl : ((arrived.drop consumed.length).take k).length ≤ arrived.length - consumed.length := by
      simp only [List.length_take, List.length_drop]; omega
    have hdrop : (arrived.drop consumed.length).drop k =
        arrived.drop (consumed.length + ((arrived.drop consumed.length).take k).length) := by
      rw [take_drop_length, List.drop_drop]
    have hpos' : 0 < arrived.length - consumed.length := by simpa using hpos
    have hmin : min k (arrived.length - consumed.length) ≤ arrived.length - consumed.length := Nat.min_le_right _ _
    rcases hcl with rfl | rfl
    · simp [st1, H2Stream.read, Pipe.read, hpos', hdrop, List.length_append]
    · have hnot : ¬ (m.body.length - consumed.length < min k (arrived.length - consumed.length)) := by omega
      simp [st1, H2Stream.read, Pipe.read, hpos', hdrop, List.length_append, hnot]
      omega

/-- A read after END_STREAM: the rest of the body, then EOF (and the trailers). -/
theorem st2_read (m : H2Msg) (code : Nat) (cl : Option Nat) (hcl : cl = none ∨ cl = some m.body.length)
    (j : Nat) (consumed : Bytes) (k : Nat) (hle : consumed.length ≤ m.body.length) :
    (m.body.drop consumed.length ≠ [] →
      (st2 m code cl j consumed false).read k =
        some (((m.body.drop consumed.length).take k, none),
              st2 m code cl j (consumed ++ (m.body.drop consumed.length).take k) false)) ∧
    (m.body.drop consumed.length = [] →
      (st2 m code cl j consumed false).read k = some (([], some .eof), st2 m code cl j consumed true)) ∧
    (m.body.drop consumed.length = [] →
      (st2 m code cl j consumed true).read k = some (([], some .eof), st2 m code cl j consumed true)) := by
  refine ⟨?_, ?_, ?_⟩
  · intro hne
    have hpos : (m.body.drop consumed.length).length > 0 := List.length_pos_iff.mpr hne
    have hdl : ((m.body.drop consumed.length).take k).length ≤ m.body.length - consumed.length := by
      simp only [List.length_take, List.length_drop]; omega
    have hdrop : (m.body.drop consumed.length).drop k =
        m.body.drop (consumed.length + ((m.body.drop consumed.length).take k).length) := by
      rw [take_drop_length, List.drop_drop]
    have hpos' : 0 < m.body.length - consumed.length := by simpa using hpos
    have hmin : min k (m.body.length - consumed.length) ≤ m.body.length - consumed.length := Nat.min_le_right _ _
    rcases hcl with rfl | rfl
    · simp [st2, H2Stream.read, Pipe.read, hpos', hdrop, List.length_append]
    · have hnot : ¬ (m.body.length - consumed.length < min k (m.body.length - consumed.length)) := by omega
      simp [st2, H2Stream.read, Pipe.read, hpos', hdrop, List.length_append, hnot]
      omega
  · intro hemp
    have hlen : m.body.length - consumed.length = 0 := by
      have := congrArg List.length hemp
      simpa using this
    rcases hcl with rfl | rfl
    · simp [st2, H2Stream.read, Pipe.read, hemp]
    · simp [st2, H2Stream.read, Pipe.read, hemp, hlen]
  · intro hemp
    have hlen : m.body.length - consumed.length = 0 := by
      have := congrArg List.length hemp
      simpa using this
    rcases hcl with rfl | rfl
    · simp [st2, H2Stream.read, Pipe.read, hemp]
    · simp [st2, H2Stream.read, Pipe.read, hemp, hlen]

/-! ### every interleaving -/

/-- The frames among an interleaving of frames and caller reads. -/
def evsOf : List H2Op → List H2Ev
  | [] => []
  | .ev e :: r => e :: evsOf r
  | .read _ :: r => evsOf r

theorem evsOf_append (a b : List H2Op) : evsOf (a ++ b) = evsOf a ++ evsOf b := by
  induction a with
  | nil => rfl
  | cons op a ih => cases op <;> simp [evsOf, ih]

theorem evsOf_reads (ks : List Nat) : evsOf (ks.map H2Op.read) = [] := by
  induction ks with
  | nil => rfl
  | cons k ks ih => simp [evsOf, ih]

/-- The bytes the caller's reads returned, in order (a blocked read returns nothing). -/
def readsOut : List (Option (Bytes × Option H2Err)) → Bytes
  | [] => []
  | none :: r => readsOut r
  | some (d, _) :: r => d ++ readsOut r

/-- Stream state `s`, frames still to come `evs`, bytes the caller has consumed `c`, and
whether the caller has seen EOF. -/
inductive Ph (m : H2Msg) (code : Nat) (cl : Option Nat) : H2Stream → List H2Ev → Bytes → Bool → Prop
  | pre (j : Nat) (ints : List Fields) (hj : j + ints.length ≤ 5) (hok : ∀ fs ∈ ints, InterimOK fs) :
      Ph m code cl (st0 j)
        ((ints.map fun fs => H2Ev.headers fs false) ++ (H2Ev.headers m.head false :: m.tailEvents m.datas)) [] false
  | mid (j : Nat) (arrived consumed : Bytes) (ds : List (Bytes × Bool))
      (hpre : ∃ t, arrived = consumed ++ t)
      (hbody : arrived ++ (ds.map (·.1)).flatten ++ lastPayload m.last = m.body) :
      Ph m code cl (st1 m code cl j arrived consumed) (m.tailEvents ds) consumed false
  | fin (j : Nat) (consumed : Bytes) (eofSeen : Bool) (hpre : ∃ t, m.body = consumed ++ t)
      (hdone : eofSeen = true → consumed = m.body) :
      Ph m code cl (st2 m code cl j consumed eofSeen) [] consumed eofSeen

theorem Ph.prefix_body {m : H2Msg} {code : Nat} {cl : Option Nat} {s : H2Stream} {evs : List H2Ev}
    {c : Bytes} {b : Bool} (h : Ph m code cl s evs c b) : ∃ t, m.body = c ++ t := by
  cases h with
  | pre => exact ⟨m.body, by simp⟩
  | mid j arrived consumed ds hpre hbody =>
    obtain ⟨t, rfl⟩ := hpre
    exact ⟨t ++ (ds.map (·.1)).flatten ++ lastPayload m.last, by rw [← hbody]; simp [List.append_assoc]⟩
  | fin j consumed eofSeen hpre _ => exact hpre

/-- Once EOF was seen everything was consumed and the trailers are in `Response.Trailer`. -/
theorem Ph.seen {m : H2Msg} {code : Nat} {cl : Option Nat} {s : H2Stream} {evs : List H2Ev}
    {c : Bytes} (h : Ph m code cl s evs c true) : c = m.body ∧ s.resTrailer = lastTrailers m.last := by
  cases h with
  | fin j consumed eofSeen hpre hdone => exact ⟨hdone rfl, by simp [st2]⟩

theorem Ph.event {m : H2Msg} {code : Nat} {cl : Option Nat} (hc : m.Conformant code cl)
    {s : H2Stream} {e : H2Ev} {evs : List H2Ev} {c : Bytes} {b : Bool} (h : Ph m code cl s (e :: evs) c b) :
    Ph m code cl (s.event e) evs c b := by
  generalize hev : e :: evs = evs0 at h
  cases h with
  | pre j ints hj hok =>
    cases ints with
    | nil =>
      simp only [List.map_nil, List.nil_append, List.cons.injEq] at hev
      obtain ⟨rfl, rfl⟩ := hev
      rw [st0_head m code cl hc j]
      exact Ph.mid j [] [] m.datas ⟨[], rfl⟩ (by simp [H2Msg.body])
    | cons fs ints' =>
      simp only [List.map_cons, List.cons_append, List.cons.injEq] at hev
      obtain ⟨rfl, rfl⟩ := hev
      simp only [List.length_cons] at hj
      rw [st0_interim j fs (by omega) (hok fs (by simp))]
      exact Ph.pre (j + 1) ints' (by omega) (fun fs' h' => hok fs' (by simp [h']))
  | mid j arrived consumed ds hpre hbody =>
    obtain ⟨t, rfl⟩ := hpre
    cases ds with
    | nil =>
      simp only [H2Msg.tailEvents, List.map_nil, List.nil_append, List.cons.injEq] at hev
      obtain ⟨rfl, rfl⟩ := hev
      simp only [List.map_nil, List.flatten_nil, List.append_nil] at hbody
      rw [st1_last m code cl hc j _ _ (by simp) hbody]
      refine Ph.fin j c false ⟨t ++ lastPayload m.last, by rw [← hbody]; simp⟩ (by simp)
    | cons d ds' =>
      simp only [H2Msg.tailEvents, List.map_cons, List.cons_append, List.cons.injEq] at hev
      obtain ⟨rfl, rfl⟩ := hev
      rw [st1_data m code cl j _ _ d.1 d.2 (by simp)]
      refine Ph.mid j _ c ds' ⟨t ++ d.1, by simp⟩ ?_
      rw [← hbody]
      simp [List.append_assoc]
  | fin => simp at hev

theorem Ph.read {m : H2Msg} {code : Nat} {cl : Option Nat} (hc : m.Conformant code cl)
    {s : H2Stream} {evs : List H2Ev} {c : Bytes} {b : Bool} (h : Ph m code cl s evs c b) (k : Nat) :
    s.read k = none ∨
    ∃ d e s' b', s.read k = some ((d, e), s') ∧ Ph m code cl s' evs (c ++ d) b' ∧
      (e = none ∨ e = some .eof) ∧ (e = some .eof → b' = true) ∧ (b = true → b' = true) := by
  have hcl : cl = none ∨ cl = some m.body.length := by
    rcases hc.length with ⟨_, h⟩ | ⟨_, _, _, h⟩
    · exact Or.inl h
    · exact Or.inr h
  cases h with
  | pre j ints hj hok => exact Or.inl (st0_read j k)
  | mid j arrived consumed ds hpre hbody =>
    obtain ⟨t, rfl⟩ := hpre
    have hab : (c ++ t).length ≤ m.body.length := by rw [← hbody]; simp
    obtain ⟨h1, h2⟩ := st1_read m code cl hcl j (c ++ t) c k (by simp) hab
    have hdrop : (c ++ t).drop c.length = t := by simp
    rw [hdrop] at h1 h2
    by_cases ht : t = []
    · exact Or.inl (h1 ht)
    · refine Or.inr ⟨t.take k, none, _, false, h2 ht, ?_, Or.inl rfl, by simp, by simp⟩
      exact Ph.mid j (c ++ t) (c ++ t.take k) ds ⟨t.drop k, by simp [List.append_assoc]⟩ hbody
  | fin j consumed eofSeen hpre hdone =>
    obtain ⟨t, ht⟩ := hpre
    have hle : c.length ≤ m.body.length := by rw [ht]; simp
    have hdrop : m.body.drop c.length = t := by rw [ht]; simp
    obtain ⟨h1, h2, h3⟩ := st2_read m code cl hcl j c k hle
    rw [hdrop] at h1 h2 h3
    by_cases hte : t = []
    · have hcb : c = m.body := by rw [ht, hte]; simp
      cases b with
      | false =>
        refine Or.inr ⟨[], some .eof, _, true, h2 hte, ?_, Or.inr rfl, fun _ => rfl, fun _ => rfl⟩
        simp only [List.append_nil]
        exact Ph.fin j c true ⟨t, ht⟩ (fun _ => hcb)
      | true =>
        refine Or.inr ⟨[], some .eof, _, true, h3 hte, ?_, Or.inr rfl, fun _ => rfl, fun _ => rfl⟩
        simp only [List.append_nil]
        exact Ph.fin j c true ⟨t, ht⟩ (fun _ => hcb)
    · cases b with
      | false =>
        refine Or.inr ⟨t.take k, none, _, false, h1 hte, ?_, Or.inl rfl, by simp, by simp⟩
        exact Ph.fin j (c ++ t.take k) false ⟨t.drop k, by rw [ht]; simp [List.append_assoc]⟩ (by simp)
      | true =>
        have := hdone rfl
        rw [this] at ht
        have : t = [] := by
          have := congrArg List.length ht
          simpa using this
        exact absurd this hte

/-- What every observation of a run must look like: blocked, data, or EOF. -/
def ObsOK : Option (Bytes × Option H2Err) → Prop
  | none => True
  | some (_, e) => e = none ∨ e = some .eof

def SawEOF (obs : List (Option (Bytes × Option H2Err))) : Prop := ∃ d, some (d, some H2Err.eof) ∈ obs

theorem Ph.run {m : H2Msg} {code : Nat} {cl : Option Nat} (hc : m.Conformant code cl)
    (ops : List H2Op) (s : H2Stream) (rest : List H2Ev) (c : Bytes) (b : Bool)
    (h : Ph m code cl s (evsOf ops ++ rest) c b) :
    ∃ b', Ph m code cl (s.runOps ops).2 rest (c ++ readsOut (s.runOps ops).1) b' ∧
    (∀ o ∈ (s.runOps ops).1, ObsOK o) ∧ (b = true → b' = true) ∧
    (SawEOF (s.runOps ops).1 → b' = true) := by
  induction ops generalizing s c b with
  | nil =>
    simp only [H2Stream.runOps, readsOut, List.append_nil]
    exact ⟨b, by simpa [evsOf] using h, by simp, id, fun ⟨d, hd⟩ => by simp at hd⟩
  | cons op ops ih =>
    cases op with
    | ev e =>
      simp only [evsOf, List.cons_append] at h
      have h' := Ph.event hc h
      simpa [H2Stream.runOps] using ih (s.event e) c b h'
    | read k =>
      simp only [evsOf] at h
      rcases Ph.read hc h k with hnone | ⟨d, e, s', b1, hr, hph, he, heof, hmono⟩
      · obtain ⟨b', i1, i2, i3, i4⟩ := ih s c b h
        simp only [H2Stream.runOps, hnone, readsOut]
        refine ⟨b', i1, ?_, i3, ?_⟩
        · intro o ho
          simp only [List.mem_cons] at ho
          rcases ho with rfl | ho
          · trivial
          · exact i2 o ho
        · intro ⟨d, hd⟩
          simp only [List.mem_cons, reduceCtorEq, false_or] at hd
          exact i4 ⟨d, hd⟩
      · obtain ⟨b', i1, i2, i3, i4⟩ := ih s' (c ++ d) b1 hph
        simp only [H2Stream.runOps, hr, readsOut]
        rw [← List.append_assoc]
        refine ⟨b', i1, ?_, fun hb => i3 (hmono hb), ?_⟩
        · intro o ho
          simp only [List.mem_cons] at ho
          rcases ho with rfl | ho
          · exact he
          · exact i2 o ho
        · intro ⟨d', hd'⟩
          simp only [List.mem_cons, Option.some.injEq, Prod.mk.injEq] at hd'
          rcases hd' with ⟨_, he'⟩ | hd'
          · exact i3 (heof he'.symm)
          · exact i4 ⟨d', hd'⟩

/-- After END_STREAM a read never blocks: it hands out at least one byte or reports EOF. -/
theorem Ph.read_fin {m : H2Msg} {code : Nat} {cl : Option Nat} (hc : m.Conformant code cl)
    {s : H2Stream} {c : Bytes} {b : Bool} (h : Ph m code cl s [] c b) (k : Nat) (hk : 0 < k) :
    ∃ d e s' b', s.read k = some ((d, e), s') ∧ Ph m code cl s' [] (c ++ d) b' ∧
      (e = some .eof ∨ (e = none ∧ d ≠ [])) := by
  have hcl : cl = none ∨ cl = some m.body.length := by
    rcases hc.length with ⟨_, h⟩ | ⟨_, _, _, h⟩
    · exact Or.inl h
    · exact Or.inr h
  generalize hev : ([] : List H2Ev) = evs at h
  cases h with
  | pre j ints hj hok => simp at hev
  | mid j arrived consumed ds hpre hbody => simp [H2Msg.tailEvents] at hev
  | fin j consumed eofSeen hpre hdone =>
    obtain ⟨t, ht⟩ := hpre
    have hle : c.length ≤ m.body.length := by rw [ht]; simp
    have hdrop : m.body.drop c.length = t := by rw [ht]; simp
    obtain ⟨h1, h2, h3⟩ := st2_read m code cl hcl j c k hle
    rw [hdrop] at h1 h2 h3
    by_cases hte : t = []
    · have hcb : c = m.body := by rw [ht, hte]; simp
      cases b with
      | false =>
        refine ⟨[], some .eof, _, true, h2 hte, ?_, Or.inl rfl⟩
        simp only [List.append_nil]
        exact Ph.fin j c true ⟨t, ht⟩ (fun _ => hcb)
      | true =>
        refine ⟨[], some .eof, _, true, h3 hte, ?_, Or.inl rfl⟩
        simp only [List.append_nil]
        exact Ph.fin j c true ⟨t, ht⟩ (fun _ => hcb)
    · cases b with
      | false =>
        have hne : t.take k ≠ [] := by
          have h1 := List.length_pos_iff.mpr hte
          have : 0 < (t.take k).length := by simp only [List.length_take]; omega
          exact List.length_pos_iff.mp this
        refine ⟨t.take k, none, _, false, h1 hte, ?_, Or.inr ⟨rfl, hne⟩⟩
        exact Ph.fin j (c ++ t.take k) false ⟨t.drop k, by rw [ht]; simp [List.append_assoc]⟩ (by simp)
      | true =>
        have := hdone rfl
        rw [this] at ht
        have : t = [] := by
          have := congrArg List.length ht
          simpa using this
        exact absurd this hte

/-- Once all frames have arrived, enough non-empty reads reach EOF. -/
theorem Ph.drain {m : H2Msg} {code : Nat} {cl : Option Nat} (hc : m.Conformant code cl)
    (ks : List Nat) (hpos : ∀ k ∈ ks, 0 < k) (s : H2Stream) (c : Bytes) (b : Bool)
    (h : Ph m code cl s [] c b) (hlen : m.body.length - c.length < ks.length) :
    SawEOF (s.runOps (ks.map H2Op.read)).1 := by
  induction ks generalizing s c b with
  | nil => simp at hlen
  | cons k ks ih =>
    obtain ⟨d, e, s', b', hr, hph, hcase⟩ := Ph.read_fin hc h k (hpos k (by simp))
    simp only [List.map_cons, H2Stream.runOps, hr]
    rcases hcase with rfl | ⟨rfl, hd⟩
    · exact ⟨d, by simp⟩
    · have hdl : 0 < d.length := List.length_pos_iff.mpr hd
      obtain ⟨t, ht⟩ := hph.prefix_body
      have hcl : (c ++ d).length ≤ m.body.length := by rw [ht]; simp
      have : m.body.length - (c ++ d).length < ks.length := by
        simp only [List.length_append, List.length_cons] at hlen hcl ⊢
        omega
      obtain ⟨d', hd'⟩ := ih (fun k hk => hpos k (by simp [hk])) s' (c ++ d) b' hph this
      exact ⟨d', by simp [hd']⟩

end Req.C02
