import Req.Client.RespHeader
/-! Helper lemmas for the response-header assembly (C15). -/
set_option linter.unusedSimpArgs false
namespace Req.RespHeader
open Req.Proto Req.Ascii

/-! ### `add` / `values` -/

theorem lookup_cons_ne {β : Type} (k k' : Bytes) (y : β) (rest : List (Bytes × β)) (h : k' ≠ k) :
    List.lookup k ((k', y) :: rest) = rest.lookup k := by
  have : (k == k') = false := by simp [Ne.symm h]
  simp [List.lookup, this]

theorem lookup_cons_eq {β : Type} (k : Bytes) (y : β) (rest : List (Bytes × β)) :
    List.lookup k ((k, y) :: rest) = some y := by
  simp [List.lookup]

theorem values_add (h : Hdr) (k v k2 : Bytes) :
    values (add h k v) k2 = if k = k2 then values h k2 ++ [v] else values h k2 := by
  induction h with
  | nil =>
    by_cases hk : k = k2
    · subst hk; simp [add, values, lookup_cons_eq]
    · simp [add, values, hk, lookup_cons_ne]
  | cons e rest ih =>
    obtain ⟨k', vs⟩ := e
    by_cases hk' : k' = k
    · subst hk'
      by_cases hk : k' = k2
      · subst hk; simp [add, values, lookup_cons_eq]
      · simp [add, values, hk, lookup_cons_ne]
    · simp only [add, hk', if_false]
      by_cases h2 : k' = k2
      · subst h2
        have : k ≠ k' := fun e => hk' e.symm
        simp [values, lookup_cons_eq, this]
      · unfold values at ih ⊢
        rw [lookup_cons_ne _ _ _ _ h2, lookup_cons_ne _ _ _ _ h2]
        exact ih

theorem values_foldl (fields : List Field) (h : Hdr) (k2 : Bytes) :
    values (fields.foldl (fun h f => add h (canonicalMIMEHeaderKey f.1) f.2) h) k2 =
      values h k2 ++ (fields.filter fun f => canonicalMIMEHeaderKey f.1 = k2).map Prod.snd := by
  induction fields generalizing h with
  | nil => simp
  | cons f fs ih =>
    rw [List.foldl_cons, ih, values_add]
    by_cases hk : canonicalMIMEHeaderKey f.1 = k2
    · simp [hk, List.filter_cons]
    · simp [hk, List.filter_cons]

/-! ### the slot mechanism refines `add` when the capacity is capped -/
namespace Slots

/-- Every shared view is a one-element slice with capacity one into the part of the array that
has been handed out. -/
def Good (s : St) : Prop :=
  s.next ≤ s.mem.length ∧
  ∀ k off len cap, (k, Vals.shared off len cap) ∈ s.hdr → len = 1 ∧ cap = 1 ∧ off < s.next

def resolve (mem : List Bytes) (l : List (Bytes × Vals)) : Hdr :=
  l.map fun kv => (kv.1, readVals mem kv.2)

theorem lookup_resolve (mem : List Bytes) (l : List (Bytes × Vals)) (k : Bytes) :
    (resolve mem l).lookup k = (l.lookup k).map (readVals mem) := by
  induction l with
  | nil => simp [resolve]
  | cons e rest ih =>
    obtain ⟨k', y⟩ := e
    by_cases hk : k' = k
    · subst hk; simp [resolve, lookup_cons_eq]
    · have : resolve mem ((k', y) :: rest) = (k', readVals mem y) :: resolve mem rest := rfl
      rw [this, lookup_cons_ne _ _ _ _ hk, lookup_cons_ne _ _ _ _ hk, ih]

theorem setVals_absent (l : List (Bytes × Vals)) (k : Bytes) (x : Vals) (h : l.lookup k = none) :
    setVals l k x = l ++ [(k, x)] := by
  induction l with
  | nil => rfl
  | cons e rest ih =>
    obtain ⟨k', y⟩ := e
    by_cases hk : k' = k
    · subst hk; simp [lookup_cons_eq] at h
    · rw [lookup_cons_ne _ _ _ _ hk] at h
      simp [setVals, hk, ih h]

theorem add_absent (h : Hdr) (k v : Bytes) (hl : h.lookup k = none) : add h k v = h ++ [(k, [v])] := by
  induction h with
  | nil => rfl
  | cons e rest ih =>
    obtain ⟨k', y⟩ := e
    by_cases hk : k' = k
    · subst hk; simp [lookup_cons_eq] at hl
    · rw [lookup_cons_ne _ _ _ _ hk] at hl
      simp [add, hk, ih hl]

theorem setVals_present (mem : List Bytes) (l : List (Bytes × Vals)) (k v : Bytes) (x y : Vals)
    (h : l.lookup k = some y) (hx : readVals mem x = readVals mem y ++ [v]) :
    resolve mem (setVals l k x) = add (resolve mem l) k v := by
  induction l with
  | nil => simp at h
  | cons e rest ih =>
    obtain ⟨k', y'⟩ := e
    by_cases hk : k' = k
    · subst hk
      rw [lookup_cons_eq] at h
      cases h
      simp [setVals, resolve, add, hx]
    · rw [lookup_cons_ne _ _ _ _ hk] at h
      have := ih h
      simp only [resolve] at this ⊢
      simp [setVals, add, hk, this]

theorem mem_setVals (l : List (Bytes × Vals)) (k : Bytes) (x : Vals) (e : Bytes × Vals)
    (h : e ∈ setVals l k x) : e ∈ l ∨ e = (k, x) := by
  induction l with
  | nil => simp [setVals] at h; right; exact h
  | cons a rest ih =>
    obtain ⟨k', y⟩ := a
    by_cases hk : k' = k
    · subst hk
      simp only [setVals, if_true, List.mem_cons] at h
      rcases h with h | h
      · right; exact h
      · left; exact List.mem_cons_of_mem _ h
    · simp only [setVals, hk, if_false, List.mem_cons] at h
      rcases h with h | h
      · left; rw [h]; exact List.mem_cons_self
      · rcases ih h with h | h
        · left; exact List.mem_cons_of_mem _ h
        · right; exact h

theorem take1_drop_set (mem : List Bytes) (i off : Nat) (v : Bytes) (h : off ≠ i) :
    ((mem.set i v).drop off).take 1 = (mem.drop off).take 1 := by
  apply List.ext_getElem?
  intro n
  cases n with
  | zero =>
    simp only [List.getElem?_take, List.getElem?_drop, Nat.add_zero]
    simp [List.getElem?_set, Ne.symm h]
  | succ n => simp [List.getElem?_take]

theorem mem_lookup {β : Type} (l : List (Bytes × β)) (k : Bytes) (y : β) (h : l.lookup k = some y) :
    (k, y) ∈ l := by
  induction l with
  | nil => simp at h
  | cons e rest ih =>
    obtain ⟨k', y'⟩ := e
    by_cases hk : k' = k
    · subst hk
      rw [lookup_cons_eq] at h
      cases h
      exact List.mem_cons_self
    · rw [lookup_cons_ne _ _ _ _ hk] at h
      exact List.mem_cons_of_mem _ (ih h)

/-- One field: with capped slots the mechanism does what `add` does, and stays `Good`. -/
theorem step_capped (s : St) (key value : Bytes) (hg : Good s) :
    Good (step true s key value) ∧
    resolve (step true s key value).mem (step true s key value).hdr = add (resolve s.mem s.hdr) key value := by
  obtain ⟨hn, hs⟩ := hg
  unfold step
  cases hl : s.hdr.lookup key with
  | none =>
    simp only []
    have habs : (resolve s.mem s.hdr).lookup key = none := by rw [lookup_resolve, hl]; rfl
    by_cases hnext : s.next < s.mem.length
    · simp only [hnext, if_true]
      refine ⟨⟨by simp; omega, ?_⟩, ?_⟩
      · intro k off len cap hm
        rcases mem_setVals _ _ _ _ hm with hm | hm
        · obtain ⟨h1, h2, h3⟩ := hs k off len cap hm
          exact ⟨h1, h2, by simp; omega⟩
        · cases hm
          exact ⟨rfl, rfl, by simp⟩
      · rw [setVals_absent _ _ _ hl, add_absent _ _ _ habs]
        simp only [resolve, List.map_append, List.map_cons, List.map_nil]
        congr 1
        · apply List.map_congr_left
          intro e he
          obtain ⟨k, y⟩ := e
          cases y with
          | own vs => rfl
          | shared off len cap =>
            obtain ⟨h1, _, h3⟩ := hs k off len cap he
            subst h1
            simp only [readVals]
            rw [take1_drop_set _ _ _ _ (by omega)]
        · simp only [readVals, List.cons.injEq, Prod.mk.injEq, true_and, and_true]
          apply List.ext_getElem?
          intro n
          cases n with
          | zero => simp [List.getElem?_take, List.getElem?_drop, List.getElem?_set, hnext]
          | succ n => simp [List.getElem?_take]
    · simp only [hnext, if_false]
      refine ⟨⟨hn, ?_⟩, ?_⟩
      · intro k off len cap hm
        rcases mem_setVals _ _ _ _ hm with hm | hm
        · exact hs k off len cap hm
        · cases hm
      · rw [setVals_absent _ _ _ hl, add_absent _ _ _ habs]
        simp [resolve, readVals]
  | some y =>
    cases y with
    | own vs =>
      simp only []
      refine ⟨⟨hn, ?_⟩, ?_⟩
      · intro k off len cap hm
        rcases mem_setVals _ _ _ _ hm with hm | hm
        · exact hs k off len cap hm
        · cases hm
      · exact setVals_present _ _ _ _ _ _ hl (by simp [readVals])
    | shared off len cap =>
      obtain ⟨h1, h2, _⟩ := hs key off len cap (mem_lookup _ _ _ hl)
      subst h1; subst h2
      simp only [Nat.lt_irrefl, if_false]
      refine ⟨⟨hn, ?_⟩, ?_⟩
      · intro k off' len' cap' hm
        rcases mem_setVals _ _ _ _ hm with hm | hm
        · exact hs k off' len' cap' hm
        · cases hm
      · exact setVals_present _ _ _ _ _ _ hl (by simp [readVals])

theorem run_capped_aux (fields : List Field) (s : St) (hg : Good s) :
    let s' := fields.foldl (fun s f => step true s (canonicalMIMEHeaderKey f.1) f.2) s
    Good s' ∧ resolve s'.mem s'.hdr =
      fields.foldl (fun h f => add h (canonicalMIMEHeaderKey f.1) f.2) (resolve s.mem s.hdr) := by
  induction fields generalizing s with
  | nil => exact ⟨hg, rfl⟩
  | cons f fs ih =>
    have h1 := step_capped s (canonicalMIMEHeaderKey f.1) f.2 hg
    have h2 := ih _ h1.1
    simp only [List.foldl_cons]
    exact ⟨h2.1, by rw [h2.2, h1.2]⟩

end Slots
end Req.RespHeader
