import Req.Lemmas.C06Send
/-!
C06 — helper lemmas for the two small monitor machines of `Req.H2.Monitor`:

* `Ping`: the model answers every PING of the peer in the same step and never writes a PING
  acknowledgement otherwise (a walk over every handler: `pf_apply`);
* `Push`: after a PUSH_PROMISE the model's connection is closed, so it writes nothing any more.
-/
set_option linter.unusedSimpArgs false
namespace Req.Lemmas.C06
open Req.H2 Req.H2.Flow Req.H2.Conn Req.H2.Monitor

/-! ### no handler but `processPing` writes a PING frame -/

def notPing : Frame → Bool
  | .ping _ _ => false
  | _ => true

/-- a frame list without PING frames -/
def PF (fs : List Frame) : Prop := fs.all notPing = true

theorem pf_nil : PF [] := rfl

theorem pf_append {a b : List Frame} (ha : PF a) (hb : PF b) : PF (a ++ b) := by
  unfold PF at *; simp [List.all_append, ha, hb]

theorem pf_wu (id : Nat) (inc : Int) : PF (wuFrame id inc) := by
  unfold wuFrame; split <;> rfl

theorem pf_headerFrames (id : Nat) (es : Bool) (mf : Nat) (prio fix : Bool) :
    ∀ (fuel len : Nat) (first : Bool), PF (headerFrames fuel id len es mf prio fix first) := by
  intro fuel
  induction fuel with
  | zero => intro len first; rfl
  | succ fuel ih =>
    intro len first
    simp only [headerFrames]
    split
    · rfl
    · have := ih (len - (if len > (if first = true ∧ prio = true ∧ fix = true then mf - 5 else mf)
          then (if first = true ∧ prio = true ∧ fix = true then mf - 5 else mf) else len)) false
      unfold PF at *
      simp only [List.all_cons, this, Bool.and_true]
      cases first <;> rfl

theorem pf_terminate (st : State) (s : Stream) (b : Bool) : PF (terminate st s b).2 := by
  unfold terminate; simp only; split <;> rfl

theorem pf_closeStream (st : State) (s s' : Stream) : PF (closeStream st s s').2 := by
  unfold closeStream; split
  · exact pf_terminate _ _ _
  · rfl

theorem pf_creditConn (r : State × List Frame) (n : Nat) (h : PF r.2) : PF (creditConn r n).2 := by
  unfold creditConn
  split
  · split
    · exact h
    · exact pf_append h (pf_wu _ _)
  · exact h

theorem pf_readCore (st : State) (s : Stream) (k : Nat) : PF (readCore st s k).2 := by
  unfold readCore
  split
  · rfl
  · split
    · rfl
    · exact pf_append (pf_wu _ _) (pf_wu _ _)

theorem pf_readK (st : State) (s : Stream) (k : Nat) : PF (readK st s k).2 := by
  unfold readK
  split
  · exact pf_readCore _ _ _
  · split
    · unfold readOverlong
      simp only
      split
      · exact pf_creditConn _ _ (pf_closeStream _ _ _)
      · exact pf_closeStream _ _ _
    · exact pf_readCore _ _ _

theorem pf_doOpen (st : State) (r : Req) : PF (doOpen st r).2 := by
  simp only [doOpen]; exact pf_headerFrames _ _ _ _ _ _ _ _

theorem pf_openStream (st : State) (r : Req) : PF (openStream st r).2 := by
  unfold openStream
  split
  · rfl
  · split
    · rfl
    · split
      · exact pf_doOpen _ _
      · rfl

theorem pf_resumePending (st : State) : PF (resumePending st).2 := by
  unfold resumePending
  split
  · rfl
  · simp only
    split
    · rfl
    · split
      · rfl
      · split
        · exact pf_doOpen _ _
        · rfl

theorem pf_write (st : State) (id : Nat) : PF (write st id).2 := by
  unfold write
  split
  · rfl
  · split
    · rename_i s' fs ht
      unfold trailerStep at ht
      split at ht
      · cases ht
      · split at ht
        · cases ht; exact pf_headerFrames _ _ _ _ _ _ _ _
        · cases ht
    · split
      · rfl
      · rename_i c s' f hw
        unfold writeStep at hw
        split at hw
        · cases hw
        · split at hw
          · split at hw
            · cases hw; rfl
            · cases hw
          · split at hw
            · cases hw
            · cases hw; rfl

theorem pf_discardData (st : State) (s : Stream) (flen : Int) : PF (discardData st s flen).2 := by
  unfold discardData
  simp only
  split
  · split
    · rfl
    · split
      · rfl
      · exact pf_append (pf_terminate _ _ _) (pf_wu _ _)
  · exact pf_terminate _ _ _

theorem pf_abortAbove (last : Nat) (ids : List Nat) : ∀ st : State, PF (abortAbove last ids st).2 := by
  induction ids with
  | nil => intro st; rfl
  | cons id rest ih =>
    intro st
    unfold abortAbove
    split
    · exact ih st
    · split
      · exact pf_append (pf_terminate _ _ _) (ih _)
      · exact ih st

theorem pf_peerSettings (st : State) (vals : List (Nat × Nat)) : PF (peerSettings st vals).2 := by
  unfold peerSettings; split <;> rfl

theorem pf_peerWindowUpdate (st : State) (id inc : Nat) : PF (peerWindowUpdate st id inc).2 := by
  unfold peerWindowUpdate
  split
  · split
    · rfl
    · split <;> rfl
  · split
    · rfl
    · split
      · rfl
      · split
        · exact pf_terminate _ _ _
        · split
          · rfl
          · exact pf_terminate _ _ _

theorem pf_peerResp (st : State) (id : Nat) (es : Bool) (status : Nat) (cl : Option Nat) :
    PF (peerResp st id es status cl).2 := by
  unfold peerResp
  split
  · rfl
  · split
    · rfl
    · split
      · exact pf_terminate _ _ _
      · split
        · split
          · exact pf_terminate _ _ _
          · split
            · split
              · exact pf_terminate _ _ _
              · rfl
            · rfl
        · split <;> rfl

theorem pf_peerData (st : State) (id len pad : Nat) (es : Bool) : PF (peerData st id len pad es).2 := by
  unfold peerData
  simp only
  split
  · split
    · rfl
    · split
      · split
        · rfl
        · split
          · rfl
          · exact pf_wu _ _
      · rfl
  · split
    · exact pf_discardData _ _ _
    · split
      · split
        · rfl
        · split
          · rfl
          · split
            · rfl
            · exact pf_append (pf_wu _ _) (pf_wu _ _)
      · rfl

/-- every operation except the peer's PING writes no PING frame -/
theorem pf_apply (st : State) (op : Op) (h : ∀ d, op ≠ .peer (.ping false d)) : PF (apply st op).2 := by
  cases op with
  | openReq r => exact pf_openStream _ _
  | feed id n =>
    simp only [apply, feed]
    split
    · rfl
    · split <;> rfl
  | write id => exact pf_write _ _
  | cancel id =>
    simp only [apply, cancel]
    split
    · rfl
    · split
      · exact pf_terminate _ _ _
      · rfl
  | read id n =>
    simp only [apply, Conn.read]
    split
    · rfl
    · split
      · exact pf_readK _ _ _
      · rfl
  | close id =>
    simp only [apply, close]
    split
    · rfl
    · split
      · exact pf_creditConn _ _ (pf_closeStream _ _ _)
      · rfl
  | wake => rfl
  | peer f =>
    cases f with
    | settings vals => exact pf_peerSettings _ _
    | settingsAck => simp only [apply, Conn.peer, peerSettingsAck]; split <;> rfl
    | windowUpdate id inc => exact pf_peerWindowUpdate _ _ _
    | rst id code =>
      simp only [apply, Conn.peer, peerRst]
      split
      · rfl
      · split
        · rfl
        · exact pf_terminate _ _ _
    | goaway last => simp only [apply, Conn.peer, peerGoAway]; exact pf_abortAbove _ _ _
    | resp id es status cl => exact pf_peerResp _ _ _ _ _
    | data id len pad es => exact pf_peerData _ _ _ _ _
    | ping ack d =>
      cases ack with
      | true => rfl
      | false => exact absurd rfl (h d)
    | pushPromise id p => rfl

theorem pf_newConn (cfg : Cfg) : PF (newConn cfg).2 := by
  simp only [newConn]
  unfold PF
  simp only [List.cons_append, List.nil_append, List.all_cons, notPing, Bool.true_and, List.all_map]
  rw [List.all_eq_true]
  intro x _
  rfl

/-! ### the Ping machine -/

theorem ping_run_append (m : Ping) (a b : List Event) :
    Ping.run m (a ++ b) = (match Ping.run m a with
      | .error r => .error r
      | .ok m' => Ping.run m' b) := by
  induction a generalizing m with
  | nil => simp [Ping.run]
  | cons e es ih =>
    simp only [List.cons_append, Ping.run]
    cases h : m.step e with
    | error r => simp
    | ok m' => simp [ih]

/-- client frames without PING do not move the Ping machine -/
theorem ping_run_pf (m : Ping) : ∀ {fs : List Frame}, PF fs → Ping.run m (fs.map Event.c) = .ok m := by
  intro fs
  induction fs with
  | nil => intro _; rfl
  | cons f fs ih =>
    intro h
    unfold PF at h
    simp only [List.all_cons, Bool.and_eq_true] at h
    simp only [List.map_cons, Ping.run]
    have : m.step (Event.c f) = .ok m := by
      cases f <;> first | rfl | (simp [notPing] at h)
    rw [this]
    exact ih h.2

theorem ping_step {st : State} (op : Op) (hc : st.closed = false) :
    Ping.run Ping.init (opEvents op (step st op).2) = .ok Ping.init := by
  have hresume : ∀ st1 : State, PF (resumePending st1).2 := pf_resumePending
  unfold step
  simp only [hc, Bool.false_eq_true, if_false]
  by_cases hp : ∃ d, op = .peer (.ping false d)
  · obtain ⟨d, rfl⟩ := hp
    simp only [apply, Conn.peer, peerPing, Bool.false_eq_true, if_false]
    split
    · simp only [opEvents, List.singleton_append, List.map_append, List.map_cons, List.map_nil,
        List.cons_append, List.nil_append, Ping.run, Ping.step, Ping.init]
      simp only [List.nil_append, List.contains_cons, BEq.rfl, Bool.true_or, if_true, List.erase_cons_head]
      exact ping_run_pf _ (hresume _)
    · simp [opEvents, Ping.run, Ping.step, Ping.init]
  · have hne : ∀ d, op ≠ .peer (.ping false d) := fun d hd => hp ⟨d, hd⟩
    have hpf := pf_apply st op hne
    have hpeer : ∀ fs : List Frame, PF fs → Ping.run Ping.init (opEvents op fs) = .ok Ping.init := by
      intro fs hfs
      unfold opEvents
      cases op with
      | peer f =>
        simp only [List.singleton_append, Ping.run]
        have : Ping.init.step (Event.p f) = .ok Ping.init := by
          cases f with
          | ping ack d =>
            cases ack with
            | true => rfl
            | false => exact absurd rfl (hne d)
          | _ => rfl
        rw [this]
        exact ping_run_pf _ hfs
      | _ => simp only [List.nil_append]; exact ping_run_pf _ hfs
    split
    · exact hpeer _ (pf_append hpf (hresume _))
    · exact hpeer _ hpf

/-! ### the Push machine -/

theorem push_run_append (m : Push) (a b : List Event) :
    Push.run m (a ++ b) = (match Push.run m a with
      | .error r => .error r
      | .ok m' => Push.run m' b) := by
  induction a generalizing m with
  | nil => simp [Push.run]
  | cons e es ih =>
    simp only [List.cons_append, Push.run]
    cases h : m.step e with
    | error r => simp
    | ok m' => simp [ih]

/-- as long as no PUSH_PROMISE was refused, client frames are fine -/
theorem push_run_clients (m : Push) (hm : m.seen = false) :
    ∀ fs : List Frame, ∃ m', Push.run m (fs.map Event.c) = .ok m' ∧ m'.seen = false := by
  intro fs
  induction fs generalizing m with
  | nil => exact ⟨m, rfl, hm⟩
  | cons f fs ih =>
    simp only [List.map_cons, Push.run]
    have : ∃ m1, m.step (Event.c f) = .ok m1 ∧ m1.seen = false := by
      simp only [Push.step, hm, Bool.false_eq_true, if_false]
      cases f with
      | settings vals =>
        simp only
        split
        · exact ⟨_, rfl, rfl⟩
        · exact ⟨_, rfl, hm⟩
      | _ => exact ⟨_, rfl, hm⟩
    obtain ⟨m1, h1, h2⟩ := this
    rw [h1]
    exact ih m1 h2

theorem push_step {st : State} (op : Op) (hc : st.closed = false) (q : Push) (hq : q.seen = false) :
    ∃ q', Push.run q (opEvents op (step st op).2) = .ok q' ∧
      (q'.seen = true → (step st op).1.closed = true) := by
  by_cases hp : ∃ id p, op = .peer (.pushPromise id p)
  · obtain ⟨id, p, rfl⟩ := hp
    -- the connection is closed and nothing is written
    have hstep : step st (.peer (.pushPromise id p)) = ({ st with closed := true, pendingOpen := none }, []) ∨
        step st (.peer (.pushPromise id p)) = ({ st with closed := true }, []) := by
      unfold step
      simp only [hc, Bool.false_eq_true, if_false, apply, Conn.peer, peerPushPromise, connError,
        Bool.or_true, if_true]
      unfold resumePending
      split
      · right; simp
      · left; simp
    rcases hstep with h | h <;> rw [h] <;>
      exact ⟨{ q with seen := q.seen || (q.off && q.acked) }, by simp [opEvents, Push.run, Push.step], fun _ => rfl⟩
  · have hnp : ∀ f : PFrame, op = .peer f → ∃ q1, q.step (Event.p f) = .ok q1 ∧ q1.seen = false := by
      intro f hf
      cases f with
      | pushPromise id p => exact absurd ⟨id, p, hf⟩ hp
      | settingsAck => exact ⟨_, rfl, hq⟩
      | _ => exact ⟨_, rfl, hq⟩
    unfold opEvents
    cases op with
    | peer f =>
      obtain ⟨q1, h1, h2⟩ := hnp f rfl
      simp only [List.singleton_append, Push.run, h1]
      obtain ⟨q2, h3, h4⟩ := push_run_clients q1 h2 (step st (.peer f)).2
      exact ⟨q2, h3, fun hx => by rw [h4] at hx; cases hx⟩
    | _ =>
      simp only [List.nil_append]
      obtain ⟨q2, h3, h4⟩ := push_run_clients q hq _
      exact ⟨q2, h3, fun hx => by rw [h4] at hx; cases hx⟩

/-- both small machines accept every run: no PING is left unanswered, and nothing follows a
refused PUSH_PROMISE -/
theorem extra_runFrom (ops : List Op) :
    ∀ {st : State} {q : Push} {hist : List Event},
    Ping.run Ping.init hist = .ok Ping.init → Push.run Push.init hist = .ok q →
    (q.seen = true → st.closed = true) →
    Ping.run Ping.init (runFrom st hist ops).2 = .ok Ping.init ∧
    ∃ q', Push.run Push.init (runFrom st hist ops).2 = .ok q' := by
  induction ops with
  | nil => intro st q hist h1 h2 _; exact ⟨h1, q, h2⟩
  | cons op rest ih =>
    intro st q hist h1 h2 h3
    unfold runFrom
    cases hc : st.closed with
    | true =>
      have : step st op = (st, []) := by unfold step; simp [hc]
      simp only [this, if_true, List.append_nil]
      exact ih h1 h2 (fun _ => hc)
    | false =>
      simp only [Bool.false_eq_true, if_false]
      have hq : q.seen = false := by
        cases hx : q.seen with
        | false => rfl
        | true => rw [h3 hx] at hc; cases hc
      obtain ⟨q', hq1, hq2⟩ := push_step (st := st) op hc q hq
      refine ih ?_ ?_ hq2
      · rw [ping_run_append, h1]; exact ping_step op hc
      · rw [push_run_append, h2]; exact hq1

end Req.Lemmas.C06
