import Req.Pool.H1Pool
/-! Helper lemmas for the pool invariants (C09): which fields each critical section touches. -/
namespace Req.Lemmas.C09Pool
open Req.Pool.H1Pool

@[simp] theorem upd_same {β : Type} (f : Nat → β) (k : Nat) (v : β) : upd f k v k = v := by simp [upd]
theorem upd_other {β : Type} (f : Nat → β) (k x : Nat) (v : β) (h : x ≠ k) : upd f k v x = f x := by
  simp [upd, h]

/-! ### frame facts -/

macro "frame_dec" : tactic =>
  `(tactic| (unfold decConns startDial; (repeat' split) <;> rfl))

@[simp] theorem decConns_idle (cfg : Cfg) (s : St) (k : Key) : (decConns cfg s k).idle = s.idle := by frame_dec
@[simp] theorem decConns_idleWait (cfg : Cfg) (s : St) (k : Key) : (decConns cfg s k).idleWait = s.idleWait := by frame_dec
@[simp] theorem decConns_lru (cfg : Cfg) (s : St) (k : Key) : (decConns cfg s k).lru = s.lru := by frame_dec
@[simp] theorem decConns_wst (cfg : Cfg) (s : St) (k : Key) : (decConns cfg s k).wst = s.wst := by frame_dec
@[simp] theorem decConns_closeIdle (cfg : Cfg) (s : St) (k : Key) : (decConns cfg s k).closeIdle = s.closeIdle := by frame_dec
@[simp] theorem decConns_closed (cfg : Cfg) (s : St) (k : Key) : (decConns cfg s k).closed = s.closed := by frame_dec
@[simp] theorem decConns_ckey (cfg : Cfg) (s : St) (k : Key) : (decConns cfg s k).ckey = s.ckey := by frame_dec
@[simp] theorem decConns_wkey (cfg : Cfg) (s : St) (k : Key) : (decConns cfg s k).wkey = s.wkey := by frame_dec
@[simp] theorem decConns_transit (cfg : Cfg) (s : St) (k : Key) : (decConns cfg s k).transit = s.transit := by frame_dec
@[simp] theorem decConns_conns (cfg : Cfg) (s : St) (k : Key) : (decConns cfg s k).conns = s.conns := by frame_dec
@[simp] theorem decConns_dupPanic (cfg : Cfg) (s : St) (k : Key) : (decConns cfg s k).dupPanic = s.dupPanic := by frame_dec
@[simp] theorem decConns_cancelNil (cfg : Cfg) (s : St) (k : Key) : (decConns cfg s k).cancelNil = s.cancelNil := by frame_dec


macro "frame_close" : tactic =>
  `(tactic| (unfold closeConn; (repeat' split) <;> simp))

@[simp] theorem closeConn_idle (cfg : Cfg) (s : St) (c : Conn) : (closeConn cfg s c).idle = s.idle := by frame_close
@[simp] theorem closeConn_idleWait (cfg : Cfg) (s : St) (c : Conn) : (closeConn cfg s c).idleWait = s.idleWait := by frame_close
@[simp] theorem closeConn_lru (cfg : Cfg) (s : St) (c : Conn) : (closeConn cfg s c).lru = s.lru := by frame_close
@[simp] theorem closeConn_wst (cfg : Cfg) (s : St) (c : Conn) : (closeConn cfg s c).wst = s.wst := by frame_close
@[simp] theorem closeConn_closeIdle (cfg : Cfg) (s : St) (c : Conn) : (closeConn cfg s c).closeIdle = s.closeIdle := by frame_close
@[simp] theorem closeConn_ckey (cfg : Cfg) (s : St) (c : Conn) : (closeConn cfg s c).ckey = s.ckey := by frame_close
@[simp] theorem closeConn_wkey (cfg : Cfg) (s : St) (c : Conn) : (closeConn cfg s c).wkey = s.wkey := by frame_close
@[simp] theorem closeConn_transit (cfg : Cfg) (s : St) (c : Conn) : (closeConn cfg s c).transit = s.transit := by frame_close
@[simp] theorem closeConn_conns (cfg : Cfg) (s : St) (c : Conn) : (closeConn cfg s c).conns = s.conns := by frame_close
@[simp] theorem closeConn_dupPanic (cfg : Cfg) (s : St) (c : Conn) : (closeConn cfg s c).dupPanic = s.dupPanic := by frame_close

/-! ### Group 1: no lost hand-off, per-host idle limit -/

/-- waiters queued for a key ⇒ no idle connection listed for that key -/
def IW (s : St) : Prop := ∀ k, s.idleWait k ≠ [] → s.idle k = []

theorem IW_of_frame {s s' : St} (h1 : s'.idle = s.idle) (h2 : s'.idleWait = s.idleWait) (h : IW s) : IW s' := by
  intro k; rw [h1, h2]; exact h k

theorem IW_removeIdleLocked (s : St) (c : Conn) (h : IW s) : IW (removeIdleLocked s c).1 := by
  unfold removeIdleLocked
  split
  · exact h
  · split
    · intro k hk
      simp only [upd] at *
      split
      · next heq => subst heq; simp [h _ hk]
      · exact h k hk
    · exact h


theorem popUntilWaiting_none (wst : Want → WSt) (l : List Want) :
    (popUntilWaiting wst l).1 = none → (popUntilWaiting wst l).2 = [] := by
  induction l with
  | nil => simp [popUntilWaiting]
  | cons w q ih =>
    unfold popUntilWaiting
    split
    · simp
    · exact ih

theorem popUntilWaiting_some_ne (wst : Want → WSt) (l : List Want) (w : Want) :
    (popUntilWaiting wst l).1 = some w → l ≠ [] := by
  cases l with
  | nil => simp [popUntilWaiting]
  | cons _ _ => simp

theorem scanIdle_nil (closed : Conn → Bool) : scanIdle closed [] = (none, []) := rfl

theorem IW_evictOldest (cfg : Cfg) (s : St) (h : IW s) : IW (evictOldest cfg s) := by
  unfold evictOldest
  split
  · exact h
  · apply IW_removeIdleLocked
    exact IW_of_frame (s := s) (by simp) (by simp) h

theorem IW_addIdle (cfg : Cfg) (s : St) (c : Conn) (k : Key) (hk : s.idleWait k = []) (h : IW s) :
    IW (addIdle cfg s c k) := by
  have h2 : IW { s with idle := upd s.idle k (s.idle k ++ [c]), lru := c :: s.lru } := by
    intro k' hk'
    simp only [upd] at *
    split
    · next heq => subst heq; exact absurd hk hk'
    · exact h k' hk'
  unfold addIdle
  simp only
  split
  · exact IW_evictOldest cfg _ h2
  · exact h2

theorem IW_tryPut (cfg : Cfg) (s : St) (c : Conn) (k : Key) (h : IW s) : IW (tryPut cfg s c k).1 := by
  unfold tryPut
  split
  · exact h
  · split
    · exact h
    · split
      · next w q heq =>
        -- delivered to a waiter: the idle list of k was empty and stays so
        have hne : s.idleWait k ≠ [] :=
          popUntilWaiting_some_ne s.wst _ w (by rw [heq])
        intro k' hk'
        simp only [upd] at *
        by_cases hkk : k' = k
        · subst hkk; exact h _ hne
        · simp [hkk] at hk'; exact h k' hk'
      · next q heq =>
        have hq : q = [] := by
          have := popUntilWaiting_none s.wst (s.idleWait k) (by rw [heq])
          rw [heq] at this; exact this
        subst hq
        have h1 : IW { s with idleWait := upd s.idleWait k [] } := by
          intro k' hk'
          simp only [upd] at hk'
          by_cases hkk : k' = k
          · simp [hkk] at hk'
          · simp [hkk] at hk'; exact h k' hk'
        simp only
        split
        · exact h1
        · split
          · exact h1
          · split
            · exact h1
            · apply IW_addIdle _ _ _ _ _ h1
              simp

theorem IW_queueIdle (cfg : Cfg) (s : St) (w : Want) (k : Key) (h : IW s) : IW (queueIdle cfg s w k).1 := by
  unfold queueIdle
  split
  · exact h
  · simp only
    split
    · next c rest heq =>
      have hidle : s.idleWait k = [] := by
        by_cases hq : s.idleWait k = []
        · exact hq
        · have := h k hq
          rw [this] at heq
          simp [scanIdle] at heq
      split
      · intro k' hk'
        simp only [upd] at *
        by_cases hkk : k' = k
        · subst hkk; exact absurd hidle hk'
        · simp [hkk]; exact h k' hk'
      · intro k' hk'
        simp only [upd] at *
        by_cases hkk : k' = k
        · subst hkk; exact absurd hidle hk'
        · simp [hkk]; exact h k' hk'
    · intro k' hk'
      simp only [upd] at *
      by_cases hkk : k' = k
      · simp [hkk]
      · simp [hkk] at hk' ⊢; exact h k' hk'


@[simp] theorem startDial_idle (s : St) (w : Want) : (startDial s w).idle = s.idle := rfl
@[simp] theorem startDial_idleWait (s : St) (w : Want) : (startDial s w).idleWait = s.idleWait := rfl

theorem queueDial_idle (cfg : Cfg) (s : St) (w : Want) (k : Key) : (queueDial cfg s w k).idle = s.idle := by
  unfold queueDial; (repeat' split) <;> rfl
theorem queueDial_idleWait (cfg : Cfg) (s : St) (w : Want) (k : Key) :
    (queueDial cfg s w k).idleWait = s.idleWait := by
  unfold queueDial; (repeat' split) <;> rfl

theorem IW_step (cfg : Cfg) (s : St) (op : Op) (h : IW s) : IW (step cfg s op).1 := by
  cases op with
  | newWant w k => simp only [step]; split <;> exact h
  | queueIdle w => simp only [step]; split; exact h; exact IW_queueIdle cfg s w _ h
  | queueDial w =>
    simp only [step]; split; exact h
    split; exact h
    exact IW_of_frame (queueDial_idle ..) (queueDial_idleWait ..) h
  | dialBegin w =>
    simp only [step]; split; exact h
    split; exact h
    split; exact h
    exact IW_of_frame (s := s) (by simp) (by simp) h
  | dialOk w c =>
    simp only [step]; split
    · split; exact h
      split <;> exact h
    · exact h
  | dialFail w =>
    simp only [step]; split; exact h
    split; exact h
    simp only
    split <;> exact IW_of_frame (s := s) (by simp) (by simp) h
  | dialEnd w => simp only [step]; split <;> exact h
  | recv w => simp only [step]; split <;> exact h
  | cancel w =>
    simp only [step]; split; exact h
    split <;> exact h
  | putT c =>
    simp only [step]; split; exact h
    split; exact h
    next k _ _ =>
    have := IW_tryPut cfg { s with transit := s.transit.erase c } c k h
    split
    · exact this
    · exact this
  | closeT c =>
    simp only [step]; split; exact h
    exact IW_of_frame (s := s) (by simp) (by simp) h
  | finishPut w =>
    simp only [step]; split
    · next c _ =>
      split; exact h
      next k _ =>
      have := IW_tryPut cfg { s with wst := upd s.wst w .finished } c k h
      split
      · exact this
      · exact this
    · exact h
  | finishClose w =>
    simp only [step]; split
    · exact IW_of_frame (s := s) (by simp) (by simp) h
    · exact h
  | serverCloseIdle c =>
    simp only [step]; split; exact h
    split
    · exact IW_of_frame (s := s) (by simp) (by simp) h
    · exact h
  | removeIdle c =>
    simp only [step]; split; exact h
    split
    · exact IW_removeIdleLocked s c h
    · exact h
  | idleTimeout c =>
    simp only [step]; split; exact h
    exact IW_of_frame (s := (removeIdleLocked s c).1) (by simp) (by simp) (IW_removeIdleLocked s c h)
  | closeIdleConnections =>
    simp only [step]
    intro k _
    rfl

theorem IW_run (cfg : Cfg) (s : St) (ops : List Op) (h : IW s) : IW (run cfg s ops) := by
  induction ops generalizing s with
  | nil => exact h
  | cons op ops ih => exact ih _ (IW_step cfg s op h)


/-! ### scanIdle -/

/-- The scan splits the (MRU-first) list into dropped broken connections, the candidate, the rest. -/
theorem scanIdle_some (closed : Conn → Bool) (l : List Conn) (c : Conn) (rest : List Conn) :
    scanIdle closed l = (some c, rest) →
      ∃ pre, l = pre ++ c :: rest ∧ (∀ x ∈ pre, closed x = true) ∧ closed c = false := by
  induction l with
  | nil => simp [scanIdle]
  | cons a t ih =>
    unfold scanIdle
    split
    · next hc =>
      intro h
      obtain ⟨pre, h1, h2, h3⟩ := ih h
      refine ⟨a :: pre, by simp [h1], ?_, h3⟩
      intro x hx
      rcases List.mem_cons.mp hx with rfl | hx
      · exact hc
      · exact h2 x hx
    · next hc =>
      intro h
      simp only [Prod.mk.injEq, Option.some.injEq] at h
      obtain ⟨rfl, rfl⟩ := h
      exact ⟨[], by simp, by simp, by simpa using hc⟩

theorem scanIdle_none (closed : Conn → Bool) (l : List Conn) (r : List Conn) :
    scanIdle closed l = (none, r) → ∀ x ∈ l, closed x = true := by
  induction l with
  | nil => simp
  | cons a t ih =>
    unfold scanIdle
    split
    · next hc =>
      intro h x hx
      rcases List.mem_cons.mp hx with rfl | hx
      · exact hc
      · exact ih h x hx
    · intro h; simp at h

/-! ### Group 1b: per-host idle limit -/

def IL (cfg : Cfg) (s : St) : Prop := ∀ k, (s.idle k).length ≤ cfg.idlePerHost

theorem IL_of_frame {cfg : Cfg} {s s' : St} (h1 : s'.idle = s.idle) (h : IL cfg s) : IL cfg s' := by
  intro k; rw [h1]; exact h k

theorem IL_removeIdleLocked (cfg : Cfg) (s : St) (c : Conn) (h : IL cfg s) : IL cfg (removeIdleLocked s c).1 := by
  unfold removeIdleLocked
  split
  · exact h
  · split
    · intro k
      simp only [upd]
      split
      · next heq => subst heq; exact Nat.le_trans List.length_erase_le (h _)
      · exact h k
    · exact h

theorem IL_evictOldest (cfg : Cfg) (s : St) (h : IL cfg s) : IL cfg (evictOldest cfg s) := by
  unfold evictOldest
  split
  · exact h
  · apply IL_removeIdleLocked
    exact IL_of_frame (s := s) (by simp) h

theorem IL_addIdle (cfg : Cfg) (s : St) (c : Conn) (k : Key) (hk : (s.idle k).length < cfg.idlePerHost)
    (h : IL cfg s) : IL cfg (addIdle cfg s c k) := by
  have h2 : IL cfg { s with idle := upd s.idle k (s.idle k ++ [c]), lru := c :: s.lru } := by
    intro k'
    simp only [upd]
    split
    · next heq => subst heq; simp; omega
    · exact h k'
  unfold addIdle
  simp only
  split
  · exact IL_evictOldest cfg _ h2
  · exact h2

theorem IL_tryPut (cfg : Cfg) (s : St) (c : Conn) (k : Key) (h : IL cfg s) : IL cfg (tryPut cfg s c k).1 := by
  unfold tryPut
  split
  · exact h
  · split
    · exact h
    · split
      · exact h
      · simp only
        split
        · exact h
        · split
          · exact h
          · next hlt =>
            split
            · exact h
            · apply IL_addIdle
              · simpa using hlt
              · exact h

theorem IL_queueIdle (cfg : Cfg) (s : St) (w : Want) (k : Key) (h : IL cfg s) : IL cfg (queueIdle cfg s w k).1 := by
  unfold queueIdle
  split
  · exact h
  · simp only
    split
    · next c rest heq =>
      obtain ⟨pre, hpre, _, _⟩ := scanIdle_some _ _ _ _ heq
      have hlen : (c :: rest).length ≤ (s.idle k).length := by
        have := congrArg List.length hpre
        simp at this
        simp; omega
      split
      · intro k'
        simp only [upd]
        split
        · next heq => subst heq; simp at hlen ⊢; have := h k'; omega
        · exact h k'
      · intro k'
        simp only [upd]
        split
        · next heq => subst heq; simp at hlen ⊢; have := h k'; omega
        · exact h k'
    · intro k'
      simp only [upd]
      split
      · simp
      · exact h k'

theorem IL_step (cfg : Cfg) (s : St) (op : Op) (h : IL cfg s) : IL cfg (step cfg s op).1 := by
  cases op with
  | newWant w k => simp only [step]; split <;> exact h
  | queueIdle w => simp only [step]; split; exact h; exact IL_queueIdle cfg s w _ h
  | queueDial w =>
    simp only [step]; split; exact h
    split; exact h
    exact IL_of_frame (queueDial_idle ..) h
  | dialBegin w =>
    simp only [step]; split; exact h
    split; exact h
    split; exact h
    exact IL_of_frame (s := s) (by simp) h
  | dialOk w c =>
    simp only [step]; split
    · split; exact h
      split <;> exact h
    · exact h
  | dialFail w =>
    simp only [step]; split; exact h
    split; exact h
    simp only
    split <;> exact IL_of_frame (s := s) (by simp) h
  | dialEnd w => simp only [step]; split <;> exact h
  | recv w => simp only [step]; split <;> exact h
  | cancel w =>
    simp only [step]; split; exact h
    split <;> exact h
  | putT c =>
    simp only [step]; split; exact h
    split; exact h
    next k _ _ =>
    have := IL_tryPut cfg { s with transit := s.transit.erase c } c k h
    split
    · exact this
    · exact this
  | closeT c =>
    simp only [step]; split; exact h
    exact IL_of_frame (s := s) (by simp) h
  | finishPut w =>
    simp only [step]; split
    · next c _ =>
      split; exact h
      next k _ =>
      have := IL_tryPut cfg { s with wst := upd s.wst w .finished } c k h
      split
      · exact this
      · exact this
    · exact h
  | finishClose w =>
    simp only [step]; split
    · exact IL_of_frame (s := s) (by simp) h
    · exact h
  | serverCloseIdle c =>
    simp only [step]; split; exact h
    split
    · exact IL_of_frame (s := s) (by simp) h
    · exact h
  | removeIdle c =>
    simp only [step]; split; exact h
    split
    · exact IL_removeIdleLocked cfg s c h
    · exact h
  | idleTimeout c =>
    simp only [step]; split; exact h
    exact IL_of_frame (s := (removeIdleLocked s c).1) (by simp) (IL_removeIdleLocked cfg s c h)
  | closeIdleConnections =>
    simp only [step]
    intro k
    simp

theorem IL_run (cfg : Cfg) (s : St) (ops : List Op) (h : IL cfg s) : IL cfg (run cfg s ops) := by
  induction ops generalizing s with
  | nil => exact h
  | cons op ops ih => exact ih _ (IL_step cfg s op h)


/-! ### Group 1c: connsPerHost ≤ MaxConnsPerHost -/

def CphLe (s' s : St) : Prop := ∀ k, s'.cph k ≤ s.cph k

theorem CphLe.refl (s : St) : CphLe s s := fun _ => Nat.le_refl _
theorem CphLe.trans {a b c : St} (h1 : CphLe a b) (h2 : CphLe b c) : CphLe a c :=
  fun k => Nat.le_trans (h1 k) (h2 k)
theorem CphLe.of_eq {a b : St} (h : a.cph = b.cph) : CphLe a b := by intro k; rw [h]; exact Nat.le_refl _

theorem decConns_cphLe (cfg : Cfg) (s : St) (k : Key) : CphLe (decConns cfg s k) s := by
  unfold decConns startDial
  split
  · exact CphLe.refl s
  · split
    · exact CphLe.refl s
    · split
      · exact CphLe.refl s
      · intro k'
        simp only [upd]
        split
        · next heq => subst heq; omega
        · exact Nat.le_refl _

theorem closeConn_cphLe (cfg : Cfg) (s : St) (c : Conn) : CphLe (closeConn cfg s c) s := by
  unfold closeConn
  split
  · exact CphLe.refl s
  · split
    · exact CphLe.refl s
    · exact CphLe.trans (decConns_cphLe _ _ _) (CphLe.refl s)

@[simp] theorem removeIdleLocked_cph (s : St) (c : Conn) : (removeIdleLocked s c).1.cph = s.cph := by
  unfold removeIdleLocked; (repeat' split) <;> rfl

theorem evictOldest_cphLe (cfg : Cfg) (s : St) : CphLe (evictOldest cfg s) s := by
  unfold evictOldest
  split
  · exact CphLe.refl s
  · next oldest _ =>
    exact CphLe.trans (CphLe.of_eq (removeIdleLocked_cph _ _))
      (CphLe.trans (closeConn_cphLe cfg { s with lru := s.lru.dropLast } oldest) (CphLe.refl s))

theorem addIdle_cphLe (cfg : Cfg) (s : St) (c : Conn) (k : Key) : CphLe (addIdle cfg s c k) s := by
  unfold addIdle
  simp only
  split
  · exact CphLe.trans (evictOldest_cphLe _ _) (CphLe.refl s)
  · exact CphLe.refl s

theorem tryPut_cphLe (cfg : Cfg) (s : St) (c : Conn) (k : Key) : CphLe (tryPut cfg s c k).1 s := by
  unfold tryPut
  split
  · exact CphLe.refl s
  · split
    · exact CphLe.refl s
    · split
      · exact CphLe.refl s
      · simp only
        (repeat' split) <;> first | exact CphLe.refl s | exact CphLe.trans (addIdle_cphLe _ _ _ _) (CphLe.refl s)

theorem queueIdle_cph (cfg : Cfg) (s : St) (w : Want) (k : Key) : (queueIdle cfg s w k).1.cph = s.cph := by
  unfold queueIdle
  split
  · rfl
  · simp only
    (repeat' split) <;> rfl

def CL (cfg : Cfg) (s : St) : Prop := cfg.maxConnsPerHost > 0 → ∀ k, (s.cph k : Int) ≤ cfg.maxConnsPerHost

theorem CL_of_le {cfg : Cfg} {s s' : St} (hle : CphLe s' s) (h : CL cfg s) : CL cfg s' := by
  intro hpos k
  have := h hpos k
  have := hle k
  omega

theorem CL_queueDial (cfg : Cfg) (s : St) (w : Want) (k : Key) (h : CL cfg s) : CL cfg (queueDial cfg s w k) := by
  unfold queueDial startDial
  split
  · exact h
  · split
    · next hlt =>
      intro hpos k'
      simp only [upd]
      split
      · next heq => subst heq; omega
      · exact h hpos k'
    · exact h

theorem CL_step (cfg : Cfg) (s : St) (op : Op) (h : CL cfg s) : CL cfg (step cfg s op).1 := by
  cases op with
  | newWant w k => simp only [step]; split <;> exact h
  | queueIdle w => simp only [step]; split; exact h; exact CL_of_le (CphLe.of_eq (queueIdle_cph _ _ _ _)) h
  | queueDial w =>
    simp only [step]; split; exact h
    split; exact h
    exact CL_queueDial cfg s w _ h
  | dialBegin w =>
    simp only [step]; split; exact h
    split; exact h
    split; exact h
    exact CL_of_le (CphLe.trans (decConns_cphLe _ _ _) (CphLe.refl s)) h
  | dialOk w c =>
    simp only [step]; split
    · split; exact h
      split <;> exact h
    · exact h
  | dialFail w =>
    simp only [step]; split; exact h
    split; exact h
    simp only
    split <;> exact CL_of_le (CphLe.trans (decConns_cphLe _ _ _) (CphLe.refl s)) h
  | dialEnd w => simp only [step]; split <;> exact h
  | recv w => simp only [step]; split <;> exact h
  | cancel w =>
    simp only [step]; split; exact h
    split <;> exact h
  | putT c =>
    simp only [step]; split; exact h
    split; exact h
    next k _ _ =>
    have := CL_of_le (tryPut_cphLe cfg { s with transit := s.transit.erase c } c k) h
    split
    · exact this
    · exact this
  | closeT c =>
    simp only [step]; split; exact h
    exact CL_of_le (CphLe.trans (closeConn_cphLe _ _ _) (CphLe.refl s)) h
  | finishPut w =>
    simp only [step]; split
    · next c _ =>
      split; exact h
      next k _ =>
      have := CL_of_le (tryPut_cphLe cfg { s with wst := upd s.wst w .finished } c k) h
      split
      · exact this
      · exact this
    · exact h
  | finishClose w =>
    simp only [step]; split
    · exact CL_of_le (CphLe.trans (closeConn_cphLe _ _ _) (CphLe.refl s)) h
    · exact h
  | serverCloseIdle c =>
    simp only [step]; split; exact h
    split
    · exact CL_of_le (closeConn_cphLe _ _ _) h
    · exact h
  | removeIdle c =>
    simp only [step]; split; exact h
    split
    · exact CL_of_le (CphLe.of_eq (by simp)) h
    · exact h
  | idleTimeout c =>
    simp only [step]; split; exact h
    exact CL_of_le (CphLe.trans (closeConn_cphLe _ _ _) (CphLe.of_eq (by simp))) h
  | closeIdleConnections =>
    simp only [step]
    exact h

theorem CL_run (cfg : Cfg) (s : St) (ops : List Op) (h : CL cfg s) : CL cfg (run cfg s ops) := by
  induction ops generalizing s with
  | nil => exact h
  | cons op ops ih => exact ih _ (CL_step cfg s op h)

end Req.Lemmas.C09Pool
