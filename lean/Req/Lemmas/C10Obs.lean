import Req.Client.RetryObs
/-! Helper lemmas about the retry loop under observation (`Req.RetryObs`). -/
namespace Req.Lemmas.C10Obs
open Req.Retry Req.RetryDyn Req.RetryObs

variable {σ W : Type}

/-! ### an observer that does not call back leaves every stage as it is -/

theorem logStage_quiet (obs : Observers) (im : ObsImpl) (h : perturbs obs im = false) (ed : Edits) (ra : Nat)
    (view : RespView) (ev : List (Event W)) (d3 : Dyn) : logStage obs im ed ra view ev d3 = (ev, d3) := by
  simp [logStage, h]

theorem owaitStage_quiet (obs : Observers) (im : ObsImpl) (h : perturbs obs im = false) (v : Variant) (ed : Edits)
    (o : Outcome) (ra : Nat) (view : RespView) (resp : Option Resp) (ev : List (Event W)) (d3 : Dyn) (st2 : σ) :
    owaitStage obs im v ed o ra view resp ev d3 st2 = waitStage v ed o ra view resp ev d3 st2 := by
  simp [owaitStage, logStage_quiet obs im h]

theorem oretryStage_quiet (obs : Observers) (im : ObsImpl) (h : perturbs obs im = false) (v : Variant)
    (p : Policy σ) (ed : Edits) (o : Outcome) (ra : Nat) (view : RespView) (resp : Option Resp) (err : Option Err)
    (ev0 : List (Event W)) (d1 : Dyn) (st1 : σ) :
    oretryStage obs im v p ed o ra view resp err ev0 d1 st1 = retryStage v p ed o ra view resp err ev0 d1 st1 := by
  simp only [oretryStage, retryStage, owaitStage_quiet obs im h]

theorem oditeration_quiet (obs : Observers) (im : ObsImpl) (h : perturbs obs im = false) (v : Variant)
    (p : Policy σ) (ed : Edits) (mw : Nat → σ → σ × W) (su : σ → Bool) (o : Outcome) (ra : Nat) (st : σ) (d : Dyn)
    (prev : Option Resp) :
    oditeration obs im v p ed mw su o ra st d prev = diteration v p ed mw su o ra st d prev := by
  simp only [oditeration, diteration, oretryStage_quiet obs im h]

theorem odloop_quiet (obs : Observers) (im : ObsImpl) (h : perturbs obs im = false) (v : Variant)
    (p : Policy σ) (ed : Edits) (mw : Nat → σ → σ × W) (su : σ → Bool) (script : List Outcome) (ra : Nat) (st : σ)
    (d : Dyn) (prev : Option Resp) :
    odloop obs im v p ed mw su script ra st d prev = dloop v p ed mw su script ra st d prev := by
  induction script generalizing ra st d prev with
  | nil => rfl
  | cons o rest ih =>
    simp only [odloop, dloop, oditeration_quiet obs im h]
    cases (diteration v p ed mw su o ra st d prev).out with
    | inl fin => rfl
    | inr x => simp only [ih]

theorem odsend_quiet (obs : Observers) (im : ObsImpl) (h : perturbs obs im = false) (v : Variant)
    (p : Policy σ) (ed : Edits) (mw : Nat → σ → σ × W) (un : σ → Bool) (script : List Outcome) (ra : Nat) (st : σ)
    (d : Dyn) : odsend obs im v p ed mw un script ra st d = dsend v p ed mw un script ra st d := by
  simp only [odsend, dsend, odloop_quiet obs im h]

theorem odresends_quiet (obs : Observers) (im : ObsImpl) (h : perturbs obs im = false) (v : Variant)
    (p : Policy σ) (ed : Edits) (mw : Nat → σ → σ × W) (un : σ → Bool) (again : List (List Edit)) (e : End σ) :
    odresends (W := W) obs im v p ed mw un again e = dresends v p ed mw un again e := by
  induction again generalizing e with
  | nil => rfl
  | cons es more ih => simp only [odresends, dresends, odsend_quiet obs im h, ih]

theorem odsends_quiet (obs : Observers) (im : ObsImpl) (h : perturbs obs im = false) (v : Variant)
    (p : Policy σ) (ed : Edits) (mw : Nat → σ → σ × W) (un : σ → Bool) (again : List (List Edit))
    (script : List Outcome) (ra : Nat) (st : σ) (d : Dyn) :
    odsends obs im v p ed mw un again script ra st d = dsends v p ed mw un again script ra st d := by
  simp only [odsends, dsends, odsend_quiet obs im h, odresends_quiet obs im h]

/-! ### counting the calls of the interval function -/

theorem intervalCalls_append (a b : List (Event W)) : intervalCalls (a ++ b) = intervalCalls a + intervalCalls b := by
  simp [intervalCalls, List.countP_append]

theorem intervalCalls_runAfter (v : Variant) (o : Obs) (ra : Nat) (fs : List (Obs → Bool)) (i : Nat) (err : Option Err) :
    intervalCalls (runAfter (W := W) v o ra fs i err).1 = 0 := by
  induction fs generalizing i err with
  | nil => simp [runAfter, intervalCalls]
  | cons f fs ih =>
    unfold runAfter
    by_cases hf : f o = true
    · simp [hf, intervalCalls, Event.isInterval]
    · simp only [hf, Bool.false_eq_true, ↓reduceIte]
      have := ih (i + 1) (if v.keepErr then err else none)
      simp only [intervalCalls] at this ⊢
      simp [Event.isInterval, this]

theorem intervalCalls_evalConds (o : Obs) (cs : List (Nat × (Obs → Bool))) :
    intervalCalls (evalConds (W := W) o cs).1 = 0 := by
  induction cs with
  | nil => simp [evalConds, intervalCalls]
  | cons c cs ih =>
    obtain ⟨id, f⟩ := c
    unfold evalConds
    by_cases hf : f o = true
    · simp [hf, intervalCalls, Event.isInterval]
    · simp only [hf, Bool.false_eq_true, ↓reduceIte]
      simp only [intervalCalls] at ih ⊢
      simp [Event.isInterval, ih]

theorem intervalCalls_askConds (p : Policy σ) (ra : Nat) (view : RespView) (err : Option Err) :
    intervalCalls (askConds (W := W) p ra view err).1 = 0 := by
  unfold askConds
  by_cases h : p.conds.isEmpty = true
  · simp [h, intervalCalls]
  · simp only [h, Bool.false_eq_true, ↓reduceIte]
    exact intervalCalls_evalConds _ _

theorem intervalCalls_hooks (o : Obs) (l : List (Nat × (Obs → σ → σ))) :
    intervalCalls (l.map fun h => (Event.hook h.1 o : Event W)) = 0 := by
  induction l with
  | nil => simp [intervalCalls]
  | cons h t ih =>
    simp only [intervalCalls] at ih ⊢
    simp [Event.isInterval, ih]

theorem intervalCalls_hookEvs (p : Policy σ) (ra : Nat) (view : RespView) (err : Option Err) :
    intervalCalls (hookEvs (W := W) p ra view err) = 0 := intervalCalls_hooks _ _

/-- The wait stage: the interval function is called exactly once and the counter has moved on by one. -/
theorem waitStage_calls (v : Variant) (ed : Edits) (o : Outcome) (ra : Nat) (view : RespView) (resp : Option Resp)
    (ev : List (Event W)) (d3 : Dyn) (st2 : σ) :
    intervalCalls (waitStage v ed o ra view resp ev d3 st2).events = intervalCalls ev + 1 ∧
    (waitStage v ed o ra view resp ev d3 st2).ra = ra + 1 := by
  unfold waitStage
  cases resp with
  | none => simp [intervalCalls, Event.isInterval]
  | some r =>
    by_cases h : (o.ctxDone || (applyEv ed d3 (.interval d3.interval (ra + 1) view : Event W)).ctxDone) = true <;>
      simp [h, intervalCalls, Event.isInterval]

/-- One pass, any observers that only read: as many interval calls as the counter moved (0 or 1). -/
theorem diteration_calls (v : Variant) (p : Policy σ) (ed : Edits) (mw : Nat → σ → σ × W) (su : σ → Bool)
    (o : Outcome) (ra : Nat) (st : σ) (d : Dyn) (prev : Option Resp) :
    intervalCalls (diteration v p ed mw su o ra st d prev).events + ra = (diteration v p ed mw su o ra st d prev).ra := by
  have hL : ∀ m : W, intervalCalls ([Event.before ra, .wire ra m] : List (Event W)) = 0 := by
    intro m; simp [intervalCalls, Event.isInterval]
  unfold diteration
  by_cases hb : o = .beforeErr
  · simp [hb, intervalCalls, Event.isInterval]
  · simp only [hb, ↓reduceIte]
    split
    · simp only [intervalCalls_append, hL, intervalCalls_runAfter, Nat.add_zero, Nat.zero_add]
    · split
      · simp only [intervalCalls_append, hL, intervalCalls_runAfter, Nat.add_zero, Nat.zero_add]
      · split
        · simp only [intervalCalls_append, hL, intervalCalls_runAfter, Nat.add_zero, Nat.zero_add]
        · unfold retryStage
          simp only
          split
          · simp only [intervalCalls_append, hL, intervalCalls_runAfter, intervalCalls_askConds, Nat.add_zero, Nat.zero_add]
          · rw [(waitStage_calls _ _ _ _ _ _ _ _ _).1, (waitStage_calls _ _ _ _ _ _ _ _ _).2]
            simp only [intervalCalls_append, hL, intervalCalls_runAfter, intervalCalls_askConds,
              intervalCalls_hookEvs, Nat.add_zero, Nat.zero_add]
            omega

theorem dloop_calls (v : Variant) (p : Policy σ) (ed : Edits) (mw : Nat → σ → σ × W) (su : σ → Bool)
    (script : List Outcome) (ra : Nat) (st : σ) (d : Dyn) (prev : Option Resp) :
    intervalCalls (dloop v p ed mw su script ra st d prev).1 + ra = (dloop v p ed mw su script ra st d prev).2.2.ra := by
  induction script generalizing ra st d prev with
  | nil => simp [dloop, intervalCalls]
  | cons o rest ih =>
    have hp := diteration_calls v p ed mw su o ra st d prev
    simp only [dloop]
    cases ho : (diteration v p ed mw su o ra st d prev).out with
    | inl fin => simpa using hp
    | inr x =>
      simp only
      have := ih (diteration v p ed mw su o ra st d prev).ra (diteration v p ed mw su o ra st d prev).st
        (diteration v p ed mw su o ra st d prev).dyn x
      rw [intervalCalls_append]
      omega

end Req.Lemmas.C10Obs
