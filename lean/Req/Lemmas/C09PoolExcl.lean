import Req.Lemmas.C09Pool
/-! Exclusivity invariants of the pool model (C09): every connection is in at most one place. -/
namespace Req.Lemmas.C09PoolExcl
open Req.Pool.H1Pool Req.Lemmas.C09Pool

structure Excl (s : St) : Prop where
  idleNodup : ∀ k, (s.idle k).Nodup
  idleKey : ∀ k c, c ∈ s.idle k → s.ckey c = some k
  idleNotTransit : ∀ k c, c ∈ s.idle k → c ∉ s.transit
  idleNotHeld : ∀ k c w, c ∈ s.idle k → (s.wst w).holds c = false
  transitNodup : s.transit.Nodup
  transitNotHeld : ∀ c w, c ∈ s.transit → (s.wst w).holds c = false
  heldUnique : ∀ w₁ w₂ c, (s.wst w₁).holds c = true → (s.wst w₂).holds c = true → w₁ = w₂
  transitCreated : ∀ c, c ∈ s.transit → s.ckey c ≠ none
  heldCreated : ∀ w c, (s.wst w).holds c = true → s.ckey c ≠ none
  connsNodup : s.conns.Nodup
  connsCreated : ∀ c, c ∈ s.conns ↔ s.ckey c ≠ none

/-- `c` is in no pool structure and owned by no request. -/
def Free (s : St) (c : Conn) : Prop :=
  (∀ k, c ∉ s.idle k) ∧ c ∉ s.transit ∧ ∀ w, (s.wst w).holds c = false

theorem Excl_of_idle_subset {s s' : St} (hsub : ∀ k c, c ∈ s'.idle k → c ∈ s.idle k)
    (hnd : ∀ k, (s'.idle k).Nodup) (htr : s'.transit = s.transit) (hw : s'.wst = s.wst)
    (hck : s'.ckey = s.ckey) (hc : s'.conns = s.conns) (h : Excl s) : Excl s' where
  idleNodup := hnd
  idleKey := fun k c hc' => by rw [hck]; exact h.idleKey k c (hsub k c hc')
  idleNotTransit := fun k c hc' => by rw [htr]; exact h.idleNotTransit k c (hsub k c hc')
  idleNotHeld := fun k c w hc' => by rw [hw]; exact h.idleNotHeld k c w (hsub k c hc')
  transitNodup := by rw [htr]; exact h.transitNodup
  transitNotHeld := fun c w hc' => by rw [hw]; rw [htr] at hc'; exact h.transitNotHeld c w hc'
  heldUnique := by rw [hw]; exact h.heldUnique
  transitCreated := by rw [htr, hck]; exact h.transitCreated
  heldCreated := by rw [hw, hck]; exact h.heldCreated
  connsNodup := by rw [hc]; exact h.connsNodup
  connsCreated := by rw [hc, hck]; exact h.connsCreated

theorem Excl_of_frame {s s' : St} (hi : s'.idle = s.idle) (htr : s'.transit = s.transit)
    (hw : s'.wst = s.wst) (hck : s'.ckey = s.ckey) (hc : s'.conns = s.conns) (h : Excl s) : Excl s' :=
  Excl_of_idle_subset (by rw [hi]; intros; assumption) (by rw [hi]; exact h.idleNodup) htr hw hck hc h

theorem Free_of_idle_subset {s s' : St} {c : Conn} (hsub : ∀ k x, x ∈ s'.idle k → x ∈ s.idle k)
    (htr : s'.transit = s.transit) (hw : s'.wst = s.wst) (h : Free s c) : Free s' c :=
  ⟨fun k hk => h.1 k (hsub k c hk), by rw [htr]; exact h.2.1, by rw [hw]; exact h.2.2⟩

/-! frames still missing -/
@[simp] theorem removeIdleLocked_transit (s : St) (c : Conn) : (removeIdleLocked s c).1.transit = s.transit := by
  unfold removeIdleLocked; (repeat' split) <;> rfl
@[simp] theorem removeIdleLocked_wst (s : St) (c : Conn) : (removeIdleLocked s c).1.wst = s.wst := by
  unfold removeIdleLocked; (repeat' split) <;> rfl
@[simp] theorem removeIdleLocked_ckey (s : St) (c : Conn) : (removeIdleLocked s c).1.ckey = s.ckey := by
  unfold removeIdleLocked; (repeat' split) <;> rfl
@[simp] theorem removeIdleLocked_conns (s : St) (c : Conn) : (removeIdleLocked s c).1.conns = s.conns := by
  unfold removeIdleLocked; (repeat' split) <;> rfl
@[simp] theorem removeIdleLocked_closed (s : St) (c : Conn) : (removeIdleLocked s c).1.closed = s.closed := by
  unfold removeIdleLocked; (repeat' split) <;> rfl

theorem removeIdleLocked_idle_subset (s : St) (c : Conn) :
    ∀ k x, x ∈ (removeIdleLocked s c).1.idle k → x ∈ s.idle k := by
  unfold removeIdleLocked
  split
  · intros; assumption
  · split
    · intro k x hx
      simp only [upd] at hx
      split at hx
      · next heq => subst heq; exact List.mem_of_mem_erase hx
      · exact hx
    · intros; assumption

theorem removeIdleLocked_idle_nodup (s : St) (c : Conn) (h : ∀ k, (s.idle k).Nodup) :
    ∀ k, ((removeIdleLocked s c).1.idle k).Nodup := by
  unfold removeIdleLocked
  split
  · exact h
  · split
    · intro k
      simp only [upd]
      split
      · next heq => subst heq; exact (h _).erase c
      · exact h k
    · exact h

theorem Excl_removeIdleLocked (s : St) (c : Conn) (h : Excl s) : Excl (removeIdleLocked s c).1 :=
  Excl_of_idle_subset (removeIdleLocked_idle_subset s c) (removeIdleLocked_idle_nodup s c h.idleNodup)
    (by simp) (by simp) (by simp) (by simp) h

theorem Excl_closeConn (cfg : Cfg) (s : St) (c : Conn) (h : Excl s) : Excl (closeConn cfg s c) :=
  Excl_of_frame (by simp) (by simp) (by simp) (by simp) (by simp) h

theorem Excl_decConns (cfg : Cfg) (s : St) (k : Key) (h : Excl s) : Excl (decConns cfg s k) :=
  Excl_of_frame (by simp) (by simp) (by simp) (by simp) (by simp) h

theorem Excl_evictOldest (cfg : Cfg) (s : St) (h : Excl s) : Excl (evictOldest cfg s) := by
  unfold evictOldest
  split
  · exact h
  · apply Excl_removeIdleLocked
    apply Excl_closeConn
    exact Excl_of_frame (s := s) rfl rfl rfl rfl rfl h

theorem evictOldest_idle_subset (cfg : Cfg) (s : St) : ∀ k x, x ∈ (evictOldest cfg s).idle k → x ∈ s.idle k := by
  unfold evictOldest
  split
  · intros; assumption
  · intro k x hx
    have := removeIdleLocked_idle_subset _ _ k x hx
    simpa using this

@[simp] theorem evictOldest_transit (cfg : Cfg) (s : St) : (evictOldest cfg s).transit = s.transit := by
  unfold evictOldest; split <;> simp
@[simp] theorem evictOldest_wst (cfg : Cfg) (s : St) : (evictOldest cfg s).wst = s.wst := by
  unfold evictOldest; split <;> simp
@[simp] theorem evictOldest_ckey (cfg : Cfg) (s : St) : (evictOldest cfg s).ckey = s.ckey := by
  unfold evictOldest; split <;> simp

/-- Appending a free connection to its key's idle list keeps exclusivity. -/
theorem Excl_addIdle (cfg : Cfg) (s : St) (c : Conn) (k : Key) (hf : Free s c) (hk : s.ckey c = some k)
    (h : Excl s) : Excl (addIdle cfg s c k) := by
  have h2 : Excl { s with idle := upd s.idle k (s.idle k ++ [c]), lru := c :: s.lru } := by
    refine ⟨?_, ?_, ?_, ?_, h.transitNodup, h.transitNotHeld, h.heldUnique, h.transitCreated,
      h.heldCreated, h.connsNodup, h.connsCreated⟩
    · intro k'
      simp only [upd]
      split
      · next heq =>
        subst heq
        rw [List.nodup_append]
        refine ⟨h.idleNodup _, by simp, ?_⟩
        intro a ha b hb
        simp at hb; subst hb
        intro hab; subst hab
        exact hf.1 _ ha
      · exact h.idleNodup k'
    · intro k' x hx
      simp only [upd] at hx
      split at hx
      · next heq =>
        subst heq
        rcases List.mem_append.mp hx with hx | hx
        · exact h.idleKey _ x hx
        · simp at hx; subst hx; exact hk
      · exact h.idleKey k' x hx
    · intro k' x hx
      simp only [upd] at hx
      split at hx
      · next heq =>
        subst heq
        rcases List.mem_append.mp hx with hx | hx
        · exact h.idleNotTransit _ x hx
        · simp at hx; subst hx; exact hf.2.1
      · exact h.idleNotTransit k' x hx
    · intro k' x w hx
      simp only [upd] at hx
      split at hx
      · next heq =>
        subst heq
        rcases List.mem_append.mp hx with hx | hx
        · exact h.idleNotHeld _ x w hx
        · simp at hx; subst hx; exact hf.2.2 w
      · exact h.idleNotHeld k' x w hx
  unfold addIdle
  simp only
  split
  · exact Excl_evictOldest cfg _ h2
  · exact h2


theorem popUntilWaiting_some_waiting (wst : Want → WSt) (l : List Want) (w : Want) :
    (popUntilWaiting wst l).1 = some w → wst w = .waiting := by
  induction l with
  | nil => simp [popUntilWaiting]
  | cons a q ih =>
    unfold popUntilWaiting
    split
    · next hw => intro h; simp at h; subst h; exact hw
    · exact ih

theorem holds_waiting (c : Conn) : WSt.waiting.holds c = false := rfl
theorem holds_finished (c : Conn) : WSt.finished.holds c = false := rfl
theorem holds_canceled (c : Conn) : WSt.canceled.holds c = false := rfl
theorem holds_gotErr (c : Conn) : WSt.gotErr.holds c = false := rfl
theorem holds_gotConn (c d : Conn) : (WSt.gotConn c).holds d = true ↔ c = d := by simp [WSt.holds]
theorem holds_inUse (c d : Conn) : (WSt.inUse c).holds d = true ↔ c = d := by simp [WSt.holds]

/-- Giving a free connection `c` to a want that holds nothing keeps exclusivity. -/
theorem Excl_deliver (s : St) (w : Want) (c : Conn) (v : WSt) (hv : ∀ d, v.holds d = true ↔ c = d)
    (hw : ∀ d, (s.wst w).holds d = false) (hf : Free s c) (hck : s.ckey c ≠ none) (h : Excl s) :
    Excl { s with wst := upd s.wst w v } := by
  have hupd : ∀ w' d, ((upd s.wst w v) w').holds d = true →
      (w' = w ∧ c = d) ∨ (w' ≠ w ∧ (s.wst w').holds d = true) := by
    intro w' d hd
    simp only [upd] at hd
    split at hd
    · next heq => exact Or.inl ⟨heq, (hv d).mp hd⟩
    · next hne => exact Or.inr ⟨hne, hd⟩
  have hnot : ∀ w' d, (∀ u, (s.wst u).holds d = false) → d ≠ c → ((upd s.wst w v) w').holds d = false := by
    intro w' d hd hne
    cases hh : ((upd s.wst w v) w').holds d with
    | false => rfl
    | true =>
      rcases hupd w' d hh with ⟨_, hcd⟩ | ⟨_, hold⟩
      · exact absurd hcd.symm hne
      · rw [hd w'] at hold; cases hold
  refine ⟨h.idleNodup, h.idleKey, h.idleNotTransit, ?_, h.transitNodup, ?_, ?_, h.transitCreated, ?_,
    h.connsNodup, h.connsCreated⟩
  · intro k x w' hx
    apply hnot w' x (fun u => h.idleNotHeld k x u hx)
    intro hxc; subst hxc; exact hf.1 k hx
  · intro x w' hx
    apply hnot w' x (fun u => h.transitNotHeld x u hx)
    intro hxc; subst hxc; exact hf.2.1 hx
  · intro w₁ w₂ d h1 h2
    rcases hupd w₁ d h1 with ⟨e1, hc1⟩ | ⟨n1, o1⟩ <;> rcases hupd w₂ d h2 with ⟨e2, hc2⟩ | ⟨n2, o2⟩
    · rw [e1, e2]
    · subst hc1; rw [hf.2.2 w₂] at o2; cases o2
    · subst hc2; rw [hf.2.2 w₁] at o1; cases o1
    · exact h.heldUnique w₁ w₂ d o1 o2
  · intro w' d hd
    rcases hupd w' d hd with ⟨_, hcd⟩ | ⟨_, hold⟩
    · subst hcd; exact hck
    · exact h.heldCreated w' d hold

/-- Taking everything away from a want keeps exclusivity. -/
theorem Excl_release (s : St) (w : Want) (v : WSt) (hv : ∀ d, v.holds d = false) (h : Excl s) :
    Excl { s with wst := upd s.wst w v } := by
  have hupd : ∀ w' d, ((upd s.wst w v) w').holds d = true → w' ≠ w ∧ (s.wst w').holds d = true := by
    intro w' d hd
    simp only [upd] at hd
    split at hd
    · rw [hv d] at hd; cases hd
    · next hne => exact ⟨hne, hd⟩
  have hnot : ∀ w' d, (∀ u, (s.wst u).holds d = false) → ((upd s.wst w v) w').holds d = false := by
    intro w' d hd
    cases hh : ((upd s.wst w v) w').holds d with
    | false => rfl
    | true => have := (hupd w' d hh).2; rw [hd w'] at this; cases this
  refine ⟨h.idleNodup, h.idleKey, h.idleNotTransit, ?_, h.transitNodup, ?_, ?_, h.transitCreated, ?_,
    h.connsNodup, h.connsCreated⟩
  · intro k x w' hx; exact hnot w' x (fun u => h.idleNotHeld k x u hx)
  · intro x w' hx; exact hnot w' x (fun u => h.transitNotHeld x u hx)
  · intro w₁ w₂ d h1 h2; exact h.heldUnique w₁ w₂ d (hupd w₁ d h1).2 (hupd w₂ d h2).2
  · intro w' d hd; exact h.heldCreated w' d (hupd w' d hd).2

theorem Excl_tryPut (cfg : Cfg) (s : St) (c : Conn) (k : Key) (hf : Free s c) (hk : s.ckey c = some k)
    (h : Excl s) :
    Excl (tryPut cfg s c k).1 ∧ ((tryPut cfg s c k).2 ≠ .ok → Free (tryPut cfg s c k).1 c) := by
  unfold tryPut
  split
  · exact ⟨h, fun _ => hf⟩
  · split
    · exact ⟨h, fun _ => hf⟩
    · split
      · next w q heq =>
        have hwait : s.wst w = .waiting := popUntilWaiting_some_waiting s.wst _ w (by rw [heq])
        refine ⟨?_, fun hne => absurd rfl hne⟩
        have h0 : Excl { s with idleWait := upd s.idleWait k q } := Excl_of_frame (s := s) rfl rfl rfl rfl rfl h
        have := Excl_deliver { s with idleWait := upd s.idleWait k q } w c (.gotConn c)
          (fun d => holds_gotConn c d) (by intro d; simp [hwait, holds_waiting]) hf (by simp [hk]) h0
        exact this
      · next q heq =>
        have h1 : Excl { s with idleWait := upd s.idleWait k q } := Excl_of_frame (s := s) rfl rfl rfl rfl rfl h
        have hf1 : Free { s with idleWait := upd s.idleWait k q } c := hf
        simp only
        split
        · exact ⟨h1, fun _ => hf1⟩
        · split
          · exact ⟨h1, fun _ => hf1⟩
          · split
            · exact ⟨Excl_of_frame (s := { s with idleWait := upd s.idleWait k q }) rfl rfl rfl rfl rfl h1,
                fun hne => absurd rfl hne⟩
            · exact ⟨Excl_addIdle cfg _ c k hf1 hk h1, fun hne => absurd rfl hne⟩


/-- List facts about the scan: with `l.reverse = pre ++ c :: rest` and `l` duplicate-free. -/
theorem scan_facts (l pre rest : List Conn) (c : Conn) (hnd : l.Nodup) (h : l.reverse = pre ++ c :: rest) :
    (c :: rest).reverse.Sublist l ∧ rest.reverse.Sublist l ∧ c ∉ rest ∧ c ∈ l := by
  have h1 : (c :: rest).Sublist l.reverse := by rw [h]; exact List.sublist_append_right _ _
  have h2 : rest.Sublist l.reverse := (List.sublist_cons_self c rest).trans h1
  have hr : l.reverse.Nodup := (List.reverse_perm l).nodup_iff.mpr hnd
  refine ⟨?_, ?_, ?_, ?_⟩
  · have := h1.reverse; simpa using this
  · have := h2.reverse; simpa using this
  · have := List.Nodup.sublist h1 hr
    exact (List.nodup_cons.mp this).1
  · have : c ∈ l.reverse := by rw [h]; simp
    exact List.mem_reverse.mp this

theorem Excl_queueIdle (cfg : Cfg) (s : St) (w : Want) (k : Key) (h : Excl s) : Excl (queueIdle cfg s w k).1 := by
  unfold queueIdle
  split
  · exact h
  · simp only
    split
    · next c rest heq =>
      obtain ⟨pre, hpre, _, _⟩ := scanIdle_some _ _ _ _ heq
      obtain ⟨hs1, hs2, hcr, hcl⟩ := scan_facts (s.idle k) pre rest c (h.idleNodup k) hpre
      split
      · next hwait =>
        -- hand the candidate to the (waiting) want
        let sa : St := { s with closeIdle := false, idle := upd s.idle k rest.reverse, lru := s.lru.erase c }
        have hsub : ∀ k' x, x ∈ sa.idle k' → x ∈ s.idle k' := by
          intro k' x hx
          simp only [sa, upd] at hx
          split at hx
          · next he => subst he; exact hs2.subset hx
          · exact hx
        have hnd : ∀ k', (sa.idle k').Nodup := by
          intro k'
          simp only [sa, upd]
          split
          · next he => subst he; exact List.Nodup.sublist hs2 (h.idleNodup _)
          · exact h.idleNodup k'
        have ha : Excl sa := Excl_of_idle_subset (s := s) hsub hnd rfl rfl rfl rfl h
        have hfree : Free sa c := by
          refine ⟨?_, h.idleNotTransit k c hcl, fun u => h.idleNotHeld k c u hcl⟩
          intro k' hx
          simp only [sa, upd] at hx
          split at hx
          · exact hcr (List.mem_reverse.mp hx)
          · next hne =>
            have e1 := h.idleKey k' c hx
            have e2 := h.idleKey k c hcl
            rw [e1] at e2; simp at e2; exact hne e2
        have := Excl_deliver sa w c (.gotConn c) (fun d => holds_gotConn c d)
          (by intro d; simp only [sa]; rw [hwait]; rfl) hfree (by simp [sa, h.idleKey k c hcl]) ha
        exact this
      · refine Excl_of_idle_subset (s := s) ?_ ?_ rfl rfl rfl rfl h
        · intro k' x hx
          simp only [upd] at hx
          split at hx
          · next he => subst he; exact hs1.subset hx
          · exact hx
        · intro k'
          simp only [upd]
          split
          · next he => subst he; exact List.Nodup.sublist hs1 (h.idleNodup _)
          · exact h.idleNodup k'
    · refine Excl_of_idle_subset (s := s) ?_ ?_ rfl rfl rfl rfl h
      · intro k' x hx
        simp only [upd] at hx
        split at hx
        · simp at hx
        · exact hx
      · intro k'
        simp only [upd]
        split
        · simp
        · exact h.idleNodup k'


/-- Exclusivity looks at `wst` only through `holds`. -/
theorem Excl_of_holds_eq {s s' : St} (hi : s'.idle = s.idle) (htr : s'.transit = s.transit)
    (hw : ∀ w d, (s'.wst w).holds d = (s.wst w).holds d)
    (hck : s'.ckey = s.ckey) (hc : s'.conns = s.conns) (h : Excl s) : Excl s' where
  idleNodup := by rw [hi]; exact h.idleNodup
  idleKey := by rw [hi, hck]; exact h.idleKey
  idleNotTransit := by rw [hi, htr]; exact h.idleNotTransit
  idleNotHeld := fun k c w hc' => by rw [hw]; rw [hi] at hc'; exact h.idleNotHeld k c w hc'
  transitNodup := by rw [htr]; exact h.transitNodup
  transitNotHeld := fun c w hc' => by rw [hw]; rw [htr] at hc'; exact h.transitNotHeld c w hc'
  heldUnique := fun w₁ w₂ c h1 h2 => by rw [hw] at h1 h2; exact h.heldUnique w₁ w₂ c h1 h2
  transitCreated := by rw [htr, hck]; exact h.transitCreated
  heldCreated := fun w c hh => by rw [hw] at hh; rw [hck]; exact h.heldCreated w c hh
  connsNodup := by rw [hc]; exact h.connsNodup
  connsCreated := by rw [hc, hck]; exact h.connsCreated

theorem Excl_toTransit (s : St) (c : Conn) (hf : Free s c) (hck : s.ckey c ≠ none) (h : Excl s) :
    Excl { s with transit := c :: s.transit } := by
  refine ⟨h.idleNodup, h.idleKey, ?_, h.idleNotHeld, ?_, ?_, h.heldUnique, ?_, h.heldCreated,
    h.connsNodup, h.connsCreated⟩
  · intro k x hx hmem
    rcases List.mem_cons.mp hmem with rfl | hm
    · exact hf.1 k hx
    · exact h.idleNotTransit k x hx hm
  · exact List.nodup_cons.mpr ⟨hf.2.1, h.transitNodup⟩
  · intro x w hx
    rcases List.mem_cons.mp hx with rfl | hm
    · exact hf.2.2 w
    · exact h.transitNotHeld x w hm
  · intro x hx
    rcases List.mem_cons.mp hx with rfl | hm
    · exact hck
    · exact h.transitCreated x hm

theorem Excl_transit_erase (s : St) (c : Conn) (h : Excl s) :
    Excl { s with transit := s.transit.erase c } := by
  refine ⟨h.idleNodup, h.idleKey, ?_, h.idleNotHeld, h.transitNodup.erase c, ?_, h.heldUnique, ?_,
    h.heldCreated, h.connsNodup, h.connsCreated⟩
  · intro k x hx hm; exact h.idleNotTransit k x hx (List.mem_of_mem_erase hm)
  · intro x w hx; exact h.transitNotHeld x w (List.mem_of_mem_erase hx)
  · intro x hx; exact h.transitCreated x (List.mem_of_mem_erase hx)

theorem Free_after_transit_erase (s : St) (c : Conn) (hc : c ∈ s.transit) (h : Excl s) :
    Free { s with transit := s.transit.erase c } c := by
  refine ⟨?_, ?_, fun w => h.transitNotHeld c w hc⟩
  · intro k hk; exact h.idleNotTransit k c hk hc
  · intro hm
    have := (List.Nodup.mem_erase_iff h.transitNodup).mp hm
    exact this.1 rfl

/-- After its owner lets go of `c`, `c` is free. -/
theorem Free_after_release (s : St) (w : Want) (c : Conn) (v : WSt) (hv : ∀ d, v.holds d = false)
    (hw : (s.wst w).holds c = true) (h : Excl s) : Free { s with wst := upd s.wst w v } c := by
  refine ⟨?_, ?_, ?_⟩
  · intro k hk
    have := h.idleNotHeld k c w hk
    rw [this] at hw; cases hw
  · intro hm
    have := h.transitNotHeld c w hm
    rw [this] at hw; cases hw
  · intro w'
    simp only [upd]
    split
    · exact hv c
    · next hne =>
      cases hh : (s.wst w').holds c with
      | false => rfl
      | true => exact absurd (h.heldUnique w' w c hh hw) hne

@[simp] theorem addIdle_ckey (cfg : Cfg) (s : St) (c : Conn) (k : Key) : (addIdle cfg s c k).ckey = s.ckey := by
  unfold addIdle; simp only; split <;> simp

@[simp] theorem tryPut_ckey (cfg : Cfg) (s : St) (c : Conn) (k : Key) : (tryPut cfg s c k).1.ckey = s.ckey := by
  unfold tryPut
  split
  · rfl
  · split
    · rfl
    · split
      · rfl
      · simp only
        (repeat' split) <;> simp

theorem queueDial_frame (cfg : Cfg) (s : St) (w : Want) (k : Key) :
    (queueDial cfg s w k).idle = s.idle ∧ (queueDial cfg s w k).transit = s.transit ∧
    (queueDial cfg s w k).wst = s.wst ∧ (queueDial cfg s w k).ckey = s.ckey ∧
    (queueDial cfg s w k).conns = s.conns := by
  unfold queueDial startDial
  (repeat' split) <;> exact ⟨rfl, rfl, rfl, rfl, rfl⟩

/-- Registering a fresh connection id. -/
theorem Excl_create (s : St) (c : Conn) (k : Key) (hfresh : s.ckey c = none) (h : Excl s) :
    Excl { s with ckey := upd s.ckey c (some k), conns := c :: s.conns } ∧
    Free { s with ckey := upd s.ckey c (some k), conns := c :: s.conns } c := by
  have hne : ∀ x, s.ckey x ≠ none → x ≠ c := by
    intro x hx hxc; subst hxc; exact hx hfresh
  have hkeep : ∀ x, s.ckey x ≠ none → upd s.ckey c (some k) x ≠ none := by
    intro x hx
    simp only [upd]; split
    · simp
    · exact hx
  constructor
  · refine ⟨h.idleNodup, ?_, h.idleNotTransit, h.idleNotHeld, h.transitNodup, h.transitNotHeld,
      h.heldUnique, ?_, ?_, ?_, ?_⟩
    · intro k' x hx
      have e := h.idleKey k' x hx
      have : x ≠ c := hne x (by rw [e]; simp)
      simp only [upd, this, if_false]; exact e
    · intro x hx; exact hkeep x (h.transitCreated x hx)
    · intro w x hx; exact hkeep x (h.heldCreated w x hx)
    · refine List.nodup_cons.mpr ⟨?_, h.connsNodup⟩
      intro hm; exact (h.connsCreated c).mp hm hfresh
    · intro x
      simp only [List.mem_cons, upd]
      constructor
      · rintro (rfl | hm)
        · simp
        · split
          · simp
          · exact (h.connsCreated x).mp hm
      · intro hx
        by_cases hxc : x = c
        · exact Or.inl hxc
        · simp only [hxc, if_false] at hx; exact Or.inr ((h.connsCreated x).mpr hx)
  · refine ⟨?_, ?_, ?_⟩
    · intro k' hk'
      have e := h.idleKey k' c hk'
      rw [hfresh] at e; cases e
    · intro hm; exact h.transitCreated c hm hfresh
    · intro w
      cases hh : (s.wst w).holds c with
      | false => rfl
      | true => exact absurd hfresh (h.heldCreated w c hh)


/-- tryPut on behalf of a caller that afterwards keeps a failed connection in transit. -/
theorem Excl_put_or_transit (cfg : Cfg) (s : St) (c : Conn) (k : Key) (hf : Free s c)
    (hk : s.ckey c = some k) (h : Excl s) :
    Excl (if (tryPut cfg s c k).2 = .ok then (tryPut cfg s c k).1
          else { (tryPut cfg s c k).1 with transit := c :: (tryPut cfg s c k).1.transit }) := by
  obtain ⟨h1, h2⟩ := Excl_tryPut cfg s c k hf hk h
  split
  · exact h1
  · next hne =>
    exact Excl_toTransit _ c (h2 hne) (by simp [hk]) h1

theorem listedIdle_mem (s : St) (c : Conn) (h : Excl s) :
    c ∈ listedIdle s ↔ ∃ k, c ∈ s.idle k := by
  unfold listedIdle
  rw [List.mem_filter]
  constructor
  · rintro ⟨_, hp⟩
    split at hp
    · next k _ => exact ⟨k, by simpa using hp⟩
    · cases hp
  · rintro ⟨k, hk⟩
    have e := h.idleKey k c hk
    refine ⟨(h.connsCreated c).mpr (by rw [e]; simp), ?_⟩
    rw [e]; simpa using hk

theorem Excl_step (cfg : Cfg) (s : St) (op : Op) (h : Excl s) : Excl (step cfg s op).1 := by
  cases op with
  | newWant w k =>
    simp only [step]; split
    · exact h
    · exact Excl_of_frame (s := s) rfl rfl rfl rfl rfl h
  | queueIdle w => simp only [step]; split; exact h; exact Excl_queueIdle cfg s w _ h
  | queueDial w =>
    simp only [step]; split; exact h
    split; exact h
    next k _ _ =>
    obtain ⟨a, b, c, d, e⟩ := queueDial_frame cfg s w k
    exact Excl_of_frame a b c d e h
  | dialBegin w =>
    simp only [step]; split; exact h
    split; exact h
    split; exact h
    exact Excl_decConns cfg _ _ (Excl_of_frame (s := s) rfl rfl rfl rfl rfl h)
  | dialOk w c =>
    simp only [step]; split
    · next k hwk hck =>
      split; exact h
      obtain ⟨hc1, hf1⟩ := Excl_create s c k hck h
      split
      · next hwait =>
        have hc2 : Excl { s with ckey := upd s.ckey c (some k), closed := upd s.closed c false,
                                 conns := c :: s.conns, dialing := s.dialing.erase w } :=
          Excl_of_frame (s := { s with ckey := upd s.ckey c (some k), conns := c :: s.conns })
            rfl rfl rfl rfl rfl hc1
        have hf2 : Free { s with ckey := upd s.ckey c (some k), closed := upd s.closed c false,
                                 conns := c :: s.conns, dialing := s.dialing.erase w } c := hf1
        exact Excl_deliver _ w c (.gotConn c) (fun d => holds_gotConn c d)
          (by intro d; simp only; rw [hwait]; rfl) hf2 (by simp) hc2
      · have := Excl_toTransit _ c hf1 (by simp) hc1
        exact Excl_of_frame (s := { s with ckey := upd s.ckey c (some k), conns := c :: s.conns,
                                           transit := c :: s.transit }) rfl rfl rfl rfl rfl this
    · exact h
  | dialFail w =>
    simp only [step]; split; exact h
    split; exact h
    simp only
    split
    · next hwait =>
      apply Excl_decConns
      have := Excl_release s w .gotErr (fun d => holds_gotErr d) h
      exact Excl_of_frame (s := { s with wst := upd s.wst w .gotErr }) rfl rfl rfl rfl rfl this
    · apply Excl_decConns
      exact Excl_of_frame (s := s) rfl rfl rfl rfl rfl h
  | dialEnd w =>
    simp only [step]; split
    · exact h
    · exact Excl_of_frame (s := s) rfl rfl rfl rfl rfl h
  | recv w =>
    simp only [step]; split
    · next c hst =>
      refine Excl_of_holds_eq (s := s) rfl rfl ?_ rfl rfl h
      intro w' d
      simp only [upd]
      split
      · next he => subst he; rw [hst]; rfl
      · rfl
    · next hst =>
      refine Excl_of_holds_eq (s := s) rfl rfl ?_ rfl rfl h
      intro w' d
      simp only [upd]
      split
      · next he => subst he; rw [hst]; rfl
      · rfl
    · exact h
  | cancel w =>
    simp only [step]; split; exact h
    split
    · next hst =>
      refine Excl_of_holds_eq (s := s) rfl rfl ?_ rfl rfl h
      intro w' d
      simp only [upd]
      split
      · next he => subst he; rw [hst]; rfl
      · rfl
    · next c hst =>
      have hr := Excl_release s w .canceled (fun d => holds_canceled d) h
      have hf := Free_after_release s w c .canceled (fun d => holds_canceled d)
        (by rw [hst]; exact (holds_gotConn c c).mpr rfl) h
      have hck : s.ckey c ≠ none := h.heldCreated w c (by rw [hst]; exact (holds_gotConn c c).mpr rfl)
      exact Excl_toTransit _ c hf hck hr
    · next hst =>
      refine Excl_of_holds_eq (s := s) rfl rfl ?_ rfl rfl h
      intro w' d
      simp only [upd]
      split
      · next he => subst he; rw [hst]; rfl
      · rfl
    · exact h
  | putT c =>
    simp only [step]; split; exact h
    split; exact h
    next k hk hmem =>
    have hmem' : c ∈ s.transit := by simpa using hmem
    obtain ⟨h1, h2⟩ := Excl_tryPut cfg _ c k (Free_after_transit_erase s c hmem' h) hk (Excl_transit_erase s c h)
    split
    · exact h1
    · next hne => exact Excl_toTransit _ c (h2 hne) (by simp [hk]) h1
  | closeT c =>
    simp only [step]; split; exact h
    exact Excl_closeConn cfg _ c (Excl_transit_erase s c h)
  | finishPut w =>
    simp only [step]; split
    · next c hst =>
      split; exact h
      next k hk =>
      have hholds : (s.wst w).holds c = true := by rw [hst]; exact (holds_inUse c c).mpr rfl
      obtain ⟨h1, h2⟩ := Excl_tryPut cfg _ c k
        (Free_after_release s w c .finished (fun d => holds_finished d) hholds h) hk
        (Excl_release s w .finished (fun d => holds_finished d) h)
      split
      · exact h1
      · next hne => exact Excl_toTransit _ c (h2 hne) (by simp [hk]) h1
    · exact h
  | finishClose w =>
    simp only [step]; split
    · exact Excl_closeConn cfg _ _ (Excl_release s w .finished (fun d => holds_finished d) h)
    · exact h
  | serverCloseIdle c =>
    simp only [step]; split; exact h
    split
    · exact Excl_closeConn cfg s c h
    · exact h
  | removeIdle c =>
    simp only [step]; split; exact h
    split
    · exact Excl_removeIdleLocked s c h
    · exact h
  | idleTimeout c =>
    simp only [step]; split; exact h
    exact Excl_closeConn cfg _ c (Excl_removeIdleLocked s c h)
  | closeIdleConnections =>
    simp only [step]
    refine ⟨by intro k; simp, by intro k c hc; simp at hc, by intro k c hc; simp at hc,
      by intro k c w hc; simp at hc, ?_, ?_, h.heldUnique, ?_, h.heldCreated, h.connsNodup, h.connsCreated⟩
    · rw [List.nodup_append]
      refine ⟨List.Nodup.sublist List.filter_sublist h.connsNodup, h.transitNodup, ?_⟩
      intro a ha b hb hab
      subst hab
      obtain ⟨k, hk⟩ := (listedIdle_mem s a h).mp ha
      exact h.idleNotTransit k a hk hb
    · intro x w hx
      rcases List.mem_append.mp hx with hx | hx
      · obtain ⟨k, hk⟩ := (listedIdle_mem s x h).mp hx
        exact h.idleNotHeld k x w hk
      · exact h.transitNotHeld x w hx
    · intro x hx
      rcases List.mem_append.mp hx with hx | hx
      · obtain ⟨k, hk⟩ := (listedIdle_mem s x h).mp hx
        rw [h.idleKey k x hk]; simp
      · exact h.transitCreated x hx

theorem Excl_init : Excl {} where
  idleNodup := by intro k; simp
  idleKey := by intro k c hc; simp at hc
  idleNotTransit := by intro k c hc; simp at hc
  idleNotHeld := by intro k c w hc; simp at hc
  transitNodup := by simp
  transitNotHeld := by intro c w hc; simp at hc
  heldUnique := by intro w₁ w₂ c h1; simp [WSt.holds] at h1
  transitCreated := by intro c hc; simp at hc
  heldCreated := by intro w c h1; simp [WSt.holds] at h1
  connsNodup := by simp
  connsCreated := by intro c; simp

theorem Excl_run (cfg : Cfg) (s : St) (ops : List Op) (h : Excl s) : Excl (run cfg s ops) := by
  induction ops generalizing s with
  | nil => exact h
  | cons op ops ih => exact ih _ (Excl_step cfg s op h)

end Req.Lemmas.C09PoolExcl
