import Req.C02.Call
import Req.Lemmas.C02Resp
/-! C02 — lemmas about multi-exchange calls (`Req.C02.Call`). -/
namespace Req.C02
open Req.Proto

/-! ### the pieces of the pipeline -/

theorem download_fst_acc (base : Cfg) (file skip : Bool) (v : CView) (acc acc' : Option Bytes) :
    (download base file skip v acc).1 = (download base file skip v acc').1 := by
  unfold download
  split <;> rfl

theorem download_skip (base : Cfg) (file : Bool) (v : CView) (acc : Option Bytes) :
    download base file true v acc = (v, acc) := by
  simp [download]

/-- `handleDownload` never clears an error, keeps status, and with `save` always records what
it wrote. -/
theorem handleDownload_err_some (base : Cfg) (r : Resp) (h : r.err.isSome) :
    (handleDownload base r).err.isSome := by
  unfold handleDownload
  split
  · exact h
  · split
    · exact h
    · split
      · exact h
      · rename_i b _
        rcases hb : b.readAll with ⟨⟨d, e⟩, b'⟩
        simp only
        cases e <;> simp_all

theorem handleDownload_status (base : Cfg) (r : Resp) : (handleDownload base r).status = r.status := by
  unfold handleDownload
  split
  · rfl
  · split
    · rfl
    · split
      · rfl
      · rename_i b _
        rcases hb : b.readAll with ⟨⟨d, e⟩, b'⟩
        simp only
        cases e <;> rfl

theorem download_hasResp (base : Cfg) (file skip : Bool) (v : CView) (acc : Option Bytes) :
    (download base file skip v acc).1.hasResp = v.hasResp := by
  unfold download
  split <;> rfl

theorem download_status (base : Cfg) (file skip : Bool) (v : CView) (acc : Option Bytes) :
    (download base file skip v acc).1.r.status = v.r.status := by
  unfold download
  split
  · rfl
  · simp [handleDownload_status]

theorem download_err_some (base : Cfg) (file skip : Bool) (v : CView) (acc : Option Bytes)
    (h : v.r.err.isSome) : (download base file skip v acc).1.r.err.isSome := by
  unfold download
  split
  · exact h
  · exact handleDownload_err_some base v.r h

/-- What a download leaves in the output, in terms of what it recorded in `r.out`. -/
theorem download_acc (base : Cfg) (file skip : Bool) (v : CView) (acc : Option Bytes)
    (hv : v.r.out = none) :
    (∀ d, (download base file skip v acc).1.r.out = some d →
      (download base file skip v acc).2 = some (if file then d else accBytes acc ++ d)) ∧
    ((download base file skip v acc).1.r.out = none → (download base file skip v acc).2 = acc) := by
  unfold download
  split
  · simp [hv]
  · simp only
    refine ⟨fun d hd => by rw [hd], fun hn => by rw [hn]⟩

/-! ### `single` in terms of the single-exchange model of `RespSM` -/

theorem bindBody_r (base : Cfg) (v : CView) (h : v.hasResp = true) :
    (bindBody base v).r = parseResponseBody base v.r := by
  unfold bindBody parseResponseBody
  simp only [h, Bool.not_true, Bool.false_or]
  by_cases hw : wantsBind base v.r.status = true
  · simp only [hw, Bool.not_true, Bool.false_eq_true, if_false, if_true]
    rcases ht : v.r.toBytes with ⟨⟨d, e⟩, r'⟩
    cases e <;> simp only <;> (try split) <;> rfl
  · simp [hw]

theorem bindBody_hasResp (base : Cfg) (v : CView) : (bindBody base v).hasResp = v.hasResp := by
  unfold bindBody
  split
  · rfl
  · rcases ht : v.r.toBytes with ⟨⟨d, e⟩, r'⟩
    cases e <;> simp only <;> (try split) <;> rfl

theorem bindBody_tag (base : Cfg) (v : CView) : (bindBody base v).tag = v.tag := by
  unfold bindBody
  split
  · rfl
  · rcases ht : v.r.toBytes with ⟨⟨d, e⟩, r'⟩
    cases e <;> simp only <;> (try split) <;> rfl

theorem download_r (base : Cfg) (file : Bool) (v : CView) (acc : Option Bytes) (h : v.hasResp = true) :
    (download base file false v acc).1.r = handleDownload base v.r := by
  unfold download
  simp only [h, Bool.not_true, Bool.false_or, Bool.or_false]
  by_cases hs : base.save = true
  · simp [hs]
  · simp [hs, handleDownload]

theorem download_tag (base : Cfg) (file skip : Bool) (v : CView) (acc : Option Bytes) :
    (download base file skip v acc).1.tag = v.tag ∧
    (download base file skip v acc).1.result = v.result ∧
    (download base file skip v acc).1.error = v.error := by
  unfold download
  split <;> exact ⟨rfl, rfl, rfl⟩

/-- With the digest middleware off nothing is ever pending. -/
theorem awaitsDigest_off (cfg : CCfg) (c : CR) : awaitsDigest { cfg with digest := .off } c = false := by
  simp [awaitsDigest]

theorem single_v (cfg : CCfg) (e : Exch) :
    (single cfg e).v =
      (download cfg.base cfg.file false
        (bindBody cfg.base
          (if autoRead cfg.base (CView.ofExch e).r then autoReadStep (CView.ofExch e) else CView.ofExch e))
        none).1 := by
  simp [single, roundTripTail, awaitsDigest]

theorem single_src (cfg : CCfg) (e : Exch) : (single cfg e).src = e := by
  simp [single, roundTripTail]

/-- The single-exchange reference IS the single-exchange model all the `observe_paths_agree`
theorems are about. -/
theorem single_r (cfg : CCfg) (tag st : Nat) (rd : Bool) (cks : List Bytes) (fin : Fin) :
    (single cfg (.resp tag st rd cks fin)).v.r = afterRoundTrip cfg.base st (Body.transport cks fin) := by
  rw [single_v]
  have h0 : (CView.ofExch (.resp tag st rd cks fin)).hasResp = true := rfl
  have h1 : (if autoRead cfg.base (CView.ofExch (.resp tag st rd cks fin)).r
        then autoReadStep (CView.ofExch (.resp tag st rd cks fin))
        else CView.ofExch (.resp tag st rd cks fin)).hasResp = true := by
    split <;> simp [autoReadStep, CView.ofExch]
  rw [download_r _ _ _ _ (by rw [bindBody_hasResp]; exact h1), bindBody_r _ _ h1]
  unfold afterRoundTrip
  simp only [CView.ofExch]
  by_cases ha : autoRead cfg.base
      { status := st, err := none, cache := none, body := some (Body.transport cks fin), out := none } = true
  · simp only [ha, if_true]
    rfl
  · simp only [ha]
    rfl

theorem single_tag (cfg : CCfg) (tag st : Nat) (rd : Bool) (cks : List Bytes) (fin : Fin) :
    (single cfg (.resp tag st rd cks fin)).v.tag = tag ∧
    (single cfg (.resp tag st rd cks fin)).v.hasResp = true := by
  rw [single_v]
  refine ⟨?_, ?_⟩
  · rw [(download_tag _ _ _ _ _).1, bindBody_tag]
    split <;> simp [autoReadStep, CView.ofExch]
  · rw [download_hasResp, bindBody_hasResp]
    split <;> simp [autoReadStep, CView.ofExch]

theorem single_terr (cfg : CCfg) :
    (single cfg .terr).v =
      { r := { status := 0, err := some .transport, cache := none, body := none, out := none },
        tag := 0, hasResp := false, result := none, error := none } := by
  rw [single_v]
  simp [CView.ofExch, autoRead, bindBody, download]

/-! ### one pass -/

/-- `roundTripTail` either is the single-exchange processing, or left a pending challenge
untouched by the download. -/
theorem roundTripTail_cases (cfg : CCfg) (e : Exch) (acc : Option Bytes) :
    (roundTripTail cfg e acc).1.src = e ∧ (roundTripTail cfg e acc).1.resent = false ∧
    ((roundTripTail cfg e acc).1.v = (single cfg e).v ∨
     ((roundTripTail cfg e acc).1.v.r.err = none ∧ (roundTripTail cfg e acc).1.v.hasResp = true ∧
      (roundTripTail cfg e acc).1.v.r.status = 401 ∧ cfg.digest ≠ .off)) := by
  refine ⟨rfl, rfl, ?_⟩
  rw [single_v]
  simp only [roundTripTail]
  generalize hv2 : bindBody cfg.base
      (if autoRead cfg.base (CView.ofExch e).r then autoReadStep (CView.ofExch e) else CView.ofExch e) = v2
  by_cases hp : awaitsDigest cfg { v := v2, resent := false, src := e } = true
  · right
    simp only [hp, download_skip]
    simp only [awaitsDigest, Bool.and_eq_true, decide_eq_true_eq, beq_iff_eq, Bool.not_eq_true',
      Option.isNone_iff_eq_none] at hp
    exact ⟨hp.1.1.1.2, hp.1.1.2, hp.1.2, hp.1.1.1.1⟩
  · left
    have : awaitsDigest cfg { v := v2, resent := false, src := e } = false := by
      simpa using hp
    simp only [this]
    exact download_fst_acc _ _ _ _ _ _

/-- The answer the digest middleware installs is processed exactly like a single exchange. -/
theorem digestStep_view (cfg : CCfg) (c : CR) (acc : Option Bytes) (script : List Exch)
    (c' : CR) (acc' : Option Bytes) (script' : List Exch) (f : Bool)
    (h : digestStep cfg c acc script = some ((c', acc', script'), f)) :
    c'.v = (single cfg c'.src).v := by
  unfold digestStep at h
  split at h
  · simp at h
  · have hterr : ∀ (c' : CR), c' = { v := CView.ofExch .terr, resent := true, src := .terr } →
        c'.v = (single cfg c'.src).v := by
      intro c' hc
      subst hc
      simp only [single_terr]
      rfl
    have hresp : ∀ (tag st : Nat) (rd : Bool) (cks : List Bytes) (fin : Fin) (a : Option Bytes),
        (download cfg.base cfg.file false
          (bindBody cfg.base
            (if digestAutoRead cfg.base (CView.ofExch (.resp tag st rd cks fin))
              then autoReadStep (CView.ofExch (.resp tag st rd cks fin))
              else CView.ofExch (.resp tag st rd cks fin))) a).1 =
        (single cfg (.resp tag st rd cks fin)).v := by
      intro tag st rd cks fin a
      rw [single_v]
      have hg : digestAutoRead cfg.base (CView.ofExch (.resp tag st rd cks fin)) =
          autoRead cfg.base (CView.ofExch (.resp tag st rd cks fin)).r := by
        simp only [digestAutoRead, autoRead, CView.ofExch, Option.isNone_none, Bool.true_and]
      rw [hg]
      exact download_fst_acc _ _ _ _ _ _
    cases script with
    | nil =>
      simp only [Option.some.injEq, Prod.mk.injEq] at h
      exact hterr c' h.1.1.symm
    | cons e rest =>
      cases e with
      | terr =>
        simp only [Option.some.injEq, Prod.mk.injEq] at h
        exact hterr c' h.1.1.symm
      | resp tag st rd cks fin =>
        simp only [Option.some.injEq, Prod.mk.injEq] at h
        obtain ⟨⟨rfl, _, _⟩, _⟩ := h
        exact hresp tag st rd cks fin acc

/-- If the digest middleware does nothing, the response was not a pending challenge. -/
theorem digestStep_none (cfg : CCfg) (c : CR) (acc : Option Bytes) (script : List Exch)
    (h : digestStep cfg c acc script = none) :
    ¬ (c.v.r.err = none ∧ c.v.hasResp = true ∧ c.v.r.status = 401) := by
  intro ⟨h1, h2, h3⟩
  unfold digestStep at h
  simp only [h1, h2, h3, Option.isSome_none, Bool.not_true, Bool.or_self, bne_self_eq_false,
    Bool.false_eq_true, if_false] at h
  split at h <;> (try split at h) <;> simp at h

/-- **One pass ends on a response that was processed like a single exchange.** -/
theorem attempt_view (cfg : CCfg) (acc : Option Bytes) (script : List Exch) :
    (attempt cfg acc script).c.v = (single cfg (attempt cfg acc script).c.src).v := by
  unfold attempt
  rcases hd : doExch script with ⟨e, script1⟩
  simp only
  rcases hr : roundTripTail cfg e acc with ⟨c, acc1⟩
  obtain ⟨hsrc, _, hcases⟩ := roundTripTail_cases cfg e acc
  rw [hr] at hsrc hcases
  simp only at hsrc hcases
  cases hdg : cfg.digest with
  | off =>
    simp only
    rcases hcases with h | h
    · rw [h, hsrc]
    · exact absurd hdg h.2.2.2
  | client =>
    simp only
    cases hds : digestStep cfg c acc1 script1 with
    | none =>
      simp only
      rcases hcases with h | h
      · rw [h, hsrc]
      · exact absurd ⟨h.1, h.2.1, h.2.2.1⟩ (digestStep_none cfg c acc1 script1 hds)
    | some x =>
      rcases x with ⟨⟨c', acc', script'⟩, f⟩
      exact digestStep_view cfg c acc1 script1 c' acc' script' f hds
  | request =>
    simp only
    cases hds : digestStep cfg c acc1 script1 with
    | none =>
      simp only
      rcases hcases with h | h
      · rw [h, hsrc]
      · exact absurd ⟨h.1, h.2.1, h.2.2.1⟩ (digestStep_none cfg c acc1 script1 hds)
    | some x =>
      rcases x with ⟨⟨c', acc', script'⟩, f⟩
      exact digestStep_view cfg c acc1 script1 c' acc' script' f hds

theorem callLoop_view (cfg : CCfg) (left : Nat) (acc : Option Bytes) (script : List Exch) :
    (callLoop cfg left acc script).1.v = (single cfg (callLoop cfg left acc script).1.src).v := by
  induction left generalizing acc script with
  | zero => exact attempt_view cfg acc script
  | succ n ih =>
    unfold callLoop
    simp only
    split
    · exact attempt_view cfg acc script
    · exact ih _ _

/-! ### the output over a call -/

theorem toBytes_out (r : Resp) : r.toBytes.2.out = r.out := by
  unfold Resp.toBytes
  split
  · rfl
  · split
    · rfl
    · split
      · rfl
      · rename_i b _
        rcases hb : b.readAll with ⟨⟨d, e⟩, b'⟩
        simp only
        cases e <;> rfl

theorem autoReadStep_out (v : CView) : (autoReadStep v).r.out = v.r.out := by
  simp [autoReadStep, toBytes_out]

theorem bindBody_out (base : Cfg) (v : CView) : (bindBody base v).r.out = v.r.out := by
  unfold bindBody
  split
  · rfl
  · have := toBytes_out v.r
    rcases ht : v.r.toBytes with ⟨⟨d, e⟩, r'⟩
    rw [ht] at this
    cases e <;> simp only <;> (try split) <;> exact this

theorem ofExch_out (e : Exch) : (CView.ofExch e).r.out = none := by
  cases e <;> rfl

theorem toBytes_status (r : Resp) : r.toBytes.2.status = r.status := by
  unfold Resp.toBytes
  split
  · rfl
  · split
    · rfl
    · split
      · rfl
      · rename_i b _
        rcases hb : b.readAll with ⟨⟨d, e⟩, b'⟩
        simp only
        cases e <;> rfl

theorem autoReadStep_status (v : CView) : (autoReadStep v).r.status = v.r.status := by
  simp [autoReadStep, toBytes_status]

theorem bindBody_status (base : Cfg) (v : CView) : (bindBody base v).r.status = v.r.status := by
  unfold bindBody
  split
  · rfl
  · have := toBytes_status v.r
    rcases ht : v.r.toBytes with ⟨⟨d, e⟩, r'⟩
    rw [ht] at this
    cases e <;> simp only <;> (try split) <;> exact this

theorem single_status (cfg : CCfg) (tag st : Nat) (rd : Bool) (cks : List Bytes) (fin : Fin) :
    (single cfg (.resp tag st rd cks fin)).v.r.status = st := by
  rw [single_v, download_status, bindBody_status]
  split
  · rw [autoReadStep_status]; rfl
  · rfl

/-- What one download step does to the output, in the form used below. -/
def OutStep (file : Bool) (acc : Option Bytes) (v : CView) (acc' : Option Bytes) : Prop :=
  (∀ d, v.r.out = some d → acc' = some (if file then d else accBytes acc ++ d)) ∧
  (v.r.out = none → acc' = acc)

theorem download_outStep (base : Cfg) (file skip : Bool) (v : CView) (acc : Option Bytes)
    (hv : v.r.out = none) :
    OutStep file acc (download base file skip v acc).1 (download base file skip v acc).2 :=
  download_acc base file skip v acc hv

theorem digestStep_out (cfg : CCfg) (c : CR) (acc : Option Bytes) (script : List Exch)
    (c' : CR) (acc' : Option Bytes) (script' : List Exch) (f : Bool)
    (h : digestStep cfg c acc script = some ((c', acc', script'), f)) :
    OutStep cfg.file acc c'.v acc' := by
  unfold digestStep at h
  split at h
  · simp at h
  · have hterr : ∀ (c' : CR) (a : Option Bytes),
        c' = { v := CView.ofExch .terr, resent := true, src := .terr } → a = acc →
        OutStep cfg.file acc c'.v a := by
      intro c' a hc ha
      subst hc ha
      exact ⟨fun d hd => by simp [CView.ofExch] at hd, fun _ => rfl⟩
    have hresp : ∀ (e : Exch),
        OutStep cfg.file acc
          (download cfg.base cfg.file false
            (bindBody cfg.base
              (if digestAutoRead cfg.base (CView.ofExch e) then autoReadStep (CView.ofExch e)
                else CView.ofExch e)) acc).1
          (download cfg.base cfg.file false
            (bindBody cfg.base
              (if digestAutoRead cfg.base (CView.ofExch e) then autoReadStep (CView.ofExch e)
                else CView.ofExch e)) acc).2 := by
      intro e
      apply download_outStep
      rw [bindBody_out]
      split
      · rw [autoReadStep_out, ofExch_out]
      · exact ofExch_out e
    cases script with
    | nil =>
      simp only [Option.some.injEq, Prod.mk.injEq] at h
      exact hterr c' acc' h.1.1.symm h.1.2.1.symm
    | cons e rest =>
      cases e with
      | terr =>
        simp only [Option.some.injEq, Prod.mk.injEq] at h
        exact hterr c' acc' h.1.1.symm h.1.2.1.symm
      | resp tag st rd cks fin =>
        simp only [Option.some.injEq, Prod.mk.injEq] at h
        obtain ⟨⟨rfl, rfl, _⟩, _⟩ := h
        exact hresp (.resp tag st rd cks fin)

/-- **One pass downloads at most once**, and what the final response of the pass recorded as
written is what the output received last. -/
theorem attempt_out (cfg : CCfg) (acc : Option Bytes) (script : List Exch) :
    OutStep cfg.file acc (attempt cfg acc script).c.v (attempt cfg acc script).acc := by
  unfold attempt
  rcases hd : doExch script with ⟨e, script1⟩
  simp only
  -- the state before the download of `roundTripTail`
  generalize hv2 : bindBody cfg.base
      (if autoRead cfg.base (CView.ofExch e).r then autoReadStep (CView.ofExch e) else CView.ofExch e) = v2
  have hv2out : v2.r.out = none := by
    rw [← hv2, bindBody_out]
    split
    · rw [autoReadStep_out, ofExch_out]
    · exact ofExch_out e
  have hrt : roundTripTail cfg e acc =
      ({ v := (download cfg.base cfg.file (awaitsDigest cfg { v := v2, resent := false, src := e }) v2 acc).1,
         resent := false, src := e },
       (download cfg.base cfg.file (awaitsDigest cfg { v := v2, resent := false, src := e }) v2 acc).2) := by
    simp [roundTripTail, hv2]
  rw [hrt]
  simp only
  by_cases hp : awaitsDigest cfg { v := v2, resent := false, src := e } = true
  · -- pending challenge: nothing downloaded yet
    simp only [hp, download_skip]
    cases hdg : cfg.digest with
    | off => simp [awaitsDigest, hdg] at hp
    | client =>
      simp only
      cases hds : digestStep cfg { v := v2, resent := false, src := e } acc script1 with
      | none => exact ⟨fun d hd => by rw [hv2out] at hd; exact absurd hd (by simp), fun _ => rfl⟩
      | some x =>
        rcases x with ⟨⟨c', acc', script'⟩, f⟩
        exact digestStep_out cfg _ acc script1 c' acc' script' f hds
    | request =>
      simp only
      cases hds : digestStep cfg { v := v2, resent := false, src := e } acc script1 with
      | none => exact ⟨fun d hd => by rw [hv2out] at hd; exact absurd hd (by simp), fun _ => rfl⟩
      | some x =>
        rcases x with ⟨⟨c', acc', script'⟩, f⟩
        exact digestStep_out cfg _ acc script1 c' acc' script' f hds
  · -- not pending: `roundTripTail` downloads (if asked to); the digest middleware then does nothing
    have hpf : awaitsDigest cfg { v := v2, resent := false, src := e } = false := by simpa using hp
    simp only [hpf]
    have hstep := download_outStep cfg.base cfg.file false v2 acc hv2out
    have hnone : cfg.digest ≠ .off → ∀ a s,
        digestStep cfg { v := (download cfg.base cfg.file false v2 acc).1, resent := false, src := e } a s = none := by
      intro hdg a s
      unfold digestStep
      simp only [download_hasResp, download_status]
      have : v2.r.err.isSome = true ∨ v2.hasResp = false ∨ v2.r.status ≠ 401 := by
        simp only [awaitsDigest, hdg, ne_eq, not_false_eq_true, decide_true, Bool.true_and, Bool.not_false,
          Bool.and_true, Bool.and_eq_false_imp, beq_eq_false_iff_ne] at hpf
        by_cases h1 : v2.r.err.isSome = true
        · exact Or.inl h1
        · by_cases h2 : v2.hasResp = false
          · exact Or.inr (Or.inl h2)
          · refine Or.inr (Or.inr ?_)
            apply hpf
            cases hh : v2.r.err <;> simp_all
      rcases this with h | h | h
      · simp [download_err_some _ _ _ _ _ h]
      · simp [h]
      · simp [h]
    cases hdg : cfg.digest with
    | off => exact hstep
    | client =>
      simp only
      rw [hnone (by rw [hdg]; decide)]
      exact hstep
    | request =>
      simp only
      rw [hnone (by rw [hdg]; decide)]
      exact hstep

/-- Over the whole retry loop: what the final response recorded as written is the LAST thing
the output received; a file holds exactly that. -/
theorem callLoop_out (cfg : CCfg) (left : Nat) (acc : Option Bytes) (script : List Exch) (d : Bytes)
    (h : (callLoop cfg left acc script).1.v.r.out = some d) :
    ∃ pre, (callLoop cfg left acc script).2.1 = some (if cfg.file then d else pre ++ d) ∧
      (left = 0 → pre = accBytes acc) := by
  induction left generalizing acc script with
  | zero =>
    exact ⟨accBytes acc, (attempt_out cfg acc script).1 d h, fun _ => rfl⟩
  | succ n ih =>
    unfold callLoop at h ⊢
    simp only at h ⊢
    split
    · rename_i hstop
      simp only [hstop, if_true] at h
      exact ⟨accBytes acc, (attempt_out cfg acc script).1 d h, fun h0 => by cases h0⟩
    · rename_i hstop
      simp only [hstop] at h
      obtain ⟨pre, hpre, _⟩ := ih _ _ h
      exact ⟨pre, hpre, fun h0 => by cases h0⟩

/-! ### what a single exchange leaves in the cache and the slots -/

/-- `ToBytes` on the response as `Do` returned it, or after auto-read: the bytes are the whole
transport body (also when the body ends in a failure: then an error is reported with them). -/
theorem toBytes_fresh (st : Nat) (cks : List Bytes) (fin : Fin) :
    ({ status := st, err := none, cache := none, body := some (Body.transport cks fin), out := none } : Resp).toBytes.1.1
      = cks.flatten ∧
    (({ status := st, err := none, cache := none, body := some (Body.transport cks fin), out := none } : Resp).toBytes.1.2
      = .ok ↔ fin = .eof) ∧
    ({ status := st, err := none, cache := none, body := some (Body.transport cks fin), out := none } : Resp).toBytes.2.cache
      = some cks.flatten := by
  cases fin <;> simp [Resp.toBytes, Body.readAll_transport, Fin.toErr]

/-- The view before `bindBody` in a single-exchange call. -/
def preBind (base : Cfg) (e : Exch) : CView :=
  if autoRead base (CView.ofExch e).r then autoReadStep (CView.ofExch e) else CView.ofExch e

theorem single_v' (cfg : CCfg) (e : Exch) :
    (single cfg e).v = (download cfg.base cfg.file false (bindBody cfg.base (preBind cfg.base e)) none).1 :=
  single_v cfg e

theorem handleDownload_cache (base : Cfg) (r : Resp) : (handleDownload base r).cache = r.cache := by
  unfold handleDownload
  split
  · rfl
  · split
    · rfl
    · split
      · rfl
      · rename_i b _
        rcases hb : b.readAll with ⟨⟨d, e⟩, b'⟩
        simp only
        cases e <;> rfl

theorem download_cache (base : Cfg) (file skip : Bool) (v : CView) (acc : Option Bytes) :
    (download base file skip v acc).1.r.cache = v.r.cache := by
  unfold download
  split
  · rfl
  · simp [handleDownload_cache]

/-- **Slots and cache of a single exchange.** A slot is filled only with the whole body of the
exchange, only by the target that matches the status, and never both; with a body that ends in
EOF the applicable slot IS filled; whatever is cached is the whole body of the exchange. -/
theorem single_slots (cfg : CCfg) (tag st : Nat) (rd : Bool) (cks : List Bytes) (fin : Fin) :
    let v := (single cfg (.resp tag st rd cks fin)).v
    (∀ b, v.result = some b → b = cks.flatten ∧ cfg.base.result = true ∧ successState st = true ∧ st ≠ 204) ∧
    (∀ b, v.error = some b → b = cks.flatten ∧ cfg.base.errResult = true ∧ 399 < st) ∧
    (v.result = none ∨ v.error = none) ∧
    (fin = .eof → wantsBind cfg.base st = true →
      (successState st = true → v.result = some cks.flatten) ∧
      (successState st = false → v.error = some cks.flatten)) ∧
    (∀ b, v.r.cache = some b → b = cks.flatten) := by
  simp only [single_v']
  have hdl := download_tag cfg.base cfg.file false (bindBody cfg.base (preBind cfg.base (.resp tag st rd cks fin))) none
  rw [hdl.2.1, hdl.2.2, download_cache]
  -- success state and the error state exclude each other
  have hw : wantsBind cfg.base st = true → successState st = true → cfg.base.result = true ∧ st ≠ 204 := by
    intro h1 h2
    simp only [wantsBind, successState, Bool.and_eq_true, Bool.or_eq_true, decide_eq_true_eq] at h1 h2
    rcases h1 with h | h
    · exact ⟨h.1.1.1, h.2⟩
    · omega
  have hw' : wantsBind cfg.base st = true → successState st = false → cfg.base.errResult = true ∧ 399 < st := by
    intro h1 h2
    simp only [wantsBind, successState, Bool.and_eq_true, Bool.or_eq_true, decide_eq_true_eq,
      Bool.and_eq_false_imp, decide_eq_false_iff_not] at h1 h2
    rcases h1 with h | h
    · exact absurd h.1.2 (h2 h.1.1.2)
    · exact h
  simp only [preBind, CView.ofExch]
  by_cases ha : autoRead cfg.base
      { status := st, err := none, cache := none, body := some (Body.transport cks fin), out := none } = true <;>
  by_cases hb : wantsBind cfg.base st = true <;>
  by_cases hs : successState st = true <;>
  cases fin <;>
  simp [ha, hb, hs, autoReadStep, bindBody, Resp.toBytes, Body.readAll_transport, Fin.toErr, Body.close] <;>
  first
    | exact hw hb hs
    | exact hw' hb (by simpa using hs)
    | skip

end Req.C02
