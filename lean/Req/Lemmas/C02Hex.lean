import Req.Lemmas.C02Chunked
/-!
The chunk-size line Go's own chunked writer produces (`fmt.Fprintf(w, "%x\r\n", len(data))`)
is one the reader maps back to the chunk length: `WChunk.OK` holds for it.
-/
namespace Req.C02
open Req.Proto

def hexDigit (d : Nat) : UInt8 := if d < 10 then UInt8.ofNat (48 + d) else UInt8.ofNat (87 + d)

/-- Lower-case hex digits of `n`, most significant first, onto `acc` (`fuel` ≥ digit count). -/
def hexDigitsAux : Nat → Nat → Bytes → Bytes
  | 0, _, acc => acc
  | f + 1, n, acc => if n < 16 then hexDigit n :: acc else hexDigitsAux f (n / 16) (hexDigit (n % 16) :: acc)

/-- `%x` of a number below 16^16. -/
def hexOfNat (n : Nat) : Bytes := hexDigitsAux 16 n []

def lenAux : Nat → Nat → Nat
  | 0, _ => 0
  | f + 1, n => if n < 16 then 1 else 1 + lenAux f (n / 16)

theorem lenAux_le (f n : Nat) : lenAux f n ≤ f := by
  induction f generalizing n with
  | zero => simp [lenAux]
  | succ f ih =>
    unfold lenAux
    split
    · omega
    · have := ih (n / 16); omega

theorem hexDigitVal_hexDigit : ∀ d : Fin 16, hexDigitVal (hexDigit d.val) = some d.val := by decide

theorem hexDigit_val (d : Nat) (h : d < 16) : hexDigitVal (hexDigit d) = some d :=
  hexDigitVal_hexDigit ⟨d, h⟩

theorem parseHexGo_aux (f : Nat) : ∀ (n : Nat) (acc : Bytes) (i a : Nat), n < 16 ^ f → i + lenAux f n ≤ 16 →
    parseHexGo (hexDigitsAux f n acc) i a = parseHexGo acc (i + lenAux f n) (a * 16 ^ lenAux f n + n) := by
  induction f with
  | zero =>
    intro n acc i a hn _
    simp at hn
    subst hn
    simp [hexDigitsAux, lenAux]
  | succ f ih =>
    intro n acc i a hn hi
    simp only [hexDigitsAux, lenAux] at hi ⊢
    by_cases h16 : n < 16
    · simp only [h16, if_true] at hi ⊢
      have hi16 : ¬ i = 16 := by omega
      simp [parseHexGo, hexDigit_val n h16, hi16]
    · simp only [h16, if_false] at hi ⊢
      have hn' : n / 16 < 16 ^ f := by
        rw [Nat.pow_succ] at hn
        exact Nat.div_lt_of_lt_mul (by omega)
      rw [ih (n / 16) _ i a hn' (by omega)]
      have hmod : n % 16 < 16 := Nat.mod_lt _ (by omega)
      have hi16 : ¬ i + lenAux f (n / 16) = 16 := by omega
      simp only [parseHexGo, hexDigit_val _ hmod, hi16, if_false]
      congr 1
      · omega
      · have hdm := Nat.div_add_mod n 16
        generalize lenAux f (n / 16) = L
        have hp : 16 ^ (1 + L) = 16 ^ L * 16 := by rw [Nat.add_comm, Nat.pow_succ]
        rw [hp, Nat.add_mul, ← Nat.mul_assoc]
        omega

theorem parseHexGo_hexOfNat (n : Nat) (hn : n < 16 ^ 16) : parseHexGo (hexOfNat n) 0 0 = .ok n := by
  unfold hexOfNat
  rw [parseHexGo_aux 16 n [] 0 0 hn (by have := lenAux_le 16 n; omega)]
  simp [parseHexGo]

/-- Every byte `hexDigitsAux` adds is one of the sixteen digit bytes. -/
def isLowerHex (b : UInt8) : Prop := ∃ d : Fin 16, b = hexDigit d.val

theorem hexDigitsAux_all (f n : Nat) (acc : Bytes) (hacc : ∀ b ∈ acc, isLowerHex b) :
    ∀ b ∈ hexDigitsAux f n acc, isLowerHex b := by
  induction f generalizing n acc with
  | zero => simpa [hexDigitsAux] using hacc
  | succ f ih =>
    unfold hexDigitsAux
    split
    next h16 =>
      intro b hb
      simp only [List.mem_cons] at hb
      rcases hb with rfl | hb
      · exact ⟨⟨n, h16⟩, rfl⟩
      · exact hacc b hb
    next h16 =>
      apply ih
      intro b hb
      simp only [List.mem_cons] at hb
      rcases hb with rfl | hb
      · exact ⟨⟨n % 16, Nat.mod_lt _ (by omega)⟩, rfl⟩
      · exact hacc b hb

theorem hexDigitsAux_ne_nil (f n : Nat) (acc : Bytes) (hf : 0 < f) : hexDigitsAux f n acc ≠ [] := by
  induction f generalizing n acc with
  | zero => omega
  | succ f ih =>
    unfold hexDigitsAux
    split
    · simp
    · cases f with
      | zero => simp [hexDigitsAux]
      | succ f => exact ih _ _ (by omega)

theorem hexDigitsAux_length (f n : Nat) (acc : Bytes) : (hexDigitsAux f n acc).length ≤ f + acc.length := by
  induction f generalizing n acc with
  | zero => simp [hexDigitsAux]
  | succ f ih =>
    unfold hexDigitsAux
    split
    · simp; omega
    · have := ih (n / 16) (hexDigit (n % 16) :: acc)
      simp at this
      omega

theorem hexDigit_facts : ∀ d : Fin 16,
    hexDigit d.val ≠ 10 ∧ hexDigit d.val ≠ 59 ∧ isASCIISpace (hexDigit d.val) = false := by decide

theorem lowerHex_facts (b : UInt8) (h : isLowerHex b) :
    b ≠ 10 ∧ b ≠ 59 ∧ isASCIISpace b = false := by
  obtain ⟨d, rfl⟩ := h
  exact hexDigit_facts d

theorem takeWhile_all {α} (p : α → Bool) (l : List α) (h : ∀ x ∈ l, p x = true) : l.takeWhile p = l := by
  induction l with
  | nil => rfl
  | cons x xs ih =>
    simp only [List.takeWhile_cons, h x (by simp), if_true]
    rw [ih (fun y hy => h y (by simp [hy]))]

/-- The reader's line parser applied to `%x\r` gives the number back. -/
theorem sizeOfLine_hex (n : Nat) (hn : n < 16 ^ 16) : sizeOfLine (hexOfNat n ++ [13]) = .ok n := by
  have hall : ∀ b ∈ hexOfNat n, isLowerHex b := hexDigitsAux_all 16 n [] (by simp)
  have hne : hexOfNat n ≠ [] := hexDigitsAux_ne_nil 16 n [] (by omega)
  unfold sizeOfLine
  -- trimTrailingWhitespace drops exactly CR LF
  have htrim : trimTrailingWhitespace (hexOfNat n ++ [13] ++ [10]) = hexOfNat n := by
    unfold trimTrailingWhitespace
    simp only [List.reverse_append, List.reverse_cons, List.reverse_nil, List.nil_append, List.singleton_append,
      List.cons_append]
    have h10 : isASCIISpace 10 = true := by decide
    have h13 : isASCIISpace 13 = true := by decide
    simp only [List.dropWhile_cons, h10, h13, if_true]
    -- the last hex digit is not a blank
    have : (hexOfNat n).reverse.dropWhile isASCIISpace = (hexOfNat n).reverse := by
      cases hrev : (hexOfNat n).reverse with
      | nil => simp at hrev; exact absurd hrev hne
      | cons x xs =>
        have hx : x ∈ hexOfNat n := by
          have : x ∈ (hexOfNat n).reverse := by rw [hrev]; simp
          simpa using this
        simp [List.dropWhile_cons, (lowerHex_facts x (hall x hx)).2.2]
    rw [this, List.reverse_reverse]
  rw [htrim]
  have hext : removeChunkExtension (hexOfNat n) = hexOfNat n := by
    unfold removeChunkExtension
    apply takeWhile_all
    intro b hb
    have := (lowerHex_facts b (hall b hb)).2.1
    simpa using this
  rw [hext]
  unfold parseHexUint
  have : (hexOfNat n).isEmpty = false := by
    cases h : hexOfNat n with
    | nil => exact absurd h hne
    | cons => rfl
  simp only [this, Bool.false_eq_true, if_false]
  exact parseHexGo_hexOfNat n hn

/-- A chunk written the way Go's chunked writer writes it is well-formed for the reader
(any buffer of at least 18 bytes; Go's minimum is 16 and the default 4096). -/
theorem wchunk_ok_canonical (cap : Nat) (hcap : 18 ≤ cap) (data : Bytes) (hd : data ≠ [])
    (hlen : data.length < 16 ^ 16) : WChunk.OK cap ⟨hexOfNat data.length ++ [13], data⟩ := by
  have hall : ∀ b ∈ hexOfNat data.length, isLowerHex b := hexDigitsAux_all 16 _ [] (by simp)
  have hl : (hexOfNat data.length).length ≤ 16 := by
    have := hexDigitsAux_length 16 data.length []
    unfold hexOfNat
    simpa using this
  refine ⟨?_, hd, sizeOfLine_hex _ hlen, ?_, ?_⟩
  · intro hmem
    simp only [List.mem_append, List.mem_singleton] at hmem
    rcases hmem with h | h
    · exact (lowerHex_facts _ (hall _ h)).1 rfl
    · simp at h
  · simp only [List.length_append, List.length_singleton, maxLineLength]; omega
  · simp only [List.length_append, List.length_singleton]; omega

theorem lastOK_canonical (cap : Nat) (hcap : 3 ≤ cap) : LastOK cap [48, 13] := by
  refine ⟨by decide, by rfl, by decide, by simp; omega⟩

/-- A chunk as Go's `chunkedWriter.Write` emits it. -/
def canonChunk (d : Bytes) : WChunk := ⟨hexOfNat d.length ++ [13], d⟩

/-- The chunked encoding Go's writer produces for the chunk list `ds`, the last-chunk line
`0\r\n`, then `tail`. -/
def canonWire (ds : List Bytes) (tail : Bytes) : Bytes :=
  (ds.map fun d => hexOfNat d.length ++ [13, 10] ++ d ++ [13, 10]).flatten ++ [48, 13, 10] ++ tail

theorem canonWire_eq (ds : List Bytes) (tail : Bytes) :
    canonWire ds tail = wireFrom (ds.map canonChunk) [48, 13] tail := by
  have h : (ds.map fun d => hexOfNat d.length ++ [13, 10] ++ d ++ [13, 10]).flatten =
      ((ds.map canonChunk).map WChunk.wire).flatten := by
    induction ds with
    | nil => rfl
    | cons d ds ih =>
      simp only [List.map_cons, List.flatten_cons, ih]
      simp [canonChunk, WChunk.wire, List.append_assoc]
  unfold canonWire wireFrom
  rw [h]
  simp [List.append_assoc]

theorem dataOf_canon (ds : List Bytes) : dataOf (ds.map canonChunk) = ds.flatten := by
  induction ds with
  | nil => rfl
  | cons d ds ih =>
    simp only [dataOf, List.map_cons, List.flatten_cons] at ih ⊢
    rw [ih]
    rfl

theorem canon_ok (cap : Nat) (hcap : 18 ≤ cap) (ds : List Bytes)
    (h : ∀ d ∈ ds, d ≠ [] ∧ d.length < 16 ^ 16) : ∀ c ∈ ds.map canonChunk, c.OK cap := by
  intro c hc
  simp only [List.mem_map] at hc
  obtain ⟨d, hd, rfl⟩ := hc
  exact wchunk_ok_canonical cap hcap d (h d hd).1 (h d hd).2

end Req.C02
