import Req.H2.BodyWrite
/-! Lemmas about `Req.H2.BodyWrite` (C01, HTTP/2 request-body DATA framing). -/
namespace Req.Lemmas.C01Body
open Req.Proto Req.H2.BodyWrite

/-! ### `awaitFlowControl` -/

theorem take_eq (a rem mf : Nat) : take a rem mf = min a (min rem mf) := by
  unfold take Req.H2.Conn.awaitTake
  simp only
  split <;> split <;> omega

/-! ### the reader -/

theorem read_data (r : Reader) (buf : Nat) : (r.read buf).1 ++ (r.read buf).2.2.data = r.data := by
  unfold Reader.read
  split
  next h => simp
  next h => simp

theorem read_ending (r : Reader) (buf : Nat) : (r.read buf).2.2.ending = r.ending := by
  unfold Reader.read
  split <;> simp

theorem want_le (r : Reader) (buf : Nat) : r.want buf ≤ buf := by
  unfold Reader.want
  split <;> omega

theorem read_len (r : Reader) (buf : Nat) : (r.read buf).1.length ≤ buf := by
  unfold Reader.read
  split
  · simp
  · simp only [List.length_take]
    have := want_le r buf
    omega

/-- `io.EOF` is only ever returned once every byte is out. -/
theorem read_eof (r : Reader) (buf : Nat) (h : (r.read buf).2.1 = .eof) : (r.read buf).2.2.data = [] := by
  unfold Reader.read at h ⊢
  by_cases he : r.data.isEmpty = true
  · simp only [he, if_true]
    simpa using he
  · simp only [he, Bool.false_eq_true, if_false] at h ⊢
    generalize r.want buf = want at h ⊢
    by_cases hr : (List.drop want r.data).isEmpty = true
    · exact List.isEmpty_iff.mp hr
    · simp only [hr, Bool.false_eq_true, if_false] at h
      exact absurd h (by simp)

theorem read_nil (r : Reader) (buf : Nat) (h : (r.read buf).1 = []) : (r.read buf).2.2.data = r.data := by
  have := read_data r buf
  rw [h] at this
  simpa using this

/-- every `Read` uses up a script entry or at least one byte (or the reader is at its end) -/
theorem read_measure (r : Reader) (buf : Nat) (hb : 1 ≤ buf) (hd : r.data ≠ []) :
    (r.read buf).2.2.sizes.length + (r.read buf).2.2.data.length < r.sizes.length + r.data.length := by
  unfold Reader.read
  have hne : r.data.isEmpty = false := by
    cases h : r.data with
    | nil => exact absurd h hd
    | cons _ _ => rfl
  simp only [hne, Bool.false_eq_true, if_false]
  have : 0 < r.data.length := List.length_pos_iff.mpr hd
  cases hs : r.sizes with
  | nil =>
    simp only [Reader.want, hs, List.tail_nil, List.length_nil, List.length_drop]
    omega
  | cons s ss =>
    simp only [List.tail_cons, List.length_cons, List.length_drop]
    omega

theorem read_measure_le (r : Reader) (buf : Nat) :
    (r.read buf).2.2.sizes.length + (r.read buf).2.2.data.length ≤ r.sizes.length + r.data.length := by
  unfold Reader.read
  split
  · simp
  · simp only [List.length_drop, List.length_tail]
    omega

/-! ### frames -/

def NoEnd (fs : List Sent) : Prop := ∀ s ∈ fs, s.frame.endStream = false

/-- END_STREAM on exactly one frame, and it is the last one -/
def EndsOnce (fs : List Sent) : Prop :=
  ∃ init s, fs = init ++ [s] ∧ s.frame.endStream = true ∧ NoEnd init

theorem noEnd_nil : NoEnd [] := by intro s hs; cases hs

theorem noEnd_append {a b : List Sent} (ha : NoEnd a) (hb : NoEnd b) : NoEnd (a ++ b) := by
  intro s hs
  rcases List.mem_append.mp hs with h | h
  · exact ha s h
  · exact hb s h

theorem noEnd_cons {s : Sent} {l : List Sent} (hs : s.frame.endStream = false) (hl : NoEnd l) :
    NoEnd (s :: l) := by
  intro x hx
  rcases List.mem_cons.mp hx with h | h
  · rw [h]; exact hs
  · exact hl x h

theorem endsOnce_prepend {a b : List Sent} (ha : NoEnd a) (hb : EndsOnce b) : EndsOnce (a ++ b) := by
  obtain ⟨init, s, rfl, hs, hi⟩ := hb
  exact ⟨a ++ init, s, by simp, hs, noEnd_append ha hi⟩

theorem payloads_append (a b : List Frame) : payloads (a ++ b) = payloads a ++ payloads b := by
  simp [payloads]

theorem frames_append (a b : List Sent) : frames (a ++ b) = frames a ++ frames b := by
  simp [frames]

/-- a frame cut under flow control: non-empty, within the window it saw, within the peer's
maximum frame size -/
def Within (mf : Nat) (s : Sent) : Prop :=
  s.frame.payload.length ≤ s.avail ∧ s.frame.payload.length ≤ mf

/-! ### the inner loop -/

theorem sendChunk_nil (mf : Nat) (last : Bool) (av : List Nat) : sendChunk mf last [] av = ([], some av) := by
  cases av <;> simp [sendChunk]

/-- everything `sendChunk` guarantees, for every chunk and every schedule. -/
theorem sendChunk_spec (mf : Nat) (last : Bool) :
    ∀ (av : List Nat) (rem : Bytes),
      (∃ tail, payloads (frames (sendChunk mf last rem av).1) ++ tail = rem ∧
        ((sendChunk mf last rem av).2.isSome → tail = [])) ∧
      (∀ s ∈ (sendChunk mf last rem av).1, Within mf s ∧ 0 < s.frame.payload.length) ∧
      ((sendChunk mf last rem av).2 = none → NoEnd (sendChunk mf last rem av).1) ∧
      (last = false → NoEnd (sendChunk mf last rem av).1) ∧
      ((sendChunk mf last rem av).2.isSome → last = true → rem ≠ [] → EndsOnce (sendChunk mf last rem av).1) := by
  intro av
  induction av with
  | nil =>
    intro rem
    cases rem with
    | nil => simp [sendChunk, payloads, frames, NoEnd]
    | cons b bs => simp [sendChunk, payloads, frames, NoEnd]
  | cons a av ih =>
    intro rem
    cases rem with
    | nil => simp [sendChunk, payloads, frames, NoEnd]
    | cons b bs =>
      simp only [sendChunk]
      split
      next hn => exact ih (b :: bs)
      next hn =>
        have hpos : 0 < take a (b :: bs).length mf := Nat.pos_of_ne_zero hn
        have hle := take_eq a (b :: bs).length mf
        obtain ⟨⟨tail, htail, hdone⟩, hwithin, hblocked, hnolast, hends⟩ :=
          ih ((b :: bs).drop (take a (b :: bs).length mf))
        generalize hsc : sendChunk mf last ((b :: bs).drop (take a (b :: bs).length mf)) av = res at *
        obtain ⟨fs, r⟩ := res
        simp only at htail hdone hwithin hblocked hnolast hends ⊢
        refine ⟨⟨tail, ?_, hdone⟩, ?_, ?_, ?_, ?_⟩
        · simp only [frames, List.map_cons, payloads, List.flatten_cons, Frame.payload]
          simp only [frames, payloads] at htail
          rw [List.append_assoc, htail, List.take_append_drop]
        · intro s hs
          rcases List.mem_cons.mp hs with h | h
          · subst h
            simp only [Within, Frame.payload, List.length_take]
            omega
          · exact hwithin s h
        · intro hr
          have hne : ((b :: bs).drop (take a (b :: bs).length mf)) ≠ [] := by
            intro he
            rw [he, sendChunk_nil] at hsc
            simp at hsc
            rw [← hsc.2] at hr
            simp at hr
          apply noEnd_cons _ (hblocked hr)
          simp only [Frame.endStream, Bool.and_eq_false_iff]
          right
          cases h : (b :: bs).drop (take a (b :: bs).length mf) with
          | nil => exact absurd h hne
          | cons _ _ => rfl
        · intro hl
          apply noEnd_cons _ (hnolast hl)
          simp [Frame.endStream, hl]
        · intro hr hl _
          by_cases he : ((b :: bs).drop (take a (b :: bs).length mf)) = []
          · rw [he, sendChunk_nil] at hsc
            simp only [Prod.mk.injEq] at hsc
            refine ⟨[], _, by rw [← hsc.1]; rfl, ?_, noEnd_nil⟩
            show (last && (List.drop (take a (b :: bs).length mf) (b :: bs)).isEmpty) = true
            rw [he, hl]; rfl
          · have := hends hr hl he
            have h1 : NoEnd [(⟨a, .data ((b :: bs).take (take a (b :: bs).length mf))
                (last && ((b :: bs).drop (take a (b :: bs).length mf)).isEmpty)⟩ : Sent)] := by
              apply noEnd_cons _ noEnd_nil
              simp only [Frame.endStream, Bool.and_eq_false_iff]
              right
              cases h : (b :: bs).drop (take a (b :: bs).length mf) with
              | nil => exact absurd h he
              | cons _ _ => rfl
            exact endsOnce_prepend h1 this

/-! ### the head of the outer loop -/

theorem finish_send (hasCL : Bool) (chunk : Bytes) (remain : Int) (e : RErr) (r : Reader)
    (c : Bytes) (s : Bool) (remain' : Int) (r' : Reader)
    (h : finish hasCL chunk remain e r = .send c s remain' r') :
    c = chunk ∧ s = (e == .eof) ∧ remain' = remain ∧ r' = r ∧ (hasCL = true → 0 ≤ remain) := by
  unfold finish at h
  split at h
  · exact absurd h (by simp)
  next h1 =>
    split at h
    · exact absurd h (by simp)
    · simp only [Step.send.injEq] at h
      obtain ⟨rfl, rfl, rfl, rfl⟩ := h
      refine ⟨rfl, rfl, rfl, rfl, ?_⟩
      intro hc
      simp only [hc, Bool.true_and, decide_eq_true_eq] at h1
      omega

theorem finish_stop (hasCL : Bool) (chunk : Bytes) (remain : Int) (e : RErr) (r : Reader) (o : Outcome)
    (h : finish hasCL chunk remain e r = .stop o) : o ≠ .done := by
  unfold finish at h
  split at h
  · simp only [Step.stop.injEq] at h; rw [← h]; simp
  · split at h
    · simp only [Step.stop.injEq] at h; rw [← h]; simp
    · exact absurd h (by simp)

theorem readStep_stop (cfg : Cfg) (remain : Int) (r : Reader) (o : Outcome)
    (h : readStep cfg remain r = .stop o) : o ≠ .done := by
  unfold readStep at h
  simp only at h
  split at h
  · split at h
    · exact finish_stop _ _ _ _ _ _ h
    · exact finish_stop _ _ _ _ _ _ h
  · exact finish_stop _ _ _ _ _ _ h

/-- what a pass through the head of the loop that ends in `send` has done with the reader and
with `remainLen`. -/
theorem readStep_send (cfg : Cfg) (remain : Int) (r : Reader) (chunk : Bytes) (sawEOF : Bool)
    (remain' : Int) (r' : Reader) (h : readStep cfg remain r = .send chunk sawEOF remain' r') :
    chunk ++ r'.data = r.data ∧ r'.ending = r.ending ∧ (sawEOF = true → r'.data = []) ∧
    (cfg.cl.isSome → remain' = remain - chunk.length ∧ 0 ≤ remain') ∧
    r'.sizes.length + r'.data.length ≤ r.sizes.length + r.data.length ∧
    (1 ≤ cfg.buf → r.data ≠ [] → r'.sizes.length + r'.data.length < r.sizes.length + r.data.length) := by
  unfold readStep at h
  have hd := read_data r cfg.buf
  have he := read_ending r cfg.buf
  have heof := read_eof r cfg.buf
  have hm := read_measure_le r cfg.buf
  have hm' := read_measure r cfg.buf
  generalize hr : r.read cfg.buf = x at *
  obtain ⟨chunk0, e, r1⟩ := x
  simp only at hd he heof hm hm' h
  have hd1 := read_data r1 1
  have he1 := read_ending r1 1
  have heof1 := read_eof r1 1
  have hnil1 := read_nil r1 1
  have hm1 := read_measure_le r1 1
  generalize hr1 : r1.read 1 = y at *
  obtain ⟨c1, e1, r2⟩ := y
  simp only at hd1 he1 heof1 hnil1 hm1 h
  split at h
  next hcl =>
    split at h
    next hp =>
      -- the double-check read happened
      obtain ⟨rfl, rfl, rfl, rfl, hge⟩ := finish_send _ _ _ _ _ _ _ _ _ h
      have hge := hge rfl
      simp only [Bool.and_eq_true, beq_iff_eq] at hp
      have hc1 : c1 = [] := by
        cases c1 with
        | nil => rfl
        | cons x xs =>
          exfalso
          simp only [List.length_cons] at hge
          omega
      have hdata : r'.data = r1.data := hnil1 hc1
      refine ⟨by rw [hdata]; exact hd, by rw [he1]; exact he, ?_, ?_, ?_, ?_⟩
      · intro hs
        apply heof1
        simpa using hs
      · intro _
        simp [hc1]
        omega
      · omega
      · intro hb hne
        have := hm' hb hne
        omega
    next hp =>
      obtain ⟨rfl, rfl, rfl, rfl, hge⟩ := finish_send _ _ _ _ _ _ _ _ _ h
      refine ⟨hd, he, ?_, ?_, hm, hm'⟩
      · intro hs
        apply heof
        simpa using hs
      · intro _
        exact ⟨rfl, hge rfl⟩
  next hcl =>
    obtain ⟨rfl, rfl, rfl, rfl, _⟩ := finish_send _ _ _ _ _ _ _ _ _ h
    refine ⟨hd, he, ?_, ?_, hm, hm'⟩
    · intro hs
      apply heof
      simpa using hs
    · intro h'
      exact absurd h' hcl

/-! ### the outer loop -/

/-- all safety facts of `loop` at once (any fuel, any schedule, any reader). -/
theorem loop_spec (cfg : Cfg) :
    ∀ (fuel : Nat) (remain : Int) (r : Reader) (av : List Nat),
      (∃ tail, payloads (frames (loop cfg fuel remain r av).1) ++ tail = r.data ∧
        ((loop cfg fuel remain r av).2 = .done → tail = [])) ∧
      (∀ s ∈ (loop cfg fuel remain r av).1, Within cfg.maxFrame s) ∧
      ((loop cfg fuel remain r av).2 = .done → EndsOnce (loop cfg fuel remain r av).1) ∧
      ((loop cfg fuel remain r av).2 ≠ .done → NoEnd (loop cfg fuel remain r av).1) ∧
      (cfg.cl.isSome → (loop cfg fuel remain r av).2 = .done → (r.data.length : Int) ≤ remain) := by
  intro fuel
  induction fuel with
  | zero =>
    intro remain r av
    simp only [loop]
    exact ⟨⟨r.data, by simp [payloads, frames], by simp⟩, by simp, by simp, fun _ => noEnd_nil, by simp⟩
  | succ fuel ih =>
    intro remain r av
    simp only [loop]
    cases hstep : readStep cfg remain r with
    | stop o =>
      simp only
      have hno : o ≠ .done := readStep_stop cfg remain r o hstep
      exact ⟨⟨r.data, by simp [payloads, frames], fun h => absurd h hno⟩, by simp,
        fun h => absurd h hno, fun _ => noEnd_nil, fun _ h => absurd h hno⟩
    | send chunk sawEOF remain' r' =>
      simp only
      obtain ⟨hdata, _, heofd, hcl, _, _⟩ := readStep_send cfg remain r chunk sawEOF remain' r' hstep
      obtain ⟨⟨t1, ht1, ht1d⟩, hw1, hb1, hnl1, he1⟩ :=
        sendChunk_spec cfg.maxFrame (sawEOF && !cfg.hasTrailers) av chunk
      generalize hsc : sendChunk cfg.maxFrame (sawEOF && !cfg.hasTrailers) chunk av = res at *
      obtain ⟨fs, ro⟩ := res
      simp only at ht1 ht1d hw1 hb1 hnl1 he1
      cases ro with
      | none =>
        simp only
        refine ⟨⟨t1 ++ r'.data, ?_, by simp⟩, fun s hs => (hw1 s hs).1, by simp, fun _ => hb1 rfl, by simp⟩
        rw [← List.append_assoc, ht1, hdata]
      | some av' =>
        simp only
        have ht1' : t1 = [] := ht1d (by simp)
        subst ht1'
        simp only [List.append_nil] at ht1
        by_cases hsaw : sawEOF = true
        · simp only [hsaw, if_true, Bool.true_and]
          have hr'd : r'.data = [] := heofd hsaw
          have hchunk : chunk = r.data := by rw [← hdata, hr'd]; simp
          have hlen : cfg.cl.isSome → (r.data.length : Int) ≤ remain := by
            intro h
            obtain ⟨h1, h2⟩ := hcl h
            rw [← hchunk]; omega
          split
          next hlast =>
            simp only [Bool.and_eq_true, Bool.not_eq_true'] at hlast
            refine ⟨⟨[], by simp [ht1, hchunk], by simp⟩, fun s hs => (hw1 s hs).1, ?_, by simp, fun h _ => hlen h⟩
            intro _
            apply he1 (by simp)
            · simp [hsaw, hlast.1]
            · intro hc; simp [hc] at hlast
          next hlast =>
            have hno : NoEnd fs := by
              by_cases htr : cfg.hasTrailers = true
              · apply hnl1; simp [htr]
              · have hce : chunk = [] := by
                  simp only [Bool.not_eq_true] at htr
                  simp only [htr, Bool.not_false, Bool.true_and, Bool.not_eq_true', List.isEmpty_eq_false_iff,
                    ne_eq, Decidable.not_not] at hlast
                  exact hlast
                subst hce
                rw [sendChunk_nil] at hsc
                simp only [Prod.mk.injEq] at hsc
                rw [← hsc.1]; exact noEnd_nil
            refine ⟨⟨[], ?_, by simp⟩, ?_, ?_, by simp, fun h _ => hlen h⟩
            · simp only [frames_append, payloads_append, ht1, List.append_nil, hchunk]
              unfold closing
              split <;> simp [frames, payloads, Frame.payload]
            · intro s hs
              rcases List.mem_append.mp hs with h | h
              · exact (hw1 s h).1
              · simp only [List.mem_singleton] at h
                subst h
                unfold closing Within
                split <;> simp [Frame.payload]
            · intro _
              refine ⟨fs, closing cfg, rfl, ?_, hno⟩
              unfold closing
              split <;> simp [Frame.endStream]
        · have hsaw' : sawEOF = false := by simpa using hsaw
          simp only [hsaw', Bool.false_eq_true, if_false]
          obtain ⟨⟨t2, ht2, ht2d⟩, hw2, hd2, hn2, hc2⟩ := ih remain' r' av'
          generalize hl : loop cfg fuel remain' r' av' = res2 at *
          obtain ⟨fs', o⟩ := res2
          simp only at ht2 ht2d hw2 hd2 hn2 hc2 ⊢
          have hnofs : NoEnd fs := hnl1 (by simp [hsaw'])
          refine ⟨⟨t2, ?_, ht2d⟩, ?_, ?_, ?_, ?_⟩
          · rw [frames_append, payloads_append, List.append_assoc, ht2, ht1, hdata]
          · intro s hs
            rcases List.mem_append.mp hs with h | h
            · exact (hw1 s h).1
            · exact hw2 s h
          · intro ho
            exact endsOnce_prepend hnofs (hd2 ho)
          · intro ho
            exact noEnd_append hnofs (hn2 ho)
          · intro h ho
            obtain ⟨h1, h2⟩ := hcl h
            have := hc2 h ho
            rw [← hdata, List.length_append]
            omega

/-! ### the origin -/

theorem originRead_noEnd (cl : Option Nat) :
    ∀ (init : List Sent) (s : Sent) (acc : Bytes), NoEnd init → s.frame.endStream = true →
      originRead cl (frames (init ++ [s])) acc =
        if clMatches cl (acc ++ payloads (frames (init ++ [s]))).length
        then some (acc ++ payloads (frames (init ++ [s]))) else none := by
  intro init
  induction init with
  | nil =>
    intro s acc _ hs
    simp only [List.nil_append, frames, List.map_cons, List.map_nil, originRead, hs, if_true, payloads,
      List.flatten_cons, List.flatten_nil, List.append_nil, List.isEmpty_nil, Bool.true_and]
  | cons x xs ih =>
    intro s acc hno hs
    have hx : x.frame.endStream = false := hno x (by simp)
    have hxs : NoEnd xs := fun y hy => hno y (by simp [hy])
    have := ih s (acc ++ x.frame.payload) hxs hs
    simp only [List.cons_append, frames, List.map_cons, originRead, hx, Bool.false_eq_true, if_false]
    simp only [frames] at this
    rw [this]
    simp [payloads, List.append_assoc]

/-! ### progress -/

/-- with a positive window at every look and at least as many looks as bytes, a chunk is written
completely; what is left of the schedule is still long enough for the rest of the body -/
theorem sendChunk_progress (mf : Nat) (hmf : 1 ≤ mf) (last : Bool) :
    ∀ (av : List Nat) (rem : Bytes), (∀ a ∈ av, 0 < a) → rem.length ≤ av.length →
      ∃ av', (sendChunk mf last rem av).2 = some av' ∧ (∀ a ∈ av', 0 < a) ∧
        av.length ≤ av'.length + rem.length := by
  intro av
  induction av with
  | nil =>
    intro rem _ hlen
    cases rem with
    | nil => exact ⟨[], by simp [sendChunk], by simp, by simp⟩
    | cons b bs => simp at hlen
  | cons a av ih =>
    intro rem hpos hlen
    cases rem with
    | nil => exact ⟨a :: av, by simp [sendChunk], hpos, by simp⟩
    | cons b bs =>
      simp only [sendChunk]
      have ha : 0 < a := hpos a (by simp)
      have ht := take_eq a (b :: bs).length mf
      generalize hn : take a (b :: bs).length mf = n at *
      simp only [List.length_cons] at ht hlen
      have hne : n ≠ 0 := by omega
      simp only [hne, if_false]
      have hlen' : ((b :: bs).drop n).length ≤ av.length := by
        simp only [List.length_drop, List.length_cons]
        omega
      obtain ⟨av', h1, h2, h3⟩ := ih ((b :: bs).drop n)
        (fun x hx => hpos x (by simp [hx])) hlen'
      refine ⟨av', ?_, h2, ?_⟩
      · generalize sendChunk mf last ((b :: bs).drop n) av = res at *
        obtain ⟨fs, r⟩ := res
        exact h1
      · simp only [List.length_drop, List.length_cons] at h3 ⊢
        omega

/-- a reader that ends with `io.EOF` never reports another error -/
theorem read_no_fail (r : Reader) (buf : Nat) (hend : r.ending = .eof ∨ r.ending = .eofWithLast) :
    (r.read buf).2.1 ≠ .fail := by
  unfold Reader.read
  split
  · rcases hend with h | h <;> simp [h]
  · simp only
    split
    · rcases hend with h | h <;> simp [h]
    · simp

theorem read_at_end (r : Reader) (buf : Nat) (hd : r.data = [])
    (hend : r.ending = .eof ∨ r.ending = .eofWithLast) : r.read buf = ([], .eof, r) := by
  unfold Reader.read
  simp only [hd, List.isEmpty_nil, if_true]
  rcases hend with h | h <;> simp [h]

theorem finish_ok (hasCL : Bool) (chunk : Bytes) (remain : Int) (e : RErr) (r : Reader)
    (h1 : 0 ≤ remain) (h2 : e ≠ .fail) : finish hasCL chunk remain e r = .send chunk (e == .eof) remain r := by
  unfold finish
  have : (hasCL && decide (remain < 0)) = false := by
    simp only [Bool.and_eq_false_iff, decide_eq_false_iff_not]
    right; omega
  simp [this, h2]

/-- with a truthful content length (or none) and a reader that ends with `io.EOF` the head of the
loop never fails, and at the end of the data it sees the EOF -/
theorem readStep_ok (cfg : Cfg) (remain : Int) (r : Reader)
    (hend : r.ending = .eof ∨ r.ending = .eofWithLast)
    (hcl : cfg.cl.isSome → remain = r.data.length) :
    ∃ chunk sawEOF remain' r', readStep cfg remain r = .send chunk sawEOF remain' r' ∧
      (r.data = [] → sawEOF = true) := by
  unfold readStep
  have hd := read_data r cfg.buf
  have he := read_ending r cfg.buf
  have hnf := read_no_fail r cfg.buf hend
  have hat := read_at_end r cfg.buf
  generalize hr : r.read cfg.buf = x at *
  obtain ⟨chunk0, e, r1⟩ := x
  simp only at hd he hnf hat ⊢
  have hend1 : r1.ending = .eof ∨ r1.ending = .eofWithLast := by rw [he]; exact hend
  have hnf1 := read_no_fail r1 1 hend1
  have hat1 := read_at_end r1 1
  generalize hr1 : r1.read 1 = y at *
  obtain ⟨c1, e1, r2⟩ := y
  simp only at hnf1 hat1 ⊢
  have hlen : r.data.length = chunk0.length + r1.data.length := by rw [← hd]; simp
  split
  next hc =>
    have hrem := hcl hc
    split
    next hp =>
      simp only [Bool.and_eq_true, beq_iff_eq] at hp
      have hr1d : r1.data = [] := by
        apply List.eq_nil_of_length_eq_zero
        omega
      have := hat1 hr1d hend1
      simp only [Prod.mk.injEq] at this
      obtain ⟨rfl, rfl, rfl⟩ := this
      rw [finish_ok _ _ _ _ _ (by simp; omega) (by simp)]
      exact ⟨_, _, _, _, rfl, fun _ => rfl⟩
    next hp =>
      rw [finish_ok _ _ _ _ _ (by omega) hnf]
      refine ⟨_, _, _, _, rfl, ?_⟩
      intro hd0
      have := hat hd0 hend
      simp only [Prod.mk.injEq] at this
      simp [this.2.1]
  next hc =>
    by_cases h0 : 0 ≤ remain
    · rw [finish_ok _ _ _ _ _ h0 hnf]
      refine ⟨_, _, _, _, rfl, ?_⟩
      intro hd0
      have := hat hd0 hend
      simp only [Prod.mk.injEq] at this
      simp [this.2.1]
    · unfold finish
      simp only [Bool.false_and, Bool.false_eq_true, if_false, hnf]
      refine ⟨_, _, _, _, rfl, ?_⟩
      intro hd0
      have := hat hd0 hend
      simp only [Prod.mk.injEq] at this
      simp [this.2.1]

/-- **progress**: a reader that ends with `io.EOF`, a truthful content length (or none), a window
that is positive at every look and looked at at least once per body byte: the body is written to
the end. -/
theorem loop_progress (cfg : Cfg) (hmf : 1 ≤ cfg.maxFrame) (hb : 1 ≤ cfg.buf) :
    ∀ (fuel : Nat) (remain : Int) (r : Reader) (av : List Nat),
      r.sizes.length + r.data.length + 2 ≤ fuel →
      (r.ending = .eof ∨ r.ending = .eofWithLast) →
      (cfg.cl.isSome → remain = r.data.length) →
      (∀ a ∈ av, 0 < a) → r.data.length ≤ av.length →
      (loop cfg fuel remain r av).2 = .done := by
  intro fuel
  induction fuel with
  | zero => intro remain r av h; omega
  | succ fuel ih =>
    intro remain r av hfuel hend hcl hpos hlen
    obtain ⟨chunk, sawEOF, remain', r', hstep, hatend⟩ := readStep_ok cfg remain r hend hcl
    obtain ⟨hdata, hend', _, hcl', _, hmeas⟩ := readStep_send cfg remain r chunk sawEOF remain' r' hstep
    have hdl : r.data.length = chunk.length + r'.data.length := by rw [← hdata]; simp
    obtain ⟨av', hsome, hpos', hav'⟩ := sendChunk_progress cfg.maxFrame hmf (sawEOF && !cfg.hasTrailers) av chunk hpos (by omega)
    simp only [loop, hstep]
    generalize hsc : sendChunk cfg.maxFrame (sawEOF && !cfg.hasTrailers) chunk av = res at *
    obtain ⟨fs, ro⟩ := res
    simp only at hsome
    subst hsome
    simp only
    by_cases hsaw : sawEOF = true
    · simp only [hsaw, if_true]
      split <;> rfl
    · simp only [hsaw, Bool.false_eq_true, if_false]
      have hne : r.data ≠ [] := fun h => hsaw (hatend h)
      have hm := hmeas hb hne
      have := ih remain' r' av' (by omega) (by rw [hend']; exact hend)
        (fun h => by have := (hcl' h).1; have := hcl h; omega) hpos' (by omega)
      generalize loop cfg fuel remain' r' av' = res2 at *
      obtain ⟨fs', o⟩ := res2
      exact this

/-! ### the looks of the schedule are used in order -/

theorem dataAvails_append (a b : List Sent) : dataAvails (a ++ b) = dataAvails a ++ dataAvails b := by
  simp [dataAvails]

/-- the frames `sendChunk` cuts use the looks of the schedule in order, each at most once; what it
returns is the unused rest -/
theorem sendChunk_avails (mf : Nat) (last : Bool) :
    ∀ (av : List Nat) (rem : Bytes),
      (∀ av', (sendChunk mf last rem av).2 = some av' →
        ∃ used, av = used ++ av' ∧ (dataAvails (sendChunk mf last rem av).1).Sublist used) ∧
      ((sendChunk mf last rem av).2 = none → (dataAvails (sendChunk mf last rem av).1).Sublist av) := by
  intro av
  induction av with
  | nil =>
    intro rem
    cases rem with
    | nil => simp [sendChunk, dataAvails]
    | cons b bs => simp [sendChunk, dataAvails]
  | cons a av ih =>
    intro rem
    cases rem with
    | nil =>
      simp only [sendChunk]
      refine ⟨?_, by simp⟩
      intro av' h
      simp only [Option.some.injEq] at h
      exact ⟨[], by simp [h], by simp [dataAvails]⟩
    | cons b bs =>
      simp only [sendChunk]
      split
      next hn =>
        obtain ⟨h1, h2⟩ := ih (b :: bs)
        refine ⟨?_, ?_⟩
        · intro av' h
          obtain ⟨used, hu, hs⟩ := h1 av' h
          exact ⟨a :: used, by simp [hu], hs.cons a⟩
        · intro h
          exact (h2 h).cons a
      next hn =>
        obtain ⟨h1, h2⟩ := ih ((b :: bs).drop (take a (b :: bs).length mf))
        have hpos : 0 < take a (b :: bs).length mf := Nat.pos_of_ne_zero hn
        have hle := take_eq a (b :: bs).length mf
        generalize sendChunk mf last ((b :: bs).drop (take a (b :: bs).length mf)) av = res at *
        obtain ⟨fs, r⟩ := res
        simp only at h1 h2 ⊢
        generalize hn' : take a (b :: bs).length mf = n at *
        have hne : ((b :: bs).take n).isEmpty = false := by
          cases n with
          | zero => omega
          | succ k => rfl
        have hd : dataAvails (⟨a, .data ((b :: bs).take n)
            (last && ((b :: bs).drop n).isEmpty)⟩ :: fs) = a :: dataAvails fs := by
          unfold dataAvails
          rw [List.filter_cons_of_pos (by simpa [Frame.payload] using hne)]
          rfl
        rw [hd]
        refine ⟨?_, ?_⟩
        · intro av' h
          obtain ⟨used, hu, hs⟩ := h1 av' h
          exact ⟨a :: used, by simp [hu], hs.cons_cons a⟩
        · intro h
          exact (h2 h).cons_cons a

theorem closing_avails (cfg : Cfg) : dataAvails [closing cfg] = [] := by
  unfold closing dataAvails
  split <;> simp [Frame.payload]

theorem loop_avails (cfg : Cfg) :
    ∀ (fuel : Nat) (remain : Int) (r : Reader) (av : List Nat),
      (dataAvails (loop cfg fuel remain r av).1).Sublist av := by
  intro fuel
  induction fuel with
  | zero => intro remain r av; simp [loop, dataAvails]
  | succ fuel ih =>
    intro remain r av
    simp only [loop]
    cases hstep : readStep cfg remain r with
    | stop o => simp [dataAvails]
    | send chunk sawEOF remain' r' =>
      simp only
      obtain ⟨h1, h2⟩ := sendChunk_avails cfg.maxFrame (sawEOF && !cfg.hasTrailers) av chunk
      generalize sendChunk cfg.maxFrame (sawEOF && !cfg.hasTrailers) chunk av = res at *
      obtain ⟨fs, ro⟩ := res
      cases ro with
      | none => exact h2 rfl
      | some av' =>
        obtain ⟨used, hu, hs⟩ := h1 av' rfl
        simp only
        have hsub : (dataAvails fs).Sublist av := by
          rw [hu]; exact hs.trans (List.sublist_append_left used av')
        split
        · split
          · exact hsub
          · rw [dataAvails_append, closing_avails, List.append_nil]; exact hsub
        · have := ih remain' r' av'
          generalize loop cfg fuel remain' r' av' = res2 at *
          obtain ⟨fs', o⟩ := res2
          simp only at this ⊢
          rw [dataAvails_append, hu]
          exact List.Sublist.append hs this

end Req.Lemmas.C01Body
