import Req.Lemmas.C09PoolLru
/-! No connection is lost track of (C09): every live connection is idle-listed, in transit, or
owned by a request. Together with `Excl` this is "in exactly one place". -/
namespace Req.Lemmas.C09PoolLeak
open Req.Pool.H1Pool Req.Lemmas.C09Pool Req.Lemmas.C09PoolExcl Req.Lemmas.C09PoolLru

def Placed (s : St) (c : Conn) : Prop :=
  (∃ k, c ∈ s.idle k) ∨ c ∈ s.transit ∨ ∃ w, (s.wst w).holds c = true

def Live (s : St) (c : Conn) : Prop := s.ckey c ≠ none ∧ s.closed c = false

def NoLeak (s : St) : Prop := ∀ c, Live s c → Placed s c
def NoLeakExcept (s : St) (x : Conn) : Prop := ∀ c, c ≠ x → Live s c → Placed s c

theorem NoLeak.except {s : St} (h : NoLeak s) (x : Conn) : NoLeakExcept s x := fun c _ hl => h c hl

theorem NoLeak_of_except {s : St} {x : Conn} (h : NoLeakExcept s x) (hx : Live s x → Placed s x) : NoLeak s := by
  intro c hl
  by_cases hc : c = x
  · subst hc; exact hx hl
  · exact h c hc hl

/-- Generic transfer: places only grow, the live set only shrinks. -/
theorem NoLeakExcept_mono {s s' : St} {x : Conn}
    (hplace : ∀ c, c ≠ x → Placed s c → Placed s' c)
    (hlive : ∀ c, c ≠ x → Live s' c → Live s c) (h : NoLeakExcept s x) : NoLeakExcept s' x :=
  fun c hc hl => hplace c hc (h c hc (hlive c hc hl))

theorem NoLeak_mono {s s' : St} (hplace : ∀ c, Placed s c → Placed s' c)
    (hlive : ∀ c, Live s' c → Live s c) (h : NoLeak s) : NoLeak s' :=
  fun c hl => hplace c (h c (hlive c hl))

theorem Placed_of_frame {s s' : St} (hi : s'.idle = s.idle) (ht : s'.transit = s.transit)
    (hw : s'.wst = s.wst) (c : Conn) (h : Placed s c) : Placed s' c := by
  unfold Placed; rw [hi, ht, hw]; exact h

theorem Live_of_frame {s s' : St} (hk : s'.ckey = s.ckey) (hc : s'.closed = s.closed) (c : Conn)
    (h : Live s' c) : Live s c := by
  unfold Live at *; rw [hk, hc] at h; exact h

theorem NoLeak_of_frame {s s' : St} (hi : s'.idle = s.idle) (ht : s'.transit = s.transit)
    (hw : s'.wst = s.wst) (hk : s'.ckey = s.ckey) (hc : s'.closed = s.closed) (h : NoLeak s) : NoLeak s' :=
  NoLeak_mono (Placed_of_frame hi ht hw) (Live_of_frame hk hc) h

theorem NoLeakExcept_of_frame {s s' : St} {x : Conn} (hi : s'.idle = s.idle) (ht : s'.transit = s.transit)
    (hw : s'.wst = s.wst) (hk : s'.ckey = s.ckey) (hc : s'.closed = s.closed) (h : NoLeakExcept s x) :
    NoLeakExcept s' x :=
  NoLeakExcept_mono (fun c _ => Placed_of_frame hi ht hw c) (fun c _ => Live_of_frame hk hc c) h

/-! closeConn -/

theorem closeConn_live (cfg : Cfg) (s : St) (c x : Conn) (h : Live (closeConn cfg s c) x) : Live s x ∧ (x = c → False) := by
  obtain ⟨h1, h2⟩ := h
  rw [closeConn_ckey] at h1
  have hnot : ¬ ((closeConn cfg s c).closed x = true) := by rw [h2]; simp
  rw [closeConn_closed] at hnot
  refine ⟨⟨h1, ?_⟩, ?_⟩
  · cases hx : s.closed x with
    | false => rfl
    | true => exact absurd (Or.inl hx) hnot
  · intro hxc; subst hxc; exact hnot (Or.inr ⟨rfl, h1⟩)

theorem NoLeak_closeConn (cfg : Cfg) (s : St) (c : Conn) (h : NoLeakExcept s c) : NoLeak (closeConn cfg s c) := by
  intro x hl
  obtain ⟨hl', hne⟩ := closeConn_live cfg s c x hl
  have hxc : x ≠ c := fun e => hne e
  exact Placed_of_frame (by simp) (by simp) (by simp) x (h x hxc hl')

theorem NoLeakExcept_closeConn (cfg : Cfg) (s : St) (c y : Conn) (h : NoLeakExcept s y) :
    NoLeakExcept (closeConn cfg s c) y := by
  intro x hxy hl
  obtain ⟨hl', _⟩ := closeConn_live cfg s c x hl
  exact Placed_of_frame (by simp) (by simp) (by simp) x (h x hxy hl')

theorem NoLeak_decConns (cfg : Cfg) (s : St) (k : Key) (h : NoLeak s) : NoLeak (decConns cfg s k) :=
  NoLeak_of_frame (by simp) (by simp) (by simp) (by simp) (by simp) h

/-! removeIdleLocked -/

theorem Placed_removeIdleLocked (s : St) (c x : Conn) (he : Excl s) (hne : x ≠ c) (h : Placed s x) :
    Placed (removeIdleLocked s c).1 x := by
  rcases h with ⟨k, hk⟩ | h | h
  · exact Or.inl ⟨k, (removeIdleLocked_idle_mem s c he k x).mpr ⟨hk, hne⟩⟩
  · exact Or.inr (Or.inl (by simpa using h))
  · exact Or.inr (Or.inr (by simpa using h))

theorem NoLeakExcept_removeIdleLocked (s : St) (c : Conn) (he : Excl s) (h : NoLeakExcept s c) :
    NoLeakExcept (removeIdleLocked s c).1 c :=
  NoLeakExcept_mono (fun x hx hp => Placed_removeIdleLocked s c x he hx hp)
    (fun x _ hl => Live_of_frame (by simp) (by simp) x hl) h


/-! evictOldest / addIdle -/

theorem NoLeak_evictOldest (cfg : Cfg) (s : St) (he : Excl s) (h : NoLeak s) : NoLeak (evictOldest cfg s) := by
  unfold evictOldest
  split
  · exact h
  · next oldest _ =>
    have hsa : NoLeak { s with lru := s.lru.dropLast } := NoLeak_of_frame (s := s) rfl rfl rfl rfl rfl h
    have hsb : NoLeak (closeConn cfg { s with lru := s.lru.dropLast } oldest) :=
      NoLeak_closeConn cfg _ oldest (hsa.except oldest)
    have heb : Excl (closeConn cfg { s with lru := s.lru.dropLast } oldest) :=
      Excl_closeConn cfg _ oldest (Excl_of_frame (s := s) rfl rfl rfl rfl rfl he)
    have hx := NoLeakExcept_removeIdleLocked _ oldest heb (hsb.except oldest)
    apply NoLeak_of_except hx
    intro hl
    -- oldest is closed (if it exists at all), hence not live
    obtain ⟨h1, h2⟩ := hl
    simp only [removeIdleLocked_ckey, closeConn_ckey] at h1
    simp only [removeIdleLocked_closed] at h2
    have : (closeConn cfg { s with lru := s.lru.dropLast } oldest).closed oldest = true :=
      (closeConn_closed cfg _ oldest oldest).mpr (Or.inr ⟨rfl, h1⟩)
    rw [this] at h2; cases h2

theorem Excl_appendIdle (s : St) (c : Conn) (k : Key) (hf : Free s c) (hk : s.ckey c = some k) (he : Excl s) :
    Excl { s with idle := upd s.idle k (s.idle k ++ [c]), lru := c :: s.lru } := by
  refine ⟨?_, ?_, ?_, ?_, he.transitNodup, he.transitNotHeld, he.heldUnique, he.transitCreated,
    he.heldCreated, he.connsNodup, he.connsCreated⟩
  · intro k'
    simp only [upd]
    split
    · next heq =>
      subst heq
      rw [List.nodup_append]
      refine ⟨he.idleNodup _, by simp, ?_⟩
      intro a ha b hb
      simp at hb; subst hb
      intro hab; subst hab
      exact hf.1 _ ha
    · exact he.idleNodup k'
  · intro k' x hx
    simp only [upd] at hx
    split at hx
    · next heq =>
      subst heq
      rcases List.mem_append.mp hx with hx | hx
      · exact he.idleKey _ x hx
      · simp at hx; subst hx; exact hk
    · exact he.idleKey k' x hx
  · intro k' x hx
    simp only [upd] at hx
    split at hx
    · next heq =>
      subst heq
      rcases List.mem_append.mp hx with hx | hx
      · exact he.idleNotTransit _ x hx
      · simp at hx; subst hx; exact hf.2.1
    · exact he.idleNotTransit k' x hx
  · intro k' x w hx
    simp only [upd] at hx
    split at hx
    · next heq =>
      subst heq
      rcases List.mem_append.mp hx with hx | hx
      · exact he.idleNotHeld _ x w hx
      · simp at hx; subst hx; exact hf.2.2 w
    · exact he.idleNotHeld k' x w hx

theorem NoLeak_addIdle (cfg : Cfg) (s : St) (c : Conn) (k : Key) (hf : Free s c) (hk : s.ckey c = some k)
    (he : Excl s) (h : NoLeakExcept s c) : NoLeak (addIdle cfg s c k) := by
  have h2 : NoLeak { s with idle := upd s.idle k (s.idle k ++ [c]), lru := c :: s.lru } := by
    intro x hl
    by_cases hxc : x = c
    · subst hxc
      exact Or.inl ⟨k, by simp [upd]⟩
    · rcases h x hxc hl with ⟨k', hk'⟩ | hp | hp
      · refine Or.inl ⟨k', ?_⟩
        simp only [upd]
        split
        · next heq => subst heq; exact List.mem_append.mpr (Or.inl hk')
        · exact hk'
      · exact Or.inr (Or.inl hp)
      · exact Or.inr (Or.inr hp)
  unfold addIdle
  simp only
  split
  · exact NoLeak_evictOldest cfg _ (Excl_appendIdle s c k hf hk he) h2
  · exact h2

/-- Changing the state of a want that owns nothing never un-places a connection. -/
theorem Placed_upd_nonholder (s : St) (w : Want) (v : WSt) (hw : ∀ d, (s.wst w).holds d = false) (x : Conn)
    (h : Placed s x) : Placed { s with wst := upd s.wst w v } x := by
  rcases h with h | h | ⟨w', hw'⟩
  · exact Or.inl h
  · exact Or.inr (Or.inl h)
  · refine Or.inr (Or.inr ⟨w', ?_⟩)
    have hne : w' ≠ w := by intro e; subst e; rw [hw x] at hw'; cases hw'
    simp only [upd, hne, if_false]; exact hw'

theorem NoLeak_tryPut (cfg : Cfg) (s : St) (c : Conn) (k : Key) (hf : Free s c) (hk : s.ckey c = some k)
    (he : Excl s) (hl : LruCore s) (h : NoLeakExcept s c) :
    ((tryPut cfg s c k).2 = .ok → NoLeak (tryPut cfg s c k).1) ∧
    ((tryPut cfg s c k).2 ≠ .ok → NoLeakExcept (tryPut cfg s c k).1 c) := by
  unfold tryPut
  split
  · exact ⟨fun e => (by cases e), fun _ => h⟩
  · split
    · exact ⟨fun e => (by cases e), fun _ => h⟩
    · next hncl =>
      have hnc : s.closed c = false := by simpa using hncl
      split
      · next w q heq =>
        have hwait : s.wst w = .waiting := popUntilWaiting_some_waiting s.wst _ w (by rw [heq])
        refine ⟨fun _ => ?_, fun hne => absurd rfl hne⟩
        intro x hlx
        by_cases hxc : x = c
        · subst hxc
          exact Or.inr (Or.inr ⟨w, by simp [upd, WSt.holds]⟩)
        · have hp := h x hxc hlx
          have := Placed_upd_nonholder { s with idleWait := upd s.idleWait k q } w (.gotConn c)
            (by intro d; simp only; rw [hwait]; rfl) x hp
          exact this
      · next q heq =>
        have h1 : NoLeakExcept { s with idleWait := upd s.idleWait k q } c :=
          NoLeakExcept_of_frame (s := s) rfl rfl rfl rfl rfl h
        have he1 : Excl { s with idleWait := upd s.idleWait k q } := Excl_of_frame (s := s) rfl rfl rfl rfl rfl he
        have hf1 : Free { s with idleWait := upd s.idleWait k q } c := hf
        have hnl : c ∉ s.lru := free_not_in_lru s c hf hnc hl
        simp only
        split
        · exact ⟨fun e => (by cases e), fun _ => h1⟩
        · split
          · exact ⟨fun e => (by cases e), fun _ => h1⟩
          · split
            · next hdup =>
              exfalso
              simp only [Bool.or_eq_true, List.contains_iff_mem] at hdup
              rcases hdup with hd | hd
              · exact hf.1 k hd
              · exact hnl hd
            · exact ⟨fun _ => NoLeak_addIdle cfg _ c k hf1 hk he1 h1, fun hne => absurd rfl hne⟩

theorem NoLeak_queueIdle (cfg : Cfg) (s : St) (w : Want) (k : Key) (he : Excl s) (h : NoLeak s) :
    NoLeak (queueIdle cfg s w k).1 := by
  unfold queueIdle
  split
  · exact h
  · simp only
    split
    · next c rest heq =>
      obtain ⟨pre, hpre, hprecl, _⟩ := scanIdle_some _ _ _ _ heq
      have hsplit : ∀ x, x ∈ s.idle k → s.closed x = true ∨ x = c ∨ x ∈ rest := by
        intro x hx
        have : x ∈ (s.idle k).reverse := List.mem_reverse.mpr hx
        rw [hpre] at this
        rcases List.mem_append.mp this with hm | hm
        · exact Or.inl (hprecl x hm)
        · rcases List.mem_cons.mp hm with rfl | hm
          · exact Or.inr (Or.inl rfl)
          · exact Or.inr (Or.inr hm)
      split
      · next hwait =>
        intro x hlx
        have hlx' : Live s x := hlx
        rcases h x hlx' with ⟨k', hk'⟩ | hp | ⟨w', hw'⟩
        · by_cases hkk : k' = k
          · subst hkk
            rcases hsplit x hk' with h1 | h1 | h1
            · rw [hlx'.2] at h1; cases h1
            · subst h1; exact Or.inr (Or.inr ⟨w, by simp [upd, WSt.holds]⟩)
            · exact Or.inl ⟨k', by simp [upd]; exact h1⟩
          · exact Or.inl ⟨k', by simp [upd, hkk]; exact hk'⟩
        · exact Or.inr (Or.inl hp)
        · refine Or.inr (Or.inr ⟨w', ?_⟩)
          have hne : w' ≠ w := by intro e; subst e; rw [hwait] at hw'; cases hw'
          simp only [upd, hne, if_false]; exact hw'
      · intro x hlx
        have hlx' : Live s x := hlx
        rcases h x hlx' with ⟨k', hk'⟩ | hp | hp
        · by_cases hkk : k' = k
          · subst hkk
            rcases hsplit x hk' with h1 | h1 | h1
            · rw [hlx'.2] at h1; cases h1
            · exact Or.inl ⟨k', by simp [upd, h1]⟩
            · exact Or.inl ⟨k', by simp [upd]; exact Or.inl h1⟩
          · exact Or.inl ⟨k', by simp [upd, hkk]; exact hk'⟩
        · exact Or.inr (Or.inl hp)
        · exact Or.inr (Or.inr hp)
    · next r heq =>
      have hall := scanIdle_none _ _ _ heq
      intro x hlx
      have hlx' : Live s x := hlx
      rcases h x hlx' with ⟨k', hk'⟩ | hp | hp
      · by_cases hkk : k' = k
        · subst hkk
          have := hall x (List.mem_reverse.mpr hk')
          rw [hlx'.2] at this; cases this
        · exact Or.inl ⟨k', by simp [upd, hkk]; exact hk'⟩
      · exact Or.inr (Or.inl hp)
      · exact Or.inr (Or.inr hp)

/-! the step lemma -/

theorem Placed_of_holds_eq {s s' : St} (hi : s'.idle = s.idle) (ht : s'.transit = s.transit)
    (hw : ∀ w d, (s'.wst w).holds d = (s.wst w).holds d) (c : Conn) (h : Placed s c) : Placed s' c := by
  rcases h with h | h | ⟨w, hw'⟩
  · exact Or.inl (by rw [hi]; exact h)
  · exact Or.inr (Or.inl (by rw [ht]; exact h))
  · exact Or.inr (Or.inr ⟨w, by rw [hw]; exact hw'⟩)

theorem LruCore_frame {s s' : St} (hi : s'.idle = s.idle) (hl : s'.lru = s.lru) (hc : s'.closed = s.closed)
    (hd : s'.dupPanic = s.dupPanic) (hk : s'.ckey = s.ckey) (h : LruCore s) : LruCore s' :=
  ⟨by rw [hl]; exact h.lruNodup, by rw [hi, hl]; exact h.idleInLru,
   by rw [hl, hi, hc]; exact h.lruIdleOrClosed, by rw [hd]; exact h.noDup,
   by rw [hc, hk]; exact h.closedCreated⟩

theorem queueDial_closed (cfg : Cfg) (s : St) (w : Want) (k : Key) : (queueDial cfg s w k).closed = s.closed := by
  unfold queueDial startDial
  (repeat' split) <;> rfl

/-- After `c` was taken out of `transit`, everything else is still placed. -/
theorem NoLeakExcept_transit_erase (s : St) (c : Conn) (he : Excl s) (h : NoLeak s) :
    NoLeakExcept { s with transit := s.transit.erase c } c := by
  intro x hx hl
  rcases h x hl with hp | hp | hp
  · exact Or.inl hp
  · exact Or.inr (Or.inl ((List.Nodup.mem_erase_iff he.transitNodup).mpr ⟨hx, hp⟩))
  · exact Or.inr (Or.inr hp)

/-- After the owner `w` of `c` lets go, everything else is still placed. -/
theorem NoLeakExcept_release (s : St) (w : Want) (c : Conn) (v : WSt)
    (hc : ∀ d, (s.wst w).holds d = true → d = c) (h : NoLeak s) :
    NoLeakExcept { s with wst := upd s.wst w v } c := by
  intro x hx hl
  rcases h x hl with hp | hp | ⟨w', hw'⟩
  · exact Or.inl hp
  · exact Or.inr (Or.inl hp)
  · refine Or.inr (Or.inr ⟨w', ?_⟩)
    have hne : w' ≠ w := by intro e; subst e; exact hx (hc x hw')
    simp only [upd, hne, if_false]; exact hw'

/-- `c` put into `transit`. -/
theorem NoLeak_toTransit (s : St) (c : Conn) (h : NoLeakExcept s c) : NoLeak { s with transit := c :: s.transit } := by
  intro x hl
  by_cases hx : x = c
  · subst hx; exact Or.inr (Or.inl List.mem_cons_self)
  · rcases h x hx hl with hp | hp | hp
    · exact Or.inl hp
    · exact Or.inr (Or.inl (List.mem_cons_of_mem _ hp))
    · exact Or.inr (Or.inr hp)

theorem NoLeak_put_or_transit (cfg : Cfg) (s : St) (c : Conn) (k : Key) (hf : Free s c)
    (hk : s.ckey c = some k) (he : Excl s) (hl : LruCore s) (h : NoLeakExcept s c) :
    NoLeak (if (tryPut cfg s c k).2 = .ok then (tryPut cfg s c k).1
            else { (tryPut cfg s c k).1 with transit := c :: (tryPut cfg s c k).1.transit }) := by
  obtain ⟨h1, h2⟩ := NoLeak_tryPut cfg s c k hf hk he hl h
  split
  · next e => exact h1 e
  · next e => exact NoLeak_toTransit _ c (h2 e)

theorem NoLeak_step (cfg : Cfg) (s : St) (op : Op) (he : Excl s) (hl : LruCore s) (h : NoLeak s) :
    NoLeak (step cfg s op).1 := by
  cases op with
  | newWant w k =>
    simp only [step]; split
    · exact h
    · exact NoLeak_of_frame (s := s) rfl rfl rfl rfl rfl h
  | queueIdle w => simp only [step]; split; exact h; exact NoLeak_queueIdle cfg s w _ he h
  | queueDial w =>
    simp only [step]; split; exact h
    split; exact h
    next k _ _ =>
    obtain ⟨a, b, c, d, _⟩ := queueDial_frame cfg s w k
    exact NoLeak_of_frame a b c d (queueDial_closed cfg s w k) h
  | dialBegin w =>
    simp only [step]; split; exact h
    split; exact h
    split; exact h
    exact NoLeak_decConns cfg _ _ (NoLeak_of_frame (s := s) rfl rfl rfl rfl rfl h)
  | dialOk w c =>
    simp only [step]; split
    · next k hwk hck =>
      split; exact h
      -- every other connection keeps its place; `c` is delivered or goes into transit
      have others : ∀ (s' : St), (∀ x, x ≠ c → s'.ckey x = s.ckey x) → (∀ x, x ≠ c → s'.closed x = s.closed x) →
          (∀ x, Placed s x → Placed s' x) → Placed s' c → NoLeak s' := by
        intro s' hk' hc' hp hpc x hlx
        by_cases hx : x = c
        · subst hx; exact hpc
        · exact hp x (h x ⟨by rw [← hk' x hx]; exact hlx.1, by rw [← hc' x hx]; exact hlx.2⟩)
      split
      · next hwait =>
        apply others
        · intro x hx; simp [upd, hx]
        · intro x hx; simp [upd, hx]
        · intro x hp
          exact Placed_upd_nonholder
            { s with ckey := upd s.ckey c (some k), closed := upd s.closed c false,
                     conns := c :: s.conns, dialing := s.dialing.erase w } w (.gotConn c)
            (by intro d; simp only; rw [hwait]; rfl) x hp
        · exact Or.inr (Or.inr ⟨w, by simp [upd, WSt.holds]⟩)
      · apply others
        · intro x hx; simp [upd, hx]
        · intro x hx; simp [upd, hx]
        · intro x hp
          rcases hp with hp | hp | hp
          · exact Or.inl hp
          · exact Or.inr (Or.inl (List.mem_cons_of_mem _ hp))
          · exact Or.inr (Or.inr hp)
        · exact Or.inr (Or.inl List.mem_cons_self)
    · exact h
  | dialFail w =>
    simp only [step]; split; exact h
    split; exact h
    simp only
    split
    · next hwait =>
      apply NoLeak_decConns
      intro x hlx
      exact Placed_upd_nonholder { s with dialing := s.dialing.erase w } w .gotErr
        (by intro d; simp only; rw [hwait]; rfl) x (h x hlx)
    · apply NoLeak_decConns
      exact NoLeak_of_frame (s := s) rfl rfl rfl rfl rfl h
  | dialEnd w =>
    simp only [step]; split
    · exact h
    · exact NoLeak_of_frame (s := s) rfl rfl rfl rfl rfl h
  | recv w =>
    simp only [step]; split
    · next c hst =>
      intro x hlx
      apply Placed_of_holds_eq (s := s) _ _ _ x (h x hlx)
      · rfl
      · rfl
      intro w' d
      simp only [upd]
      split
      · next e => subst e; rw [hst]; rfl
      · rfl
    · next hst =>
      intro x hlx
      apply Placed_of_holds_eq (s := s) _ _ _ x (h x hlx)
      · rfl
      · rfl
      intro w' d
      simp only [upd]
      split
      · next e => subst e; rw [hst]; rfl
      · rfl
    · exact h
  | cancel w =>
    simp only [step]; split; exact h
    split
    · next hst =>
      intro x hlx
      apply Placed_of_holds_eq (s := s) _ _ _ x (h x hlx)
      · rfl
      · rfl
      intro w' d
      simp only [upd]
      split
      · next e => subst e; rw [hst]; rfl
      · rfl
    · next c hst =>
      have h1 := NoLeakExcept_release s w c .canceled
        (by intro d hd; rw [hst] at hd; exact ((holds_gotConn c d).mp hd).symm) h
      exact NoLeak_toTransit _ c h1
    · next hst =>
      intro x hlx
      apply Placed_of_holds_eq (s := s) _ _ _ x (h x hlx)
      · rfl
      · rfl
      intro w' d
      simp only [upd]
      split
      · next e => subst e; rw [hst]; rfl
      · rfl
    · exact h
  | putT c =>
    simp only [step]; split; exact h
    split; exact h
    next k hk hmem =>
    have hmem' : c ∈ s.transit := by simpa using hmem
    obtain ⟨h1, h2⟩ := NoLeak_tryPut cfg _ c k (Free_after_transit_erase s c hmem' he) hk
      (Excl_transit_erase s c he) (LruCore_frame (s := s) rfl rfl rfl rfl rfl hl)
      (NoLeakExcept_transit_erase s c he h)
    split
    · next e => exact h1 e
    · next e => exact NoLeak_toTransit _ c (h2 e)
  | closeT c =>
    simp only [step]; split; exact h
    exact NoLeak_closeConn cfg _ c (NoLeakExcept_transit_erase s c he h)
  | finishPut w =>
    simp only [step]; split
    · next c hst =>
      split; exact h
      next k hk =>
      have hholds : (s.wst w).holds c = true := by rw [hst]; exact (holds_inUse c c).mpr rfl
      obtain ⟨h1, h2⟩ := NoLeak_tryPut cfg _ c k
        (Free_after_release s w c .finished (fun d => holds_finished d) hholds he) hk
        (Excl_release s w .finished (fun d => holds_finished d) he)
        (LruCore_frame (s := s) rfl rfl rfl rfl rfl hl)
        (NoLeakExcept_release s w c .finished
          (by intro d hd; rw [hst] at hd; exact ((holds_inUse c d).mp hd).symm) h)
      split
      · next e => exact h1 e
      · next e => exact NoLeak_toTransit _ c (h2 e)
    · exact h
  | finishClose w =>
    simp only [step]; split
    · next c hst =>
      exact NoLeak_closeConn cfg _ c (NoLeakExcept_release s w c .finished
        (by intro d hd; rw [hst] at hd; exact ((holds_inUse c d).mp hd).symm) h)
    · exact h
  | serverCloseIdle c =>
    simp only [step]; split; exact h
    split
    · exact NoLeak_closeConn cfg s c (h.except c)
    · exact h
  | removeIdle c =>
    simp only [step]; split; exact h
    split
    · next hcl =>
      apply NoLeak_of_except (NoLeakExcept_removeIdleLocked s c he (h.except c))
      intro hlx
      have := hlx.2
      simp only [removeIdleLocked_closed] at this
      rw [hcl] at this; cases this
    · exact h
  | idleTimeout c =>
    simp only [step]; split; exact h
    exact NoLeak_closeConn cfg _ c (NoLeakExcept_removeIdleLocked s c he (h.except c))
  | closeIdleConnections =>
    simp only [step]
    intro x hlx
    rcases h x hlx with ⟨k, hk⟩ | hp | hp
    · exact Or.inr (Or.inl (List.mem_append.mpr (Or.inl ((listedIdle_mem s x he).mpr ⟨k, hk⟩))))
    · exact Or.inr (Or.inl (List.mem_append.mpr (Or.inr hp)))
    · exact Or.inr (Or.inr hp)

theorem NoLeak_init : NoLeak {} := by
  intro c hl; exact absurd rfl hl.1

theorem NoLeak_run (cfg : Cfg) (s : St) (ops : List Op) (he : Excl s) (hl : LruAll cfg s) (h : NoLeak s) :
    NoLeak (run cfg s ops) := by
  induction ops generalizing s with
  | nil => exact h
  | cons op ops ih =>
    exact ih _ (Excl_step cfg s op he) (LruAll_step cfg s op he hl) (NoLeak_step cfg s op he hl.1 h)

end Req.Lemmas.C09PoolLeak
