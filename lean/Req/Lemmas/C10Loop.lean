import Req.Client.Retry
/-! Helper lemmas about one pass of the retry loop (`Req.Retry.iteration`), repaired variant. -/
namespace Req.Lemmas.C10Loop
open Req.Retry

variable {σ W : Type}

/-! ### the pieces of one iteration -/

theorem runAfter_stop (v : Variant) (o : Obs) (ra : Nat) (fs : List (Obs → Bool)) (i : Nat) (err : Option Err) :
    (runAfter (W := W) v o ra fs i err).2.2 = fs.any (· o) := by
  induction fs generalizing i err with
  | nil => simp [runAfter]
  | cons f fs ih =>
    unfold runAfter
    by_cases h : f o <;> simp [h, ih]

theorem runAfter_err_repaired (v : Variant) (hv : v.keepErr = true) (o : Obs) (ra : Nat)
    (fs : List (Obs → Bool)) (i : Nat) (err : Option Err)
    (h : fs.any (· o) = false) : (runAfter (W := W) v o ra fs i err).2.1 = err := by
  induction fs generalizing i err with
  | nil => simp [runAfter]
  | cons f fs ih =>
    simp only [List.any_cons, Bool.or_eq_false_iff] at h
    unfold runAfter
    simp [h.1, hv, ih _ _ h.2]

/-- When a response middleware fails, `do` returns that middleware's error. -/
theorem runAfter_err_abort (v : Variant) (o : Obs) (ra : Nat)
    (fs : List (Obs → Bool)) (i : Nat) (err : Option Err)
    (h : fs.any (· o) = true) : ∃ j, (runAfter (W := W) v o ra fs i err).2.1 = some (ra, .after j) := by
  induction fs generalizing i err with
  | nil => simp at h
  | cons f fs ih =>
    unfold runAfter
    by_cases hf : f o
    · exact ⟨i, by simp [hf]⟩
    · simp only [List.any_cons, hf, Bool.false_or] at h
      obtain ⟨j, hj⟩ := ih (i + 1) (if v.keepErr then err else none) h
      exact ⟨j, by simp [hf, hj]⟩

theorem evalConds_snd (o : Obs) (cs : List (Nat × (Obs → Bool))) :
    (evalConds (W := W) o cs).2 = cs.any (fun c => c.2 o) := by
  induction cs with
  | nil => simp [evalConds]
  | cons c cs ih =>
    obtain ⟨id, f⟩ := c
    unfold evalConds
    by_cases h : f o <;> simp [h, ih]

/-! ### events of the pieces -/

theorem runAfter_noBefore (v : Variant) (o : Obs) (ra : Nat) (fs : List (Obs → Bool)) (i : Nat) (err : Option Err) :
    ∀ e ∈ (runAfter (W := W) v o ra fs i err).1, ∃ j ob, e = .after j ob := by
  induction fs generalizing i err with
  | nil => simp [runAfter]
  | cons f fs ih =>
    unfold runAfter
    by_cases h : f o
    · simp [h]
    · simp only [h, Bool.false_eq_true, ↓reduceIte, List.mem_cons]
      rintro e (rfl | he)
      · exact ⟨_, _, rfl⟩
      · exact ih _ _ e he

theorem evalConds_events (o : Obs) (cs : List (Nat × (Obs → Bool))) :
    ∀ e ∈ (evalConds (W := W) o cs).1, ∃ id ob r, e = .cond id ob r := by
  induction cs with
  | nil => simp [evalConds]
  | cons c cs ih =>
    obtain ⟨id, f⟩ := c
    unfold evalConds
    by_cases h : f o
    · simp [h]
    · simp only [h, Bool.false_eq_true, ↓reduceIte, List.mem_cons]
      rintro e (rfl | he)
      · exact ⟨_, _, _, rfl⟩
      · exact ih e he

/-! ### the round trip, repaired -/

theorem roundTrip_repaired (v : Variant) (hv : v.nilRespGuard = true) (ra : Nat) (o : Outcome)
    (ho : o ≠ .beforeErr) :
    roundTrip v ra o = (some ⟨ra, o.view, o.errKind.map (ra, ·)⟩, o.errKind.map (ra, ·)) := by
  cases o <;> simp_all [roundTrip, Outcome.view, Outcome.errKind]

/-- What a callback observes in iteration `ra` with outcome `o` (repaired code). -/
def obsOf (o : Outcome) (ra : Nat) : Obs := ⟨ra, o.view, o.errKind⟩

/-- The `*Response` of iteration `ra` with outcome `o` (repaired code). -/
def respOf (o : Outcome) (ra : Nat) : Resp := ⟨ra, o.view, o.errKind.map (ra, ·)⟩

theorem need_eq (p : Policy σ) (o : Outcome) (ra : Nat) :
    need p o ra = (if p.conds.isEmpty then o.errKind.isSome
      else (evalConds (W := W) (obsOf o ra) p.conds.reverse).2) := by
  unfold need
  split
  · rfl
  · rw [evalConds_snd, List.any_reverse]; rfl

/-- Normal form of one pass of the repaired loop. -/
theorem iteration_repaired (v : Variant) (hv1 : v.keepErr = true) (hv2 : v.nilRespGuard = true)
    (p : Policy σ) (mw : Nat → σ → σ × W) (o : Outcome) (ra : Nat) (st : σ) (prev : Option Resp)
    (ho : o ≠ .beforeErr) :
    iteration v p mw o ra st prev =
      (let m := mw ra st
       let a := runAfter (W := W) v (obsOf o ra) ra p.after 0 (o.errKind.map (ra, ·))
       let ev0 := [Event.before ra, .wire ra m.2] ++ a.1
       if aborted p o ra then (ev0, .inl (.done (some (respOf o ra)) a.2.1))
       else if cannotRetry p o ra then (ev0, .inl (.done (some (respOf o ra)) (o.errKind.map (ra, ·))))
       else
         let c := if p.conds.isEmpty then (([] : List (Event W)), o.errKind.isSome)
                  else evalConds (obsOf o ra) p.conds.reverse
         if !need p o ra then (ev0 ++ c.1, .inl (.done (some (respOf o ra)) (o.errKind.map (ra, ·))))
         else
           (ev0 ++ c.1 ++ (p.hooks.reverse.map fun h => Event.hook h.1 (obsOf o (ra + 1)))
              ++ [.interval p.interval (ra + 1) o.view],
            if o.ctxDone then
              .inl (.done (some { respOf o ra with err := some (ra, .waitCtx) }) (some (ra, .waitCtx)))
            else
              .inr (p.hooks.reverse.foldl (fun s h => h.2 (obsOf o (ra + 1)) s) m.1, some (respOf o ra)))) := by
  have hmm : ∀ e : Option ErrKind, Option.map (fun x : Err => x.2) (Option.map (fun k => (ra, k)) e) = e := by
    intro e; cases e <;> rfl
  unfold iteration
  simp only [ho, ↓reduceIte, roundTrip_repaired v hv2 ra o ho, viewOf, Option.bind_some, hmm]
  have hstop : (runAfter (W := W) v ⟨ra, o.view, o.errKind⟩ ra p.after 0 (o.errKind.map (ra, ·))).2.2
      = aborted p o ra := by
    rw [runAfter_stop]; rfl
  by_cases hab : aborted p o ra = true
  · simp [hstop, hab, obsOf, respOf]
  · have hab' : aborted p o ra = false := by simpa using hab
    have herr : (runAfter (W := W) v ⟨ra, o.view, o.errKind⟩ ra p.after 0 (o.errKind.map (ra, ·))).2.1
        = o.errKind.map (ra, ·) := by
      apply runAfter_err_repaired v hv1
      simpa [aborted] using hab'
    simp only [hstop, hab', Bool.false_eq_true, ↓reduceIte, herr, hmm, obsOf, respOf]
    by_cases hc : cannotRetry p o ra = true
    · simp [hc]
    · simp only [hc]
      rw [need_eq (W := W)]
      simp only [obsOf, Option.isSome_map]
      by_cases hce : p.conds.isEmpty = true <;> by_cases hd : o.ctxDone = true <;> simp [hce, hd]

/-! ### projections of event lists -/

theorem wires_append (a b : List (Event W)) : wires (a ++ b) = wires a ++ wires b := by
  induction a with
  | nil => rfl
  | cons e t ih => cases e <;> simp [wires, ih]

theorem calls_append (a b : List (Event W)) : calls (a ++ b) = calls a ++ calls b := by
  induction a with
  | nil => rfl
  | cons e t ih => cases e <;> simp [calls, ih]

theorem iterations_append (a b : List (Event W)) : iterations (a ++ b) = iterations a + iterations b := by
  simp [iterations, List.countP_append]

/-- Events that are neither `before`, `wire`, `hook` nor `interval`. -/
def Quiet (l : List (Event W)) : Prop :=
  ∀ e ∈ l, (∃ j ob, e = .after j ob) ∨ (∃ id ob r, e = .cond id ob r)

theorem Quiet.wires {l : List (Event W)} (h : Quiet l) : wires l = [] := by
  induction l with
  | nil => rfl
  | cons e t ih =>
    have ht : Quiet t := fun x hx => h x (List.mem_cons_of_mem _ hx)
    rcases h e (List.mem_cons_self ..) with ⟨j, ob, rfl⟩ | ⟨id, ob, r, rfl⟩ <;> simp [Retry.wires, ih ht]

theorem Quiet.calls {l : List (Event W)} (h : Quiet l) : calls l = [] := by
  induction l with
  | nil => rfl
  | cons e t ih =>
    have ht : Quiet t := fun x hx => h x (List.mem_cons_of_mem _ hx)
    rcases h e (List.mem_cons_self ..) with ⟨j, ob, rfl⟩ | ⟨id, ob, r, rfl⟩ <;> simp [Retry.calls, ih ht]

theorem Quiet.iterations {l : List (Event W)} (h : Quiet l) : iterations l = 0 := by
  induction l with
  | nil => rfl
  | cons e t ih =>
    have ht : Quiet t := fun x hx => h x (List.mem_cons_of_mem _ hx)
    have := ih ht
    rcases h e (List.mem_cons_self ..) with ⟨j, ob, rfl⟩ | ⟨id, ob, r, rfl⟩ <;>
      simp_all [Retry.iterations, Event.isBefore]

theorem quiet_runAfter (v : Variant) (o : Obs) (ra : Nat) (fs : List (Obs → Bool)) (i : Nat) (err : Option Err) :
    Quiet (runAfter (W := W) v o ra fs i err).1 :=
  fun e he => Or.inl (runAfter_noBefore v o ra fs i err e he)

theorem quiet_evalConds (o : Obs) (cs : List (Nat × (Obs → Bool))) : Quiet (evalConds (W := W) o cs).1 :=
  fun e he => Or.inr (evalConds_events o cs e he)

theorem quiet_conds (p : Policy σ) (ob : Obs) (b : Bool) :
    Quiet (if p.conds.isEmpty then (([] : List (Event W)), b) else evalConds ob p.conds.reverse).1 := by
  split
  · intro e he; simp at he
  · exact quiet_evalConds _ _

theorem hooks_wires (l : List (Nat × (Obs → σ → σ))) (ob : Obs) :
    wires (l.map fun h => (Event.hook h.1 ob : Event W)) = [] := by
  induction l with
  | nil => rfl
  | cons h t ih => simp [wires, ih]

theorem hooks_iterations (l : List (Nat × (Obs → σ → σ))) (ob : Obs) :
    iterations (l.map fun h => (Event.hook h.1 ob : Event W)) = 0 := by
  induction l with
  | nil => rfl
  | cons h t ih => simp_all [iterations, Event.isBefore]

theorem hooks_calls (l : List (Nat × (Obs → σ → σ))) (ob : Obs) :
    calls (l.map fun h => (Event.hook h.1 ob : Event W)) = l.map fun h => Call.hook h.1 ob.attempt := by
  induction l with
  | nil => rfl
  | cons h t ih => simp [calls, ih]

/-! ### `wants` against the loop's own tests -/

theorem wants_eq (p : Policy σ) (o : Outcome) (ra : Nat) :
    wants p o ra = (o != .beforeErr && !aborted p o ra && !cannotRetry p o ra && need p o ra && !o.ctxDone) := by
  unfold wants cannotRetry
  have h : (decide (p.maxRetries < 0) || decide ((ra : Int) < p.maxRetries))
      = !(decide (p.maxRetries ≤ (ra : Int)) && decide (0 ≤ p.maxRetries)) := by
    by_cases h1 : p.maxRetries < 0 <;> by_cases h2 : (ra : Int) < p.maxRetries <;>
      simp [h1, h2] <;> omega
  rw [h]
  simp only [bne]
  generalize (o == Outcome.beforeErr) = a
  generalize (o == Outcome.cancelled) = b
  cases a <;> cases (aborted p o ra) <;> cases b <;> cases p.enabled <;> simp

/-! ### one pass, seen through `wants` -/


/-- The state carried into the next pass: the middleware's result, then the hooks last-to-first. -/
def nextState (p : Policy σ) (mw : Nat → σ → σ × W) (o : Outcome) (ra : Nat) (st : σ) : σ :=
  p.hooks.reverse.foldl (fun s h => h.2 (obsOf o (ra + 1)) s) (mw ra st).1

/-- The calls of one retry: hooks in reverse registration order, then the interval function,
all with the new attempt number. -/
def block (p : Policy σ) (attempt : Nat) : List Call :=
  (p.hooks.reverse.map fun h => Call.hook h.1 attempt) ++ [.interval attempt]

theorem wants_parts {p : Policy σ} {o : Outcome} {ra : Nat} (h : wants p o ra = true) :
    o ≠ .beforeErr ∧ aborted p o ra = false ∧ cannotRetry p o ra = false ∧ need p o ra = true ∧
      o.ctxDone = false := by
  rw [wants_eq] at h
  simp only [Bool.and_eq_true, bne_iff_ne, ne_eq, Bool.not_eq_true'] at h
  exact ⟨h.1.1.1.1, h.1.1.1.2, h.1.1.2, h.1.2, h.2⟩

/-- The wait before the next attempt found the context done: hooks and the interval function
have run, no further attempt follows. -/
def interrupted (p : Policy σ) (o : Outcome) (ra : Nat) : Bool :=
  o != .beforeErr && !aborted p o ra && !cannotRetry p o ra && need p o ra && o.ctxDone

theorem iter_cont (p : Policy σ) (mw : Nat → σ → σ × W) (o : Outcome) (ra : Nat) (st : σ)
    (prev : Option Resp) (h : wants p o ra = true) :
    ∃ ev, iteration R p mw o ra st prev = (ev, .inr (nextState p mw o ra st, some (respOf o ra)))
      ∧ iterations ev = 1 ∧ wires ev = [(ra, (mw ra st).2)] ∧ calls ev = block p (ra + 1) := by
  obtain ⟨ho, hab, hc, hn, hd⟩ := wants_parts h
  rw [iteration_repaired R rfl rfl p mw o ra st prev ho]
  simp only [hab, hc, hn, hd, Bool.false_eq_true, ↓reduceIte, Bool.not_true]
  have hq1 := quiet_runAfter (W := W) R (obsOf o ra) ra p.after 0 (o.errKind.map (ra, ·))
  have hq2 := quiet_conds (W := W) p (obsOf o ra) o.errKind.isSome
  refine ⟨_, rfl, ?_, ?_, ?_⟩
  · simp only [iterations_append, hq1.iterations, hq2.iterations,
      hooks_iterations]
    simp [iterations, Event.isBefore, List.countP_cons]
  · simp only [wires_append, hq1.wires, hq2.wires, hooks_wires]
    simp [wires]
  · simp only [calls_append, hq1.calls, hq2.calls, hooks_calls]
    simp [calls, block, obsOf]

theorem iter_stop (p : Policy σ) (mw : Nat → σ → σ × W) (o : Outcome) (ra : Nat) (st : σ)
    (prev : Option Resp) (h : wants p o ra = false) :
    ∃ ev fin, iteration R p mw o ra st prev = (ev, .inl fin)
      ∧ iterations ev = 1 ∧ calls ev = (if interrupted p o ra then block p (ra + 1) else [])
      ∧ wires ev = (if o = .beforeErr then [] else [(ra, (mw ra st).2)])
      ∧ (o = .beforeErr → fin = .done prev (some (ra, .before)))
      ∧ (o ≠ .beforeErr → interrupted p o ra = false → ∃ err, fin = .done (some (respOf o ra)) err ∧
          (err = o.errKind.map (ra, ·) ∨ (aborted p o ra = true ∧ ∃ j, err = some (ra, .after j))))
      ∧ (interrupted p o ra = true →
          fin = .done (some { respOf o ra with err := some (ra, .waitCtx) }) (some (ra, .waitCtx))) := by
  by_cases ho : o = .beforeErr
  · subst ho
    have hi : interrupted p .beforeErr ra = false := by simp [interrupted]
    refine ⟨[.before ra], .done prev (some (ra, .before)), by simp [iteration], ?_, ?_, ?_, ?_, ?_, ?_⟩ <;>
      simp [iterations, Event.isBefore, calls, wires, hi]
  · rw [iteration_repaired R rfl rfl p mw o ra st prev ho]
    rw [wants_eq] at h
    have hne : (o != Outcome.beforeErr) = true := by simpa using ho
    have hq1 := quiet_runAfter (W := W) R (obsOf o ra) ra p.after 0 (o.errKind.map (ra, ·))
    have hq2 := quiet_conds (W := W) p (obsOf o ra) o.errKind.isSome
    by_cases hab : aborted p o ra = true
    · have hi : interrupted p o ra = false := by simp [interrupted, hab]
      simp only [hab, ↓reduceIte]
      refine ⟨_, _, rfl, ?_, ?_, ?_, ?_, ?_, ?_⟩
      · simp only [iterations_append, hq1.iterations]; simp [iterations, Event.isBefore, List.countP_cons]
      · rw [hi]; simp only [calls_append, hq1.calls]; simp [calls]
      · simp only [wires_append, hq1.wires]; simp [wires, ho]
      · exact fun h => absurd h ho
      · intro _ _
        refine ⟨_, rfl, Or.inr ⟨trivial, ?_⟩⟩
        apply runAfter_err_abort
        simpa [aborted, obsOf] using hab
      · intro h'; rw [hi] at h'; cases h'
    · have hab' : aborted p o ra = false := by simpa using hab
      simp only [hab', Bool.false_eq_true, ↓reduceIte]
      by_cases hc : cannotRetry p o ra = true
      · have hi : interrupted p o ra = false := by simp [interrupted, hc]
        simp only [hc, ↓reduceIte]
        refine ⟨_, _, rfl, ?_, ?_, ?_, ?_, ?_, ?_⟩
        · simp only [iterations_append, hq1.iterations]; simp [iterations, Event.isBefore, List.countP_cons]
        · rw [hi]; simp only [calls_append, hq1.calls]; simp [calls]
        · simp only [wires_append, hq1.wires]; simp [wires, ho]
        · exact fun h => absurd h ho
        · exact fun _ _ => ⟨_, rfl, Or.inl rfl⟩
        · intro h'; rw [hi] at h'; cases h'
      · have hc' : cannotRetry p o ra = false := by simpa using hc
        by_cases hn : need p o ra = true
        · have hd : o.ctxDone = true := by simpa [hne, hab', hc', hn] using h
          have hi : interrupted p o ra = true := by simp [interrupted, hne, hab', hc', hn, hd]
          simp only [hc', hn, hd, Bool.false_eq_true, ↓reduceIte, Bool.not_true]
          refine ⟨_, _, rfl, ?_, ?_, ?_, ?_, ?_, ?_⟩
          · simp only [iterations_append, hq1.iterations, hq2.iterations, hooks_iterations]
            simp [iterations, Event.isBefore, List.countP_cons]
          · rw [hi]
            simp only [calls_append, hq1.calls, hq2.calls, hooks_calls]
            simp [calls, block, obsOf]
          · simp only [wires_append, hq1.wires, hq2.wires, hooks_wires]; simp [wires, ho]
          · exact fun h => absurd h ho
          · intro _ h'; rw [hi] at h'; cases h'
          · intro _; rfl
        · have hn' : need p o ra = false := by simpa using hn
          have hi : interrupted p o ra = false := by simp [interrupted, hn']
          simp only [hc', hn', Bool.false_eq_true, ↓reduceIte, Bool.not_false]
          refine ⟨_, _, rfl, ?_, ?_, ?_, ?_, ?_, ?_⟩
          · simp only [iterations_append, hq1.iterations, hq2.iterations]
            simp [iterations, Event.isBefore, List.countP_cons]
          · rw [hi]; simp only [calls_append, hq1.calls, hq2.calls]; simp [calls]
          · simp only [wires_append, hq1.wires, hq2.wires]; simp [wires, ho]
          · exact fun h => absurd h ho
          · exact fun _ _ => ⟨_, rfl, Or.inl rfl⟩
          · intro h'; rw [hi] at h'; cases h'

theorem loop_cons_cont (p : Policy σ) (mw : Nat → σ → σ × W) (o : Outcome) (rest : List Outcome)
    (ra : Nat) (st : σ) (prev : Option Resp) (h : wants p o ra = true) :
    loop R p mw (o :: rest) ra st prev =
      ((iteration R p mw o ra st prev).1 ++
        (loop R p mw rest (ra + 1) (nextState p mw o ra st) (some (respOf o ra))).1,
       (loop R p mw rest (ra + 1) (nextState p mw o ra st) (some (respOf o ra))).2) := by
  obtain ⟨ev, hev, -⟩ := iter_cont p mw o ra st prev h
  simp [loop, hev]

theorem loop_cons_stop (p : Policy σ) (mw : Nat → σ → σ × W) (o : Outcome) (rest : List Outcome)
    (ra : Nat) (st : σ) (prev : Option Resp) (h : wants p o ra = false) :
    ∃ fin, (iteration R p mw o ra st prev).2 = .inl fin ∧
      loop R p mw (o :: rest) ra st prev = ((iteration R p mw o ra st prev).1, fin) := by
  obtain ⟨ev, fin, hev, -⟩ := iter_stop p mw o ra st prev h
  exact ⟨fin, by simp [hev], by simp [loop, hev]⟩

end Req.Lemmas.C10Loop
