import Req.H2.Monitor
/-!
C06 — helper lemmas: the simulation between the connection model (`Req.H2.Conn`) and the send
side of the strict-peer monitor (`Req.H2.Monitor.Send`).
-/
set_option linter.unusedSimpArgs false
namespace Req.Lemmas.C06
open Req.H2 Req.H2.Flow Req.H2.Conn Req.H2.Monitor

/-! ### running the monitor over concatenated histories -/

theorem send_run_append (m : Send) (a b : List Event) :
    Send.run m (a ++ b) = (match Send.run m a with
      | .error r => .error r
      | .ok m' => Send.run m' b) := by
  induction a generalizing m with
  | nil => simp [Send.run]
  | cons e es ih =>
    simp only [List.cons_append, Send.run]
    cases h : m.step e with
    | error r => simp
    | ok m' => simp [ih]

theorem send_run_ok_append {m m' m'' : Send} {a b : List Event}
    (h1 : Send.run m a = .ok m') (h2 : Send.run m' b = .ok m'') :
    Send.run m (a ++ b) = .ok m'' := by
  rw [send_run_append, h1]; exact h2

/-! ### the relation between a model stream and the monitor's entry for it -/

structure Rel (iw : Nat) (s : Stream) (ms : MStream) : Prop where
  id : ms.id = s.id
  win : s.live = true → s.out ≤ ms.win
  lo : s.live = true → (iw : Int) - 2147483647 ≤ s.out
  hi : s.live = true → s.out ≤ 2147483647
  cRst : s.live = true → ms.cRst = false
  cEnd : s.live = true → ms.cEnd = s.sentEnd
  pEnd : s.peerEnd = true → ms.pEnd = true
  dead : s.live = false → ms.closed = true

inductive Rels (iw : Nat) : List Stream → List MStream → Prop where
  | nil : Rels iw [] []
  | cons {s : Stream} {ms : MStream} {l : List Stream} {ml : List MStream} :
      Rel iw s ms → Rels iw l ml → Rels iw (s :: l) (ms :: ml)

theorem rels_find {iw : Nat} {l : List Stream} {ml : List MStream} (h : Rels iw l ml) (id : Nat) :
    (findStream l id = none ∧ findM ml id = none) ∨
    (∃ s ms, findStream l id = some s ∧ findM ml id = some ms ∧ Rel iw s ms ∧ s.id = id) := by
  induction h with
  | nil => left; simp [findStream, findM]
  | @cons s ms l ml hr _ ih =>
    unfold findStream findM at *
    by_cases hid : s.id = id
    · right
      refine ⟨s, ms, ?_, ?_, hr, hid⟩
      · simp [List.find?, hid]
      · have : ms.id = id := by rw [hr.id]; exact hid
        simp [List.find?, this]
    · have hm : ¬ ms.id = id := by rw [hr.id]; exact hid
      simp only [List.find?, hid, hm, decide_false]
      exact ih

theorem rels_set {iw : Nat} {l : List Stream} {ml : List MStream} (h : Rels iw l ml)
    {s' : Stream} {ms' : MStream} (hr : Rel iw s' ms') :
    Rels iw (setStream l s') (setM ml ms') := by
  induction h with
  | nil => exact Rels.nil
  | @cons s ms l ml hr0 _ ih =>
    unfold setStream setM at *
    simp only [List.map]
    refine Rels.cons ?_ ih
    by_cases hid : s.id = s'.id
    · have : ms.id = ms'.id := by rw [hr0.id, hr.id]; exact hid
      simp [hid, this, hr]
    · have : ¬ ms.id = ms'.id := by rw [hr0.id, hr.id]; exact hid
      simp [hid, this, hr0]

theorem rels_open_le_live {iw : Nat} {l : List Stream} {ml : List MStream} (h : Rels iw l ml) :
    openCount ml ≤ liveCount l := by
  induction h with
  | nil => simp [openCount, liveCount]
  | @cons s ms l ml hr _ ih =>
    unfold openCount liveCount at *
    simp only [List.filter]
    cases hl : s.live with
    | true =>
      cases hc : ms.closed <;> simp <;> omega
    | false =>
      have := hr.dead hl
      simp [this]; exact ih

theorem rels_append {iw : Nat} {l : List Stream} {ml : List MStream} (h : Rels iw l ml)
    {s : Stream} {ms : MStream} (hr : Rel iw s ms) : Rels iw (l ++ [s]) (ml ++ [ms]) := by
  induction h with
  | nil => exact Rels.cons hr Rels.nil
  | cons h0 _ ih => exact Rels.cons h0 ih

theorem rels_ids {iw : Nat} {l : List Stream} {ml : List MStream} (h : Rels iw l ml) :
    ml.map (·.id) = l.map (·.id) := by
  induction h with
  | nil => rfl
  | cons hr _ ih => simp [hr.id, ih]


/-! ### the part of the state the send side depends on -/

structure View where
  cfg : Cfg
  maxFrameSize : Nat
  initialWindowSize : Nat
  maxConcurrent : Nat
  nextStreamID : Nat
  seenSettings : Bool
  connOut : Int
  streams : List Stream
  pendingOpen : Option Req

def view (st : State) : View :=
  { cfg := st.cfg, maxFrameSize := st.maxFrameSize, initialWindowSize := st.initialWindowSize,
    maxConcurrent := st.maxConcurrent, nextStreamID := st.nextStreamID, seenSettings := st.seenSettings,
    connOut := st.connOut, streams := st.streams, pendingOpen := st.pendingOpen }

theorem view_forget (st : State) (s : Stream) :
    view (forget st s) = { (view st) with streams := setStream st.streams { s with live := false } } := by
  unfold forget; simp only; split <;> rfl

theorem view_settle (st : State) (s : Stream) :
    view (settle st s) =
      { (view st) with streams := setStream st.streams (if s.live ∧ s.sentEnd ∧ s.peerEnd then { s with live := false } else s) } := by
  unfold settle
  split
  · rw [view_forget]
  · rfl

theorem view_terminate (st : State) (s : Stream) (b : Bool) :
    view (terminate st s b).1 = { (view st) with streams := setStream st.streams { s with live := false } } := by
  unfold terminate; simp only; rw [view_forget]

/-- the simulation invariant (send side) -/
structure SInv (v : View) (m : Send) : Prop where
  fixes : v.cfg.fixes = Fixes.all
  maxFrame : m.maxFrame = v.maxFrameSize
  frameLo : 16384 ≤ v.maxFrameSize
  pending : m.pending = []
  hdr : m.hdrOpen = none
  initWin : m.initWin = v.initialWindowSize
  initHi : v.initialWindowSize ≤ 2147483647
  conc : ∀ k, m.maxConc = some k → v.maxConcurrent = k
  concNone : v.seenSettings = false → m.maxConc = none
  connWin : v.connOut ≤ m.connWin
  connLo : 0 ≤ v.connOut
  connHi : v.connOut ≤ 2147483647
  lastId : m.lastId < v.nextStreamID
  odd : v.nextStreamID % 2 = 1
  ids : ∀ ms ∈ m.streams, ms.id ≤ m.lastId ∧ ms.id ≠ 0
  rel : Rels v.initialWindowSize v.streams m.streams
  nodup : (v.streams.map (·.id)).Nodup
  sorted : (v.streams.map (·.id)).Pairwise (· < ·)
  oddIds : ∀ s ∈ v.streams, s.id % 2 = 1
  idsLt : ∀ s ∈ v.streams, s.id < v.nextStreamID
  pendOpen : ∀ r, v.pendingOpen = some r → r.hdrLen > 0


/-! ### generic transport lemmas -/

theorem rel_congr {iw : Nat} {s s' : Stream} {ms : MStream} (h : Rel iw s ms)
    (h1 : s'.id = s.id) (h2 : s'.live = s.live) (h3 : s'.out = s.out) (h4 : s'.sentEnd = s.sentEnd)
    (h5 : s'.peerEnd = s.peerEnd) : Rel iw s' ms :=
  { id := by rw [h1]; exact h.id,
    win := fun hl => by rw [h3]; exact h.win (h2 ▸ hl),
    lo := fun hl => by rw [h3]; exact h.lo (h2 ▸ hl),
    hi := fun hl => by rw [h3]; exact h.hi (h2 ▸ hl),
    cRst := fun hl => h.cRst (h2 ▸ hl),
    cEnd := fun hl => by rw [h4]; exact h.cEnd (h2 ▸ hl),
    pEnd := fun hp => h.pEnd (h5 ▸ hp),
    dead := fun hl => h.dead (h2 ▸ hl) }

theorem setM_self {ml : List MStream} {ms : MStream} {id : Nat}
    (hnd : (ml.map (·.id)).Nodup) (hf : findM ml id = some ms) : setM ml ms = ml := by
  induction ml with
  | nil => rfl
  | cons a l ih =>
    unfold findM at hf ih
    unfold setM at *
    simp only [List.map_cons, List.nodup_cons] at hnd
    simp only [List.map]
    by_cases hid : a.id = id
    · simp only [List.find?, hid, decide_true] at hf
      cases hf
      simp only [if_true]
      congr 1
      -- no other entry carries this id
      have hmap : List.map (fun t => if t.id = ms.id then ms else t) l = List.map (fun t => t) l := by
        apply List.map_congr_left
        intro x hx
        have : x.id ≠ ms.id := by
          intro he
          apply hnd.1
          rw [← he]
          exact List.mem_map_of_mem (f := (·.id)) hx
        simp [this]
      rw [hmap, List.map_id']
    · simp only [List.find?, hid, decide_false] at hf
      have hms : ms.id = id := by
        have := List.find?_some hf
        simpa using this
      have hne : ¬ a.id = ms.id := by rw [hms]; exact hid
      simp only [hne, if_false]
      congr 1
      exact ih hnd.2 hf

theorem rels_refl_set {iw : Nat} {l : List Stream} {ml : List MStream} (h : Rels iw l ml)
    (hnd : (l.map (·.id)).Nodup)
    {s s' : Stream} {id : Nat} (hf : findStream l id = some s)
    (h1 : s'.id = s.id) (h2 : s'.live = s.live) (h3 : s'.out = s.out) (h4 : s'.sentEnd = s.sentEnd)
    (h5 : s'.peerEnd = s.peerEnd) : Rels iw (setStream l s') ml := by
  rcases rels_find h id with ⟨hn, _⟩ | ⟨s0, ms, hs0, hms, hr, _⟩
  · rw [hf] at hn; cases hn
  · rw [hf] at hs0; cases hs0
    have := rels_set h (rel_congr hr h1 h2 h3 h4 h5)
    rw [setM_self (by rw [rels_ids h]; exact hnd) hms] at this
    exact this

theorem setStream_ids (l : List Stream) (s' : Stream) {s : Stream} {id : Nat}
    (_hf : findStream l id = some s) (_h1 : s'.id = s.id) :
    (setStream l s').map (·.id) = l.map (·.id) := by
  unfold setStream
  rw [List.map_map]
  apply List.map_congr_left
  intro x _
  simp only [Function.comp]
  split
  · rename_i hx; rw [hx]
  · rfl

theorem mem_setM {ml : List MStream} {ms' : MStream} {P : MStream → Prop}
    (h : ∀ x ∈ ml, P x) (h' : P ms') : ∀ x ∈ setM ml ms', P x := by
  intro x hx
  simp only [setM, List.mem_map] at hx
  rcases hx with ⟨y, hy, rfl⟩
  split
  · exact h'
  · exact h y hy


theorem mem_setStream {l : List Stream} {s' : Stream} {P : Stream → Prop}
    (h : ∀ x ∈ l, P x) (h' : P s') : ∀ x ∈ setStream l s', P x := by
  intro x hx
  simp only [setStream, List.mem_map] at hx
  rcases hx with ⟨y, hy, rfl⟩
  split
  · exact h'
  · exact h y hy

theorem findStream_mem {l : List Stream} {id : Nat} {s : Stream} (h : findStream l id = some s) :
    s ∈ l ∧ s.id = id := by
  unfold findStream at h
  exact ⟨List.mem_of_find?_eq_some h, by simpa using List.find?_some h⟩

theorem findM_mem {l : List MStream} {id : Nat} {s : MStream} (h : findM l id = some s) :
    s ∈ l ∧ s.id = id := by
  unfold findM at h
  exact ⟨List.mem_of_find?_eq_some h, by simpa using List.find?_some h⟩

theorem awaitTake_bounds {a b mf : Int} (ha : 0 < a) (hb : 0 < b) (hm : 0 < mf) :
    0 < awaitTake a b mf ∧ awaitTake a b mf ≤ a ∧ awaitTake a b mf ≤ b ∧ awaitTake a b mf ≤ mf := by
  unfold awaitTake; simp only; split <;> split <;> omega

theorem send_run_nil (m : Send) : Send.run m [] = .ok m := rfl

theorem send_run_single_c {m m' : Send} {f : Frame} (h : m.client f = .ok m') :
    Send.run m [Event.c f] = .ok m' := by
  simp [Send.run, Send.step, h]

theorem send_run_cons_c {m m' : Send} {f : Frame} {rest : List Event} (h : m.client f = .ok m') :
    Send.run m (Event.c f :: rest) = Send.run m' rest := by
  simp [Send.run, Send.step, h]

theorem send_run_cons_p (m : Send) (f : PFrame) (rest : List Event) :
    Send.run m (Event.p f :: rest) = Send.run (m.peer f) rest := by
  simp [Send.run, Send.step]

/-- a DATA frame of the body writer is accepted and the invariant is kept -/
theorem sim_writeStep {st : State} {m : Send} (h : SInv (view st) m) {id : Nat} {s s' : Stream}
    {c : Int} {f : Frame}
    (hf : findStream st.streams id = some s)
    (hw : writeStep st.connOut st.maxFrameSize s = some (c, s', f)) :
    ∃ m', m.client f = .ok m' ∧ SInv (view (settle { st with connOut := c } s')) m' := by
  rcases rels_find h.rel id with ⟨hn, _⟩ | ⟨s0, ms, hs0, hms, hr, hid⟩
  · simp [view] at hn; rw [hf] at hn; cases hn
  have hs : s0 = s := by simp [view] at hs0; rw [hf] at hs0; cases hs0; rfl
  subst hs
  unfold writeStep at hw
  split at hw
  · cases hw
  rename_i hlive
  have hl : s0.live = true := by
    cases hx : s0.live <;> simp [hx] at hlive ⊢
  have hse : s0.sentEnd = false := by
    cases hx : s0.sentEnd <;> simp [hx, hl] at hlive ⊢
  have hcr := hr.cRst hl
  have hce := hr.cEnd hl
  rw [hse] at hce
  split at hw
  · -- nothing buffered: only the final empty DATA frame of a body of unknown length
    split at hw
    · cases hw
      refine ⟨{ m with connWin := m.connWin - ((0 : Nat) : Int),
                       streams := setM m.streams { ms with win := ms.win - ((0 : Nat) : Int), cEnd := true } }, ?_, ?_⟩
      · simp [Send.client, h.hdr, hms, hid, hcr, hce]
      · rw [view_settle]
        simp only [hl, true_and]
        have hbase : SInv (view st) m := h
        have hmem := findStream_mem hf
        refine { h with connWin := ?_, ids := ?_, rel := ?_, nodup := ?_, idsLt := ?_, sorted := ?_, oddIds := ?_ }
        rotate_left 3
        · show ((setStream st.streams _).map (·.id)).Nodup
          rw [setStream_ids st.streams _ hf (by split <;> rfl)]
          exact h.nodup
        · show ((setStream st.streams _).map (·.id)).Pairwise (· < ·)
          rw [setStream_ids st.streams _ hf (by split <;> rfl)]
          exact h.sorted
        · exact mem_setStream h.oddIds (by split <;> exact h.oddIds s0 hmem.1)
        · exact mem_setStream h.idsLt (by split <;> exact h.idsLt s0 hmem.1)
        · simpa [view] using h.connWin
        · intro x hx
          simp only [setM, List.mem_map] at hx
          rcases hx with ⟨y, hy, rfl⟩
          split
          · have := h.ids ms (List.mem_of_find?_eq_some hms)
            simpa using this
          · exact h.ids y hy
        · apply rels_set h.rel
          by_cases hp : s0.peerEnd = true
          · simp only [hp, and_self, if_true]
            exact { id := hr.id, win := by simp, lo := by simp, hi := by simp, cRst := by simp, cEnd := by simp,
                    pEnd := fun _ => hr.pEnd hp,
                    dead := fun _ => by simp [MStream.closed, hr.pEnd hp] }
          · have hp' : s0.peerEnd = false := by cases hx : s0.peerEnd <;> simp [hx] at hp ⊢
            simp only [hp', Bool.false_eq_true, and_false, if_false]
            exact { id := hr.id, win := fun _ => by simpa using hr.win hl, lo := fun _ => hr.lo hl,
                    hi := fun _ => hr.hi hl, cRst := fun _ => hcr, cEnd := fun _ => by simp,
                    pEnd := fun hx => by simp [hp'] at hx,
                    dead := fun hx => by simp [hl] at hx }
    · cases hw
  · -- a DATA frame carved out of the scratch buffer
    rename_i hchunk
    split at hw
    · cases hw
    rename_i hav
    cases hw
    have hmf : (0 : Int) < (st.maxFrameSize : Int) := by
      have := h.frameLo; simp only [view] at this; omega
    have hck : (0 : Int) < (s0.chunk : Int) := by omega
    have havp : 0 < available st.connOut s0.out := by omega
    obtain ⟨t0, t1, t2, t3⟩ := awaitTake_bounds havp hck hmf
    generalize htk : awaitTake (available st.connOut s0.out) s0.chunk st.maxFrameSize = take at *
    have hwin := hr.win hl
    have hcw : st.connOut ≤ m.connWin := by simpa [view] using h.connWin
    have ha1 : available st.connOut s0.out ≤ st.connOut := by unfold available; split <;> omega
    have ha2 : available st.connOut s0.out ≤ s0.out := by unfold available; split <;> omega
    have hmfeq : m.maxFrame = st.maxFrameSize := by simpa [view] using h.maxFrame
    have hlen : ((take.toNat : Nat) : Int) = take := by omega
    generalize hlast : (decide (s0.chunk - take.toNat = 0) && decide (s0.bodyRemain = 0) && s0.known && s0.trailer.isNone) = last
    refine ⟨{ m with connWin := m.connWin - (take.toNat : Int), streams := setM m.streams { ms with win := ms.win - (take.toNat : Int), cEnd := last } }, ?_, ?_⟩
    · have h1 : ¬ (take.toNat > m.maxFrame) := by rw [hmfeq]; omega
      have h2 : ¬ (take.toNat > 0 ∧ (take.toNat : Int) > m.connWin) := by omega
      have h3 : ¬ (take.toNat > 0 ∧ (take.toNat : Int) > ms.win) := by omega
      have hmax : max take 0 = take := by omega
      have h2' : ¬ (0 < take ∧ m.connWin < take) := by omega
      have h3' : ¬ (0 < take ∧ ms.win < take) := by omega
      simp [Send.client, h.hdr, hms, hid, hcr, hce, h1, hmax, h2', h3']
    · rw [view_settle]
      simp only [hl, true_and]
      have hmem := findStream_mem hf
      refine { h with connWin := ?_, connLo := ?_, connHi := ?_, ids := ?_, rel := ?_, nodup := ?_, idsLt := ?_, sorted := ?_, oddIds := ?_ }
      rotate_left 5
      · show ((setStream st.streams _).map (·.id)).Nodup
        rw [setStream_ids st.streams _ hf (by split <;> rfl)]
        exact h.nodup
      · show ((setStream st.streams _).map (·.id)).Pairwise (· < ·)
        rw [setStream_ids st.streams _ hf (by split <;> rfl)]
        exact h.sorted
      · exact mem_setStream h.oddIds (by split <;> exact h.oddIds s0 hmem.1)
      · exact mem_setStream h.idsLt (by split <;> exact h.idsLt s0 hmem.1)
      · simp only [view]; omega
      · simp only [view]; omega
      · have := h.connHi; simp only [view] at this ⊢; omega
      · intro x hx
        simp only [setM, List.mem_map] at hx
        rcases hx with ⟨y, hy, rfl⟩
        split
        · have := h.ids ms (List.mem_of_find?_eq_some hms)
          simpa using this
        · exact h.ids y hy
      · apply rels_set h.rel
        have hlo := hr.lo hl
        have hhi := hr.hi hl
        have hiw : (0:Int) ≤ ((view st).initialWindowSize : Int) := by omega
        have hih := h.initHi
        split
        · rename_i hfin
          exact { id := hr.id, win := by simp, lo := by simp, hi := by simp, cRst := by simp, cEnd := by simp,
                  pEnd := fun _ => hr.pEnd hfin.2,
                  dead := fun _ => by
                    have := hfin.1
                    simp [MStream.closed, hr.pEnd hfin.2, this] }
        · exact { id := hr.id,
                  win := fun _ => by simp only; omega,
                  lo := fun _ => by simp only [view] at *; omega,
                  hi := fun _ => by simp only; omega,
                  cRst := fun _ => hcr, cEnd := fun _ => by simp,
                  pEnd := fun hx => hr.pEnd hx,
                  dead := fun hx => by simp [hl] at hx }



/-! ### updating one stream on both sides -/

theorem sinv_set {v : View} {m : Send} (h : SInv v m) {id : Nat} {s s' : Stream} {ms ms' : MStream}
    (hf : findStream v.streams id = some s) (hm : findM m.streams id = some ms)
    (hid : s'.id = s.id) (hmid : ms'.id = ms.id) (hr : Rel v.initialWindowSize s' ms') :
    SInv { v with streams := setStream v.streams s' } { m with streams := setM m.streams ms' } := by
  have hmem := findStream_mem hf
  have hmm := findM_mem hm
  refine { h with ids := ?_, rel := ?_, nodup := ?_, idsLt := ?_, sorted := ?_, oddIds := ?_ }
  · exact mem_setM h.ids (by rw [hmid]; exact h.ids ms hmm.1)
  · exact rels_set h.rel hr
  · show ((setStream v.streams s').map (·.id)).Nodup
    rw [setStream_ids v.streams s' hf hid]
    exact h.nodup
  · show ((setStream v.streams s').map (·.id)).Pairwise (· < ·)
    rw [setStream_ids v.streams s' hf hid]
    exact h.sorted
  · exact mem_setStream h.oddIds (by rw [hid]; exact h.oddIds s hmem.1)
  · exact mem_setStream h.idsLt (by rw [hid]; exact h.idsLt s hmem.1)

theorem sinv_set_left {v : View} {m : Send} (h : SInv v m) {id : Nat} {s s' : Stream}
    (hf : findStream v.streams id = some s)
    (h1 : s'.id = s.id) (h2 : s'.live = s.live) (h3 : s'.out = s.out) (h4 : s'.sentEnd = s.sentEnd)
    (h5 : s'.peerEnd = s.peerEnd) :
    SInv { v with streams := setStream v.streams s' } m := by
  have hmem := findStream_mem hf
  refine { h with rel := ?_, nodup := ?_, idsLt := ?_, sorted := ?_, oddIds := ?_ }
  · exact rels_refl_set h.rel h.nodup hf h1 h2 h3 h4 h5
  · show ((setStream v.streams s').map (·.id)).Nodup
    rw [setStream_ids v.streams s' hf h1]
    exact h.nodup
  · show ((setStream v.streams s').map (·.id)).Pairwise (· < ·)
    rw [setStream_ids v.streams s' hf h1]
    exact h.sorted
  · exact mem_setStream h.oddIds (by rw [h1]; exact h.oddIds s hmem.1)
  · exact mem_setStream h.idsLt (by rw [h1]; exact h.idsLt s hmem.1)

/-- the monitor ignores the client's WINDOW_UPDATEs on the send side -/
theorem send_run_wu {m : Send} (h : m.hdrOpen = none) (id : Nat) (inc : Int) :
    Send.run m ((wuFrame id inc).map Event.c) = .ok m := by
  unfold wuFrame
  split
  · simp [Send.run, Send.step, Send.client, h]
  · rfl

theorem send_run_wu2 {m : Send} (h : m.hdrOpen = none) (id1 id2 : Nat) (inc1 inc2 : Int) :
    Send.run m ((wuFrame id1 inc1 ++ wuFrame id2 inc2).map Event.c) = .ok m := by
  rw [List.map_append]
  exact send_run_ok_append (send_run_wu h id1 inc1) (send_run_wu h id2 inc2)

/-- the client ends a stream abnormally: RST_STREAM unless both sides had already finished -/
theorem sim_terminate_client {st : State} {m : Send} (h : SInv (view st) m) {id : Nat} {s s' : Stream}
    (hf : findStream st.streams id = some s) (hl : s.live = true)
    (h1 : s'.id = s.id) (h4 : s'.sentEnd = s.sentEnd) (h5 : s'.peerEnd = s.peerEnd) :
    ∃ m', Send.run m ((terminate st s' false).2.map Event.c) = .ok m' ∧
      SInv (view (terminate st s' false).1) m' := by
  rcases rels_find h.rel id with ⟨hn, _⟩ | ⟨s0, ms, hs0, hms, hr, hid⟩
  · simp only [view] at hn; rw [hf] at hn; cases hn
  have hs : s0 = s := by simp only [view] at hs0; rw [hf] at hs0; cases hs0; rfl
  subst hs
  rw [view_terminate]
  have hmm := findM_mem hms
  by_cases hboth : s'.sentEnd = true ∧ s'.peerEnd = true
  · -- closed on both sides already: nothing is written
    refine ⟨m, ?_, ?_⟩
    · simp [terminate, hboth, Send.run]
    · have := sinv_set h (s' := { s' with live := false }) (ms' := ms) hf hms h1 rfl
        { id := by rw [hr.id]; exact h1.symm, win := by simp, lo := by simp, hi := by simp, cRst := by simp,
          cEnd := by simp, pEnd := fun hp => hr.pEnd (h5 ▸ hp),
          dead := fun _ => by
            have e1 := hr.cEnd hl
            have e2 := hr.pEnd (h5 ▸ hboth.2)
            rw [← h4, hboth.1] at e1
            simp [MStream.closed, e1, e2] }
      rw [setM_self (by rw [rels_ids h.rel]; exact h.nodup) hms] at this
      exact this
  · refine ⟨{ m with streams := setM m.streams { ms with cRst := true } }, ?_, ?_⟩
    · have hne : ¬ (s'.sentEnd = true ∧ s'.peerEnd = true) := hboth
      have hid0 : ¬ (s'.id = 0 ∨ s'.id > m.lastId) := by
        have := h.ids ms hmm.1
        rw [h1, ← hr.id]
        omega
      have hfm : findM m.streams s'.id = some ms := by rw [h1, hid]; exact hms
      simp [terminate, hne, Send.run, Send.step, Send.client, h.hdr, hid0, hfm]
    · exact sinv_set h (s' := { s' with live := false }) (ms' := { ms with cRst := true }) hf hms h1 rfl
        { id := by show ms.id = s'.id; rw [hr.id]; exact h1.symm, win := by simp, lo := by simp, hi := by simp,
          cRst := by simp, cEnd := by simp, pEnd := fun hp => hr.pEnd (h5 ▸ hp),
          dead := fun _ => by simp [MStream.closed] }


/-! ### caller operations -/

theorem sim_feed {st : State} {m : Send} (h : SInv (view st) m) (id n : Nat) :
    ∃ m', Send.run m ((feed st id n).2.map Event.c) = .ok m' ∧ SInv (view (feed st id n).1) m' := by
  unfold feed
  split
  · exact ⟨m, rfl, h⟩
  · rename_i s hf
    split
    · exact ⟨m, rfl, sinv_set_left h (v := view st) hf rfl rfl rfl rfl rfl⟩
    · exact ⟨m, rfl, h⟩

theorem sim_cancel {st : State} {m : Send} (h : SInv (view st) m) (id : Nat) :
    ∃ m', Send.run m ((cancel st id).2.map Event.c) = .ok m' ∧ SInv (view (cancel st id).1) m' := by
  unfold cancel
  split
  · exact ⟨m, rfl, h⟩
  · rename_i s hf
    split
    · rename_i hl
      exact sim_terminate_client h hf hl rfl rfl rfl
    · exact ⟨m, rfl, h⟩

theorem sim_creditConn {r : State × List Frame} {m m' : Send} (_hm : m.hdrOpen = none)
    (hrun : Send.run m (r.2.map Event.c) = .ok m') (hinv : SInv (view r.1) m') (n : Nat) :
    ∃ m'', Send.run m ((creditConn r n).2.map Event.c) = .ok m'' ∧ SInv (view (creditConn r n).1) m'' := by
  unfold creditConn
  split
  · split
    · exact ⟨m', hrun, hinv⟩
    · refine ⟨m', ?_, hinv⟩
      rw [List.map_append]
      exact send_run_ok_append hrun (send_run_wu hinv.hdr _ _)
  · exact ⟨m', hrun, hinv⟩

theorem sim_readCore {st : State} {m : Send} (h : SInv (view st) m) {id : Nat} {s s' : Stream}
    (hf : findStream st.streams id = some s)
    (h1 : s'.id = s.id) (h2 : s'.live = s.live) (h3 : s'.out = s.out) (h4 : s'.sentEnd = s.sentEnd)
    (h5 : s'.peerEnd = s.peerEnd) (k : Nat) :
    ∃ m', Send.run m ((readCore st s' k).2.map Event.c) = .ok m' ∧ SInv (view (readCore st s' k).1) m' := by
  unfold readCore
  split
  · exact ⟨m, rfl, h⟩
  · split
    · exact ⟨m, rfl, h⟩
    · exact ⟨m, send_run_wu2 h.hdr _ _ _ _, sinv_set_left h (v := view st) hf h1 h2 h3 h4 h5⟩

theorem sim_closeStream {st : State} {m : Send} (h : SInv (view st) m) {id : Nat} {s s' : Stream}
    (hf : findStream st.streams id = some s)
    (h1 : s'.id = s.id) (h2 : s'.live = s.live) (h3 : s'.out = s.out) (h4 : s'.sentEnd = s.sentEnd)
    (h5 : s'.peerEnd = s.peerEnd) :
    ∃ m1, Send.run m ((closeStream st s s').2.map Event.c) = .ok m1 ∧
      SInv (view (closeStream st s s').1) m1 := by
  unfold closeStream
  split
  · rename_i hl
    exact sim_terminate_client h hf hl h1 h4 h5
  · exact ⟨m, rfl, sinv_set_left h (v := view st) hf h1 h2 h3 h4 h5⟩

theorem sim_readOverlong {st : State} {m : Send} (h : SInv (view st) m) {id : Nat} {s : Stream}
    (hf : findStream st.streams id = some s) (k : Nat) :
    ∃ m', Send.run m ((readOverlong st s k).2.map Event.c) = .ok m' ∧
      SInv (view (readOverlong st s k).1) m' := by
  unfold readOverlong
  obtain ⟨m1, hr1, hi1⟩ := sim_closeStream h hf
    (s' := { s with buffered := s.buffered - k, readErr := true }) rfl rfl rfl rfl rfl
  simp only
  split
  · exact sim_creditConn h.hdr hr1 hi1 _
  · exact ⟨m1, hr1, hi1⟩

theorem sim_readK {st : State} {m : Send} (h : SInv (view st) m) {id : Nat} {s : Stream}
    (hf : findStream st.streams id = some s) (k : Nat) :
    ∃ m', Send.run m ((readK st s k).2.map Event.c) = .ok m' ∧ SInv (view (readK st s k).1) m' := by
  unfold readK
  split
  · exact sim_readCore h hf rfl rfl rfl rfl rfl _
  · rename_i rem _
    split
    · exact sim_readOverlong h hf _
    · exact sim_readCore (s' := { s with bytesRemain := some (rem - k) }) h hf rfl rfl rfl rfl rfl _

theorem sim_read {st : State} {m : Send} (h : SInv (view st) m) (id n : Nat) :
    ∃ m', Send.run m ((Conn.read st id n).2.map Event.c) = .ok m' ∧ SInv (view (Conn.read st id n).1) m' := by
  unfold Conn.read
  split
  · exact ⟨m, rfl, h⟩
  · rename_i s hf
    split
    · exact sim_readK h hf _
    · exact ⟨m, rfl, h⟩

theorem sim_close {st : State} {m : Send} (h : SInv (view st) m) (id : Nat) :
    ∃ m', Send.run m ((close st id).2.map Event.c) = .ok m' ∧ SInv (view (close st id).1) m' := by
  unfold close
  split
  · exact ⟨m, rfl, h⟩
  · rename_i s hf
    split
    · obtain ⟨m1, hr1, hi1⟩ := sim_closeStream h hf (s' := { s with broken := true, buffered := 0 })
        rfl rfl rfl rfl rfl
      exact sim_creditConn h.hdr hr1 hi1 _
    · exact ⟨m, rfl, h⟩


/-! ### opening a stream: HEADERS + CONTINUATION -/

theorem headerFrames_zero (fuel id : Nat) (es : Bool) (mf : Nat) (prio fix first : Bool) :
    headerFrames fuel id 0 es mf prio fix first = [] := by
  cases fuel <;> simp [headerFrames]

theorem send_eta_hdr (m : Send) : { m with hdrOpen := m.hdrOpen } = m := by cases m; rfl

/-- CONTINUATION frames finish an open header block -/
theorem cont_run (id : Nat) (es : Bool) (mf : Nat) (prio fix : Bool) (hmf0 : 0 < mf) :
    ∀ (fuel len : Nat) (m : Send), m.hdrOpen = some id → m.maxFrame = mf → 0 < len → len ≤ fuel →
      Send.run m ((headerFrames fuel id len es mf prio fix false).map Event.c) = .ok { m with hdrOpen := none } := by
  intro fuel
  induction fuel with
  | zero => intro len m _ _ h1 h2; omega
  | succ fuel ih =>
    intro len m hdr hmf hlen hfuel
    have hne : ¬ len = 0 := by omega
    simp only [headerFrames, hne, if_false, Bool.false_eq_true, false_and, List.map_cons]
    generalize hchunk : (if len > mf then mf else len) = chunk
    have hc1 : chunk ≤ mf := by rw [← hchunk]; split <;> omega
    have hc2 : 0 < chunk := by rw [← hchunk]; split <;> omega
    have hc3 : chunk ≤ len := by rw [← hchunk]; split <;> omega
    have hstep : m.client (Frame.continuation id chunk (decide (len - chunk = 0))) =
        .ok { m with hdrOpen := if decide (len - chunk = 0) then none else m.hdrOpen } := by
      have : ¬ chunk > m.maxFrame := by rw [hmf]; omega
      simp [Send.client, hdr, this]
    rw [send_run_cons_c hstep]
    by_cases hrest : len - chunk = 0
    · simp [hrest, headerFrames_zero, Send.run]
    · simp only [hrest, decide_false, Bool.false_eq_true, if_false]
      exact ih (len - chunk) m hdr hmf (by omega) (by omega)

/-- a new stream's header block is accepted as a whole -/
theorem headers_run {m : Send} (hdr : m.hdrOpen = none) (id len : Nat) (es prio : Bool) (mf : Nat)
    (hmf : m.maxFrame = mf) (h16 : 16384 ≤ mf) (hlen : 0 < len) (hid : id > m.lastId) (hodd : id % 2 = 1)
    (hconc : ∀ k, m.maxConc = some k → openCount m.streams + 1 ≤ k) :
    Send.run m ((headerFrames (len + 1) id len es mf prio true true).map Event.c) =
      .ok { m with lastId := id, hdrOpen := none,
                   streams := m.streams ++ [{ id := id, win := m.initWin, cEnd := es, cRst := false, pEnd := false, pRst := false }] } := by
  have hne : ¬ len = 0 := by omega
  simp only [headerFrames, hne, if_false, List.map_cons, true_and, and_true, if_true]
  generalize hlimit : (if prio = true then mf - 5 else mf) = limit
  have hl1 : limit ≤ mf := by rw [← hlimit]; split <;> omega
  have hl2 : 0 < limit := by rw [← hlimit]; split <;> omega
  have hl3 : prio = true → limit + 5 ≤ mf := by intro hp; rw [← hlimit]; simp [hp]; omega
  generalize hchunk : (if len > limit then limit else len) = chunk
  have hc1 : chunk ≤ limit := by rw [← hchunk]; split <;> omega
  have hc2 : 0 < chunk := by rw [← hchunk]; split <;> omega
  have hc3 : chunk ≤ len := by rw [← hchunk]; split <;> omega
  have hflen : ¬ (chunk + (if prio = true then 5 else 0) > m.maxFrame) := by
    rw [hmf]
    by_cases hp : prio = true
    · have := hl3 hp; simp [hp]; omega
    · simp [hp]; omega
  have heven : ¬ id % 2 = 0 := by omega
  have hcc : (match m.maxConc with | some k => decide (k < openCount m.streams + 1) | none => false) = false := by
    cases hk : m.maxConc with
    | none => simp
    | some k => have := hconc k hk; simp; omega
  have hstep : m.client (Frame.headers id (chunk + (if prio = true then 5 else 0)) es (decide (len - chunk = 0))) =
      .ok { m with lastId := id, hdrOpen := if decide (len - chunk = 0) then none else some id,
                   streams := m.streams ++ [{ id := id, win := m.initWin, cEnd := es, cRst := false, pEnd := false, pRst := false }] } := by
    simp [Send.client, hdr, hflen, hid, heven]
    exact hcc
  rw [send_run_cons_c hstep]
  by_cases hrest : len - chunk = 0
  · simp [hrest, headerFrames_zero, Send.run]
  · simp only [hrest, decide_false, Bool.false_eq_true, if_false]
    exact cont_run id es mf prio true (by omega) len (len - chunk) _ rfl hmf (by omega) (by omega)


theorem cast_le_big (n : Nat) (h : n ≤ 2147483647) : (n : Int) ≤ 2147483647 := by omega

theorem addWindow_zero (iw : Nat) (h : iw ≤ 2147483647) : addWindow 0 (iw : Int) = some (iw : Int) := by
  have hin : In32 (iw : Int) := by unfold In32; omega
  have hin0 : In32 (0 + (iw : Int)) := by unfold In32; omega
  rw [addWindow_spec 0 iw (by unfold In32; omega) hin, if_pos hin0, Int.zero_add]

theorem streamOut0_eq (iw : Nat) (h : iw ≤ 2147483647) : streamOut0 iw = (iw : Int) := by
  have hin : In32 (iw : Int) := by unfold In32; omega
  unfold streamOut0
  rw [wrap32_of_in32 hin, addWindow_zero iw h]
  rfl

theorem endOnHeaders_all (hasBody : Bool) (t : Option Nat) : endOnHeaders Fixes.all hasBody t = !hasBody := by
  cases hasBody <;> cases t <;> rfl

/-- the monitor's books after a new stream's header block -/
def openedMon (m : Send) (id : Nat) (es : Bool) : Send :=
  { m with lastId := id, hdrOpen := none,
           streams := m.streams ++ [{ id := id, win := m.initWin, cEnd := es, cRst := false, pEnd := false, pRst := false }] }

theorem doOpen_frames {st : State} (hfixes : st.cfg.fixes = Fixes.all) (r : Req) :
    (doOpen st r).2 = headerFrames (r.hdrLen + 1) st.nextStreamID r.hdrLen (!(!(r.known && r.bodyLen == 0)))
      st.maxFrameSize st.cfg.hdrPrio true true := by
  simp only [doOpen, hfixes, endOnHeaders_all]
  rfl

/-- the invariant after `doOpen`, whatever admitted the stream -/
theorem sinv_doOpen {st : State} {m : Send} (h : SInv (view st) m) (r : Req) :
    SInv (view (doOpen st r).1) (openedMon m st.nextStreamID (!(!(r.known && r.bodyLen == 0)))) := by
  simp only [doOpen, openedMon]
  have hlast : st.nextStreamID > m.lastId := h.lastId
  have hiw := h.initWin
  have hih := h.initHi
  have hodd := h.odd
  simp only [view] at hiw hih hodd
  refine { h with lastId := ?_, odd := ?_, ids := ?_, rel := ?_, nodup := ?_, idsLt := ?_, hdr := rfl, sorted := ?sorted, oddIds := ?oddIds }
  case sorted =>
    show ((st.streams ++ [_]).map (fun (x : Stream) => x.id)).Pairwise (· < ·)
    rw [List.map_append, List.pairwise_append]
    refine ⟨h.sorted, by simp, ?_⟩
    intro a ha b hb
    simp only [List.map_cons, List.map_nil, List.mem_singleton] at hb
    simp only [List.mem_map] at ha
    rcases ha with ⟨x, hx, rfl⟩
    have := h.idsLt x hx
    simp only [view] at this
    omega
  case oddIds =>
    intro x hx
    simp only [view, List.mem_append, List.mem_singleton] at hx
    rcases hx with hx | rfl
    · exact h.oddIds x hx
    · exact hodd
  · show st.nextStreamID < st.nextStreamID + 2; omega
  · show (st.nextStreamID + 2) % 2 = 1; omega
  · intro ms hms
    simp only [List.mem_append, List.mem_singleton] at hms
    rcases hms with hms | rfl
    · have := h.ids ms hms
      exact ⟨by simp only; omega, this.2⟩
    · simp only; omega
  · show Rels st.initialWindowSize (st.streams ++ [_]) (m.streams ++ [_])
    apply rels_append h.rel
    have hout := streamOut0_eq st.initialWindowSize hih
    have hwin : streamOut0 st.initialWindowSize ≤ (m.initWin : Int) := by rw [hout, hiw]; exact Int.le_refl _
    have hlo : ((st.initialWindowSize : Nat) : Int) - 2147483647 ≤ streamOut0 st.initialWindowSize := by rw [hout]; omega
    have hhi : streamOut0 st.initialWindowSize ≤ 2147483647 := by rw [hout]; exact cast_le_big _ hih
    exact { id := rfl,
            win := fun _ => by dsimp only; exact hwin, lo := fun _ => by dsimp only [view]; exact hlo,
            hi := fun _ => by dsimp only; exact hhi,
            cRst := fun _ => rfl, cEnd := fun _ => rfl,
            pEnd := fun hp => by simp at hp,
            dead := fun hl => by simp at hl }
  · show ((st.streams ++ [_]).map (fun (x : Stream) => x.id)).Nodup
    rw [List.map_append, List.nodup_append]
    refine ⟨h.nodup, by simp, ?_⟩
    intro a ha b hb
    simp only [List.map_cons, List.map_nil, List.mem_singleton] at hb
    simp only [List.mem_map] at ha
    rcases ha with ⟨x, hx, rfl⟩
    have := h.idsLt x hx
    simp only [view] at this
    omega
  · intro x hx
    simp only [view, List.mem_append, List.mem_singleton] at hx
    rcases hx with hx | rfl
    · have := h.idsLt x hx
      simp only [view] at this ⊢
      omega
    · simp only [view]; omega



theorem sim_doOpen {st : State} {m : Send} (h : SInv (view st) m) (r : Req)
    (hlen : 0 < r.hdrLen) (hslot : liveCount st.streams < st.maxConcurrent) :
    ∃ m', Send.run m ((doOpen st r).2.map Event.c) = .ok m' ∧
      SInv (view (doOpen st r).1) m' := by
  have hfixes : st.cfg.fixes = Fixes.all := by have := h.fixes; simpa only [view] using this
  have hmf : m.maxFrame = st.maxFrameSize := h.maxFrame
  have hlast : st.nextStreamID > m.lastId := h.lastId
  have hconc : ∀ k, m.maxConc = some k → openCount m.streams + 1 ≤ k := by
    intro k hk
    have h1 := h.conc k hk
    have h2 := rels_open_le_live h.rel
    simp only [view] at h1 h2
    omega
  have hrun := headers_run h.hdr st.nextStreamID r.hdrLen (!(!(r.known && r.bodyLen == 0))) st.cfg.hdrPrio st.maxFrameSize
    hmf h.frameLo hlen hlast h.odd hconc
  rw [doOpen_frames hfixes]
  exact ⟨_, hrun, sinv_doOpen h r⟩

theorem sim_openStream {st : State} {m : Send} (h : SInv (view st) m) (r : Req)
    (hlen : 0 < r.hdrLen) :
    ∃ m', Send.run m ((openStream st r).2.map Event.c) = .ok m' ∧
      SInv (view (openStream st r).1) m' := by
  unfold openStream
  split
  · exact ⟨m, rfl, h⟩
  · split
    · exact ⟨m, rfl, h⟩
    · split
      · rename_i hslot
        exact sim_doOpen h r hlen hslot
      · refine ⟨m, rfl, { h with pendOpen := ?_ }⟩
        intro a hp
        simp only [view] at hp
        cases hp
        exact hlen

theorem sim_resumePending {st : State} {m : Send} (h : SInv (view st) m) :
    ∃ m', Send.run m ((resumePending st).2.map Event.c) = .ok m' ∧
      SInv (view (resumePending st).1) m' := by
  unfold resumePending
  split
  · exact ⟨m, rfl, h⟩
  · rename_i rq hp
    have h0 : SInv (view { st with pendingOpen := none }) m :=
      { h with pendOpen := by intro a hx; simp [view] at hx }
    have hlen : 0 < rq.hdrLen := h.pendOpen rq (by simp only [view]; exact hp)
    simp only
    split
    · exact ⟨m, rfl, h0⟩
    · split
      · exact ⟨m, rfl, h0⟩
      · split
        · rename_i hslot
          exact sim_doOpen h0 rq hlen hslot
        · exact ⟨m, rfl, h⟩


/-! ### peer events -/

theorem setStream_self {l : List Stream} {s : Stream} {id : Nat}
    (hnd : (l.map (·.id)).Nodup) (hf : findStream l id = some s) : setStream l s = l := by
  induction l with
  | nil => rfl
  | cons a l ih =>
    unfold findStream at hf ih
    unfold setStream at *
    simp only [List.map_cons, List.nodup_cons] at hnd
    simp only [List.map]
    by_cases hid : a.id = id
    · simp only [List.find?, hid, decide_true] at hf
      cases hf
      simp only [if_true]
      congr 1
      have hmap : List.map (fun t => if t.id = s.id then s else t) l = List.map (fun t => t) l := by
        apply List.map_congr_left
        intro x hx
        have : x.id ≠ s.id := by
          intro he
          apply hnd.1
          rw [← he]
          exact List.mem_map_of_mem (f := (·.id)) hx
        simp [this]
      rw [hmap, List.map_id']
    · simp only [List.find?, hid, decide_false] at hf
      have hms : s.id = id := by
        have := List.find?_some hf
        simpa using this
      have hne : ¬ a.id = s.id := by rw [hms]; exact hid
      simp only [hne, if_false]
      congr 1
      exact ih hnd.2 hf

/-- the monitor updates its entry of a stream and the relation still holds -/
theorem sinv_mon_upd {v : View} {m : Send} (h : SInv v m) {id : Nat} {s : Stream} {ms ms' : MStream}
    (hf : findStream v.streams id = some s) (hm : findM m.streams id = some ms)
    (hmid : ms'.id = ms.id) (hr : Rel v.initialWindowSize s ms') :
    SInv v { m with streams := setM m.streams ms' } := by
  have := sinv_set h hf hm rfl hmid hr
  rw [setStream_self h.nodup hf] at this
  exact this

/-- find the related pair for a stream of the model -/
theorem find_pair {v : View} {m : Send} (h : SInv v m) {id : Nat} {s : Stream}
    (hf : findStream v.streams id = some s) :
    ∃ ms, findM m.streams id = some ms ∧ Rel v.initialWindowSize s ms ∧ s.id = id := by
  rcases rels_find h.rel id with ⟨hn, _⟩ | ⟨s0, ms, hs0, hms, hr, hid⟩
  · rw [hf] at hn; cases hn
  · rw [hf] at hs0; cases hs0; exact ⟨ms, hms, hr, hid⟩

theorem find_none {v : View} {m : Send} (h : SInv v m) {id : Nat}
    (hf : findStream v.streams id = none) : findM m.streams id = none := by
  rcases rels_find h.rel id with ⟨_, hn⟩ | ⟨s0, ms, hs0, _, _, _⟩
  · exact hn
  · rw [hf] at hs0; cases hs0

/-- a trailer block — HEADERS with END_STREAM on a stream the client has not closed yet, then
CONTINUATION — is accepted as a whole and half-closes the stream -/
theorem trailers_run {m : Send} (hdr : m.hdrOpen = none) (id len : Nat) (prio : Bool) (mf : Nat)
    (hmf : m.maxFrame = mf) (h16 : 16384 ≤ mf) (hlen : 0 < len) (hid : ¬ id > m.lastId)
    {ms : MStream} (hms : findM m.streams id = some ms) (hce : ms.cEnd = false) (hcr : ms.cRst = false) :
    Send.run m ((headerFrames (len + 1) id len true mf prio true true).map Event.c) =
      .ok { m with hdrOpen := none, streams := setM m.streams { ms with cEnd := true } } := by
  have hne : ¬ len = 0 := by omega
  simp only [headerFrames, hne, if_false, List.map_cons, true_and, and_true, if_true]
  generalize hlimit : (if prio = true then mf - 5 else mf) = limit
  have hl1 : limit ≤ mf := by rw [← hlimit]; split <;> omega
  have hl2 : 0 < limit := by rw [← hlimit]; split <;> omega
  have hl3 : prio = true → limit + 5 ≤ mf := by intro hp; rw [← hlimit]; simp [hp]; omega
  generalize hchunk : (if len > limit then limit else len) = chunk
  have hc1 : chunk ≤ limit := by rw [← hchunk]; split <;> omega
  have hc2 : 0 < chunk := by rw [← hchunk]; split <;> omega
  have hc3 : chunk ≤ len := by rw [← hchunk]; split <;> omega
  have hflen : ¬ (chunk + (if prio = true then 5 else 0) > m.maxFrame) := by
    rw [hmf]
    by_cases hp : prio = true
    · have := hl3 hp; simp [hp]; omega
    · simp [hp]; omega
  have hstep : m.client (Frame.headers id (chunk + (if prio = true then 5 else 0)) true (decide (len - chunk = 0))) =
      .ok { m with hdrOpen := if decide (len - chunk = 0) then none else some id,
                   streams := setM m.streams { ms with cEnd := true } } := by
    simp [Send.client, hdr, hflen, hid, hms, hce, hcr]
  rw [send_run_cons_c hstep]
  by_cases hrest : len - chunk = 0
  · simp [hrest, headerFrames_zero, Send.run]
  · simp only [hrest, decide_false, Bool.false_eq_true, if_false]
    exact cont_run id true mf prio true (by omega) len (len - chunk) _ rfl hmf (by omega) (by omega)

/-- the client half-closes a live stream: the monitor notes END_STREAM, the model stores the
stream and forgets it when the peer had finished as well -/
theorem sinv_sentEnd {st : State} {m : Send} (h : SInv (view st) m) {id : Nat} {s : Stream} {ms : MStream}
    (hf : findStream st.streams id = some s) (hms : findM m.streams id = some ms)
    (hr : Rel (view st).initialWindowSize s ms) (hl : s.live = true) :
    SInv (view (settle st { s with sentEnd := true }))
      { m with hdrOpen := none, streams := setM m.streams { ms with cEnd := true } } := by
  rw [view_settle]
  simp only [hl, true_and]
  have hcr := hr.cRst hl
  have hbase : SInv (view st) { m with hdrOpen := none } := { h with hdr := rfl }
  refine sinv_set hbase (v := view st) (ms' := { ms with cEnd := true }) hf hms (by split <;> rfl) rfl ?_
  by_cases hp : s.peerEnd = true
  · simp only [hp, and_self, if_true]
    exact { id := hr.id, win := by simp, lo := by simp, hi := by simp, cRst := by simp, cEnd := by simp,
            pEnd := fun _ => hr.pEnd hp,
            dead := fun _ => by simp [MStream.closed, hr.pEnd hp] }
  · have hp' : s.peerEnd = false := by cases hx : s.peerEnd <;> simp [hx] at hp ⊢
    simp only [hp', Bool.false_eq_true, and_false, if_false]
    exact { id := hr.id, win := fun _ => hr.win hl, lo := fun _ => hr.lo hl,
            hi := fun _ => hr.hi hl, cRst := fun _ => hcr, cEnd := fun _ => by simp,
            pEnd := fun hx => by simp [hp'] at hx,
            dead := fun hx => by simp [hl] at hx }

theorem sim_trailerStep {st : State} {m : Send} (h : SInv (view st) m) {id : Nat} {s s' : Stream}
    {fs : List Frame} (hf : findStream st.streams id = some s) (ht : trailerStep st s = some (s', fs)) :
    ∃ m', Send.run m (fs.map Event.c) = .ok m' ∧ SInv (view (settle st s')) m' := by
  obtain ⟨ms, hms, hr, hid⟩ := find_pair h (v := view st) hf
  have hfixT : st.cfg.fixes.trailerFrame = true := by
    have := h.fixes; simp only [view] at this; rw [this]; rfl
  have hfixP : st.cfg.fixes.hdrPrio = true := by
    have := h.fixes; simp only [view] at this; rw [this]; rfl
  unfold trailerStep at ht
  split at ht
  · cases ht
  · rename_i n _
    split at ht
    · rename_i hc
      obtain ⟨hl, hse, _, _, hn⟩ := hc
      have hse' : s.sentEnd = false := by cases hx : s.sentEnd <;> simp [hx] at hse ⊢
      cases ht
      have hmm := findM_mem hms
      have hlast : ¬ s.id > m.lastId := by
        have := (h.ids ms hmm.1).1
        rw [hid, ← hmm.2]; omega
      have hce : ms.cEnd = false := by rw [hr.cEnd hl]; exact hse'
      have hrun := trailers_run h.hdr s.id n st.cfg.hdrPrio st.maxFrameSize h.maxFrame h.frameLo hn hlast
        (by rw [hid]; exact hms) hce (hr.cRst hl)
      simp only [hfixT, hfixP, if_true]
      exact ⟨_, hrun, sinv_sentEnd h hf hms hr hl⟩
    · cases ht

theorem sim_write {st : State} {m : Send} (h : SInv (view st) m) (id : Nat) :
    ∃ m', Send.run m ((write st id).2.map Event.c) = .ok m' ∧ SInv (view (write st id).1) m' := by
  unfold write
  split
  · exact ⟨m, rfl, h⟩
  · rename_i s hf
    split
    · rename_i s' fs ht
      exact sim_trailerStep h hf ht
    · split
      · exact ⟨m, rfl, h⟩
      · rename_i c s' f hw
        obtain ⟨m', h1, h2⟩ := sim_writeStep h hf hw
        exact ⟨m', send_run_single_c h1, h2⟩

theorem sim_peerSettingsAck {st : State} {m : Send} (h : SInv (view st) m) :
    ∃ m', Send.run (m.peer .settingsAck) ((peerSettingsAck st).2.map Event.c) = .ok m' ∧
      SInv (view (peerSettingsAck st).1) m' := by
  unfold peerSettingsAck
  split
  · exact ⟨m, rfl, h⟩
  · exact ⟨m, rfl, h⟩

/-- the peer's own RST_STREAM ends the stream without an answer from the client -/
theorem sim_peerRst {st : State} {m : Send} (h : SInv (view st) m) (id code : Nat) :
    ∃ m', Send.run (m.peer (.rst id code)) ((peerRst st id code).2.map Event.c) = .ok m' ∧
      SInv (view (peerRst st id code).1) m' := by
  unfold peerRst
  split
  · rename_i hf
    have := find_none h (v := view st) hf
    simp only [Send.peer, this]
    exact ⟨m, rfl, h⟩
  · rename_i s hf
    obtain ⟨ms, hms, hr, hid⟩ := find_pair h (v := view st) hf
    simp only [Send.peer, hms]
    split
    · rename_i hl
      have hl' : s.live = false := by cases hx : s.live <;> simp [hx] at hl ⊢
      refine ⟨_, rfl, sinv_mon_upd h (v := view st) hf hms rfl ?_⟩
      exact { id := hr.id, win := fun hx => by simp [hl'] at hx, lo := fun hx => by simp [hl'] at hx,
              hi := fun hx => by simp [hl'] at hx, cRst := fun hx => by simp [hl'] at hx,
              cEnd := fun hx => by simp [hl'] at hx, pEnd := hr.pEnd,
              dead := fun _ => by simp [MStream.closed] }
    · refine ⟨{ m with streams := setM m.streams { ms with pRst := true } }, by simp [terminate, Send.run], ?_⟩
      rw [view_terminate]
      exact sinv_set h (v := view st) (s' := { s with live := false }) (ms' := { ms with pRst := true }) hf hms rfl rfl
        { id := hr.id, win := by simp, lo := by simp, hi := by simp, cRst := by simp, cEnd := by simp,
          pEnd := hr.pEnd, dead := fun _ => by simp [MStream.closed] }


theorem addWindow_cases {w : Int} {n : Nat} (hw : In32 w) (hn : n ≤ 2147483647) :
    (addWindow w n = some (w + n) ∧ In32 (w + n)) ∨ addWindow w n = none := by
  have hin : In32 (n : Int) := by unfold In32; omega
  rw [addWindow_spec w n hw hin]
  by_cases h : In32 (w + n)
  · left; simp [h]
  · right; simp [h]

theorem sim_peerWindowUpdate {st : State} {m : Send} (h : SInv (view st) m) (id inc : Nat)
    (hinc : inc ≤ 2147483647) :
    ∃ m', Send.run (m.peer (.windowUpdate id inc)) ((peerWindowUpdate st id inc).2.map Event.c) = .ok m' ∧
      SInv (view (peerWindowUpdate st id inc).1) m' := by
  have hcw := h.connWin
  have hcl := h.connLo
  have hch := h.connHi
  simp only [view] at hcw hcl hch
  unfold peerWindowUpdate
  split
  · -- connection level
    rename_i hid0
    simp only [Send.peer, hid0, if_true]
    have hbase : SInv (view st) { m with connWin := m.connWin + (inc : Int) } :=
      { h with connWin := by simp only [view]; omega }
    split
    · exact ⟨_, rfl, hbase⟩
    · rcases addWindow_cases (w := st.connOut) (n := inc) (by unfold In32; omega) hinc with ⟨he, hin⟩ | he
      · rw [he]
        refine ⟨_, rfl, { h with connWin := ?_, connLo := ?_, connHi := ?_ }⟩
        · simp only [view]; omega
        · simp only [view]; omega
        · unfold In32 at hin; simp only [view]; omega
      · rw [he]; exact ⟨_, rfl, hbase⟩
  · rename_i hid0
    split
    · rename_i hf
      simp only [Send.peer, hid0, if_false, find_none h (v := view st) hf]
      exact ⟨m, rfl, h⟩
    · rename_i s hf
      obtain ⟨ms, hms, hr, hid⟩ := find_pair h (v := view st) hf
      simp only [Send.peer, hid0, if_false, hms]
      have hinc0 : (0 : Int) ≤ (inc : Int) := by omega
      -- the monitor's entry after the peer's own bookkeeping still covers the model's window
      have hbase : SInv (view st) { m with streams := setM m.streams { ms with win := ms.win + (inc : Int) } } :=
        sinv_mon_upd h (v := view st) hf hms rfl
          { id := hr.id, win := fun hl => by have := hr.win hl; simp only; omega, lo := hr.lo, hi := hr.hi,
            cRst := hr.cRst, cEnd := hr.cEnd, pEnd := hr.pEnd, dead := hr.dead }
      split
      · exact ⟨_, rfl, hbase⟩
      · rename_i hl
        have hl' : s.live = true := by cases hx : s.live <;> simp [hx] at hl ⊢
        split
        · exact sim_terminate_client hbase hf hl' rfl rfl rfl
        · have hlo := hr.lo hl'
          have hhi := hr.hi hl'
          have hih := h.initHi
          rcases addWindow_cases (w := s.out) (n := inc) (by unfold In32; simp only [view] at hlo hih; omega) hinc with ⟨he, hin⟩ | he
          · rw [he]
            refine ⟨_, rfl, ?_⟩
            exact sinv_set h (v := view st) (s' := { s with out := s.out + (inc : Int) })
              (ms' := { ms with win := ms.win + (inc : Int) }) hf hms rfl rfl
              { id := hr.id, win := fun _ => by have := hr.win hl'; simp only; omega,
                lo := fun _ => by simp only; omega,
                hi := fun _ => by unfold In32 at hin; simp only; omega,
                cRst := hr.cRst, cEnd := hr.cEnd, pEnd := hr.pEnd, dead := fun hx => by simp [hl'] at hx }
          · rw [he]
            exact sim_terminate_client hbase hf hl' rfl rfl rfl


theorem sim_abortAbove (last : Nat) (ids : List Nat) :
    ∀ {st : State} {m : Send}, SInv (view st) m →
    ∃ m', Send.run m ((abortAbove last ids st).2.map Event.c) = .ok m' ∧
      SInv (view (abortAbove last ids st).1) m' := by
  induction ids with
  | nil => intro st m h; exact ⟨m, rfl, h⟩
  | cons id rest ih =>
    intro st m h
    unfold abortAbove
    split
    · exact ih h
    · rename_i s hf
      split
      · rename_i hc
        obtain ⟨m1, hr1, hi1⟩ := sim_terminate_client h hf hc.1 rfl rfl rfl
        obtain ⟨m2, hr2, hi2⟩ := ih hi1
        refine ⟨m2, ?_, hi2⟩
        simp only [List.map_append]
        exact send_run_ok_append hr1 hr2
      · exact ih h

theorem sim_peerGoAway {st : State} {m : Send} (h : SInv (view st) m) (last : Nat) :
    ∃ m', Send.run (m.peer (.goaway last)) ((peerGoAway st last).2.map Event.c) = .ok m' ∧
      SInv (view (peerGoAway st last).1) m' := by
  unfold peerGoAway
  exact sim_abortAbove last _ (st := { st with goAway := true }) h

/-- the peer (half-)closes a stream or sends on it: the monitor notes END_STREAM, the model
stores the updated stream and forgets it when both sides are done -/
theorem sim_settle_peer {st : State} {m : Send} (h : SInv (view st) m) {id : Nat} {s s' : Stream} {ms : MStream}
    (es : Bool) (hf : findStream st.streams id = some s) (hms : findM m.streams id = some ms)
    (hr : Rel (view st).initialWindowSize s ms) (hl : s.live = true)
    (h1 : s'.id = s.id) (h2 : s'.live = s.live) (h3 : s'.out = s.out) (h4 : s'.sentEnd = s.sentEnd)
    (h5 : s'.peerEnd = true → s.peerEnd = true ∨ es = true) :
    SInv (view (settle st s')) { m with streams := setM m.streams { ms with pEnd := ms.pEnd || es } } := by
  rw [view_settle]
  have hpe : s'.peerEnd = true → (ms.pEnd || es) = true := by
    intro hp
    rcases h5 hp with hp' | hp'
    · simp [hr.pEnd hp']
    · simp [hp']
  refine sinv_set h (v := view st)
    (s' := if s'.live = true ∧ s'.sentEnd = true ∧ s'.peerEnd = true then { s' with live := false } else s')
    (ms' := { ms with pEnd := ms.pEnd || es }) hf hms (by split <;> simp [h1]) rfl ?_
  split
  · rename_i hfin
    exact { id := by rw [hr.id]; exact h1.symm, win := by simp, lo := by simp, hi := by simp, cRst := by simp,
            cEnd := by simp, pEnd := fun hp => hpe hp,
            dead := fun _ => by
              have e1 := hr.cEnd hl
              rw [← h4, hfin.2.1] at e1
              simp [MStream.closed, e1, hpe hfin.2.2] }
  · exact { id := by rw [hr.id]; exact h1.symm,
            win := fun _ => by rw [h3]; exact hr.win hl,
            lo := fun _ => by rw [h3]; exact hr.lo hl,
            hi := fun _ => by rw [h3]; exact hr.hi hl,
            cRst := fun _ => hr.cRst hl,
            cEnd := fun _ => by rw [h4]; exact hr.cEnd hl,
            pEnd := fun hp => hpe hp,
            dead := fun hx => by rw [h2, hl] at hx; cases hx }

/-- the monitor only notes a possible END_STREAM from the peer -/
theorem sinv_pEnd {st : State} {m : Send} (h : SInv (view st) m) {id : Nat} {s : Stream} {ms : MStream}
    (es : Bool) (hf : findStream st.streams id = some s) (hms : findM m.streams id = some ms)
    (hr : Rel (view st).initialWindowSize s ms) :
    SInv (view st) { m with streams := setM m.streams { ms with pEnd := ms.pEnd || es } } :=
  sinv_mon_upd h (v := view st) hf hms rfl
    { id := hr.id, win := hr.win, lo := hr.lo, hi := hr.hi, cRst := hr.cRst, cEnd := hr.cEnd,
      pEnd := fun hp => by simp [hr.pEnd hp],
      dead := fun hl => by
        have := hr.dead hl
        simp only [MStream.closed, Bool.or_eq_true, Bool.and_eq_true] at this ⊢
        rcases this with (h1 | h1) | h1
        · exact Or.inl (Or.inl h1)
        · exact Or.inl (Or.inr h1)
        · exact Or.inr ⟨h1.1, Or.inl h1.2⟩ }

theorem sim_peerResp {st : State} {m : Send} (h : SInv (view st) m) (id : Nat) (es : Bool)
    (status : Nat) (cl : Option Nat) :
    ∃ m', Send.run (m.peer (.resp id es status cl)) ((peerResp st id es status cl).2.map Event.c) = .ok m' ∧
      SInv (view (peerResp st id es status cl).1) m' := by
  unfold peerResp
  split
  · rename_i hf
    simp only [Send.peer, find_none h (v := view st) hf]
    exact ⟨m, rfl, h⟩
  · rename_i s hf
    obtain ⟨ms, hms, hr, hid⟩ := find_pair h (v := view st) hf
    simp only [Send.peer, hms]
    have hbase := sinv_pEnd h es hf hms hr
    split
    · exact ⟨_, rfl, hbase⟩
    · rename_i hl
      have hl' : s.live = true := by cases hx : s.live <;> simp [hx] at hl ⊢
      split
      · exact sim_terminate_client hbase hf hl' rfl rfl rfl
      · split
        · split
          · exact sim_terminate_client hbase hf hl' rfl rfl rfl
          · split
            · split
              · exact sim_terminate_client hbase hf hl' rfl rfl rfl
              · exact ⟨_, rfl, sinv_set_left hbase (v := view st) hf rfl rfl rfl rfl rfl⟩
            · exact ⟨_, rfl, sim_settle_peer h es hf hms hr hl' rfl rfl rfl rfl (fun hp => Or.inr hp)⟩
        · split
          · exact ⟨_, rfl, hbase⟩
          · rename_i he
            have he' : es = true := by cases hx : es <;> simp [hx] at he ⊢
            exact ⟨_, rfl, sim_settle_peer h es hf hms hr hl' rfl rfl rfl rfl (fun _ => Or.inr he')⟩


theorem sim_discardData {st : State} {m : Send} (h : SInv (view st) m) {id : Nat} {s : Stream}
    (hf : findStream st.streams id = some s) (hl : s.live = true) (flen : Int) :
    ∃ m', Send.run m ((discardData st s flen).2.map Event.c) = .ok m' ∧
      SInv (view (discardData st s flen).1) m' := by
  obtain ⟨m1, hr1, hi1⟩ := sim_terminate_client h hf hl (s' := s) rfl rfl rfl
  unfold discardData
  simp only
  split
  · split
    · exact ⟨m, rfl, h⟩
    · split
      · exact ⟨m, rfl, h⟩
      · refine ⟨m1, ?_, hi1⟩
        rw [List.map_append]
        exact send_run_ok_append hr1 (send_run_wu hi1.hdr _ _)
  · exact ⟨m1, hr1, hi1⟩

theorem sim_peerData {st : State} {m : Send} (h : SInv (view st) m) (id len pad : Nat) (es : Bool) :
    ∃ m', Send.run (m.peer (.data id len pad es)) ((peerData st id len pad es).2.map Event.c) = .ok m' ∧
      SInv (view (peerData st id len pad es).1) m' := by
  -- the monitor's own bookkeeping first
  have hmon : ∃ m1, m.peer (.data id len pad es) = m1 ∧ SInv (view st) m1 ∧
      (∀ s, findStream st.streams id = some s → ∃ ms, findM m.streams id = some ms ∧
        Rel (view st).initialWindowSize s ms ∧
        m1 = { m with streams := setM m.streams { ms with pEnd := ms.pEnd || es } }) := by
    cases hf : findStream st.streams id with
    | none =>
      refine ⟨m, ?_, h, fun s hs => by cases hs⟩
      simp only [Send.peer, find_none h (v := view st) hf]
    | some s =>
      obtain ⟨ms, hms, hr, _⟩ := find_pair h (v := view st) hf
      refine ⟨_, ?_, sinv_pEnd h es hf hms hr, fun s' hs' => ?_⟩
      · simp only [Send.peer, hms]
      · cases hs'; exact ⟨ms, hms, hr, rfl⟩
  obtain ⟨m1, hm1, hbase, hpair⟩ := hmon
  rw [hm1]
  unfold peerData
  simp only
  split
  · -- unknown or forgotten stream
    split
    · exact ⟨m1, rfl, hbase⟩
    · split
      · split
        · exact ⟨m1, rfl, hbase⟩
        · split
          · exact ⟨m1, rfl, hbase⟩
          · exact ⟨m1, send_run_wu hbase.hdr _ _, hbase⟩
      · exact ⟨m1, rfl, hbase⟩
  · rename_i s hfs
    have hfl : findStream st.streams id = some s ∧ s.live = true := by
      cases hf : findStream st.streams id with
      | none => rw [hf] at hfs; simp at hfs
      | some s0 =>
        rw [hf] at hfs
        simp only [Option.filter] at hfs
        split at hfs
        · cases hfs; rename_i hl; exact ⟨rfl, hl⟩
        · cases hfs
    obtain ⟨hf, hl⟩ := hfl
    obtain ⟨ms, hms, hr, hm1'⟩ := hpair s hf
    split
    · exact sim_discardData hbase hf hl _
    · rename_i hok
      have hpe : s.peerEnd = false := by
        cases hx : s.peerEnd <;> simp [hx] at hok ⊢
      split
      · split
        · exact ⟨m1, rfl, hbase⟩
        · split
          · exact ⟨m1, rfl, hbase⟩
          · split
            · exact ⟨m1, rfl, hbase⟩
            · refine ⟨m1, send_run_wu2 hbase.hdr _ _ _ _, ?_⟩
              rw [hm1']
              rename_i _ ci' sendConn _ _ si' sendStream _
              exact sim_settle_peer (st := { st with connIn := ci' })
                (s' := { s with inflow := si', buffered := s.buffered + len, peerEnd := es })
                h es hf hms hr hl rfl rfl rfl rfl (fun hp => Or.inr hp)
      · rw [hm1']
        exact ⟨_, rfl, sim_settle_peer (s' := { s with peerEnd := es }) h es hf hms hr hl rfl rfl rfl rfl (fun hp => Or.inr hp)⟩


/-! ### SETTINGS -/

theorem deltaStream_id (delta : Int) (s : Stream) : (deltaStream delta s).id = s.id := by
  unfold deltaStream; split
  · split <;> rfl
  · rfl

theorem rel_delta {iw iw' : Nat} (hiw : iw ≤ 2147483647) (hiw' : iw' ≤ 2147483647) {s : Stream} {ms : MStream}
    (hr : Rel iw s ms) :
    Rel iw' (deltaStream ((iw' : Int) - (iw : Int)) s) { ms with win := ms.win + ((iw' : Int) - (iw : Int)) } := by
  unfold deltaStream
  cases hl : s.live with
  | false =>
    simp only [Bool.false_eq_true, if_false]
    exact { id := hr.id, win := fun hx => by simp [hl] at hx, lo := fun hx => by simp [hl] at hx,
            hi := fun hx => by simp [hl] at hx, cRst := fun hx => by simp [hl] at hx,
            cEnd := fun hx => by simp [hl] at hx, pEnd := hr.pEnd,
            dead := fun _ => by have := hr.dead hl; simpa [MStream.closed] using this }
  | true =>
    simp only [if_true]
    have hwin := hr.win hl
    have hlo := hr.lo hl
    have hhi := hr.hi hl
    have hs : In32 s.out := by unfold In32; omega
    have hd : In32 ((iw' : Int) - (iw : Int)) := by unfold In32; omega
    rw [addWindow_spec s.out _ hs hd]
    by_cases hin : In32 (s.out + ((iw' : Int) - (iw : Int)))
    · simp only [hin, if_true]
      unfold In32 at hin
      exact { id := hr.id, win := fun _ => by simp only; omega, lo := fun _ => by simp only; omega,
              hi := fun _ => by simp only; omega, cRst := fun _ => hr.cRst hl, cEnd := fun _ => hr.cEnd hl,
              pEnd := hr.pEnd, dead := fun hx => by simp [hl] at hx }
    · simp only [hin, if_false]
      unfold In32 at hin
      exact { id := hr.id, win := fun _ => by simp only; omega, lo := fun _ => by omega,
              hi := fun _ => hhi, cRst := fun _ => hr.cRst hl, cEnd := fun _ => hr.cEnd hl,
              pEnd := hr.pEnd, dead := fun hx => by simp [hl] at hx }

theorem rels_delta {iw iw' : Nat} (hiw : iw ≤ 2147483647) (hiw' : iw' ≤ 2147483647)
    {l : List Stream} {ml : List MStream} (h : Rels iw l ml) :
    Rels iw' (l.map (deltaStream ((iw' : Int) - (iw : Int))))
      (ml.map fun ms => { ms with win := ms.win + ((iw' : Int) - (iw : Int)) }) := by
  induction h with
  | nil => exact Rels.nil
  | cons hr _ ih => exact Rels.cons (rel_delta hiw hiw' hr) ih


theorem map_delta_ids (delta : Int) (l : List Stream) :
    (l.map (deltaStream delta)).map (·.id) = l.map (·.id) := by
  rw [List.map_map]
  apply List.map_congr_left
  intro x _
  exact deltaStream_id delta x

def invalidSetting (p : Nat × Nat) : Bool :=
  (p.1 == sInitialWindowSize && decide (p.2 > 2147483647)) ||
  (p.1 == sMaxFrameSize && (decide (p.2 < 16384) || decide (p.2 > 16777215)))

theorem applySetting_none {st : State} {sm : Bool} {p : Nat × Nat}
    (h : applySetting st sm p = none) : invalidSetting p = true := by
  unfold applySetting at h
  split at h
  · rename_i h5
    split at h
    · rename_i hr
      have hne : ¬ p.1 = sInitialWindowSize := by rw [h5]; decide
      rcases hr with hr | hr <;> simp [invalidSetting, h5, hr, sMaxFrameSize, sInitialWindowSize]
    · cases h
  · split at h
    · cases h
    · split at h
      · rename_i h4
        split at h
        · rename_i hbig
          simp [invalidSetting, h4, hbig]
        · cases h
      · cases h

theorem sim_applySetting {st st' : State} {m : Send} {sm sm' : Bool} {p : Nat × Nat}
    (h : SInv { (view st) with seenSettings := true } m)
    (cn : st.seenSettings = false → sm = false → m.maxConc = none)
    (heq : applySetting st sm p = some (st', sm')) :
    invalidSetting p = false ∧
    SInv { (view st') with seenSettings := true } (ackSetting m p) ∧
    (st'.seenSettings = false → sm' = false → (ackSetting m p).maxConc = none) ∧
    st'.seenSettings = st.seenSettings := by
  unfold applySetting at heq
  split at heq
  · rename_i h5
    split at heq
    · cases heq
    · rename_i hr
      cases heq
      have hne : ¬ p.1 = sInitialWindowSize := by rw [h5]; decide
      have hack : ackSetting m p = { m with maxFrame := p.2 } := by unfold ackSetting; rw [if_pos h5]
      have hlo : 16384 ≤ p.2 := by omega
      have hhi : p.2 ≤ 16777215 := by omega
      rw [hack]
      refine ⟨?_, { h with maxFrame := rfl, frameLo := hlo }, cn, rfl⟩
      have e1 : decide (p.2 < 16384) = false := by simp; omega
      have e2 : decide (p.2 > 16777215) = false := by simp; omega
      simp [invalidSetting, hne, e1, e2]
  · rename_i h5
    split at heq
    · rename_i h3
      cases heq
      have hne : ¬ p.1 = sInitialWindowSize := by rw [h3]; decide
      have hack : ackSetting m p = { m with maxConc := some p.2 } := by
        unfold ackSetting; rw [if_neg h5, if_pos h3]
      rw [hack]
      refine ⟨by simp [invalidSetting, hne, h5], { h with conc := ?_, concNone := ?_ }, ?_, rfl⟩
      · intro k hk; simp only [Option.some.injEq] at hk; exact hk
      · intro hx; simp at hx
      · intro _ hx; simp at hx
    · rename_i h3
      split at heq
      · rename_i h4
        split at heq
        · cases heq
        · rename_i hbig
          cases heq
          have hack : ackSetting m p = { m with initWin := p.2, streams := m.streams.map fun s => { s with win := s.win + ((p.2 : Int) - (m.initWin : Int)) } } := by
            unfold ackSetting; rw [if_neg h5, if_neg h3, if_pos h4]
          rw [hack]
          have hiw := h.initWin
          have hih := h.initHi
          simp only [view] at hiw hih
          have hp2 : p.2 ≤ 2147483647 := by omega
          refine ⟨by simp [invalidSetting, hbig, h5], ?_, cn, rfl⟩
          refine { h with initWin := rfl, initHi := hp2, ids := ?_, rel := ?_, nodup := ?_, idsLt := ?_, sorted := ?sorted, oddIds := ?oddIds }
          case sorted =>
            show ((st.streams.map (deltaStream ((p.2 : Int) - (st.initialWindowSize : Int)))).map (fun (x : Stream) => x.id)).Pairwise (· < ·)
            rw [map_delta_ids]; exact h.sorted
          case oddIds =>
            intro x hx
            simp only [view, List.mem_map] at hx
            rcases hx with ⟨y, hy, rfl⟩
            rw [deltaStream_id]
            exact h.oddIds y hy
          · intro ms hms
            simp only [List.mem_map] at hms
            rcases hms with ⟨y, hy, rfl⟩
            exact h.ids y hy
          · show Rels p.2 (st.streams.map (deltaStream ((p.2 : Int) - (st.initialWindowSize : Int)))) (m.streams.map _)
            rw [hiw]
            exact rels_delta hih hp2 h.rel
          · show ((st.streams.map (deltaStream ((p.2 : Int) - (st.initialWindowSize : Int)))).map (fun (x : Stream) => x.id)).Nodup
            rw [map_delta_ids]; exact h.nodup
          · intro x hx
            simp only [view, List.mem_map] at hx
            rcases hx with ⟨y, hy, rfl⟩
            rw [deltaStream_id]
            exact h.idsLt y hy
      · rename_i h4
        cases heq
        have hack : ackSetting m p = m := by
          unfold ackSetting; rw [if_neg h5, if_neg h3, if_neg h4]
        rw [hack]
        exact ⟨by simp [invalidSetting, h4, h5], h, cn, rfl⟩


theorem applySettings_none {vals : List (Nat × Nat)} :
    ∀ {st : State} {sm : Bool}, applySettings st sm vals = none → vals.any invalidSetting = true := by
  induction vals with
  | nil => intro st sm h; simp [applySettings] at h
  | cons p ps ih =>
    intro st sm h
    unfold applySettings at h
    split at h
    · rename_i h1
      simp [List.any, applySetting_none h1]
    · simp only [List.any, ih h, Bool.or_true]

theorem sim_applySettings {vals : List (Nat × Nat)} :
    ∀ {st st' : State} {m : Send} {sm sm' : Bool},
    SInv { (view st) with seenSettings := true } m →
    (st.seenSettings = false → sm = false → m.maxConc = none) →
    applySettings st sm vals = some (st', sm') →
    vals.any invalidSetting = false ∧
    SInv { (view st') with seenSettings := true } (vals.foldl ackSetting m) ∧
    (st'.seenSettings = false → sm' = false → (vals.foldl ackSetting m).maxConc = none) ∧
    st'.seenSettings = st.seenSettings := by
  induction vals with
  | nil =>
    intro st st' m sm sm' h cn heq
    simp only [applySettings, Option.some.injEq, Prod.mk.injEq] at heq
    obtain ⟨rfl, rfl⟩ := heq
    exact ⟨rfl, h, cn, rfl⟩
  | cons p ps ih =>
    intro st st' m sm sm' h cn heq
    unfold applySettings at heq
    split at heq
    · cases heq
    · rename_i st1 sm1 h1
      obtain ⟨a1, a2, a3, a4⟩ := sim_applySetting h cn h1
      obtain ⟨b1, b2, b3, b4⟩ := ih a2 a3 heq
      refine ⟨by simp [List.any, a1, b1], b2, b3, by rw [b4, a4]⟩

theorem send_pending_nil {m : Send} (h : m.pending = []) : { m with pending := [] } = m := by
  cases m; simp_all

theorem sim_peerSettings {st : State} {m : Send} (h : SInv (view st) m) (vals : List (Nat × Nat)) :
    ∃ m', Send.run (m.peer (.settings vals)) ((peerSettings st vals).2.map Event.c) = .ok m' ∧
      SInv (view (peerSettings st vals).1) m' := by
  have h0 : SInv { (view st) with seenSettings := true } m := { h with concNone := by intro hx; simp at hx }
  have cn0 : st.seenSettings = false → false = false → m.maxConc = none := fun hs _ => h.concNone hs
  unfold peerSettings
  split
  · rename_i hnone
    have hany := applySettings_none hnone
    have : m.peer (.settings vals) = m := by
      simp only [Send.peer]
      have : (vals.any fun p => (p.1 == sInitialWindowSize && decide (p.2 > 2147483647)) || (p.1 == sMaxFrameSize && (decide (p.2 < 16384) || decide (p.2 > 16777215)))) = true := hany
      rw [this]; rfl
    rw [this]
    exact ⟨m, rfl, h⟩
  · rename_i st1 seenMax hsome
    obtain ⟨b1, b2, b3, b4⟩ := sim_applySettings h0 cn0 hsome
    have hpeer : m.peer (.settings vals) = { m with pending := [vals] } := by
      simp only [Send.peer]
      have : (vals.any fun p => (p.1 == sInitialWindowSize && decide (p.2 > 2147483647)) || (p.1 == sMaxFrameSize && (decide (p.2 < 16384) || decide (p.2 > 16777215)))) = false := b1
      rw [this, h.pending]; rfl
    rw [hpeer]
    refine ⟨vals.foldl ackSetting m, ?_, ?_⟩
    · have : ({ m with pending := [vals] } : Send).client Frame.settingsAck = .ok (vals.foldl ackSetting m) := by
        have hm : ({ m with pending := [], hdrOpen := none } : Send) = m := by
          have h1 := h.pending; have h2 := h.hdr
          cases m; simp_all
        simp [Send.client, h.hdr, hm]
      simp only [List.map_cons, List.map_nil]
      exact send_run_single_c this
    · simp only
      split
      · rename_i hseen
        -- not the first SETTINGS frame
        have hv1 : ({ (view st1) with seenSettings := true } : View) = view st1 := by
          simp only [view, hseen]
        rw [hv1] at b2
        exact b2
      · rename_i hseen
        have hseen' : st1.seenSettings = false := by cases hx : st1.seenSettings <;> simp [hx] at hseen ⊢
        refine { b2 with conc := ?_, concNone := by intro hx; simp [view] at hx }
        intro k hk
        cases hsm : seenMax with
        | true => simp only [view, if_true]; exact b2.conc k hk
        | false =>
          have := b3 hseen' hsm
          rw [this] at hk; cases hk


/-! ### one operation, a whole run -/

theorem sim_peer {st : State} {m : Send} (h : SInv (view st) m) (f : PFrame) (hok : f.ok) :
    ∃ m', Send.run (m.peer f) ((Conn.peer st f).2.map Event.c) = .ok m' ∧ SInv (view (Conn.peer st f).1) m' := by
  cases f with
  | settings vals => exact sim_peerSettings h vals
  | settingsAck => exact sim_peerSettingsAck h
  | windowUpdate id inc => exact sim_peerWindowUpdate h id inc hok
  | rst id code => exact sim_peerRst h id code
  | goaway last => exact sim_peerGoAway h last
  | resp id e status cl => exact sim_peerResp h id e status cl
  | data id len pad e => exact sim_peerData h id len pad e
  | ping ack d =>
    simp only [Conn.peer, peerPing, Send.peer]
    split
    · exact ⟨m, rfl, h⟩
    · exact ⟨m, by simp [Send.run, Send.step, Send.client, h.hdr], h⟩
  | pushPromise id p => exact ⟨m, rfl, h⟩

theorem sim_apply {st : State} {m : Send} (h : SInv (view st) m) (op : Op) (hok : op.ok) :
    ∃ m', Send.run m (opEvents op (apply st op).2) = .ok m' ∧ SInv (view (apply st op).1) m' := by
  cases op with
  | openReq r => exact sim_openStream h r hok
  | feed id n => exact sim_feed h id n
  | write id => exact sim_write h id
  | cancel id => exact sim_cancel h id
  | read id n => exact sim_read h id n
  | close id => exact sim_close h id
  | wake => exact ⟨m, rfl, h⟩
  | peer f =>
    obtain ⟨m', h1, h2⟩ := sim_peer h f hok
    refine ⟨m', ?_, h2⟩
    simp only [opEvents, apply, List.singleton_append]
    rw [send_run_cons_p]
    exact h1

theorem opEvents_append (op : Op) (a b : List Frame) :
    opEvents op (a ++ b) = opEvents op a ++ b.map Event.c := by
  simp [opEvents, List.append_assoc]

theorem sim_step {st : State} {m : Send} (h : SInv (view st) m) (op : Op) (hok : op.ok) :
    ∃ m', Send.run m (if st.closed then [] else opEvents op (step st op).2) = .ok m' ∧
      SInv (view (step st op).1) m' := by
  unfold step
  cases hc : st.closed with
  | true => simp only [if_true]; exact ⟨m, rfl, h⟩
  | false =>
    simp only [Bool.false_eq_true, if_false]
    obtain ⟨m1, h1, h2⟩ := sim_apply h op hok
    split
    · obtain ⟨m2, h3, h4⟩ := sim_resumePending h2
      refine ⟨m2, ?_, h4⟩
      rw [opEvents_append]
      exact send_run_ok_append h1 h3
    · exact ⟨m1, h1, h2⟩

theorem sim_runFrom (ops : List Op) (hok : ∀ op ∈ ops, op.ok) :
    ∀ {st : State} {m m0 : Send} {hist : List Event},
    Send.run m0 hist = .ok m → SInv (view st) m →
    ∃ m', Send.run m0 (runFrom st hist ops).2 = .ok m' ∧ SInv (view (runFrom st hist ops).1) m' := by
  induction ops with
  | nil => intro st m m0 hist hr h; exact ⟨m, hr, h⟩
  | cons op rest ih =>
    intro st m m0 hist hr h
    unfold runFrom
    obtain ⟨m1, h1, h2⟩ := sim_step h op (hok op List.mem_cons_self)
    exact ih (fun o ho => hok o (List.mem_cons_of_mem _ ho)) (send_run_ok_append hr h1) h2


/-! ### the initial state -/

theorem prioSeedFixed_odd (nx id : Int) :
    0 < prioSeedFixed nx id ∧ prioSeedFixed nx id % 2 = 1 := by
  unfold prioSeedFixed wrapU32
  simp only
  split <;> omega

theorem foldl_prio_odd (l : List Nat) :
    ∀ (nx : Int), 0 < nx → nx % 2 = 1 →
    0 < l.foldl (fun (nx : Int) (id : Nat) => prioSeedFixed nx (id : Int)) nx ∧
    (l.foldl (fun (nx : Int) (id : Nat) => prioSeedFixed nx (id : Int)) nx) % 2 = 1 := by
  induction l with
  | nil => intro nx h1 h2; exact ⟨h1, h2⟩
  | cons a l ih =>
    intro nx _ _
    simp only [List.foldl_cons]
    have := prioSeedFixed_odd nx a
    exact ih _ this.1 this.2

theorem nextStreamID0_odd (cfg : Cfg) (hfix : cfg.fixes = Fixes.all) :
    0 < nextStreamID0 cfg ∧ nextStreamID0 cfg % 2 = 1 := by
  unfold nextStreamID0
  have hp : prioSeed cfg.fixes = prioSeedFixed := by unfold prioSeed; rw [hfix]; rfl
  rw [hp]
  have := foldl_prio_odd cfg.prio 1 (by omega) (by omega)
  omega

theorem preface_run (cfg : Cfg) :
    Send.run Send.init ((newConn cfg).2.map Event.c) = .ok Send.init := by
  simp only [newConn, List.map_cons, List.cons_append, List.nil_append]
  rw [send_run_cons_c (m' := Send.init) (by simp [Send.client, Send.init])]
  rw [send_run_cons_c (m' := Send.init) (by simp [Send.client, Send.init])]
  generalize cfg.prio = l
  induction l with
  | nil => rfl
  | cons a l ih =>
    simp only [List.filter]
    split
    · rename_i ha
      simp only [List.map_cons]
      have hne : ¬ a = 0 := by
        simp only [decide_eq_true_eq] at ha
        exact ha.1
      rw [send_run_cons_c (m' := Send.init) (by simp [Send.client, Send.init, hne])]
      exact ih
    · exact ih

theorem sinv_init (cfg : Cfg) (hfix : cfg.fixes = Fixes.all) :
    SInv (view (newConn cfg).1) Send.init := by
  have hodd := nextStreamID0_odd cfg hfix
  have hmf : maxFrameSize0 cfg = 16384 := by
    unfold maxFrameSize0; rw [hfix]; rfl
  exact { fixes := hfix,
          maxFrame := by simp only [view, newConn, hmf, Send.init],
          frameLo := by simp only [view, newConn, hmf]; omega,
          pending := rfl, hdr := rfl, initWin := rfl,
          initHi := by simp only [view, newConn, initialWindowSize]; omega,
          conc := by intro k hk; simp [Send.init] at hk,
          concNone := fun _ => rfl,
          connWin := by simp only [view, newConn, Send.init]; omega,
          connLo := by simp only [view, newConn]; omega,
          connHi := by simp only [view, newConn]; omega,
          lastId := by simp only [view, newConn, Send.init]; omega,
          odd := hodd.2,
          ids := by intro ms hms; simp [Send.init] at hms,
          rel := Rels.nil,
          nodup := by simp [view, newConn],
          sorted := by simp [view, newConn],
          oddIds := by intro s hs; simp [view, newConn] at hs,
          idsLt := by intro s hs; simp [view, newConn] at hs,
          pendOpen := by intro a hx; simp [view, newConn] at hx }

/-- every run of the repaired model is accepted by the send side of the strict peer -/
theorem send_conforms (cfg : Cfg) (hfix : cfg.fixes = Fixes.all) (ops : List Op) (hok : ∀ op ∈ ops, op.ok) :
    ∃ m, Send.run Send.init (run cfg ops).2 = .ok m ∧ m.final = .ok () := by
  unfold run
  obtain ⟨m, h1, h2⟩ := sim_runFrom ops hok (preface_run cfg) (sinv_init cfg hfix)
  refine ⟨m, h1, ?_⟩
  simp [Send.final, h2.pending, h2.hdr]

end Req.Lemmas.C06
