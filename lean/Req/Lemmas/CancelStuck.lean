import Req.Lemmas.CancelInvEv
/-! Reachable states satisfy the invariant; stuck cancelled states are done and released;
the result of a cancelled request identifies the cancellation. -/
set_option linter.unusedSimpArgs false
set_option linter.unusedVariables false
namespace Req.Cancel

theorem inv_act (cfg : Cfg) (s : St) (a : Act) (hi : Inv cfg s) (hg : guard cfg s a = true) :
    Inv cfg (apply cfg s a) := by
  cases a
  case deliver => exact inv_deliver cfg s hi hg
  case preConnCancel => exact inv_preConnCancel cfg s hi hg
  case h1RtCancel => exact inv_h1RtCancel cfg s hi hg
  case h1WriterFail => exact inv_h1WriterFail cfg s hi hg
  case h1WriterExit => exact inv_h1WriterExit cfg s hi hg
  case h1ReaderStop => exact inv_h1ReaderStop cfg s hi hg
  case h1RtReturn => exact inv_h1RtReturn cfg s hi hg
  case h1ReaderCancel => exact inv_h1ReaderCancel cfg s hi hg
  case h1BodyReadFail => exact inv_h1BodyReadFail cfg s hi hg
  case h2RtCancel => exact inv_h2RtCancel cfg s hi hg
  case h2Closer => exact inv_h2Closer cfg s hi hg
  case h2RtReturn => exact inv_h2RtReturn cfg s hi hg
  case h2RtAbortReturn => exact inv_h2RtAbortReturn cfg s hi hg
  case h2WriterAbort => exact inv_h2WriterAbort cfg s hi hg
  case h2BodyReadFail => exact inv_h2BodyReadFail cfg s hi hg
  case h3WatchFire => exact inv_h3WatchFire cfg s hi hg
  case h3WriterStop => exact inv_h3WriterStop cfg s hi hg
  case h3RtReturn => exact inv_h3RtReturn cfg s hi hg
  case h3BodyReadFail => exact inv_h3BodyReadFail cfg s hi hg
  case sleepWake => exact inv_sleepWake cfg s hi hg

theorem reach_inv (cfg : Cfg) (s : St) (h : Reach cfg s) : Inv cfg s := by
  induction h with
  | init => exact inv_init cfg
  | ev e _ hg ih => exact inv_ev cfg _ e ih hg
  | act a _ hg ih => exact inv_act cfg _ a ih hg

theorem stuck_iff (cfg : Cfg) (s : St) : stuck cfg s = true ↔ ∀ a, guard cfg s a = false := by
  unfold stuck
  rw [List.all_eq_true]
  constructor
  · intro h a
    have := h a (by cases a <;> simp [allActs])
    simpa using this
  · intro h a _
    simp [h a]

set_option maxHeartbeats 800000 in
theorem stuck_done_h1 (cfg : Cfg) (s : St) (hi : Inv cfg s) (hc : s.ctx.isSome = true)
    (hf : cfg.sleepSelectsCtx = true) (hst : cfg.stack = .h1) (hs : ∀ a, guard cfg s a = false) :
    s.phase = .done ∧ s.res.released = true := by
  obtain ⟨a1, a2, a3, a4, a5, a6, a7, a8, H1, H2, H3⟩ := hi
  obtain ⟨b1, b2, b3, b4, b5, b6, b7⟩ := H1 hst
  clear H1 H2 H3
  have g_deliver := hs .deliver
  have g_preConnCancel := hs .preConnCancel
  have g_sleepWake := hs .sleepWake
  have g_h1RtCancel := hs .h1RtCancel
  have g_h1WriterFail := hs .h1WriterFail
  have g_h1WriterExit := hs .h1WriterExit
  have g_h1ReaderStop := hs .h1ReaderStop
  have g_h1RtReturn := hs .h1RtReturn
  have g_h1ReaderCancel := hs .h1ReaderCancel
  have g_h1BodyReadFail := hs .h1BodyReadFail
  clear hs
  simp only [guard, hst, hc, hf, Res.released] at *
  cases hp : s.phase <;> simp_all (config := {decide := true}) [Phase.preConn, Phase.inflight, Phase.body]
  all_goals grind

set_option maxHeartbeats 800000 in
theorem stuck_done_h2 (cfg : Cfg) (s : St) (hi : Inv cfg s) (hc : s.ctx.isSome = true)
    (hf : cfg.sleepSelectsCtx = true) (hst : cfg.stack = .h2) (hs : ∀ a, guard cfg s a = false) :
    s.phase = .done ∧ s.res.released = true := by
  obtain ⟨a1, a2, a3, a4, a5, a6, a7, a8, H1, H2, H3⟩ := hi
  obtain ⟨b1, b2, b3, b4, b5, b6, b7, b8⟩ := H2 hst
  clear H1 H2 H3
  have g_deliver := hs .deliver
  have g_preConnCancel := hs .preConnCancel
  have g_sleepWake := hs .sleepWake
  have g_h2RtCancel := hs .h2RtCancel
  have g_h2Closer := hs .h2Closer
  have g_h2RtReturn := hs .h2RtReturn
  have g_h2RtAbortReturn := hs .h2RtAbortReturn
  have g_h2WriterAbort := hs .h2WriterAbort
  have g_h2BodyReadFail := hs .h2BodyReadFail
  clear hs
  simp only [guard, hst, hc, hf, Res.released] at *
  cases hp : s.phase <;> simp_all (config := {decide := true}) [Phase.preConn, Phase.inflight, Phase.body]
  all_goals grind

set_option maxHeartbeats 800000 in
theorem stuck_done_h3 (cfg : Cfg) (s : St) (hi : Inv cfg s) (hc : s.ctx.isSome = true)
    (hf : cfg.sleepSelectsCtx = true) (hst : cfg.stack = .h3) (hs : ∀ a, guard cfg s a = false) :
    s.phase = .done ∧ s.res.released = true := by
  obtain ⟨a1, a2, a3, a4, a5, a6, a7, a8, H1, H2, H3⟩ := hi
  obtain ⟨b1, b2, b3, b4, b5, b6, b7, b8⟩ := H3 hst
  clear H1 H2 H3
  have g_deliver := hs .deliver
  have g_preConnCancel := hs .preConnCancel
  have g_sleepWake := hs .sleepWake
  have g_h3WatchFire := hs .h3WatchFire
  have g_h3WriterStop := hs .h3WriterStop
  have g_h3RtReturn := hs .h3RtReturn
  have g_h3BodyReadFail := hs .h3BodyReadFail
  clear hs
  simp only [guard, hst, hc, hf, Res.released] at *
  cases hp : s.phase <;> simp_all (config := {decide := true}) [Phase.preConn, Phase.inflight, Phase.body]
  all_goals grind

/-- a cancelled state in which no internal action is enabled: the call is over, nothing is held -/
theorem stuck_done (cfg : Cfg) (s : St) (hi : Inv cfg s) (hc : s.ctx.isSome = true)
    (hf : cfg.sleepSelectsCtx = true) (hs : ∀ a, guard cfg s a = false) :
    s.phase = .done ∧ s.res.released = true := by
  rcases stack_cases cfg.stack with h | h | h
  · exact stuck_done_h1 cfg s hi hc hf h hs
  · exact stuck_done_h2 cfg s hi hc hf h hs
  · exact stuck_done_h3 cfg s hi hc hf h hs

@[simp] theorem finish_result (cfg : Cfg) (s : St) (r : Result) : (finish cfg s r).result = r := by
  unfold finish; split <;> rfl

@[simp] theorem finishBody_result (cfg : Cfg) (s : St) (r : Result) : (finishBody cfg s r).result = r := by
  unfold finishBody; split
  · exact finish_result cfg s r
  · rfl

/-- once cancelled with `e`, a finished call reports an error that identifies `e` -/
def PostOK (e : CtxErr) (s : St) : Prop := s.phase = .done → s.result.identifies e = true

theorem h1Result_some (e : CtxErr) : h1Result (some e) = .ctxErr e := by
  simp [h1Result, mapRoundTripError]

set_option maxHeartbeats 800000 in
theorem post_act (cfg : Cfg) (s : St) (a : Act) (e : CtxErr) (hi : Inv cfg s) (hc : s.ctx = some e)
    (hg : guard cfg s a = true) (hp : PostOK e s) : PostOK e (apply cfg s a) := by
  obtain ⟨a1, a2, a3, a4, a5, a6, a7, a8, H1, H2, H3⟩ := hi
  unfold PostOK at *
  cases a <;> simp only [guard, Bool.and_eq_true, beq_iff_eq, Bool.not_eq_true', Bool.or_eq_true] at hg <;>
    simp only [apply]
  case deliver =>
    rcases stack_cases cfg.stack with h | h | h <;> simp [startInflight, h] <;> split <;> simp
  case preConnCancel => simp [hc, errResult, Result.identifies]
  case h1RtCancel => exact hp
  case h1WriterFail => exact hp
  case h1WriterExit => exact hp
  case h1ReaderStop => exact hp
  case h1ReaderCancel => exact hp
  case h2RtCancel => exact hp
  case h2Closer => exact hp
  case h2WriterAbort => exact hp
  case h3WatchFire => exact hp
  case h3WriterStop => exact hp
  case h1RtReturn =>
    obtain ⟨⟨⟨hs, h2⟩, h3⟩, h4⟩ := hg
    have := (H1 hs).closedErr h3 (Or.inl h2)
    cases hce : s.res.connErr with
    | none => simp [hce] at this
    | some e' =>
      have := a4 e' hce
      simp_all [h1Result_some, Result.identifies]
  case h1BodyReadFail =>
    obtain ⟨⟨hs, h2⟩, h3⟩ := hg
    have := (H1 hs).closedErr h3 (Or.inr h2)
    cases hce : s.res.connErr with
    | none => simp [hce] at this
    | some e' =>
      have := a4 e' hce
      simp_all [errResult, Result.identifies]
  case h2RtReturn => simp [hc, errResult, Result.identifies]
  case h2RtAbortReturn =>
    obtain ⟨⟨⟨⟨hs, h2⟩, h3⟩, h4⟩, h5⟩ := hg
    cases hce : s.res.connErr with
    | none => simp [hce] at h4
    | some e' =>
      have := a4 e' hce
      simp_all [errResult, Result.identifies]
  case h2BodyReadFail =>
    obtain ⟨⟨hs, h2⟩, h3⟩ := hg
    have := (H2 hs).pipeErrC h3
    cases hce : s.res.connErr with
    | none => simp [hce] at this
    | some e' =>
      have := a4 e' hce
      simp_all [errResult, Result.identifies]
  case h3RtReturn => simp [hc, errResult, Result.identifies]
  case h3BodyReadFail => split <;> simp [hc, errResult, Result.identifies]
  case sleepWake => simp [hc, errResult, Result.identifies]

theorem act_ctx (cfg : Cfg) (s : St) (a : Act) : (apply cfg s a).ctx = s.ctx := by
  cases a <;> simp [apply, startInflight] <;> (try split) <;> simp

theorem act_sleepsDone (cfg : Cfg) (s : St) (a : Act) : (apply cfg s a).sleepsDone = s.sleepsDone := by
  cases a <;> simp [apply, startInflight] <;> (try split) <;> simp

end Req.Cancel
