import Req.Lemmas.C06Send
/-!
C06 — helper lemmas: the simulation between the connection model and the receive side of the
strict-peer monitor (`Req.H2.Monitor.Recv`): every WINDOW_UPDATE of the client has a legal
increment, names a stream the peer knows, and never pushes one of the peer's send windows
above 2^31-1.
-/
set_option linter.unusedSimpArgs false
namespace Req.Lemmas.C06
open Req.H2 Req.H2.Flow Req.H2.Conn Req.H2.Monitor

theorem recv_run_append (m : Recv) (a b : List Event) :
    Recv.run m (a ++ b) = (match Recv.run m a with
      | .error r => .error r
      | .ok m' => Recv.run m' b) := by
  induction a generalizing m with
  | nil => simp [Recv.run]
  | cons e es ih =>
    simp only [List.cons_append, Recv.run]
    cases h : m.step e with
    | error r => simp
    | ok m' => simp [ih]

theorem recv_run_ok_append {m m' m'' : Recv} {a b : List Event}
    (h1 : Recv.run m a = .ok m') (h2 : Recv.run m' b = .ok m'') :
    Recv.run m (a ++ b) = .ok m'' := by
  rw [recv_run_append, h1]; exact h2

theorem recv_run_cons_c {m m' : Recv} {f : Frame} {rest : List Event} (h : m.client f = .ok m') :
    Recv.run m (Event.c f :: rest) = Recv.run m' rest := by
  simp [Recv.run, Recv.step, h]

theorem recv_run_cons_p (m : Recv) (f : PFrame) (rest : List Event) :
    Recv.run m (Event.p f :: rest) = Recv.run (m.peer f) rest := by
  simp [Recv.run, Recv.step]

/-- a receive window of the model: what `flow.go` keeps in range -/
structure InflowOK (f : Inflow) : Prop where
  avail : 0 ≤ f.avail
  unsent : 0 ≤ f.unsent
  sum : f.avail + f.unsent ≤ 2147483647

theorem add_ok {f f' : Inflow} {n : Nat} {inc : Int} (h : InflowOK f)
    (ha : Inflow.add f n = .ok (f', inc)) :
    InflowOK f' ∧ 0 ≤ inc ∧ f'.avail = f.avail + inc ∧ inc ≤ 2147483647 := by
  unfold Inflow.add Flow.maxWindow Flow.inflowMinRefresh at ha
  have h1 := h.avail; have h2 := h.unsent; have h3 := h.sum
  split at ha
  · cases ha
  · simp only at ha
    split at ha
    · cases ha
    · split at ha
      · cases ha
        exact ⟨⟨h1, by simp only; omega, by simp only; omega⟩, by omega, by simp, by omega⟩
      · cases ha
        exact ⟨⟨by simp only; omega, by simp, by simp only; omega⟩, by omega, rfl, by omega⟩

theorem take_ok {f : Inflow} {n : Nat} (h : InflowOK f) :
    InflowOK (Inflow.take f n).1 ∧ (Inflow.take f n).1.avail ≤ f.avail ∧
    ((Inflow.take f n).2 = true → (Inflow.take f n).1.avail = f.avail - n) ∧
    ((Inflow.take f n).2 = false → (Inflow.take f n).1 = f) := by
  unfold Inflow.take
  have h1 := h.avail; have h2 := h.unsent; have h3 := h.sum
  split
  · exact ⟨h, Int.le_refl _, by simp, fun _ => rfl⟩
  · exact ⟨⟨by simp only; omega, h2, by simp only; omega⟩, by simp only; omega, fun _ => rfl, by simp⟩

theorem takeInflows_ok {f1 f2 : Inflow} {n : Nat} (h1 : InflowOK f1) (h2 : InflowOK f2)
    (hok : (takeInflows f1 f2 n).2.2 = true) :
    InflowOK (takeInflows f1 f2 n).1 ∧ InflowOK (takeInflows f1 f2 n).2.1 ∧
    (takeInflows f1 f2 n).1.avail = f1.avail - n ∧ (takeInflows f1 f2 n).2.1.avail = f2.avail - n := by
  unfold takeInflows at *
  have a1 := h1.avail; have a2 := h1.unsent; have a3 := h1.sum
  have b1 := h2.avail; have b2 := h2.unsent; have b3 := h2.sum
  split
  · rename_i hc; simp [hc] at hok
  · rename_i hc
    exact ⟨⟨by simp only; omega, a2, by simp only; omega⟩, ⟨by simp only; omega, b2, by simp only; omega⟩, rfl, rfl⟩


/-! ### relation with the monitor's receive side -/

structure RRel (s : Stream) (e : Nat × Int × Bool) : Prop where
  id : e.1 = s.id
  win : e.2.1 ≤ s.inflow.avail
  ok : InflowOK s.inflow

inductive RRels : List Stream → List (Nat × Int × Bool) → Prop where
  | nil : RRels [] []
  | cons {s : Stream} {e : Nat × Int × Bool} {l : List Stream} {rl : List (Nat × Int × Bool)} :
      RRel s e → RRels l rl → RRels (s :: l) (e :: rl)

structure RView where
  cfg : Cfg
  connIn : Inflow
  nextStreamID : Nat
  streams : List Stream

def rview (st : State) : RView :=
  { cfg := st.cfg, connIn := st.connIn, nextStreamID := st.nextStreamID, streams := st.streams }

theorem rview_forget (st : State) (s : Stream) :
    rview (forget st s) = { (rview st) with streams := setStream st.streams { s with live := false } } := by
  unfold forget; simp only; split <;> rfl

theorem rview_settle (st : State) (s : Stream) :
    rview (settle st s) =
      { (rview st) with streams := setStream st.streams (if s.live ∧ s.sentEnd ∧ s.peerEnd then { s with live := false } else s) } := by
  unfold settle
  split
  · rw [rview_forget]
  · rfl

theorem rview_terminate (st : State) (s : Stream) (b : Bool) :
    rview (terminate st s b).1 = { (rview st) with streams := setStream st.streams { s with live := false } } := by
  unfold terminate; simp only; rw [rview_forget]

structure RInv (v : RView) (r : Recv) : Prop where
  connWin : r.connWin ≤ v.connIn.avail
  connOK : InflowOK v.connIn
  initWin : (r.initWin : Int) ≤ streamInflow0 v.cfg
  initOK : InflowOK ⟨streamInflow0 v.cfg, 0⟩
  lastId : r.lastId < v.nextStreamID
  ids : ∀ e ∈ r.streams, e.1 ≤ r.lastId ∧ e.1 ≠ 0
  rel : RRels v.streams r.streams

theorem unique_of_find {l : List Stream} {id : Nat} {s : Stream}
    (hnd : (l.map (·.id)).Nodup) (hf : findStream l id = some s) :
    ∀ t ∈ l, t.id = s.id → t = s := by
  induction l with
  | nil => intro t ht; cases ht
  | cons a l ih =>
    intro t ht hid
    simp only [List.map_cons, List.nodup_cons] at hnd
    unfold findStream at hf ih
    by_cases ha : a.id = id
    · simp only [List.find?, ha, decide_true] at hf
      cases hf
      rcases List.mem_cons.mp ht with rfl | ht'
      · rfl
      · exfalso; apply hnd.1; rw [← hid]; exact List.mem_map_of_mem (f := (·.id)) ht'
    · simp only [List.find?, ha, decide_false] at hf
      rcases List.mem_cons.mp ht with rfl | ht'
      · exfalso
        have hs := List.mem_of_find?_eq_some hf
        apply hnd.1; rw [hid]; exact List.mem_map_of_mem (f := (·.id)) hs
      · exact ih hnd.2 hf t ht' hid

/-- replacing a stream by one with the same id and receive window keeps the relation -/
theorem rrels_set_same {l : List Stream} {rl : List (Nat × Int × Bool)} (h : RRels l rl)
    (hnd : (l.map (·.id)).Nodup) {id : Nat} {s s' : Stream} (hf : findStream l id = some s)
    (h1 : s'.id = s.id) (h2 : s'.inflow = s.inflow) : RRels (setStream l s') rl := by
  have huniq := unique_of_find hnd hf
  clear hf hnd
  induction h with
  | nil => exact RRels.nil
  | @cons a e l rl hr _ ih =>
    unfold setStream at *
    simp only [List.map]
    refine RRels.cons ?_ (ih (fun t ht => huniq t (List.mem_cons_of_mem _ ht)))
    split
    · rename_i hid
      have : a = s := huniq a List.mem_cons_self (by rw [hid, h1])
      subst this
      exact { id := by rw [h1]; exact hr.id, win := by rw [h2]; exact hr.win, ok := by rw [h2]; exact hr.ok }
    · exact hr

/-- a frame the receive side does not look at -/
def recvIgnores : Frame → Bool
  | .settingsAck => true
  | .priority _ => true
  | .continuation _ _ _ => true
  | .data _ _ _ => true
  | _ => false

theorem recv_ignores {r : Recv} {f : Frame} (h : recvIgnores f = true) : r.client f = .ok r := by
  cases f <;> simp [recvIgnores] at h <;> rfl

/-- the receive side marks a stream the client reset; windows are untouched -/
theorem rrels_mark {l : List Stream} {rl : List (Nat × Int × Bool)} (h : RRels l rl) (id : Nat) :
    RRels l (rl.map fun t => if t.1 = id then (t.1, t.2.1, false) else t) := by
  induction h with
  | nil => exact RRels.nil
  | cons hr _ ih =>
    simp only [List.map]
    refine RRels.cons ?_ ih
    split
    · exact { id := hr.id, win := hr.win, ok := hr.ok }
    · exact hr

theorem rinv_rst {v : RView} {r : Recv} (h : RInv v r) (id : Nat) :
    ∃ r', r.client (Frame.rst id) = .ok r' ∧ RInv v r' := by
  refine ⟨_, rfl, { h with ids := ?_, rel := rrels_mark h.rel id }⟩
  intro e he
  simp only [List.mem_map] at he
  rcases he with ⟨y, hy, rfl⟩
  split
  · exact h.ids y hy
  · exact h.ids y hy


theorem rrels_ids {l : List Stream} {rl : List (Nat × Int × Bool)} (h : RRels l rl) :
    rl.map (·.1) = l.map (·.id) := by
  induction h with
  | nil => rfl
  | cons hr _ ih => simp [hr.id, ih]

theorem rrels_find {l : List Stream} {rl : List (Nat × Int × Bool)} (h : RRels l rl) {id : Nat} {s : Stream}
    (hf : findStream l id = some s) :
    ∃ e, rl.find? (·.1 = id) = some e ∧ RRel s e ∧ e ∈ rl ∧ s.id = id := by
  induction h with
  | nil => simp [findStream] at hf
  | @cons a e l rl hr _ ih =>
    unfold findStream at hf ih
    by_cases hid : a.id = id
    · simp only [List.find?, hid, decide_true] at hf
      cases hf
      have : e.1 = id := by rw [hr.id]; exact hid
      exact ⟨e, by simp [List.find?, this], hr, List.mem_cons_self, hid⟩
    · simp only [List.find?, hid, decide_false] at hf
      have hne : ¬ e.1 = id := by rw [hr.id]; exact hid
      obtain ⟨e', h1, h2, h3, h4⟩ := ih hf
      exact ⟨e', by simp [List.find?, hne, h1], h2, List.mem_cons_of_mem _ h3, h4⟩

/-- both sides update the entry of one stream -/
theorem rrels_upd {l : List Stream} {rl : List (Nat × Int × Bool)} (h : RRels l rl)
    (hnd : (l.map (·.id)).Nodup) {id : Nat} {s s' : Stream} (hf : findStream l id = some s)
    (h1 : s'.id = s.id) (g : Nat × Int × Bool → Nat × Int × Bool)
    (hg : ∀ e, RRel s e → RRel s' (g e)) :
    RRels (setStream l s') (rl.map fun t => if t.1 = id then g t else t) := by
  have huniq := unique_of_find hnd hf
  have hsid : s.id = id := (findStream_mem hf).2
  clear hf hnd
  induction h with
  | nil => exact RRels.nil
  | @cons a e l rl hr _ ih =>
    unfold setStream at *
    simp only [List.map]
    refine RRels.cons ?_ (ih (fun t ht => huniq t (List.mem_cons_of_mem _ ht)))
    by_cases hid : a.id = s'.id
    · have : a = s := huniq a List.mem_cons_self (by rw [hid, h1])
      subst this
      have he : e.1 = id := by rw [hr.id]; exact hsid
      simp only [hid, he, if_true]
      exact hg e hr
    · have he : ¬ e.1 = id := by rw [hr.id, ← hsid, ← h1]; exact hid
      simp only [hid, he, if_false]
      exact hr

/-- the monitor alone changes entries in a way that only lowers windows or sets flags -/
theorem rrels_mon {l : List Stream} {rl : List (Nat × Int × Bool)} (h : RRels l rl)
    (g : Nat × Int × Bool → Nat × Int × Bool) (hg : ∀ e, (g e).1 = e.1 ∧ (g e).2.1 ≤ e.2.1) :
    RRels l (rl.map g) := by
  induction h with
  | nil => exact RRels.nil
  | @cons a e l rl hr _ ih =>
    simp only [List.map]
    refine RRels.cons ?_ ih
    have := hg e
    exact { id := by rw [this.1]; exact hr.id, win := Int.le_trans this.2 hr.win, ok := hr.ok }

theorem ids_map {rl : List (Nat × Int × Bool)} {k : Nat} (h : ∀ e ∈ rl, e.1 ≤ k ∧ e.1 ≠ 0)
    (g : Nat × Int × Bool → Nat × Int × Bool) (hg : ∀ e, (g e).1 = e.1) :
    ∀ e ∈ rl.map g, e.1 ≤ k ∧ e.1 ≠ 0 := by
  intro e he
  simp only [List.mem_map] at he
  rcases he with ⟨y, hy, rfl⟩
  rw [hg]; exact h y hy

/-- a connection-level WINDOW_UPDATE computed by `inflow.add` is accepted -/
theorem rsim_wu_conn {v : RView} {r : Recv} (h : RInv v r) {n : Nat} {f' : Inflow} {inc : Int}
    (ha : Inflow.add v.connIn n = .ok (f', inc)) :
    ∃ r', Recv.run r ((wuFrame 0 inc).map Event.c) = .ok r' ∧ RInv { v with connIn := f' } r' := by
  obtain ⟨hok, h0, hav, hmax⟩ := add_ok h.connOK ha
  have hcw := h.connWin
  have a1 := hok.avail; have a2 := hok.unsent; have a3 := hok.sum
  unfold wuFrame
  split
  · rename_i hpos
    refine ⟨{ r with connWin := r.connWin + inc }, ?_, { h with connWin := ?_, connOK := hok }⟩
    · have h1 : ¬ (inc < 1 ∨ inc > Monitor.maxWindow) := by unfold Monitor.maxWindow; omega
      have h2 : ¬ (r.connWin + inc > Monitor.maxWindow) := by unfold Monitor.maxWindow; omega
      simp [Recv.run, Recv.step, Recv.client, h1, h2]
    · simp only; omega
  · rename_i hpos
    refine ⟨r, rfl, { h with connWin := ?_, connOK := hok }⟩
    simp only; omega

/-- a stream-level WINDOW_UPDATE computed by `inflow.add` is accepted -/
theorem rsim_wu_stream {v : RView} {r : Recv} (h : RInv v r) (hnd : (v.streams.map (·.id)).Nodup)
    {id : Nat} {s s' : Stream} (hf : findStream v.streams id = some s) {n : Nat} {inc : Int}
    (h1 : s'.id = s.id) (ha : Inflow.add s.inflow n = .ok (s'.inflow, inc)) :
    ∃ r', Recv.run r ((wuFrame id inc).map Event.c) = .ok r' ∧
      RInv { v with streams := setStream v.streams s' } r' := by
  obtain ⟨e, hfe, hre, hmem, hsid⟩ := rrels_find h.rel hf
  obtain ⟨hok, h0, hav, hmax⟩ := add_ok hre.ok ha
  have a1 := hok.avail; have a2 := hok.unsent; have a3 := hok.sum
  have hw := hre.win
  unfold wuFrame
  split
  · rename_i hpos
    have hide := h.ids e hmem
    have he1 : e.1 = id := by rw [hre.id]; exact hsid
    have hid0 : ¬ id = 0 := by rw [← he1]; exact hide.2
    have hlast : ¬ id > r.lastId := by rw [← he1]; omega
    obtain ⟨e1, w, o⟩ := e
    simp only at he1 hw
    refine ⟨{ r with streams := r.streams.map fun t => if t.1 = id then (id, w + inc, o) else t }, ?_, ?_⟩
    · have h1' : ¬ (inc < 1 ∨ inc > Monitor.maxWindow) := by unfold Monitor.maxWindow; omega
      have h2' : ¬ (w + inc > Monitor.maxWindow) := by unfold Monitor.maxWindow; omega
      simp [Recv.run, Recv.step, Recv.client, h1', hid0, hlast, hfe, h2']
    · refine { h with ids := ?_, rel := ?_ }
      · intro x hx
        simp only [List.mem_map] at hx
        rcases hx with ⟨y, hy, rfl⟩
        split
        · rename_i hy1; simp only; rw [← hy1]; exact h.ids y hy
        · exact h.ids y hy
      · exact rrels_upd h.rel hnd hf h1 (fun _ => (id, w + inc, o)) (fun e' _ =>
          { id := by simp only; rw [h1]; exact hsid.symm, win := by simp only; omega, ok := hok })
  · refine ⟨r, rfl, { h with rel := ?_ }⟩
    have := rrels_upd h.rel hnd hf h1 (fun e => e) (fun e he =>
      { id := by rw [h1]; exact he.id, win := by have := he.win; omega, ok := hok })
    simpa using this


/-! ### caller operations -/

theorem rinv_set_same {v : RView} {r : Recv} (h : RInv v r) (hnd : (v.streams.map (·.id)).Nodup)
    {id : Nat} {s s' : Stream} (hf : findStream v.streams id = some s)
    (h1 : s'.id = s.id) (h2 : s'.inflow = s.inflow) :
    RInv { v with streams := setStream v.streams s' } r :=
  { h with rel := rrels_set_same h.rel hnd hf h1 h2 }

theorem recv_run_nil (r : Recv) : Recv.run r [] = .ok r := rfl

theorem rsim_terminate {st : State} {r : Recv} (h : RInv (rview st) r)
    (hnd : (st.streams.map (·.id)).Nodup) {id : Nat} {s s' : Stream} (b : Bool)
    (hf : findStream st.streams id = some s) (h1 : s'.id = s.id) (h2 : s'.inflow = s.inflow) :
    ∃ r', Recv.run r ((terminate st s' b).2.map Event.c) = .ok r' ∧ RInv (rview (terminate st s' b).1) r' := by
  rw [rview_terminate]
  have hbase : RInv { (rview st) with streams := setStream st.streams { s' with live := false } } r :=
    rinv_set_same h (v := rview st) hnd hf h1 h2
  unfold terminate
  simp only
  split
  · exact ⟨r, rfl, hbase⟩
  · obtain ⟨r', hr1, hr2⟩ := rinv_rst hbase s'.id
    refine ⟨r', ?_, hr2⟩
    simp only [List.map_cons, List.map_nil]
    rw [recv_run_cons_c hr1]; rfl

theorem rinv_settle {st : State} {r : Recv} (h : RInv (rview st) r)
    (hnd : (st.streams.map (·.id)).Nodup) {id : Nat} {s s' : Stream}
    (hf : findStream st.streams id = some s) (h1 : s'.id = s.id) (h2 : s'.inflow = s.inflow) :
    RInv (rview (settle st s')) r := by
  rw [rview_settle]
  exact rinv_set_same h (v := rview st) hnd hf (by split <;> simp [h1]) (by split <;> simp [h2])

theorem rsim_feed {st : State} {r : Recv} (h : RInv (rview st) r)
    (hnd : (st.streams.map (·.id)).Nodup) (id n : Nat) :
    ∃ r', Recv.run r ((feed st id n).2.map Event.c) = .ok r' ∧ RInv (rview (feed st id n).1) r' := by
  unfold feed
  split
  · exact ⟨r, rfl, h⟩
  · rename_i s hf
    split
    · exact ⟨r, rfl, rinv_set_same h (v := rview st) hnd hf rfl rfl⟩
    · exact ⟨r, rfl, h⟩

theorem writeStep_shape {c0 : Int} {mf : Nat} {s s' : Stream} {c : Int} {f : Frame}
    (hw : writeStep c0 mf s = some (c, s', f)) :
    s'.id = s.id ∧ s'.inflow = s.inflow ∧ recvIgnores f = true := by
  unfold writeStep at hw
  split at hw
  · cases hw
  · split at hw
    · split at hw
      · cases hw; exact ⟨rfl, rfl, rfl⟩
      · cases hw
    · split at hw
      · cases hw
      · cases hw; exact ⟨rfl, rfl, rfl⟩

theorem rsim_cancel {st : State} {r : Recv} (h : RInv (rview st) r)
    (hnd : (st.streams.map (·.id)).Nodup) (id : Nat) :
    ∃ r', Recv.run r ((cancel st id).2.map Event.c) = .ok r' ∧ RInv (rview (cancel st id).1) r' := by
  unfold cancel
  split
  · exact ⟨r, rfl, h⟩
  · rename_i s hf
    split
    · exact rsim_terminate h hnd false hf rfl rfl
    · exact ⟨r, rfl, h⟩

theorem rsim_creditConn {x : State × List Frame} {r r' : Recv}
    (hrun : Recv.run r (x.2.map Event.c) = .ok r') (hinv : RInv (rview x.1) r') (n : Nat) :
    ∃ r'', Recv.run r ((creditConn x n).2.map Event.c) = .ok r'' ∧ RInv (rview (creditConn x n).1) r'' := by
  unfold creditConn
  split
  · split
    · exact ⟨r', hrun, hinv⟩
    · rename_i ci connAdd hc
      obtain ⟨r1, hr1, hi1⟩ := rsim_wu_conn (v := rview x.1) hinv hc
      refine ⟨r1, ?_, hi1⟩
      rw [List.map_append]
      exact recv_run_ok_append hrun hr1
  · exact ⟨r', hrun, hinv⟩

theorem rsim_closeStream {st : State} {r : Recv} (h : RInv (rview st) r)
    (hnd : (st.streams.map (·.id)).Nodup) {id : Nat} {s s' : Stream}
    (hf : findStream st.streams id = some s) (h1 : s'.id = s.id) (h2 : s'.inflow = s.inflow) :
    ∃ r1, Recv.run r ((closeStream st s s').2.map Event.c) = .ok r1 ∧
      RInv (rview (closeStream st s s').1) r1 := by
  unfold closeStream
  split
  · exact rsim_terminate h hnd false hf h1 h2
  · exact ⟨r, rfl, rinv_set_same h (v := rview st) hnd hf h1 h2⟩

theorem rsim_readCore {st : State} {r : Recv} (h : RInv (rview st) r)
    (hnd : (st.streams.map (·.id)).Nodup) {id : Nat} {s s' : Stream}
    (hf : findStream st.streams id = some s) (h1 : s'.id = s.id) (h2 : s'.inflow = s.inflow) (k : Nat) :
    ∃ r', Recv.run r ((readCore st s' k).2.map Event.c) = .ok r' ∧ RInv (rview (readCore st s' k).1) r' := by
  have hsid : s.id = id := (findStream_mem hf).2
  unfold readCore
  split
  · exact ⟨r, rfl, h⟩
  · rename_i ci connAdd hc
    split
    · exact ⟨r, rfl, h⟩
    · rename_i si streamAdd hs
      obtain ⟨r1, hr1, hi1⟩ := rsim_wu_conn (v := rview st) h hc
      obtain ⟨r2, hr2, hi2⟩ := rsim_wu_stream (v := { (rview st) with connIn := ci }) hi1 hnd hf
        (s' := { s' with inflow := si, buffered := s'.buffered - k }) h1 (by rw [← h2]; exact hs)
      refine ⟨r2, ?_, hi2⟩
      rw [List.map_append, h1, hsid]
      exact recv_run_ok_append hr1 hr2

theorem rsim_readOverlong {st : State} {r : Recv} (h : RInv (rview st) r)
    (hnd : (st.streams.map (·.id)).Nodup) {id : Nat} {s : Stream}
    (hf : findStream st.streams id = some s) (k : Nat) :
    ∃ r', Recv.run r ((readOverlong st s k).2.map Event.c) = .ok r' ∧
      RInv (rview (readOverlong st s k).1) r' := by
  unfold readOverlong
  obtain ⟨r1, hr1, hi1⟩ := rsim_closeStream h hnd hf
    (s' := { s with buffered := s.buffered - k, readErr := true }) rfl rfl
  simp only
  split
  · exact rsim_creditConn hr1 hi1 _
  · exact ⟨r1, hr1, hi1⟩

theorem rsim_readK {st : State} {r : Recv} (h : RInv (rview st) r)
    (hnd : (st.streams.map (·.id)).Nodup) {id : Nat} {s : Stream}
    (hf : findStream st.streams id = some s) (k : Nat) :
    ∃ r', Recv.run r ((readK st s k).2.map Event.c) = .ok r' ∧ RInv (rview (readK st s k).1) r' := by
  unfold readK
  split
  · exact rsim_readCore h hnd hf rfl rfl _
  · rename_i rem _
    split
    · exact rsim_readOverlong h hnd hf _
    · exact rsim_readCore (s' := { s with bytesRemain := some (rem - k) }) h hnd hf rfl rfl _

theorem rsim_read {st : State} {r : Recv} (h : RInv (rview st) r)
    (hnd : (st.streams.map (·.id)).Nodup) (id n : Nat) :
    ∃ r', Recv.run r ((Conn.read st id n).2.map Event.c) = .ok r' ∧ RInv (rview (Conn.read st id n).1) r' := by
  unfold Conn.read
  split
  · exact ⟨r, rfl, h⟩
  · rename_i s hf
    split
    · exact rsim_readK h hnd hf _
    · exact ⟨r, rfl, h⟩

theorem rsim_close {st : State} {r : Recv} (h : RInv (rview st) r)
    (hnd : (st.streams.map (·.id)).Nodup) (id : Nat) :
    ∃ r', Recv.run r ((close st id).2.map Event.c) = .ok r' ∧ RInv (rview (close st id).1) r' := by
  unfold close
  split
  · exact ⟨r, rfl, h⟩
  · rename_i s hf
    split
    · obtain ⟨r1, hr1, hi1⟩ := rsim_closeStream h hnd hf (s' := { s with broken := true, buffered := 0 }) rfl rfl
      exact rsim_creditConn hr1 hi1 _
    · exact ⟨r, rfl, h⟩


/-! ### opening a stream -/

theorem rcont_run (id : Nat) (es : Bool) (mf : Nat) (prio fix : Bool) :
    ∀ (fuel len : Nat) (r : Recv),
      Recv.run r ((headerFrames fuel id len es mf prio fix false).map Event.c) = .ok r := by
  intro fuel
  induction fuel with
  | zero => intro len r; rfl
  | succ fuel ih =>
    intro len r
    simp only [headerFrames]
    split
    · rfl
    · simp only [Bool.false_eq_true, if_false, List.map_cons]
      rw [recv_run_cons_c (m' := r) rfl]
      exact ih _ r

theorem rheaders_run (r : Recv) (id len : Nat) (es : Bool) (mf : Nat) (prio fix : Bool)
    (hlen : 0 < len) (hid : id > r.lastId) :
    Recv.run r ((headerFrames (len + 1) id len es mf prio fix true).map Event.c) =
      .ok { r with lastId := id, streams := r.streams ++ [(id, (r.initWin : Int), true)] } := by
  have hne : ¬ len = 0 := by omega
  simp only [headerFrames, hne, if_false, if_true, List.map_cons]
  rw [recv_run_cons_c (m' := { r with lastId := id, streams := r.streams ++ [(id, (r.initWin : Int), true)] })
    (by simp [Recv.client, hid])]
  exact rcont_run id es mf prio fix _ _ _

theorem rrels_append {l : List Stream} {rl : List (Nat × Int × Bool)} (h : RRels l rl)
    {s : Stream} {e : Nat × Int × Bool} (hr : RRel s e) : RRels (l ++ [s]) (rl ++ [e]) := by
  induction h with
  | nil => exact RRels.cons hr RRels.nil
  | cons h0 _ ih => exact RRels.cons h0 ih

theorem rsim_doOpen {st : State} {r : Recv} (h : RInv (rview st) r) (rq : Req)
    (hlen : 0 < rq.hdrLen) :
    ∃ r', Recv.run r ((doOpen st rq).2.map Event.c) = .ok r' ∧
      RInv (rview (doOpen st rq).1) r' := by
  have hlast : st.nextStreamID > r.lastId := h.lastId
  have hrun := rheaders_run r st.nextStreamID rq.hdrLen
    (endOnHeaders st.cfg.fixes (!(rq.known && rq.bodyLen == 0)) rq.trailer) st.maxFrameSize st.cfg.hdrPrio
    st.cfg.fixes.hdrPrio hlen hlast
  simp only [doOpen]
  refine ⟨_, hrun, ?_⟩
  refine { h with lastId := ?_, ids := ?_, rel := ?_ }
  · show st.nextStreamID < st.nextStreamID + 2; omega
  · intro e he
    simp only [List.mem_append, List.mem_singleton] at he
    rcases he with he | rfl
    · have := h.ids e he
      exact ⟨by simp only; omega, this.2⟩
    · simp only; omega
  · show RRels (st.streams ++ [_]) (r.streams ++ [_])
    apply rrels_append h.rel
    exact { id := rfl, win := h.initWin, ok := h.initOK }

theorem rsim_openStream {st : State} {r : Recv} (h : RInv (rview st) r) (rq : Req)
    (hlen : 0 < rq.hdrLen) :
    ∃ r', Recv.run r ((openStream st rq).2.map Event.c) = .ok r' ∧
      RInv (rview (openStream st rq).1) r' := by
  unfold openStream
  split
  · exact ⟨r, rfl, h⟩
  · split
    · exact ⟨r, rfl, h⟩
    · split
      · exact rsim_doOpen h rq hlen
      · exact ⟨r, rfl, h⟩

theorem rsim_resumePending {st : State} {r : Recv} (h : RInv (rview st) r)
    (hp : ∀ a, st.pendingOpen = some a → a.hdrLen > 0) :
    ∃ r', Recv.run r ((resumePending st).2.map Event.c) = .ok r' ∧
      RInv (rview (resumePending st).1) r' := by
  unfold resumePending
  split
  · exact ⟨r, rfl, h⟩
  · rename_i rq hpo
    simp only
    split
    · exact ⟨r, rfl, h⟩
    · split
      · exact ⟨r, rfl, h⟩
      · split
        · exact rsim_doOpen (st := { st with pendingOpen := none }) h rq (hp rq hpo)
        · exact ⟨r, rfl, h⟩

/-- a header block on a stream the peer already knows (request trailers) does not concern the
receive side -/
theorem rknown_headers_run (id : Nat) (es : Bool) (mf : Nat) (prio fix : Bool) :
    ∀ (fuel len : Nat) (first : Bool) (r : Recv), ¬ id > r.lastId →
      Recv.run r ((headerFrames fuel id len es mf prio fix first).map Event.c) = .ok r := by
  intro fuel
  induction fuel with
  | zero => intro len first r _; rfl
  | succ fuel ih =>
    intro len first r hid
    simp only [headerFrames]
    split
    · rfl
    · simp only [List.map_cons]
      cases first with
      | true =>
        simp only [if_true]
        rw [recv_run_cons_c (m' := r) (by simp [Recv.client, hid])]
        exact ih _ false r hid
      | false =>
        simp only [Bool.false_eq_true, if_false]
        rw [recv_run_cons_c (m' := r) rfl]
        exact ih _ false r hid

theorem rsim_write {st : State} {r : Recv} (h : RInv (rview st) r)
    (hnd : (st.streams.map (·.id)).Nodup) (id : Nat) :
    ∃ r', Recv.run r ((write st id).2.map Event.c) = .ok r' ∧ RInv (rview (write st id).1) r' := by
  unfold write
  split
  · exact ⟨r, rfl, h⟩
  · rename_i s hf
    split
    · rename_i s' fs ht
      unfold trailerStep at ht
      split at ht
      · cases ht
      · split at ht
        · cases ht
          obtain ⟨e, _, hre, hmem, _⟩ := rrels_find h.rel hf
          have hid : ¬ s.id > r.lastId := by
            have := (h.ids e hmem).1
            rw [hre.id] at this; omega
          exact ⟨r, rknown_headers_run s.id true _ _ _ _ _ true r hid,
            rinv_settle h hnd hf (s' := { s with sentEnd := true }) rfl rfl⟩
        · cases ht
    · split
      · exact ⟨r, rfl, h⟩
      · rename_i c s' f hw
        obtain ⟨h1, h2, h3⟩ := writeStep_shape hw
        refine ⟨r, ?_, rinv_settle (st := { st with connOut := c }) h hnd hf h1 h2⟩
        simp only [List.map_cons, List.map_nil]
        rw [recv_run_cons_c (recv_ignores h3)]; rfl


/-! ### peer events -/

theorem rrels_map_same {l : List Stream} {rl : List (Nat × Int × Bool)} (h : RRels l rl)
    (f : Stream → Stream) (hf : ∀ s, (f s).id = s.id ∧ (f s).inflow = s.inflow) :
    RRels (l.map f) rl := by
  induction h with
  | nil => exact RRels.nil
  | @cons a e l rl hr _ ih =>
    simp only [List.map]
    have := hf a
    exact RRels.cons { id := by rw [this.1]; exact hr.id, win := by rw [this.2]; exact hr.win,
                       ok := by rw [this.2]; exact hr.ok } ih

theorem deltaStream_inflow (delta : Int) (s : Stream) : (deltaStream delta s).inflow = s.inflow := by
  unfold deltaStream; split
  · split <;> rfl
  · rfl

theorem rinv_applySetting {st st' : State} {r : Recv} {sm sm' : Bool} {p : Nat × Nat}
    (h : RInv (rview st) r) (heq : applySetting st sm p = some (st', sm')) : RInv (rview st') r := by
  unfold applySetting at heq
  split at heq
  · split at heq
    · cases heq
    · cases heq; exact h
  · split at heq
    · cases heq; exact h
    · split at heq
      · split at heq
        · cases heq
        · cases heq
          exact { h with rel := rrels_map_same h.rel _ (fun s => ⟨deltaStream_id _ s, deltaStream_inflow _ s⟩) }
      · cases heq; exact h

theorem rinv_applySettings {vals : List (Nat × Nat)} :
    ∀ {st st' : State} {r : Recv} {sm sm' : Bool},
    RInv (rview st) r → applySettings st sm vals = some (st', sm') → RInv (rview st') r := by
  induction vals with
  | nil =>
    intro st st' r sm sm' h heq
    simp only [applySettings, Option.some.injEq, Prod.mk.injEq] at heq
    obtain ⟨rfl, rfl⟩ := heq
    exact h
  | cons p ps ih =>
    intro st st' r sm sm' h heq
    unfold applySettings at heq
    split at heq
    · cases heq
    · rename_i st1 sm1 h1
      exact ih (rinv_applySetting h h1) heq

theorem rsim_peerSettings {st : State} {r : Recv} (h : RInv (rview st) r) (vals : List (Nat × Nat)) :
    ∃ r', Recv.run (r.peer (.settings vals)) ((peerSettings st vals).2.map Event.c) = .ok r' ∧
      RInv (rview (peerSettings st vals).1) r' := by
  unfold peerSettings
  split
  · exact ⟨r, rfl, h⟩
  · rename_i st1 seenMax hsome
    have h1 := rinv_applySettings h hsome
    refine ⟨r, ?_, ?_⟩
    · simp only [List.map_cons, List.map_nil]
      rw [recv_run_cons_c (m' := r.peer (.settings vals)) rfl]; rfl
    · simp only
      split
      · exact h1
      · exact h1

theorem rsim_peerSettingsAck {st : State} {r : Recv} (h : RInv (rview st) r) :
    ∃ r', Recv.run (r.peer .settingsAck) ((peerSettingsAck st).2.map Event.c) = .ok r' ∧
      RInv (rview (peerSettingsAck st).1) r' := by
  unfold peerSettingsAck
  split
  · exact ⟨r, rfl, h⟩
  · exact ⟨r, rfl, h⟩

theorem rsim_peerWindowUpdate {st : State} {r : Recv} (h : RInv (rview st) r)
    (hnd : (st.streams.map (·.id)).Nodup) (id inc : Nat) :
    ∃ r', Recv.run (r.peer (.windowUpdate id inc)) ((peerWindowUpdate st id inc).2.map Event.c) = .ok r' ∧
      RInv (rview (peerWindowUpdate st id inc).1) r' := by
  unfold peerWindowUpdate
  split
  · split
    · exact ⟨r, rfl, h⟩
    · split
      · exact ⟨r, rfl, h⟩
      · exact ⟨r, rfl, h⟩
  · split
    · exact ⟨r, rfl, h⟩
    · rename_i s hf
      split
      · exact ⟨r, rfl, h⟩
      · split
        · exact rsim_terminate h hnd false hf rfl rfl
        · split
          · exact ⟨r, rfl, rinv_set_same h (v := rview st) hnd hf rfl rfl⟩
          · exact rsim_terminate h hnd false hf rfl rfl

theorem rinv_peer_flags {v : RView} {r : Recv} (h : RInv v r)
    (g : Nat × Int × Bool → Nat × Int × Bool) (hg : ∀ e, (g e).1 = e.1 ∧ (g e).2.1 ≤ e.2.1) :
    RInv v { r with streams := r.streams.map g } :=
  { h with ids := ids_map h.ids g (fun e => (hg e).1), rel := rrels_mon h.rel g hg }

theorem rsim_peerRst {st : State} {r : Recv} (h : RInv (rview st) r)
    (hnd : (st.streams.map (·.id)).Nodup) (id code : Nat) :
    ∃ r', Recv.run (r.peer (.rst id code)) ((peerRst st id code).2.map Event.c) = .ok r' ∧
      RInv (rview (peerRst st id code).1) r' := by
  have hbase : RInv (rview st) (r.peer (.rst id code)) := by
    simp only [Recv.peer]
    exact rinv_peer_flags h _ (fun e => by split <;> simp)
  unfold peerRst
  split
  · exact ⟨_, rfl, hbase⟩
  · rename_i s hf
    split
    · exact ⟨_, rfl, hbase⟩
    · exact rsim_terminate (st := { st with doNotReuse := st.doNotReuse || decide (code = 1) }) hbase hnd true hf rfl rfl

theorem rsim_abortAbove (last : Nat) (ids : List Nat) :
    ∀ {st : State} {m : Send} {r : Recv}, SInv (view st) m → RInv (rview st) r →
    ∃ r', Recv.run r ((abortAbove last ids st).2.map Event.c) = .ok r' ∧
      RInv (rview (abortAbove last ids st).1) r' := by
  induction ids with
  | nil => intro st m r _ h; exact ⟨r, rfl, h⟩
  | cons id rest ih =>
    intro st m r hs h
    unfold abortAbove
    split
    · exact ih hs h
    · rename_i s hf
      split
      · rename_i hc
        obtain ⟨m1, _, hs1⟩ := sim_terminate_client hs hf hc.1 rfl rfl rfl
        obtain ⟨r1, hr1, hi1⟩ := rsim_terminate h hs.nodup false hf (s' := s) rfl rfl
        obtain ⟨r2, hr2, hi2⟩ := ih hs1 hi1
        refine ⟨r2, ?_, hi2⟩
        simp only [List.map_append]
        exact recv_run_ok_append hr1 hr2
      · exact ih hs h

theorem rsim_peerGoAway {st : State} {m : Send} {r : Recv} (hs : SInv (view st) m) (h : RInv (rview st) r)
    (last : Nat) :
    ∃ r', Recv.run (r.peer (.goaway last)) ((peerGoAway st last).2.map Event.c) = .ok r' ∧
      RInv (rview (peerGoAway st last).1) r' := by
  unfold peerGoAway
  exact rsim_abortAbove last _ (st := { st with goAway := true }) hs h

theorem rsim_peerResp {st : State} {r : Recv} (h : RInv (rview st) r)
    (hnd : (st.streams.map (·.id)).Nodup) (id : Nat) (es : Bool) (status : Nat) (cl : Option Nat) :
    ∃ r', Recv.run (r.peer (.resp id es status cl)) ((peerResp st id es status cl).2.map Event.c) = .ok r' ∧
      RInv (rview (peerResp st id es status cl).1) r' := by
  have hbase : RInv (rview st) (r.peer (.resp id es status cl)) := by
    simp only [Recv.peer]
    exact rinv_peer_flags h _ (fun e => by split <;> simp)
  unfold peerResp
  split
  · exact ⟨_, rfl, hbase⟩
  · rename_i s hf
    split
    · exact ⟨_, rfl, hbase⟩
    · split
      · exact rsim_terminate hbase hnd false hf rfl rfl
      · split
        · split
          · exact rsim_terminate hbase hnd false hf rfl rfl
          · split
            · split
              · exact rsim_terminate hbase hnd false hf rfl rfl
              · exact ⟨_, rfl, rinv_set_same hbase (v := rview st) hnd hf rfl rfl⟩
            · exact ⟨_, rfl, rinv_settle hbase hnd hf rfl rfl⟩
        · split
          · exact ⟨_, rfl, hbase⟩
          · exact ⟨_, rfl, rinv_settle hbase hnd hf rfl rfl⟩


theorem setStream_setStream (l : List Stream) (a b : Stream) (h : a.id = b.id) :
    setStream (setStream l a) b = setStream l b := by
  unfold setStream
  rw [List.map_map]
  apply List.map_congr_left
  intro x _
  simp only [Function.comp]
  by_cases hx : x.id = a.id
  · simp [hx, h]
  · have : ¬ x.id = b.id := by rw [← h]; exact hx
    simp [hx, this]

theorem find_setStream {l : List Stream} {id : Nat} {s s' : Stream}
    (hf : findStream l id = some s) (h1 : s'.id = s.id) : findStream (setStream l s') id = some s' := by
  have hsid : s.id = id := (findStream_mem hf).2
  induction l with
  | nil => simp [findStream] at hf
  | cons a l ih =>
    unfold findStream at hf ih ⊢
    unfold setStream at ih ⊢
    simp only [List.map]
    by_cases ha : a.id = id
    · have : a.id = s'.id := by rw [h1, hsid]; exact ha
      have hs' : s'.id = id := by rw [h1]; exact hsid
      simp [List.find?, this, hs']
    · simp only [List.find?, ha, decide_false] at hf
      have : ¬ a.id = s'.id := by rw [h1, hsid]; exact ha
      simp only [this, if_false, List.find?, ha, decide_false]
      exact ih hf

theorem forget_connIn (st : State) (s : Stream) (c : Inflow) :
    ({ (forget st s) with connIn := c } : State) = forget { st with connIn := c } s := by
  unfold forget; simp only; split <;> rfl

theorem terminate_connIn (st : State) (s : Stream) (b : Bool) (c : Inflow) :
    terminate { st with connIn := c } s b =
      ({ (terminate st s b).1 with connIn := c }, (terminate st s b).2) := by
  unfold terminate; simp only [forget_connIn]

/-- a DATA frame dropped with a stream error; `hbase` = after the peer's own bookkeeping -/
theorem rsim_discardData {st : State} {r rp : Recv} (h : RInv (rview st) r)
    (hnd : (st.streams.map (·.id)).Nodup) {id : Nat} {s : Stream} (hf : findStream st.streams id = some s)
    (n : Nat) (hbase : RInv (rview st) rp) (hrp : rp.connWin = r.connWin - (n : Int)) :
    ∃ r', Recv.run rp ((discardData st s (n : Int)).2.map Event.c) = .ok r' ∧
      RInv (rview (discardData st s (n : Int)).1) r' := by
  have hcw : r.connWin ≤ st.connIn.avail := h.connWin
  have hcok : InflowOK st.connIn := h.connOK
  unfold discardData
  simp only
  split
  · have htk := take_ok (f := st.connIn) (n := n) hcok
    rcases hT : Inflow.take st.connIn (n : Int) with ⟨ci, ok⟩
    rw [hT] at htk
    simp only at htk
    split
    · exact ⟨_, rfl, hbase⟩
    · rename_i ci' connAdd hadd
      split
      · exact ⟨_, rfl, hbase⟩
      · rename_i hok
        have hok' : ok = true := by
          cases ok with
          | true => rfl
          | false => exact absurd rfl hok
        have hav := htk.2.2.1 hok'
        have h1 : RInv (rview { st with connIn := ci }) rp :=
          { hbase with connWin := by simp only [rview]; omega, connOK := htk.1 }
        obtain ⟨r1, hr1, hi1⟩ := rsim_terminate (st := { st with connIn := ci }) h1 hnd false hf (s' := s) rfl rfl
        rw [terminate_connIn] at hr1 hi1
        simp only at hr1 hi1
        obtain ⟨r2, hr2, hi2⟩ := rsim_wu_conn (v := rview { (terminate st s false).1 with connIn := ci }) hi1 hadd
        refine ⟨r2, ?_, hi2⟩
        rw [List.map_append]
        exact recv_run_ok_append hr1 hr2
  · exact rsim_terminate hbase hnd false hf rfl rfl

theorem rsim_peerData {st : State} {r : Recv} (h : RInv (rview st) r)
    (hnd : (st.streams.map (·.id)).Nodup) (id len pad : Nat) (es : Bool) :
    ∃ r', Recv.run (r.peer (.data id len pad es)) ((peerData st id len pad es).2.map Event.c) = .ok r' ∧
      RInv (rview (peerData st id len pad es).1) r' := by
  have hflen : (0 : Int) ≤ ((len + pad : Nat) : Int) := by omega
  have hcw : r.connWin ≤ st.connIn.avail := h.connWin
  have hcok : InflowOK st.connIn := h.connOK
  -- the peer's own books
  have hbase : RInv (rview st) (r.peer (.data id len pad es)) := by
    simp only [Recv.peer]
    have := rinv_peer_flags h (fun t => if t.1 = id then (t.1, t.2.1 - ((len + pad : Nat) : Int), t.2.2 && !es) else t)
      (fun e => by split <;> simp <;> omega)
    exact { this with connWin := by simp only [rview]; omega }
  unfold peerData
  simp only
  split
  · -- unknown or forgotten stream: connection-level accounting only
    split
    · exact ⟨_, rfl, hbase⟩
    · split
      · have htk := take_ok (f := st.connIn) (n := len + pad) hcok
        rcases hT : Inflow.take st.connIn ((len + pad : Nat) : Int) with ⟨ci, ok⟩
        rw [hT] at htk
        simp only at htk
        split
        · exact ⟨_, rfl, hbase⟩
        · rename_i ci' connAdd hadd
          split
          · exact ⟨_, rfl, hbase⟩
          · rename_i hok
            have hok' : ok = true := by
              cases ok with
              | true => rfl
              | false => exact absurd rfl hok
            have hav := htk.2.2.1 hok'
            have h1 : RInv { (rview st) with connIn := ci } (r.peer (.data id len pad es)) :=
              { hbase with connWin := by simp only [Recv.peer]; omega, connOK := htk.1 }
            exact rsim_wu_conn h1 hadd
      · exact ⟨_, rfl, hbase⟩
  · rename_i s hfs
    have hfl : findStream st.streams id = some s := by
      cases hf : findStream st.streams id with
      | none => rw [hf] at hfs; simp at hfs
      | some s0 =>
        rw [hf] at hfs
        simp only [Option.filter] at hfs
        split at hfs
        · cases hfs; rfl
        · cases hfs
    have hsid : s.id = id := (findStream_mem hfl).2
    split
    · exact rsim_discardData h hnd hfl (len + pad) hbase (by simp only [Recv.peer])
    · split
      · obtain ⟨e, _, hre, _, _⟩ := rrels_find h.rel hfl
        have hto := takeInflows_ok (f1 := st.connIn) (f2 := s.inflow) (n := len + pad) hcok hre.ok
        rcases hT : takeInflows st.connIn s.inflow ((len + pad : Nat) : Int) with ⟨ci, si, ok⟩
        rw [hT] at hto
        simp only at hto
        split
        · exact ⟨_, rfl, hbase⟩
        · rename_i hok
          have hok' : ok = true := by
            cases ok with
            | true => rfl
            | false => exact absurd rfl hok
          obtain ⟨t1, t2, t3, t4⟩ := hto hok'
          -- after both sides have booked the frame
          have h1 : RInv { (rview st) with connIn := ci, streams := setStream st.streams { s with inflow := si } }
              (r.peer (.data id len pad es)) := by
            simp only [Recv.peer]
            refine { h with connWin := ?_, connOK := t1, ids := ?_, rel := ?_ }
            · simp only; omega
            · exact ids_map h.ids _ (fun e => by split <;> simp)
            · exact rrels_upd h.rel hnd hfl (s' := { s with inflow := si }) rfl
                (fun t => (t.1, t.2.1 - ((len + pad : Nat) : Int), t.2.2 && !es))
                (fun e' he' => { id := he'.id, win := by have := he'.win; simp only; omega, ok := t2 })
          split
          · exact ⟨_, rfl, hbase⟩
          · rename_i ci' sendConn hc
            split
            · exact ⟨_, rfl, hbase⟩
            · rename_i si' sendStream hs
              obtain ⟨r1, hr1, hi1⟩ := rsim_wu_conn h1 hc
              have hnd1 : ((setStream st.streams { s with inflow := si }).map (·.id)).Nodup := by
                rw [setStream_ids st.streams { s with inflow := si } hfl rfl]; exact hnd
              have hf1 := find_setStream (s' := { s with inflow := si }) hfl rfl
              rw [rview_settle]
              obtain ⟨r2, hr2, hi2⟩ := rsim_wu_stream hi1 hnd1 hf1
                (s' := if s.live = true ∧ s.sentEnd = true ∧ es = true then
                         { s with inflow := si', buffered := s.buffered + len, peerEnd := es, live := false }
                       else { s with inflow := si', buffered := s.buffered + len, peerEnd := es })
                (n := pad) (inc := sendStream) (by split <;> rfl) (by split <;> exact hs)
              refine ⟨r2, ?_, ?_⟩
              · rw [List.map_append]
                exact recv_run_ok_append hr1 hr2
              · rw [setStream_setStream _ _ _ (by split <;> rfl)] at hi2
                exact hi2
      · exact ⟨_, rfl, rinv_settle hbase hnd hfl rfl rfl⟩


/-! ### one operation, a whole run (jointly with the send side, which provides the
distinctness of stream ids) -/

theorem rsim_peer {st : State} {m : Send} {r : Recv} (hs : SInv (view st) m) (h : RInv (rview st) r) (f : PFrame) :
    ∃ r', Recv.run (r.peer f) ((Conn.peer st f).2.map Event.c) = .ok r' ∧ RInv (rview (Conn.peer st f).1) r' := by
  cases f with
  | settings vals => exact rsim_peerSettings h vals
  | settingsAck => exact rsim_peerSettingsAck h
  | windowUpdate id inc => exact rsim_peerWindowUpdate h hs.nodup id inc
  | rst id code => exact rsim_peerRst h hs.nodup id code
  | goaway last => exact rsim_peerGoAway hs h last
  | resp id e status cl => exact rsim_peerResp h hs.nodup id e status cl
  | data id len pad e => exact rsim_peerData h hs.nodup id len pad e
  | ping ack d =>
    simp only [Conn.peer, peerPing]
    split
    · exact ⟨r, rfl, h⟩
    · exact ⟨r, rfl, h⟩
  | pushPromise id p => exact ⟨r, rfl, h⟩

theorem rsim_apply {st : State} {m : Send} {r : Recv} (hs : SInv (view st) m) (h : RInv (rview st) r)
    (op : Op) (hok : op.ok) :
    ∃ r', Recv.run r (opEvents op (apply st op).2) = .ok r' ∧ RInv (rview (apply st op).1) r' := by
  cases op with
  | openReq rq => exact rsim_openStream h rq hok
  | feed id n => exact rsim_feed h hs.nodup id n
  | write id => exact rsim_write h hs.nodup id
  | cancel id => exact rsim_cancel h hs.nodup id
  | read id n => exact rsim_read h hs.nodup id n
  | close id => exact rsim_close h hs.nodup id
  | wake => exact ⟨r, rfl, h⟩
  | peer f =>
    obtain ⟨r', h1, h2⟩ := rsim_peer hs h f
    refine ⟨r', ?_, h2⟩
    simp only [opEvents, apply, List.singleton_append]
    rw [recv_run_cons_p]
    exact h1

theorem joint_step {st : State} {m : Send} {r : Recv} (hs : SInv (view st) m) (h : RInv (rview st) r)
    (op : Op) (hok : op.ok) :
    ∃ m' r', Send.run m (if st.closed then [] else opEvents op (step st op).2) = .ok m' ∧
      Recv.run r (if st.closed then [] else opEvents op (step st op).2) = .ok r' ∧
      SInv (view (step st op).1) m' ∧ RInv (rview (step st op).1) r' := by
  unfold step
  cases hc : st.closed with
  | true => simp only [if_true]; exact ⟨m, r, rfl, rfl, hs, h⟩
  | false =>
    simp only [Bool.false_eq_true, if_false]
    obtain ⟨m1, a1, a2⟩ := sim_apply hs op hok
    obtain ⟨r1, b1, b2⟩ := rsim_apply hs h op hok
    split
    · obtain ⟨m2, a3, a4⟩ := sim_resumePending a2
      obtain ⟨r2, b3, b4⟩ := rsim_resumePending b2 (fun x hx => a2.pendOpen x hx)
      refine ⟨m2, r2, ?_, ?_, a4, b4⟩
      · rw [opEvents_append]; exact send_run_ok_append a1 a3
      · rw [opEvents_append]; exact recv_run_ok_append b1 b3
    · exact ⟨m1, r1, a1, b1, a2, b2⟩

theorem joint_runFrom (ops : List Op) (hok : ∀ op ∈ ops, op.ok) :
    ∀ {st : State} {m m0 : Send} {r r0 : Recv} {hist : List Event},
    Send.run m0 hist = .ok m → Recv.run r0 hist = .ok r → SInv (view st) m → RInv (rview st) r →
    ∃ m' r', Send.run m0 (runFrom st hist ops).2 = .ok m' ∧ Recv.run r0 (runFrom st hist ops).2 = .ok r' ∧
      SInv (view (runFrom st hist ops).1) m' ∧ RInv (rview (runFrom st hist ops).1) r' := by
  induction ops with
  | nil => intro st m m0 r r0 hist h1 h2 h3 h4; exact ⟨m, r, h1, h2, h3, h4⟩
  | cons op rest ih =>
    intro st m m0 r r0 hist h1 h2 h3 h4
    unfold runFrom
    obtain ⟨m1, r1, a1, a2, a3, a4⟩ := joint_step h3 h4 op (hok op List.mem_cons_self)
    exact ih (fun o ho => hok o (List.mem_cons_of_mem _ ho)) (send_run_ok_append h1 a1)
      (recv_run_ok_append h2 a2) a3 a4


/-! ### the initial state -/

/-- SETTINGS_INITIAL_WINDOW_SIZE as advertised in the connection preface -/
def advertisedInitWin (cfg : Cfg) : Nat :=
  match lastSetting (initialSettings cfg) sInitialWindowSize with
  | some v => v
  | none => 65535

theorem lastSetting_default (mhl : Nat) :
    lastSetting ([(sEnablePush, 0), (sInitialWindowSize, 4194304)] ++
      (if mhl = 0 then [] else [(sMaxHeaderListSize, mhl)])) sInitialWindowSize = some 4194304 := by
  unfold lastSetting
  split <;> simp [sEnablePush, sInitialWindowSize, sMaxHeaderListSize]

theorem advertised_le (cfg : Cfg) (hfix : cfg.fixes = Fixes.all) (hok : cfg.ok) :
    ((advertisedInitWin cfg : Nat) : Int) ≤ streamInflow0 cfg ∧ InflowOK ⟨streamInflow0 cfg, 0⟩ ∧
    advertisedInitWin cfg ≤ 2147483647 := by
  have hsi : cfg.fixes.streamInflow = true := by rw [hfix]; rfl
  unfold advertisedInitWin streamInflow0 initialSettings
  rw [hsi]
  simp only [if_true]
  cases he : cfg.settings.isEmpty with
  | true =>
    have hnil : cfg.settings = [] := by simpa using he
    simp only [if_true, lastSetting_default, hnil]
    have : lastSetting ([] : List (Nat × Nat)) sInitialWindowSize = none := rfl
    rw [this]
    simp only [transportDefaultStreamFlow]
    exact ⟨by omega, ⟨by simp, by simp, by simp⟩, by omega⟩
  | false =>
    simp only [Bool.false_eq_true, if_false]
    cases hl : lastSetting cfg.settings sInitialWindowSize with
    | none =>
      simp only [transportDefaultStreamFlow]
      exact ⟨by omega, ⟨by simp, by simp, by simp⟩, by omega⟩
    | some v =>
      have hv := hok.1 v hl
      have hw : wrap32 (v : Int) = v := wrap32_of_in32 (by unfold In32; omega)
      simp only [hw]
      exact ⟨Int.le_refl _, ⟨by simp only; omega, by simp, by simp only; omega⟩, hv⟩

theorem rpreface_run (cfg : Cfg) (hfix : cfg.fixes = Fixes.all) (hok : cfg.ok) :
    Recv.run Recv.init ((newConn cfg).2.map Event.c) =
      .ok { initWin := advertisedInitWin cfg, connWin := 65535 + connFlowAdvertised cfg.connFlow, lastId := 0, streams := [] } := by
  have hadv := (advertised_le cfg hfix hok).2.2
  have hcf := hok.2
  have hcf1 : 1 ≤ connFlowAdvertised cfg.connFlow := by
    unfold connFlowAdvertised transportDefaultConnFlow; split <;> omega
  simp only [newConn, List.map_cons, List.cons_append, List.nil_append]
  -- SETTINGS
  have h1 : Recv.init.client (Frame.settings (initialSettings cfg)) =
      .ok { initWin := advertisedInitWin cfg, connWin := 65535, lastId := 0, streams := [] } := by
    unfold advertisedInitWin at hadv ⊢
    simp only [Recv.client, Recv.init]
    cases hl : lastSetting (initialSettings cfg) sInitialWindowSize with
    | none => rfl
    | some v =>
      rw [hl] at hadv
      simp only at hadv
      have : ¬ v > 2147483647 := by omega
      simp [this]
  rw [recv_run_cons_c h1]
  -- the connection-level WINDOW_UPDATE
  have h2 : ({ initWin := advertisedInitWin cfg, connWin := 65535, lastId := 0, streams := [] } : Recv).client
      (Frame.windowUpdate 0 (connFlowAdvertised cfg.connFlow)) =
      .ok { initWin := advertisedInitWin cfg, connWin := 65535 + connFlowAdvertised cfg.connFlow, lastId := 0, streams := [] } := by
    have a1 : ¬ (connFlowAdvertised cfg.connFlow < 1 ∨ connFlowAdvertised cfg.connFlow > Monitor.maxWindow) := by
      unfold Monitor.maxWindow; omega
    have a2 : ¬ (65535 + connFlowAdvertised cfg.connFlow > Monitor.maxWindow) := by
      unfold Monitor.maxWindow; omega
    simp [Recv.client, a1, a2]
  rw [recv_run_cons_c h2]
  -- PRIORITY frames are not the receive side's business
  generalize cfg.prio = l
  induction l with
  | nil => rfl
  | cons a l ih =>
    simp only [List.filter]
    split
    · simp only [List.map_cons]
      rw [recv_run_cons_c (m' := _) rfl]
      exact ih
    · exact ih

theorem rinv_init (cfg : Cfg) (hfix : cfg.fixes = Fixes.all) (hok : cfg.ok) :
    RInv (rview (newConn cfg).1)
      { initWin := advertisedInitWin cfg, connWin := 65535 + connFlowAdvertised cfg.connFlow, lastId := 0, streams := [] } := by
  obtain ⟨h1, h2, _⟩ := advertised_le cfg hfix hok
  have hcf := hok.2
  have hcf1 : 1 ≤ connFlowAdvertised cfg.connFlow := by
    unfold connFlowAdvertised transportDefaultConnFlow; split <;> omega
  have hci : connInflowInit cfg.connFlow = connFlowAdvertised cfg.connFlow + 65535 := by
    unfold connInflowInit
    have w1 : wrap32 (connFlowAdvertised cfg.connFlow) = connFlowAdvertised cfg.connFlow :=
      wrap32_of_in32 (by unfold In32; omega)
    rw [w1]
    exact wrap32_of_in32 (by unfold In32; omega)
  have hn := nextStreamID0_odd cfg hfix
  exact { connWin := by simp only [rview, newConn, hci]; omega,
          connOK := ⟨by simp only [rview, newConn, hci]; omega, by simp [rview, newConn],
                     by simp only [rview, newConn, hci]; omega⟩,
          initWin := h1, initOK := h2,
          lastId := by simp only [rview, newConn]; omega,
          ids := (by intro e he; cases he),
          rel := RRels.nil }

end Req.Lemmas.C06
