import Req.Base.PercentEncoding
import Req.Lemmas.U8
/-! Lemmas about `escape` / `unescape` (helpers for Props/C01). -/
namespace Req.Pct
open Req.Proto

def isUpperHexDigit (b : UInt8) : Bool := (48 ≤ b && b ≤ 57) || (65 ≤ b && b ≤ 70)

set_option maxRecDepth 100000 in
theorem hexRound (c : UInt8) :
    (unhex (upperHex (c >>> 4)) <<< 4) ||| unhex (upperHex (c &&& 15)) = c := by
  have := Req.U8.all
    (fun c => (unhex (upperHex (c >>> 4)) <<< 4) ||| unhex (upperHex (c &&& 15)) == c) (by decide) c
  simpa using this

set_option maxRecDepth 100000 in
theorem upperHex_hi (c : UInt8) : isUpperHexDigit (upperHex (c >>> 4)) = true :=
  Req.U8.all (fun c => isUpperHexDigit (upperHex (c >>> 4))) (by decide) c

set_option maxRecDepth 100000 in
theorem upperHex_lo (c : UInt8) : isUpperHexDigit (upperHex (c &&& 15)) = true :=
  Req.U8.all (fun c => isUpperHexDigit (upperHex (c &&& 15))) (by decide) c

set_option maxRecDepth 100000 in
theorem ishex_of_upper (b : UInt8) : (!isUpperHexDigit b || ishex b) = true :=
  Req.U8.all (fun b => !isUpperHexDigit b || ishex b) (by decide) b

theorem escape_nil (m : Mode) : escape m [] = [] := rfl

theorem escape_cons (m : Mode) (c : UInt8) (s : Bytes) :
    escape m (c :: s) = escByte m c ++ escape m s := by
  simp [escape, List.flatMap_cons]

theorem escape_append (m : Mode) (a b : Bytes) : escape m (a ++ b) = escape m a ++ escape m b := by
  simp [escape, List.flatMap_append]

/-- Every output byte of `escByte` is `%`, an upper-case hex digit, the `+` that stands for a
space in a query component, or the input byte itself when it needs no escaping. -/
theorem mem_escByte {m : Mode} {c b : UInt8} (h : b ∈ escByte m c) :
    b = 37 ∨ isUpperHexDigit b = true ∨ (b = 43 ∧ c = 32 ∧ m = .queryComponent) ∨
      (b = c ∧ shouldEscape c m = false) := by
  unfold escByte at h
  split at h
  next h1 =>
    simp only [Bool.and_eq_true, beq_iff_eq] at h1
    simp only [List.mem_singleton] at h
    exact Or.inr (Or.inr (Or.inl ⟨h, h1.1, h1.2⟩))
  next =>
    split at h
    next =>
      simp only [List.mem_cons, List.not_mem_nil, or_false] at h
      rcases h with h | h | h
      · exact Or.inl h
      · exact Or.inr (Or.inl (h ▸ upperHex_hi c))
      · exact Or.inr (Or.inl (h ▸ upperHex_lo c))
    next h2 =>
      simp only [List.mem_singleton] at h
      exact Or.inr (Or.inr (Or.inr ⟨h, by simpa using h2⟩))

theorem mem_escape {m : Mode} {s : Bytes} {b : UInt8} (h : b ∈ escape m s) :
    b = 37 ∨ isUpperHexDigit b = true ∨ (b = 43 ∧ m = .queryComponent) ∨
      (b ∈ s ∧ shouldEscape b m = false) := by
  unfold escape at h
  obtain ⟨c, hc, hb⟩ := List.mem_flatMap.mp h
  rcases mem_escByte hb with h | h | h | h
  · exact Or.inl h
  · exact Or.inr (Or.inl h)
  · exact Or.inr (Or.inr (Or.inl ⟨h.1, h.2.2⟩))
  · exact Or.inr (Or.inr (Or.inr ⟨h.1 ▸ hc, h.1 ▸ h.2⟩))

/-- a byte emitted verbatim is not `%`, and is `+` only outside query components. -/
def rtFact (m : Mode) (c : UInt8) : Bool :=
  shouldEscape c m || (c != 37 && !(c == 43 && m == .queryComponent))

set_option maxRecDepth 100000 in
theorem rtFact_all (m : Mode) (c : UInt8) : rtFact m c = true := by
  cases m <;> exact Req.U8.all _ (by decide) c

theorem unescape_cons_plain (m : Mode) (hm1 : m ≠ .host) (hm2 : m ≠ .zone) (c : UInt8)
    (rest : Bytes) (h37 : c ≠ 37) (h43 : c = 43 → m ≠ .queryComponent) :
    unescape m (c :: rest) = (unescape m rest).map (c :: ·) := by
  rw [unescape.eq_def]
  have e37 : (c == 37) = false := by simpa using h37
  simp only [e37, Bool.false_eq_true, if_false]
  by_cases hc : c = 43
  · subst hc
    have : (m == Mode.queryComponent) = false := by simpa using h43 rfl
    simp [this]
  · have e43 : (c == 43) = false := by simpa using hc
    have eh : (m == Mode.host) = false := by simpa using hm1
    have ez : (m == Mode.zone) = false := by simpa using hm2
    simp [e43, eh, ez]

theorem unescape_cons_plus_query (rest : Bytes) :
    unescape .queryComponent (43 :: rest) = (unescape .queryComponent rest).map (32 :: ·) := by
  rw [unescape.eq_def]
  simp

theorem unescape_escByte (m : Mode) (hm1 : m ≠ .host) (hm2 : m ≠ .zone) (c : UInt8)
    (rest : Bytes) : unescape m (escByte m c ++ rest) = (unescape m rest).map (c :: ·) := by
  unfold escByte
  split
  next h1 =>
    simp only [Bool.and_eq_true, beq_iff_eq] at h1
    obtain ⟨hc, hq⟩ := h1
    subst hc; subst hq
    exact unescape_cons_plus_query rest
  next h1 =>
    split
    next h2 =>
      have hhi := ishex_of_upper (upperHex (c >>> 4))
      have hlo := ishex_of_upper (upperHex (c &&& 15))
      rw [upperHex_hi] at hhi
      rw [upperHex_lo] at hlo
      simp only [Bool.not_true, Bool.false_or] at hhi hlo
      have eh : (m == Mode.host) = false := by simpa using hm1
      have ez : (m == Mode.zone) = false := by simpa using hm2
      simp only [List.cons_append, List.nil_append]
      rw [unescape.eq_def]
      simp [hhi, hlo, eh, ez, hexRound]
    next h2 =>
      have hf := rtFact_all m c
      unfold rtFact at hf
      have h2' : shouldEscape c m = false := by simpa using h2
      simp only [h2', Bool.false_or, Bool.and_eq_true, bne_iff_ne, ne_eq, Bool.not_eq_true',
        Bool.and_eq_false_imp, beq_iff_eq] at hf
      simp only [List.cons_append, List.nil_append]
      apply unescape_cons_plain m hm1 hm2 c rest hf.1
      intro h43 hq
      have := hf.2 h43
      simp [hq] at this

/-- **escape then unescape is the identity** for every mode except host/zone (where Go itself
refuses `%XX` of an ASCII byte). -/
theorem unescape_escape (m : Mode) (hm1 : m ≠ .host) (hm2 : m ≠ .zone) (s : Bytes) :
    unescape m (escape m s) = some s := by
  induction s with
  | nil => simp [escape, unescape]
  | cons c s ih =>
    rw [escape_cons, unescape_escByte m hm1 hm2, ih]
    rfl

/-- generalisation with a tail, used by the query parser round trip. -/
theorem unescape_escape_append (m : Mode) (hm1 : m ≠ .host) (hm2 : m ≠ .zone) (s rest : Bytes) :
    unescape m (escape m s ++ rest) = (unescape m rest).map (s ++ ·) := by
  induction s with
  | nil => simp [escape]
  | cons c s ih =>
    rw [escape_cons, List.append_assoc, unescape_escByte m hm1 hm2, ih]
    cases unescape m rest <;> simp

end Req.Pct
