import Req.Lemmas.C13Program
/-! The flush schedule of the HTTP/1.1 write program: independence of the dump tags, and
promptness of streamed bodies. -/
namespace Req.H1.DumpWrite
open Req.Proto Req.H1

/-- forget through which dump wrapper a write goes. -/
def Op.erase : Op → Op
  | .write d _ => .write d .raw
  | op => op

theorem step_erase (B : Nat) (s s' : St) (op : Op) (hw : s.w = s'.w) (hp : s.pending = s'.pending) :
    (step B s op).w = (step B s' op.erase).w ∧ (step B s op).pending = (step B s' op.erase).pending := by
  cases op with
  | write d t => simp [step, Op.erase, hw, hp]
  | flush => simp [step, Op.erase, hw, hp]
  | flushIfFull => simp only [step, Op.erase, hw, hp]; split <;> first | exact ⟨rfl, rfl⟩ | exact ⟨hw, hp⟩
  | read => simp [step, Op.erase, hw, hp]

/-- What the connection and the body producer can observe — bytes on the wire, bytes withheld,
error state, the withheld count at every body read — does not depend on the dump tags. -/
theorem run_erase (B : Nat) (ops : List Op) : ∀ s s' : St, s.w = s'.w → s.pending = s'.pending →
    (run B s ops).w = (run B s' (ops.map Op.erase)).w ∧
    (run B s ops).pending = (run B s' (ops.map Op.erase)).pending := by
  induction ops with
  | nil => intro s s' hw hp; exact ⟨hw, hp⟩
  | cons op ops ih =>
    intro s s' hw hp
    have h := step_erase B s s' op hw hp
    exact ih (step B s op) (step B s' op.erase) h.1 h.2

theorem headOps_erase (t : Tag) (line : Bytes) (fields : Hdr) :
    (headOps t line fields).map Op.erase = headOps .raw line fields := by
  simp [headOps, Op.erase, List.map_map, Function.comp_def]

theorem chunkOps_erase (t : Tag) (p : Bytes) : (chunkOps t p).map Op.erase = chunkOps .raw p := by
  unfold chunkOps; split <;> simp [Op.erase]

theorem map_flatMap' {α : Type} (g : Op → Op) (f : α → List Op) (l : List α) :
    (l.flatMap f).map g = l.flatMap (fun x => (f x).map g) := by
  induction l with
  | nil => rfl
  | cons x xs ih => simp [List.flatMap_cons, ih]

/-- The erased program depends on the mode only through `flushHeaders`, `bodyFails`, the
CONNECT flush and — for bodies of known length only — the copy path. -/
theorem program_erase (m line : Bytes) (fields : Hdr) (f : Framing) (md md' : Mode) (pieces : List Bytes)
    (h1 : md.flushHeaders = md'.flushHeaders) (h2 : md.bodyFails = md'.bodyFails)
    (h3 : connectFlush m md = connectFlush m md')
    (h4 : f.chunked = true ∨ (f.cl == -1) = true ∨ f.sendBody = false ∨ md.bodyDump = md'.bodyDump) :
    (program m line fields f md pieces).map Op.erase = (program m line fields f md' pieces).map Op.erase := by
  unfold program
  simp only [List.map_append, headOps_erase, h1]
  congr 1
  unfold bodyOps
  by_cases h0 : f.sendBody
  · simp only [h0, Bool.not_true, Bool.false_eq_true, ↓reduceIte]
    by_cases hc : f.chunked
    · simp only [hc, ↓reduceIte, List.map_append, map_flatMap', List.map_cons, chunkOps_erase, h2]
      congr 1
      by_cases hx : md'.bodyFails <;> simp [hx, Op.erase]
    · simp only [hc, Bool.false_eq_true, ↓reduceIte]
      by_cases hl : (f.cl == -1) = true
      · simp only [hl, ↓reduceIte, map_flatMap', h3]
        congr 1
        funext p
        by_cases hp : p.isEmpty
        · simp [hp, Op.erase]
        · by_cases hcf : connectFlush m md' <;> simp [hp, hcf, Op.erase]
      · have hbd : md.bodyDump = md'.bodyDump := by
          rcases h4 with h | h | h | h
          · exact absurd h hc
          · exact absurd h hl
          · rw [h0] at h; cases h
          · exact h
        simp only [hl, Bool.false_eq_true, ↓reduceIte, hbd, h2]
  · simp [h0]

/-! ### promptness -/

def Zw (s : St) : Prop := s.w.limit = none ∧ s.w.err = false ∧ ∀ n ∈ s.pending, n = 0
def Z (s : St) : Prop := Zw s ∧ s.w.buf = []

theorem Zw_write (B : Nat) (s : St) (d : Bytes) (t : Tag) (h : Zw s) : Zw (step B s (.write d t)) := by
  have hn := write_nofail B s.w d h.1 h.2.1
  exact ⟨hn.1, hn.2.1, h.2.2⟩

theorem Z_flush (B : Nat) (s : St) (h : Zw s) : Z (step B s .flush) := by
  have hn := flush_nofail s.w h.1 h.2.1
  exact ⟨⟨hn.1, hn.2.1, h.2.2⟩, hn.2.2.1⟩

theorem Z_read (B : Nat) (s : St) (h : Z s) : Z (step B s .read) := by
  refine ⟨⟨h.1.1, h.1.2.1, ?_⟩, h.2⟩
  intro n hn
  simp only [step, List.mem_append, List.mem_singleton] at hn
  rcases hn with hn | hn
  · exact h.1.2.2 n hn
  · rw [hn, h.2]; rfl

theorem Z_chunk (B : Nat) (t : Tag) (p : Bytes) (s : St) (h : Z s) :
    Z (run B s (Op.read :: chunkOps t p)) := by
  rw [run_cons]
  have h1 := Z_read B s h
  unfold chunkOps
  split
  · exact h1
  · simp only [run, List.foldl_cons, List.foldl_nil]
    exact Z_flush B _ (Zw_write B _ _ _ (Zw_write B _ _ _ (Zw_write B _ _ _ h1.1)))

theorem Z_pieces_chunked (B : Nat) (t : Tag) (pieces : List Bytes) :
    ∀ s, Z s → Z (run B s (pieces.flatMap fun p => Op.read :: chunkOps t p)) := by
  induction pieces with
  | nil => intro s h; exact h
  | cons p ps ih =>
    intro s h
    rw [List.flatMap_cons, run_append]
    exact ih _ (Z_chunk B t p s h)

theorem Z_pieces_stream (B : Nat) (t : Tag) (pieces : List Bytes) :
    ∀ s, Z s → Z (run B s (pieces.flatMap fun p =>
      Op.read :: (if p.isEmpty then [] else Op.write p t :: [Op.flush]))) := by
  induction pieces with
  | nil => intro s h; exact h
  | cons p ps ih =>
    intro s h
    rw [List.flatMap_cons, run_append]
    apply ih
    rw [run_cons]
    have h1 := Z_read B s h
    split
    · exact h1
    · simp only [run, List.foldl_cons, List.foldl_nil]
      exact Z_flush B _ (Zw_write B _ _ _ h1.1)

theorem Zw_writes (B : Nat) (ops : List Op) (hw : ∀ op ∈ ops, ∃ d t, op = .write d t) :
    ∀ s, Zw s → Zw (run B s ops) := by
  induction ops with
  | nil => intro s h; exact h
  | cons op ops ih =>
    intro s h
    obtain ⟨d, t, rfl⟩ := hw op (List.mem_cons_self ..)
    rw [run_cons]
    exact ih (fun o ho => hw o (List.mem_cons_of_mem _ ho)) _ (Zw_write B s d t h)

end Req.H1.DumpWrite
