import Req.H2.Cut
import Req.Lemmas.C06Pump
import Req.Lemmas.C06Credit
/-!
C06, round 5 — helper lemmas for `Req.Props.C06Cut`: a script with operations inside somebody's
frame write (`Req.H2.Cut.XOp`) is, for the code as it is (`Variant.real`), a run of the atomic
connection machine: same final state, same history.
-/
namespace Req.Lemmas.C06
open Req.H2 Req.H2.Conn Req.H2.Cut

theorem clientFrames_append (a b : List Event) :
    clientFrames (a ++ b) = clientFrames a ++ clientFrames b := by
  simp [clientFrames, List.filterMap_append]

theorem clientFrames_map_c (fs : List Frame) : clientFrames (fs.map Event.c) = fs := by
  induction fs with
  | nil => rfl
  | cons f fs ih =>
    simp only [List.map_cons, clientFrames, List.filterMap_cons] at ih ⊢
    rw [ih]

theorem clientFrames_opEvents (op : Op) (fs : List Frame) : clientFrames (opEvents op fs) = fs := by
  unfold opEvents
  rw [clientFrames_append, clientFrames_map_c]
  cases op <;> simp [clientFrames]

/-- `writeHeaders` never looks at the cancellation: whatever the cut, the whole block is written -/
theorem writeBlock_real (cut : Nat) : ∀ (w : Nat) (fs : List Frame), writeBlock false cut w fs = fs := by
  intro w fs
  induction fs generalizing w with
  | nil => rfl
  | cons f fs ih => simp [writeBlock, ih]

theorem stepEvents_noPeer (st : State) (op : Op) (h : ∀ f, op ≠ .peer f) :
    stepEvents st op = (step st op).2.map Event.c := by
  unfold stepEvents
  cases hc : st.closed with
  | true => simp [step_closed hc]
  | false =>
    cases op with
    | peer f => exact absurd rfl (h f)
    | _ => simp [opEvents]

theorem step_is_run (st : State) (hist : List Event) (op : Op) :
    runFrom st hist [op] = ((step st op).1, hist ++ stepEvents st op) := by
  simp [runFrom, stepEvents]

/-- a pumped script step is a run of the machine on the operation, a wake-up and `write`
operations — state AND history (`pump_is_run` has the state only) -/
theorem scriptStep_is_run (st : State) (hist : List Event) (op : Op) :
    ∃ ws : List Op, (∀ o ∈ ws, ∃ id, o = Op.write id) ∧
      runFrom st hist (op :: Op.wake :: ws) = ((scriptStep st op).1, hist ++ scriptEvents st op) := by
  generalize hst1 : (step (step st op).1 Op.wake).1 = st1
  generalize hh1 : hist ++ stepEvents st op ++ stepEvents (step st op).1 Op.wake = hist1
  obtain ⟨ws, hw1, hw2⟩ := pumpAll_is_run (st1.streams.map (·.id)) st1 hist1
  obtain ⟨ws', hw1', hw2'⟩ := pumpAll_is_run
    (((pumpAll st1 (st1.streams.map (·.id))).1.streams.drop st1.streams.length).map (·.id))
    (pumpAll st1 (st1.streams.map (·.id))).1
    (hist1 ++ (pumpAll st1 (st1.streams.map (·.id))).2.map Event.c)
  refine ⟨ws ++ ws', ?_, ?_⟩
  · intro o ho
    rcases List.mem_append.mp ho with h | h
    · exact hw1 o h
    · exact hw1' o h
  · have hwake : stepEvents (step st op).1 Op.wake = (step (step st op).1 Op.wake).2.map Event.c :=
      stepEvents_noPeer _ _ (by intro f h; cases h)
    have e1 : runFrom st hist (op :: Op.wake :: (ws ++ ws')) =
        runFrom st1 hist1 (ws ++ ws') := by
      simp only [runFrom]
      unfold stepEvents at hh1
      rw [hst1, hh1]
    rw [e1, runFrom_append, hw2]
    simp only
    rw [hw2']
    simp only [scriptStep, scriptEvents, hst1]
    rw [← hh1, hwake]
    unfold stepEvents
    simp [List.append_assoc]

theorem clientFrames_scriptEvents (st : State) (op : Op) :
    clientFrames (scriptEvents st op) = (scriptStep st op).2 := by
  unfold scriptEvents scriptStep
  simp only
  rw [clientFrames_append, clientFrames_map_c]
  cases hc : st.closed with
  | true => simp [step_closed hc, clientFrames]
  | false => simp [clientFrames_opEvents, List.append_assoc]

/-- writes, wake-ups, feeds and cancellations are always well-formed -/
theorem ok_of_write {o : Op} (h : ∃ id, o = Op.write id) : o.ok := by
  obtain ⟨id, rfl⟩ := h
  trivial

theorem xstepE_is_run (st : State) (hist : List Event) (x : XOp) :
    ∃ ops : List Op, (x.ok → ∀ o ∈ ops, o.ok) ∧
      runFrom st hist ops = ((xstepE Variant.real st x).1, hist ++ (xstepE Variant.real st x).2) := by
  cases x with
  | plain op =>
    obtain ⟨ws, hw, hr⟩ := scriptStep_is_run st hist op
    refine ⟨op :: Op.wake :: ws, ?_, ?_⟩
    · intro hok o ho
      rcases List.mem_cons.mp ho with h | ho
      · subst h; exact hok
      rcases List.mem_cons.mp ho with h | ho
      · subst h; trivial
      · exact ok_of_write (hw o ho)
    · simpa [xstepE] using hr
  | openCancel r cut =>
    obtain ⟨ws, hw, hr⟩ := scriptStep_is_run (step st (.openReq r)).1
      (hist ++ stepEvents st (.openReq r)) (.cancel st.nextStreamID)
    refine ⟨[Op.openReq r] ++ (Op.cancel st.nextStreamID :: Op.wake :: ws), ?_, ?_⟩
    · intro hok o ho
      rcases List.mem_append.mp ho with h | ho
      · have : o = Op.openReq r := by simpa using h
        subst this; exact hok
      rcases List.mem_cons.mp ho with h | ho
      · subst h; trivial
      rcases List.mem_cons.mp ho with h | ho
      · subst h; trivial
      · exact ok_of_write (hw o ho)
    · rw [runFrom_append, step_is_run]
      simp only
      rw [hr]
      have hev : stepEvents st (.openReq r) = (step st (.openReq r)).2.map Event.c :=
        stepEvents_noPeer _ _ (by intro f h; cases h)
      simp only [xstepE, Variant.real, writeBlock_real]
      cases hc : st.closed with
      | true => simp [stepEvents, hc]
      | false => simp [stepEvents, hc, opEvents, List.append_assoc]
  | held fid n o =>
    obtain ⟨ws, hw, hr⟩ := scriptStep_is_run st hist (.feed fid n)
    obtain ⟨ws', hw', hr'⟩ := scriptStep_is_run (scriptStep st (.feed fid n)).1
      (hist ++ scriptEvents st (.feed fid n)) o
    refine ⟨(Op.feed fid n :: Op.wake :: ws) ++ (o :: Op.wake :: ws'), ?_, ?_⟩
    · intro hok p hp
      rcases List.mem_append.mp hp with hp | hp
      · rcases List.mem_cons.mp hp with h | hp
        · subst h; trivial
        rcases List.mem_cons.mp hp with h | hp
        · subst h; trivial
        · exact ok_of_write (hw p hp)
      · rcases List.mem_cons.mp hp with h | hp
        · subst h; exact hok
        rcases List.mem_cons.mp hp with h | hp
        · subst h; trivial
        · exact ok_of_write (hw' p hp)
    · rw [runFrom_append, hr]
      simp only
      rw [hr']
      simp [xstepE, Variant.real, List.append_assoc]
  | feedCancel fid n cut =>
    obtain ⟨ws, hw, hr⟩ := scriptStep_is_run st hist (.feed fid n)
    obtain ⟨ws', hw', hr'⟩ := scriptStep_is_run (scriptStep st (.feed fid n)).1
      (hist ++ scriptEvents st (.feed fid n)) (.cancel fid)
    refine ⟨(Op.feed fid n :: Op.wake :: ws) ++ (Op.cancel fid :: Op.wake :: ws'), ?_, ?_⟩
    · intro _ p hp
      rcases List.mem_append.mp hp with hp | hp
      · rcases List.mem_cons.mp hp with h | hp
        · subst h; trivial
        rcases List.mem_cons.mp hp with h | hp
        · subst h; trivial
        · exact ok_of_write (hw p hp)
      · rcases List.mem_cons.mp hp with h | hp
        · subst h; trivial
        rcases List.mem_cons.mp hp with h | hp
        · subst h; trivial
        · exact ok_of_write (hw' p hp)
    · rw [runFrom_append, hr]
      simp only
      rw [hr']
      simp [xstepE, Variant.real, List.append_assoc]

theorem xrunFrom_is_run (xs : List XOp) :
    ∀ (st : State) (hist : List Event),
    ∃ ops : List Op, ((∀ x ∈ xs, x.ok) → ∀ o ∈ ops, o.ok) ∧
      runFrom st hist ops = xrunFrom Variant.real st hist xs := by
  induction xs with
  | nil => intro st hist; exact ⟨[], by simp, rfl⟩
  | cons x xs ih =>
    intro st hist
    obtain ⟨ops, hok, hr⟩ := xstepE_is_run st hist x
    obtain ⟨ops', hok', hr'⟩ := ih (xstepE Variant.real st x).1 (hist ++ (xstepE Variant.real st x).2)
    refine ⟨ops ++ ops', ?_, ?_⟩
    · intro hx o ho
      rcases List.mem_append.mp ho with h | h
      · exact hok (hx x (List.mem_cons_self ..)) o h
      · exact hok' (fun y hy => hx y (List.mem_cons_of_mem _ hy)) o h
    · rw [runFrom_append, hr]
      simp only [xrunFrom]
      exact hr'

/-! ### `Body.Close` empties the stream's buffer, whatever state the response is in -/

theorem sumBuffered_filter_ne (id : Nat) (l : List Stream)
    (h : ∀ t ∈ l, t.id = id → t.buffered = 0) :
    sumBuffered l = sumBuffered (l.filter (fun t => t.id ≠ id)) := by
  induction l with
  | nil => rfl
  | cons t l ih =>
    have ih' := ih (fun u hu => h u (List.mem_cons_of_mem _ hu))
    by_cases ht : t.id = id
    · have := h t (List.mem_cons_self ..) ht
      simp [sumBuffered, ht, this, ih']
    · simp [sumBuffered, ht, ih']

theorem setStream_buffered (l : List Stream) (s' : Stream) (h0 : s'.buffered = 0) :
    ∀ t ∈ setStream l s', t.id = s'.id → t.buffered = 0 := by
  intro t ht hid
  unfold setStream at ht
  obtain ⟨u, _, hu⟩ := List.mem_map.mp ht
  by_cases hc : u.id = s'.id
  · simp [hc] at hu; rw [← hu]; exact h0
  · simp [hc] at hu; rw [← hu] at hid; exact absurd hid hc

theorem findStream_id {l : List Stream} {id : Nat} {s : Stream} (h : findStream l id = some s) : s.id = id := by
  unfold findStream at h
  have := List.find?_some h
  simpa using this

/-- the streams of `resumePending`: the old ones, or one fresh stream (empty buffer) appended -/
theorem resumePending_streams (st : State) :
    ∀ t ∈ (resumePending st).1.streams, t ∈ st.streams ∨ t.buffered = 0 := by
  intro t ht
  unfold resumePending at ht
  cases hp : st.pendingOpen with
  | none => rw [hp] at ht; exact Or.inl ht
  | some r =>
    rw [hp] at ht
    dsimp only at ht
    split at ht
    · exact Or.inl ht
    · split at ht
      · exact Or.inl ht
      · split at ht
        · simp only [doOpen, List.mem_append, List.mem_singleton] at ht
          rcases ht with h | h
          · exact Or.inl h
          · right; rw [h]
        · exact Or.inl ht

/-- after an effective `Body.Close` (the response has a body that was not closed before) every
stream with that id has an empty buffer -/
theorem close_step_buffered (st : State) (id : Nat) (s : Stream)
    (hc : st.closed = false) (hf : findStream st.streams id = some s)
    (h1 : s.gotHeaders = true) (h2 : s.noBody = false) (h3 : s.broken = false) :
    ∀ t ∈ (step st (.close id)).1.streams, t.id = id → t.buffered = 0 := by
  have hid := findStream_id hf
  have hclose : ∀ t ∈ (close st id).1.streams, t.id = id → t.buffered = 0 := by
    intro t ht htid
    have hcl : close st id = creditConn (closeStream st s { s with broken := true, buffered := 0 }) s.buffered := by
      unfold close
      rw [hf]
      simp [h1, h2, h3]
    rw [hcl] at ht
    have hcs : ∀ t ∈ (closeStream st s { s with broken := true, buffered := 0 }).1.streams, t.id = id → t.buffered = 0 := by
      intro t ht htid
      unfold closeStream at ht
      split at ht
      · simp only [terminate, forget] at ht
        have hmem : t ∈ setStream st.streams { s with broken := true, buffered := 0, live := false } := by
          split at ht <;> exact ht
        exact setStream_buffered _ _ rfl t hmem (by simpa [hid] using htid)
      · exact setStream_buffered _ _ rfl t ht (by simpa [hid] using htid)
    have hcc : (creditConn (closeStream st s { s with broken := true, buffered := 0 }) s.buffered).1.streams =
        (closeStream st s { s with broken := true, buffered := 0 }).1.streams := by
      unfold creditConn
      split
      · split <;> rfl
      · rfl
    rw [hcc] at ht
    exact hcs t ht htid
  intro t ht htid
  unfold step at ht
  simp only [hc, Bool.false_eq_true, if_false, apply] at ht
  have hite : ∀ (c : Prop) [Decidable c] (a b : State × List Frame),
      t ∈ (if c then a else b).1.streams → t ∈ a.1.streams ∨ t ∈ b.1.streams := by
    intro c _ a b h
    split at h
    · exact Or.inl h
    · exact Or.inr h
  rcases hite _ _ _ ht with ht | ht
  · rcases resumePending_streams _ t ht with h | h
    · exact hclose t h htid
    · exact h
  · exact hclose t ht htid

end Req.Lemmas.C06
