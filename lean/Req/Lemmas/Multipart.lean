import Req.Client.Multipart
import Req.Lemmas.Form
/-! Helper lemmas for the multipart round trip (C17): quoting and `parseMediaType`. -/
namespace Req.Multipart
open Req.Proto Req.Ascii

/-! ### consumeQuoted unfolding -/

theorem cq_quote (r : Bytes) : consumeQuoted (34 :: r) = some ([], r) := by
  conv => lhs; rw [consumeQuoted.eq_def]
  simp

theorem cq_esc (d : UInt8) (r : Bytes) (h : isTSpecial d = true) :
    consumeQuoted (92 :: d :: r) = (consumeQuoted r).map fun x => (d :: x.1, x.2) := by
  conv => lhs; rw [consumeQuoted.eq_def]
  simp [h]

theorem cq_lit (c : UInt8) (r : Bytes) (h34 : (c == 34) = false) (h92 : (c == 92) = false)
    (h13 : (c == 13) = false) (h10 : (c == 10) = false) :
    consumeQuoted (c :: r) = (consumeQuoted r).map fun x => (c :: x.1, x.2) := by
  conv => lhs; rw [consumeQuoted.eq_def]
  simp [h34, h92, h13, h10]

/-! ### byte facts (exhaustive) -/

set_option maxRecDepth 100000 in
theorem pct_facts : ∀ d, d < 16 →
    (Req.Form.upperHex d == 34) = false ∧ (Req.Form.upperHex d == 92) = false ∧
    (Req.Form.upperHex d == 13) = false ∧ (Req.Form.upperHex d == 10) = false ∧
    headerUnsafe (Req.Form.upperHex d) = false := by decide

set_option maxRecDepth 100000 in
theorem safe_facts : ∀ c : UInt8, headerUnsafe c = false → (c == 13) = false ∧ (c == 10) = false := by
  apply Req.Form.byte_forall
  decide

set_option maxRecDepth 100000 in
theorem token_not_blank : ∀ c : UInt8, isTokenChar c = true → isBlank c = false := by
  apply Req.Form.byte_forall
  decide

/-- A percent-encoded byte passes through a quoted-string unchanged. -/
theorem cq_pct (c : UInt8) (r : Bytes) :
    consumeQuoted (pctByte c ++ r) = (consumeQuoted r).map fun x => (pctByte c ++ x.1, x.2) := by
  obtain ⟨a1, a2, a3, a4, -⟩ := pct_facts _ (Req.Form.toNat_div16_lt c)
  obtain ⟨b1, b2, b3, b4, -⟩ := pct_facts _ (Req.Form.toNat_mod16_lt c)
  simp only [pctByte, List.cons_append, List.nil_append]
  rw [cq_lit 37 _ (by decide) (by decide) (by decide) (by decide),
    cq_lit _ _ a1 a2 a3 a4, cq_lit _ _ b1 b2 b3 b4]
  cases consumeQuoted r <;> simp

theorem cq_quoteByte (c : UInt8) (r : Bytes) :
    consumeQuoted (quoteByte c ++ r) = (consumeQuoted r).map fun x => (arriveByte c ++ x.1, x.2) := by
  unfold quoteByte arriveByte
  split
  next h =>
    have : c = 92 := by simpa using h
    subst this
    rw [show ([92, 92] ++ r : Bytes) = 92 :: 92 :: r from rfl, cq_esc 92 r (by decide)]
    simp [show headerUnsafe 92 = false by decide]
  next h92 =>
    split
    next h =>
      have : c = 34 := by simpa using h
      subst this
      rw [show ([92, 34] ++ r : Bytes) = 92 :: 34 :: r from rfl, cq_esc 34 r (by decide)]
      simp [show headerUnsafe 34 = false by decide]
    next h34 =>
      split
      next hu => exact cq_pct c r
      next hu =>
        have hu' : headerUnsafe c = false := by simpa using hu
        obtain ⟨h13, h10⟩ := safe_facts c hu'
        rw [show ([c] ++ r : Bytes) = c :: r from rfl,
          cq_lit c r (by simpa using h34) (by simpa using h92) h13 h10]
        simp

/-- **The quoting lemma**: a standard parser reads the repaired quoting of ANY byte string
back as `arrive s`. -/
theorem cq_quote_all (s r : Bytes) :
    consumeQuoted (quote s ++ 34 :: r) = some (arrive s, r) := by
  induction s with
  | nil => simp [quote, arrive, cq_quote]
  | cons c cs ih =>
    have h1 : quote (c :: cs) = quoteByte c ++ quote cs := by simp [quote]
    have h2 : arrive (c :: cs) = arriveByte c ++ arrive cs := by simp [arrive]
    rw [h1, h2, List.append_assoc, cq_quoteByte, ih]
    simp

theorem arrive_safe (s : Bytes) (h : ∀ c ∈ s, headerUnsafe c = false) : arrive s = s := by
  induction s with
  | nil => simp [arrive]
  | cons c cs ih =>
    have hc := h c (by simp)
    have := ih (fun x hx => h x (List.mem_cons_of_mem _ hx))
    simp only [arrive] at this
    simp [arrive, arriveByte, hc, this]

theorem arrive_ne_nil (s : Bytes) (h : s ≠ []) : arrive s ≠ [] := by
  cases s with
  | nil => exact absurd rfl h
  | cons c cs =>
    simp only [arrive, List.flatMap_cons]
    unfold arriveByte pctByte
    split <;> simp

/-- Every byte of the repaired quoting may stand in a header field value. -/
theorem quote_valid (s : Bytes) : ∀ c ∈ quote s, validValueByte c = true := by
  intro c hc
  simp only [quote, List.mem_flatMap] at hc
  obtain ⟨x, -, hx⟩ := hc
  unfold quoteByte at hx
  split at hx
  · simp at hx; rcases hx with rfl | rfl <;> decide
  · split at hx
    · simp at hx; rcases hx with rfl | rfl <;> decide
    · split at hx
      · simp [pctByte] at hx
        rcases hx with rfl | rfl | rfl
        · decide
        · simp [validValueByte, (pct_facts _ (Req.Form.toNat_div16_lt x)).2.2.2.2]
        · simp [validValueByte, (pct_facts _ (Req.Form.toNat_mod16_lt x)).2.2.2.2]
      next hu =>
        simp at hx; subst hx
        simp [validValueByte] at hu ⊢
        exact hu

/-- `escapeQuotes` (stdlib field names) read back, when the name has no CR / LF. -/
theorem cq_escapeQuotes (s r : Bytes) (h : ∀ c ∈ s, (c == 13) = false ∧ (c == 10) = false) :
    consumeQuoted (escapeQuotes s ++ 34 :: r) = some (s, r) := by
  induction s with
  | nil => simp [escapeQuotes, cq_quote]
  | cons c cs ih =>
    have hc := h c (by simp)
    have ih' := ih (fun x hx => h x (List.mem_cons_of_mem _ hx))
    have h1 : escapeQuotes (c :: cs) =
        (if c == 92 then [92, 92] else if c == 34 then [92, 34] else [c]) ++ escapeQuotes cs := by
      simp [escapeQuotes]
    rw [h1, List.append_assoc]
    split
    next h =>
      have : c = 92 := by simpa using h
      subst this
      rw [show ([92, 92] ++ (escapeQuotes cs ++ 34 :: r) : Bytes) = 92 :: 92 :: (escapeQuotes cs ++ 34 :: r) from rfl,
        cq_esc 92 _ (by decide), ih']
      simp
    next h92 =>
      split
      next h =>
        have : c = 34 := by simpa using h
        subst this
        rw [show ([92, 34] ++ (escapeQuotes cs ++ 34 :: r) : Bytes) = 92 :: 34 :: (escapeQuotes cs ++ 34 :: r) from rfl,
          cq_esc 34 _ (by decide), ih']
        simp
      next h34 =>
        rw [show ([c] ++ (escapeQuotes cs ++ 34 :: r) : Bytes) = c :: (escapeQuotes cs ++ 34 :: r) from rfl,
          cq_lit c _ (by simpa using h34) (by simpa using h92) hc.1 hc.2, ih']
        simp

/-! ### takeWhile / dropWhile -/

theorem takeWhile_append_stop {α} (p : α → Bool) (k : List α) (c : α) (r : List α)
    (hk : ∀ x ∈ k, p x = true) (hc : p c = false) : (k ++ c :: r).takeWhile p = k := by
  induction k with
  | nil => simp [List.takeWhile, hc]
  | cons x xs ih =>
    have hx := hk x (by simp)
    simp [List.takeWhile, hx, ih (fun y hy => hk y (List.mem_cons_of_mem _ hy))]

theorem dropWhile_append_stop {α} (p : α → Bool) (k : List α) (c : α) (r : List α)
    (hk : ∀ x ∈ k, p x = true) (hc : p c = false) : (k ++ c :: r).dropWhile p = c :: r := by
  induction k with
  | nil => simp [List.dropWhile, hc]
  | cons x xs ih =>
    have hx := hk x (by simp)
    simp [List.dropWhile, hx, ih (fun y hy => hk y (List.mem_cons_of_mem _ hy))]

theorem takeWhile_all {α} (p : α → Bool) (k : List α) (hk : ∀ x ∈ k, p x = true) :
    k.takeWhile p = k := by
  induction k with
  | nil => simp
  | cons x xs ih =>
    simp [List.takeWhile, hk x (by simp), ih (fun y hy => hk y (List.mem_cons_of_mem _ hy))]

theorem dropWhile_all {α} (p : α → Bool) (k : List α) (hk : ∀ x ∈ k, p x = true) :
    k.dropWhile p = [] := by
  induction k with
  | nil => simp
  | cons x xs ih =>
    simp [List.dropWhile, hk x (by simp), ih (fun y hy => hk y (List.mem_cons_of_mem _ hy))]

/-! ### one `; key="…"` parameter -/

/-- One step of `parseParams` over `; key="q"` where the quoted text `q` reads back as `val`. -/
theorem parseParams_step (fuel : Nat) (k q val R : Bytes)
    (hk : k ≠ []) (hkt : ∀ x ∈ k, isTokenChar x = true)
    (hq : consumeQuoted (q ++ 34 :: R) = some (val, R)) :
    parseParams (fuel + 1) ([59, 32] ++ k ++ [61, 34] ++ q ++ [34] ++ R) =
      match parseParams fuel R with
      | .error e => .error e
      | .ok ps => .ok ((lower k, val) :: ps) := by
  obtain ⟨k0, ks, rfl⟩ := List.exists_cons_of_ne_nil hk
  have hk0 : isTokenChar k0 = true := hkt k0 (by simp)
  have hb0 : isBlank k0 = false := token_not_blank k0 hk0
  have hshape : ([59, 32] ++ (k0 :: ks) ++ [61, 34] ++ q ++ [34] ++ R : Bytes)
      = 59 :: 32 :: ((k0 :: ks) ++ 61 :: (34 :: (q ++ 34 :: R))) := by simp
  rw [hshape]
  conv => lhs; rw [parseParams.eq_def]
  have hs1 : skipWs (59 :: 32 :: ((k0 :: ks) ++ 61 :: (34 :: (q ++ 34 :: R))))
      = 59 :: 32 :: ((k0 :: ks) ++ 61 :: (34 :: (q ++ 34 :: R))) := by
    simp [skipWs, List.dropWhile, show isBlank 59 = false by decide]
  have hs2 : skipWs (32 :: ((k0 :: ks) ++ 61 :: (34 :: (q ++ 34 :: R))))
      = (k0 :: ks) ++ 61 :: (34 :: (q ++ 34 :: R)) := by
    simp [skipWs, List.dropWhile, show isBlank 32 = true by decide, hb0]
  have htk : ((k0 :: ks) ++ 61 :: (34 :: (q ++ 34 :: R))).takeWhile isTokenChar = k0 :: ks :=
    takeWhile_append_stop _ _ _ _ hkt (by decide)
  have hdk : ((k0 :: ks) ++ 61 :: (34 :: (q ++ 34 :: R))).dropWhile isTokenChar
      = 61 :: (34 :: (q ++ 34 :: R)) :=
    dropWhile_append_stop _ _ _ _ hkt (by decide)
  have hs3 : skipWs (61 :: (34 :: (q ++ 34 :: R))) = 61 :: (34 :: (q ++ 34 :: R)) := by
    simp [skipWs, List.dropWhile, show isBlank 61 = false by decide]
  have hs4 : skipWs (34 :: (q ++ 34 :: R)) = 34 :: (q ++ 34 :: R) := by
    simp [skipWs, List.dropWhile, show isBlank 34 = false by decide]
  simp only [hs1, hs2, htk, hdk, hs3, hs4, hq]
  cases hpp : parseParams fuel R <;> simp

theorem parseParams_nil (fuel : Nat) : parseParams (fuel + 1) [] = .ok [] := by
  simp [parseParams, skipWs]

end Req.Multipart

namespace Req.Multipart
open Req.Proto Req.Ascii

/-! ### parameter lists -/

theorem cdParam_shape (p : Bytes × Bytes) (R : Bytes) :
    cdParam p ++ R = [59, 32] ++ p.1 ++ [61, 34] ++ quote p.2 ++ [34] ++ R := by
  simp [cdParam]

/-- A whole `ContentDisposition.string` is read back parameter by parameter. -/
theorem parseParams_cdParams (l : List (Bytes × Bytes)) (fuel : Nat) (hf : l.length < fuel)
    (hk : ∀ p ∈ l, p.1 ≠ [] ∧ ∀ x ∈ p.1, isTokenChar x = true) :
    parseParams fuel (l.flatMap cdParam) = .ok (l.map fun p => (lower p.1, arrive p.2)) := by
  induction l generalizing fuel with
  | nil =>
    obtain ⟨n, rfl⟩ : ∃ n, fuel = n + 1 := ⟨fuel - 1, by simp at hf; omega⟩
    simp [parseParams_nil]
  | cons p ps ih =>
    obtain ⟨n, rfl⟩ : ∃ n, fuel = n + 1 := ⟨fuel - 1, by simp at hf; omega⟩
    have hp := hk p (by simp)
    have := ih n (by simp at hf; omega) (fun q hq => hk q (List.mem_cons_of_mem _ hq))
    rw [List.flatMap_cons, cdParam_shape,
      parseParams_step n p.1 (quote p.2) (arrive p.2) _ hp.1 hp.2 (cq_quote_all _ _), this]
    simp

theorem dupConflict_nodup (ps : List (Bytes × Bytes)) (h : (ps.map (·.1)).Nodup) :
    dupConflict ps = false := by
  induction ps with
  | nil => simp [dupConflict]
  | cons p ps ih =>
    simp only [List.map_cons, List.nodup_cons] at h
    simp only [dupConflict, ih h.2, Bool.or_false]
    rw [Bool.eq_false_iff]
    intro hany
    simp only [List.any_eq_true, Bool.and_eq_true, beq_iff_eq] at hany
    obtain ⟨q, hq, hqe, -⟩ := hany
    exact h.1 (List.mem_map.mpr ⟨q, hq, hqe⟩)

theorem formData_type :
    lower (((formData.reverse.dropWhile isBlank).reverse).dropWhile isBlank) = formData ∧
    validType formData = true ∧ (∀ x ∈ formData, (fun c : UInt8 => c != 59) x = true) := by decide

/-- `mime.ParseMediaType` on `form-data` followed by a parameter string that starts with `;`
(or is empty). -/
theorem parseMediaType_formData (params : Bytes) (ps : List (Bytes × Bytes))
    (hstart : params = [] ∨ ∃ r, params = 59 :: r)
    (hp : parseParams ((formData ++ params).length + 1) params = .ok ps)
    (hstar : ps.any (fun p => p.1.contains 42) = false) (hdup : dupConflict ps = false) :
    parseMediaType (formData ++ params) = .ok (formData, ps) := by
  obtain ⟨h1, h2, h3⟩ := formData_type
  have hbase : (formData ++ params).takeWhile (fun c => c != 59) = formData := by
    rcases hstart with rfl | ⟨r, rfl⟩
    · simpa using takeWhile_all _ _ h3
    · exact takeWhile_append_stop _ _ _ _ h3 (by decide)
  have hrest : (formData ++ params).dropWhile (fun c => c != 59) = params := by
    rcases hstart with rfl | ⟨r, rfl⟩
    · simpa using dropWhile_all _ _ h3
    · exact dropWhile_append_stop _ _ _ _ h3 (by decide)
  unfold parseMediaType
  simp only [hbase, hrest, h1, h2, hp, hstar, hdup]
  simp

/-- Keys of a parameter list that `mime.ParseMediaType` can carry: non-empty tokens, no `*`,
pairwise different after lower-casing. -/
def GoodParams (l : List (Bytes × Bytes)) : Prop :=
  (∀ p ∈ l, p.1 ≠ [] ∧ (∀ x ∈ p.1, isTokenChar x = true) ∧ (lower p.1).contains 42 = false) ∧
  (l.map fun p => lower p.1).Nodup

theorem length_flatMap_cdParam (l : List (Bytes × Bytes)) : l.length ≤ (l.flatMap cdParam).length := by
  induction l with
  | nil => simp
  | cons p ps ih =>
    have : 1 ≤ (cdParam p).length := by simp [cdParam]
    rw [List.flatMap_cons, List.length_append, List.length_cons]; omega

theorem parseMediaType_cdParams (l : List (Bytes × Bytes)) (hg : GoodParams l) :
    parseMediaType (formData ++ l.flatMap cdParam)
      = .ok (formData, l.map fun p => (lower p.1, arrive p.2)) := by
  apply parseMediaType_formData
  · cases l with
    | nil => left; rfl
    | cons p ps =>
      right
      refine ⟨[32] ++ p.1 ++ [61, 34] ++ quote p.2 ++ [34] ++ ps.flatMap cdParam, ?_⟩
      simp [cdParam]
  · apply parseParams_cdParams
    · have := length_flatMap_cdParam l
      rw [List.length_append]; omega
    · intro p hp; exact ⟨(hg.1 p hp).1, (hg.1 p hp).2.1⟩
  · rw [Bool.eq_false_iff]
    intro h
    simp only [List.any_eq_true, List.mem_map] at h
    obtain ⟨q, ⟨p, hp, rfl⟩, hq⟩ := h
    have h42 := (hg.1 p hp).2.2
    simp at h42 hq
    exact h42 hq
  · apply dupConflict_nodup
    simpa [List.map_map, Function.comp_def] using hg.2

theorem parseMediaType_rawField (k : Bytes) (h : ∀ c ∈ k, (c == 13) = false ∧ (c == 10) = false) :
    parseMediaType (rawFieldDisposition k) = .ok (formData, [(nameKey, k)]) := by
  have hshape : rawFieldDisposition k = formData ++ ([59, 32] ++ nameKey ++ [61, 34] ++ escapeQuotes k ++ [34] ++ []) := by
    simp [rawFieldDisposition]
  rw [hshape]
  apply parseMediaType_formData
  · right
    refine ⟨[32] ++ nameKey ++ [61, 34] ++ escapeQuotes k ++ [34] ++ [], ?_⟩
    simp
  · rw [parseParams_step _ nameKey (escapeQuotes k) k [] (by decide) (by decide) (cq_escapeQuotes k [] h)]
    have : ∃ n, (formData ++ ([59, 32] ++ nameKey ++ [61, 34] ++ escapeQuotes k ++ [34] ++ [])).length = n + 1 :=
      ⟨_, by simp [formData]; rfl⟩
    obtain ⟨n, hn⟩ := this
    rw [hn, parseParams_nil]
    simp [show lower nameKey = nameKey by decide]
  · simp; decide
  · simp [dupConflict]

end Req.Multipart

namespace Req.Multipart
open Req.Proto Req.Ascii

/-! ### the request's own Content-Type: `multipart/form-data; boundary=…` -/

/-- `parseMediaType_formData` for an arbitrary (already lower-case, valid) type. -/
theorem parseMediaType_typed (t params : Bytes) (ps : List (Bytes × Bytes))
    (ht1 : lower (((t.reverse.dropWhile isBlank).reverse).dropWhile isBlank) = t)
    (ht2 : validType t = true) (ht3 : ∀ x ∈ t, (fun c : UInt8 => c != 59) x = true)
    (hstart : params = [] ∨ ∃ r, params = 59 :: r)
    (hp : parseParams ((t ++ params).length + 1) params = .ok ps)
    (hstar : ps.any (fun p => p.1.contains 42) = false) (hdup : dupConflict ps = false) :
    parseMediaType (t ++ params) = .ok (t, ps) := by
  have hbase : (t ++ params).takeWhile (fun c => c != 59) = t := by
    rcases hstart with rfl | ⟨r, rfl⟩
    · simpa using takeWhile_all _ _ ht3
    · exact takeWhile_append_stop _ _ _ _ ht3 (by decide)
  have hrest : (t ++ params).dropWhile (fun c => c != 59) = params := by
    rcases hstart with rfl | ⟨r, rfl⟩
    · simpa using dropWhile_all _ _ ht3
    · exact dropWhile_append_stop _ _ _ _ ht3 (by decide)
  unfold parseMediaType
  simp only [hbase, hrest, ht1, ht2, hp, hstar, hdup]
  simp

/-- A quoted-string without quote, backslash, CR, LF reads back as itself. -/
theorem cq_plain (s r : Bytes)
    (h : ∀ c ∈ s, (c == 34) = false ∧ (c == 92) = false ∧ (c == 13) = false ∧ (c == 10) = false) :
    consumeQuoted (s ++ 34 :: r) = some (s, r) := by
  induction s with
  | nil => simp [cq_quote]
  | cons c cs ih =>
    obtain ⟨h1, h2, h3, h4⟩ := h c (by simp)
    rw [List.cons_append, cq_lit c _ h1 h2 h3 h4, ih (fun x hx => h x (List.mem_cons_of_mem _ hx))]
    simp

/-- One step of `parseParams` over `; key=token` at the end of the value. -/
theorem parseParams_step_token (fuel : Nat) (k tok : Bytes)
    (hk : k ≠ []) (hkt : ∀ x ∈ k, isTokenChar x = true)
    (ht : tok ≠ []) (htt : ∀ x ∈ tok, isTokenChar x = true) :
    parseParams (fuel + 2) ([59, 32] ++ k ++ [61] ++ tok) = .ok [(lower k, tok)] := by
  obtain ⟨k0, ks, rfl⟩ := List.exists_cons_of_ne_nil hk
  obtain ⟨t0, ts, rfl⟩ := List.exists_cons_of_ne_nil ht
  have hb0 : isBlank k0 = false := token_not_blank k0 (hkt k0 (by simp))
  have ht0 : isTokenChar t0 = true := htt t0 (by simp)
  have hbt : isBlank t0 = false := token_not_blank t0 ht0
  have ht34 : t0 ≠ 34 := by
    intro e; subst e; exact absurd ht0 (by decide)
  have hshape : ([59, 32] ++ (k0 :: ks) ++ [61] ++ (t0 :: ts) : Bytes)
      = 59 :: 32 :: ((k0 :: ks) ++ 61 :: (t0 :: ts)) := by simp
  rw [hshape]
  conv => lhs; rw [parseParams.eq_def]
  have hs1 : skipWs (59 :: 32 :: ((k0 :: ks) ++ 61 :: (t0 :: ts)))
      = 59 :: 32 :: ((k0 :: ks) ++ 61 :: (t0 :: ts)) := by
    simp [skipWs, List.dropWhile, show isBlank 59 = false by decide]
  have hs2 : skipWs (32 :: ((k0 :: ks) ++ 61 :: (t0 :: ts))) = (k0 :: ks) ++ 61 :: (t0 :: ts) := by
    simp [skipWs, List.dropWhile, show isBlank 32 = true by decide, hb0]
  have htk : ((k0 :: ks) ++ 61 :: (t0 :: ts)).takeWhile isTokenChar = k0 :: ks :=
    takeWhile_append_stop _ _ _ _ hkt (by decide)
  have hdk : ((k0 :: ks) ++ 61 :: (t0 :: ts)).dropWhile isTokenChar = 61 :: (t0 :: ts) :=
    dropWhile_append_stop _ _ _ _ hkt (by decide)
  have hs3 : skipWs (61 :: (t0 :: ts)) = 61 :: (t0 :: ts) := by
    simp [skipWs, List.dropWhile, show isBlank 61 = false by decide]
  have hs4 : skipWs (t0 :: ts) = t0 :: ts := by simp [skipWs, List.dropWhile, hbt]
  have htv : (t0 :: ts).takeWhile isTokenChar = t0 :: ts := takeWhile_all _ _ htt
  have hdv : (t0 :: ts).dropWhile isTokenChar = [] := dropWhile_all _ _ htt
  simp only [hs1, hs2, htk, hdk, hs3, hs4, show ((59 : UInt8) != 59) = false by decide,
    show (k0 :: ks).isEmpty = false from rfl, Bool.false_eq_true, ↓reduceIte]
  split
  next r4 heq =>
    exfalso
    injection heq with h1 _
    exact ht34 h1
  next => simp [htv, hdv, parseParams_nil]

end Req.Multipart
