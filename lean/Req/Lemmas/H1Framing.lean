import Req.Props.C04
/-!
Inversion lemmas for `readTransfer` / `parseHead` / `parseFinalHead`: every accepted head
comes out of `readTransfer`, and `readTransfer`'s result is the literal record of its steps.
Used by `Req.Props.C04Framing` and `Req.Props.C04Conn`.
-/
namespace Req.Lemmas.H1Framing
open Req.Proto Req.H1 Req.Props.C04

/-- The steps of `readTransfer`, exposed once. -/
theorem readTransfer_inv {isHead : Bool} {sl : StatusLine} {h0 : HeaderMap} {m : Msg}
    (h : readTransfer isHead sl h0 = some m) :
    ∃ (chunked : Bool) (h2 : HeaderMap) (realLength : Int) (h3 : HeaderMap),
      fixLength sl.code isHead h2 chunked = some (realLength, h3) ∧
      m.sl = sl ∧
      m.teChunked = chunked ∧
      m.close = ((shouldClose sl.major sl.minor h0).1 ||
        (decide (realLength = -1) && !chunked && bodyAllowedForStatus sl.code)) ∧
      (isHead = false → m.contentLength = realLength) ∧
      m.framing =
        (if chunked then
          (if isHead || !bodyAllowedForStatus sl.code then RespFraming.none else RespFraming.chunked)
        else if realLength = 0 then RespFraming.none
        else if realLength > 0 then RespFraming.length realLength.toNat
        else if ((shouldClose sl.major sl.minor h0).1 ||
          (decide (realLength = -1) && !chunked && bodyAllowedForStatus sl.code)) then RespFraming.untilClose
        else RespFraming.none) := by
  unfold readTransfer at h
  simp only at h
  split at h
  · simp at h
  · next chunked h2 hte =>
    split at h
    · simp at h
    · next realLength h3 hfl =>
      split at h
      · simp at h
      · next cl hcl =>
        split at h
        · simp at h
        · next tr h4 htr =>
          simp only [Option.some.injEq] at h
          subst h
          refine ⟨chunked, h2, realLength, h3, hfl, rfl, rfl, rfl, ?_, rfl⟩
          intro hH
          simp [hH] at hcl
          exact hcl.symm

/-- An accepted head is a result of `readTransfer` for some status line and header map. -/
theorem parseHead_readTransfer {isHead : Bool} {s r : Bytes} {m : Msg}
    (h : parseHead isHead s = some (m, r)) :
    ∃ sl h0, readTransfer isHead sl h0 = some m := by
  unfold parseHead at h
  split at h
  · simp at h
  · split at h
    · simp at h
    · next sl _ =>
      split at h
      · simp at h
      · next hd _ _ =>
        split at h
        · simp at h
        · next m' ht =>
          simp only [Option.some.injEq, Prod.mk.injEq] at h
          exact ⟨sl, _, h.1 ▸ ht⟩

theorem parseFinalHead_readTransfer {fuel : Nat} {isHead : Bool} {s r : Bytes} {m : Msg}
    (h : parseFinalHead fuel isHead s = some (m, r)) :
    ∃ sl h0, readTransfer isHead sl h0 = some m := by
  induction fuel generalizing s with
  | zero => simp [parseFinalHead] at h
  | succ f ih =>
    simp only [parseFinalHead] at h
    split at h
    · simp at h
    · next m1 r1 hp =>
      split at h
      · exact ih h
      · simp only [Option.some.injEq, Prod.mk.injEq] at h
        exact h.1 ▸ parseHead_readTransfer hp

/-- The head a round trip returns is never a non-terminal informational one. -/
theorem parseFinalHead_not_1xx {fuel : Nat} {isHead : Bool} {s r : Bytes} {m : Msg}
    (h : parseFinalHead fuel isHead s = some (m, r)) :
    ¬ (100 ≤ m.sl.code ∧ m.sl.code ≤ 199 ∧ m.sl.code ≠ 101) := by
  induction fuel generalizing s with
  | zero => simp [parseFinalHead] at h
  | succ f ih =>
    simp only [parseFinalHead] at h
    split at h
    · simp at h
    · next m1 r1 hp =>
      split at h
      · exact ih h
      · next hc =>
        simp only [Option.some.injEq, Prod.mk.injEq] at h
        exact h.1 ▸ hc

/-- `parseFinalHead` is stable under extension of the stream (as `head_deterministic_end`). -/
theorem parseFinalHead_append {fuel : Nat} {isHead : Bool} {s r : Bytes} {m : Msg}
    (h : parseFinalHead fuel isHead s = some (m, r)) (t : Bytes) :
    parseFinalHead fuel isHead (s ++ t) = some (m, r ++ t) := by
  induction fuel generalizing s with
  | zero => simp [parseFinalHead] at h
  | succ f ih =>
    simp only [parseFinalHead] at h ⊢
    cases hp : parseHead isHead s with
    | none => simp [hp] at h
    | some q =>
      obtain ⟨m1, r1⟩ := q
      simp only [hp] at h
      rw [head_deterministic_end hp t]
      simp only
      split at h
      · next hc => rw [if_pos hc]; exact ih h
      · next hc =>
        rw [if_neg hc]
        simp only [Option.some.injEq, Prod.mk.injEq] at h
        obtain ⟨rfl, rfl⟩ := h
        rfl

end Req.Lemmas.H1Framing
