import Req.C02.H3Recv
import Req.Lemmas.C02Bufio
import Req.Lemmas.C02Reader
/-!
HTTP/3: the DATA-frame reader (`stream.Read` with `bytesRemainingInFrame`) under the
content-length accounting of `body.Read` refines "the concatenation of the DATA payloads" for
every segmentation of the QUIC stream and every caller read size.
-/
namespace Req.C02
open Req.Proto

/-! ### reading from the raw stream -/

theorem Net.read_some (n : Net) (k : Nat) (d : Bytes) (n' : Net) (h : n.read k = (some d, n')) :
    n.segs.flatten = d ++ n'.segs.flatten ∧ d.length ≤ k ∧ (0 < k → d ≠ []) ∧ n'.fin = n.fin := by
  unfold Net.read at h
  rcases hr : Net.readSegs n.segs k with ⟨od, segs'⟩
  rw [hr] at h
  simp only [Prod.mk.injEq] at h
  obtain ⟨rfl, rfl⟩ := h
  obtain ⟨h1, h2, h3⟩ := Net.readSegs_some _ _ _ _ hr
  exact ⟨h1, h2, h3, rfl⟩

theorem Net.read_none (n : Net) (k : Nat) (n' : Net) (h : n.read k = (none, n')) :
    n.segs.flatten = [] ∧ n'.segs.flatten = [] ∧ n'.fin = n.fin := by
  unfold Net.read at h
  rcases hr : Net.readSegs n.segs k with ⟨od, segs'⟩
  rw [hr] at h
  simp only [Prod.mk.injEq] at h
  obtain ⟨rfl, rfl⟩ := h
  obtain ⟨h1, h2⟩ := Net.readSegs_none _ _ _ hr
  exact ⟨h1, by simp [h2], rfl⟩

/-- With bytes left, a positive read returns some of them. -/
theorem Net.read_pos (n : Net) (k : Nat) (hk : 0 < k) (hne : n.segs.flatten ≠ []) :
    ∃ d n', n.read k = (some d, n') ∧ n.segs.flatten = d ++ n'.segs.flatten ∧ d.length ≤ k ∧ d ≠ [] ∧
      n'.fin = n.fin := by
  rcases hr : n.read k with ⟨od, n'⟩
  cases od with
  | none => exact absurd (Net.read_none n k n' hr).1 hne
  | some d =>
    obtain ⟨h1, h2, h3, h4⟩ := Net.read_some n k d n' hr
    exact ⟨d, n', rfl, h1, h2, h3 hk, h4⟩

theorem Net.readByte_cons (n : Net) (x : UInt8) (R : Bytes) (h : n.segs.flatten = x :: R) :
    ∃ n', n.readByte = (.ok x, n') ∧ n'.segs.flatten = R ∧ n'.fin = n.fin := by
  obtain ⟨d, n', hr, hs, hl, hd, hf⟩ := Net.read_pos n 1 (by omega) (by rw [h]; simp)
  rw [h] at hs
  match d, hs, hl, hd with
  | [a], hs, _, _ =>
    simp only [List.cons_append, List.nil_append, List.cons.injEq] at hs
    obtain ⟨rfl, rfl⟩ := hs
    exact ⟨n', by simp [Net.readByte, hr], rfl, hf⟩
  | a :: b :: _, _, hl, _ => simp at hl

theorem Net.readByte_nil (n : Net) (h : n.segs.flatten = []) :
    ∃ n', n.readByte = (.error n.fin.toH3, n') ∧ n'.segs.flatten = [] ∧ n'.fin = n.fin := by
  rcases hr : n.read 1 with ⟨od, n'⟩
  cases od with
  | none =>
    obtain ⟨_, h2, h3⟩ := Net.read_none n 1 n' hr
    exact ⟨n', by simp [Net.readByte, hr], h2, h3⟩
  | some d =>
    obtain ⟨h1, _, h3, _⟩ := Net.read_some n 1 d n' hr
    rw [h] at h1
    have : d = [] := by
      cases d with
      | nil => rfl
      | cons a as => simp at h1
    exact absurd this (h3 (by omega))

/-! ### varints -/

def decVarintTail : Nat → Nat → Bytes → Option (Nat × Bytes)
  | 0, acc, bs => some (acc, bs)
  | _ + 1, _, [] => none
  | k + 1, acc, b :: bs => decVarintTail k (acc * 256 + b.toNat) bs

/-- The QUIC variable-length integer at the head of a byte string. -/
def decVarint : Bytes → Option (Nat × Bytes)
  | [] => none
  | b :: bs => decVarintTail ((1 <<< (b.toNat / 64)) - 1) (b.toNat % 64) bs

theorem Net.readVarintTail_spec (k acc : Nat) (n : Net) (v : Nat) (R : Bytes)
    (h : decVarintTail k acc n.segs.flatten = some (v, R)) :
    ∃ n', n.readVarintTail k acc = (.ok v, n') ∧ n'.segs.flatten = R ∧ n'.fin = n.fin := by
  induction k generalizing acc n with
  | zero =>
    simp only [decVarintTail, Option.some.injEq, Prod.mk.injEq] at h
    obtain ⟨rfl, rfl⟩ := h
    exact ⟨n, rfl, rfl, rfl⟩
  | succ k ih =>
    cases hfl : n.segs.flatten with
    | nil => rw [hfl] at h; simp [decVarintTail] at h
    | cons x xs =>
      rw [hfl] at h
      simp only [decVarintTail] at h
      obtain ⟨n1, hb, hfl1, hfin1⟩ := Net.readByte_cons n x xs hfl
      obtain ⟨n', hr, hfl', hfin'⟩ := ih (acc * 256 + x.toNat) n1 (by rw [hfl1]; exact h)
      exact ⟨n', by simp [Net.readVarintTail, hb, hr], hfl', by rw [hfin', hfin1]⟩

theorem Net.readVarint_spec (n : Net) (v : Nat) (R : Bytes) (h : decVarint n.segs.flatten = some (v, R)) :
    ∃ n', n.readVarint = (.ok v, n') ∧ n'.segs.flatten = R ∧ n'.fin = n.fin := by
  cases hfl : n.segs.flatten with
  | nil => rw [hfl] at h; simp [decVarint] at h
  | cons x xs =>
    rw [hfl] at h
    simp only [decVarint] at h
    obtain ⟨n1, hb, hfl1, hfin1⟩ := Net.readByte_cons n x xs hfl
    obtain ⟨n', hr, hfl', hfin'⟩ := Net.readVarintTail_spec _ _ n1 v R (by rw [hfl1]; exact h)
    exact ⟨n', by simp [Net.readVarint, hb, hr], hfl', by rw [hfin', hfin1]⟩

/-- `io.ReadFull` / `io.CopyN` of `k` bytes that are all there. -/
theorem Net.readN_spec (fuel k : Nat) (acc : List Bytes) (n : Net) (p R : Bytes)
    (hfl : n.segs.flatten = p ++ R) (hk : p.length = k) (hfuel : k < fuel) :
    ∃ n', Net.readN fuel k acc n = ((Net.readN.piecesOf acc ++ p, none), n') ∧ n'.segs.flatten = R ∧
      n'.fin = n.fin := by
  induction fuel generalizing k acc n p with
  | zero => omega
  | succ fuel ih =>
    unfold Net.readN
    by_cases hk0 : k = 0
    · subst hk0
      have : p = [] := List.length_eq_zero_iff.mp hk
      subst this
      exact ⟨n, by simp, by simpa using hfl, rfl⟩
    · simp only [hk0, if_false]
      have hne : n.segs.flatten ≠ [] := by
        rw [hfl]
        cases p with
        | nil => simp at hk; omega
        | cons a as => simp
      obtain ⟨d, n1, hr, hs, hl, hd, hfin1⟩ := Net.read_pos n k (by omega) hne
      rw [hr]
      simp only
      -- d is a prefix of p
      rw [hfl] at hs
      have hdp : d.length ≤ p.length := by omega
      obtain ⟨p', hp, hfl1⟩ : ∃ p', p = d ++ p' ∧ n1.segs.flatten = p' ++ R := by
        rcases List.append_eq_append_iff.mp hs with ⟨a', h1, h2⟩ | ⟨c', h1, h2⟩
        · have : a'.length = 0 := by
            have := congrArg List.length h1
            simp only [List.length_append] at this
            omega
          have hc : a' = [] := List.length_eq_zero_iff.mp this
          subst hc
          simp only [List.append_nil] at h1
          simp only [List.nil_append] at h2
          exact ⟨[], by simp [h1], by simp [h2]⟩
        · exact ⟨c', h1, h2⟩
      have hdl : 0 < d.length := List.length_pos_iff.mpr hd
      obtain ⟨n', hrn, hfl', hfin'⟩ := ih (k - d.length) (d :: acc) n1 p' hfl1
        (by rw [hp, List.length_append] at hk; omega) (by omega)
      refine ⟨n', ?_, hfl', by rw [hfin', hfin1]⟩
      rw [hrn, hp]
      simp [Net.readN.piecesOf, List.append_assoc]

theorem Net.size_eq (n : Net) : n.size = n.segs.flatten.length := by
  simp [Net.size, List.length_flatten]

/-! ### frames -/

/-- A frame header: type and length varints. -/
def decHdr (bs : Bytes) : Option (Nat × Nat × Bytes) :=
  match decVarint bs with
  | none => none
  | some (t, r1) =>
    match decVarint r1 with
    | none => none
    | some (l, r2) => some (t, l, r2)

/-- A frame as written on the stream: header bytes (any valid varint encodings of the type
and of the payload length) and the payload. -/
structure WFrame where
  hdr : Bytes
  typ : Nat
  payload : Bytes
deriving Repr

def WFrame.OK (f : WFrame) : Prop := ∀ R, decHdr (f.hdr ++ R) = some (f.typ, f.payload.length, R)

def WFrame.wire (f : WFrame) : Bytes := f.hdr ++ f.payload

/-- Frame types `ParseNext` skips on a request stream (unknown / GREASE / CANCEL_PUSH, …). -/
def skippable (t : Nat) : Prop :=
  t ≠ 0 ∧ t ≠ 1 ∧ t ≠ 4 ∧ t ≠ 2 ∧ t ≠ 6 ∧ t ≠ 8 ∧ t ≠ 9

def framesWire (fs : List WFrame) : Bytes := (fs.map WFrame.wire).flatten

theorem WFrame.hdr_ne (f : WFrame) (h : f.OK) : f.hdr ≠ [] := by
  intro h0
  have := h []
  simp [h0, decHdr, decVarint] at this

/-- Reading a frame header off the stream. -/
theorem readHdr_spec (n : Net) (f : WFrame) (hf : f.OK) (R : Bytes) (hfl : n.segs.flatten = f.hdr ++ R) :
    ∃ n1 n2, n.readVarint = (.ok f.typ, n1) ∧ n1.readVarint = (.ok f.payload.length, n2) ∧
      n2.segs.flatten = R ∧ n2.fin = n.fin := by
  have h := hf R
  unfold decHdr at h
  rw [← hfl] at h
  cases h1 : decVarint n.segs.flatten with
  | none => simp [h1] at h
  | some x =>
    rcases x with ⟨t, r1⟩
    simp only [h1] at h
    cases h2 : decVarint r1 with
    | none => simp [h2] at h
    | some y =>
      rcases y with ⟨l, r2⟩
      simp only [h2, Option.some.injEq, Prod.mk.injEq] at h
      obtain ⟨rfl, rfl, rfl⟩ := h
      obtain ⟨n1, hr1, hfl1, hfin1⟩ := Net.readVarint_spec n _ _ h1
      obtain ⟨n2, hr2, hfl2, hfin2⟩ := Net.readVarint_spec n1 _ _ (by rw [hfl1]; exact h2)
      exact ⟨n1, n2, hr1, hr2, hfl2, by rw [hfin2, hfin1]⟩

/-- `ParseNext` skips the skippable frames in front and returns the next DATA / HEADERS
frame header. -/
theorem parseNext_skip (fuel : Nat) (n : Net) (skips : List WFrame) (f : WFrame) (R : Bytes)
    (hsk : ∀ g ∈ skips, g.OK ∧ skippable g.typ) (hf : f.OK) (hft : f.typ = 0 ∨ f.typ = 1)
    (hfl : n.segs.flatten = framesWire skips ++ (f.hdr ++ R)) (hfuel : skips.length < fuel) :
    ∃ n', parseNext fuel n = (.ok (if f.typ = 0 then .data f.payload.length else .headers f.payload.length), n') ∧
      n'.segs.flatten = R ∧ n'.fin = n.fin := by
  induction skips generalizing fuel n with
  | nil =>
    cases fuel with
    | zero => simp at hfuel
    | succ fuel =>
      simp only [framesWire, List.map_nil, List.flatten_nil, List.nil_append] at hfl
      obtain ⟨n1, n2, h1, h2, hfl2, hfin2⟩ := readHdr_spec n f hf R hfl
      refine ⟨n2, ?_, hfl2, hfin2⟩
      unfold parseNext
      simp only [h1, h2]
      rcases hft with h0 | h0 <;> simp [h0]
  | cons g skips ih =>
    cases fuel with
    | zero => simp at hfuel
    | succ fuel =>
      obtain ⟨hg, hgt⟩ := hsk g (by simp)
      simp only [framesWire, List.map_cons, List.flatten_cons, WFrame.wire, List.append_assoc] at hfl
      obtain ⟨n1, n2, h1, h2, hfl2, hfin2⟩ := readHdr_spec n g hg _ hfl
      obtain ⟨n3, h3, hfl3, hfin3⟩ := Net.readN_spec (g.payload.length + 1) g.payload.length [] n2 g.payload _
        hfl2 rfl (by omega)
      obtain ⟨n', h4, hfl4, hfin4⟩ := ih fuel n3 (fun g' hg' => hsk g' (by simp [hg']))
        (by simpa [framesWire] using hfl3) (by simp at hfuel; omega)
      refine ⟨n', ?_, hfl4, by rw [hfin4, hfin3, hfin2]⟩
      unfold parseNext
      obtain ⟨g0, g1, g4, g2, g6, g8, g9⟩ := hgt
      simp only [h1, h2, g0, g1, g4, if_false, h3]
      have : ¬ (g.typ = 2 ∨ g.typ = 6 ∨ g.typ = 8 ∨ g.typ = 9) := by
        intro h; rcases h with h | h | h | h <;> contradiction
      simp only [this, if_false]
      exact h4

/-- At the end of the stream (after skippable frames) `ParseNext` reports the stream's end. -/
theorem parseNext_end (fuel : Nat) (n : Net) (skips : List WFrame)
    (hsk : ∀ g ∈ skips, g.OK ∧ skippable g.typ)
    (hfl : n.segs.flatten = framesWire skips) (hfuel : skips.length < fuel) :
    ∃ n', parseNext fuel n = (.error n.fin.toH3, n') ∧ n'.segs.flatten = [] ∧ n'.fin = n.fin := by
  induction skips generalizing fuel n with
  | nil =>
    cases fuel with
    | zero => simp at hfuel
    | succ fuel =>
      simp only [framesWire, List.map_nil, List.flatten_nil] at hfl
      obtain ⟨n1, h1, hfl1, hfin1⟩ := Net.readByte_nil n hfl
      refine ⟨n1, ?_, hfl1, hfin1⟩
      unfold parseNext Net.readVarint
      simp [h1]
  | cons g skips ih =>
    cases fuel with
    | zero => simp at hfuel
    | succ fuel =>
      obtain ⟨hg, hgt⟩ := hsk g (by simp)
      simp only [framesWire, List.map_cons, List.flatten_cons, WFrame.wire, List.append_assoc] at hfl
      obtain ⟨n1, n2, h1, h2, hfl2, hfin2⟩ := readHdr_spec n g hg _ hfl
      obtain ⟨n3, h3, hfl3, hfin3⟩ := Net.readN_spec (g.payload.length + 1) g.payload.length [] n2 g.payload _
        hfl2 rfl (by omega)
      obtain ⟨n', h4, hfl4, hfin4⟩ := ih fuel n3 (fun g' hg' => hsk g' (by simp [hg']))
        (by simpa [framesWire] using hfl3) (by simp at hfuel; omega)
      refine ⟨n', ?_, hfl4, by rw [hfin4, hfin3, hfin2]⟩
      unfold parseNext
      obtain ⟨g0, g1, g4, g2, g6, g8, g9⟩ := hgt
      simp only [h1, h2, g0, g1, g4, if_false, h3]
      have : ¬ (g.typ = 2 ∨ g.typ = 6 ∨ g.typ = 8 ∨ g.typ = 9) := by
        intro h; rcases h with h | h | h | h <;> contradiction
      simp only [this, if_false]
      rw [h4, hfin3, hfin2]

/-! ### the body reader -/

theorem Net.read_zero (n : Net) :
    (n.segs.flatten ≠ [] → ∃ n', n.read 0 = (some [], n') ∧ n'.segs.flatten = n.segs.flatten ∧ n'.fin = n.fin) ∧
    (n.segs.flatten = [] → ∃ n', n.read 0 = (none, n') ∧ n'.segs.flatten = [] ∧ n'.fin = n.fin) := by
  constructor
  · intro hne
    rcases hr : n.read 0 with ⟨od, n'⟩
    cases od with
    | none => exact absurd (Net.read_none n 0 n' hr).1 hne
    | some d =>
      obtain ⟨h1, h2, _, h4⟩ := Net.read_some n 0 d n' hr
      have : d = [] := List.length_eq_zero_iff.mp (by omega)
      subst this
      exact ⟨n', rfl, by simpa using h1.symm, h4⟩
  · intro he
    rcases hr : n.read 0 with ⟨od, n'⟩
    cases od with
    | none =>
      obtain ⟨_, h2, h3⟩ := Net.read_none n 0 n' hr
      exact ⟨n', rfl, h2, h3⟩
    | some d =>
      -- impossible: readSegs only returns data from a non-empty segment
      exfalso
      unfold Net.read at hr
      rcases hs : Net.readSegs n.segs 0 with ⟨od, segs'⟩
      rw [hs] at hr
      simp only [Prod.mk.injEq] at hr
      obtain ⟨rfl, _⟩ := hr
      generalize n.segs = segs at he hs
      induction segs with
      | nil => simp [Net.readSegs] at hs
      | cons s rest ih =>
        simp only [List.flatten_cons, List.append_eq_nil_iff] at he
        unfold Net.readSegs at hs
        simp only [he.1, List.isEmpty_nil, if_true] at hs
        exact ih he.2 hs

/-- A body frame: DATA or a frame type `ParseNext` skips. -/
def BodyFrameOK (f : WFrame) : Prop := f.OK ∧ (f.typ = 0 ∨ skippable f.typ)

/-- The body the origin sent: the concatenation of the DATA payloads. -/
def h3DataOf : List WFrame → Bytes
  | [] => []
  | f :: fs => if f.typ = 0 then f.payload ++ h3DataOf fs else h3DataOf fs

theorem split_skips (frs : List WFrame) (h : ∀ f ∈ frs, BodyFrameOK f) :
    ∃ skips rest, frs = skips ++ rest ∧ (∀ g ∈ skips, g.OK ∧ skippable g.typ) ∧
      h3DataOf frs = h3DataOf rest ∧ (∀ f ∈ rest, BodyFrameOK f) ∧
      (rest = [] ∨ ∃ f rest', rest = f :: rest' ∧ f.typ = 0 ∧ f.OK) := by
  induction frs with
  | nil => exact ⟨[], [], rfl, by simp, rfl, by simp, Or.inl rfl⟩
  | cons f frs ih =>
    obtain ⟨hf, hft⟩ := h f (by simp)
    by_cases h0 : f.typ = 0
    · exact ⟨[], f :: frs, rfl, by simp, rfl, h, Or.inr ⟨f, frs, rfl, h0, hf⟩⟩
    · have hsk : skippable f.typ := by
        rcases hft with h1 | h1
        · exact absurd h1 h0
        · exact h1
      obtain ⟨skips, rest, hsplit, hs, hd, hr, hcase⟩ := ih (fun g hg => h g (by simp [hg]))
      refine ⟨f :: skips, rest, by simp [hsplit], ?_, by simp [h3DataOf, h0, hd], hr, hcase⟩
      intro g hg
      simp only [List.mem_cons] at hg
      rcases hg with rfl | hg
      · exact ⟨hf, hsk⟩
      · exact hs g hg

/-- The optional trailer: the HEADERS frame, its decoded field list (QPACK is external) and
what `parseTrailers` makes of it. -/
structure WTrailer where
  frame : WFrame
  fields : Fields
  parsed : Fields
deriving Repr

def WTrailer.OK (maxH : Nat) (t : WTrailer) : Prop :=
  t.frame.OK ∧ t.frame.typ = 1 ∧ t.frame.payload.length ≤ maxH ∧ h3ParseTrailers t.fields = some t.parsed

def trailerWire : Option WTrailer → Bytes
  | none => []
  | some t => t.frame.wire

/-- The decoded field lists still to be consumed (side input of the model). -/
def trailerLists : Option WTrailer → List Fields
  | none => []
  | some t => [t.fields]

/-- Where the body reader stands and what it still has to hand out. -/
inductive H3Pos (tr : Option WTrailer) (maxH : Nat) : H3Body → Bytes → Prop
  | frames (b : H3Body) (p : Bytes) (frs : List WFrame)
      (hrem : b.str.remInFrame = p.length)
      (hfl : b.str.net.segs.flatten = p ++ (framesWire frs ++ trailerWire tr))
      (hfrs : ∀ f ∈ frs, BodyFrameOK f)
      (hpt : b.str.parsedTrailer = false)
      (hlists : b.str.fieldLists = trailerLists tr)
      (hfin : b.str.net.fin = .eof) (hmax : b.str.maxHeaderBytes = maxH)
      (hcl : b.hasCL = true → b.remaining = (p ++ h3DataOf frs).length) :
      H3Pos tr maxH b (p ++ h3DataOf frs)
  | trailed (b : H3Body) (t : WTrailer) (htr : tr = some t)
      (hrem : b.str.remInFrame = 0) (hfl : b.str.net.segs.flatten = [])
      (hpt : b.str.parsedTrailer = true) (htrail : b.str.trailer = some t.parsed)
      (hfin : b.str.net.fin = .eof) (hcl : b.hasCL = true → b.remaining = 0) :
      H3Pos tr maxH b []

theorem h3DataOf_cons_data (f : WFrame) (fs : List WFrame) (h : f.typ = 0) :
    h3DataOf (f :: fs) = f.payload ++ h3DataOf fs := by simp [h3DataOf, h]

/-- Reading inside a DATA frame (`go` of `stream.Read`): `q` = the frame's unread payload. -/
theorem h3_go (tr : Option WTrailer) (maxH : Nat) (b : H3Body) (q : Bytes) (frs : List WFrame) (k' : Nat)
    (hq : q ≠ [])
    (hrem : b.str.remInFrame = q.length)
    (hfl : b.str.net.segs.flatten = q ++ (framesWire frs ++ trailerWire tr))
    (hfrs : ∀ f ∈ frs, BodyFrameOK f) (hpt : b.str.parsedTrailer = false)
    (hlists : b.str.fieldLists = trailerLists tr)
    (hfin : b.str.net.fin = .eof) (hmax : b.str.maxHeaderBytes = maxH)
    (hcl : b.hasCL = true → b.remaining = (q ++ h3DataOf frs).length ∧ (0 < k' → k' ≤ b.remaining)) :
    ∃ d n', b.str.net.read (min k' b.str.remInFrame) = (some d, n') ∧ (0 < k' → d ≠ []) ∧
      n'.segs.flatten.length + d.length = b.str.net.segs.flatten.length ∧
      ∃ q', q = d ++ q' ∧
        H3Pos tr maxH { b with str := { b.str with net := n', remInFrame := b.str.remInFrame - d.length },
                               remaining := b.remaining - d.length } (q' ++ h3DataOf frs) := by
  have hne : b.str.net.segs.flatten ≠ [] := by rw [hfl]; simp [hq]
  have hql : 0 < q.length := List.length_pos_iff.mpr hq
  by_cases hk : k' = 0
  · subst hk
    obtain ⟨n', hr, hfl', hfin'⟩ := (Net.read_zero b.str.net).1 hne
    refine ⟨[], n', by simpa using hr, fun h => by omega, by simp [hfl'], q, by simp, ?_⟩
    refine H3Pos.frames _ q frs (by simpa using hrem) (by simpa [hfl'] using hfl) hfrs hpt hlists
      (by simpa [hfin'] using hfin) hmax ?_
    intro h; simpa using (hcl h).1
  · obtain ⟨d, n', hr, hs, hl, hd, hfin'⟩ := Net.read_pos b.str.net (min k' b.str.remInFrame) (by omega) hne
    rw [hfl] at hs
    have hdq : d.length ≤ q.length := by omega
    obtain ⟨q', hq', hfl'⟩ : ∃ q', q = d ++ q' ∧ n'.segs.flatten = q' ++ (framesWire frs ++ trailerWire tr) := by
      rcases List.append_eq_append_iff.mp hs with ⟨a', h1, h2⟩ | ⟨c', h1, h2⟩
      · have : a'.length = 0 := by
          have := congrArg List.length h1
          simp only [List.length_append] at this
          omega
        have hc : a' = [] := List.length_eq_zero_iff.mp this
        subst hc
        simp only [List.append_nil] at h1
        simp only [List.nil_append] at h2
        exact ⟨[], by simp [h1], by simp [h2]⟩
      · exact ⟨c', h1, h2⟩
    refine ⟨d, n', hr, fun _ => hd, ?_, q', hq', ?_⟩
    · rw [hfl, hfl', hq']; simp only [List.length_append]; omega
    refine H3Pos.frames _ q' frs ?_ hfl' hfrs hpt hlists (by simpa [hfin'] using hfin) hmax ?_
    · simp only [hrem, hq', List.length_append]; omega
    · intro h
      obtain ⟨h1, h2⟩ := hcl h
      simp only [h1, hq', List.length_append]
      omega

theorem framesWire_append (a b : List WFrame) : framesWire (a ++ b) = framesWire a ++ framesWire b := by
  simp [framesWire]

theorem framesWire_cons (f : WFrame) (fs : List WFrame) : framesWire (f :: fs) = f.hdr ++ (f.payload ++ framesWire fs) := by
  simp [framesWire, WFrame.wire, List.append_assoc]

theorem viol_if {α : Type} (b : H3Body) (x y : α) (hv : b.violation = false) :
    (if b.violation = true then x else y) = y := by simp [hv]

theorem violation_false (b : H3Body) (h : b.hasCL = true → b.remaining = 0 → b.str.remInFrame = 0) :
    b.violation = false := by
  unfold H3Body.violation
  by_cases hc : b.hasCL = true
  · by_cases hr : b.remaining = 0
    · simp [hc, hr, h hc hr]
    · simp [hc, hr]
  · simp [hc]

/-- One `Read` of the HTTP/3 response body. -/
theorem h3_read (tr : Option WTrailer) (maxH : Nat) (htr : ∀ t, tr = some t → t.OK maxH)
    (b : H3Body) (E : Bytes) (k : Nat) (hpos : H3Pos tr maxH b E)
    (d : Bytes) (e : Option H3Err) (b' : H3Body) (h : b.read k = ((d, e), b')) :
    (e = none → ∃ E', E = d ++ E' ∧ H3Pos tr maxH b' E' ∧
      (0 < k → b'.str.net.segs.flatten.length < b.str.net.segs.flatten.length)) ∧
    (∀ x, e = some x → x = .eof ∧ E = [] ∧ d = [] ∧ ∀ t, tr = some t → b'.str.trailer = some t.parsed) := by
  cases hpos with
  | trailed t htr' hrem hfl hpt htrail hfin hcl0 =>
    -- after the trailers: the stream has ended
    obtain ⟨n', hpn, hfl', hfin'⟩ := parseNext_end (b.str.net.size + 1) b.str.net [] (by simp)
      (by simpa [framesWire] using hfl) (by simp)
    have hviol : b.violation = false := by simp [H3Body.violation, hrem]
    unfold H3Body.read at h
    simp only [hviol, Bool.false_eq_true, if_false] at h
    unfold H3Stream.read at h
    simp only [hrem, ne_eq, not_true_eq_false, if_false, hpn, hfin, NetEnd.toH3] at h
    rw [viol_if _ _ _ (violation_false _ (fun _ _ => rfl))] at h
    rw [if_neg (show ¬ _ from by
      intro ⟨_, hc, hr⟩
      have := hcl0 hc
      simp [this] at hr)] at h
    simp only [Prod.mk.injEq] at h
    obtain ⟨⟨rfl, rfl⟩, rfl⟩ := h
    refine ⟨fun h0 => by simp at h0, fun x hx => ?_⟩
    simp only [Option.some.injEq] at hx
    refine ⟨hx.symm, rfl, rfl, fun t' ht' => ?_⟩
    rw [htr'] at ht'
    simp only [Option.some.injEq] at ht'
    subst ht'
    exact htrail
  | frames p frs hrem hfl hfrs hpt hlists hfin hmax hcl =>
    by_cases hp : p = []
    · subst hp
      -- between frames: parse the next frame header
      simp only [List.length_nil] at hrem
      simp only [List.nil_append] at hfl hcl ⊢
      have hviol : b.violation = false := by simp [H3Body.violation, hrem]
      unfold H3Body.read at h
      simp only [hviol, Bool.false_eq_true, if_false] at h
      unfold H3Stream.read at h
      simp only [hrem, ne_eq, not_true_eq_false, if_false] at h
      obtain ⟨skips, rest, hsplit, hsk, hdata, hrest, hcase⟩ := split_skips frs hfrs
      have hfuel : skips.length < b.str.net.size + 1 := by
        rw [Net.size_eq, hfl, hsplit, framesWire_append]
        simp only [List.length_append]
        have : skips.length ≤ (framesWire skips).length := by
          clear hsplit hdata hfl
          induction skips with
          | nil => simp
          | cons g gs ih =>
            have hg := WFrame.hdr_ne g (hsk g (by simp)).1
            have := List.length_pos_iff.mpr hg
            have ih' := ih (fun g' hg' => hsk g' (by simp [hg']))
            simp only [framesWire_cons, List.length_cons, List.length_append]
            omega
        omega
      rcases hcase with rfl | ⟨f, rest', rfl, hf0, hfok⟩
      · -- no DATA frame left
        simp only [List.append_nil] at hsplit
        subst hsplit
        cases htrc : tr with
        | none =>
          -- end of stream
          subst htrc
          obtain ⟨n', hpn, hfl', hfin'⟩ := parseNext_end (b.str.net.size + 1) b.str.net frs hsk
            (by simpa [trailerWire] using hfl) hfuel
          simp only [hpn, hfin, NetEnd.toH3] at h
          rw [viol_if _ _ _ (violation_false _ (fun _ _ => rfl))] at h
          rw [if_neg (show ¬ _ from by
            intro ⟨_, hc, hr⟩
            have := hcl hc
            rw [this, hdata] at hr
            simp [h3DataOf] at hr)] at h
          simp only [Prod.mk.injEq] at h
          obtain ⟨⟨rfl, rfl⟩, rfl⟩ := h
          refine ⟨fun h0 => by simp at h0, fun x hx => ?_⟩
          simp only [Option.some.injEq] at hx
          exact ⟨hx.symm, by simp [hdata, h3DataOf], rfl, fun t ht => by simp at ht⟩
        | some t =>
          subst htrc
          obtain ⟨htok, htyp, htlen, htparse⟩ := htr t rfl
          obtain ⟨n1, hpn, hfl1, hfin1⟩ := parseNext_skip (b.str.net.size + 1) b.str.net frs t.frame t.frame.payload
            hsk htok (Or.inr htyp) (by simpa [trailerWire, WFrame.wire] using hfl) hfuel
          have hne0 : ¬ t.frame.typ = 0 := by omega
          simp only [hne0, if_false] at hpn
          simp only [hpn, hpt, Bool.false_eq_true, if_false] at h
          -- parseTrailer
          obtain ⟨n2, hrn, hfl2, hfin2⟩ := Net.readN_spec (t.frame.payload.length + 1) t.frame.payload.length [] n1
            t.frame.payload [] (by simpa using hfl1) rfl (by omega)
          have hmaxle : ¬ t.frame.payload.length > b.str.maxHeaderBytes := by rw [hmax]; omega
          unfold H3Stream.parseTrailer at h
          simp only [hmaxle, if_false, hrn, hlists, trailerLists, htparse] at h
          rw [viol_if _ _ _ (violation_false _ (fun _ _ => rfl))] at h
          rw [if_neg (show ¬ _ from by intro ⟨h0, _⟩; simp at h0)] at h
          simp only [Prod.mk.injEq] at h
          obtain ⟨⟨rfl, rfl⟩, rfl⟩ := h
          refine ⟨fun _ => ⟨[], by simp [hdata, h3DataOf], ?_, ?_⟩, fun x hx => by simp at hx⟩
          · exact H3Pos.trailed _ t rfl (by simpa using hrem) (by simpa using hfl2) rfl rfl
              (by simp [hfin2, hfin1, hfin])
              (by
                intro hc
                have := hcl hc
                simp only [List.length_nil, Nat.sub_zero]
                rw [this, hdata]
                simp [h3DataOf])
          · intro _
            have hh := List.length_pos_iff.mpr (WFrame.hdr_ne t.frame htok)
            simp only [hfl2, hfl, trailerWire, WFrame.wire, List.length_append, List.length_nil]
            omega
      · -- a DATA frame comes next
        rw [hsplit, framesWire_append, framesWire_cons] at hfl
        obtain ⟨n1, hpn, hfl1, hfin1⟩ := parseNext_skip (b.str.net.size + 1) b.str.net skips f
          (f.payload ++ (framesWire rest' ++ trailerWire tr)) hsk hfok (Or.inl hf0)
          (by simpa [List.append_assoc] using hfl) hfuel
        simp only [hf0, if_true] at hpn
        simp only [hpn, hpt, Bool.false_eq_true, if_false] at h
        have hdata' : h3DataOf frs = f.payload ++ h3DataOf rest' := by
          rw [hdata, h3DataOf_cons_data f rest' hf0]
        have hrest' : ∀ g ∈ rest', BodyFrameOK g := fun g hg => hrest g (by simp [hg])
        by_cases hpay : f.payload = []
        · -- empty DATA frame: a zero-byte read
          have hl0 : f.payload.length = 0 := by simp [hpay]
          simp only [hl0, Nat.min_zero] at h
          rw [hpay] at hfl1
          simp only [List.nil_append] at hfl1
          by_cases hmore : n1.segs.flatten = []
          · obtain ⟨n2, hr0, hfl2, hfin2⟩ := (Net.read_zero n1).2 hmore
            -- nothing follows: no more frames, no trailer
            have hnil : framesWire rest' ++ trailerWire tr = [] := by rw [← hfl1]; exact hmore
            simp only [List.append_eq_nil_iff] at hnil
            have hr' : rest' = [] := by
              cases rest' with
              | nil => rfl
              | cons g gs =>
                have := WFrame.hdr_ne g (hrest' g (by simp)).1
                simp [framesWire_cons] at hnil
                exact absurd hnil.1.1 this
            subst hr'
            simp only [hr0, hfin1, hfin, NetEnd.toH3] at h
            rw [viol_if _ _ _ (violation_false _ (fun _ _ => rfl))] at h
            rw [if_neg (show ¬ _ from by
              intro ⟨_, hc, hr⟩
              have := hcl hc
              rw [this, hdata', hpay] at hr
              simp [h3DataOf] at hr)] at h
            simp only [Prod.mk.injEq] at h
            obtain ⟨⟨rfl, rfl⟩, rfl⟩ := h
            refine ⟨fun h0 => by simp at h0, fun x hx => ?_⟩
            simp only [Option.some.injEq] at hx
            refine ⟨hx.symm, by simp [hdata', hpay, h3DataOf], rfl, fun t ht => ?_⟩
            subst ht
            have := WFrame.hdr_ne t.frame (htr t rfl).1
            simp [trailerWire, WFrame.wire] at hnil
            exact absurd hnil.2.1 this
          · obtain ⟨n2, hr0, hfl2, hfin2⟩ := (Net.read_zero n1).1 hmore
            simp only [hr0] at h
            rw [viol_if _ _ _ (violation_false _ (fun _ _ => rfl))] at h
            rw [if_neg (show ¬ _ from by intro ⟨h0, _⟩; simp at h0)] at h
            simp only [Prod.mk.injEq] at h
            obtain ⟨⟨rfl, rfl⟩, rfl⟩ := h
            have hlen : n2.segs.flatten.length < b.str.net.segs.flatten.length := by
              have hh := List.length_pos_iff.mpr (WFrame.hdr_ne f hfok)
              rw [hfl2, hfl1, hfl]
              simp only [List.length_append]
              omega
            refine ⟨fun _ => ⟨h3DataOf rest', by simp [hdata', hpay], ?_, fun _ => hlen⟩, fun x hx => by simp at hx⟩
            have := H3Pos.frames (tr := tr) (maxH := maxH)
              ({ b with str := { b.str with net := n2, remInFrame := 0 - ([] : Bytes).length }, remaining := b.remaining - ([] : Bytes).length } : H3Body)
              [] rest' (by simp) (by simpa [hfl2] using hfl1) hrest' hpt hlists (by simp [hfin2, hfin1, hfin]) hmax
              (by intro hc; simpa [hdata', hpay] using hcl hc)
            simpa [hpt] using this
        · -- non-empty DATA frame: read inside it
          let b1 : H3Body := { b with str := { b.str with net := n1, remInFrame := f.payload.length } }
          have hgo := h3_go tr maxH b1 f.payload rest' (if b.hasCL then min k b.remaining else k) hpay rfl hfl1 hrest' hpt hlists
            (by simp [b1, hfin1, hfin]) hmax
            (by
              intro hc
              have hc' : b.hasCL = true := hc
              refine ⟨by simpa [b1, hdata'] using hcl hc', ?_⟩
              intro _
              simp only [b1, hc', if_true]
              exact Nat.min_le_right _ _)
          obtain ⟨d0, n2, hr0, hd0, hlen0, q', hq', hpos'⟩ := hgo
          simp only [b1] at hr0 hpos' hlen0
          have hlen : n2.segs.flatten.length < b.str.net.segs.flatten.length := by
            have hh := List.length_pos_iff.mpr (WFrame.hdr_ne f hfok)
            rw [hfl1] at hlen0
            rw [hfl]
            simp only [List.length_append] at hlen0 ⊢
            omega
          simp only [hr0] at h
          -- no violation afterwards
          rw [viol_if _ _ _ (violation_false _ (by
            intro hc h0
            have h1 := hcl hc
            simp only at hc h0 ⊢
            rw [h1, hdata', hq'] at h0
            simp only [List.length_append] at h0
            rw [hq']
            simp only [List.length_append]
            omega))] at h
          rw [if_neg (show ¬ _ from by intro ⟨h0, _⟩; simp at h0)] at h
          simp only [Prod.mk.injEq] at h
          obtain ⟨⟨rfl, rfl⟩, rfl⟩ := h
          refine ⟨fun _ => ⟨q' ++ h3DataOf rest', by rw [hdata', hq', List.append_assoc], by simpa [hpt] using hpos', fun _ => hlen⟩, fun x hx => by simp at hx⟩
    · -- inside a DATA frame
      have hpl : 0 < p.length := List.length_pos_iff.mpr hp
      have hviol : b.violation = false := by
        by_cases hc : b.hasCL = true
        · have h1 := hcl hc
          simp only [H3Body.violation, hc, Bool.true_and, Bool.and_eq_false_iff, beq_eq_false_iff_ne, ne_eq,
            decide_eq_false_iff_not, Nat.not_lt, Nat.le_zero_eq]
          left
          rw [h1]; simp only [List.length_append]; omega
        · simp [H3Body.violation, hc]
      unfold H3Body.read at h
      simp only [hviol, Bool.false_eq_true, if_false] at h
      unfold H3Stream.read at h
      have hrem0 : b.str.remInFrame ≠ 0 := by omega
      simp only [hrem0, ne_eq, not_false_eq_true, if_true] at h
      have hgo := h3_go tr maxH b p frs (if b.hasCL then min k b.remaining else k) hp hrem hfl hfrs hpt hlists hfin hmax
        (by
          intro hc
          refine ⟨hcl hc, ?_⟩
          intro _
          simp only [hc, if_true]
          exact Nat.min_le_right _ _)
      obtain ⟨d0, n2, hr0, hd0, hlen0, q', hq', hpos'⟩ := hgo
      simp only [hr0] at h
      rw [viol_if _ _ _ (violation_false _ (by
        intro hc h0
        have h1 := hcl hc
        simp only at hc h0 ⊢
        rw [h1, hq'] at h0
        simp only [List.length_append] at h0
        rw [hrem, hq']
        simp only [List.length_append]
        omega))] at h
      rw [if_neg (show ¬ _ from by intro ⟨h0, _⟩; simp at h0)] at h
      simp only [Prod.mk.injEq] at h
      obtain ⟨⟨rfl, rfl⟩, rfl⟩ := h
      refine ⟨fun _ => ⟨q' ++ h3DataOf frs, by rw [hq', List.append_assoc], hpos', ?_⟩, fun x hx => by simp at hx⟩
      intro hk
      have hk' : 0 < (if b.hasCL = true then min k b.remaining else k) := by
        by_cases hc : b.hasCL = true
        · have h1 := hcl hc
          simp only [hc, if_true]
          rw [h1]; simp only [List.length_append]; omega
        · simp only [hc]; exact hk
      have := List.length_pos_iff.mpr (hd0 hk')
      show n2.segs.flatten.length < b.str.net.segs.flatten.length
      omega

theorem h3_refines (tr : Option WTrailer) (maxH : Nat) (htr : ∀ t, tr = some t → t.OK maxH) :
    RefinesR H3Body.read (H3Pos tr maxH) (· = H3Err.eof) where
  step_ok := by
    intro b E k d b' hpos h
    obtain ⟨E', hE, hpos', _⟩ := (h3_read tr maxH htr b E k hpos d none b' h).1 rfl
    exact ⟨E', hE, hpos'⟩
  step_end := by
    intro b E k d e b' hpos h
    obtain ⟨_, hE, hd, _⟩ := (h3_read tr maxH htr b E k hpos d (some e) b' h).2 e rfl
    exact ⟨⟨[], by simp [hE, hd]⟩, fun _ => by simp [hE, hd]⟩

theorem h3_progress (tr : Option WTrailer) (maxH : Nat) (htr : ∀ t, tr = some t → t.OK maxH) :
    ProgressR H3Body.read (H3Pos tr maxH) (fun b => b.str.net.segs.flatten.length) := by
  intro b E k d b' hpos hk h
  obtain ⟨_, _, _, hlt⟩ := (h3_read tr maxH htr b E k hpos d none b' h).1 rfl
  exact hlt hk

/-- The body reader right after the response head was read. -/
def h3Start (segs : List Bytes) (tr : Option WTrailer) (maxH : Nat) (cl : Option Nat) : H3Body :=
  let s0 : H3Stream := { net := ⟨segs, .eof⟩, remInFrame := 0, parsedTrailer := false, trailer := none,
                         fieldLists := trailerLists tr, maxHeaderBytes := maxH }
  match cl with
  | some n => { str := s0, hasCL := true, remaining := n }
  | none => { str := s0, hasCL := false, remaining := 0 }

theorem h3Start_pos (segs : List Bytes) (frs : List WFrame) (hfrs : ∀ f ∈ frs, BodyFrameOK f)
    (tr : Option WTrailer) (maxH : Nat) (cl : Option Nat)
    (hcl : cl = none ∨ cl = some (h3DataOf frs).length)
    (hsegs : segs.flatten = framesWire frs ++ trailerWire tr) :
    H3Pos tr maxH (h3Start segs tr maxH cl) (h3DataOf frs) := by
  have := H3Pos.frames (tr := tr) (maxH := maxH) (h3Start segs tr maxH cl) [] frs
    (by rcases hcl with rfl | rfl <;> rfl)
    (by rcases hcl with rfl | rfl <;> simpa [h3Start] using hsegs)
    hfrs (by rcases hcl with rfl | rfl <;> rfl) (by rcases hcl with rfl | rfl <;> rfl)
    (by rcases hcl with rfl | rfl <;> rfl) (by rcases hcl with rfl | rfl <;> rfl)
    (by rcases hcl with rfl | rfl <;> simp [h3Start])
  simpa using this

end Req.C02
