import Req.Lemmas.C03H2Out
/-!
C03 — HTTP/2: what the connection pool may do with the connection after the events of a stream
(`canTakeNewRequest`, `inPool` never improve; connection-fatal events; stream-level failures).
-/
namespace Req.C03
open Req.Proto Req.C02

@[simp] theorem ese_connDead (s : H2Stream) (e : H2Err) : (s.endStreamError e).connDead = s.connDead := by
  simp [H2Stream.endStreamError]
@[simp] theorem es_connDead (s : H2Stream) : s.endStream.connDead = s.connDead := by
  unfold H2Stream.endStream; split <;> rfl
theorem ce_connDead (s : H2Stream) : s.connError.connDead = true := by
  unfold H2Stream.connError; simp only []; split <;> simp

/-- A dead read loop processes nothing: the stream part of every later frame step is the identity. -/
theorem step_connDead (x : H2X) (e : H2XEv) (h : x.st.connDead = true) : (x.step e).st.connDead = true := by
  rw [step_st]
  cases e with
  | headers fs es => simp [H2Stream.processHeaders, h]
  | data p pad es => simp [H2Stream.processData, h]
  | rst c => simp [H2Stream.processRst, h]
  | connLost => exact ce_connDead _
  | goAway last code => simp [h]

/-- Connection-level facts never improve: a connection that stopped taking requests stays so. -/
theorem canTake_step (x : H2X) (e : H2XEv) (h : (x.step e).canTakeNewRequest = true) :
    x.canTakeNewRequest = true := by
  have hd := step_connDead x e
  simp only [H2X.canTakeNewRequest, Bool.and_eq_true, Bool.not_eq_true', Option.isNone_iff_eq_none] at h ⊢
  obtain ⟨⟨hg, hcd⟩, hdn⟩ := h
  have hcd0 : x.st.connDead = false := by
    cases hc : x.st.connDead with
    | false => rfl
    | true => rw [hd hc] at hcd; simp at hcd
  cases e with
  | headers fs es => exact ⟨⟨hg, hcd0⟩, hdn⟩
  | data p pad es => exact ⟨⟨hg, hcd0⟩, hdn⟩
  | rst c =>
    simp only [H2X.step, Bool.or_eq_false_iff] at hdn
    exact ⟨⟨hg, hcd0⟩, hdn.1⟩
  | connLost => exact ⟨⟨hg, hcd0⟩, hdn⟩
  | goAway last code =>
    simp only [H2X.step, hcd0, Bool.false_eq_true, if_false] at hg
    split at hg <;> simp at hg

theorem inPool_step (x : H2X) (e : H2XEv) (h : (x.step e).inPool = true) : x.inPool = true := by
  cases e with
  | headers fs es => simp only [H2X.step, Bool.and_eq_true] at h; exact h.1
  | data p pad es => simp only [H2X.step, Bool.and_eq_true] at h; exact h.1
  | rst c => exact h
  | connLost => simp [H2X.step] at h
  | goAway last code =>
    simp only [H2X.step] at h
    split at h
    · exact h
    · split at h <;> simp at h

/-- Connection-fatal events: GOAWAY seen by a live read loop, or the loop ending. -/
def H2XEv.fatal : H2XEv → Bool
  | .goAway _ _ => true
  | .connLost => true
  | _ => false

theorem fatal_step (x : H2X) (e : H2XEv) (hf : e.fatal = true) :
    (x.step e).canTakeNewRequest = false ∧ ((x.step e).inPool = false ∨ x.st.connDead = true) := by
  cases e with
  | headers fs es => simp [H2XEv.fatal] at hf
  | data p pad es => simp [H2XEv.fatal] at hf
  | rst c => simp [H2XEv.fatal] at hf
  | connLost =>
    refine ⟨?_, Or.inl rfl⟩
    simp [H2X.canTakeNewRequest, H2X.step, ce_connDead]
  | goAway last code =>
    cases hc : x.st.connDead with
    | true => exact ⟨by simp [H2X.canTakeNewRequest, H2X.step, hc], Or.inr rfl⟩
    | false =>
      refine ⟨?_, Or.inl ?_⟩
      · simp only [H2X.canTakeNewRequest, H2X.step, hc, Bool.false_eq_true, if_false]
        split <;> simp
      · simp only [H2X.step, hc, Bool.false_eq_true, if_false]
        split <;> rfl

theorem read_rdsame {s : H2Stream} {k : Nat} {o : Bytes × Option H2Err} {s' : H2Stream}
    (hr : s.read k = some (o, s')) : RdSame s s' := by
  have hnf := read_nf s k
  rw [hr] at hnf
  cases hnf with
  | sticky e he => exact RdSame.rfl' s
  | broken b s' _ _ hs _ _ _ => exact hs
  | brokenShort s' _ _ hs _ _ => exact hs
  | data s' _ _ _ _ hs _ _ _ => exact hs
  | over rem s' _ _ _ _ _ _ hs _ _ => exact hs
  | ended y s' _ _ _ _ _ hs _ _ _ => exact hs
  | short rem s' _ _ _ _ _ _ hs _ _ => exact hs

theorem canTake_run (x : H2X) (ops : List H2XOp) (h : (x.run ops).2.canTakeNewRequest = true) :
    x.canTakeNewRequest = true := by
  induction ops generalizing x with
  | nil => exact h
  | cons o ops ih =>
    cases o with
    | ev e => simp only [H2X.run] at h; exact canTake_step x e (ih _ h)
    | closeBody =>
      simp only [H2X.run] at h
      have := ih _ h
      simpa [H2X.canTakeNewRequest, H2X.closeBody] using this
    | read k =>
      cases hr : x.st.read k with
      | none => rw [run_read_none _ _ _ hr] at h; exact ih _ h
      | some v =>
        obtain ⟨⟨d, e⟩, st'⟩ := v
        rw [run_read_some _ _ _ _ _ hr] at h
        have := ih _ h
        have hsame := read_rdsame hr
        simpa [H2X.canTakeNewRequest, hsame.connDead] using this

theorem inPool_run (x : H2X) (ops : List H2XOp) (h : (x.run ops).2.inPool = true) : x.inPool = true := by
  induction ops generalizing x with
  | nil => exact h
  | cons o ops ih =>
    cases o with
    | ev e => simp only [H2X.run] at h; exact inPool_step x e (ih _ h)
    | closeBody => simp only [H2X.run] at h; exact ih x.closeBody h
    | read k =>
      cases hr : x.st.read k with
      | none => rw [run_read_none _ _ _ hr] at h; exact ih _ h
      | some v =>
        obtain ⟨o, st'⟩ := v
        rw [run_read_some _ _ _ _ _ hr] at h
        exact ih { x with st := st' } h

theorem connDead_run (x : H2X) (ops : List H2XOp) (h : x.st.connDead = true) :
    (x.run ops).2.st.connDead = true := by
  induction ops generalizing x with
  | nil => exact h
  | cons o ops ih =>
    cases o with
    | ev e => simp only [H2X.run]; exact ih _ (step_connDead x e h)
    | closeBody => simp only [H2X.run]; exact ih _ (by simpa [H2X.closeBody] using h)
    | read k =>
      cases hr : x.st.read k with
      | none => rw [run_read_none _ _ _ hr]; exact ih _ h
      | some v =>
        obtain ⟨o, st'⟩ := v
        rw [run_read_some _ _ _ _ _ hr]
        exact ih _ (by simpa [(read_rdsame hr).connDead] using h)

/-- After a connection-fatal event, whatever follows, the connection takes no new request and
is out of the pool. -/
theorem fatal_run (x : H2X) (ops : List H2XOp) (hf : ∃ e ∈ evsOf ops, H2XEv.fatal e = true)
    (hp : x.st.connDead = true → x.inPool = false) :
    (x.run ops).2.canTakeNewRequest = false ∧ (x.run ops).2.inPool = false := by
  induction ops generalizing x with
  | nil => simp [evsOf] at hf
  | cons o ops ih =>
    have hstepP : ∀ e, (x.step e).st.connDead = true → (x.step e).inPool = false := by
      intro e hd
      cases hc : x.st.connDead with
      | true =>
        cases hip : (x.step e).inPool with
        | false => rfl
        | true => have := inPool_step x e hip; rw [hp hc] at this; simp at this
      | false =>
        cases e with
        | headers fs es => simp only [H2X.step] at hd ⊢; simp [hd]
        | data p pad es => simp only [H2X.step] at hd ⊢; simp [hd]
        | rst c =>
          simp only [H2X.step, H2Stream.processRst, hc] at hd
          split at hd <;> simp [hc] at hd
        | connLost => rfl
        | goAway last code =>
          simp only [H2X.step, hc, Bool.false_eq_true, if_false] at hd ⊢
          split <;> rfl
    cases o with
    | ev e =>
      simp only [H2X.run]
      by_cases hfe : e.fatal = true
      · obtain ⟨h1, h2⟩ := fatal_step x e hfe
        have hip : (x.step e).inPool = false := by
          rcases h2 with h2 | h2
          · exact h2
          · exact hstepP e (step_connDead x e h2)
        constructor
        · cases hc : ((x.step e).run ops).2.canTakeNewRequest with
          | false => rfl
          | true => have := canTake_run _ _ hc; rw [h1] at this; simp at this
        · cases hc : ((x.step e).run ops).2.inPool with
          | false => rfl
          | true => have := inPool_run _ _ hc; rw [hip] at this; simp at this
      · refine ih (x := x.step e) ?_ (hstepP e)
        obtain ⟨e', he', hfe'⟩ := hf
        simp only [evsOf, List.mem_cons] at he'
        rcases he' with rfl | he'
        · exact absurd hfe' hfe
        · exact ⟨e', he', hfe'⟩
    | closeBody =>
      simp only [H2X.run]
      exact ih (x := x.closeBody) (by simpa [evsOf] using hf) (by simpa [H2X.closeBody] using hp)
    | read k =>
      have hf' : ∃ e ∈ evsOf ops, H2XEv.fatal e = true := by simpa [evsOf] using hf
      cases hr : x.st.read k with
      | none => rw [run_read_none _ _ _ hr]; exact ih (x := x) hf' hp
      | some v =>
        obtain ⟨o, st'⟩ := v
        rw [run_read_some _ _ _ _ _ hr]
        exact ih (x := { x with st := st' }) hf' (by simpa [(read_rdsame hr).connDead] using hp)

/-- Stream-level events: HEADERS, DATA, RST_STREAM with a code other than PROTOCOL_ERROR. -/
def H2XEv.streamLevel : H2XEv → Bool
  | .headers _ _ => true
  | .data _ _ _ => true
  | .rst c => c != ErrCodeProtocol
  | _ => false

/-- A failure of the stream alone (any RST_STREAM code but PROTOCOL_ERROR, a short or over-long
body, the caller giving up) leaves the connection in the pool and able to take the next request,
as long as the read loop itself did not fail. -/
theorem stream_level_run (x : H2X) (ops : List H2XOp) (hs : ∀ e ∈ evsOf ops, H2XEv.streamLevel e = true)
    (h0 : x.canTakeNewRequest = true) (h1 : x.inPool = true)
    (hfin : (x.run ops).2.st.connDead = false) :
    (x.run ops).2.canTakeNewRequest = true ∧ (x.run ops).2.inPool = true := by
  induction ops generalizing x with
  | nil => exact ⟨h0, h1⟩
  | cons o ops ih =>
    cases o with
    | ev e =>
      simp only [H2X.run] at hfin ⊢
      simp only [evsOf, List.mem_cons, forall_eq_or_imp] at hs
      have hcd : (x.step e).st.connDead = false := by
        cases hc : (x.step e).st.connDead with
        | false => rfl
        | true => rw [connDead_run _ ops hc] at hfin; simp at hfin
      simp only [H2X.canTakeNewRequest, Bool.and_eq_true, Bool.not_eq_true', Option.isNone_iff_eq_none] at h0
      refine ih (x := x.step e) hs.2 ?_ ?_ hfin
      · simp only [H2X.canTakeNewRequest, Bool.and_eq_true, Bool.not_eq_true', Option.isNone_iff_eq_none, hcd,
          and_true]
        cases e with
        | headers fs es => exact ⟨h0.1.1, h0.2⟩
        | data p pad es => exact ⟨h0.1.1, h0.2⟩
        | rst c =>
          have hc : (c == ErrCodeProtocol) = false := by simpa [H2XEv.streamLevel] using hs.1
          simp only [H2X.step, hc, Bool.and_false, Bool.or_false]
          exact ⟨h0.1.1, h0.2⟩
        | connLost => simp [H2XEv.streamLevel] at hs
        | goAway last code => simp [H2XEv.streamLevel] at hs
      · cases e with
        | headers fs es => simp only [H2X.step] at hcd ⊢; simp [h1, hcd]
        | data p pad es => simp only [H2X.step] at hcd ⊢; simp [h1, hcd]
        | rst c => exact h1
        | connLost => simp [H2XEv.streamLevel] at hs
        | goAway last code => simp [H2XEv.streamLevel] at hs
    | closeBody =>
      simp only [H2X.run] at hfin ⊢
      exact ih (x := x.closeBody) (by simpa [evsOf] using hs)
        (by simpa [H2X.canTakeNewRequest, H2X.closeBody] using h0) h1 hfin
    | read k =>
      have hs' : ∀ e ∈ evsOf ops, H2XEv.streamLevel e = true := by simpa [evsOf] using hs
      cases hr : x.st.read k with
      | none => rw [run_read_none _ _ _ hr] at hfin ⊢; exact ih (x := x) hs' h0 h1 hfin
      | some v =>
        obtain ⟨o, st'⟩ := v
        rw [run_read_some _ _ _ _ _ hr] at hfin ⊢
        exact ih (x := { x with st := st' }) hs'
          (by simpa [H2X.canTakeNewRequest, (read_rdsame hr).connDead] using h0) h1 hfin

end Req.C03
