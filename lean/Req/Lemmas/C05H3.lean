import Req.H3.Frame
import Req.Lemmas.C05Varint
/-! Helper lemmas and proofs for the HTTP/3 frame / SETTINGS theorems of C05. -/
set_option linter.unusedSimpArgs false
set_option linter.unusedVariables false
namespace Req.Lemmas.C05.H3
open Req.H3.Varint Req.H3.Frame Req.Proto Req.Lemmas.C05.Varint

theorem appendPair_some (a b : Nat) (z : Bytes) (h : appendPair a b = some z) :
    ∃ x y, append a = some x ∧ append b = some y ∧ z = x ++ y := by
  unfold appendPair at h
  split at h
  · next x y hx hy => cases h; exact ⟨x, y, hx, hy, rfl⟩
  · cases h

theorem appendPairs_cons (id v : Nat) (ps : List (Nat × Nat)) (bs : Bytes)
    (h : appendPairs ((id, v) :: ps) = some bs) :
    ∃ x y z, append id = some x ∧ append v = some y ∧ appendPairs ps = some z ∧ bs = x ++ y ++ z := by
  simp only [appendPairs] at h
  split at h
  · next xy z hxy hz =>
    cases h
    obtain ⟨x, y, hx, hy, rfl⟩ := appendPair_some _ _ _ hxy
    exact ⟨x, y, z, hx, hy, hz, rfl⟩
  · cases h

/-- the loop of `parseSettingsFrame` seen on the decoded (id, value) pairs -/
def foldSteps : SettingsAcc → List (Nat × Nat) → Except Err Settings
  | a, [] => .ok a.s
  | a, (id, v) :: ps =>
    match settingsStep a id v with
    | .error e => .error e
    | .ok a' => foldSteps a' ps

theorem appendPairs_length (ps : List (Nat × Nat)) (bs : Bytes) (h : appendPairs ps = some bs) :
    2 * ps.length ≤ bs.length := by
  induction ps generalizing bs with
  | nil => simp
  | cons p ps ih =>
    obtain ⟨id, v⟩ := p
    obtain ⟨x, y, z, hx, hy, hz, rfl⟩ := appendPairs_cons id v ps bs h
    have := ih z hz
    have := (append_length _ _ hx).2
    have := (append_length _ _ hy).2
    simp only [List.length_append, List.length_cons]
    omega

theorem settingsLoop_eq_fold (ps : List (Nat × Nat)) (fuel : Nat) (a : SettingsAcc) (bs : Bytes)
    (h : appendPairs ps = some bs) (hf : ps.length < fuel) :
    settingsLoop fuel a bs = foldSteps a ps := by
  induction ps generalizing fuel a bs with
  | nil =>
    simp [appendPairs] at h; subst h
    cases fuel with
    | zero => omega
    | succ f => simp [settingsLoop, foldSteps]
  | cons p ps ih =>
    obtain ⟨id, v⟩ := p
    obtain ⟨x, y, z, hx, hy, hz, rfl⟩ := appendPairs_cons id v ps bs h
    cases fuel with
    | zero => omega
    | succ f =>
      have hne : (x ++ y ++ z).isEmpty = false := by
        have := (append_length _ _ hx).2
        cases x with
        | nil => simp at this
        | cons _ _ => simp
      simp only [settingsLoop, hne]
      rw [List.append_assoc, read_append id x (y ++ z) hx]
      simp only
      rw [read_append v y z hy]
      simp only [foldSteps]
      cases settingsStep a id v with
      | error e => rfl
      | ok a' => exact ih f a' z hz (by simp at hf; omega)

theorem parseSettingsPayload_eq_fold (ps : List (Nat × Nat)) (bs : Bytes)
    (h : appendPairs ps = some bs) : parseSettingsPayload bs = foldSteps {} ps := by
  unfold parseSettingsPayload
  exact settingsLoop_eq_fold ps _ {} bs h (by have := appendPairs_length ps bs h; omega)

/-- the identifiers the accumulator has already seen -/
def seen (a : SettingsAcc) (id : Nat) : Prop :=
  (id = settingExtendedConnect ∧ a.readExtendedConnect = true) ∨
  (id = settingDatagram ∧ a.readDatagram = true) ∨
  (id ≠ settingExtendedConnect ∧ id ≠ settingDatagram ∧ id ∈ a.s.other.map (·.1))

theorem settingsStep_ok (a a' : SettingsAcc) (id v : Nat) (h : settingsStep a id v = .ok a') :
    ¬ seen a id ∧ ∀ j, seen a' j ↔ (seen a j ∨ j = id) := by
  unfold settingsStep at h
  simp only [settingExtendedConnect, settingDatagram] at h
  unfold seen
  simp only [settingExtendedConnect, settingDatagram]
  split at h
  · next h8 =>
    subst h8
    split at h; · cases h
    next hr =>
    split at h; · cases h
    cases h
    simp at hr
    refine ⟨by simp [hr], ?_⟩
    intro j
    by_cases hj : j = 8 <;> simp [hj, hr]
  split at h
  · next h8 h51 =>
    subst h51
    split at h; · cases h
    next hr =>
    split at h; · cases h
    cases h
    simp at hr
    refine ⟨by simp [hr], ?_⟩
    intro j
    by_cases hj : j = 51 <;> simp [hj, hr]
  · next h8 h51 =>
    split at h; · cases h
    next hany =>
    cases h
    simp only [List.any_eq_true, not_exists, not_and] at hany
    refine ⟨?_, ?_⟩
    · simp only [h8, h51, false_and, false_or, ne_eq, not_false_eq_true, true_and, List.mem_map, not_exists,
        not_and]
      intro p hp hpe
      have := hany p hp
      simp [hpe] at this
    · intro j
      by_cases hj : j = id
      · subst hj; simp [h8, h51]
      · simp [hj, List.map_append]

theorem foldSteps_ok_nodup (ps : List (Nat × Nat)) (a : SettingsAcc) (s : Settings)
    (h : foldSteps a ps = .ok s) :
    (ps.map (·.1)).Nodup ∧ ∀ id ∈ ps.map (·.1), ¬ seen a id := by
  induction ps generalizing a with
  | nil => simp
  | cons p ps ih =>
    obtain ⟨id, v⟩ := p
    simp only [foldSteps] at h
    split at h; · cases h
    next a' ha =>
    obtain ⟨hns, hseen⟩ := settingsStep_ok a a' id v ha
    obtain ⟨hnd, hrest⟩ := ih a' h
    refine ⟨?_, ?_⟩
    · simp only [List.map_cons, List.nodup_cons]
      refine ⟨?_, hnd⟩
      intro hmem
      exact hrest id hmem ((hseen id).mpr (Or.inr rfl))
    · intro j hj
      simp only [List.map_cons, List.mem_cons] at hj
      rcases hj with rfl | hj
      · exact hns
      · intro hs
        exact hrest j hj ((hseen j).mpr (Or.inl hs))

/-- **h3settings_dup_rejected**: a SETTINGS payload (any sequence of identifier/value varints)
in which an identifier occurs twice is never accepted. -/
theorem h3settings_dup_rejected (ps : List (Nat × Nat)) (bs : Bytes)
    (h : appendPairs ps = some bs) (hdup : ¬ (ps.map (·.1)).Nodup) :
    ∃ e, parseSettingsPayload bs = .error e := by
  rw [parseSettingsPayload_eq_fold ps bs h]
  cases hf : foldSteps {} ps with
  | error e => exact ⟨e, rfl⟩
  | ok s => exact absurd (foldSteps_ok_nodup ps {} s hf).1 hdup

theorem settingsStep_other (a : SettingsAcc) (id v : Nat)
    (h1 : id ≠ settingExtendedConnect) (h2 : id ≠ settingDatagram)
    (hany : (a.s.other.any fun p => p.1 == id) = false) :
    settingsStep a id v = .ok { a with s := { a.s with other := a.s.other ++ [(id, v)] } } := by
  simp [settingsStep, h1, h2, hany]

theorem foldSteps_other (other : List (Nat × Nat)) (a : SettingsAcc)
    (hnd : (other.map (·.1)).Nodup)
    (hne : ∀ p ∈ other, p.1 ≠ settingExtendedConnect ∧ p.1 ≠ settingDatagram)
    (hdis : ∀ p ∈ other, ∀ q ∈ a.s.other, q.1 ≠ p.1) :
    foldSteps a other = .ok { a.s with other := a.s.other ++ other } := by
  induction other generalizing a with
  | nil => simp [foldSteps]
  | cons p ps ih =>
    obtain ⟨id, v⟩ := p
    have h1 := hne (id, v) (by simp)
    simp only at h1
    have hany : (a.s.other.any fun p => p.1 == id) = false := by
      simp only [List.any_eq_false, beq_iff_eq]
      intro q hq
      exact hdis (id, v) (by simp) q hq
    simp only [foldSteps, settingsStep_other a id v h1.1 h1.2 hany]
    simp only [List.map_cons, List.nodup_cons] at hnd
    rw [ih _ hnd.2 (fun p hp => hne p (by simp [hp]))]
    · simp
    · intro p hp q hq
      simp only [List.mem_append, List.mem_singleton] at hq
      rcases hq with hq | rfl
      · exact hdis p (by simp [hp]) q hq
      · simp only
        intro he
        apply hnd.1
        rw [he]
        exact List.mem_map_of_mem hp

theorem foldSteps_settings (s : Settings) (h : WfSettings s) :
    foldSteps {} ((if s.datagram then [(settingDatagram, 1)] else [])
      ++ (if s.extendedConnect then [(settingExtendedConnect, 1)] else []) ++ s.other) = .ok s := by
  obtain ⟨hnd, hne⟩ := h
  obtain ⟨dg, ec, other⟩ := s
  simp only at hnd hne
  cases dg <;> cases ec
  · simp only [Bool.false_eq_true, if_false, List.nil_append]
    rw [foldSteps_other other {} hnd hne (by simp)]
    simp
  · have e : settingsStep {} settingExtendedConnect 1 =
        .ok { s := { extendedConnect := true }, readExtendedConnect := true } := by
      simp [settingsStep]
    simp only [Bool.false_eq_true, if_false, if_true, List.nil_append, List.cons_append, foldSteps, e]
    rw [foldSteps_other other _ hnd hne (by simp)]
    simp
  · have e : settingsStep {} settingDatagram 1 =
        .ok { s := { datagram := true }, readDatagram := true } := by
      simp [settingsStep, settingDatagram, settingExtendedConnect]
    simp only [Bool.false_eq_true, if_false, if_true, List.nil_append, List.cons_append, foldSteps,
      List.append_nil, e]
    rw [foldSteps_other other _ hnd hne (by simp)]
    simp
  · have e : settingsStep {} settingDatagram 1 =
        .ok { s := { datagram := true }, readDatagram := true } := by
      simp [settingsStep, settingDatagram, settingExtendedConnect]
    have e2 : settingsStep { s := { datagram := true }, readDatagram := true } settingExtendedConnect 1 =
        .ok { s := { datagram := true, extendedConnect := true }, readDatagram := true,
              readExtendedConnect := true } := by
      simp [settingsStep]
    simp only [if_true, List.nil_append, List.cons_append, foldSteps, e, e2]
    rw [foldSteps_other other _ hnd hne (by simp)]
    simp

/-- **h3settings_roundtrip** (payload level): what `settingsFrame.Append` writes after the frame
header is parsed back to the same settings, for every iteration order of the `Other` map. -/
theorem h3settings_payload_roundtrip (s : Settings) (bs : Bytes) (h : WfSettings s)
    (hp : settingsPayload s = some bs) : parseSettingsPayload bs = .ok s := by
  unfold settingsPayload at hp
  rw [parseSettingsPayload_eq_fold _ bs hp]
  exact foldSteps_settings s h

/-- **h3settings_roundtrip** (wire level): `ParseNext` on what `settingsFrame.Append` wrote
returns the same settings and leaves exactly the rest of the stream. -/
theorem h3settings_roundtrip (s : Settings) (out rest : Bytes) (fuel : Nat) (h : WfSettings s)
    (hw : appendSettings s = some out) (hsz : out.length ≤ 8192) :
    parseNext (fuel + 1) (out ++ rest) = (.ok (.settings s), rest) := by
  unfold appendSettings at hw
  split at hw; · cases hw
  next p hp =>
  split at hw; · cases hw
  next hd hhd =>
  cases hw
  obtain ⟨x, y, hx, hy, rfl⟩ := appendPair_some _ _ _ hhd
  have hpl : p.length ≤ 8192 := by simp only [List.length_append] at hsz; omega
  simp only [parseNext]
  rw [List.append_assoc, List.append_assoc, read_append 4 x _ hx]
  simp only
  rw [read_append p.length y _ hy]
  simp only [show (4 : Nat) ≠ 0 by decide, show (4 : Nat) ≠ 1 by decide, ↓reduceIte]
  unfold parseSettingsFrame
  rw [if_neg (by omega), if_neg (by simp)]
  simp [h3settings_payload_roundtrip s p h hp, truncated]

/-- HTTP/3 frame headers: DATA and HEADERS (type and length varints) -/
theorem h3_frameHeader_roundtrip (l : Nat) (rest : Bytes) (fuel : Nat) (hl : l < 2^62) :
    (∃ out, appendData l = some out ∧ parseNext (fuel + 1) (out ++ rest) = (.ok (.data l), rest)) ∧
    (∃ out, appendHeaders l = some out ∧ parseNext (fuel + 1) (out ++ rest) = (.ok (.headers l), rest)) := by
  obtain ⟨y, hy, _⟩ := varint_roundtrip l hl []
  obtain ⟨x0, hx0, _⟩ := varint_roundtrip 0 (by decide) []
  obtain ⟨x1, hx1, _⟩ := varint_roundtrip 1 (by decide) []
  constructor
  · refine ⟨x0 ++ y, by simp [appendData, appendPair, hx0, hy], ?_⟩
    simp only [parseNext]
    rw [List.append_assoc, read_append 0 x0 _ hx0]
    simp only
    rw [read_append l y _ hy]
    simp
  · refine ⟨x1 ++ y, by simp [appendHeaders, appendPair, hx1, hy], ?_⟩
    simp only [parseNext]
    rw [List.append_assoc, read_append 1 x1 _ hx1]
    simp only
    rw [read_append l y _ hy]
    simp

/-- a frame of a type RFC 9114 reserves (the HTTP/2 types 0x2, 0x6, 0x8, 0x9) is an error,
whatever follows; every other type that is not DATA/HEADERS/SETTINGS is skipped. -/
theorem h3_reserved_rejected (t l : Nat) (xt xl rest : Bytes) (fuel : Nat)
    (ht : t = 2 ∨ t = 6 ∨ t = 8 ∨ t = 9) (hxt : append t = some xt) (hxl : append l = some xl) :
    (parseNext (fuel + 1) (xt ++ xl ++ rest)).1 = .error (.reserved t) := by
  simp only [parseNext]
  rw [List.append_assoc, read_append t xt _ hxt]
  simp only
  rw [read_append l xl _ hxl]
  rcases ht with rfl | rfl | rfl | rfl <;> simp [isReservedType]

theorem h3_unknown_skipped (t : Nat) (xt xl payload rest : Bytes) (fuel : Nat)
    (ht : t ≠ 0 ∧ t ≠ 1 ∧ t ≠ 4 ∧ isReservedType t = false)
    (hxt : append t = some xt) (hxl : append payload.length = some xl) :
    parseNext (fuel + 1) (xt ++ xl ++ payload ++ rest) = parseNext fuel rest := by
  simp only [parseNext]
  rw [List.append_assoc, List.append_assoc, read_append t xt _ hxt]
  simp only
  rw [read_append payload.length xl _ hxl]
  simp [ht.1, ht.2.1, ht.2.2.1, ht.2.2.2]
  intro hlt
  omega

end Req.Lemmas.C05.H3
