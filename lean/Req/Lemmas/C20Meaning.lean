import Req.Lemmas.C20Tok
/-!
Helper lemmas for C20 `parse_faithful`, part 2: what a written list of elements MEANS (RFC 7235:
a list of challenges, each a scheme with either a token68 or parameters whose names are
case-insensitive and occur once), and that the loop of `parseChallenge` computes exactly the Digest
challenges of that meaning. Part 3: several field lines.
-/
namespace Req.DigestAuth
open Req.Proto Req.Ascii Req.Digest

/-- a challenge as the server means it -/
structure SChal where
  scheme : Bytes
  t68 : Option Bytes := none
  /-- (name in lower case, value) in the order written -/
  params : List (Bytes × Bytes) := []

def isDigest (s : Bytes) : Bool := equalFold s b!"Digest"

def names (ch : SChal) : List Bytes := ch.params.map (·.1)

/-- add a parameter to the most recent challenge. `none`: outside any challenge, a name for the
second time (RFC 7235 section 2.1), or a charset other than UTF-8 on a Digest challenge
(RFC 7616 section 3.3) -/
def meanParam (acc : List SChal) (p : ParamW) : Option (List SChal) :=
  match acc with
  | [] => none
  | ch :: rest =>
    if (names ch).contains (lower p.name) then none
    else if isDigest ch.scheme && lower p.name == b!"charset" && !isUtf8Name p.val.value then none
    else some ({ ch with params := ch.params ++ [(lower p.name, p.val.value)] } :: rest)

/-- the challenges read so far, most recent first -/
def meanStep (acc : List SChal) : ElemW → Option (List SChal)
  | .empty => some acc
  | .scheme s => some ({ scheme := s } :: acc)
  | .scheme68 s _ t => if isDigest s then none else some ({ scheme := s, t68 := some t } :: acc)
  | .schemeParam s _ p => meanParam ({ scheme := s } :: acc) p
  | .param p => meanParam acc p

def meanElems : List ElemW → List SChal → Option (List SChal)
  | [], acc => some acc
  | w :: ws, acc =>
    match meanStep acc w with
    | some acc' => meanElems ws acc'
    | none => none

/-- **the meaning of a written list**: its challenges in the order sent -/
def meaning (ws : List ElemW) : Option (List SChal) := (meanElems ws []).map List.reverse

/-- what a Digest challenge with these parameters is for the client (unknown parameters are
ignored, RFC 7616 section 3.3) -/
def challengeOfParams (ps : List (Bytes × Bytes)) : Challenge :=
  ps.foldl (fun c kv => store c kv.1 kv.2) {}

def digestOf (ch : SChal) : Option Challenge :=
  if isDigest ch.scheme then some (challengeOfParams ch.params) else none

theorem setParam_store (c : Challenge) (k v : Bytes) (h : k = b!"charset" → isUtf8Name v = true) :
    setParam c k v = .ok (store c k v) := by
  unfold setParam store
  repeat' split
  all_goals first
    | rfl
    | simp_all

/-- the loop variables agree with the meaning read so far -/
def Inv (st : PState) (acc : List SChal) : Prop :=
  st.rev = acc.filterMap digestOf ∧
  match acc with
  | [] => st.seen = none ∧ st.cur = false
  | ch :: _ => st.seen = some (names ch).reverse ∧ st.cur = isDigest ch.scheme

theorem inv_newChal (st : PState) (acc : List SChal) (s : Bytes) (t : Option Bytes) (h : Inv st acc) :
    Inv (newChal st s) ({ scheme := s, t68 := t } :: acc) := by
  refine ⟨?_, rfl, rfl⟩
  by_cases hd : equalFold s b!"Digest" = true <;>
    simp [newChal, digestOf, isDigest, challengeOfParams, hd, h.1]

theorem inv_param (st : PState) (acc acc' : List SChal) (p : ParamW) (h : Inv st acc)
    (hm : meanParam acc p = some acc') :
    ∃ st', putParam st (lower p.name) p.val.value = .ok st' ∧ Inv st' acc' := by
  unfold meanParam at hm
  cases acc with
  | nil => cases hm
  | cons ch rest =>
    simp only at hm
    split at hm
    · cases hm
    · rename_i hdup
      split at hm
      · cases hm
      · rename_i hcs
        simp only [Option.some.injEq] at hm
        subst hm
        obtain ⟨hrev, hseen, hcur⟩ := h
        have hdup' : (names ch).reverse.contains (lower p.name) = false := by
          have : (names ch).contains (lower p.name) = false := by simpa using hdup
          rw [List.contains_eq_mem] at this ⊢
          simpa using this
        unfold putParam
        simp only [hseen, hdup', Bool.false_eq_true, if_false, hcur]
        cases hd : isDigest ch.scheme with
        | false =>
          simp only [Bool.not_false, if_true]
          refine ⟨_, rfl, ?_, ?_, ?_⟩
          · simp only [hrev, List.filterMap_cons, digestOf, hd, Bool.false_eq_true, if_false]
          · simp [names]
          · simp [hd]
        | true =>
          have hne : st.rev = challengeOfParams ch.params :: rest.filterMap digestOf := by
            rw [hrev]
            simp only [List.filterMap_cons, digestOf, hd, if_true]
          have hch : lower p.name = b!"charset" → isUtf8Name p.val.value = true := by
            intro e
            cases hu : isUtf8Name p.val.value with
            | true => rfl
            | false =>
              exfalso
              apply hcs
              simp [hd, e, hu]
          simp only [Bool.not_true, Bool.false_eq_true, if_false, hne,
            setParam_store _ _ _ hch]
          refine ⟨_, rfl, ?_, ?_, ?_⟩
          · simp only [List.filterMap_cons, digestOf, hd, if_true, challengeOfParams, List.foldl_append,
              List.foldl_cons, List.foldl_nil]
          · simp [names]
          · simp [hd]

theorem inv_step (st : PState) (acc acc' : List SChal) (w : ElemW) (h : Inv st acc)
    (hm : meanStep acc w = some acc') : ∃ st', absStep st w = .ok st' ∧ Inv st' acc' := by
  cases w with
  | empty =>
    simp only [meanStep, Option.some.injEq] at hm
    subst hm
    exact ⟨st, rfl, h⟩
  | param p => exact inv_param st acc acc' p h hm
  | scheme s =>
    simp only [meanStep, Option.some.injEq] at hm
    subst hm
    exact ⟨_, rfl, inv_newChal st acc s none h⟩
  | schemeParam s sp p =>
    simp only [meanStep] at hm
    exact inv_param (newChal st s) _ acc' p (inv_newChal st acc s none h) hm
  | scheme68 s sp t =>
    simp only [meanStep] at hm
    split at hm
    · cases hm
    · rename_i hd
      simp only [Option.some.injEq] at hm
      subst hm
      have hd' : equalFold s b!"Digest" = false := by simpa [isDigest] using hd
      exact ⟨newChal st s, by simp [absStep, hd'], inv_newChal st acc s (some t) h⟩

theorem inv_elems : ∀ (ws : List ElemW) (st : PState) (acc acc' : List SChal), Inv st acc →
    meanElems ws acc = some acc' → ∃ st', absElems ws st = .ok st' ∧ Inv st' acc' := by
  intro ws
  induction ws with
  | nil =>
    intro st acc acc' h hm
    simp only [meanElems, Option.some.injEq] at hm
    subst hm
    exact ⟨st, rfl, h⟩
  | cons w ws ih =>
    intro st acc acc' h hm
    simp only [meanElems] at hm
    split at hm
    · rename_i acc1 h1
      obtain ⟨st1, hs1, hi1⟩ := inv_step st acc acc1 w h h1
      obtain ⟨st', hs', hi'⟩ := ih st1 acc1 acc' hi1 hm
      exact ⟨st', by simp only [absElems, hs1, hs'], hi'⟩
    · cases hm

/-- the loop of `parseChallenge` computes the Digest challenges of the meaning, in order -/
theorem absElems_meaning (ws : List ElemW) (chs : List SChal) (h : meaning ws = some chs) :
    ∃ st, absElems ws {} = .ok st ∧ st.rev.reverse = chs.filterMap digestOf := by
  unfold meaning at h
  cases hm : meanElems ws [] with
  | none => rw [hm] at h; cases h
  | some acc =>
    rw [hm] at h
    simp only [Option.map_some, Option.some.injEq] at h
    subst h
    obtain ⟨st, hs, hi⟩ := inv_elems ws {} [] acc ⟨rfl, rfl, rfl⟩ hm
    exact ⟨st, hs, by rw [hi.1, List.filterMap_reverse]⟩

/-! ### several field lines -/

/-- one field line: a non-empty list of elements -/
def lineRender (l : List Elem) : Bytes := commaCat (l.map Elem.render)

/-- `strings.Join(lines, ", ")` puts a space in front of the first element of every further line -/
def padFirst : List Elem → List Elem
  | [] => []
  | x :: r => { x with pre := 32 :: x.pre } :: r

def joinLines : List (List Elem) → List Elem
  | [] => []
  | l :: rest => l ++ (rest.map padFirst).flatten

theorem commaCat_append : ∀ (a b : List Bytes), a ≠ [] → b ≠ [] →
    commaCat (a ++ b) = commaCat a ++ 44 :: commaCat b
  | [], _, h, _ => absurd rfl h
  | [x], b, _, hb => by
    cases b with
    | nil => exact absurd rfl hb
    | cons y r => simp [commaCat]
  | x :: y :: r, b, _, hb => by
    have ih := commaCat_append (y :: r) b (by simp) hb
    simp only [List.cons_append, commaCat] at ih ⊢
    rw [ih]
    simp

theorem render_padFirst (l : List Elem) (h : l ≠ []) :
    commaCat ((padFirst l).map Elem.render) = 32 :: lineRender l := by
  cases l with
  | nil => exact absurd rfl h
  | cons x r =>
    unfold lineRender
    cases r with
    | nil => simp [padFirst, commaCat, Elem.render]
    | cons y r' => simp [padFirst, commaCat, Elem.render]

theorem padFirst_ne_nil (l : List Elem) (h : l ≠ []) : padFirst l ≠ [] := by
  cases l with
  | nil => exact absurd rfl h
  | cons _ _ => simp [padFirst]

theorem flatten_pad_ne_nil : ∀ (rest : List (List Elem)), rest ≠ [] → (∀ l ∈ rest, l ≠ []) →
    (rest.map padFirst).flatten ≠ [] := by
  intro rest hne h
  cases rest with
  | nil => exact absurd rfl hne
  | cons l r =>
    have := padFirst_ne_nil l (h l (by simp))
    simp [this]

/-- the joined field value is the rendering of ONE element list -/
theorem commaJoin_lines : ∀ (ls : List (List Elem)), ls ≠ [] → (∀ l ∈ ls, l ≠ []) →
    commaJoin (ls.map lineRender) = commaCat ((joinLines ls).map Elem.render)
  | [], h, _ => absurd rfl h
  | [l], _, _ => by simp [commaJoin, joinLines, lineRender]
  | l :: m :: r, _, hne => by
    have ih := commaJoin_lines (m :: r) (by simp) (fun x hx => hne x (List.mem_cons_of_mem _ hx))
    have hl := hne l (by simp)
    have hm := hne m (by simp)
    simp only [List.map_cons, commaJoin]
    simp only [List.map_cons] at ih
    rw [ih]
    simp only [joinLines, List.map_cons, List.flatten_cons, List.map_append]
    rw [commaCat_append (l.map Elem.render) _ (by simpa using hl) (by
      have := padFirst_ne_nil m hm
      simp [this])]
    congr 1
    congr 1
    -- 32 :: commaCat (m … ) = commaCat (padFirst m … )
    by_cases hr : r = []
    · subst hr
      simp only [List.map_nil, List.flatten_nil, List.append_nil]
      rw [render_padFirst m hm]
      rfl
    · have hrest := flatten_pad_ne_nil r hr (fun x hx => hne x (List.mem_cons_of_mem _ (List.mem_cons_of_mem _ hx)))
      rw [commaCat_append (m.map Elem.render) _ (by simpa using hm) (by simpa using hrest)]
      rw [commaCat_append ((padFirst m).map Elem.render) _ (by simpa using padFirst_ne_nil m hm) (by simpa using hrest)]
      rw [render_padFirst m hm]
      rfl

theorem padFirst_ok (l : List Elem) (h : ∀ x ∈ l, x.OK) : ∀ x ∈ padFirst l, x.OK := by
  cases l with
  | nil => intro x hx; cases hx
  | cons y r =>
    intro x hx
    simp only [padFirst, List.mem_cons] at hx
    rcases hx with rfl | hx
    · have := h y (by simp)
      exact ⟨by simp [this.1, isOws], this.2.1, this.2.2⟩
    · exact h x (List.mem_cons_of_mem _ hx)

theorem padFirst_e (l : List Elem) : (padFirst l).map (·.e) = l.map (·.e) := by
  cases l <;> rfl

theorem joinLines_ok : ∀ (ls : List (List Elem)), (∀ l ∈ ls, ∀ x ∈ l, x.OK) → ∀ x ∈ joinLines ls, x.OK := by
  intro ls h x hx
  cases ls with
  | nil => cases hx
  | cons l rest =>
    simp only [joinLines, List.mem_append, List.mem_flatten, List.mem_map] at hx
    rcases hx with hx | ⟨_, ⟨m, hm, rfl⟩, hx⟩
    · exact h l (by simp) x hx
    · exact padFirst_ok m (h m (List.mem_cons_of_mem _ hm)) x hx

theorem flatten_pad_e : ∀ (rest : List (List Elem)),
    ((rest.map padFirst).flatten).map (·.e) = rest.flatten.map (·.e) := by
  intro rest
  induction rest with
  | nil => rfl
  | cons m r ih => simp only [List.map_cons, List.flatten_cons, List.map_append, padFirst_e, ih]

theorem joinLines_e (ls : List (List Elem)) : (joinLines ls).map (·.e) = ls.flatten.map (·.e) := by
  cases ls with
  | nil => rfl
  | cons l rest => simp only [joinLines, List.map_append, List.flatten_cons, flatten_pad_e]

theorem joinLines_ne_nil (ls : List (List Elem)) (hne : ls ≠ []) (h : ∀ l ∈ ls, l ≠ []) : joinLines ls ≠ [] := by
  cases ls with
  | nil => exact absurd rfl hne
  | cons l rest =>
    have := h l (by simp)
    simp [joinLines, this]

/-! ### reading the fields back -/

/-- the value of the LAST parameter called `k` -/
def lastVal : List (Bytes × Bytes) → Bytes → Option Bytes
  | [], _ => none
  | kv :: r, k =>
    match lastVal r k with
    | some v => some v
    | none => if kv.1 == k then some kv.2 else none

theorem field_foldl_pairs (k : Bytes) (hk : k ∈ storedKeys) : ∀ (ps : List (Bytes × Bytes)) (c0 : Challenge),
    field k (ps.foldl (fun c kv => store c kv.1 kv.2) c0) =
      match lastVal ps k with
      | some v => v
      | none => field k c0 := by
  intro ps
  induction ps with
  | nil => intro c0; rfl
  | cons kv r ih =>
    intro c0
    simp only [List.foldl_cons, lastVal]
    rw [ih]
    cases hl : lastVal r k with
    | some v => rfl
    | none =>
      simp only [field_store k _ _ _ hk]
      split <;> rfl

end Req.DigestAuth
