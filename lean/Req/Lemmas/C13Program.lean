import Req.Lemmas.C13BufW
/-! What the HTTP/1.1 write program writes, per account. -/
namespace Req.H1.DumpWrite
open Req.Proto Req.H1

theorem dataOf_flatMap {α : Type} (a : Acc) (f : α → List Op) (l : List α) :
    dataOf a (l.flatMap f) = l.flatMap (fun p => dataOf a (f p)) := by
  induction l with
  | nil => rfl
  | cons x xs ih => simp [List.flatMap_cons, dataOf_append, ih]

theorem dataOf_writes (a : Acc) (t : Tag) (ds : List Bytes) :
    dataOf a (ds.map (fun d => Op.write d t)) = if a.sel t then ds.flatten else [] := by
  induction ds with
  | nil => simp [dataOf]
  | cons d ds ih =>
    simp only [List.map_cons, dataOf, ih]
    split <;> simp

theorem headOps_eq (t : Tag) (line : Bytes) (fields : Hdr) :
    headOps t line fields =
      (line :: ((linesOf fields).map renderLine ++ [crlf])).map (fun d => Op.write d t) := by
  simp [headOps, List.map_map, Function.comp_def]

theorem renderLines_flatten (fields : Hdr) :
    ((linesOf fields).map renderLine).flatten = renderFields fields := by
  unfold linesOf renderFields
  induction fields with
  | nil => rfl
  | cons kv rest ih =>
    simp only [List.flatMap_cons, List.map_append, List.flatten_append, ih]
    congr 1
    unfold renderField
    generalize kv.values = vs
    induction vs with
    | nil => rfl
    | cons v vs ihv =>
      simp only [List.map_cons, List.flatten_cons, List.flatMap_cons, ihv]
      simp [renderLine, List.append_assoc]

theorem head_flatten (line : Bytes) (fields : Hdr) :
    (line :: ((linesOf fields).map renderLine ++ [crlf])).flatten = headBytes line fields := by
  simp [headBytes, List.flatten_append, renderLines_flatten, List.append_assoc]

theorem dataOf_headOps (a : Acc) (t : Tag) (line : Bytes) (fields : Hdr) :
    dataOf a (headOps t line fields) = if a.sel t then headBytes line fields else [] := by
  rw [headOps_eq, dataOf_writes, head_flatten]

theorem htag_sel (md : Mode) (a : Acc) :
    a.sel md.htag = match a with | .hdr => md.hdrDump | .body => false | .all => true := by
  cases a <;> cases h : md.hdrDump <;> simp [Mode.htag, Acc.sel, h]

theorem btag_sel (md : Mode) (a : Acc) :
    a.sel md.btag = match a with | .hdr => false | .body => md.bodyDump | .all => true := by
  cases a <;> cases h : md.bodyDump <;> simp [Mode.btag, Acc.sel, h]

theorem dataOf_chunkOps (a : Acc) (t : Tag) (p : Bytes) :
    dataOf a (chunkOps t p) =
      if p.isEmpty then [] else
        (if a.sel .raw then Req.BStr.natToHex p.length ++ crlf else []) ++ (if a.sel t then p else []) ++
        (if a.sel .raw then crlf else []) := by
  unfold chunkOps
  split
  · rfl
  · simp [dataOf, List.append_assoc]

theorem sel_raw (a : Acc) : a.sel .raw = match a with | .all => true | _ => false := by
  cases a <;> rfl

theorem flatMap_skip_empty (g : Bytes → Bytes) (ps : List Bytes) :
    ps.flatMap (fun p => if p.isEmpty then [] else g p) = (ps.filter (!·.isEmpty)).flatMap g := by
  induction ps with
  | nil => rfl
  | cons p ps ih =>
    simp only [List.flatMap_cons, ih, List.filter_cons]
    by_cases hp : p.isEmpty <;> simp [hp]

theorem flatMap_skip_empty_id (ps : List Bytes) :
    ps.flatMap (fun p => if p.isEmpty then [] else p) = ps.flatten := by
  induction ps with
  | nil => rfl
  | cons p ps ih =>
    simp only [List.flatMap_cons, ih, List.flatten_cons]
    by_cases hp : p.isEmpty
    · have : p = [] := by simpa using hp
      simp [this]
    · simp [hp]

theorem flatMap_const_nil {α : Type} (ps : List α) : ps.flatMap (fun _ => ([] : Bytes)) = [] := by
  induction ps with
  | nil => rfl
  | cons p ps ih => simp [List.flatMap_cons, ih]

/-- per piece: what the chunked path writes for account `a`. -/
theorem piece_chunked (a : Acc) (md : Mode) (p : Bytes) :
    dataOf a (Op.read :: chunkOps md.btag p) =
      if p.isEmpty then [] else
        match a with
        | .all => chunk p
        | .body => if md.bodyDump then p else []
        | .hdr => [] := by
  simp only [dataOf, dataOf_chunkOps, btag_sel, sel_raw]
  by_cases hp : p.isEmpty
  · simp [hp]
  · cases a <;> simp [hp, chunk, List.append_assoc]

/-- per piece: the unframed stream path (CONNECT). -/
theorem piece_stream (a : Acc) (m : Bytes) (md : Mode) (p : Bytes) :
    dataOf a (Op.read :: (if p.isEmpty then [] else
        Op.write p md.btag :: (if connectFlush m md then [Op.flush] else []))) =
      if p.isEmpty then [] else
        match a with
        | .all => p
        | .body => if md.bodyDump then p else []
        | .hdr => [] := by
  by_cases hp : p.isEmpty
  · simp [hp, dataOf]
  · by_cases hc : connectFlush m md <;> cases a <;> simp [hp, hc, dataOf, btag_sel]

/-- per piece: known length through the body wrapper. -/
theorem piece_write (a : Acc) (p : Bytes) :
    dataOf a (Op.read :: (if p.isEmpty then [] else [Op.write p .body])) =
      if p.isEmpty then [] else
        match a with
        | .all => p
        | .body => p
        | .hdr => [] := by
  by_cases hp : p.isEmpty
  · simp [hp, dataOf]
  · cases a <;> simp [hp, dataOf, Acc.sel]

/-- per piece: known length through `bufio.ReadFrom` (no body dumper). -/
theorem piece_readFrom (a : Acc) (p : Bytes) :
    dataOf a [Op.flushIfFull, Op.read, Op.write p .raw] =
      match a with
      | .all => p
      | _ => [] := by
  cases a <;> simp [dataOf, Acc.sel]

/-- everything the program writes for the body, as framed on the wire. -/
theorem dataOf_bodyOps_all (m : Bytes) (f : Framing) (md : Mode) (pieces : List Bytes)
    (hf : md.bodyFails = false) :
    dataOf .all (bodyOps m f md pieces) = bodyWire f pieces := by
  unfold bodyOps bodyWire
  by_cases h0 : f.sendBody
  · simp only [h0, Bool.not_true, Bool.false_eq_true, ↓reduceIte]
    by_cases h1 : f.chunked
    · simp only [h1, ↓reduceIte, hf, Bool.false_eq_true, dataOf_append, dataOf_flatMap, piece_chunked]
      rw [flatMap_skip_empty]
      simp [dataOf, Acc.sel, List.append_assoc]
    · simp only [h1, Bool.false_eq_true, ↓reduceIte]
      by_cases h2 : f.cl == -1
      · simp only [h2, ↓reduceIte, dataOf_flatMap, piece_stream]
        exact flatMap_skip_empty_id pieces
      · simp only [h2, Bool.false_eq_true, ↓reduceIte]
        by_cases h3 : md.bodyDump
        · simp only [h3, ↓reduceIte, dataOf_flatMap, piece_write]
          exact flatMap_skip_empty_id pieces
        · simp only [h3, Bool.false_eq_true, ↓reduceIte, hf, dataOf_append, dataOf_flatMap,
            piece_readFrom]
          simp only [dataOf, List.append_nil]
          induction pieces with
          | nil => rfl
          | cons p ps ih => simp [List.flatMap_cons, ih]
  · simp [h0, dataOf]

/-- what the program hands to the body dump wrappers. -/
theorem dataOf_bodyOps_body (m : Bytes) (f : Framing) (md : Mode) (pieces : List Bytes)
    (hf : md.bodyFails = false) :
    dataOf .body (bodyOps m f md pieces) = if md.bodyDump then bodyDumpBytes f pieces else [] := by
  unfold bodyOps bodyDumpBytes
  by_cases h0 : f.sendBody
  · simp only [h0, Bool.not_true, Bool.false_eq_true, ↓reduceIte]
    by_cases h1 : f.chunked
    · simp only [h1, ↓reduceIte, hf, Bool.false_eq_true, dataOf_append, dataOf_flatMap, piece_chunked]
      by_cases hb : md.bodyDump
      · simp only [hb, ↓reduceIte]
        rw [flatMap_skip_empty_id]
        simp [dataOf, btag_sel, sel_raw, hb]
      · simp only [hb, Bool.false_eq_true, ↓reduceIte, ite_self]
        rw [flatMap_const_nil]
        simp [dataOf, btag_sel, sel_raw, hb]
    · simp only [h1, Bool.false_eq_true, ↓reduceIte, List.append_nil]
      by_cases h2 : f.cl == -1
      · simp only [h2, ↓reduceIte, dataOf_flatMap, piece_stream]
        by_cases hb : md.bodyDump
        · simp only [hb, ↓reduceIte]; exact flatMap_skip_empty_id pieces
        · simp only [hb, Bool.false_eq_true, ↓reduceIte, ite_self]; exact flatMap_const_nil pieces
      · simp only [h2, Bool.false_eq_true, ↓reduceIte]
        by_cases h3 : md.bodyDump
        · simp only [h3, ↓reduceIte, dataOf_flatMap, piece_write]
          exact flatMap_skip_empty_id pieces
        · simp only [h3, Bool.false_eq_true, ↓reduceIte, hf, dataOf_append, dataOf_flatMap,
            piece_readFrom]
          rw [flatMap_const_nil]; simp [dataOf]
  · simp [h0, dataOf]

/-- nothing of the body ever reaches a header dump wrapper. -/
theorem dataOf_bodyOps_hdr (m : Bytes) (f : Framing) (md : Mode) (pieces : List Bytes) :
    dataOf .hdr (bodyOps m f md pieces) = [] := by
  unfold bodyOps
  have hb : Acc.hdr.sel md.btag = false := by rw [btag_sel]
  by_cases h0 : f.sendBody
  · simp only [h0, Bool.not_true, Bool.false_eq_true, ↓reduceIte]
    by_cases h1 : f.chunked
    · simp only [h1, ↓reduceIte, dataOf_append, dataOf_flatMap, piece_chunked, ite_self]
      rw [flatMap_const_nil]
      by_cases hx : md.bodyFails <;> simp [hx, dataOf, hb, sel_raw]
    · simp only [h1, Bool.false_eq_true, ↓reduceIte]
      by_cases h2 : f.cl == -1
      · simp only [h2, ↓reduceIte, dataOf_flatMap, piece_stream, ite_self]
        exact flatMap_const_nil pieces
      · simp only [h2, Bool.false_eq_true, ↓reduceIte]
        by_cases h3 : md.bodyDump
        · simp only [h3, ↓reduceIte, dataOf_flatMap, piece_write, ite_self]
          exact flatMap_const_nil pieces
        · simp only [h3, Bool.false_eq_true, ↓reduceIte, dataOf_append, dataOf_flatMap, piece_readFrom]
          rw [flatMap_const_nil]
          by_cases hx : md.bodyFails <;> simp [hx, dataOf]
  · simp [h0, dataOf]

/-- the whole program, per account. -/
theorem dataOf_program (m line : Bytes) (fields : Hdr) (f : Framing) (md : Mode) (pieces : List Bytes)
    (hf : md.bodyFails = false) :
    dataOf .all (program m line fields f md pieces) = headBytes line fields ++ bodyWire f pieces ∧
    dataOf .hdr (program m line fields f md pieces) = (if md.hdrDump then headBytes line fields else []) ∧
    dataOf .body (program m line fields f md pieces) = (if md.bodyDump then bodyDumpBytes f pieces else []) := by
  have hfl : ∀ a, dataOf a (if md.flushHeaders then [Op.flush] else []) = [] := by
    intro a; split <;> rfl
  unfold program
  refine ⟨?_, ?_, ?_⟩
  · rw [dataOf_append, dataOf_append, dataOf_headOps, hfl, dataOf_bodyOps_all m f md pieces hf, htag_sel]
    simp
  · rw [dataOf_append, dataOf_append, dataOf_headOps, hfl, dataOf_bodyOps_hdr, htag_sel]
    simp
  · rw [dataOf_append, dataOf_append, dataOf_headOps, hfl, dataOf_bodyOps_body m f md pieces hf, htag_sel]
    simp

/-- `writeRequest` succeeds exactly when the wire model's checks pass; the state is the run of
the program on an empty buffered writer. -/
theorem writeRequest_ok (B : Nat) (limit : Option Nat) (r : WReq) (md : Mode) (pieces : List Bytes)
    (st : St) (h : writeRequest B limit r md pieces = .ok st) :
    ∃ host f, wireHost r = .ok host ∧ framing r = .ok f ∧
      Req.BStr.containsCTL (requestTarget r host) = false ∧
      st = run B (St.init limit)
        (program r.method (requestLine r (requestTarget r host)) (h1Fields r host f) f md pieces) := by
  unfold writeRequest at h
  cases hh : wireHost r with
  | error e => rw [hh] at h; cases h
  | ok host =>
    rw [hh] at h
    simp only [bind, Except.bind] at h
    by_cases hc : Req.BStr.containsCTL (requestTarget r host)
    · simp [hc, throw, throwThe, MonadExceptOf.throw] at h
    · simp only [hc, Bool.false_eq_true, ↓reduceIte, pure, Except.pure] at h
      cases hfr : framing r with
      | error e => rw [hfr] at h; cases h
      | ok f =>
        rw [hfr] at h
        simp only at h
        injection h with h
        exact ⟨host, f, rfl, rfl, by simpa using hc, h.symm⟩

end Req.H1.DumpWrite
