import Req.C02.H1Msg
/-!
HTTP/1.1 field blocks (response head fields, trailer section): what the origin writes —
`name ":" OWS value OWS CRLF` per field, then an empty line — is read back as exactly those
fields: canonical name, value without the optional whitespace, wire order.
-/
namespace Req.C02
open Req.Proto Req.Ascii

def isOWS (c : UInt8) : Bool := c == 32 || c == 9

theorem cutCRLF_append (l R : Bytes) (h : (13 : UInt8) ∉ l) : cutCRLF (l ++ 13 :: 10 :: R) = some (l, R) := by
  induction l with
  | nil => simp [cutCRLF]
  | cons x xs ih =>
    simp only [List.mem_cons, not_or] at h
    have hx : (x == 13) = false := by
      simp only [beq_eq_false_iff_ne, ne_eq]
      exact fun h' => h.1 h'.symm
    cases xs with
    | nil =>
      simp only [List.cons_append, List.nil_append]
      simp only [List.nil_append] at ih
      simp [cutCRLF, hx]
    | cons y ys =>
      have := ih h.2
      simp only [List.cons_append] at this ⊢
      simp [cutCRLF, hx, this]

theorem dropWhile_append_all {α} (p : α → Bool) (a r : List α) (h : ∀ x ∈ a, p x = true) :
    (a ++ r).dropWhile p = r.dropWhile p := by
  induction a with
  | nil => rfl
  | cons x xs ih =>
    simp only [List.cons_append, List.dropWhile_cons, h x (by simp), if_true]
    exact ih (fun y hy => h y (by simp [hy]))

/-- A field value as the origin means it: no leading/trailing optional whitespace. -/
def ValueOK (v : Bytes) : Prop :=
  (v.all fun c => (c ≥ 32 ∧ c != 127) ∨ c == 9) = true ∧
  (∀ a rest, v = a :: rest → isOWS a = false) ∧ (∀ a pre, v = pre ++ [a] → isOWS a = false)

theorem trimOWS_pad (p1 v p2 : Bytes) (h1 : ∀ x ∈ p1, isOWS x = true) (h2 : ∀ x ∈ p2, isOWS x = true)
    (hv : ValueOK v) : trimOWS (p1 ++ v ++ p2) = v := by
  unfold trimOWS
  have hfun : (fun c : UInt8 => c == 32 || c == 9) = isOWS := rfl
  rw [hfun, List.append_assoc, dropWhile_append_all isOWS p1 _ h1]
  cases v with
  | nil =>
    simp only [List.nil_append]
    have : p2.dropWhile isOWS = [] := by
      have := dropWhile_append_all isOWS p2 [] h2
      simpa using this
    simp [this]
  | cons a rest =>
    have ha : isOWS a = false := hv.2.1 a rest rfl
    have hd : ((a :: rest) ++ p2).dropWhile isOWS = (a :: rest) ++ p2 := by
      simp [List.dropWhile_cons, ha]
    rw [hd, List.reverse_append]
    have h2r : ∀ x ∈ p2.reverse, isOWS x = true := fun x hx => h2 x (by simpa using hx)
    rw [dropWhile_append_all isOWS p2.reverse _ h2r]
    -- the last byte of the value is not whitespace
    have hlast : (a :: rest).reverse.dropWhile isOWS = (a :: rest).reverse := by
      cases hrev : (a :: rest).reverse with
      | nil => simp at hrev
      | cons z zs =>
        have hz : a :: rest = zs.reverse ++ [z] := by
          have := congrArg List.reverse hrev
          simpa using this
        have := hv.2.2 z zs.reverse hz
        simp [List.dropWhile_cons, this]
    rw [hlast, List.reverse_reverse]

theorem takeWhile_append_stop {α} (p : α → Bool) (a : List α) (x : α) (r : List α)
    (ha : ∀ y ∈ a, p y = true) (hx : p x = false) : (a ++ x :: r).takeWhile p = a := by
  induction a with
  | nil => simp [List.takeWhile_cons, hx]
  | cons y ys ih =>
    simp only [List.cons_append, List.takeWhile_cons, ha y (by simp), if_true]
    rw [ih (fun z hz => ha z (by simp [hz]))]

/-- A field as the origin writes it. -/
structure WField where
  name : Bytes
  pad1 : Bytes
  value : Bytes
  pad2 : Bytes
deriving Repr

def WField.OK (f : WField) : Prop :=
  f.name ≠ [] ∧ f.name.all isTokenByte = true ∧ ValueOK f.value ∧
  (∀ x ∈ f.pad1, isOWS x = true) ∧ (∀ x ∈ f.pad2, isOWS x = true)

def WField.line (f : WField) : Bytes := f.name ++ 58 :: (f.pad1 ++ f.value ++ f.pad2)

theorem tokenByte_ne_colon (c : UInt8) (h : isTokenByte c = true) : (c != 58) = true := by
  by_cases hc : c = 58
  · subst hc; simp [isTokenByte, isAlpha, isLower, isUpper, isDigit] at h
  · simpa using hc

theorem parseFieldLine_line (f : WField) (h : f.OK) :
    parseFieldLine f.line = some (canonicalMIMEHeaderKey f.name, f.value) := by
  obtain ⟨hne, htok, hv, hp1, hp2⟩ := h
  have htw : f.line.takeWhile (· != 58) = f.name := by
    unfold WField.line
    apply takeWhile_append_stop
    · intro y hy
      exact tokenByte_ne_colon y (List.all_eq_true.mp htok y hy)
    · simp
  unfold parseFieldLine
  simp only [htw]
  have h1 : f.name.isEmpty = false := by cases hn : f.name <;> simp_all
  have h2 : ¬ f.name.length = f.line.length := by
    unfold WField.line; simp only [List.length_append, List.length_cons]; omega
  simp only [h1, h2, htok, Bool.false_eq_true, Bool.not_true, or_self, if_false]
  have hdrop : f.line.drop (f.name.length + 1) = f.pad1 ++ f.value ++ f.pad2 := by
    unfold WField.line
    rw [List.drop_append]
    simp
  rw [hdrop, trimOWS_pad _ _ _ hp1 hp2 hv]
  rw [if_pos hv.1]

theorem ows_ne_cr (x : UInt8) (h : isOWS x = true) : x ≠ 13 := by
  intro hx; subst hx; simp [isOWS] at h

theorem line_no_cr (f : WField) (h : f.OK) : (13 : UInt8) ∉ f.line := by
  obtain ⟨_, htok, hv, hp1, hp2⟩ := h
  unfold WField.line
  intro hmem
  simp only [List.mem_append, List.mem_cons] at hmem
  rcases hmem with h1 | h1 | (h1 | h1) | h1
  · have := List.all_eq_true.mp htok 13 h1
    simp [isTokenByte, isAlpha, isLower, isUpper, isDigit] at this
  · simp at h1
  · exact ows_ne_cr 13 (hp1 13 h1) rfl
  · have := List.all_eq_true.mp hv.1 13 h1
    simp at this
  · exact ows_ne_cr 13 (hp2 13 h1) rfl

/-- The field block the origin writes: every field line with CRLF, then the empty line. -/
def blockWire (fs : List WField) : Bytes := (fs.map fun f => f.line ++ [13, 10]).flatten ++ [13, 10]

def fieldsOf (fs : List WField) : List (Bytes × Bytes) :=
  fs.map fun f => (canonicalMIMEHeaderKey f.name, f.value)

/-- **Field block round trip.** -/
theorem parseFieldBlock_block (fs : List WField) (hfs : ∀ f ∈ fs, f.OK) (R : Bytes) (fuel : Nat)
    (hfuel : fs.length < fuel) :
    parseFieldBlock fuel (blockWire fs ++ R) = some (fieldsOf fs, (blockWire fs).length) := by
  induction fs generalizing fuel with
  | nil =>
    cases fuel with
    | zero => simp at hfuel
    | succ fuel =>
      have : cutCRLF (([] : Bytes) ++ 13 :: 10 :: R) = some ([], R) := cutCRLF_append [] R (by simp)
      simp only [List.nil_append] at this
      simp [parseFieldBlock, blockWire, fieldsOf, this]
  | cons f fs ih =>
    cases fuel with
    | zero => simp at hfuel
    | succ fuel =>
      have hf := hfs f (by simp)
      have hcut : cutCRLF (blockWire (f :: fs) ++ R) = some (f.line, blockWire fs ++ R) := by
        have := cutCRLF_append f.line (blockWire fs ++ R) (line_no_cr f hf)
        simpa [blockWire, List.append_assoc] using this
      have hne : f.line.isEmpty = false := by
        unfold WField.line
        cases hn : f.name <;> simp
      have hrec := ih (fun g hg => hfs g (by simp [hg])) fuel (by simp at hfuel; omega)
      unfold parseFieldBlock
      simp only [hcut, hne, Bool.false_eq_true, if_false, parseFieldLine_line f hf, hrec]
      simp [fieldsOf, blockWire, List.length_append]
      omega

end Req.C02
