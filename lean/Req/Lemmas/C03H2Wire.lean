import Req.H2.Frame
/-!
C03 — HTTP/2 on the wire: the 9-byte frame header of the frame reader model of C05
(`Req.H2.Frame.parseHeader`) on a prefix of the input.
-/
namespace Req.C03
open Req.Proto Req.H2.Frame

theorem parseHeader_take (input : Bytes) (fh : FrameHeader) (rest : Bytes)
    (hp : parseHeader input = some (fh, rest)) (j : Nat) (hj : 9 ≤ j) :
    parseHeader (input.take j) = some (fh, rest.take (j - 9)) := by
  match input, hp with
  | l0 :: l1 :: l2 :: t :: f :: s0 :: s1 :: s2 :: s3 :: rest', hp =>
    simp only [parseHeader, Option.some.injEq, Prod.mk.injEq] at hp
    obtain ⟨rfl, rfl⟩ := hp
    obtain ⟨j', rfl⟩ : ∃ j', j = j' + 9 := ⟨j - 9, by omega⟩
    simp [parseHeader, List.take]

theorem parseHeader_short (input : Bytes) (h : input.length < 9) : parseHeader input = none := by
  match input with
  | [] | [_] | [_, _] | [_, _, _] | [_, _, _, _] | [_, _, _, _, _] | [_, _, _, _, _, _]
  | [_, _, _, _, _, _, _] | [_, _, _, _, _, _, _, _] => rfl
  | _ :: _ :: _ :: _ :: _ :: _ :: _ :: _ :: _ :: _ => simp at h; omega

end Req.C03
