import Req.Lemmas.CancelMeasure
/-!
The structural invariant of the lifecycle model (C08) and its preservation by every
environment event and every internal action.
-/
set_option linter.unusedSimpArgs false
set_option linter.unusedVariables false
namespace Req.Cancel

structure InvH1 (s : St) : Prop where
  infl : s.phase.inflight = true → s.res.conn = .owned ∨ s.res.conn = .closed
  body : s.phase.body = true → s.res.conn = .owned ∨ s.res.conn = .closed
  owned : s.res.conn = .owned →
    s.res.reader = true ∧ s.res.writer = true ∧ (s.phase.inflight = true ∨ s.phase.body = true)
  bodyClosed : (s.phase.body = true ∨ s.phase = .awaitingHeaders ∨ s.phase = .done ∨ s.phase = .retrySleep) →
    s.res.bodyOpen = false
  loops : (s.res.writer = true ∨ s.res.reader = true) → s.res.conn = .owned ∨ s.res.conn = .closed
  closedErr : s.res.conn = .closed → (s.phase.inflight = true ∨ s.phase.body = true) →
    s.res.connErr.isSome = true
  unused : s.res.closing = false ∧ s.res.watch = false ∧ s.res.stream = .none ∧
    s.res.rtAbort = false ∧ s.res.pipeErr = false

structure InvH2 (s : St) : Prop where
  bodyHeld : s.res.bodyOpen = true → s.res.writer = true ∨ s.res.closing = true ∨ s.phase.preConn = true
  streamW : s.res.stream = .open → s.res.writer = true
  ownedW : s.res.conn = .owned → s.res.writer = true
  bodyW : s.phase.body = true → s.res.pipeErr = false → s.res.writer = true
  pipeErrC : s.res.pipeErr = true → s.res.connErr.isSome = true
  closingA : s.res.closing = true → s.res.rtAbort = true
  abortPh : s.res.rtAbort = true → s.phase.body = false ∧ s.phase.preConn = false
  unused : s.res.reader = false ∧ s.res.watch = false

structure InvH3 (s : St) : Prop where
  str : (s.phase.inflight = true ∨ s.phase.body = true) → s.res.stream = .open ∨ s.res.stream = .reset
  openW : s.res.stream = .open → s.res.watch = true
  writerS : s.res.writer = true → s.res.stream = .open ∨ s.res.stream = .reset
  bodyHeld : s.res.bodyOpen = true → s.res.writer = true ∨ s.phase.preConn = true
  ownedPh : s.res.conn = .owned → s.phase.inflight = true ∨ s.phase.body = true
  sent : (s.phase = .awaitingHeaders ∨ s.phase.body = true) → s.res.writer = false
  noWH : s.phase ≠ .writingHeaders
  unused : s.res.reader = false ∧ s.res.closing = false ∧ s.res.rtAbort = false ∧
    s.res.pipeErr = false ∧ s.res.connErr = none

structure Inv (cfg : Cfg) (s : St) : Prop where
  closesEq : s.res.closes = if s.res.bodyOpen then 0 else if 0 < cfg.bodyChunks then 1 else 0
  bodyCfg : s.res.bodyOpen = true → 0 < cfg.bodyChunks
  closingOpen : s.res.closing = true → s.res.bodyOpen = true
  connErrCtx : ∀ e, s.res.connErr = some e → s.ctx = some e
  rtAbortCtx : s.res.rtAbort = true → s.ctx.isSome = true
  readyPre : s.res.conn = .ready → s.phase.preConn = true
  bgPre : s.res.conn = .bgDial → s.phase ≠ .waitConn
  pre : s.phase.preConn = true →
    s.res.writer = false ∧ s.res.reader = false ∧ s.res.watch = false ∧ s.res.closing = false ∧
    s.res.stream = .none ∧ s.res.conn ≠ .owned ∧ s.res.conn ≠ .closed ∧ s.res.conn ≠ .pooled ∧
    s.res.connErr = none ∧ s.res.rtAbort = false ∧ s.res.pipeErr = false
  h1 : cfg.stack = .h1 → InvH1 s
  h2 : cfg.stack = .h2 → InvH2 s
  h3 : cfg.stack = .h3 → InvH3 s

theorem inv_init (cfg : Cfg) : Inv cfg (init cfg) := by
  constructor
  case h1 => intro _; constructor <;> simp [init, freshRes, Phase.inflight, Phase.body]
  case h2 => intro _; constructor <;> simp [init, freshRes, Phase.preConn, Phase.body]
  case h3 => intro _; constructor <;> simp [init, freshRes, Phase.preConn, Phase.inflight, Phase.body]
  all_goals simp [init, freshRes, Phase.preConn]


attribute [simp] Option.isSome_or

@[simp] theorem finish_preConn (cfg : Cfg) (s : St) (r : Result) : (finish cfg s r).phase.preConn = false := by
  rcases finish_phase cfg s r with h | h <;> simp [h, Phase.preConn]
@[simp] theorem finish_body (cfg : Cfg) (s : St) (r : Result) : (finish cfg s r).phase.body = false := by
  rcases finish_phase cfg s r with h | h <;> simp [h, Phase.body]
@[simp] theorem finish_ne_wc (cfg : Cfg) (s : St) (r : Result) : ((finish cfg s r).phase = .waitConn) = False := by
  rcases finish_phase cfg s r with h | h <;> simp [h]
@[simp] theorem finish_ne_ah (cfg : Cfg) (s : St) (r : Result) : ((finish cfg s r).phase = .awaitingHeaders) = False := by
  rcases finish_phase cfg s r with h | h <;> simp [h]
@[simp] theorem finish_ne_wh (cfg : Cfg) (s : St) (r : Result) : ((finish cfg s r).phase = .writingHeaders) = False := by
  rcases finish_phase cfg s r with h | h <;> simp [h]
@[simp] theorem finishBody_preConn (cfg : Cfg) (s : St) (r : Result) : (finishBody cfg s r).phase.preConn = false := by
  rcases finishBody_phase cfg s r with h | h <;> simp [h, Phase.preConn]
@[simp] theorem finishBody_body (cfg : Cfg) (s : St) (r : Result) : (finishBody cfg s r).phase.body = false := by
  rcases finishBody_phase cfg s r with h | h <;> simp [h, Phase.body]
@[simp] theorem finishBody_ne_wc (cfg : Cfg) (s : St) (r : Result) : ((finishBody cfg s r).phase = .waitConn) = False := by
  rcases finishBody_phase cfg s r with h | h <;> simp [h]
@[simp] theorem finishBody_ne_ah (cfg : Cfg) (s : St) (r : Result) : ((finishBody cfg s r).phase = .awaitingHeaders) = False := by
  rcases finishBody_phase cfg s r with h | h <;> simp [h]
@[simp] theorem finishBody_ne_wh (cfg : Cfg) (s : St) (r : Result) : ((finishBody cfg s r).phase = .writingHeaders) = False := by
  rcases finishBody_phase cfg s r with h | h <;> simp [h]
theorem preConn_not_body {p : Phase} (h : p.preConn = true) : p.body = false := by
  revert h; cases p <;> simp [Phase.preConn, Phase.body]

theorem preConn_cases {p : Phase} (h : p.preConn = true) : p = .waitConn ∨ p = .dialing ∨ p = .handshaking := by
  revert h; cases p <;> simp [Phase.preConn]
@[simp] theorem body_rb (j) : Phase.body (.readingBody j) = true := rfl
@[simp] theorem pre_wc : Phase.preConn .waitConn = true := rfl
@[simp] theorem pre_dial : Phase.preConn .dialing = true := rfl
@[simp] theorem pre_hs : Phase.preConn .handshaking = true := rfl
@[simp] theorem pre_wh : Phase.preConn .writingHeaders = false := rfl
@[simp] theorem pre_wb (i) : Phase.preConn (.writingBody i) = false := rfl
@[simp] theorem pre_ah : Phase.preConn .awaitingHeaders = false := rfl
@[simp] theorem pre_rb (i) : Phase.preConn (.readingBody i) = false := rfl
@[simp] theorem pre_done : Phase.preConn .done = false := rfl
@[simp] theorem pre_rs : Phase.preConn .retrySleep = false := rfl
@[simp] theorem body_wh : Phase.body .writingHeaders = false := rfl
@[simp] theorem body_wb (i) : Phase.body (.writingBody i) = false := rfl
@[simp] theorem body_ah : Phase.body .awaitingHeaders = false := rfl
@[simp] theorem body_done : Phase.body .done = false := rfl
@[simp] theorem body_rs : Phase.body .retrySleep = false := rfl
@[simp] theorem infl_rb (i) : Phase.inflight (.readingBody i) = false := rfl

macro "inv_fin" : tactic => `(tactic| first
  | done
  | (simp_all (config := {decide := true}); done)
  | (simp_all (config := {decide := true}); omega)
  | (split <;> simp_all (config := {decide := true}) <;> omega)
  | (simp_all (config := {decide := true}); split <;> simp_all (config := {decide := true}) <;> omega)
  | (simp_all (config := {decide := true}); grind)
  | grind)

/-- close the three per-stack goals and the eight common ones, given `hs : cfg.stack = _` -/
macro "inv_stack" hs:ident : tactic => `(tactic| (
    constructor
    case h1 => intro h; first | (simp [$hs:ident] at h; done) | (constructor <;> inv_fin)
    case h2 => intro h; first | (simp [$hs:ident] at h; done) | (constructor <;> inv_fin)
    case h3 => intro h; first | (simp [$hs:ident] at h; done) | (constructor <;> inv_fin)
    all_goals inv_fin))

theorem inv_h1RtCancel (cfg : Cfg) (s : St) (hi : Inv cfg s) (hg : guard cfg s .h1RtCancel = true) :
    Inv cfg (apply cfg s .h1RtCancel) := by
  obtain ⟨a1, a2, a3, a4, a5, a6, a7, a8, H1, H2, H3⟩ := hi
  have d1 := @body_not_inflight s.phase
  have d2 := @preConn_not_inflight s.phase
  have d3 := @preConn_not_body s.phase
  simp only [guard, Bool.and_eq_true, beq_iff_eq, Bool.not_eq_true', Bool.or_eq_true] at hg
  have hs : cfg.stack = .h1 := by
    first | exact hg.1 | exact hg.1.1 | exact hg.1.1.1 | exact hg.1.1.1.1 | exact hg.1.1.1.1.1
  obtain ⟨b1, b2, b3, b4, b5, b6, b7⟩ := H1 hs
  simp only [apply]
  inv_stack hs

theorem inv_h1WriterFail (cfg : Cfg) (s : St) (hi : Inv cfg s) (hg : guard cfg s .h1WriterFail = true) :
    Inv cfg (apply cfg s .h1WriterFail) := by
  obtain ⟨a1, a2, a3, a4, a5, a6, a7, a8, H1, H2, H3⟩ := hi
  have d1 := @body_not_inflight s.phase
  have d2 := @preConn_not_inflight s.phase
  have d3 := @preConn_not_body s.phase
  simp only [guard, Bool.and_eq_true, beq_iff_eq, Bool.not_eq_true', Bool.or_eq_true] at hg
  have hs : cfg.stack = .h1 := by
    first | exact hg.1 | exact hg.1.1 | exact hg.1.1.1 | exact hg.1.1.1.1 | exact hg.1.1.1.1.1
  obtain ⟨b1, b2, b3, b4, b5, b6, b7⟩ := H1 hs
  simp only [apply]
  inv_stack hs

theorem inv_h1WriterExit (cfg : Cfg) (s : St) (hi : Inv cfg s) (hg : guard cfg s .h1WriterExit = true) :
    Inv cfg (apply cfg s .h1WriterExit) := by
  obtain ⟨a1, a2, a3, a4, a5, a6, a7, a8, H1, H2, H3⟩ := hi
  have d1 := @body_not_inflight s.phase
  have d2 := @preConn_not_inflight s.phase
  have d3 := @preConn_not_body s.phase
  simp only [guard, Bool.and_eq_true, beq_iff_eq, Bool.not_eq_true', Bool.or_eq_true] at hg
  have hs : cfg.stack = .h1 := by
    first | exact hg.1 | exact hg.1.1 | exact hg.1.1.1 | exact hg.1.1.1.1 | exact hg.1.1.1.1.1
  obtain ⟨b1, b2, b3, b4, b5, b6, b7⟩ := H1 hs
  simp only [apply]
  inv_stack hs

theorem inv_h1ReaderStop (cfg : Cfg) (s : St) (hi : Inv cfg s) (hg : guard cfg s .h1ReaderStop = true) :
    Inv cfg (apply cfg s .h1ReaderStop) := by
  obtain ⟨a1, a2, a3, a4, a5, a6, a7, a8, H1, H2, H3⟩ := hi
  have d1 := @body_not_inflight s.phase
  have d2 := @preConn_not_inflight s.phase
  have d3 := @preConn_not_body s.phase
  simp only [guard, Bool.and_eq_true, beq_iff_eq, Bool.not_eq_true', Bool.or_eq_true] at hg
  have hs : cfg.stack = .h1 := by
    first | exact hg.1 | exact hg.1.1 | exact hg.1.1.1 | exact hg.1.1.1.1 | exact hg.1.1.1.1.1
  obtain ⟨b1, b2, b3, b4, b5, b6, b7⟩ := H1 hs
  simp only [apply]
  inv_stack hs

theorem inv_h1RtReturn (cfg : Cfg) (s : St) (hi : Inv cfg s) (hg : guard cfg s .h1RtReturn = true) :
    Inv cfg (apply cfg s .h1RtReturn) := by
  obtain ⟨a1, a2, a3, a4, a5, a6, a7, a8, H1, H2, H3⟩ := hi
  have d1 := @body_not_inflight s.phase
  have d2 := @preConn_not_inflight s.phase
  have d3 := @preConn_not_body s.phase
  simp only [guard, Bool.and_eq_true, beq_iff_eq, Bool.not_eq_true', Bool.or_eq_true] at hg
  have hs : cfg.stack = .h1 := by
    first | exact hg.1 | exact hg.1.1 | exact hg.1.1.1 | exact hg.1.1.1.1 | exact hg.1.1.1.1.1
  obtain ⟨b1, b2, b3, b4, b5, b6, b7⟩ := H1 hs
  simp only [apply]
  inv_stack hs

theorem inv_h1ReaderCancel (cfg : Cfg) (s : St) (hi : Inv cfg s) (hg : guard cfg s .h1ReaderCancel = true) :
    Inv cfg (apply cfg s .h1ReaderCancel) := by
  obtain ⟨a1, a2, a3, a4, a5, a6, a7, a8, H1, H2, H3⟩ := hi
  have d1 := @body_not_inflight s.phase
  have d2 := @preConn_not_inflight s.phase
  have d3 := @preConn_not_body s.phase
  simp only [guard, Bool.and_eq_true, beq_iff_eq, Bool.not_eq_true', Bool.or_eq_true] at hg
  have hs : cfg.stack = .h1 := by
    first | exact hg.1 | exact hg.1.1 | exact hg.1.1.1 | exact hg.1.1.1.1 | exact hg.1.1.1.1.1
  obtain ⟨b1, b2, b3, b4, b5, b6, b7⟩ := H1 hs
  simp only [apply]
  inv_stack hs

theorem inv_h1BodyReadFail (cfg : Cfg) (s : St) (hi : Inv cfg s) (hg : guard cfg s .h1BodyReadFail = true) :
    Inv cfg (apply cfg s .h1BodyReadFail) := by
  obtain ⟨a1, a2, a3, a4, a5, a6, a7, a8, H1, H2, H3⟩ := hi
  have d1 := @body_not_inflight s.phase
  have d2 := @preConn_not_inflight s.phase
  have d3 := @preConn_not_body s.phase
  simp only [guard, Bool.and_eq_true, beq_iff_eq, Bool.not_eq_true', Bool.or_eq_true] at hg
  have hs : cfg.stack = .h1 := by
    first | exact hg.1 | exact hg.1.1 | exact hg.1.1.1 | exact hg.1.1.1.1 | exact hg.1.1.1.1.1
  obtain ⟨b1, b2, b3, b4, b5, b6, b7⟩ := H1 hs
  simp only [apply]
  inv_stack hs

theorem inv_h2RtCancel (cfg : Cfg) (s : St) (hi : Inv cfg s) (hg : guard cfg s .h2RtCancel = true) :
    Inv cfg (apply cfg s .h2RtCancel) := by
  obtain ⟨a1, a2, a3, a4, a5, a6, a7, a8, H1, H2, H3⟩ := hi
  have d1 := @body_not_inflight s.phase
  have d2 := @preConn_not_inflight s.phase
  have d3 := @preConn_not_body s.phase
  simp only [guard, Bool.and_eq_true, beq_iff_eq, Bool.not_eq_true', Bool.or_eq_true] at hg
  have hs : cfg.stack = .h2 := by
    first | exact hg.1 | exact hg.1.1 | exact hg.1.1.1 | exact hg.1.1.1.1 | exact hg.1.1.1.1.1
  obtain ⟨b1, b2, b3, b4, b5, b6, b7, b8⟩ := H2 hs
  simp only [apply]
  inv_stack hs

theorem inv_h2Closer (cfg : Cfg) (s : St) (hi : Inv cfg s) (hg : guard cfg s .h2Closer = true) :
    Inv cfg (apply cfg s .h2Closer) := by
  obtain ⟨a1, a2, a3, a4, a5, a6, a7, a8, H1, H2, H3⟩ := hi
  have d1 := @body_not_inflight s.phase
  have d2 := @preConn_not_inflight s.phase
  have d3 := @preConn_not_body s.phase
  simp only [guard, Bool.and_eq_true, beq_iff_eq, Bool.not_eq_true', Bool.or_eq_true] at hg
  have hs : cfg.stack = .h2 := by
    first | exact hg.1 | exact hg.1.1 | exact hg.1.1.1 | exact hg.1.1.1.1 | exact hg.1.1.1.1.1
  obtain ⟨b1, b2, b3, b4, b5, b6, b7, b8⟩ := H2 hs
  simp only [apply]
  inv_stack hs

theorem inv_h2RtReturn (cfg : Cfg) (s : St) (hi : Inv cfg s) (hg : guard cfg s .h2RtReturn = true) :
    Inv cfg (apply cfg s .h2RtReturn) := by
  obtain ⟨a1, a2, a3, a4, a5, a6, a7, a8, H1, H2, H3⟩ := hi
  have d1 := @body_not_inflight s.phase
  have d2 := @preConn_not_inflight s.phase
  have d3 := @preConn_not_body s.phase
  simp only [guard, Bool.and_eq_true, beq_iff_eq, Bool.not_eq_true', Bool.or_eq_true] at hg
  have hs : cfg.stack = .h2 := by
    first | exact hg.1 | exact hg.1.1 | exact hg.1.1.1 | exact hg.1.1.1.1 | exact hg.1.1.1.1.1
  obtain ⟨b1, b2, b3, b4, b5, b6, b7, b8⟩ := H2 hs
  simp only [apply]
  inv_stack hs

theorem inv_h2RtAbortReturn (cfg : Cfg) (s : St) (hi : Inv cfg s) (hg : guard cfg s .h2RtAbortReturn = true) :
    Inv cfg (apply cfg s .h2RtAbortReturn) := by
  obtain ⟨a1, a2, a3, a4, a5, a6, a7, a8, H1, H2, H3⟩ := hi
  have d1 := @body_not_inflight s.phase
  have d2 := @preConn_not_inflight s.phase
  have d3 := @preConn_not_body s.phase
  simp only [guard, Bool.and_eq_true, beq_iff_eq, Bool.not_eq_true', Bool.or_eq_true] at hg
  have hs : cfg.stack = .h2 := by
    first | exact hg.1 | exact hg.1.1 | exact hg.1.1.1 | exact hg.1.1.1.1 | exact hg.1.1.1.1.1
  obtain ⟨b1, b2, b3, b4, b5, b6, b7, b8⟩ := H2 hs
  simp only [apply]
  inv_stack hs

theorem inv_h2WriterAbort (cfg : Cfg) (s : St) (hi : Inv cfg s) (hg : guard cfg s .h2WriterAbort = true) :
    Inv cfg (apply cfg s .h2WriterAbort) := by
  obtain ⟨a1, a2, a3, a4, a5, a6, a7, a8, H1, H2, H3⟩ := hi
  have d1 := @body_not_inflight s.phase
  have d2 := @preConn_not_inflight s.phase
  have d3 := @preConn_not_body s.phase
  simp only [guard, Bool.and_eq_true, beq_iff_eq, Bool.not_eq_true', Bool.or_eq_true] at hg
  have hs : cfg.stack = .h2 := by
    first | exact hg.1 | exact hg.1.1 | exact hg.1.1.1 | exact hg.1.1.1.1 | exact hg.1.1.1.1.1
  obtain ⟨b1, b2, b3, b4, b5, b6, b7, b8⟩ := H2 hs
  simp only [apply]
  inv_stack hs

theorem inv_h2BodyReadFail (cfg : Cfg) (s : St) (hi : Inv cfg s) (hg : guard cfg s .h2BodyReadFail = true) :
    Inv cfg (apply cfg s .h2BodyReadFail) := by
  obtain ⟨a1, a2, a3, a4, a5, a6, a7, a8, H1, H2, H3⟩ := hi
  have d1 := @body_not_inflight s.phase
  have d2 := @preConn_not_inflight s.phase
  have d3 := @preConn_not_body s.phase
  simp only [guard, Bool.and_eq_true, beq_iff_eq, Bool.not_eq_true', Bool.or_eq_true] at hg
  have hs : cfg.stack = .h2 := by
    first | exact hg.1 | exact hg.1.1 | exact hg.1.1.1 | exact hg.1.1.1.1 | exact hg.1.1.1.1.1
  obtain ⟨b1, b2, b3, b4, b5, b6, b7, b8⟩ := H2 hs
  simp only [apply]
  inv_stack hs

theorem inv_h3WatchFire (cfg : Cfg) (s : St) (hi : Inv cfg s) (hg : guard cfg s .h3WatchFire = true) :
    Inv cfg (apply cfg s .h3WatchFire) := by
  obtain ⟨a1, a2, a3, a4, a5, a6, a7, a8, H1, H2, H3⟩ := hi
  have d1 := @body_not_inflight s.phase
  have d2 := @preConn_not_inflight s.phase
  have d3 := @preConn_not_body s.phase
  simp only [guard, Bool.and_eq_true, beq_iff_eq, Bool.not_eq_true', Bool.or_eq_true] at hg
  have hs : cfg.stack = .h3 := by
    first | exact hg.1 | exact hg.1.1 | exact hg.1.1.1 | exact hg.1.1.1.1 | exact hg.1.1.1.1.1
  obtain ⟨b1, b2, b3, b4, b5, b6, b7, b8⟩ := H3 hs
  simp only [apply]
  inv_stack hs

theorem inv_h3WriterStop (cfg : Cfg) (s : St) (hi : Inv cfg s) (hg : guard cfg s .h3WriterStop = true) :
    Inv cfg (apply cfg s .h3WriterStop) := by
  obtain ⟨a1, a2, a3, a4, a5, a6, a7, a8, H1, H2, H3⟩ := hi
  have d1 := @body_not_inflight s.phase
  have d2 := @preConn_not_inflight s.phase
  have d3 := @preConn_not_body s.phase
  simp only [guard, Bool.and_eq_true, beq_iff_eq, Bool.not_eq_true', Bool.or_eq_true] at hg
  have hs : cfg.stack = .h3 := by
    first | exact hg.1 | exact hg.1.1 | exact hg.1.1.1 | exact hg.1.1.1.1 | exact hg.1.1.1.1.1
  obtain ⟨b1, b2, b3, b4, b5, b6, b7, b8⟩ := H3 hs
  simp only [apply]
  inv_stack hs

theorem inv_h3RtReturn (cfg : Cfg) (s : St) (hi : Inv cfg s) (hg : guard cfg s .h3RtReturn = true) :
    Inv cfg (apply cfg s .h3RtReturn) := by
  obtain ⟨a1, a2, a3, a4, a5, a6, a7, a8, H1, H2, H3⟩ := hi
  have d1 := @body_not_inflight s.phase
  have d2 := @preConn_not_inflight s.phase
  have d3 := @preConn_not_body s.phase
  simp only [guard, Bool.and_eq_true, beq_iff_eq, Bool.not_eq_true', Bool.or_eq_true] at hg
  have hs : cfg.stack = .h3 := by
    first | exact hg.1 | exact hg.1.1 | exact hg.1.1.1 | exact hg.1.1.1.1 | exact hg.1.1.1.1.1
  obtain ⟨b1, b2, b3, b4, b5, b6, b7, b8⟩ := H3 hs
  simp only [apply]
  inv_stack hs

theorem inv_h3BodyReadFail (cfg : Cfg) (s : St) (hi : Inv cfg s) (hg : guard cfg s .h3BodyReadFail = true) :
    Inv cfg (apply cfg s .h3BodyReadFail) := by
  obtain ⟨a1, a2, a3, a4, a5, a6, a7, a8, H1, H2, H3⟩ := hi
  have d1 := @body_not_inflight s.phase
  have d2 := @preConn_not_inflight s.phase
  have d3 := @preConn_not_body s.phase
  simp only [guard, Bool.and_eq_true, beq_iff_eq, Bool.not_eq_true', Bool.or_eq_true] at hg
  have hs : cfg.stack = .h3 := by
    first | exact hg.1 | exact hg.1.1 | exact hg.1.1.1 | exact hg.1.1.1.1 | exact hg.1.1.1.1.1
  obtain ⟨b1, b2, b3, b4, b5, b6, b7, b8⟩ := H3 hs
  simp only [apply]
  inv_stack hs

theorem inv_sleepWake (cfg : Cfg) (s : St) (hi : Inv cfg s) (hg : guard cfg s .sleepWake = true) :
    Inv cfg (apply cfg s .sleepWake) := by
  obtain ⟨a1, a2, a3, a4, a5, a6, a7, a8, H1, H2, H3⟩ := hi
  have d1 := @body_not_inflight s.phase
  have d2 := @preConn_not_inflight s.phase
  have d3 := @preConn_not_body s.phase
  simp only [guard, Bool.and_eq_true, beq_iff_eq, Bool.not_eq_true', Bool.or_eq_true] at hg
  simp only [apply]
  rcases stack_cases cfg.stack with hs | hs | hs
  · obtain ⟨b1, b2, b3, b4, b5, b6, b7⟩ := H1 hs
    inv_stack hs
  · obtain ⟨b1, b2, b3, b4, b5, b6, b7, b8⟩ := H2 hs
    inv_stack hs
  · obtain ⟨b1, b2, b3, b4, b5, b6, b7, b8⟩ := H3 hs
    inv_stack hs

theorem inv_preConnCancel (cfg : Cfg) (s : St) (hi : Inv cfg s) (hg : guard cfg s .preConnCancel = true) :
    Inv cfg (apply cfg s .preConnCancel) := by
  obtain ⟨a1, a2, a3, a4, a5, a6, a7, a8, H1, H2, H3⟩ := hi
  have d1 := @body_not_inflight s.phase
  have d2 := @preConn_not_inflight s.phase
  have d3 := @preConn_not_body s.phase
  simp only [guard, Bool.and_eq_true, beq_iff_eq, Bool.not_eq_true', Bool.or_eq_true] at hg
  simp only [apply]
  rcases stack_cases cfg.stack with hs | hs | hs
  · obtain ⟨b1, b2, b3, b4, b5, b6, b7⟩ := H1 hs
    inv_stack hs
  · obtain ⟨b1, b2, b3, b4, b5, b6, b7, b8⟩ := H2 hs
    inv_stack hs
  · obtain ⟨b1, b2, b3, b4, b5, b6, b7, b8⟩ := H3 hs
    inv_stack hs

theorem inv_deliver (cfg : Cfg) (s : St) (hi : Inv cfg s) (hg : guard cfg s .deliver = true) :
    Inv cfg (apply cfg s .deliver) := by
  obtain ⟨a1, a2, a3, a4, a5, a6, a7, a8, H1, H2, H3⟩ := hi
  have d1 := @body_not_inflight s.phase
  have d2 := @preConn_not_inflight s.phase
  have d3 := @preConn_not_body s.phase
  simp only [guard, Bool.and_eq_true, beq_iff_eq, Bool.not_eq_true', Bool.or_eq_true] at hg
  simp only [apply]
  rcases stack_cases cfg.stack with hs | hs | hs
  · obtain ⟨b1, b2, b3, b4, b5, b6, b7⟩ := H1 hs
    simp only [startInflight, hs]
    inv_stack hs
  · obtain ⟨b1, b2, b3, b4, b5, b6, b7, b8⟩ := H2 hs
    simp only [startInflight, hs]
    inv_stack hs
  · obtain ⟨b1, b2, b3, b4, b5, b6, b7, b8⟩ := H3 hs
    simp only [startInflight, hs]
    inv_stack hs

end Req.Cancel
