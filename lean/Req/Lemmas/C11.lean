import Req.Client.Redirect
import Req.Client.Authority
/-! Helper lemmas for C11: byte-string splitting/joining, ASCII lower-casing. -/
namespace Req.Lemmas.C11
open Req.Proto Req.Ascii Req.Redirect

/-! ### enumeration over bytes -/

theorem forall_uint8 (P : UInt8 → Prop) (h : ∀ i : Fin 256, P (UInt8.ofFin i)) : ∀ x, P x := by
  intro x
  have := h x.toFin
  simpa using this

/-! ### toLower / lower -/

set_option maxRecDepth 100000 in
theorem toLower_idem : ∀ x : UInt8, toLower (toLower x) = toLower x := by
  apply forall_uint8; decide

set_option maxRecDepth 100000 in
theorem toLower_eq_dot : ∀ x : UInt8, (toLower x = 46) = (x = 46) := by
  apply forall_uint8; decide

set_option maxRecDepth 100000 in
theorem toLower_eq_colon : ∀ x : UInt8, (toLower x = 58) = (x = 58) := by
  apply forall_uint8; decide

set_option maxRecDepth 100000 in
theorem toLower_eq_open : ∀ x : UInt8, (toLower x = 91) = (x = 91) := by
  apply forall_uint8; decide

set_option maxRecDepth 100000 in
theorem toLower_eq_close : ∀ x : UInt8, (toLower x = 93) = (x = 93) := by
  apply forall_uint8; decide

set_option maxRecDepth 100000 in
theorem isDigit_toLower : ∀ x : UInt8, isDigit (toLower x) = isDigit x := by
  apply forall_uint8; decide

set_option maxRecDepth 100000 in
theorem toLower_of_isDigit : ∀ x : UInt8, isDigit x = true → toLower x = x := by
  apply forall_uint8; decide

@[simp] theorem lower_nil : lower [] = [] := rfl
@[simp] theorem lower_cons (x : UInt8) (s : Bytes) : lower (x :: s) = toLower x :: lower s := rfl
@[simp] theorem lower_append (a b : Bytes) : lower (a ++ b) = lower a ++ lower b := by
  simp [lower]

theorem lower_idem (s : Bytes) : lower (lower s) = lower s := by
  induction s with
  | nil => rfl
  | cons x s ih => simp [ih, toLower_idem]

theorem lower_of_digits (s : Bytes) (h : s.all isDigit = true) : lower s = s := by
  induction s with
  | nil => rfl
  | cons x s ih =>
    simp only [List.all_cons, Bool.and_eq_true] at h
    simp [ih h.2, toLower_of_isDigit x h.1]

theorem all_isDigit_lower (s : Bytes) : (lower s).all isDigit = s.all isDigit := by
  induction s with
  | nil => rfl
  | cons x s ih => simp [ih, isDigit_toLower]

theorem mem_lower_of_fixed (c : UInt8) (hc : ∀ x, (toLower x = c) = (x = c)) (s : Bytes) :
    c ∈ lower s ↔ c ∈ s := by
  induction s with
  | nil => simp
  | cons x s ih =>
    simp only [lower_cons, List.mem_cons, ih]
    constructor
    · rintro (h | h)
      · left; exact ((hc x).mp h.symm).symm
      · right; exact h
    · rintro (h | h)
      · left; exact ((hc x).mpr h.symm).symm
      · right; exact h

theorem colon_mem_lower (s : Bytes) : (58 : UInt8) ∈ lower s ↔ (58 : UInt8) ∈ s :=
  mem_lower_of_fixed 58 toLower_eq_colon s
theorem dot_mem_lower (s : Bytes) : (46 : UInt8) ∈ lower s ↔ (46 : UInt8) ∈ s :=
  mem_lower_of_fixed 46 toLower_eq_dot s

/-! ### splitLast -/

theorem splitLast_none {c : UInt8} {s : Bytes} (h : c ∉ s) : splitLast c s = none := by
  induction s with
  | nil => rfl
  | cons x s ih =>
    simp only [List.mem_cons, not_or] at h
    simp [splitLast, ih h.2, Ne.symm h.1]

theorem splitLast_append {c : UInt8} (a p : Bytes) (h : c ∉ p) :
    splitLast c (a ++ c :: p) = some (a, p) := by
  induction a with
  | nil => simp [splitLast, splitLast_none h]
  | cons x a ih => simp [splitLast, ih]

/-- Appending a byte other than the separator extends the part after the last separator. -/
theorem splitLast_concat {c x : UInt8} (hx : x ≠ c) (s : Bytes) :
    splitLast c (s ++ [x]) = (splitLast c s).map fun ap => (ap.1, ap.2 ++ [x]) := by
  induction s with
  | nil => simp [splitLast, hx]
  | cons y s ih =>
    simp only [List.cons_append, splitLast, ih]
    cases h : splitLast c s with
    | none => by_cases hy : y = c <;> simp [hy]
    | some ap => simp

/-! ### splitOn / joinWith -/

theorem splitOn_ne_nil (c : UInt8) (s : Bytes) : splitOn c s ≠ [] := by
  induction s with
  | nil => simp [splitOn]
  | cons x s ih =>
    unfold splitOn
    split
    · simp
    · split <;> simp

theorem splitOn_no_sep {c : UInt8} {s : Bytes} (h : c ∉ s) : splitOn c s = [s] := by
  induction s with
  | nil => rfl
  | cons x s ih =>
    simp only [List.mem_cons, not_or] at h
    simp [splitOn, Ne.symm h.1, ih h.2]

theorem splitOn_append_sep {c : UInt8} (l rest : Bytes) (h : c ∉ l) :
    splitOn c (l ++ c :: rest) = l :: splitOn c rest := by
  induction l with
  | nil => simp [splitOn]
  | cons x l ih =>
    simp only [List.mem_cons, not_or] at h
    simp [splitOn, Ne.symm h.1, ih h.2]

theorem splitOn_joinWith {c : UInt8} (ls : List Bytes) (hne : ls ≠ [])
    (h : ∀ l ∈ ls, c ∉ l) : splitOn c (joinWith c ls) = ls := by
  induction ls with
  | nil => exact absurd rfl hne
  | cons l ls ih =>
    cases ls with
    | nil => simpa [joinWith] using splitOn_no_sep (h l (by simp))
    | cons q qs =>
      simp only [joinWith]
      rw [splitOn_append_sep l _ (h l (by simp))]
      rw [ih (by simp) (fun l' hl' => h l' (List.mem_cons_of_mem _ hl'))]

theorem splitOn_lower (s : Bytes) : splitOn 46 (lower s) = (splitOn 46 s).map lower := by
  induction s with
  | nil => rfl
  | cons x s ih =>
    simp only [lower_cons, splitOn, ih, toLower_eq_dot]
    by_cases hx : x = 46
    · simp [hx]
    · simp only [hx, if_false]
      cases h : splitOn 46 s with
      | nil => exact absurd h (splitOn_ne_nil _ _)
      | cons p ps => simp

theorem joinWith_lower (ls : List Bytes) :
    joinWith 46 (ls.map lower) = lower (joinWith 46 ls) := by
  induction ls with
  | nil => rfl
  | cons l ls ih =>
    cases ls with
    | nil => rfl
    | cons q qs =>
      simp only [List.map_cons, joinWith, lower_append, lower_cons] at ih ⊢
      rw [ih]
      rfl

theorem mem_joinWith {c x : UInt8} (hx : x ≠ c) (ls : List Bytes) :
    x ∈ joinWith c ls → ∃ l ∈ ls, x ∈ l := by
  induction ls with
  | nil => simp [joinWith]
  | cons l ls ih =>
    cases ls with
    | nil => simp [joinWith]
    | cons q qs =>
      simp only [joinWith, List.mem_append, List.mem_cons]
      rintro (h | h | h)
      · exact ⟨l, by simp, h⟩
      · exact absurd h hx
      · obtain ⟨l', hl', hx'⟩ := ih h
        exact ⟨l', Or.inr (List.mem_cons.mp hl'), hx'⟩

/-- The spec's `pieces`/`glue` and the model's `splitOn`/`joinWith` are the same functions
(written twice so that the spec does not import the model). -/
theorem pieces_eq_splitOn (c : UInt8) (s : Bytes) : Req.Authority.pieces c s = splitOn c s := by
  induction s with
  | nil => rfl
  | cons x s ih =>
    unfold Req.Authority.pieces splitOn
    rw [ih]
    split
    · rfl
    · cases splitOn c s <;> rfl

theorem glue_eq_joinWith (c : UInt8) (ls : List Bytes) : Req.Authority.glue c ls = joinWith c ls := by
  induction ls with
  | nil => rfl
  | cons l ls ih =>
    cases ls with
    | nil => rfl
    | cons q qs => simp [Req.Authority.glue, joinWith, ih]

theorem getLast?_joinWith {c : UInt8} (ls : List Bytes) (hne : ls ≠ [])
    (hl : ls.getLast? ≠ some []) :
    (joinWith c ls).getLast? = (ls.getLast?.bind List.getLast?) := by
  induction ls with
  | nil => exact absurd rfl hne
  | cons l ls ih =>
    cases ls with
    | nil => simp [joinWith]
    | cons q qs =>
      have hl' : (q :: qs).getLast? ≠ some [] := by simpa [List.getLast?_cons_cons] using hl
      have := ih (by simp) hl'
      simp only [joinWith, List.getLast?_cons_cons]
      rw [List.getLast?_append, List.getLast?_cons]
      have hne' : joinWith c (q :: qs) ≠ [] ∨ True := Or.inr trivial
      rw [this]
      cases h : ((q :: qs).getLast?.bind List.getLast?) with
      | none =>
        -- the last label is non-empty, so this cannot happen
        exfalso
        cases hq : (q :: qs).getLast? with
        | none => simp at hq
        | some z =>
          rw [hq] at h hl'
          simp only [Option.bind_some] at h
          have : z = [] := List.getLast?_eq_none_iff.mp h
          exact hl' (by rw [this])
      | some z => simp

/-! ### dec-octet: Go's numeric check = the RFC 3986 alternatives -/

theorem isDigit_iff (c : UInt8) : isDigit c = true ↔ 48 ≤ c.toNat ∧ c.toNat ≤ 57 := by
  simp [isDigit, UInt8.le_iff_toNat_le]

theorem eq_iff_toNat (a : UInt8) (n : Nat) (hn : n < 256) : a = UInt8.ofNat n ↔ a.toNat = n := by
  constructor
  · intro h; subst h; simp; omega
  · intro h; apply UInt8.toNat_inj.mp; simp; omega

open Req.Authority in
/-- `net.ParseIP`'s field check (1–3 digits, no leading zero, ≤ 255) accepts exactly the
`dec-octet` alternatives of RFC 3986. -/
theorem octetField_eq_decOctet (s : Bytes) : isOctetField s = isDecOctet s := by
  rw [Bool.eq_iff_iff]
  match s with
  | [] => simp [isOctetField, isDecOctet]
  | [a] =>
    simp [isOctetField, isDecOctet, octetValue, isDigit_iff]
    omega
  | [a, b] =>
    have h48 : a = 48 ↔ a.toNat = 48 := eq_iff_toNat a 48 (by omega)
    simp [isOctetField, isDecOctet, octetValue, isDigit_iff, UInt8.le_iff_toNat_le, h48]
    omega
  | [a, b, c] =>
    have h48 : a = 48 ↔ a.toNat = 48 := eq_iff_toNat a 48 (by omega)
    have h49 : a = 49 ↔ a.toNat = 49 := eq_iff_toNat a 49 (by omega)
    have h50 : a = 50 ↔ a.toNat = 50 := eq_iff_toNat a 50 (by omega)
    have h53 : b = 53 ↔ b.toNat = 53 := eq_iff_toNat b 53 (by omega)
    simp [isOctetField, isDecOctet, octetValue, isDigit_iff, UInt8.le_iff_toNat_le, h48, h49, h50, h53]
    omega
  | a :: b :: c :: d :: r =>
    simp [isOctetField, isDecOctet]

open Req.Authority in
theorem decOctet_digits (s : Bytes) (h : isDecOctet s = true) : s.all isDigit = true := by
  rw [← octetField_eq_decOctet] at h
  simp only [isOctetField, Bool.and_eq_true] at h
  exact h.1.1.2

open Req.Authority in
theorem decOctet_ne_nil (s : Bytes) (h : isDecOctet s = true) : s ≠ [] := by
  intro hs; subst hs; simp [isDecOctet] at h

theorem not_mem_of_digits {c : UInt8} (hc : isDigit c = false) (s : Bytes)
    (h : s.all isDigit = true) : c ∉ s := by
  intro hm
  have := List.all_eq_true.mp h c hm
  rw [hc] at this
  exact absurd this (by simp)

end Req.Lemmas.C11
