import Req.H2.Meta
/-! Invariants of the model of `readMetaFrame` (C05): what a returned `MetaHeadersFrame` guarantees. -/
set_option linter.unusedSimpArgs false
set_option linter.unusedVariables false
namespace Req.Lemmas.C05.Meta
open Req.H2.Meta Req.Proto

/-- `hpack.HeaderField.Size` summed over a field list -/
def fieldsSize : List (Bytes × Bytes) → Nat
  | [] => 0
  | f :: fs => f.1.length + f.2.length + 32 + fieldsSize fs

theorem fieldsSize_append (a b : List (Bytes × Bytes)) :
    fieldsSize (a ++ b) = fieldsSize a + fieldsSize b := by
  induction a with
  | nil => simp [fieldsSize]
  | cons f fs ih => simp [fieldsSize, ih]; omega

/-- a field the emit callback may store -/
def FieldOK (f : Bytes × Bytes) : Prop :=
  validValue f.2 = true ∧ (isPseudoName f.1 = true ∨ validWireName f.1 = true)

/-- invariant of the emit state: the stored fields fit the budget `M` together with what remains,
are individually valid, and no pseudo-header field follows a regular one. -/
structure Good (M : Nat) (s : St) : Prop where
  size : fieldsSize s.fields + s.remainSize ≤ M
  valid : ∀ f ∈ s.fields, FieldOK f
  order : s.sawRegular = false → ∀ f ∈ s.fields, isPseudoName f.1 = true
  prefix_ : ∀ a b, s.fields = a ++ b → ∀ f ∈ b, isPseudoName f.1 = true → ∀ g ∈ a, isPseudoName g.1 = true

theorem emit_good (M : Nat) (s : St) (n v : Bytes) (h : Good M s) : Good M (emit s n v) := by
  unfold emit
  simp only
  by_cases hbad : emitBad s n v = true
  · rw [if_pos hbad]
    refine ⟨h.size, h.valid, ?_, h.prefix_⟩
    intro hs
    simp only [Bool.or_eq_false_iff] at hs
    exact h.order hs.1
  rw [if_neg hbad]
  have hbad' : emitBad s n v = false := by simpa using hbad
  simp only [emitBad, Bool.or_eq_false_iff, Bool.not_eq_false'] at hbad'
  obtain ⟨⟨hinv, hval⟩, hname⟩ := hbad'
  by_cases hsz : n.length + v.length + 32 > s.remainSize
  · rw [if_pos hsz]
    refine ⟨by simp only [Nat.add_zero]; have := h.size; omega, h.valid, ?_, h.prefix_⟩
    intro hs
    simp only [Bool.or_eq_false_iff] at hs
    exact h.order hs.1
  rw [if_neg hsz]
  refine ⟨?_, ?_, ?_, ?_⟩
  · simp only [fieldsSize_append, fieldsSize]
    have := h.size
    omega
  · intro f hf
    simp only [List.mem_append, List.mem_singleton] at hf
    rcases hf with hf | rfl
    · exact h.valid f hf
    · refine ⟨hval, ?_⟩
      cases hp : isPseudoName n
      · right; simpa [hp] using hname
      · left; rfl
  · intro hs f hf
    simp only [Bool.or_eq_false_iff, Bool.not_eq_false'] at hs
    simp only [List.mem_append, List.mem_singleton] at hf
    rcases hf with hf | rfl
    · exact h.order hs.1 f hf
    · exact hs.2
  · intro a b hab f hf hpf g hg
    rcases List.eq_nil_or_concat b with rfl | ⟨b', x, rfl⟩
    · cases hf
    · rw [List.concat_eq_append, ← List.append_assoc] at hab
      obtain ⟨hfields, hx⟩ := List.append_inj' hab (by simp)
      simp only [List.cons.injEq, and_true] at hx
      subst hx
      simp only [List.concat_eq_append, List.mem_append, List.mem_singleton] at hf
      rcases hf with hf | rfl
      · exact h.prefix_ a b' hfields f hf hpf g hg
      · -- the new field is a pseudo-header: no regular field was seen, so all stored are pseudo
        simp only [hpf, if_true] at hname
        exact h.order hname g (by rw [hfields]; simp [hg])

theorem writeFrag_good (M : Nat) (evs : List Event) (s s' : St) (h : Good M s)
    (hw : writeFrag s evs = some s') : Good M s' := by
  induction evs generalizing s with
  | nil => simp [writeFrag] at hw; subst hw; exact h
  | cons e evs ih =>
    cases e with
    | decodeError => simp [writeFrag] at hw
    | field n v =>
      simp only [writeFrag] at hw
      split at hw
      · exact ih _ (emit_good M s n v h) hw
      · exact ih _ h hw

theorem fragLoop_good (M : Nat) (frags : List Frag) (s s' : St) (h : Good M s)
    (hl : fragLoop s frags = .ok s') : Good M s' := by
  induction frags generalizing s with
  | nil => simp [fragLoop] at hl; cases hl; exact h
  | cons f fs ih =>
    simp only [fragLoop] at hl
    split at hl; · cases hl
    split at hl; · cases hl
    split at hl; · cases hl
    next s1 hs1 => exact ih s1 (writeFrag_good M f.events s s1 h hs1) hl

theorem fragLoop_error_conn (frags : List Frag) (s : St) (o : Outcome)
    (hl : fragLoop s frags = .error o) : ∃ c, o = .conn c := by
  induction frags generalizing s with
  | nil => simp [fragLoop] at hl
  | cons f fs ih =>
    simp only [fragLoop] at hl
    split at hl; · cases hl; exact ⟨_, rfl⟩
    split at hl; · cases hl; exact ⟨_, rfl⟩
    split at hl; · cases hl; exact ⟨_, rfl⟩
    next s1 _ => exact ih s1 hl

/-- what a returned `MetaHeadersFrame` guarantees -/
theorem meta_ok_wellformed (maxList : Nat) (frags : List Frag) (closeErr : Bool)
    (fields : List (Bytes × Bytes)) (trunc : Bool)
    (h : readMeta maxList frags closeErr = .ok fields trunc) :
    fieldsSize fields ≤ maxHeaderListSize maxList ∧ (∀ f ∈ fields, FieldOK f) ∧
    (∀ a b, fields = a ++ b → ∀ f ∈ b, isPseudoName f.1 = true → ∀ g ∈ a, isPseudoName g.1 = true) ∧
    checkPseudos fields = true := by
  unfold readMeta at h
  split at h
  · next o ho =>
    obtain ⟨c, rfl⟩ := fragLoop_error_conn _ _ _ ho
    cases h
  next s hs =>
  have hg : Good (maxHeaderListSize maxList) s :=
    fragLoop_good _ frags _ s ⟨by simp [fieldsSize], by simp, by simp, by
      intro a b hab; have : a = [] ∧ b = [] := by simpa using hab.symm
      rcases this with ⟨rfl, rfl⟩; simp⟩ hs
  split at h; · cases h
  split at h; · cases h
  split at h; · cases h
  next hcp =>
  cases h
  exact ⟨by have := hg.size; omega, hg.valid, hg.prefix_, by simpa using hcp⟩

end Req.Lemmas.C05.Meta
