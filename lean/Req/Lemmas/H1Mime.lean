import Req.Lemmas.H1Line
/-!
Extension stability of the header-block reader: if `readMIMEHeader s` succeeds, the same map is
read from `s ++ t`, leaving `rest ++ t`.
-/
namespace Req.H1
open Req.Proto

theorem readCont_nil (fuel : Nat) (acc : Bytes) : readCont fuel acc [] = (acc, []) := by
  cases fuel <;> simp [readCont, countOWS]

/-- With enough fuel the continuation loop stops in front of a non-blank byte (or at the end). -/
theorem readCont_stops {fuel : Nat} {acc s kv r : Bytes} (hf : s.length < fuel)
    (h : readCont fuel acc s = (kv, r)) : countOWS r = 0 := by
  induction fuel generalizing acc s with
  | zero => omega
  | succ fuel ih =>
    simp only [readCont] at h
    split at h
    · next hn => simp at h; obtain ⟨_, rfl⟩ := h; exact hn
    · next hn =>
      cases hl : readLine (s.drop (countOWS s)) with
      | none => simp [hl] at h; obtain ⟨_, rfl⟩ := h; simp [countOWS]
      | some p =>
        obtain ⟨l, rest⟩ := p
        simp only [hl] at h
        have h1 := readLine_length hl
        have h2 : (s.drop (countOWS s)).length ≤ s.length - 1 := by
          simp only [List.length_drop]; omega
        exact ih (by omega) h

theorem readCont_append {fuel : Nat} {acc s kv r : Bytes}
    (h : readCont fuel acc s = (kv, r)) (hr : r ≠ []) (hz : countOWS r = 0)
    (t : Bytes) (fuel' : Nat) (hf : fuel ≤ fuel') :
    readCont fuel' acc (s ++ t) = (kv, r ++ t) := by
  induction fuel generalizing acc s fuel' with
  | zero =>
    simp only [readCont, Prod.mk.injEq] at h
    obtain ⟨rfl, rfl⟩ := h
    cases fuel' with
    | zero => simp [readCont]
    | succ f => simp [readCont, countOWS_zero_append hr hz]
  | succ fuel ih =>
    obtain ⟨f', rfl⟩ : ∃ f', fuel' = f' + 1 := ⟨fuel' - 1, by omega⟩
    simp only [readCont] at h
    split at h
    · next hn =>
      simp only [Prod.mk.injEq] at h
      obtain ⟨rfl, rfl⟩ := h
      simp [readCont, countOWS_zero_append hr hn]
    · next hn =>
      cases hl : readLine (s.drop (countOWS s)) with
      | none => simp [hl] at h; obtain ⟨_, rfl⟩ := h; exact absurd rfl hr
      | some p =>
        obtain ⟨l, rest⟩ := p
        simp only [hl] at h
        -- some byte follows the blanks, otherwise the line read would have failed
        have hlt : countOWS s < s.length := by
          rcases Nat.lt_or_ge (countOWS s) s.length with h' | h'
          · exact h'
          · have : s.drop (countOWS s) = [] := List.drop_eq_nil_of_le h'
            simp [this, readLine] at hl
        have hc := countOWS_append hlt t
        have hd : (s ++ t).drop (countOWS s) = s.drop (countOWS s) ++ t :=
          List.drop_append_of_le_length (Nat.le_of_lt hlt)
        -- the continuation line was terminated, otherwise nothing would be left
        have hstable : readLine (s.drop (countOWS s) ++ t) = some (l, rest ++ t) := by
          rcases readLine_cases hl with h' | ⟨h1, _, _⟩
          · exact h' t
          · subst h1
            rw [readCont_nil] at h
            exact absurd (Prod.mk.inj h).2.symm hr
        simp only [readCont, hc, hn, if_false, hd, hstable]
        exact ih h f' (by omega)

/-- On an empty stream the loop fails (the blank line is missing). -/
theorem mimeLoop_nil (fuel : Nat) (m : HeaderMap) : mimeLoop fuel m [] = none := by
  cases fuel <;> simp [mimeLoop, readLine]

theorem mimeLoop_append {fuel : Nat} {m res : HeaderMap} {s r : Bytes}
    (h : mimeLoop fuel m s = some (res, r)) (t : Bytes) (fuel' : Nat) (hf : fuel ≤ fuel') :
    mimeLoop fuel' m (s ++ t) = some (res, r ++ t) := by
  induction fuel generalizing m s fuel' with
  | zero => simp [mimeLoop] at h
  | succ fuel ih =>
    obtain ⟨f', rfl⟩ : ∃ f', fuel' = f' + 1 := ⟨fuel' - 1, by omega⟩
    simp only [mimeLoop] at h
    cases hl : readLine s with
    | none => simp [hl] at h
    | some p =>
      obtain ⟨l, rest⟩ := p
      simp only [hl] at h
      split at h
      · next he =>
        -- blank line
        simp only [Option.some.injEq, Prod.mk.injEq] at h
        obtain ⟨rfl, rfl⟩ := h
        have hle : l = [] := by simpa using he
        subst hle
        simp [mimeLoop, readLine_empty_stable hl t]
      · next he =>
        split at h
        · simp at h
        · next hcolon =>
          cases hc : readCont (rest.length + 1) (trimOWS l) rest with
          | mk kv rest' =>
            simp only [hc] at h
            cases ha : addHeaderLine m kv with
            | none => simp [ha] at h
            | some m' =>
              simp only [ha] at h
              have hrest' : rest' ≠ [] := by
                intro hnil
                subst hnil
                rw [mimeLoop_nil] at h
                simp at h
              have hz : countOWS rest' = 0 := readCont_stops (Nat.lt_succ_self _) hc
              have hstable : readLine (s ++ t) = some (l, rest ++ t) := by
                rcases readLine_cases hl with h' | ⟨h1, _, _⟩
                · exact h' t
                · subst h1
                  rw [readCont_nil] at hc
                  exact absurd (Prod.mk.inj hc).2.symm hrest'
              have hc' := readCont_append hc hrest' hz t ((rest ++ t).length + 1)
                (by simp)
              simp only [mimeLoop, hstable, he, hcolon, hc', ha]
              exact ih h f' (by omega)

theorem readMIMEHeader_append {s r : Bytes} {res : HeaderMap}
    (h : readMIMEHeader s = some (res, r)) (t : Bytes) :
    readMIMEHeader (s ++ t) = some (res, r ++ t) := by
  cases s with
  | nil => simp [readMIMEHeader] at h
  | cons c cs =>
    simp only [readMIMEHeader] at h
    split at h
    · simp at h
    · next hc =>
      simp only [readMIMEHeader, List.cons_append, hc]
      have := mimeLoop_append h t ((c :: cs ++ t).length + 1) (by simp)
      simpa using this

end Req.H1
