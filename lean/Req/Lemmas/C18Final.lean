import Req.Lemmas.C18Bind
/-!
Helper lemmas for C18: provenance. Every `*Response` value that travels through the repaired
pipeline is COHERENT: the http response it carries is the scripted outcome of the exchange its
`tag` names (first exchange of attempt `tag / 2`, or the digest re-send of that attempt), and a
cached body is the body of that same exchange. Together with `Agrees` (slots ⇔ that http
response) this is what "the binding belongs to the final exchange" rests on.
-/
namespace Req.Pipeline
open Req.Result

/-- `h` is what the script answers to the exchange `tag`: exchange `2a` is the transport call of
attempt `a`, exchange `2a + 1` the re-send of a digest middleware of attempt `a`. -/
def HttpOf (s : Stack) (tag : Nat) (h : Http) : Prop :=
  (tag % 2 = 0 ∧ s.transportAt (tag / 2) = .resp h) ∨
  (tag % 2 = 1 ∧ ∃ ok, RAct.digest ok (.resp h) ∈ s.reqRespAt (tag / 2))

/-- Coherence of one response value. -/
def Coh (s : Stack) (r : Resp) : Prop :=
  (∀ h, r.http = some h → HttpOf s r.tag h) ∧
  (r.bodyCached = true → r.http ≠ none → r.bodyOf = r.tag)

def CohO (s : Stack) (resp : Option Resp) : Prop := ∀ r, resp = some r → Coh s r

theorem Coh.of_eq {s : Stack} {r r' : Resp} (h : Coh s r) (h1 : r'.http = r.http) (h2 : r'.tag = r.tag)
    (h3 : r'.bodyCached = r.bodyCached) (h4 : r'.bodyOf = r.bodyOf) : Coh s r' := by
  unfold Coh at h ⊢; rw [h1, h2, h3, h4]; exact h

theorem coh_nohttp (s : Stack) (r : Resp) (h : r.http = none) : Coh s r := by
  unfold Coh; simp [h]

theorem coh_fresh (s : Stack) (o : Origin) (e : Option Err) : Coh s { origin := o, err := e } :=
  coh_nohttp s _ rfl

theorem Coh.set_err {s : Stack} {r : Resp} (h : Coh s r) (e : Option Err) : Coh s { r with err := e } :=
  h.of_eq rfl rfl rfl rfl

theorem exchange_coh (s : Stack) (a : Nat) : Coh s (exchange s a).1 := by
  unfold exchange
  split
  · exact coh_nohttp s _ rfl
  · rename_i h ht
    refine ⟨?_, by simp⟩
    intro h' hh
    simp only [Option.some.injEq] at hh
    subst hh
    left
    simp only
    exact ⟨by omega, by rw [Nat.mul_div_cancel_left a (by omega : 0 < 2)]; exact ht⟩

theorem autoRead_coh (s : Stack) (r : Resp) (h : Coh s r) : Coh s (autoRead s r).1 := by
  unfold autoRead
  split
  · split
    · split
      · exact ⟨h.1, by intro _ _; rfl⟩
      · exact ⟨h.1, by intro _ _; rfl⟩
    · exact h
  · exact h

theorem parseResp_coh (s : Stack) (r : Resp) (h : Coh s r) : Coh s (parseResp s r).resp := by
  unfold parseResp
  refine ⟨h.1, ?_⟩
  simp only
  intro hc hh
  split
  · rename_i hrc; exact h.2 hrc hh
  · rfl

theorem parsed_coh (s : Stack) (r : Resp) (h : Coh s r) :
    Coh s (match (parseResp s r).ret with
      | some e => ({ (parseResp s r).resp with err := some e } : Resp)
      | none => (parseResp s r).resp) := by
  have hp := parseResp_coh s r h
  split
  · exact hp.set_err _
  · exact hp

theorem download_coh (s : Stack) (a : Nat) (r : Resp) (h : Coh s r) : Coh s (download s a r).1 := by
  unfold download
  split
  · exact h
  · split
    · exact h
    · split
      · exact h.set_err _
      · exact h.of_eq rfl rfl rfl rfl

theorem clientAct_coh (s : Stack) (r : Resp) (act : RespAct) (h : Coh s r) : Coh s (clientAct r act).1 := by
  cases act <;> first | exact h | exact h.set_err _

theorem clientLoop_coh (s : Stack) (acts : List RespAct) : ∀ i r, Coh s r → Coh s (clientLoop i acts r).1 := by
  induction acts with
  | nil => intro i r h; exact h
  | cons act rest ih =>
    intro i r h
    simp only [clientLoop]
    exact ih _ _ (clientAct_coh s r act h)

theorem clientRoundTrip_coh (s : Stack) (a : Nat) : CohO s (clientRoundTrip s a).resp := by
  unfold clientRoundTrip
  split
  · intro r hr; cases hr; exact coh_nohttp s _ rfl
  · intro r hr
    simp only [Option.some.injEq] at hr
    subst hr
    exact clientLoop_coh s _ _ _ (download_coh s a _ (parsed_coh s _ (autoRead_coh s _ (exchange_coh s a))))

theorem runWrappers_coh (s : Stack) (a : Nat) (core : RT) (hc : CohO s core.resp) (ws : List (Nat × WAct)) :
    CohO s (runWrappers a core ws).resp := by
  induction ws with
  | nil => exact hc
  | cons w rest ih =>
    obtain ⟨i, act⟩ := w
    cases act <;> simp only [runWrappers]
    · exact ih
    · intro r hr; cases hr
    · intro r hr; cases hr; exact coh_nohttp s _ rfl
    · intro r hr; cases hr
    · exact ih
    · intro r hr; cases hr
    · exact ih
    · intro r hr
      simp only [Option.map_eq_some_iff] at hr
      obtain ⟨r0, hr0, rfl⟩ := hr
      exact (ih r0 hr0).set_err _

theorem nilGuard_coh (s : Stack) (resp : Option Resp) (err : Option Err) (h : CohO s resp) :
    CohO s (nilGuard resp err) := by
  intro r hr
  unfold nilGuard at hr
  simp only [Option.some.injEq] at hr
  subst hr
  rcases resp with _ | r0
  · simp only; split <;> exact coh_nohttp s _ rfl
  · simp only; split
    · exact (h r0 rfl).set_err _
    · exact h r0 rfl

theorem deferred_coh (s : Stack) (resp : Option Resp) (err : Option Err) (h : CohO s resp) :
    CohO s (deferred resp err) := by
  intro r hr
  unfold deferred at hr
  simp only [Option.some.injEq] at hr
  subst hr
  rcases resp with _ | r0
  · simp only; split <;> exact coh_nohttp s _ rfl
  · simp only; split
    · exact (h r0 rfl).set_err _
    · exact h r0 rfl

def StepOut.respO : StepOut → Option Resp
  | .cont r _ => r
  | .stop r _ _ => r
  | .crash => none

theorem rebind_coh (s : Stack) (a : Nat) (r : Resp) (h : Coh s r) : CohO s (rebind s a r).respO := by
  have hp := parseResp_coh s _ (autoRead_coh s r h)
  unfold rebind
  simp only
  split
  · intro r' hr'; simp only [StepOut.respO, Option.some.injEq] at hr'; subst hr'; exact hp
  · split
    · split
      · intro r' hr'; simp only [StepOut.respO, Option.some.injEq] at hr'; subst hr'; exact hp
      · intro r' hr'; simp only [StepOut.respO, Option.some.injEq] at hr'; subst hr'; exact hp.of_eq rfl rfl rfl rfl
    · intro r' hr'; simp only [StepOut.respO, Option.some.injEq] at hr'; subst hr'; exact hp

theorem digestStep_coh (s : Stack) (a : Nat) (ok : Bool) (re : TOut) (r : Resp) (h : Coh s r)
    (hmem : RAct.digest ok re ∈ s.reqRespAt a) :
    CohO s (digestStep Fixes.all s a ok re r).respO := by
  have keep : CohO s (some r) := by intro r' hr'; cases hr'; exact h
  unfold digestStep
  split
  · exact keep
  · split
    · simp only [Fixes.all, if_true]; exact keep
    · split
      · exact keep
      · split
        · exact keep
        · -- the second exchange
          cases re with
          | fail e =>
            intro r' hr'
            simp only [digestResend, StepOut.respO, Option.some.injEq] at hr'
            subst hr'
            exact coh_nohttp s _ rfl
          | resp h2 =>
            simp only [digestResend, Fixes.all, if_true]
            apply rebind_coh
            refine ⟨?_, ?_⟩
            · intro h' hh
              simp only [Option.some.injEq] at hh
              subst hh
              right
              simp only
              refine ⟨by omega, ok, ?_⟩
              have : (2 * a + 1) / 2 = a := by omega
              rw [this]; exact hmem
            · intro hc; simp [forget, Fixes.all] at hc

theorem stageStep_coh (s : Stack) (a : Nat) (r : Resp) (act : RAct) (h : Coh s r) (hmem : act ∈ s.reqRespAt a) :
    CohO s (stageStep Fixes.all s a (some r) act).respO := by
  cases act with
  | mw m =>
    cases m <;> simp only [stageStep, reqSet, StepOut.respO, Option.map_some] <;> intro r' hr' <;> cases hr' <;>
      first | exact h | exact h.set_err _
  | digest ok re => simpa [stageStep] using digestStep_coh s a ok re r h hmem

theorem reqRespLoop_coh (s : Stack) (a : Nat) (acts : List RAct) :
    ∀ i r err, Coh s r → (∀ act ∈ acts, act ∈ s.reqRespAt a) →
      CohO s (reqRespLoop Fixes.all s a i acts (some r) err).resp := by
  induction acts with
  | nil => intro i r err h _ r' hr'; simp only [reqRespLoop, Option.some.injEq] at hr'; subst hr'; exact h
  | cons act rest ih =>
    intro i r err h hm
    have hs := stageStep_coh s a r act h (hm act (by simp))
    have hsome := stageStep_some Fixes.all rfl s a r act
    simp only [reqRespLoop]
    rcases hst : stageStep Fixes.all s a (some r) act with ⟨r1, evs⟩ | ⟨r1, e, evs⟩ | _
    · rw [hst] at hs hsome
      simp only [StepOut.resp?] at hsome
      obtain ⟨r1', rfl⟩ := Option.isSome_iff_exists.mp hsome.2
      simp only
      exact ih _ _ _ (hs r1' rfl) (fun x hx => hm x (by simp [hx]))
    · rw [hst] at hs
      simp only
      exact hs
    · rw [hst] at hsome; simp [StepOut.isCrash] at hsome

/-- An attempt of the repaired code leaves a coherent response (given that the one `do` held
before was coherent: a failing request middleware returns that one). -/
theorem attempt_coh (s : Stack) (a : Nat) (prev : Option Resp) (hp : CohO s prev) :
    CohO s (attempt Fixes.all s a prev).resp := by
  rcases attempt_request_phase Fixes.all s a prev with ⟨k, e, _, _, _, _, _, _, h7, _⟩ | ⟨hok, ⟨e, _, _, _, _, h7, _⟩ | ⟨hb, _⟩⟩
  · rw [h7]; exact hp
  · rw [h7]; exact hp
  · rw [attempt_eq_of_ok Fixes.all s a prev hok hb]
    simp only [Fixes.all, if_true]
    have h1 := runWrappers_coh s a _ (clientRoundTrip_coh s a) (wrapChain (s.wrapAt a))
    have h2 := nilGuard_coh s _ (runWrappers a (clientRoundTrip s a) (wrapChain (s.wrapAt a))).err h1
    obtain ⟨r, hr⟩ := nilGuard_some (runWrappers a (clientRoundTrip s a) (wrapChain (s.wrapAt a))).resp
      (runWrappers a (clientRoundTrip s a) (wrapChain (s.wrapAt a))).err
    rw [hr] at h2 ⊢
    exact reqRespLoop_coh s a (s.reqRespAt a) 0 r _ (h2 r rfl) (fun _ h => h)

theorem applyHook_coh (s : Stack) (r : Resp) (h : HookAct) (hc : Coh s r) : Coh s (applyHook r h) := by
  cases h
  · exact hc
  · exact hc.set_err _
  · exact hc.set_err _

theorem cleanup_coh (s : Stack) (r : Resp) (h : Coh s r) : Coh s (cleanup r) := by
  unfold cleanup
  exact ⟨h.1, by intro hc; simp at hc⟩

theorem doLoop_coh (s : Stack) :
    ∀ fuel a prev, CohO s prev → CohO s (doLoop Fixes.all s fuel a prev).resp := by
  intro fuel
  induction fuel with
  | zero => intro a prev _ r hr; simp [doLoop, exhaustedOut] at hr
  | succ fuel ih =>
    intro a prev hp
    have ha := attempt_coh s a prev hp
    have hstop : CohO s (stopOut (attempt Fixes.all s a prev)).resp := by
      simp only [stopOut]; exact deferred_coh s _ _ ha
    simp only [doLoop]
    split
    · intro r hr; simp [crashOut] at hr
    · split
      · exact hstop
      · split
        · exact hstop
        · split
          · split
            · intro r hr; simp [crashOut] at hr
            · rename_i r0 hr0
              split
              · intro r hr
                simp only [waitOut, Option.some.injEq] at hr
                subst hr
                exact (applyHook_coh s r0 _ (ha r0 hr0)).set_err _
              · exact ih _ _ (by intro r hr; cases hr; exact cleanup_coh s _ (applyHook_coh s r0 _ (ha r0 hr0)))
          · exact hstop

theorem callDo_coh (s : Stack) : CohO s (callDo Fixes.all s).resp := by
  rcases callDo_cases Fixes.all s with ⟨e, _, h⟩ | h
  · rw [h]; intro r hr; cases hr; exact coh_nohttp s _ rfl
  · rw [h]; exact doLoop_coh s _ _ none (by intro r h; cases h)

end Req.Pipeline
