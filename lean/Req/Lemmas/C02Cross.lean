import Req.C02.H2Recv
import Req.Lemmas.C02Head
/-!
One field list, three protocols: the HTTP/1.1 field-block reader, the HTTP/2 `handleResponse`
and the HTTP/3 `parseHeaders`/`updateResponseFromHeaders` hand the caller the same header:
every field under its canonical name, with its value, in the origin's order.
-/
namespace Req.C02
open Req.Proto Req.Ascii

def kStatus : Bytes := [58, 115, 116, 97, 116, 117, 115]
def kTrailer : Bytes := [84, 114, 97, 105, 108, 101, 114]
def kContentLengthLower : Bytes := [99, 111, 110, 116, 101, 110, 116, 45, 108, 101, 110, 103, 116, 104]

/-- An ordinary response field as HTTP/2 and HTTP/3 carry it: lower-case token name that is
not a pseudo field, not connection-specific, not `te`, `content-length` or `trailer` (those
have their own handling), and a valid value. -/
def PlainField (kv : Bytes × Bytes) : Prop :=
  kv.1.any isUpper = false ∧ validFieldName kv.1 = true ∧ isPseudo kv.1 = false ∧
  invalidH3Names.contains kv.1 = false ∧ (kv.1 == [116, 101]) = false ∧
  (kv.1 == kContentLengthLower) = false ∧ (canonicalMIMEHeaderKey kv.1 == kTrailer) = false ∧
  validFieldValue kv.2 = true

def canonKV (kv : Bytes × Bytes) : Bytes × Bytes := (canonicalMIMEHeaderKey kv.1, kv.2)

theorem h3_go_plain (fs : Fields) (hfs : ∀ kv ∈ fs, PlainField kv) (saw : Bool) (status cl : Option Bytes)
    (acc : Fields) :
    h3ParseHead.go fs saw status cl acc = some (status, cl, acc.reverse ++ fs.map canonKV) := by
  induction fs generalizing saw acc with
  | nil => simp [h3ParseHead.go]
  | cons kv rest ih =>
    obtain ⟨name, value⟩ := kv
    obtain ⟨h1, h2, h3, h4, h5, h6, _, h8⟩ := hfs (name, value) (by simp)
    simp only at h1 h2 h3 h4 h5 h6 h8
    have h6' : (name == [99, 111, 110, 116, 101, 110, 116, 45, 108, 101, 110, 103, 116, 104]) = false := h6
    unfold h3ParseHead.go
    simp only [h1, h2, h3, h4, h5, h6', h8, Bool.false_eq_true, if_false, Bool.not_true, false_and, Bool.not_false]
    rw [ih (fun kv' h' => hfs kv' (by simp [h'])) true _]
    simp [canonKV]

/-- HTTP/3: `parseHeaders` + `updateResponseFromHeaders` on `:status` followed by plain fields. -/
theorem h3_head_plain (fs : Fields) (hfs : ∀ kv ∈ fs, PlainField kv) (sv : Bytes) (code : Nat)
    (hne : sv ≠ []) (hsv : natOfDigits sv = some code) (hval : validFieldValue sv = true) :
    h3ParseHead ((kStatus, sv) :: fs) =
      some { status := code, fields := fs.map canonKV, contentLength := none, trailerKeys := [] } := by
  have hgo : h3ParseHead.go ((kStatus, sv) :: fs) false none none [] = some (some sv, none, fs.map canonKV) := by
    unfold h3ParseHead.go
    have hup : kStatus.any isUpper = false := by decide
    have hps : isPseudo kStatus = true := by decide
    have heq : (kStatus == [58, 115, 116, 97, 116, 117, 115]) = true := by decide
    simp only [hup, hval, hps, heq, Bool.false_eq_true, if_false, Bool.not_true, if_true]
    rw [h3_go_plain fs hfs false (some sv) none []]
    simp
  unfold h3ParseHead
  rw [hgo]
  have hemp : sv.isEmpty = false := by cases sv <;> simp_all
  have hnotr : ∀ kv ∈ fs.map canonKV, (kv.1 != [84, 114, 97, 105, 108, 101, 114]) = true := by
    intro kv hkv
    simp only [List.mem_map] at hkv
    obtain ⟨kv0, h0, rfl⟩ := hkv
    have := (hfs kv0 h0).2.2.2.2.2.2.1
    simp only [canonKV, bne_iff_ne, ne_eq]
    intro heq
    simp [kTrailer, heq] at this
  have hfilter : (fs.map canonKV).filter (fun x => x.1 != [84, 114, 97, 105, 108, 101, 114]) = fs.map canonKV :=
    List.filter_eq_self.mpr hnotr
  have hfilter2 : (fs.map canonKV).filter (fun x => x.1 == [84, 114, 97, 105, 108, 101, 114]) = [] := by
    apply List.filter_eq_nil_iff.mpr
    intro kv hkv
    have := hnotr kv hkv
    simpa using this
  simp only [hemp, parseStatus, hsv, Bool.false_eq_true, if_false, hfilter, hfilter2, List.map_nil]

/-- HTTP/2: `handleResponse`'s header map for `:status` followed by plain fields. -/
theorem h2_fields_plain (fs : Fields) (hfs : ∀ kv ∈ fs, PlainField kv) (sv : Bytes) :
    h2StatusValue ((kStatus, sv) :: fs) = some sv ∧ h2Fields ((kStatus, sv) :: fs) = fs.map canonKV ∧
    h2Declared ((kStatus, sv) :: fs) = [] := by
  have hps : isPseudo kStatus = true := by decide
  have hreg : h2Regular ((kStatus, sv) :: fs) = fs.map canonKV := by
    unfold h2Regular
    simp only [List.filter_cons, hps, Bool.not_true, Bool.false_eq_true, if_false]
    have : fs.filter (fun kv => !isPseudo kv.1) = fs := by
      apply List.filter_eq_self.mpr
      intro kv hkv
      simp [(hfs kv hkv).2.2.1]
    rw [this]
    rfl
  have hnotr : ∀ kv ∈ fs.map canonKV, (kv.1 != [84, 114, 97, 105, 108, 101, 114]) = true := by
    intro kv hkv
    simp only [List.mem_map] at hkv
    obtain ⟨kv0, h0, rfl⟩ := hkv
    have := (hfs kv0 h0).2.2.2.2.2.2.1
    simp only [canonKV, bne_iff_ne, ne_eq]
    intro heq
    simp [kTrailer, heq] at this
  refine ⟨?_, ?_, ?_⟩
  · simp [h2StatusValue, kStatus]
  · unfold h2Fields
    rw [hreg]
    exact List.filter_eq_self.mpr hnotr
  · unfold h2Declared
    rw [hreg]
    have : (fs.map canonKV).filter (fun x => x.1 == [84, 114, 97, 105, 108, 101, 114]) = [] := by
      apply List.filter_eq_nil_iff.mpr
      intro kv hkv
      have := hnotr kv hkv
      simpa using this
    rw [this]
    rfl

end Req.C02

namespace Req.C02
open Req.Proto Req.Ascii

/-- The HTTP/1.1 spelling of a field: `name ": " value`. -/
def toWField (kv : Bytes × Bytes) : WField := ⟨kv.1, [32], kv.2, []⟩

theorem toWField_ok (kv : Bytes × Bytes) (h : PlainField kv) (hv : ValueOK kv.2) : (toWField kv).OK := by
  obtain ⟨_, h2, _⟩ := h
  unfold validFieldName at h2
  simp only [Bool.and_eq_true, Bool.not_eq_true'] at h2
  refine ⟨?_, h2.2, hv, by intro x hx; simp [toWField] at hx; subst hx; decide, by simp [toWField]⟩
  intro h0
  simp [toWField] at h0
  simp [h0] at h2

theorem fieldsOf_toWField (fs : Fields) : fieldsOf (fs.map toWField) = fs.map canonKV := by
  simp [fieldsOf, toWField, canonKV, List.map_map, Function.comp_def]

end Req.C02
